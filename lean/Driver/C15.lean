import TexcraftModel.Util.Proto
import TexcraftModel.Model.C15
import TexcraftModel.Model.C15Font

/-! Driver for C15 (hpack). Two requests: `hp` (below) and

`tf <F> {<id> <nchars> {<c> <wi> <hi> <di>}* <nw> <w>* <nh> <h>* <nd> <d>*}^F <mode> <amount>
<n> <node>… <rflag> […]` — the font repository as raw TFM tables (tables already scaled),
nodes `20|21 <char> <font>` (Char|Ligature) or any `hp` item; reply `unregistered-font` (the
real code must panic) or the `hp` reply followed by `tdims=<b>` (theorem `hpack_tfm_dims`
evaluated: the model's dimensions equal the sums/maxima read off the raw tables).

`hp <mode> <amount> <n> <item>… <rflag> [<h> <w> <d> <order> <num> <den>]`

`mode` 0 = exact, 1 = additional. Items (all integers):
`0|1 fw w fh h fd d` char|ligature with the font repository's answers (flag 0 = `None`),
`2|3 h w d s` hbox|vbox, `4 h w d` rule, `5 w st so sh sho` glue, `6 w` kern,
`7 p` penalty, `8` discretionary, `9` whatsit. `rflag` 1 = the real `HBox::pack` returned
the six values that follow, 0 = it did not return (panic).

Reply: `fits=<b> fitsold=<b> M <h w d o num den> O <…unpatched model…> S <h w d sign o num den>
ms=<b> is=<b> dims=<b> ord=<b> rat=<b> tex=<case> zhi=<b>` where `ms` = model agrees with
the spec, `is`/`dims`/`ord`/`rat` = the *real* output agrees with the spec (whole / per
clause; 1 when there is no real output), `tex` = the branch TeX takes, `zhi` = some glue
item has an order above TeX's chosen one for the relevant sign (its total is zero), `small` =
TeX's size discipline `Small` holds (then `fits` must be 1: theorem `small_inRange`), `fill` =
`fillsExactly` on the real box (node-by-node set widths add up to the box width), `mfill` = the
same on the model's box (theorem `hpack_fills`), `le` = the `<=` variant `hpackLe` agrees with
TeX (theorem `hpackLe_eq_tex`). -/
open C15 Proto

namespace DrvC15

def b2i (b : Bool) : Int := if b then 1 else 0

def decOrder : Int → Option Order
  | 0 => some .normal | 1 => some .fil | 2 => some .fill | 3 => some .filll | _ => none
def encOrder (o : Order) : Int := o.toNat
def encSign : Sign → Int | .normal => 0 | .stretching => 1 | .shrinking => 2

def opt (f v : Int) : Option Int := if f = 0 then none else some v

def decItem (c : Cur) : Option (Item × Cur) :=
  match c with
  | 0 :: fw :: w :: fh :: h :: fd :: d :: t => some (.char (opt fw w) (opt fh h) (opt fd d), t)
  | 1 :: fw :: w :: fh :: h :: fd :: d :: t => some (.char (opt fw w) (opt fh h) (opt fd d), t)
  | 2 :: h :: w :: d :: s :: t => some (.box h w d s, t)
  | 3 :: h :: w :: d :: s :: t => some (.box h w d s, t)
  | 4 :: h :: w :: d :: t => some (.rule h w d, t)
  | 5 :: w :: st :: so :: sh :: sho :: t => do
      pure (.glue ⟨w, st, ← decOrder so, sh, ← decOrder sho⟩, t)
  | 6 :: w :: t => some (.kern w, t)
  | 7 :: _ :: t => some (.inert, t)
  | 8 :: t => some (.inert, t)
  | 9 :: t => some (.inert, t)
  | _ => none

def decItems : Nat → Cur → Option (List Item × Cur)
  | 0, c => some ([], c)
  | n + 1, c => do
    let (i, c) ← decItem c
    let (l, c) ← decItems n c
    pure (i :: l, c)

def showBox (b : HBox) : String :=
  showInts [b.height, b.width, b.depth, encOrder b.order, b.num, b.den]

def showTex (t : TexBox) : String :=
  showInts [t.height, t.width, t.depth, encSign t.sign, encOrder t.order, t.setNum, t.setDen]

def glueOrders (stretch : Bool) : List Item → List Order
  | [] => []
  | .glue g :: l => (if stretch then g.stretchOrder else g.shrinkOrder) :: glueOrders stretch l
  | _ :: l => glueOrders stretch l

def texCase (l : List Item) (pw : PackWidth) : String × Bool :=
  let t := texHpack l pw
  let x := t.width - natWidth l
  if x = 0 then ("exact", false)
  else if x > 0 then
    let zhi := (glueOrders true l).any (fun o => t.order.lt o)
    (if t.sign = .normal then "stretch-unset" else "stretch", zhi)
  else
    let zhi := (glueOrders false l).any (fun o => t.order.lt o)
    let over := totalShrink l t.order < -x ∧ t.order = .normal ∧ l ≠ []
    (if over then (if t.sign = .normal then "overfull-zero" else "overfull")
     else if t.sign = .normal then "shrink-unset" else "shrink", zhi)

/-- The answer for a list of items, a target width and the real outcome (`tail`). -/
def answer (l : List Item) (pw : PackWidth) (tail : List Int) : String :=
  let m := hpack l pw
  let old := hpackOld l pw
  let s := texHpack l pw
  let real : Option (Option HBox) :=
    match tail with
    | [0] => some none
    | [1, h, w, d, o, num, den] => (decOrder o).map fun o => some ⟨h, w, d, o, num, den⟩
    | _ => none
  match real with
  | none => "bad-request"
  | some r =>
    let (is, dims, ord, rat) :=
      match r with
      | none => (true, true, true, true)
      | some b =>
        (decide (b.agrees s),
         decide (b.height = s.height ∧ b.width = s.width ∧ b.depth = s.depth),
         decide (b.order = s.order),
         decide ((⟨s.height, s.width, s.depth, s.order, b.num, b.den⟩ : HBox).agrees s))
    let fill := match r with
      | none => true
      | some b => fillsExactly l pw b
    let le := decide ((hpackLe l pw).agrees s)
    let (tc, zhi) := texCase l pw
    s!"fits={b2i (inRange l pw)} fitsold={b2i (inRangeOld l pw)} M {showBox m} O {showBox old} S {showTex s} ms={b2i (decide (m.agrees s))} is={b2i is} dims={b2i dims} ord={b2i ord} rat={b2i rat} tex={tc} zhi={b2i zhi} small={b2i (Small l pw)} fill={b2i fill} le={b2i le} mfill={b2i (fillsExactly l pw m)}"

/-! `tf` requests: the font repository as raw TFM tables, glyph nodes as (char, font). -/

def nat? (i : Int) : Option Nat := if i < 0 then none else some i.toNat

def decChars : Nat → Cur → Option (List (Nat × CharDimens) × Cur)
  | 0, c => some ([], c)
  | n + 1, ch :: wi :: hi :: di :: t => do
    let (l, c) ← decChars n t
    pure ((← nat? ch, ⟨← nat? wi, ← nat? hi, ← nat? di⟩) :: l, c)
  | _, _ => none

/-- `id nchars (c wi hi di)* nw w* nh h* nd d*`. -/
def decFont (c : Cur) : Option ((Nat × TfmFont) × Cur) :=
  match c with
  | id :: n :: t => do
    let (chars, t) ← decChars (← nat? n) t
    let (ws, t) ← takeList t
    let (hs, t) ← takeList t
    let (ds, t) ← takeList t
    pure ((← nat? id, ⟨chars, ws, hs, ds⟩), t)
  | _ => none

def decFonts : Nat → Cur → Option (Repo × Cur)
  | 0, c => some ([], c)
  | n + 1, c => do
    let (f, c) ← decFont c
    let (r, c) ← decFonts n c
    pure (f :: r, c)

def decNodes : Nat → Cur → Option (List Node × Cur)
  | 0, c => some ([], c)
  | n + 1, 20 :: ch :: font :: t => do
    let (l, c) ← decNodes n t
    pure (.glyph (← nat? ch) (← nat? font) :: l, c)
  | n + 1, 21 :: ch :: font :: t => do
    let (l, c) ← decNodes n t
    pure (.glyph (← nat? ch) (← nat? font) :: l, c)
  | n + 1, c => do
    let (i, c) ← decItem c
    let (l, c) ← decNodes n c
    pure (.other i :: l, c)

def handle (line : String) : String :=
  match words line with
  | "hp" :: ws =>
    match ints? ws with
    | some (mode :: amount :: n :: rest) =>
      if n < 0 ∨ (mode ≠ 0 ∧ mode ≠ 1) then "bad-request" else
      match decItems n.toNat rest with
      | some (l, tail) =>
        answer l (if mode = 0 then .exact amount else .additional amount) tail
      | none => "bad-request"
    | _ => "bad-request"
  | "tf" :: ws =>
    match ints? ws with
    | some (nf :: rest) =>
      if nf < 0 then "bad-request" else
      match decFonts nf.toNat rest with
      | some (repo, mode :: amount :: n :: rest) =>
        if n < 0 ∨ (mode ≠ 0 ∧ mode ≠ 1) then "bad-request" else
        match decNodes n.toNat rest with
        | some (ns, tail) =>
          let pw : PackWidth := if mode = 0 then .exact amount else .additional amount
          match resolve repo ns with
          | none => "unregistered-font"
          | some l =>
            -- theorem hpack_tfm_dims, evaluated: the box dimensions read off the raw tables
            let b := hpack l pw
            let tdims := decide (b.width = pw.width (sum (ns.map (Node.width repo))) ∧
              b.height = max0 (ns.map (Node.height repo)) ∧ b.depth = max0 (ns.map (Node.depth repo)))
            s!"{answer l pw tail} tdims={b2i tdims}"
        | none => "bad-request"
      | _ => "bad-request"
    | _ => "bad-request"
  | _ => "bad-request"

end DrvC15

def main : IO Unit := Proto.main DrvC15.handle
