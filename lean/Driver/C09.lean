import TexcraftModel.Model.C09
import TexcraftModel.Model.C09Alloc
import TexcraftModel.Util.Proto
open Proto C09

/-!
Driver for C09. Requests:

* `proto <e|s|n|b> <event>*`   → `<outcome> contract=<0|1> safe=<0|1> spec=<outcome>`
* `exc <idx> <nchars> <nbytes> <spaces> <carets> | <code point>*`
      the excerpt of a line (code points) for a token of `nchars` characters / `nbytes` bytes at
      character `idx`; `spaces`/`carets` are what the real rendering printed under the line.
      → `ok <code points of the printed line> ; located=<0|1> old=<panic|same|diff>` or `panic`
* `trace <off> | <code point>*` → `ok <line> <pos> <code points of the line>` or `panic`
* `eoi | <code point>*` → the same for `trace_end_of_input`
* `alloc (n <name> <len> | w <name> <i> <v> | r <name> <i>)*` → outputs of `runOps` (`v<val>`, `rec`, `fatal`, `panic`)
* `gutter <line number>` → paddings of the `>>>` header, the empty `|` line and the source line of a block
* `depth <k>` → `max=<num_current_sources> end=<ok|fatal>` for k nested `\input`s
* `shape <k> <ok|fatal|end>` → outcome in scroll and in errorstop mode of k recoverable errors followed by that end
* `chr <i>` → `ok <c>` | `err <c>` | `panic`        (`charFromCode`)
* `uint <N> <i>` → `ok <v>` | `err <v>`             (`uintBound`)
* `ifcase <n> <k>` → `some <j>` | `none`            (`ifcaseSelect`)
-/
namespace DrvC09

def b2i (b : Bool) : Nat := if b then 1 else 0

def modeOf : String → Option Mode
  | "e" => some .errorstop | "s" => some .scroll | "n" => some .nonstop | "b" => some .batch
  | _ => none

def evOf : String → Option Ev
  | "ok" => some .ok
  | "rec" => some .recoverable
  | "fatal" => some .fatal
  | "end" => some .shutdown
  | "ignfatal" => some .ignFatal
  | "ignend" => some .ignShutdown
  | "ignrec" => some .ignRecoverable
  | "spur" => some .spurious
  | "e" => some (.setMode .errorstop)
  | "s" => some (.setMode .scroll)
  | "n" => some (.setMode .nonstop)
  | "b" => some (.setMode .batch)
  | _ => none

def showOutcome : Outcome → String
  | .ok => "ok" | .err => "err" | .panicIgnored => "panic-ignored" | .panicUnreachable => "panic-unreachable"

def chars? (ws : List String) : Option (List Char) := (nats? ws).map (·.map Char.ofNat)

def showChars (l : List Char) : String := showNats (l.map Char.toNat)

def showR : R Nat → String
  | .ok v => s!"ok {v}" | .err v => s!"err {v}" | .panic => "panic"

def showAOut : AOut → String
  | .val v => s!"v{v}" | .recovered => "rec" | .fatal => "fatal" | .panic => "panic"

/-- `n <name> <len>` | `w <name> <i> <v>` | `r <name> <i>` -/
def decOps : List String → Option (List AOp)
  | [] => some []
  | "n" :: a :: b :: rest => do
    let a ← a.toNat?; let b ← b.toNat?; let r ← decOps rest; pure (.new a b :: r)
  | "w" :: a :: i :: v :: rest => do
    let a ← a.toNat?; let i ← i.toInt?; let v ← v.toInt?; let r ← decOps rest; pure (.write a i v :: r)
  | "r" :: a :: i :: rest => do
    let a ← a.toNat?; let i ← i.toInt?; let r ← decOps rest; pure (.read a i :: r)
  | _ => none

def handle (line : String) : String :=
  match words line with
  | "proto" :: m :: evs =>
    match modeOf m, evs.mapM evOf with
    | some m, some evs =>
      let o := run m evs
      let contract := evs.all Ev.respects
      let safe := o == .ok || o == .err
      s!"{showOutcome o} contract={b2i contract} safe={b2i safe} spec={showOutcome (specRun m evs)}"
    | _, _ => "bad-request"
  | "exc" :: idx :: nch :: nby :: sp :: ca :: "|" :: cs =>
    match nats? [idx, nch, nby, sp, ca], chars? cs with
    | some [idx, nch, nby, sp, ca], some l =>
      let old := highlightOld l idx nby
      match highlight l idx nch with
      | .panic => "panic"
      | e =>
        let txt := (e.text.getD [])
        let oldS := if old == .panic then "panic" else if old.text == e.text then "same" else "diff"
        s!"ok {showChars txt} ; located={b2i (sp == idx && ca == nch)} old={oldS}"
    | _, _ => "bad-request"
  | "trace" :: off :: "|" :: cs =>
    match off.toNat?, chars? cs with
    | some off, some l =>
      match trace l off with
      | .ok ln pos c => s!"ok {ln} {pos} {showChars c}"
      | .panic => "panic"
    | _, _ => "bad-request"
  | "eoi" :: "|" :: cs =>
    match chars? cs with
    | some l =>
      match traceEoi l with
      | .ok ln pos c => s!"ok {ln} {pos} {showChars c}"
      | .panic => "panic"
    | none => "bad-request"
  | "alloc" :: ws =>
    match decOps ws with
    | some ops => " ".intercalate ((runOps Alloc.empty ops).map showAOut)
    | none => "bad-request"
  | ["gutter", n] =>
    match n.toNat? with
    | some n =>
      match headerPad n, blankPad n, sourcePad n with
      | some a, some b, some c => s!"{a} {b} {c}"
      | _, _, _ => "underflow"
    | none => "bad-request"
  | ["depth", k] =>
    match k.toNat? with
    | some k =>
      let ops := List.replicate k IOp.input ++ List.replicate k IOp.endSource
      s!"max={maxDepth 1 ops + 1} end={if endsFatal 1 ops then "fatal" else "ok"}"
    | none => "bad-request"
  | ["shape", k, fin] =>
    match k.toNat?, (match fin with | "ok" => some Ev.ok | "fatal" => some Ev.fatal | "end" => some Ev.shutdown | _ => none) with
    | some k, some f =>
      let evs := List.replicate k Ev.recoverable ++ [f]
      s!"scroll={showOutcome (run .scroll evs)} errorstop={showOutcome (run .errorstop evs)}"
    | _, _ => "bad-request"
  | ["chr", i] =>
    match i.toInt? with
    | some i => showR (charFromCode i)
    | none => "bad-request"
  | ["uint", n, i] =>
    match n.toNat?, i.toInt? with
    | some n, some i => showR (uintBound n i)
    | _, _ => "bad-request"
  | ["ifcase", n, k] =>
    match n.toInt?, k.toNat? with
    | some n, some k =>
      match ifcaseSelect n k with
      | some j => s!"some {j}"
      | none => "none"
    | _, _ => "bad-request"
  | _ => "bad-request"

end DrvC09

def main : IO Unit := Proto.main DrvC09.handle
