import TexcraftModel.Util.Proto
open Proto

namespace DrvC09

def handle (line : String) : String :=
  match words line with
  | _ => "bad-request"

end DrvC09

def main : IO Unit := Proto.main DrvC09.handle
