import TexcraftModel.Util.Proto
import TexcraftModel.Model.C17
import TexcraftModel.Model.C17NL

/-! Driver for C17. Requests (all integers decimal, lists length-prefixed):

* `pp v…`            → per value `text:value:warn` (model `printFix`, then `parseFix (plText v)`)
* `ps c…`            → `value warn` — `parseFix` on the text with character codes `c…`
* `sc v ds`          → `M=<int|panic> S=<int|abort>` (`toScaled`, `storeScaled`)
* `cp max n v…`      → `ok k t… m (v i)…` or `panic` (`compress`)
* `cpchk max n v… k t… m (v i)…` → `le=<0/1> near=<0/1> min=<0/1>` (`checkCompress` on a claimed result)
* `tfm kind n v…` → `ok k t… n i…` or `panic` (`remapDim`: one dimension of `tfm::File::from(pl_file)`)
* `tfchk kind n v… k t… m (v i)…` → `le=… near=… min=… zero=…` (`checkTfmTable`: a TFM dimension table read back
  from a serialised file against the true PLtoTF limit 255/15/15/63 of `kind` 0..3)
* `nl drop k ne… n (s l)…` → `w (s l)… ; loops (c d)… ; chains (c len d…)… | T | same` where the first part is
  the specification (cut graph; chains for every c with a non-empty chain), `T` is the transcription
  of `new`/`get` (`loops ; chains`, or `panic`/`fuel`) for the ascending iteration order and
  `same` tells whether the descending order gives the same `T`
-/
open C17 Proto

namespace DrvC17

def warnCode : Warn → Nat | .none => 0 | .invalidPrefix => 1 | .tooBig => 2

def showParsed (p : Parsed) : String := s!"{p.value} {warnCode p.warn}"

def pairs? : List Int → Option (List (Int × Int))
  | [] => some []
  | a :: b :: t => (pairs? t).map ((a, b) :: ·)
  | _ => none

def showPairs (l : List (Int × Int)) : String :=
  showInts ((l.length : Int) :: (l.map fun (a, b) => [a, b]).flatten)

def natPairs (l : List (Nat × Nat)) : List (Int × Int) := l.map fun (a, b) => ((a : Int), (b : Int))

def b2i (b : Bool) : Nat := if b then 1 else 0

def handle (line : String) : String :=
  match words line with
  | "pp" :: ws =>
    match ints? ws with
    | some vs => " ".intercalate (vs.map fun v =>
        let p := parseFix (plText v)
        s!"{String.ofList (printFix v)}:{p.value}:{warnCode p.warn}")
    | none => "bad-request"
  | "ps" :: ws =>
    match nats? ws with
    | some cs => showParsed (parseFix (cs.map Char.ofNat))
    | none => "bad-request"
  | ["sc", v, ds] =>
    match v.toInt?, ds.toInt? with
    | some v, some ds =>
      let m := match toScaled v ds with | some x => toString x | none => "panic"
      let s := match storeScaled v ds with | some x => toString x | none => "abort"
      s!"M={m} S={s}"
    | _, _ => "bad-request"
  | "cp" :: ws =>
    match ints? ws with
    | some (mx :: rest) =>
      match takeList rest with
      | some (vals, []) =>
        match compress vals mx.toNat with
        | .ok (t, m) => s!"ok {showInts ((t.length : Int) :: t)} {showPairs (m.map fun (v, i) => (v, (i : Int)))}"
        | .panic => "panic"
      | _ => "bad-request"
    | _ => "bad-request"
  | "cpchk" :: ws =>
    match ints? ws with
    | some (mx :: rest) =>
      match takeList rest with
      | some (vals, rest) =>
        match takeList rest with
        | some (table, k :: rest) =>
          match pairs? rest with
          | some ps =>
            if ps.length ≠ k.toNat then "bad-request" else
            let (a, b, c) := checkCompress vals mx.toNat table (ps.map fun (v, i) => (v, i.toNat))
            s!"le={b2i a} near={b2i b} min={b2i c}"
          | none => "bad-request"
        | _ => "bad-request"
      | none => "bad-request"
    | _ => "bad-request"
  | "tfm" :: ws =>
    -- `tfm kind n v…` → `ok k t… n i…` (`remapDim`: table and the index of every character) or `panic`
    match ints? ws with
    | some (kind :: rest) =>
      match takeList rest with
      | some (vals, []) =>
        match remapDim kind.toNat vals with
        | .ok (t, idx) => s!"ok {showInts ((t.length : Int) :: t)} {showInts ((idx.length : Int) :: idx.map Int.ofNat)}"
        | .panic => "panic"
      | _ => "bad-request"
    | _ => "bad-request"
  | "tfchk" :: ws =>
    -- `tfchk kind n v… k t… m (v i)…` → `le near min zero` for the true PLtoTF limit of `kind`
    match ints? ws with
    | some (kind :: rest) =>
      match takeList rest with
      | some (vals, rest) =>
        match takeList rest with
        | some (table, k :: rest) =>
          match pairs? rest with
          | some ps =>
            if ps.length ≠ k.toNat then "bad-request" else
            let (a, b, c, d) := checkTfmTable kind.toNat vals table (ps.map fun (v, i) => (v, i.toNat))
            s!"le={b2i a} near={b2i b} min={b2i c} zero={b2i d}"
          | none => "bad-request"
        | _ => "bad-request"
      | none => "bad-request"
    | _ => "bad-request"
  | "nl" :: ws =>
    match nats? ws with
    | some (drop :: rest) =>
      match takeList (rest.map Int.ofNat) with
      | some (ne, n :: rest) =>
        match pairs? rest with
        | some es =>
          if es.length ≠ n.toNat then "bad-request" else
          let ne := ne.map Int.toNat
          let es := es.map fun (a, b) => (a.toNat, b.toNat)
          let (g, w) := nlEdges (fun c => !ne.contains c) (drop != 0) es [] []
          -- specification: the cut graph
          let loops := nlLoops g 255
          -- `nlGetFast g (cutList g) = nlGet g` (`nlGetFast_eq`): the cut graph is computed once
          let cl := cutList g
          let allChains := (List.range 256).map fun c => (c, nlGetFast g cl c)
          let keyed := allChains.filter (fun p => !p.2.isEmpty)
          let keys := keyed.map Prod.fst
          let chains := keyed.map fun (c, ch) => ((c : Int) :: (ch.length : Int) :: ch.map Int.ofNat)
          -- model: the transcription of `new`/`get`, ascending and descending iteration order
          let nodes := nodesOf g
          let asc := (List.range 256).filter (fun c => nodes.contains c)
          let showT (r : Res (Prog × List (Nat × Nat))) : String :=
            match r with
            | .panic => "panic"
            | .fuel => "fuel"
            | .ok (p, lw) =>
              let all := ((List.range 256).map fun c => (c, progGet p c)).filter (fun q => !q.2.isEmpty)
              let chs := all.map fun (c, ch) => ((c : Int) :: (ch.length : Int) :: ch.map Int.ofNat)
              s!"{showPairs (natPairs lw)} ; {showInts ((all.length : Int) :: chs.flatten)}"
          let t1 := showT (nlCompile g asc)
          let t2 := showT (nlCompile g asc.reverse)
          s!"{showPairs (natPairs w)} ; {showPairs (natPairs loops)} ; {showInts ((keys.length : Int) :: chains.flatten)} | {t1} | {b2i (t1 == t2)}"
        | none => "bad-request"
      | _ => "bad-request"
    | _ => "bad-request"
  | _ => "bad-request"

end DrvC17

def main : IO Unit := Proto.main DrvC17.handle
