import TexcraftModel.Util.Proto
import TexcraftModel.Model.C03
import TexcraftModel.Model.C03Bytes

/-! Driver for C03 (lexer and traces). All numbers are decimal; characters are code points.

A configuration is `<eol> <dflt> <n> (<char> <cat>)*n` (`eol` = -1 for none, `dflt` = the
category of every character not listed).

* `lex <rep> <cfg> <m> <src>*m` → `<M items> | <S items> | <B>`: the model's results with every key
  run through the model of `Tracer::trace`, and the specification's results.
  `<B>` is the byte-level twin (`Bytes.bLexAll`): `=` when it equals the model's run, `10` when it
  sliced off a character boundary, its traced items otherwise.
* `sch <rep> <k> (<fromKey> <cfg>)*k <m> <src>*m` → `<M items>`: the model driven with a
  configuration that depends on how far the lexer has got (the configuration used for a call
  of `Lexer::next` is the last one whose `fromKey` ≤ the current key).

Items: `0 cat char pos` character token, `1 char pos` active, `2 len chars pos` control
sequence, `3 char pos` invalid character, `4` end of line, `5` end of input, `6` panic,
`7` out of fuel; `pos` = `line col len text*len`.

* `sps <rep> <k> <cfg0> (<line> <col> <n> <name>*n <upd>)*k <m> <src>*m` (`<upd>` = `0 <char> <cat>` or `1 <eol> 0`) → `<M items> | <S items>`:
  `lexTracedSched` and `Spec.specSched` under the schedule "`cfg0` changed by every command whose
  control sequence (name, line, column) has been delivered".
* `leg <rep> <k> (<fromKey> <cfg>)*k <m> <src>*m` → `<A> | <B> | <AB>`: the diagnostic variants
  of the model without the C03-a repair, without the C03-b repair, without both. -/
open C03 Proto

namespace DrvC03

def chr? (i : Int) : Option Char :=
  if 0 ≤ i ∧ i.toNat.isValidChar then some (Char.ofNat i.toNat) else none

def encChars (l : List Char) : List Int := (l.length : Int) :: l.map (fun c => (c.toNat : Int))

def encPos (p : Pos) : List Int := [(p.line : Int), (p.col : Int)] ++ encChars p.text

def encTok : Tok → List Int
  | .chr c cat => [0, (cat.code : Int), (c.toNat : Int)]
  | .active c => [1, (c.toNat : Int)]
  | .cs name => 2 :: encChars name

def encRes : Res Pos → List Int
  | .token t p => encTok t ++ encPos p
  | .invalid c p => [3, (c.toNat : Int)] ++ encPos p
  | .endOfLine => [4]
  | .endOfInput => [5]
  | .panic => [6]
  | .fuel => [7]

def showItems (l : List (Res Pos)) : String := showInts (l.map encRes).flatten

def decPairs : Nat → Cur → Option (List (Char × CatCode) × Cur)
  | 0, c => some ([], c)
  | n + 1, ch :: cat :: t => do
    let c ← chr? ch
    if cat < 0 ∨ 15 < cat then none
    let (ps, t) ← decPairs n t
    pure ((c, CatCode.ofCode cat.toNat) :: ps, t)
  | _, _ => none

def lookup (tbl : List (Char × CatCode)) (dflt : CatCode) (c : Char) : CatCode :=
  match tbl.find? (fun p => p.1 == c) with
  | some p => p.2
  | none => dflt

def decCfg (c : Cur) : Option (Cfg × Cur) :=
  match c with
  | eol :: dflt :: n :: t => do
    if dflt < 0 ∨ 15 < dflt ∨ n < 0 then none
    let e ← if eol < 0 then some none else (chr? eol).map some
    let (tbl, t) ← decPairs n.toNat t
    pure ({ cat := lookup tbl (CatCode.ofCode dflt.toNat), endline := e }, t)
  | _ => none

def decSrc (c : Cur) : Option (List Char × Cur) := do
  let (l, t) ← takeList c
  let cs ← l.mapM chr?
  pure (cs, t)

def decSched : Nat → Cur → Option (List (Nat × Cfg) × Cur)
  | 0, c => some ([], c)
  | n + 1, k :: t => do
    if k < 0 then none
    let (cfg, t) ← decCfg t
    let (r, t) ← decSched n t
    pure ((k.toNat, cfg) :: r, t)
  | _, _ => none

def pickCfg (sched : List (Nat × Cfg)) (key : Nat) (cur : Cfg) : Cfg :=
  sched.foldl (fun acc p => if p.1 ≤ key then p.2 else acc) cur

/-- `lexAllF` with a configuration chosen per call. -/
def lexSched (sched : List (Nat × Cfg)) (dflt : Cfg) (rep : Bool) : Nat → Lexer → List (Res Nat)
  | 0, _ => [.fuel]
  | f + 1, L =>
    match L.next (pickCfg sched L.raw.key dflt) rep with
    | (.endOfInput, _) => [.endOfInput]
    | (.panic, _) => [.panic]
    | (.fuel, _) => [.fuel]
    | (r, L') => r :: lexSched sched dflt rep f L'


/-! ### Diagnostic variants (not part of M or S, nothing is proved about them)

The code as it was before `fixes/C03-a.patch` (`hex = false`) and/or `fixes/C03-b.patch`
(`guard = false`): a copy of the model's loop with the caret function as a parameter. Used only
to *name* a difference between the implementation and the specification: a difference that is
exactly the documented pre-fix behaviour gets the finding's signature, anything else does not. -/
namespace Legacy

def caret (hex guard : Bool) (r : Raw) (c1 : Char) (consumed : Bool) : Cr :=
  let skip := if consumed then 0 else 1
  match r.line.drop skip with
  | c2 :: c3 :: l3 =>
    if c2 ≠ c1 then .no
    else if guard && decide (128 ≤ c3.toNat) then .no
    else
      match (if hex then hexVal c3 else none), l3.head?.bind hexVal with
      | some hi, some lo =>
        if r.key + (skip + 2) ≤ r.limit then
          .yes { r with key := r.key + (skip + 2), line := Char.ofNat (16 * hi + lo) :: l3.drop 1 }
        else .panic
      | _, _ =>
        if r.key + (skip + 1) ≤ r.limit then
          .yes { r with key := r.key + (skip + 1),
                        line := (if 128 ≤ c3.toNat then c3 else caretChar c3) :: l3 }
        else .panic
  | _ => .no

abbrev CaretFn := Raw → Char → Bool → Cr

def readLetters (cr : CaretFn) (cfg : Cfg) : Nat → List Char → Raw → Out (List Char × Raw)
  | 0, _, _ => .fuel
  | f + 1, acc, r =>
    match r.line with
    | [] => .ok (acc, r)
    | c :: l =>
      if r.limit ≤ r.key then .panic
      else
        match cfg.cat c with
        | .letter => readLetters cr cfg f (acc ++ [c]) { r with line := l, key := r.key + 1 }
        | .superscript =>
          match cr r c false with
          | .yes r' => readLetters cr cfg f acc r'
          | .panic => .panic
          | .no => .ok (acc, r)
        | _ => .ok (acc, r)

def readCS (cr : CaretFn) (cfg : Cfg) : Nat → Raw → Out (List Char × St × Raw)
  | 0, _ => .fuel
  | f + 1, r =>
    match r.next with
    | .eol => .ok ([], .newLine, r)
    | .panic => .panic
    | .got c _ r1 =>
      match cfg.cat c with
      | .letter =>
        match readLetters cr cfg (r1.line.length + 1) [c] r1 with
        | .ok (name, r2) => .ok (name, .skipBlanks, r2)
        | .panic => .panic
        | .fuel => .fuel
      | .superscript =>
        match cr r1 c true with
        | .yes r2 => readCS cr cfg f r2
        | .panic => .panic
        | .no => .ok ([c], .midLine, r1)
      | .space => .ok ([c], .skipBlanks, r1)
      | _ => .ok ([c], .midLine, r1)

def nextF (cr : CaretFn) (cfg : Cfg) (rep : Bool) : Nat → Lexer → Res Nat × Lexer
  | 0, L => (.fuel, L)
  | f + 1, L =>
    match L.raw.next with
    | .eol =>
      match L.raw.startNewLine cfg with
      | (more, raw) =>
        let L1 : Lexer := { L with raw := raw, st := .newLine }
        if !more then (.endOfInput, L1)
        else if rep then
          if L.started then (.endOfLine, L1) else nextF cr cfg rep f { L1 with started := true }
        else nextF cr cfg rep f L1
    | .panic => (.panic, L)
    | .got c key raw =>
      match cfg.cat c with
      | .escape =>
        match readCS cr cfg (raw.line.length + 1) raw with
        | .ok (name, st, raw') => (.token (.cs name) key, { L with raw := raw', st := st })
        | .panic => (.panic, { L with raw := raw })
        | .fuel => (.fuel, { L with raw := raw })
      | .endOfLine =>
        match L.st with
        | .newLine => (.token (.cs parName) key, { L with raw := raw.endLine, st := .newLine })
        | .midLine => (.token (.chr ' ' .space) key, { L with raw := raw.endLine, st := .newLine })
        | .skipBlanks => nextF cr cfg rep f { L with raw := raw.endLine }
      | .space =>
        match L.st with
        | .midLine => (.token (.chr ' ' .space) key, { L with raw := raw, st := .skipBlanks })
        | _ => nextF cr cfg rep f { L with raw := raw }
      | .superscript =>
        match cr raw c true with
        | .yes raw' => nextF cr cfg rep f { L with raw := raw' }
        | .panic => (.panic, { L with raw := raw })
        | .no => (.token (.chr c .superscript) key, { L with raw := raw, st := .midLine })
      | .comment => nextF cr cfg rep f { L with raw := raw.endLine }
      | .ignored => nextF cr cfg rep f { L with raw := raw }
      | .invalid => (.invalid c key, { L with raw := raw })
      | .active => (.token (.active c) key, { L with raw := raw, st := .midLine })
      | cc => (.token (.chr c cc) key, { L with raw := raw, st := .midLine })

def lexSched (cr : CaretFn) (sched : List (Nat × Cfg)) (dflt : Cfg) (rep : Bool) :
    Nat → Lexer → List (Res Nat)
  | 0, _ => [.fuel]
  | f + 1, L =>
    match nextF cr (pickCfg sched L.raw.key dflt) rep (L.mu + 1) L with
    | (.endOfInput, _) => [.endOfInput]
    | (.panic, _) => [.panic]
    | (.fuel, _) => [.fuel]
    | (r, L') => r :: lexSched cr sched dflt rep f L'

def run (hex guard : Bool) (sched : List (Nat × Cfg)) (c0 : Cfg) (rep : Bool) (src : List Char) : String :=
  let L := Lexer.init src
  showItems ((lexSched (caret hex guard) sched c0 rep (L.mu + 2) L).map (Res.map (trace src)))

def all (sched : List (Nat × Cfg)) (c0 : Cfg) (rep : Bool) (src : List Char) : String :=
  s!"{run false true sched c0 rep src} | {run true false sched c0 rep src} | {run false false sched c0 rep src}"

end Legacy

/-! ### `sps`: the model and the specification under a history-determined configuration -/

structure Trigger where
  line : Nat
  col : Nat
  name : List Char
  /-- what executing the command does to the configuration -/
  upd : Cfg → Cfg

/-- `0 <char> <cat>`: the category of one character; `1 <char or -1> 0`: the end-line character. -/
def decUpd (c : Cur) : Option ((Cfg → Cfg) × Cur) :=
  match c with
  | 0 :: x :: y :: t => do
    let ch ← chr? x
    if y < 0 ∨ 15 < y then none
    pure ((fun c => { c with cat := fun d => if d = ch then CatCode.ofCode y.toNat else c.cat d }), t)
  | 1 :: x :: _ :: t => do
    let e ← if x < 0 then some none else (chr? x).map some
    pure ((fun c => { c with endline := e }), t)
  | _ => none

def decTriggers : Nat → Cur → Option (List Trigger × Cur)
  | 0, c => some ([], c)
  | n + 1, ln :: col :: t => do
    if ln < 0 ∨ col < 0 then none
    let (name, t) ← decSrc t
    let (upd, t) ← decUpd t
    let (r, t) ← decTriggers n t
    pure (⟨ln.toNat, col.toNat, name, upd⟩ :: r, t)
  | _, _ => none

def fired (hist : List (Res Pos)) (tr : Trigger) : Bool :=
  hist.any fun r =>
    match r with
    | .token (.cs name) p => p.line == tr.line && p.col == tr.col && (tr.name.isEmpty || name == tr.name)
    | _ => false

/-- The configuration after `hist`: `c0` changed by the commands, in order, whose trigger (a
control sequence with the given name — any name if none is given — delivered from the given
line and column) has fired. -/
def schedOf (c0 : Cfg) (trs : List Trigger) (hist : List (Res Pos)) : Cfg :=
  trs.foldl (fun acc tr => if fired hist tr then tr.upd acc else acc) c0

def handle (line : String) : String :=
  match words line with
  | "lex" :: ws =>
    match ints? ws with
    | some (rep :: t) =>
      match decCfg t with
      | some (cfg, t) =>
        match decSrc t with
        | some (src, []) =>
          let m := lexAll cfg (rep != 0) src
          let b :=
            match Bytes.bLexAll cfg (rep != 0) src with
            | none => "10"
            | some l => if l == m then "=" else showItems (l.map (Res.map (trace src)))
          s!"{showItems (m.map (Res.map (trace src)))} | {showItems (Spec.specAll cfg (rep != 0) src)} | {b}"
        | _ => "bad-request"
      | none => "bad-request"
    | _ => "bad-request"
  | "sch" :: ws =>
    match ints? ws with
    | some (rep :: k :: t) =>
      if k < 1 then "bad-request" else
      match decSched k.toNat t with
      | some ((_, c0) :: sched, t) =>
        match decSrc t with
        | some (src, []) =>
          let L := Lexer.init src
          showItems ((lexSched sched c0 (rep != 0) (L.mu + 2) L).map (Res.map (trace src)))
        | _ => "bad-request"
      | _ => "bad-request"
    | _ => "bad-request"
  | "sps" :: ws =>
    match ints? ws with
    | some (rep :: k :: t) =>
      if k < 0 then "bad-request" else
      match decCfg t with
      | some (c0, t) =>
        match decTriggers k.toNat t with
        | some (trs, t) =>
          match decSrc t with
          | some (src, []) =>
            let sched := schedOf c0 trs
            s!"{showItems (lexTracedSched sched (rep != 0) src)} | {showItems (Spec.specSched sched (rep != 0) src)}"
          | _ => "bad-request"
        | none => "bad-request"
      | none => "bad-request"
    | _ => "bad-request"
  | "leg" :: ws =>
    match ints? ws with
    | some (rep :: k :: t) =>
      if k < 1 then "bad-request" else
      match decSched k.toNat t with
      | some ((_, c0) :: sched, t) =>
        match decSrc t with
        | some (src, []) => Legacy.all sched c0 (rep != 0) src
        | _ => "bad-request"
      | _ => "bad-request"
    | _ => "bad-request"
  | _ => "bad-request"

end DrvC03

def main : IO Unit := Proto.main DrvC03.handle
