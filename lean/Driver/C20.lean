import TexcraftModel.Util.Proto
import TexcraftModel.Model.C20
import TexcraftModel.Model.C20Kmp
import TexcraftModel.Model.C20Interner
import TexcraftModel.Model.C20Tags
import TexcraftModel.Model.C20Backing
import TexcraftModel.Model.C20TagsFine

/-! Driver for C20. Requests (all integers):

* `gm <nkeys> <split> <n> <ops>` one history. Op = `0 k v` local insert, `1 k v` global insert,
  `2` begin_group, `3` end_group. After every op every key `0..nkeys-1` is read.
  Reply `M | S | IT | RB | MV | ITV`: model trace, spec trace, canonical `iter_all` of the model state after
  `split` ops, trace of the map rebuilt from it under the remaining ops (or `panic`); `MV`, `ITV` = trace and
  `iter_all` of the generic container code over the Vec backing (`BMap (vecBacking Nat)`).
  Trace per op: out code (0/1 insert result, 2 unit, 3 err) then `nkeys` reads (`0` none, `v+1`),
  then `len()` and an order-independent code of `iter()`. Op `4 k v` = `extend([(k, v)])`.
* `gx <depth> <split> <n> <prefix op indices>` exhaustive: every extension of the prefix to
  `depth` ops over the 10-op alphabet (2 keys × 2 values × 2 scopes, begin, end).
  Reply `modelDigest specDigest iterDigest leaves`.
* `km <patlen> <pat> <text>` → `M | S | PF | SPF` (answers as 0/1, `panic`/`fuel` possible for M, PF).
* `kx <depth> <alphabet> <patlen> <pat>` exhaustive over all texts of length `depth`:
  `modelDigest specDigest leaves`.
* `in <nstr> (<len> <bytes>)*` → `Kconst | Kmod | Kspec | resolve=<0/1> | rebuild=<0/1>`.
* `tf <n0> <T> <N> <seed>` → the instruction-level machine (`lockProg`) under a pseudo-random scheduler.
* `tg <n0> <T> <N>` → model tags of the round-robin schedule from counter `n0`; `tgchk <tags>` →
  `distinct=<0/1>`; `st <n0> <T>` → the single value every `get` returns.
-/
open C20 Proto

namespace DrvC20

/-! ### digests (same arithmetic as the harness: FNV-1a over 64-bit words) -/
@[inline] def mix (h : UInt64) (x : Nat) : UInt64 := (h ^^^ UInt64.ofNat x) * 1099511628211
def seed0 : UInt64 := 14695981039346656037
def mixList (h : UInt64) (l : List Nat) : UInt64 := l.foldl mix h

/-! ### grouping map -/
abbrev M := GMap Nat Nat
abbrev S := Snap Nat Nat

/-- A history op as the harness issues it: `ext` = the local insert is made through
`extend([(k, v)])` (groupingmap.rs:345-349: a loop of `insert(.., Scope::Local)`), which returns `()`. -/
structure DOp where
  op : Op Nat Nat
  ext : Bool := false

def decOp : Cur → Option (DOp × Cur)
  | 0 :: k :: v :: t => some ({ op := .insert k.toNat v.toNat .loc }, t)
  | 1 :: k :: v :: t => some ({ op := .insert k.toNat v.toNat .glob }, t)
  | 2 :: t => some ({ op := .beginGroup }, t)
  | 3 :: t => some ({ op := .endGroup }, t)
  | 4 :: k :: v :: t => some ({ op := .insert k.toNat v.toNat .loc, ext := true }, t)
  | _ => none

def decOps : Nat → Cur → Option (List DOp)
  | 0, [] => some []
  | 0, _ :: _ => none
  | n + 1, c => do
    let (op, c) ← decOp c
    let ops ← decOps n c
    pure (op :: ops)

def outCode : Out Nat → Nat
  | .existed b => if b then 1 else 0
  | .unit => 2
  | .errNoGroup => 3
  | .val o => match o with | none => 0 | some v => v + 1

def encOpt : Option Nat → Nat
  | none => 0
  | some v => v + 1

/-- `iter()` as an order-independent number. -/
def pairCode (k v : Nat) : Nat := k * 31 + v + 1

/-- One op, then all reads, then `len()` (= number of entries of the backing map) and `iter()`
(the entries of the backing map), on the model. -/
def mStep (nkeys : Nat) (m : M) (d : DOp) : M × List Nat :=
  -- `extend([(k, v)])` goes through `GMap.extend`, everything else through `GMap.step`
  let r : M × Out Nat := match d.ext, d.op with
    | true, .insert k v _ => (m.extend [(k, v)], .unit)
    | _, op => m.step op
  let len := if r.1.isEmpty == (r.1.len == 0) then r.1.len else 999999
  (r.1, outCode r.2 :: (List.range nkeys).map (fun k => encOpt (r.1.get k))
        ++ [len, (r.1.iter.map fun (k, v) => pairCode k v).foldl (· + ·) 0])

/-- The same on the specification: `len()` = number of visible keys, `iter()` = the visible pairs
(every key the history uses is `< nkeys`). -/
def sStep (nkeys : Nat) (s : S) (d : DOp) : S × List Nat :=
  let r := s.step d.op
  let vis := (List.range nkeys).filterMap (fun k => (r.1.cur k).map fun v => pairCode k v)
  (r.1, (if d.ext then 2 else outCode r.2) :: (List.range nkeys).map (fun k => encOpt (r.1.cur k))
        ++ [vis.length, vis.foldl (· + ·) 0])

/-- The same step on the generic container code over a backing (`Model/C20Backing.lean`). -/
def bStep {bk : Backing Nat Nat} (nkeys : Nat) (m : BMap bk) (d : DOp) : BMap bk × List Nat :=
  let r := m.step d.op
  let len := if r.1.isEmpty == (r.1.len == 0) then r.1.len else 999999
  (r.1, (if d.ext then 2 else outCode r.2) :: (List.range nkeys).map (fun k => encOpt (r.1.get k))
        ++ [len, (r.1.iter.map fun (k, v) => pairCode k v).foldl (· + ·) 0])

def bTrace {bk : Backing Nat Nat} (nkeys : Nat) : BMap bk → List DOp → BMap bk × List Nat
  | m, [] => (m, [])
  | m, op :: ops =>
    let r := bStep nkeys m op
    let rs := bTrace nkeys r.1 ops
    (rs.1, r.2 ++ rs.2)

def mTrace (nkeys : Nat) : M → List DOp → M × List Nat
  | m, [] => (m, [])
  | m, op :: ops =>
    let r := mStep nkeys m op
    let rs := mTrace nkeys r.1 ops
    (rs.1, r.2 ++ rs.2)

def sTrace (nkeys : Nat) : S → List DOp → S × List Nat
  | s, [] => (s, [])
  | s, op :: ops =>
    let r := sStep nkeys s op
    let rs := sTrace nkeys r.1 ops
    (rs.1, r.2 ++ rs.2)

def insSorted (p : Nat × Nat) : List (Nat × Nat) → List (Nat × Nat)
  | [] => [p]
  | q :: t => if p.1 < q.1 || (p.1 == q.1 && p.2 ≤ q.2) then p :: q :: t else q :: insSorted p t

def sortPairs (l : List (Nat × Nat)) : List (Nat × Nat) := l.foldr insSorted []

/-- Canonical form of an `iter_all` sequence: each run of values sorted by key; a group
boundary is written `-1`. -/
def canonItems (items : List (Item Nat Nat)) : List Int :=
  let rec go : List (Item Nat Nat) → List (Nat × Nat) → List Int
    | [], acc => flush acc
    | .beginGroup :: t, acc => flush acc ++ (-1 : Int) :: go t []
    | .value k v :: t, acc => go t ((k, v) :: acc)
  go items []
where
  flush (acc : List (Nat × Nat)) : List Int :=
    (sortPairs acc).flatMap fun (k, v) => [(k : Int), (v : Int)]

def showRes (r : Res (List Int)) : String :=
  match r with
  | .ok l => if l.isEmpty then "-" else showInts l
  | .panic => "panic"
  | .fuel => "fuel"

def showNatsD (l : List Nat) : String := if l.isEmpty then "-" else showNats l

def handleGm (nkeys split : Nat) (ops : List DOp) : String :=
  let (m, mt) := mTrace nkeys GMap.empty ops
  let _ := m
  let (_, st) := sTrace nkeys Snap.init ops
  let (msplit, _) := mTrace nkeys GMap.empty (ops.take split)
  let it := msplit.iterAll
  let rb : String := match it with
    | .ok items => showNatsD (mTrace nkeys (GMap.fromIter items) (ops.drop split)).2
    | .panic => "panic"
    | .fuel => "fuel"
  let itS := match it with
    | .ok items => showRes (.ok (canonItems items))
    | .panic => "panic"
    | .fuel => "fuel"
  -- the generic container code over the Vec backing: trace, `iter_all` at the split
  let vt := (bTrace nkeys (BMap.empty : BMap (vecBacking Nat)) ops).2
  let vsplit := (bTrace nkeys (BMap.empty : BMap (vecBacking Nat)) (ops.take split)).1
  let vit := match vsplit.iterAll with
    | .ok items => showRes (.ok (canonItems items))
    | .panic => "panic"
    | .fuel => "fuel"
  s!"{showNatsD mt} | {showNatsD st} | {itS} | {rb} | {showNatsD vt} | {vit}"

/-- The 10-letter alphabet of the exhaustive scope. -/
def alphaOp (i : Nat) : DOp :=
  if i < 8 then { op := .insert (i % 2) ((i / 2) % 2) (if (i / 4) % 2 = 0 then .loc else .glob) }
  else if i = 8 then { op := .beginGroup } else { op := .endGroup }

structure XAcc where
  dm : UInt64 := seed0      -- model digest over leaves
  ds : UInt64 := seed0      -- spec digest over leaves
  di : UInt64 := seed0      -- iter_all digest over leaves
  leaves : Nat := 0

structure XNode where
  m : M
  s : S
  rb : Option M             -- rebuilt map (after `split`), `none` before split or after a panic
  rbPanic : Bool
  hm : UInt64               -- model trace hash
  hs : UInt64               -- spec trace hash
  hrb : UInt64              -- rebuilt-map trace hash (from split)
  hss : UInt64              -- spec trace hash from split
  len : Nat

def itemsDigest (m : M) : UInt64 :=
  match m.iterAll with
  | .ok items => (canonItems items).foldl (fun h x => mix h (x + 2).toNat) seed0
  | .panic => mix seed0 999983
  | .fuel => mix seed0 999979

def xSplit (split : Nat) (n : XNode) : XNode :=
  if n.len = split then
    match n.m.iterAll with
    | .ok items => { n with rb := some (GMap.fromIter items), hrb := seed0, hss := seed0 }
    | _ => { n with rb := none, rbPanic := true, hrb := mix seed0 999983, hss := seed0 }
  else n

def xStep (split : Nat) (n : XNode) (op : DOp) : XNode :=
  let (m', mt) := mStep 2 n.m op
  let (s', st) := sStep 2 n.s op
  let past := n.len ≥ split
  let (rb', hrb') := match n.rb with
    | some rb => let (r, t) := mStep 2 rb op; (some r, mixList n.hrb t)
    | none => (none, n.hrb)
  xSplit split
    { m := m', s := s', rb := rb', rbPanic := n.rbPanic, hm := mixList n.hm mt, hs := mixList n.hs st,
      hrb := hrb', hss := if past then mixList n.hss st else n.hss, len := n.len + 1 }

def xDfs (split : Nat) : Nat → XNode → XAcc → XAcc
  | 0, n, acc =>
    { dm := mix (mix acc.dm n.hm.toNat) n.hrb.toNat,
      ds := mix (mix acc.ds n.hs.toNat) n.hss.toNat,
      di := mix acc.di (itemsDigest n.m).toNat,
      leaves := acc.leaves + 1 }
  | d + 1, n, acc =>
    (List.range 10).foldl (fun acc i => xDfs split d (xStep split n (alphaOp i)) acc) acc

def handleGx (depth split : Nat) (prefixOps : List Nat) : String :=
  let n0 : XNode := xSplit split
    { m := GMap.empty, s := Snap.init, rb := none, rbPanic := false, hm := seed0, hs := seed0, hrb := seed0, hss := seed0, len := 0 }
  let n := prefixOps.foldl (fun n i => xStep split n (alphaOp i)) n0
  let acc := xDfs split (depth - prefixOps.length) n {}
  s!"{acc.dm.toNat} {acc.ds.toNat} {acc.di.toNat} {acc.leaves}"

/-! ### KMP -/

def b2n (b : Bool) : Nat := if b then 1 else 0

def showResNats (r : Res (List Nat)) : String :=
  match r with
  | .ok l => showNatsD l
  | .panic => "panic"
  | .fuel => "fuel"

def mapRes {α β : Type} (f : α → β) : Res α → Res β
  | .ok a => .ok (f a)
  | .panic => .panic
  | .fuel => .fuel

def handleKm (pat text : List Nat) : String :=
  match pat with
  | [] => "bad-request"
  | first :: tail =>
    let m := mapRes (·.map b2n) (Kmp.search first tail text)
    let s := (Kmp.spec pat text).map b2n
    s!"{showResNats m} | {showNatsD s} | {showResNats (Kmp.prefixFn first tail)} | {showNatsD (Kmp.specPf pat)}"

structure KAcc where
  dm : UInt64 := seed0
  ds : UInt64 := seed0
  leaves : Nat := 0

/-- DFS over all texts of a given length: the model state `q` (or a failure code), the
spec computed from the reversed consumed text. -/
def kDfs (alphabet : Nat) (pat : List Nat) (rpat : List Nat) (pf : List Nat) :
    Nat → Res Nat → List Nat → UInt64 → UInt64 → KAcc → KAcc
  | 0, _, _, hm, hs, acc => { dm := mix acc.dm hm.toNat, ds := mix acc.ds hs.toNat, leaves := acc.leaves + 1 }
  | d + 1, q, rcons, hm, hs, acc =>
    (List.range alphabet).foldl (fun acc x =>
      let rc := x :: rcons
      let sb := rpat.isPrefixOf rc        -- pat is a suffix of consumed ⇔ reverse pat is a prefix of reverse consumed
      let (q', mb) : Res Nat × Nat := match q with
        | .ok qv => match Kmp.next pat pf qv x with
          | .ok (q', b) => (.ok q', b2n b)
          | .panic => (.panic, 7)
          | .fuel => (.fuel, 8)
        | .panic => (.panic, 7)
        | .fuel => (.fuel, 8)
      kDfs alphabet pat rpat pf d q' rc (mix hm mb) (mix hs (b2n sb)) acc) acc

def handleKx (depth alphabet : Nat) (pat : List Nat) : String :=
  match pat with
  | [] => "bad-request"
  | first :: tail =>
    match Kmp.prefixFn first tail with
    | .ok pf =>
      let acc := kDfs alphabet pat pat.reverse pf depth (.ok 0) [] seed0 seed0 {}
      s!"{acc.dm.toNat} {acc.ds.toNat} {acc.leaves}"
    | .panic => "panic"
    | .fuel => "fuel"

/-! ### interner -/

def decStrs : Nat → List Nat → Option (List (List Nat))
  | 0, [] => some []
  | 0, _ :: _ => none
  | _ + 1, [] => none
  | n + 1, len :: t =>
    if len ≤ t.length then (decStrs n (t.drop len)).map (t.take len :: ·) else none

def hConst : Intern.Str → Nat := fun _ => 12
def hMod : Intern.Str → Nat := fun s => (s.foldl (· + ·) 0) % 3
def hLen : Intern.Str → Nat := fun s => s.length

/-- After every interning: every key handed out so far resolves to its string (model). -/
def resolveAll (h : Intern.Str → Nat) : Intern.Interner → List Intern.Str → List (Nat × Intern.Str) → Bool
  | _, [], _ => true
  | st, s :: ss, seen =>
    match Intern.getOrIntern h st s with
    | .ok (st', k) =>
      let seen' := (k, s) :: seen
      seen'.all (fun (k, t) => Intern.resolve st' k == .ok (some t)) && resolveAll h st' ss seen'
    | _ => false

def rebuildOk (h h' : Intern.Str → Nat) (strs : List Intern.Str) : Bool :=
  match Intern.internAll h Intern.empty strs with
  | .ok (st, _) =>
    match Intern.rebuild h' st.buffer st.ends with
    | .ok st' =>
      let probes := strs ++ strs.map (· ++ [120]) ++ [[]]
      probes.all (fun s => Intern.get h' st' s == Intern.get h st s)
    | _ => false
  | _ => false

def showKeys (r : Res (Intern.Interner × List Nat)) : String :=
  match r with
  | .ok (_, ks) => showNatsD ks
  | .panic => "panic"
  | .fuel => "fuel"

def handleIn (strs : List Intern.Str) : String :=
  let kc := Intern.internAll hConst Intern.empty strs
  let km := Intern.internAll hMod Intern.empty strs
  let ks := (Intern.specInternAll [] strs).2
  let res := resolveAll hConst Intern.empty strs [] && resolveAll hMod Intern.empty strs []
  let rb := rebuildOk hConst hMod strs && rebuildOk hMod hConst strs && rebuildOk hLen hLen strs
  s!"{showKeys kc} | {showKeys km} | {showNatsD ks} | resolve={b2n res} | rebuild={b2n rb}"

/-! ### tags -/

/-- Round-robin schedule of `T` threads × `N` creations. -/
def roundRobin (T N : Nat) : List Tags.Ev :=
  (List.range N).flatMap fun _ => (List.range T).map fun t => Tags.Ev.new t

def handleTg (n0 T N : Nat) : String :=
  let r := Tags.run { next := some n0, cells := [] } (roundRobin T N)
  let tags := Tags.newTags r.2
  let panics := (r.2.filter (fun p => p.2.isNone)).length
  s!"count={tags.length} min={tags.foldl min (tags.headD 0)} max={tags.foldl max 0} panics={panics}"

/-- The instruction-level machine (`Model/C20TagsFine.lean`) under a pseudo-random scheduler that
stops scheduling a thread once it has completed `N` calls. The scheduler is not part of the model
(the theorem is about every schedule). -/
def fineLoop (T N : Nat) : Nat → Nat → TagsFine.St → TagsFine.St
  | 0, _, s => s
  | fuel + 1, rng, s =>
    if s.out.length ≥ T * N && s.owner.isNone then s else
    let i := (rng / 65536) % T
    let rng' := (rng * 1103515245 + 12345) % 2147483648
    let doneI := ((s.out.filter (·.1 == i)).length ≥ N) && ((s.th i).pc == 0)
    if doneI then fineLoop T N fuel rng' s
    else fineLoop T N fuel rng' (TagsFine.step TagsFine.lockProg s i)

def handleTf (n0 T N seed : Nat) : String :=
  let s := fineLoop T N (200 * T * T * N + 1000) (seed + 1) { TagsFine.init with counter := n0 }
  let tags := TagsFine.tags s
  s!"count={tags.length} min={tags.foldl min (tags.headD 0)} max={tags.foldl max 0} panics=0"

def nodupNat : List Nat → Bool
  | [] => true
  | x :: t => !t.contains x && nodupNat t

/-- Pairwise distinctness of a list, by sorting-free O(n log n)? n ≤ 13 000: use insertion into a sorted list. -/
def distinctSorted : List Nat → Bool
  | a :: b :: t => a != b && distinctSorted (b :: t)
  | _ => true

def handleSt (n0 T : Nat) : String :=
  let sched := (List.range T).map fun t => Tags.Ev.get t 0
  let r := Tags.run { next := some n0, cells := [] } sched
  let tags := Tags.cellTags 0 r.2
  s!"count={tags.length} min={tags.foldl min (tags.headD 0)} max={tags.foldl max 0}"

def handle (line : String) : String :=
  match words line with
  | "gm" :: ws =>
    match ints? ws with
    | some (nkeys :: split :: n :: rest) =>
      match decOps n.toNat rest with
      | some ops => handleGm nkeys.toNat split.toNat ops
      | none => "bad-request"
    | _ => "bad-request"
  | "gx" :: ws =>
    match nats? ws with
    | some (depth :: split :: n :: rest) =>
      if rest.length = n ∧ n ≤ depth ∧ rest.all (· < 10) then handleGx depth split rest else "bad-request"
    | _ => "bad-request"
  | "km" :: ws =>
    match nats? ws with
    | some (pl :: rest) => if pl ≤ rest.length then handleKm (rest.take pl) (rest.drop pl) else "bad-request"
    | _ => "bad-request"
  | "kx" :: ws =>
    match nats? ws with
    | some (depth :: alphabet :: pl :: rest) => if pl = rest.length then handleKx depth alphabet rest else "bad-request"
    | _ => "bad-request"
  | "in" :: ws =>
    match nats? ws with
    | some (n :: rest) =>
      match decStrs n rest with
      | some strs => handleIn strs
      | none => "bad-request"
    | _ => "bad-request"
  | "tg" :: ws =>
    match nats? ws with
    | some [n0, t, n] => handleTg n0 t n
    | _ => "bad-request"
  | "tf" :: ws =>
    match nats? ws with
    | some [n0, t, n, seed] => handleTf n0 t n seed
    | _ => "bad-request"
  | "tgchk" :: ws =>
    match nats? ws with
    | some tags => s!"distinct={b2n (nodupNat tags)}"
    | none => "bad-request"
  | "st" :: ws =>
    match nats? ws with
    | some [n0, t] => handleSt n0 t
    | _ => "bad-request"
  | _ => "bad-request"

end DrvC20

def main : IO Unit := Proto.main DrvC20.handle
