import TexcraftModel.Util.Proto
import TexcraftModel.Model.C11
import TexcraftModel.Model.C11Bridge
import TexcraftModel.Model.C11Norm
import TexcraftModel.Model.C11Words
import TexcraftModel.Model.C11Predict
import TexcraftModel.Model.C11Layers
import TexcraftModel.Model.C11Header

/-! Driver for C11. A *program* is written
`<rb|-1> <lb|-1> <n> (<next|-1> <right> <kind> <a> <b>)*n <m> (<char> <entry>)*m <k> <kern>*k`
with kind 0 `kern a`, 1 `kernAt a`, 2 `lig a b`, 3 `redirect a (b≠0)`.

* `pack <program>`              → the model's `pack`: `<program>` (packed, entries = u8 entry points) or `panic`
* `chkpack <program> <program>` → `wf=<0|1> ok` / `wf=1 bad: <what>`: the executable spec `checkPack`
                                   of the first program (before) against the second (after, as the real code left it)
* `kerns <program>`             → the model's `unpackKerns`: `<program>` with the kerns array filled
* `sem <program> <program>`     → `same` or the first pair on which `C05.rule` differs
* `reach <program>`             → per word `<reachable 0|1> <adjusted skip | -1>` (`reachable_array`, `ReachableIter`)
* `items <program>`             → the printed LIGTABLE: `0 c` label, `1` label boundarychar, `2 right kind a b` step, `3` stop, `4 n` skip
* `norm <program>`              → `<printParse program> | <normalise program> | nwf=<0|1>` (entries sorted by character)
* `rawsem <raw> <raw>`          → `same` or the first pair on which `C05.rule` differs, both programs decoded by Lean
                                   from the bytes: `<raw>` = `<n> (<b0> <b1> <b2> <b3>)*n <m> (<char> <remainder>)*m <k> <kern>*k`
* `safe7 <raw> <nl> (<char> <next>)*nl <nr> (<char> <top> <mid> <bot> <rep>)*nr`
                                 → `1`/`0`: PLtoTF's seven-bit safety of the font (`safe7`; piece byte 0 = absent)
* `predict <raw>`               → `rr=<0|1> dl=<0|1> | <raw>`: from the raw lig/kern sub-file of a .tfm (lig remainders of *all*
                                   characters with a lig tag) the model of the current code predicts the raw sub-file of
                                   pl_to_tfm(tfm_to_pl(·)): `decodeRaw`, `packKerns`, `unpackAll`, `printParse`, `unpackKerns`,
                                   `pack`, `encodeWord` (`fail` if a step has no result); `rr`: a reachable word is a redirect
                                   word (shape of C11-f), `dl`: a label without a step after the trip (shape of C11-b)
* `chars <n> (<code> <wi> <hi> <di> <ii> <tag> <rem>)*n <nw> w* <nh> h* <nd> d* <ni> i* <ne> (<t> <m> <b> <r>)*ne`
                                 → the same format: the model's `charsTrip` (lig remainders untouched), or `lossy` / `notok`
* `header <safe 0|1> <byte>*`  → the header bytes the model (`headerTrip`) predicts for t1, or `notok`
* `dims <max> <n> <v>*n`        → `<table>* | <index of each v>*` (early-exit path of `compress`), or `lossy`
-/
open C11 Proto

namespace DrvC11

def optOf (i : Int) : Option Nat := if i < 0 then none else some i.toNat
def ofOpt : Option Nat → Int
  | none => -1
  | some n => n

def decInstrs : Nat → Cur → Option (List Instr × Cur)
  | 0, c => some ([], c)
  | n + 1, nx :: r :: k :: a :: b :: t =>
    let op? : Option Op :=
      if k = 0 then some (.kern a)
      else if k = 1 then some (.kernAt a.toNat)
      else if k = 2 then some (.lig a.toNat b.toNat)
      else if k = 3 then some (.redirect a.toNat (b != 0))
      else none
    match op?, decInstrs n t with
    | some op, some (is, t) => some (⟨optOf nx, r.toNat, op⟩ :: is, t)
    | _, _ => none
  | _, _ => none

def decPairs : Nat → Cur → Option (List (Nat × Nat) × Cur)
  | 0, c => some ([], c)
  | n + 1, a :: b :: t =>
    match decPairs n t with
    | some (ps, t) => some ((a.toNat, b.toNat) :: ps, t)
    | none => none
  | _, _ => none

structure Req where
  prog : Prog
  entries : List (Nat × Nat)
  kerns : List Int

def decProgram (c : Cur) : Option (Req × Cur) :=
  match c with
  | rb :: lb :: n :: t =>
    match decInstrs n.toNat t with
    | some (is, m :: t) =>
      match decPairs m.toNat t with
      | some (es, k :: t) =>
        match takeN k.toNat t with
        | some (ks, t) => some (⟨⟨is, optOf lb, optOf rb⟩, es, ks⟩, t)
        | none => none
      | _ => none
    | _ => none
  | _ => none

def encInstr (i : Instr) : List Int :=
  [ofOpt i.next, (i.right : Int)] ++
    (match i.op with
     | .kern k => [0, k, 0]
     | .kernAt j => [1, (j : Int), 0]
     | .lig c p => [2, (c : Int), (p : Int)]
     | .redirect u f => [3, (u : Int), if f then 1 else 0])

def encProgram (p : Prog) (es : List (Nat × Nat)) (ks : List Int) : List Int :=
  [ofOpt p.rb, ofOpt p.lb, (p.instrs.length : Int)] ++ (p.instrs.map encInstr).flatten ++
    [(es.length : Int)] ++ (es.map fun e => [(e.1 : Int), (e.2 : Int)]).flatten ++
    [(ks.length : Int)] ++ ks

def showOptNat : Option Nat → String
  | none => "boundary"
  | some c => toString c

def explainPack (o : Req) (q : Req) : String :=
  match o.entries.find? (fun ce => !entryOk o.prog.instrs q.prog.instrs q.entries ce) with
  | some ce => s!"bad: entry chain: char {ce.1} entry {ce.2} packed {(lookup q.entries ce.1)}"
  | none =>
    if q.entries.map (·.1) != o.entries.map (·.1) then "bad: characters: the returned map has other keys"
    else if !boundaryOk o.prog q.prog then "bad: boundary: boundary char or left-boundary entry point not recoverable"
    else "bad: ?"

def b2i (b : Bool) : Int := if b then 1 else 0

def flagsAdj : List Instr → List Bool → List (List Int)
  | i :: rest, f :: fl => [b2i f, if f then ofOpt (adjSkip i.next fl) else -1] :: flagsAdj rest fl
  | _, _ => []

def encItem : Item → List Int
  | .label c => [0, (c : Int)]
  | .labelB => [1]
  | .op r o => [2, (r : Int)] ++ (encInstr ⟨none, r, o⟩).drop 2
  | .stop => [3]
  | .skip n => [4, (n : Int)]

def decWords : Nat → Cur → Option (List Word × Cur)
  | 0, c => some ([], c)
  | n + 1, a :: b :: c :: d :: t =>
    match decWords n t with
    | some (ws, t) => some (⟨a.toNat, b.toNat, c.toNat, d.toNat⟩ :: ws, t)
    | none => none
  | _, _ => none

/-- A raw lig/kern sub-file with the lig tags of the existing characters and the kerns:
decoded by `decodeRaw`, entry points unpacked by `unpackAll`. -/
def decRaw (c : Cur) : Option (Req × Cur) :=
  match c with
  | n :: t =>
    match decWords n.toNat t with
    | some (ws, m :: t) =>
      match decPairs m.toNat t with
      | some (es, k :: t) =>
        match takeN k.toNat t with
        | some (ks, t) =>
          let p := decodeRaw ws
          some (⟨p, unpackAll p.instrs es, ks⟩, t)
        | none => none
      | _ => none
    | _ => none
  | _ => none

def decRawAll (c : Cur) : Option (List Word × List (Nat × Nat) × List Int × Cur) :=
  match c with
  | n :: t =>
    match decWords n.toNat t with
    | some (ws, m :: t) =>
      match decPairs m.toNat t with
      | some (es, k :: t) =>
        match takeN k.toNat t with
        | some (ks, t) => some (ws, es, ks, t)
        | none => none
      | _ => none
    | _ => none
  | _ => none

def decQuints : Nat → Cur → Option (List (Nat × List Nat) × Cur)
  | 0, c => some ([], c)
  | n + 1, ch :: a :: b :: c :: d :: t =>
    match decQuints n t with
    | some (rs, t) => some ((ch.toNat, ([a, b, c].filter (· ≠ 0)).map Int.toNat ++ [d.toNat]) :: rs, t)
    | none => none
  | _, _ => none

def decRows : Nat → Cur → Option (List CharRow × Cur)
  | 0, c => some ([], c)
  | n + 1, a :: b :: c :: d :: e :: f :: g :: t =>
    match decRows n t with
    | some (rs, t) => some (⟨a.toNat, b.toNat, c.toNat, d.toNat, e.toNat, f.toNat, g.toNat⟩ :: rs, t)
    | none => none
  | _, _ => none

def decRecipes : Nat → Cur → Option (List Recipe × Cur)
  | 0, c => some ([], c)
  | n + 1, a :: b :: c :: d :: t =>
    match decRecipes n t with
    | some (rs, t) => some (⟨a.toNat, b.toNat, c.toNat, d.toNat⟩ :: rs, t)
    | none => none
  | _, _ => none

def decChars (c : Cur) : Option RawChars := do
  match c with
  | n :: t =>
    let (rows, t) ← decRows n.toNat t
    let (w, t) ← takeList t
    let (h, t) ← takeList t
    let (d, t) ← takeList t
    let (i, t) ← takeList t
    match t with
    | ne :: t =>
      let (ext, t) ← decRecipes ne.toNat t
      if t.isEmpty then pure ⟨rows, w, h, d, i, ext⟩ else none
    | [] => none
  | [] => none

def encChars (x : RawChars) : List Int :=
  [(x.rows.length : Int)] ++ (x.rows.map fun r => [(r.code : Int), (r.wi : Int), (r.hi : Int), (r.di : Int), (r.ii : Int), (r.tag : Int), (r.rem : Int)]).flatten ++
  [(x.W.length : Int)] ++ x.W ++ [(x.H.length : Int)] ++ x.H ++ [(x.D.length : Int)] ++ x.D ++ [(x.I.length : Int)] ++ x.I ++
  [(x.ext.length : Int)] ++ (x.ext.map fun r => [(r.top : Int), (r.mid : Int), (r.bot : Int), (r.rep : Int)]).flatten

def handle (line : String) : String :=
  match words line with
  | "pack" :: ws =>
    match ints? ws >>= decProgram with
    | some (r, []) =>
      match pack r.prog r.entries with
      | none => "panic"
      | some (p, pe) => showInts (encProgram p pe [])
    | _ => "bad-request"
  | "chkpack" :: ws =>
    match ints? ws >>= decProgram with
    | some (o, rest) =>
      match decProgram rest with
      | some (q, []) =>
        if !wf o.prog o.entries then
          (if checkPack o.prog o.entries q.prog q.entries then "wf=0 ok" else "wf=0 " ++ explainPack o q)
        else if checkPack o.prog o.entries q.prog q.entries then "wf=1 ok"
        else "wf=1 " ++ explainPack o q
      | _ => "bad-request"
    | _ => "bad-request"
  | "kerns" :: ws =>
    match ints? ws >>= decProgram with
    | some (r, []) =>
      let u := unpackKerns r.prog.instrs
      showInts (encProgram { r.prog with instrs := u.1 } r.entries u.2)
    | _ => "bad-request"
  | "sem" :: ws =>
    match ints? ws >>= decProgram with
    | some (a, rest) =>
      match decProgram rest with
      | some (b, []) =>
        match firstRuleDiff (toC05 a.prog a.entries a.kerns) (toC05 b.prog b.entries b.kerns) with
        | none => "same"
        | some (l, r) =>
          let pa := toC05 a.prog a.entries a.kerns
          let pb := toC05 b.prog b.entries b.kerns
          s!"rule differs on ({showOptNat l},{r}): t0 {repr (C05.rule pa l r)} t1 {repr (C05.rule pb l r)}"
      | _ => "bad-request"
    | _ => "bad-request"
  | "reach" :: ws =>
    match ints? ws >>= decProgram with
    | some (r, []) =>
      let fl := reachable r.prog r.entries
      showInts (flagsAdj r.prog.instrs fl).flatten
    | _ => "bad-request"
  | "items" :: ws =>
    match ints? ws >>= decProgram with
    | some (r, []) =>
      showInts ((printItems r.prog.lb r.entries 0 r.prog.instrs (reachable r.prog r.entries)).map encItem).flatten
    | _ => "bad-request"
  | "norm" :: ws =>
    match ints? ws >>= decProgram with
    | some (r, []) =>
      let a := printParse r.prog r.entries
      let b := normalise r.prog r.entries
      s!"{showInts (encProgram a.1 (sortByChar a.2) [])} | {showInts (encProgram b.1 (sortByChar b.2) [])} | nwf={b2i (nwf r.prog r.entries)}"
    | _ => "bad-request"
  | "predict" :: ws =>
    match ints? ws >>= decRawAll with
    | some (ws0, es0, ks0, []) =>
      let b : RawLK := ⟨ws0, es0, ks0⟩
      let pre := preOf b
      let rr := !noReachRedirect pre.1.instrs (reachable pre.1 pre.2)
      let q := plOf b
      let n := q.1.instrs.length
      let dl := q.2.any (fun ce => decide (n ≤ ce.2)) || (match q.1.lb with | some l => decide (n ≤ l) | none => false)
      let head := s!"rr={b2i rr} dl={b2i dl} | "
      match predict b with
      | none => head ++ "fail"
      | some b1 =>
        let words : List Int := (b1.words.map fun w => [(w.b0 : Int), (w.b1 : Int), (w.b2 : Int), (w.b3 : Int)]).flatten
        head ++ showInts ([(b1.words.length : Int)] ++ words ++ [(b1.ligs.length : Int)] ++
          (b1.ligs.map fun e => [(e.1 : Int), (e.2 : Int)]).flatten ++ [(b1.kerns.length : Int)] ++ b1.kerns)
    | _ => "bad-request"
  | "rawsem" :: ws =>
    match ints? ws >>= decRaw with
    | some (a, rest) =>
      match decRaw rest with
      | some (b, []) =>
        let pa := toC05 a.prog a.entries a.kerns
        let pb := toC05 b.prog b.entries b.kerns
        match firstRuleDiff pa pb with
        | none => if a.prog.rb == b.prog.rb then "same" else s!"boundary char differs: {repr a.prog.rb} vs {repr b.prog.rb}"
        | some (l, r) => s!"rule differs on ({showOptNat l},{r}): {repr (C05.rule pa l r)} vs {repr (C05.rule pb l r)}"
      | _ => "bad-request"
    | _ => "bad-request"
  | "safe7" :: ws =>
    match ints? ws >>= decRaw with
    | some (a, nl :: rest) =>
      match decPairs nl.toNat rest with
      | some (lists, nr :: rest) =>
        match decQuints nr.toNat rest with
        | some (recipes, []) => if safe7 a.prog.instrs a.entries lists recipes then "1" else "0"
        | _ => "bad-request"
      | _ => "bad-request"
    | _ => "bad-request"
  | "chars" :: ws =>
    match ints? ws >>= decChars with
    | some x =>
      if !charsOk x then "notok" else if !lossless x then "lossy" else showInts (encChars (charsTrip x))
    | none => "bad-request"
  | "header" :: sf :: ws =>
    match nats? ws with
    | some hb => if !headerOk hb then "notok" else showNats (headerTrip (sf == "1") hb)
    | none => "bad-request"
  | "dims" :: ws =>
    match ints? ws with
    | some (mx :: n :: vs) =>
      if vs.length != n.toNat then "bad-request"
      else if (sortDedup vs).length > mx.toNat then "lossy"
      else s!"{showInts (table vs)} | {showNats (vs.map fun v => dimIndex v vs)}"
    | _ => "bad-request"
  | _ => "bad-request"

end DrvC11

def main : IO Unit := Proto.main DrvC11.handle
