import TexcraftModel.Util.Proto
import TexcraftModel.Model.C16

/-! Driver for C16 (DVI). Requests:

* `rt <ops>`     → `<wf> | <ser bytes> | <deserialize (ser bytes)>`
* `de <bytes>`   → `<deserialize bytes>`
* `vr <ops>`     → `<varRemove ops>`
* `nz <bytes>`    → `ok <bytes dvitools normalize must write>` | `err`
* `chk <ops-in> <ops-out>` → spec verdict on a claimed var-removal: `pos=<0/1> novars=<0/1> others=<0/1>`

Ops are integer-encoded (see `encOp`); an op list is its length followed by the ops. -/
open C16 Proto

namespace DrvC16

def encVar : Var → Int | .W => 0 | .X => 1 | .Y => 2 | .Z => 3
def decVar : Int → Option Var | 0 => some .W | 1 => some .X | 2 => some .Y | 3 => some .Z | _ => none

def encNats (l : List Nat) : List Int := (l.length : Int) :: l.map Int.ofNat
def b2i (b : Bool) : Int := if b then 1 else 0

def encOp : Op → List Int
  | .typesetChar c m => [0, c, b2i m]
  | .typesetRule h w m => [1, h, w, b2i m]
  | .noOp => [2]
  | .beginPage ps prev => [3, (ps.length : Int)] ++ ps ++ [prev]
  | .endPage => [4]
  | .push => [5]
  | .pop => [6]
  | .right i => [7, i]
  | .move v => [8, encVar v]
  | .setVar v i => [9, encVar v, i]
  | .down i => [10, i]
  | .enableFont u => [11, u]
  | .extension d => 12 :: encNats d
  | .defineFont n c a d area name => [13, (n:Int), (c:Int), (a:Int), (d:Int)] ++ encNats area ++ encNats name
  | .preamble f n d m c => [14, (f:Int), (n:Int), (d:Int), (m:Int)] ++ encNats c
  | .beginPostamble fbp n d m lh lw ms np => [15, fbp, n, d, m, lh, lw, ms, np]
  | .endPostamble f p k => [16, f, p, k]

def encOps (ops : List Op) : List Int := (ops.length : Int) :: (ops.map encOp).flatten

def nat? (i : Int) : Option Nat := if i < 0 then none else some i.toNat
def natList? (c : Cur) : Option (List Nat × Cur) := do
  let (l, c) ← takeList c
  let l ← l.mapM nat?
  pure (l, c)

def decOp (c : Cur) : Option (Op × Cur) :=
  match c with
  | 0 :: ch :: m :: t => do pure (.typesetChar (← nat? ch) (m != 0), t)
  | 1 :: h :: w :: m :: t => some (.typesetRule h w (m != 0), t)
  | 2 :: t => some (.noOp, t)
  | 3 :: t => do
      let (ps, t) ← takeList t
      match t with
      | prev :: t => pure (.beginPage ps prev, t)
      | [] => none
  | 4 :: t => some (.endPage, t)
  | 5 :: t => some (.push, t)
  | 6 :: t => some (.pop, t)
  | 7 :: i :: t => some (.right i, t)
  | 8 :: v :: t => do pure (.move (← decVar v), t)
  | 9 :: v :: i :: t => do pure (.setVar (← decVar v) i, t)
  | 10 :: i :: t => some (.down i, t)
  | 11 :: u :: t => do pure (.enableFont (← nat? u), t)
  | 12 :: t => do let (d, t) ← natList? t; pure (.extension d, t)
  | 13 :: n :: c :: a :: d :: t => do
      let (area, t) ← natList? t
      let (name, t) ← natList? t
      pure (.defineFont (← nat? n) (← nat? c) (← nat? a) (← nat? d) area name, t)
  | 14 :: f :: n :: d :: m :: t => do
      let (c, t) ← natList? t
      pure (.preamble (← nat? f) (← nat? n) (← nat? d) (← nat? m) c, t)
  | 15 :: fbp :: n :: d :: m :: lh :: lw :: ms :: np :: t => do
      pure (.beginPostamble fbp (← nat? n) (← nat? d) (← nat? m) (← nat? lh) (← nat? lw) (← nat? ms) (← nat? np), t)
  | 16 :: f :: p :: k :: t => do pure (.endPostamble (← nat? f) p (← nat? k), t)
  | _ => none

def decOpsN : Nat → Cur → Option (List Op × Cur)
  | 0, c => some ([], c)
  | n + 1, c => do
    let (op, c) ← decOp c
    let (ops, c) ← decOpsN n c
    pure (op :: ops, c)

def decOps (c : Cur) : Option (List Op × Cur) :=
  match c with
  | n :: t => if n < 0 then none else decOpsN n.toNat t
  | [] => none

def encErr : Option Err → List Int
  | none => [0]
  | some (.invalidOpCode c) => [1, c]
  | some (.truncated c) => [2, c]

def showDe (r : List Op × Option Err) : String :=
  showInts (encOps r.1 ++ encErr r.2)

def encPos (p : Pos) : List Int :=
  [p.h, p.v, (p.hc.length : Int)] ++ (p.hc.map fun (c, f) => [(c : Int), (f : Int)]).flatten

def encMark : Mark → List Int
  | .char c m p f => [0, (c:Int), b2i m, (f:Int)] ++ encPos p
  | .rule h w m p f => [1, h, w, b2i m, (f:Int)] ++ encPos p

/-- `var_remove_others`, executable: same length and equal wherever the input is not a variable op. -/
def othersUnchanged : List Op → List Op → Bool
  | [], [] => true
  | a :: as, b :: bs => (a.isVar || a == b) && othersUnchanged as bs
  | _, _ => false

def handle (line : String) : String :=
  match words line with
  | "rt" :: ws =>
    match ints? ws >>= decOps with
    | some (ops, []) =>
      let bytes := serAll ops
      s!"{b2i (decide (SeqWF ops))} | {showNats bytes} | {showDe (deserialize bytes)}"
    | _ => "bad-request"
  | "de" :: ws =>
    match nats? ws with
    | some bytes => showDe (deserialize bytes)
    | none => "bad-request"
  | "vr" :: ws =>
    match ints? ws >>= decOps with
    | some (ops, []) => showInts (encOps (varRemove ops))
    | _ => "bad-request"
  | "chk" :: ws =>
    match ints? ws >>= decOps with
    | some (ins, rest) =>
      match decOps rest with
      | some (outs, []) =>
        let pos := positions ins == positions outs
        let novars := outs.all (fun o => !o.isVar)
        let others := othersUnchanged ins outs
        s!"pos={b2i pos} novars={b2i novars} others={b2i others}"
      | _ => "bad-request"
    | _ => "bad-request"
  | "nz" :: ws =>
    -- what `dvitools normalize` must write: deserialise, remove the variables, serialise
    match nats? ws with
    | some bytes =>
      let r := deserialize bytes
      match r.2 with
      | none => s!"ok {showNats (serAll (varRemove r.1))}"
      | some _ => "err"
    | none => "bad-request"
  | "nzq" :: ws =>
    -- as `nz`, plus whether the hypothesis of `normalize_bytes` holds of what was read
    match nats? ws with
    | some bytes =>
      let r := deserialize bytes
      match r.2 with
      | none => s!"ok {b2i (decide (Post52Free r.1))} {showNats (serAll (varRemove r.1))}"
      | some _ => "err"
    | none => "bad-request"
  | "mag" :: ws =>
    -- the hypothesis of `positions_within_i32`
    match ints? ws >>= decOps with
    | some (ops, []) => toString (runMag {} ops)
    | _ => "bad-request"
  | "pos" :: ws =>
    match ints? ws >>= decOps with
    | some (ops, []) => showInts ((positions ops).map encMark).flatten
    | _ => "bad-request"
  | _ => "bad-request"

end DrvC16

def main : IO Unit := Proto.main DrvC16.handle
