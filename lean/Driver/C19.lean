import TexcraftModel.Util.Proto
import TexcraftModel.Model.C19
import TexcraftModel.Model.C19Names

/-! Driver for C19. All requests and replies are integer lists.

Tokens: `chr c` ↦ `c` (32..126), `sp` ↦ 1, `bg` ↦ 2, `eg` ↦ 3, `par` ↦ 4, `cs n` ↦ 1000+n.
Atoms: a token, `\input f` ↦ 2000+f, `\endinput` ↦ 5. Items: an atom, or `6 len atoms…` (macro call).
Line = `n item…`, file = `n line…`.

* `in <d> <main file> <nfiles> (<name> <file>)…`
    → `<status> <M tokens…> | <wf> | <inline keep=false…> | <inline keep=true…> | <endLast>`
      status 0 ok, 1 file not found, 2 too many input levels, 3 out of fuel
* `rd <nfiles> (<name> <nlines> (<len> tok…)…)… <nterm> (<len> tok…)… <nops> op…`
    with op = `0 n f` openin, `1 n` closein, `2 n x` read, `3 n` ifeof, `4 x` use
    → `<status> <M out…> | <status> <S out…>`; status 0 ok, 1 bad stream, 2 unmatched, 3 terminal exhausted
-/
open C19 Proto

namespace DrvC19

def encTok : Tok → Int
  | .chr c => c | .sp => 1 | .bg => 2 | .eg => 3 | .par => 4 | .cs n => 1000 + n

def decTok (i : Int) : Option Tok :=
  if i = 1 then some .sp else if i = 2 then some .bg else if i = 3 then some .eg
  else if i = 4 then some .par
  else if 32 ≤ i ∧ i < 127 then some (.chr i.toNat)
  else if 1000 ≤ i ∧ i < 2000 then some (.cs (i - 1000).toNat)
  else none

def decAtom (i : Int) : Option Atom :=
  if i = 5 then some .endinput
  else if 2000 ≤ i then some (.input (i - 2000).toNat)
  else (decTok i).map .tok

def decItems : Nat → Cur → Option (List Item × Cur)
  | 0, c => some ([], c)
  | n + 1, c =>
    match c with
    | [] => none
    | 6 :: t => do
      let (body, t) ← takeList t
      let body ← body.mapM decAtom
      let (r, t) ← decItems n t
      pure (.call body :: r, t)
    | i :: t => do
      let a ← decAtom i
      let (r, t) ← decItems n t
      pure (.atom a :: r, t)

def nat? (i : Int) : Option Nat := if i < 0 then none else some i.toNat

def decLine (c : Cur) : Option (Line × Cur) :=
  match c with
  | [] => none
  | n :: t => do decItems (← nat? n) t

def decLines : Nat → Cur → Option (List Line × Cur)
  | 0, c => some ([], c)
  | n + 1, c => do
    let (l, c) ← decLine c
    let (r, c) ← decLines n c
    pure (l :: r, c)

def decFile (c : Cur) : Option (File × Cur) :=
  match c with
  | [] => none
  | n :: t => do decLines (← nat? n) t

def decFS : Nat → Cur → Option (FS × Cur)
  | 0, c => some ([], c)
  | n + 1, c =>
    match c with
    | [] => none
    | name :: t => do
      let (f, t) ← decFile t
      let (r, t) ← decFS n t
      pure (((← nat? name), f) :: r, t)

def decTLine (c : Cur) : Option (TLine × Cur) := do
  let (l, c) ← takeList c
  pure ((← l.mapM decTok), c)

def decTLines : Nat → Cur → Option (List TLine × Cur)
  | 0, c => some ([], c)
  | n + 1, c => do
    let (l, c) ← decTLine c
    let (r, c) ← decTLines n c
    pure (l :: r, c)

def decTFile (c : Cur) : Option (List TLine × Cur) :=
  match c with
  | [] => none
  | n :: t => do decTLines (← nat? n) t

def decRFS : Nat → Cur → Option (List (Nat × List TLine) × Cur)
  | 0, c => some ([], c)
  | n + 1, c =>
    match c with
    | [] => none
    | name :: t => do
      let (f, t) ← decTFile t
      let (r, t) ← decRFS n t
      pure (((← nat? name), f) :: r, t)

def decOps : Nat → Cur → Option (List Op × Cur)
  | 0, c => some ([], c)
  | k + 1, c =>
    match c with
    | 0 :: n :: f :: t => do
      let (r, t) ← decOps k t
      pure (.openin (← nat? n) (← nat? f) :: r, t)
    | 1 :: n :: t => do
      let (r, t) ← decOps k t
      pure (.closein (← nat? n) :: r, t)
    | 2 :: n :: x :: t => do
      let (r, t) ← decOps k t
      pure (.read n (← nat? x) :: r, t)
    | 3 :: n :: t => do
      let (r, t) ← decOps k t
      pure (.ifeof (← nat? n) :: r, t)
    | 4 :: x :: t => do
      let (r, t) ← decOps k t
      pure (.use (← nat? x) :: r, t)
    | _ => none

def showToks (l : List Tok) : String := showInts (l.map encTok)

def b2s (b : Bool) : String := if b then "1" else "0"

def fuel : Nat := 2000000

def handleIn (c : Cur) : Option String := do
  match c with
  | [] => none
  | d :: c =>
    let d ← nat? d
    let (main, c) ← decFile c
    match c with
    | [] => none
    | n :: c =>
      let (fs, _) ← decFS (← nat? n) c
      let m := match run fs fuel main with
        | .ok o => "0 " ++ showToks o
        | .notFound o => "1 " ++ showToks o
        | .tooDeep o => "2 " ++ showToks o
        | .outOfFuel => "3"
      pure (m ++ " | " ++ b2s (WF fs d main) ++ " | " ++ showToks (inlineToks false fs d main)
        ++ " | " ++ showToks (inlineToks true fs d main)
        ++ " | " ++ b2s (endLastLines main && endLastFS fs))

def showR (st : RSt) : String :=
  (match st.status with
    | .running => "0" | .badStream => "1" | .unmatched => "2" | .termExhausted => "3")
  ++ " " ++ showToks st.out

def handleRd (c : Cur) : Option String := do
  match c with
  | [] => none
  | n :: c =>
    let (rfs, c) ← decRFS (← nat? n) c
    let (term, c) ← decTFile c
    match c with
    | [] => none
    | k :: c =>
      let (ops, _) ← decOps (← nat? k) c
      pure (showR (runOps false rfs term ops) ++ " | " ++ showR (runOps true rfs term ops))

def handle (line : String) : String :=
  match words line with
  | "in" :: ws =>
    match ints? ws with
    | some c => (handleIn c).getD "ERR decode"
    | none => "ERR ints"
  | "rd" :: ws =>
    match ints? ws with
    | some c => (handleRd c).getD "ERR decode"
    | none => "ERR ints"
  | "rs" :: ws =>
    -- `rs <mode> <char codes…>` → the file name that the written name denotes
    -- (mode 0: the code, `resolveCode`; mode 1: TeX, `resolveTeX`)
    match nats? ws with
    | some (0 :: w) => showNats (resolveCode w)
    | some (1 :: w) => showNats (resolveTeX w)
    | _ => "ERR rs"
  | _ => "ERR unknown request"

end DrvC19

def main : IO Unit := Proto.main DrvC19.handle
