import TexcraftModel.Util.Proto
import TexcraftModel.Model.C19
import TexcraftModel.Model.C19Names

/-! Driver for C19. All requests and replies are integer lists.

Tokens: `chr c` ↦ `c` (32..126), `sp` ↦ 1, `bg` ↦ 2, `eg` ↦ 3, `par` ↦ 4, `cs n` ↦ 1000+n.
Atoms: a token, `\input f` ↦ 2000+f, `\endinput` ↦ 5. Items: an atom, or `6 len atoms…` (macro call).
Line = `n item…`, file = `n line…`.

* `in <d> <main file> <nfiles> (<name> <file>)…`
    → `<status> <M tokens…> | <wf> | <inline keep=false…> | <inline keep=true…> | <endLast>`
      status 0 ok, 1 file not found, 2 too many input levels, 3 out of fuel
* `rd <nfiles> (<name> <nlines> (<len> tok…)…)… <nterm> (<len> tok…)… <nops> op…`
    with op = `0 n f` openin, `1 n` closein, `2 n x` read, `8 n x` \\global\\read, `3 n` ifeof, `4 x` use,
    `5 v` \\endlinechar=v, `6` begin group, `7` end group; a line is `len tok… eol`
    → `<status> <M out…> | <status> <S out…> | <unrepaired lexer, TeX eof> | <unrepaired lexer, model eof>`;
      status 0 ok, 1 bad stream, 2 unmatched, 3 terminal exhausted, 4 no group to end
-/
open C19 Proto

namespace DrvC19

def encTok : Tok → Int
  | .chr c => c | .sp => 1 | .bg => 2 | .eg => 3 | .par => 4 | .cs n => 1000 + n

def decTok (i : Int) : Option Tok :=
  if i = 1 then some .sp else if i = 2 then some .bg else if i = 3 then some .eg
  else if i = 4 then some .par
  else if 32 ≤ i ∧ i < 127 then some (.chr i.toNat)
  else if 1000 ≤ i ∧ i < 2000 then some (.cs (i - 1000).toNat)
  else none

def decAtom (i : Int) : Option Atom :=
  if i = 5 then some .endinput
  else if 2000 ≤ i then some (.input (i - 2000).toNat)
  else (decTok i).map .tok

def decItems : Nat → Cur → Option (List Item × Cur)
  | 0, c => some ([], c)
  | n + 1, c =>
    match c with
    | [] => none
    | 6 :: t => do
      let (body, t) ← takeList t
      let body ← body.mapM decAtom
      let (r, t) ← decItems n t
      pure (.call body :: r, t)
    | i :: t => do
      let a ← decAtom i
      let (r, t) ← decItems n t
      pure (.atom a :: r, t)

def nat? (i : Int) : Option Nat := if i < 0 then none else some i.toNat

def decLine (c : Cur) : Option (Line × Cur) :=
  match c with
  | [] => none
  | n :: t => do decItems (← nat? n) t

def decLines : Nat → Cur → Option (List Line × Cur)
  | 0, c => some ([], c)
  | n + 1, c => do
    let (l, c) ← decLine c
    let (r, c) ← decLines n c
    pure (l :: r, c)

def decFile (c : Cur) : Option (File × Cur) :=
  match c with
  | [] => none
  | n :: t => do decLines (← nat? n) t

def decFS : Nat → Cur → Option (FS × Cur)
  | 0, c => some ([], c)
  | n + 1, c =>
    match c with
    | [] => none
    | name :: t => do
      let (f, t) ← decFile t
      let (r, t) ← decFS n t
      pure (((← nat? name), f) :: r, t)

/-- A raw line: `len tok… eol`, eol = 0 (nothing after a control word), 1 (space), 4 (`\par`),
9 (the line ends in a comment / an empty terminal line: never an end-of-line token). -/
def decTLine (c : Cur) : Option (RawLine × Cur) := do
  let (l, c) ← takeList c
  let toks ← l.mapM decTok
  match c with
  | 0 :: c => pure (⟨toks, some []⟩, c)
  | 1 :: c => pure (⟨toks, some [.sp]⟩, c)
  | 4 :: c => pure (⟨toks, some [.par]⟩, c)
  | 9 :: c => pure (⟨toks, none⟩, c)
  | _ => none

def decTLines : Nat → Cur → Option (List RawLine × Cur)
  | 0, c => some ([], c)
  | n + 1, c => do
    let (l, c) ← decTLine c
    let (r, c) ← decTLines n c
    pure (l :: r, c)

def decTFile (c : Cur) : Option (List RawLine × Cur) :=
  match c with
  | [] => none
  | n :: t => do decTLines (← nat? n) t

def decRFS : Nat → Cur → Option (List (Nat × List RawLine) × Cur)
  | 0, c => some ([], c)
  | n + 1, c =>
    match c with
    | [] => none
    | name :: t => do
      let (f, t) ← decTFile t
      let (r, t) ← decRFS n t
      pure (((← nat? name), f) :: r, t)

def decOps : Nat → Cur → Option (List Op × Cur)
  | 0, c => some ([], c)
  | k + 1, c =>
    match c with
    | 0 :: n :: f :: t => do
      let (r, t) ← decOps k t
      pure (.openin (← nat? n) (← nat? f) :: r, t)
    | 1 :: n :: t => do
      let (r, t) ← decOps k t
      pure (.closein (← nat? n) :: r, t)
    | 2 :: n :: x :: t => do
      let (r, t) ← decOps k t
      pure (.read false n (← nat? x) :: r, t)
    | 8 :: n :: x :: t => do
      let (r, t) ← decOps k t
      pure (.read true n (← nat? x) :: r, t)
    | 5 :: v :: t => do
      let (r, t) ← decOps k t
      pure (.setElc (if v < 0 then .none else if v = 13 then .default else .other v.toNat) :: r, t)
    | 6 :: t => do
      let (r, t) ← decOps k t
      pure (.bgroup :: r, t)
    | 7 :: t => do
      let (r, t) ← decOps k t
      pure (.egroup :: r, t)
    | 3 :: n :: t => do
      let (r, t) ← decOps k t
      pure (.ifeof (← nat? n) :: r, t)
    | 4 :: x :: t => do
      let (r, t) ← decOps k t
      pure (.use (← nat? x) :: r, t)
    | _ => none

def showToks (l : List Tok) : String := showInts (l.map encTok)

def b2s (b : Bool) : String := if b then "1" else "0"

def fuel : Nat := 2000000

def handleIn (c : Cur) : Option String := do
  match c with
  | [] => none
  | d :: c =>
    let d ← nat? d
    let (main, c) ← decFile c
    match c with
    | [] => none
    | n :: c =>
      let (fs, _) ← decFS (← nat? n) c
      -- `run` with the early-stopping iteration (`iterFast_eq_iter`)
      let m := match outcomeOf (iterFast fs fuel (initSt main)) with
        | .ok o => "0 " ++ showToks o
        | .notFound o => "1 " ++ showToks o
        | .tooDeep o => "2 " ++ showToks o
        | .outOfFuel => "3"
      pure (m ++ " | " ++ b2s (WF fs d main) ++ " | " ++ showToks (inlineToks false fs d main)
        ++ " | " ++ showToks (inlineToks true fs d main)
        ++ " | " ++ b2s (endLastLines main && endLastFS fs)
        -- TeX on the program with the rest of every \endinput line deleted (theorem
        -- endinput_is_tex_on_truncated_program): must equal the third field
        ++ " | " ++ showToks (inlineToks true (truncFS fs) d (truncLines main)))

def showR (st : RSt) : String :=
  (match st.status with
    | .running => "0" | .badStream => "1" | .unmatched => "2" | .termExhausted => "3" | .badGroup => "4")
  ++ " " ++ showToks st.out

/-- Classification only (not mentioned by any theorem): the two deviations of the model from TeX
switched separately. `lazy = false`: the unrepaired lexer, whose lines carry the end-of-line
character of the moment they were started (C19-d; M and TeX: when they are read); `texEof`: the
stream stays open until the appended empty line has been read (C19-b). `opStepMix true false`
is `opStep false` (M), `opStepMix true true` is `opStep true` (S). -/
def opStepMix (lazy texEof : Bool) (rfs : List (Nat × List RawLine)) (st : RSt) (op : Op) : RSt :=
  match st.status, op with
  | .running, .read g n x =>
    match takeFile st.streams n with
    | some slots =>
      let ls := slots.map (mat lazy st.elc)
      match (if texEof then texReadFile ls 0 [] else readFile ls 0 []) with
      | .unmatched => { st with status := .unmatched }
      | .ok toks rem =>
        defMacro g x toks
          { st with streams := st.streams.set n.toNat (rem.map (fun r => afterRead st.elc slots r.length)) }
    | none => opStep texEof rfs st op
  | _, _ => opStep texEof rfs st op

def handleRd (c : Cur) : Option String := do
  match c with
  | [] => none
  | n :: c =>
    let (rfs, c) ← decRFS (← nat? n) c
    let (term, c) ← decTFile c
    match c with
    | [] => none
    | k :: c =>
      let (ops, _) ← decOps (← nat? k) c
      pure (showR (runOps false rfs term ops) ++ " | " ++ showR (runOps true rfs term ops)
        ++ " | " ++ showR (ops.foldl (opStepMix false true rfs) (initR term))
        ++ " | " ++ showR (ops.foldl (opStepMix false false rfs) (initR term)))

def handle (line : String) : String :=
  match words line with
  | "in" :: ws =>
    match ints? ws with
    | some c => (handleIn c).getD "ERR decode"
    | none => "ERR ints"
  | "rd" :: ws =>
    match ints? ws with
    | some c => (handleRd c).getD "ERR decode"
    | none => "ERR ints"
  | "nt" :: ws =>
    -- `nt <mode> (<char> <cat>)…` → `<consumed> <name chars…>`: the file name at the front of a
    -- token list (mode 0: the code, 1: TeX §526); cat 16 = control sequence
    match nats? ws with
    | some (mode :: l) =>
      let rec pairs : List Nat → List (Nat × Nat)
        | c :: k :: r => (c, k) :: pairs r
        | _ => []
      let res := takeName (if mode = 0 then nameTokCode else nameTokTeX) (pairs l)
      showNats (res.2 :: res.1)
    | _ => "ERR nt"
  | "rs" :: ws =>
    -- `rs <mode> <char codes…>` → the file name that the written name denotes
    -- (mode 0: the code, `resolveCode`; mode 1: TeX, `resolveTeX`)
    match nats? ws with
    | some (0 :: w) => showNats (resolveCode w)
    | some (1 :: w) => showNats (resolveTeX w)
    | _ => "ERR rs"
  | _ => "ERR unknown request"

end DrvC19

def main : IO Unit := Proto.main DrvC19.handle
