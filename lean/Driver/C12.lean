import TexcraftModel.Util.Proto
import TexcraftModel.Model.C12

/-! Driver for C12. All requests are a keyword followed by integers.

Encodings. glue = `w st so sh sho`; elem = `0 id | 1 kind w`;
item = `0 id | 1 id | 2 kind <glue> | 3 kind w | 4 p | 5 <n> <elems> <n> <elems> r | 6 after`;
list = `<n> <items>`; params = `<glue left> <glue right> interline club widow broken <n> widths <n> indents`;
line = `<list> width indent haspen pen`.

* `plb <params> <list> <n> breaks`                 → `ok <n> <lines>` | `err <code>` (`ok!` = the spec rejects the model's own lines)
* `spec <params> <list> <n> breaks <n> <lines>`    → `ok` | violated clauses joined by `,`
* `fin <glue parfill> <list>`                      → `<list>`
* `bsk <hasinit> init <n> (h d)*`                  → per line `has w`
* `txt <sparse codes: n (c v)*> <glue spaceskip> <glue xspaceskip> space stretch shrink extra lead <nwords> (<n> chars)*`
      → per word `sf-before has [tag glue]x3` for new model, old model, spec (tag 0 = value, 1 = panic/none)
* `spl <n> (0 | 1 <n> chars)* <nwords> (<n> chars)*` → `1`/`0`
* `adt <sparse codes> <glue spaceskip> <glue xspaceskip> space stretch shrink extra <n> text <m> (<n> word <k> runitems)*`
      → the model's `addText` items (`0 c | 1 c <n> orig lb rb | 2 w | 3 | 4 tag <glue>`); run item = `0 c | 1 w | 2 c <n> orig lb rb`
* `spt <n> items <n> text` → `spells glue-count` (S on the real list, words split by Lean)
* `wfs <n> chars` → the fields `box linebreak --widths=<chars>` hands to `parse_from_string`: `<k> (<n> chars)*`
* `lsw nat width st0..st3 sh0..sh3 order num den` → `ok` | violated clause (is the line set to its width?)
* `dfl` → plain TeX's defaults: `<n> (c sfcode)* interline club widow broken <glue left> <glue right> <glue parfill> <glue spaceskip> <glue xspaceskip>`
-/
open C12 Proto

namespace DrvC12

def nat? (i : Int) : Option Nat := if i < 0 then none else some i.toNat

def decGlue : Cur → Option (Glue × Cur)
  | w :: st :: so :: sh :: sho :: t => do pure ({ w, st, so := ← nat? so, sh, sho := ← nat? sho }, t)
  | _ => none

def encGlue (g : Glue) : List Int := [g.w, g.st, g.so, g.sh, g.sho]

def decElem : Cur → Option (Elem × Cur)
  | 0 :: id :: t => do pure (.box (← nat? id), t)
  | 1 :: k :: w :: t => do pure (.kern (← nat? k) w, t)
  | _ => none

def decElemsN : Nat → Cur → Option (List Elem × Cur)
  | 0, c => some ([], c)
  | n + 1, c => do
    let (e, c) ← decElem c
    let (es, c) ← decElemsN n c
    pure (e :: es, c)

def decElems : Cur → Option (List Elem × Cur)
  | n :: t => do decElemsN (← nat? n) t
  | [] => none

def encElem : Elem → List Int
  | .box id => [0, id]
  | .kern k w => [1, k, w]

def encElems (es : List Elem) : List Int := (es.length : Int) :: (es.map encElem).flatten

def decItem : Cur → Option (Item × Cur)
  | 0 :: id :: t => do pure (.box (← nat? id), t)
  | 1 :: id :: t => do pure (.inert (← nat? id), t)
  | 2 :: k :: t => do
    let (g, t) ← decGlue t
    pure (.glue (← nat? k) g, t)
  | 3 :: k :: w :: t => do pure (.kern (← nat? k) w, t)
  | 4 :: p :: t => some (.penalty p, t)
  | 5 :: t => do
    let (pre, t) ← decElems t
    let (post, t) ← decElems t
    match t with
    | r :: t => pure (.disc pre post (← nat? r), t)
    | [] => none
  | 6 :: a :: t => some (.math (a != 0), t)
  | _ => none

def encItem : Item → List Int
  | .box id => [0, id]
  | .inert id => [1, id]
  | .glue k g => [2, (k : Int)] ++ encGlue g
  | .kern k w => [3, k, w]
  | .penalty p => [4, p]
  | .disc pre post r => [5] ++ encElems pre ++ encElems post ++ [(r : Int)]
  | .math a => [6, if a then 1 else 0]

def decItemsN : Nat → Cur → Option (List Item × Cur)
  | 0, c => some ([], c)
  | n + 1, c => do
    let (e, c) ← decItem c
    let (es, c) ← decItemsN n c
    pure (e :: es, c)

def decItems : Cur → Option (List Item × Cur)
  | n :: t => do decItemsN (← nat? n) t
  | [] => none

def encItems (l : List Item) : List Int := (l.length : Int) :: (l.map encItem).flatten

def decParams (c : Cur) : Option (Params × Cur) := do
  let (left, c) ← decGlue c
  let (right, c) ← decGlue c
  match c with
  | il :: cl :: wd :: br :: c =>
    let (ws, c) ← takeList c
    let (is, c) ← takeList c
    pure ({ leftSkip := left, rightSkip := right, interLine := il, club := cl, widow := wd,
            broken := br, widths := ws, indents := is }, c)
  | _ => none

def decNats (c : Cur) : Option (List Nat × Cur) := do
  let (l, c) ← takeList c
  pure (← l.mapM nat?, c)

def encErr : Err → Int
  | .slice => 1 | .index => 2 | .notBreak => 3 | .noWidths => 4 | .packTodo => 5 | .overflow => 6

def encLine (ln : Line) : List Int :=
  encItems ln.flat ++ [ln.width, ln.indent] ++
    (match ln.pen with | some p => [1, p] | none => [0, 0])

def decRealLine (c : Cur) : Option ((List Item × Int × Int × Option Int) × Cur) := do
  let (l, c) ← decItems c
  match c with
  | w :: ind :: hp :: p :: c => pure ((l, w, ind, if hp != 0 then some p else none), c)
  | _ => none

def decRealLinesN : Nat → Cur → Option (List (List Item × Int × Int × Option Int) × Cur)
  | 0, c => some ([], c)
  | n + 1, c => do
    let (e, c) ← decRealLine c
    let (es, c) ← decRealLinesN n c
    pure (e :: es, c)

def decWordsN : Nat → Cur → Option (List (List Nat) × Cur)
  | 0, c => some ([], c)
  | n + 1, c => do
    let (w, c) ← decNats c
    let (ws, c) ← decWordsN n c
    pure (w :: ws, c)

def decWords : Cur → Option (List (List Nat) × Cur)
  | n :: t => do decWordsN (← nat? n) t
  | [] => none

def decPairsN : Nat → Cur → Option (List (Int × Int) × Cur)
  | 0, c => some ([], c)
  | n + 1, a :: b :: c => do
    let (ps, c) ← decPairsN n c
    pure ((a, b) :: ps, c)
  | _ + 1, _ => none

def codesOf (sparse : List (Int × Int)) : List Int :=
  (List.range 256).map fun (c : Nat) =>
    match sparse.find? (fun p => p.1 == Int.ofNat c) with
    | some p => p.2
    | none => 1000

def encRes : Res Glue → List Int
  | .ok g => 0 :: encGlue g
  | .panic => [1, 0, 0, 0, 0, 0]

def encOptG : Option Glue → List Int
  | some g => 0 :: encGlue g
  | none => [1, 0, 0, 0, 0, 0]

/-- Per word: space factor before the word, whether a space precedes it, and the three glues. -/
def txtTrace (codes : List Int) (tp : TextParams) (f : Font) :
    Int → Bool → List (List Nat) → List Int
  | _, _, [] => []
  | sf, pending, w :: ws =>
    [sf, if pending then 1 else 0] ++ encRes (interWordGlue tp f sf) ++ encRes (interWordGlueOld tp f sf) ++
      encOptG (glueSpec tp f sf) ++ txtTrace codes tp f (sfWord codes sf w) true ws

def decOptItemsN : Nat → Cur → Option (List (Option (List Nat)) × Cur)
  | 0, c => some ([], c)
  | n + 1, 0 :: c => do
    let (r, c) ← decOptItemsN n c
    pure (none :: r, c)
  | n + 1, 1 :: c => do
    let (cs, c) ← decNats c
    let (r, c) ← decOptItemsN n c
    pure (some cs :: r, c)
  | _ + 1, _ => none

def b2i (b : Bool) : Int := if b then 1 else 0

def decRunItem : Cur → Option (RunItem × Cur)
  | 0 :: ch :: c => do pure (.char (← nat? ch), c)
  | 1 :: w :: c => some (.kern w, c)
  | 2 :: ch :: c => do
    let (orig, c) ← decNats c
    match c with
    | lb :: rb :: c => pure (.lig (← nat? ch) orig (lb != 0) (rb != 0), c)
    | _ => none
  | _ => none

def decRunItemsN : Nat → Cur → Option (List RunItem × Cur)
  | 0, c => some ([], c)
  | n + 1, c => do
    let (e, c) ← decRunItem c
    let (es, c) ← decRunItemsN n c
    pure (e :: es, c)

def decTableN : Nat → Cur → Option (List (List Nat × List RunItem) × Cur)
  | 0, c => some ([], c)
  | n + 1, c => do
    let (w, c) ← decNats c
    match c with
    | m :: c =>
      let (items, c) ← decRunItemsN (← nat? m) c
      let (rest, c) ← decTableN n c
      pure ((w, items) :: rest, c)
    | [] => none

def encTItem : TItem → List Int
  | .char c => [0, c]
  | .lig c orig lb rb => [1, (c : Int), (orig.length : Int)] ++ orig.map Int.ofNat ++ [b2i lb, b2i rb]
  | .kern w => [2, w]
  | .disc => [3]
  | .glue g => 4 :: encRes g

def decTItem : Cur → Option (TItem × Cur)
  | 0 :: ch :: c => do pure (.char (← nat? ch), c)
  | 1 :: ch :: c => do
    let (orig, c) ← decNats c
    match c with
    | lb :: rb :: c => pure (.lig (← nat? ch) orig (lb != 0) (rb != 0), c)
    | _ => none
  | 2 :: w :: c => some (.kern w, c)
  | 3 :: c => some (.disc, c)
  | 4 :: tag :: c => do
    let (g, c) ← decGlue c
    pure (.glue (if tag = 0 then .ok g else .panic), c)
  | _ => none

def decTItemsN : Nat → Cur → Option (List TItem × Cur)
  | 0, c => some ([], c)
  | n + 1, c => do
    let (e, c) ← decTItem c
    let (es, c) ← decTItemsN n c
    pure (e :: es, c)

def handle (line : String) : String :=
  match words line with
  | "plb" :: ws =>
    match (do
      let c ← ints? ws
      let (p, c) ← decParams c
      let (l, c) ← decItems c
      let (bs, c) ← decNats c
      if c ≠ [] then none else pure (p, l, bs)) with
    | some (p, l, bs) =>
      match postLineBreak p l bs with
      | .ok lines =>
        -- sanity (M vs S): the specification evaluated on the model's own lines
        let ms := if ValidBreaks l bs then
            specVerdict p l bs (lines.map fun ln => (ln.flat, ln.width, ln.indent, ln.pen)) else []
        (if ms.isEmpty then "ok " else "ok! ") ++
          showInts ((lines.length : Int) :: (lines.map encLine).flatten)
      | .error e => s!"err {encErr e}"
    | none => "bad-request"
  | "spec" :: ws =>
    match (do
      let c ← ints? ws
      let (p, c) ← decParams c
      let (l, c) ← decItems c
      let (bs, c) ← decNats c
      match c with
      | n :: c =>
        let (lines, c) ← decRealLinesN (← nat? n) c
        if c ≠ [] then none else pure (p, l, bs, lines)
      | [] => none) with
    | some (p, l, bs, lines) =>
      let valid := if ValidBreaks l bs then "valid" else "invalid"
      match specVerdict p l bs lines with
      | [] => s!"ok {valid}"
      | vs => ",".intercalate vs ++ " " ++ valid
    | none => "bad-request"
  | "fin" :: ws =>
    match (do
      let c ← ints? ws
      let (g, c) ← decGlue c
      let (l, c) ← decItems c
      if c ≠ [] then none else pure (g, l)) with
    | some (g, l) => showInts (encItems (finishPar g l))
    | none => "bad-request"
  | "bsk" :: ws =>
    -- `bsk <n> (0 | 1 depth)* <n> (h d pen)*` → per line `has w` (model), then per line `tag w`
    -- (TeX §679 with \baselineskip=12pt, \lineskiplimit=0pt: 0 none, 1 baseline w, 2 lineskip)
    match (do
      let c ← ints? ws
      match c with
      | n :: c =>
        let rec pre : Nat → Cur → Option (List VNode × Cur)
          | 0, c => some ([], c)
          | k + 1, 0 :: c => do let (r, c) ← pre k c; pure (VNode.other :: r, c)
          | k + 1, 1 :: d :: c => do let (r, c) ← pre k c; pure (VNode.box d :: r, c)
          | _ + 1, _ => none
        let (v, c) ← pre (← nat? n) c
        match c with
        | m :: c =>
          let rec ls : Nat → Cur → Option (List (Int × Int × Bool) × Cur)
            | 0, c => some ([], c)
            | k + 1, h :: d :: p :: c => do let (r, c) ← ls k c; pure ((h, d, p != 0) :: r, c)
            | _ + 1, _ => none
          let (lines, c) ← ls (← nat? m) c
          if c ≠ [] then none else pure (v, lines)
        | [] => none
      | [] => none) with
    | some (v, lines) =>
      let m := (interline v lines).map (fun o => match o with | some w => [1, w] | none => [0, 0])
      let t := (texInterlines codeBaselineSkip 0 (texPrevDepth v) lines).map
        (fun g => match g with | .noGlue => [0, 0] | .baseline w => [1, w] | .lineskip => [2, 0])
      showInts (m.flatten ++ t.flatten)
    | none => "bad-request"
  | "txt" :: ws =>
    match (do
      let c ← ints? ws
      match c with
      | n :: c =>
        let (sparse, c) ← decPairsN (← nat? n) c
        let (ss, c) ← decGlue c
        let (xs, c) ← decGlue c
        match c with
        | sp :: st :: sh :: ex :: lead :: c =>
          let (words, c) ← decWords c
          if c ≠ [] then none
          else pure (codesOf sparse, ({ spaceSkip := ss, xspaceSkip := xs } : TextParams),
                     ({ space := sp, stretch := st, shrink := sh, extra := ex } : Font), lead != 0, words)
        | _ => none
      | [] => none) with
    | some (codes, tp, f, lead, words) => showInts (txtTrace codes tp f 1000 lead words)
    | none => "bad-request"
  | "spl" :: ws =>
    match (do
      let c ← ints? ws
      match c with
      | n :: c =>
        let (items, c) ← decOptItemsN (← nat? n) c
        let (words, c) ← decWords c
        if c ≠ [] then none else pure (items, words)
      | [] => none) with
    | some (items, words) => if spell items = words.filter (fun w => !w.isEmpty) then "1" else "0"
    | none => "bad-request"
  | "adt" :: ws =>
    match (do
      let c ← ints? ws
      match c with
      | n :: c =>
        let (sparse, c) ← decPairsN (← nat? n) c
        let (ss, c) ← decGlue c
        let (xs, c) ← decGlue c
        match c with
        | sp :: st :: sh :: ex :: c =>
          let (text, c) ← decNats c
          match c with
          | m :: c =>
            let (table, c) ← decTableN (← nat? m) c
            if c ≠ [] then none
            else pure (codesOf sparse, ({ spaceSkip := ss, xspaceSkip := xs } : TextParams),
                       ({ space := sp, stretch := st, shrink := sh, extra := ex } : Font), text, table)
          | [] => none
        | _ => none
      | [] => none) with
    | some (codes, tp, f, text, table) =>
      -- a word the table does not know (the two splittings disagree) shows up as `9`
      let known := (splitWs text).all fun w => (table.find? (·.1 == w)).isSome
      let run := fun w => match table.find? (·.1 == w) with | some e => e.2 | none => []
      (if known then "" else "9 ") ++ showInts ((addText run codes tp f text).map encTItem).flatten
    | none => "bad-request"
  | "spt" :: ws =>
    match (do
      let c ← ints? ws
      match c with
      | n :: c =>
        let (items, c) ← decTItemsN (← nat? n) c
        let (text, c) ← decNats c
        if c ≠ [] then none else pure (items, text)
      | [] => none) with
    | some (items, text) =>
      let v := textVerdict items text
      s!"{b2i v.1} {b2i v.2}"
    | none => "bad-request"
  | "wfs" :: ws =>
    match (do
      let c ← ints? ws
      let (str, c) ← decNats c
      if c ≠ [] then none else pure str) with
    | some str =>
      let fs := widthFields str
      showInts ((fs.length : Int) :: (fs.map fun f => (f.length : Int) :: f.map Int.ofNat).flatten)
    | none => "bad-request"
  | "lsw" :: ws =>
    -- `lsw nat width st0 st1 st2 st3 sh0 sh1 sh2 sh3 order num den` → `ok` | clause
    match ints? ws with
    | some [nat, width, a0, a1, a2, a3, b0, b1, b2, b3, order, num, den] =>
      match lineSetVerdict nat width [a0, a1, a2, a3] [b0, b1, b2, b3] order.toNat num den with
      | none => "ok"
      | some c => c
    | _ => "bad-request"
  | ["dfl"] =>
    let sparse := ((List.range 256).filter fun (c : Nat) => plainSfCode c != 1000).map
      fun (c : Nat) => [Int.ofNat c, plainSfCode c]
    showInts ([(sparse.length : Int)] ++ sparse.flatten ++
      [plainParams.interLine, plainParams.club, plainParams.widow, plainParams.broken] ++
      encGlue plainParams.leftSkip ++ encGlue plainParams.rightSkip ++ encGlue plainParFill ++
      encGlue plainTextParams.spaceSkip ++ encGlue plainTextParams.xspaceSkip)
  | _ => "bad-request"

end DrvC12

def main : IO Unit := Proto.main DrvC12.handle
