import TexcraftModel.Util.Proto
import TexcraftModel.Model.C13

/-! Driver for C13 (hyphenation). One request:

`h <lc> <patterns> <exceptions> <words> <impl>`

* `<lc>`: `a` = `AsciiLowerCaser`, `t` = the harness's table lower-caser (`tableLc`);
* `<patterns>`, `<exceptions>`, `<words>`: comma-separated, `_` = empty list, `~` = the empty
  item; `^HHHH` inside an item = the character with that hexadecimal code point;
* `<impl>`: per word (comma-separated) the indices the real `calculate_indices` returned,
  dot-separated, `_` = none, `P` = it panicked.

Reply: `wf=<0/1> dup=<0/1> | <per word>;<per word>;…` with per word
`<model scores | P>:<model indices | P>:<spec indices | N>:<verdict 1, 0 or ->:<x if listed exception>`
(`N`/`-`: the word contains a non-letter, outside the quantifier). The verdict is the
specification evaluated on the *real* output. -/
open C13 Proto

namespace DrvC13

def hexVal (c : Char) : Option Nat :=
  if '0' ≤ c ∧ c ≤ '9' then some (c.toNat - 48)
  else if 'a' ≤ c ∧ c ≤ 'f' then some (c.toNat - 87)
  else if 'A' ≤ c ∧ c ≤ 'F' then some (c.toNat - 55)
  else none

def unesc : List Char → List Char
  | '^' :: a :: b :: c :: d :: rest =>
    match hexVal a, hexVal b, hexVal c, hexVal d with
    | some a, some b, some c, some d => Char.ofNat (((a * 16 + b) * 16 + c) * 16 + d) :: unesc rest
    | _, _, _, _ => '^' :: unesc (a :: b :: c :: d :: rest)
  | x :: rest => x :: unesc rest
  | [] => []

def items (s : String) : List (List Char) :=
  if s = "_" then [] else (s.splitOn ",").map (fun x => if x = "~" then [] else unesc x.toList)

def dots (l : List Nat) : String :=
  if l.isEmpty then "_" else ".".intercalate (l.map toString)

def parseIdx (s : String) : Option (Option (List Nat)) :=
  if s = "P" then some none
  else if s = "_" then some (some [])
  else ((s.splitOn ".").mapM String.toNat?).map some

def hasDup : List (List Edge) → Bool
  | [] => false
  | k :: ks => ks.contains k || hasDup ks

def perWord (h : Hyph) (lc : Char → Option Char) (ps es : List (List Char))
    (w : List Char) (impl : Option (List Nat)) : String :=
  let ms := aggregateScores h lc w
  let mi := calculateIndices h lc w
  let m1 := match ms with | none => "P" | some s => dots s
  let m2 := match mi with | none => "P" | some s => dots s
  match lowerWord lc w with
  | none => s!"{m1}:{m2}:N:-:"
  | some lw =>
    let sp := specIndices ps es lw
    let v := if impl = some sp then "1" else "0"
    let x := if (findException es lw).isSome then "x" else ""
    s!"{m1}:{m2}:{dots sp}:{v}:{x}"

def handle (line : String) : String :=
  match words line with
  | ["h", lcs, pats, excs, ws, impl] =>
    let lc := if lcs = "t" then tableLc else asciiLc
    let ps := items pats
    let es := items excs
    let wsl := items ws
    match (impl.splitOn ",").mapM parseIdx with
    | none => "bad-request"
    | some impls =>
      if impls.length ≠ wsl.length then "bad-request" else
      let h := build ps es
      let wf := ps.all wellFormed
      let dup := hasDup ((ps.map parsePat).map Pat.key)
      let per := (wsl.zip impls).map (fun (w, i) => perWord h lc ps es w i)
      s!"wf={if wf then 1 else 0} dup={if dup then 1 else 0} | {";".intercalate per}"
  | _ => "bad-request"

end DrvC13

def main : IO Unit := Proto.main DrvC13.handle
