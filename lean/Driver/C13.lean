import TexcraftModel.Util.Proto
import TexcraftModel.Model.C13Trie
import TexcraftModel.Model.C13Text
import TexcraftModel.Tables.C13Plain

/-! Driver for C13 (hyphenation). One request:

`h <lc> <pmode> <patterns> <emode> <exceptions> <words> <impl>`

* `<pmode>` `t`: every item of `<patterns>` is the text of one `load_patterns` call (parsed by
  `splitWs`), `l`: the items are the patterns; `<emode>` `t`: the item of `<exceptions>` is the text
  of an `insert_exceptions` call (parsed by `exceptionLines`), `l`: one `insert_exception` per item;
* `<lc>`: `a` = `AsciiLowerCaser`, `t` = the harness's table lower-caser (`tableLc`);
* `<patterns>`, `<exceptions>`, `<words>`: comma-separated, `_` = empty list, `~` = the empty
  item; `^HHHH` inside an item = the character with that hexadecimal code point;
* `<impl>`: per word (comma-separated) the indices the real `calculate_indices` returned,
  dot-separated, `_` = none, `P` = it panicked.

Reply: `wf=<0/1> dup=<0/1>[ plain=1] | <per word>;<per word>;…` (`plain=1`: the patterns and
exceptions are exactly `Tables/C13Plain.lean`, the object of `plain_tex_spec`) with per word
`<model scores | P>:<model indices | P>:<spec indices | N>:<verdict 1, 0 or ->:<x if listed exception>`
(`N`/`-`: the word contains a non-letter, outside the quantifier). The verdict is the
specification evaluated on the *real* output. -/
open C13 Proto

namespace DrvC13

def hexVal (c : Char) : Option Nat :=
  if '0' ≤ c ∧ c ≤ '9' then some (c.toNat - 48)
  else if 'a' ≤ c ∧ c ≤ 'f' then some (c.toNat - 87)
  else if 'A' ≤ c ∧ c ≤ 'F' then some (c.toNat - 55)
  else none

def unesc : List Char → List Char
  | '^' :: a :: b :: c :: d :: rest =>
    match hexVal a, hexVal b, hexVal c, hexVal d with
    | some a, some b, some c, some d => Char.ofNat (((a * 16 + b) * 16 + c) * 16 + d) :: unesc rest
    | _, _, _, _ => '^' :: unesc (a :: b :: c :: d :: rest)
  | x :: rest => x :: unesc rest
  | [] => []

def items (s : String) : List (List Char) :=
  if s = "_" then [] else (s.splitOn ",").map (fun x => if x = "~" then [] else unesc x.toList)

def dots (l : List Nat) : String :=
  if l.isEmpty then "_" else ".".intercalate (l.map toString)

def parseIdx (s : String) : Option (Option (List Nat)) :=
  if s = "P" then some none
  else if s = "_" then some (some [])
  else ((s.splitOn ".").mapM String.toNat?).map some

def hasDup : List (List Edge) → Bool
  | [] => false
  | k :: ks => ks.contains k || hasDup ks

def perWord (h : CHyph) (lc : Char → Option Char) (ps es : List (List Char))
    (w : List Char) (impl : Option (List Nat)) : String :=
  let ms := cAggregateScores h lc w
  let mi := cCalculateIndices h lc w
  let m1 := match ms with | none => "P" | some s => dots s
  let m2 := match mi with | none => "P" | some s => dots s
  match lowerWord lc w with
  | none => s!"{m1}:{m2}:N:-:"
  | some lw =>
    let sp := specIndices ps es lw
    let v := if impl = some sp then "1" else "0"
    let x := if (findException es lw).isSome then "x" else ""
    s!"{m1}:{m2}:{dots sp}:{v}:{x}"

/-! Histories: `s <lc> <ops> <impl>`; an op is an item whose first character is `P` (text for
`load_patterns`), `E` (text for `insert_exceptions`), `X` (entry for `insert_exception`), `Q`
(word to query) or `D` (start from plain TeX's data; first op only). `<impl>`: per query the real
indices. Reply: per query `<wf><dup>:<model scores>:<model idx>:<spec idx|N>:<verdict>:<x>:<b>`,
the model and the specification evaluated on the state *at that point*; `b` = `b` when the word
has an exception, some loaded pattern has the shape `.w.` of that word, and the model of the
code before `fixes/C13-b.patch` reproduces the real indices (finding C13-b), else empty. -/

def decodeOp (it : List Char) : Option (Char × List Char) :=
  match it with
  | c :: rest => some (c, if rest = ['~'] then [] else unesc rest)
  | [] => none

structure SeqSt where
  hFix : CHyph := {}
  hCur : CHyph := {}
  ps : List (List Char) := []
  es : List (List Char) := []
  out : List String := []
  impls : List (Option (List Nat)) := []

def seqStep (lc : Char → Option Char) (st : SeqSt) (op : Char × List Char) : SeqSt :=
  match op with
  | ('D', _) =>
    { st with hFix := cBuild plainPatterns plainExceptions, hCur := cBuild plainPatterns plainExceptions,
              ps := plainPatterns, es := plainExceptions }
  | ('P', t) =>
    { st with hFix := applyOpG true st.hFix (.loadText t), hCur := applyOpG false st.hCur (.loadText t),
              ps := st.ps ++ splitWs t [] }
  | ('E', t) =>
    { st with hFix := applyOpG true st.hFix (.excText t), hCur := applyOpG false st.hCur (.excText t),
              es := st.es ++ exceptionLines t }
  | ('X', e) =>
    { st with hFix := applyOpG true st.hFix (.exc e), hCur := applyOpG false st.hCur (.exc e),
              es := st.es ++ [e] }
  | ('Q', w) =>
    match st.impls with
    | [] => { st with out := st.out ++ ["bad"] }
    | impl :: rest =>
      let wf := st.ps.all wellFormed
      let dup := hasDup ((st.ps.map parsePat).map Pat.key)
      let base := perWord st.hFix lc st.ps st.es w impl
      let b := match lowerWord lc w with
        | some lw =>
          (findException st.es lw).isSome &&
          st.ps.any (fun p => (parsePat p).key = [Edge.start] ++ lw.map Edge.ch ++ [Edge.stop]) &&
          (cCalculateIndices st.hCur lc w == impl)
        | none => false
      { st with impls := rest,
                out := st.out ++ [s!"{if wf then 1 else 0}{if dup then 1 else 0}:{base}:{if b then "b" else ""}"] }
  | _ => { st with out := st.out ++ ["bad"] }

def handleSeq (lcs ops impl : String) : String :=
  let lc := if lcs = "t" then tableLc else asciiLc
  let its := if ops = "_" then [] else (ops.splitOn ",").map (fun x => x.toList)
  match its.mapM decodeOp, (if impl = "-" then some [] else (impl.splitOn ",").mapM parseIdx) with
  | some dops, some impls =>
    let st := dops.foldl (seqStep lc) { impls := impls }
    ";".intercalate st.out
  | _, _ => "bad-request"

/-! Large pattern sets: `big <lc> <len> <alpha> <count> <k> <extras> <exceptions> <words> <impl>`.
The pattern list is the family `famPattern len alpha k i`, `i < count` (one pattern per letter
string of length `len` over the first `alpha` letters, a digit in every slot), followed by the
explicit `<extras>`; then the exceptions. Only the specification is evaluated (on the real
indices), with the pattern list restricted to the patterns whose letters occur in the word — the
others cannot match (`matchesAt` needs the letters as a prefix of a suffix of the word). -/

def famPattern (len alpha k i : Nat) : List Char :=
  let letter := fun j => Char.ofNat (97 + (i / alpha ^ (len - 1 - j)) % alpha)
  let dig := fun j => Char.ofNat (48 + (i * k + j * (k + 2) + i / 7) % 10)
  (List.range len).flatMap (fun j => [dig j, letter j]) ++ [dig len]

def handleBig (lcs : String) (len alpha count k : Nat) (extras excs ws impl : String) : String :=
  let lc := if lcs = "t" then tableLc else asciiLc
  let ps := (List.range count).map (famPattern len alpha k) ++ items extras
  let es := items excs
  let wsl := items ws
  match (impl.splitOn ",").mapM parseIdx with
  | none => "bad-request"
  | some impls =>
    if impls.length ≠ wsl.length then "bad-request" else
    let per := (wsl.zip impls).map (fun (w, i) =>
      match lowerWord lc w with
      | none => "N:-::"
      | some lw =>
        let rel := relevant ps lw
        let wf := rel.all wellFormed
        let dup := hasDup ((rel.map parsePat).map Pat.key)
        let sp := specIndices rel es lw
        let v := if i = some sp then "1" else "0"
        let x := if (findException es lw).isSome then "x" else ""
        s!"{dots sp}:{v}:{x}:{if wf && !dup then "q" else ""}:{rel.length}")
    ";".intercalate per

def handle (line : String) : String :=
  match words line with
  | ["h", lcs, pm, pats, em, excs, ws, impl] =>
    let lc := if lcs = "t" then tableLc else asciiLc
    let pit := items pats
    let eit := items excs
    -- the hyphenator, built by the model of the calls the real code received
    let h0 := if pm = "t" then pit.foldl cLoadText {} else pit.foldl cLoadPattern {}
    let h := if em = "t" then eit.foldl cInsertExceptionsText h0 else eit.foldl cInsertException h0
    -- the pattern list and the exception list these calls amount to (for the specification)
    let ps := if pm = "t" then pit.flatMap (fun t => splitWs t []) else pit
    let es := if em = "t" then eit.flatMap exceptionLines else eit
    let wsl := items ws
    match (impl.splitOn ",").mapM parseIdx with
    | none => "bad-request"
    | some impls =>
      if impls.length ≠ wsl.length then "bad-request" else
      let wf := ps.all wellFormed
      let dup := hasDup ((ps.map parsePat).map Pat.key)
      let per := (wsl.zip impls).map (fun (w, i) => perWord h lc ps es w i)
      let pl := ps == plainPatterns && es == plainExceptions
      s!"wf={if wf then 1 else 0} dup={if dup then 1 else 0}{if pl then " plain=1" else ""} | {";".intercalate per}"
  | ["s", lcs, ops, impl] => handleSeq lcs ops impl
  | ["big", lcs, len, alpha, count, k, extras, excs, ws, impl] =>
    match len.toNat?, alpha.toNat?, count.toNat?, k.toNat? with
    | some len, some alpha, some count, some k => handleBig lcs len alpha count k extras excs ws impl
    | _, _, _, _ => "bad-request"
  | _ => "bad-request"

end DrvC13

def main : IO Unit := Proto.main DrvC13.handle
