import TexcraftModel.Util.Proto
import TexcraftModel.Model.C14
import TexcraftModel.Model.C14Recon
import TexcraftModel.Model.C13

/-! Driver for C14 (hyphenation pass over a horizontal list). Requests (all integers):

* `fw <list>` → the words `findWords` reports: `<n> {start nodes font <k> letters…}`
* `chk <lhm> <rhm> <inp list> <out list> <n> {<k> raw…}` — `inp` = list before, `out` = the
  REAL list after `Hyphenator::hyphenate`, then for each word of `fw` (same order) the raw
  Liang positions the real `hyphenate` crate returned for its letters. Reply: see `handle`.

* `li <patterns> <exceptions> <word>` (comma lists of plain ASCII items, `_` = none) → the Liang
  positions of the word by C13's specification `C13.specIndices` (dot separated, `_` = none,
  `N` = the word has a non-letter). Used to tie the raw positions to property C13 when the
  pattern set is small enough to be given to the driver.

* `prog <P>` → `ok`: sets the lig/kern program for the following `rm` requests (the only state of
  the driver); `P` = the font's program in C05's encoding (`rb lb nE (c e)* nK k* nI (next right
  kind x y)*`, kerns already scaled).
* `rm <lhm> <rhm> <inp list> <out list> <n> {<k> raw…}` — the reconstitution model. Reply `<v> | <runs> | <model list>`: `v` = `1` the list `hyphenateM` computes
  with the engine `engineOfProgram P` equals the REAL output node for node, `0` it differs, `P`
  the model panics/hangs; `runs` = for every word that is rebuilt `dlb rbo n item…;` — the main
  run of the model engine with `is_separation_point()` after every item (item = `0 c s` |
  `1 k s` | `2 c lb rb n o… s`), which the harness compares with the real `RunIter`; `ub=1` iff
  `unbrokenM` (every rebuilt word replaced by its main run) is the input itself — then
  `hyphenateM_invariants` gives P1 against the input; `dev=` one letter per rebuilt word, see
  `devClass` (why its main run is not its nodes: `-` it is, `f`/`g`/`i` the recorded shapes of the
  known findings C14-f/g/i, `o` anything else).

List encoding: `<n> item…`; item = `0 c font` | `1 c font lb rb <k> orig…` | `2 kind w` |
`3 kind <k> payload…` | `4 rc <npre> delem… <npost> delem…`; delem = `0 c font` |
`1 c font lb rb <k> orig…` | `2 w` | `3 tag`. -/
open C14 Proto

namespace DrvC14

def nat? (i : Int) : Option Nat := if i < 0 then none else some i.toNat

def natList? (c : Cur) : Option (List Nat × Cur) := do
  let (l, c) ← takeList c
  let l ← l.mapM nat?
  pure (l, c)

def decKind : Int → Option Kind
  | 0 => some .glue | 1 => some .penalty | 2 => some .whatsit | 3 => some .math | 4 => some .hbox
  | 5 => some .vbox | 6 => some .rule | 7 => some .mark | 8 => some .ins | 9 => some .adjust
  | _ => none

def decDElem (c : Cur) : Option (DElem × Cur) :=
  match c with
  | 0 :: ch :: f :: t => do pure (.char (← nat? ch) (← nat? f), t)
  | 1 :: ch :: f :: lb :: rb :: t => do
    let (o, t) ← natList? t
    pure (.lig (← nat? ch) (← nat? f) o (lb != 0) (rb != 0), t)
  | 2 :: w :: t => some (.kern w, t)
  | 3 :: tag :: t => do pure (.other (← nat? tag), t)
  | _ => none

def decDElemsN : Nat → Cur → Option (List DElem × Cur)
  | 0, c => some ([], c)
  | n + 1, c => do
    let (x, c) ← decDElem c
    let (xs, c) ← decDElemsN n c
    pure (x :: xs, c)

def decDElems (c : Cur) : Option (List DElem × Cur) :=
  match c with
  | n :: t => if n < 0 then none else decDElemsN n.toNat t
  | [] => none

def decItem (c : Cur) : Option (Item × Cur) :=
  match c with
  | 0 :: ch :: f :: t => do pure (.char (← nat? ch) (← nat? f), t)
  | 1 :: ch :: f :: lb :: rb :: t => do
    let (o, t) ← natList? t
    pure (.lig (← nat? ch) (← nat? f) o (lb != 0) (rb != 0), t)
  | 2 :: k :: w :: t => do pure (.kern (← nat? k) w, t)
  | 3 :: k :: t => do
    let (p, t) ← takeList t
    pure (.other (← decKind k) p, t)
  | 4 :: rc :: t => do
    let (pre, t) ← decDElems t
    let (post, t) ← decDElems t
    pure (.disc pre post (← nat? rc), t)
  | _ => none

def decItemsN : Nat → Cur → Option (List Item × Cur)
  | 0, c => some ([], c)
  | n + 1, c => do
    let (x, c) ← decItem c
    let (xs, c) ← decItemsN n c
    pure (x :: xs, c)

def decItems (c : Cur) : Option (List Item × Cur) :=
  match c with
  | n :: t => if n < 0 then none else decItemsN n.toNat t
  | [] => none

def decRawsN : Nat → Cur → Option (List (List Nat) × Cur)
  | 0, c => some ([], c)
  | n + 1, c => do
    let (x, c) ← natList? c
    let (xs, c) ← decRawsN n c
    pure (x :: xs, c)

def encWord (w : Word) : List Int :=
  [(w.start : Int), (w.nodes : Int), (w.font : Int), (w.letters.length : Int)] ++ w.letters.map Int.ofNat

def dots (l : List Nat) : String :=
  if l.isEmpty then "_" else ".".intercalate (l.map toString)

def b2s (b : Bool) : String := if b then "1" else "0"

def kindName : Item → String
  | .char .. => "char" | .lig .. => "lig" | .kern .. => "kern" | .disc .. => "disc"
  | .other k _ => match k with
    | .glue => "glue" | .penalty => "penalty" | .whatsit => "whatsit" | .math => "math"
    | .hbox => "hbox" | .vbox => "vbox" | .rule => "rule" | .mark => "mark" | .ins => "ins"
    | .adjust => "adjust"

/-- Where and how the output stops being "input plus discretionaries" (for the signature). -/
def firstMismatch : List Item → List Item → String
  | [], [] => "none"
  | inp, o :: out =>
    match inp with
    | i :: inp' =>
      if o = i then firstMismatch inp' out
      else if o.isDisc then firstMismatch inp out
      else
        match o, i with
        | .lig c f og lb rb, .lig c' f' og' lb' rb' =>
          if c = c' ∧ f = f' ∧ og = og' ∧ lb = lb' ∧ rb ≠ rb' then (if rb then "lig-rb-flag-gained" else "lig-rb-flag-lost")
          else if c = c' ∧ f = f' ∧ og = og' ∧ lb ≠ lb' then "lig-lb-flag"
          else if og.isEmpty ∧ (rb ∨ lb) then (if lb then "extra-left-boundary-lig" else "extra-right-boundary-lig") else "lig/lig"
        | .lig _ _ og lb rb, _ =>
          if og.isEmpty ∧ (rb ∨ lb) then (if lb then "extra-left-boundary-lig" else "extra-right-boundary-lig") else s!"lig/{kindName i}"
        | _, _ => s!"{kindName o}/{kindName i}"
    | [] =>
      if o.isDisc then firstMismatch [] out
      else match o with
        | .lig _ _ og lb rb => if og.isEmpty ∧ (rb ∨ lb) then (if lb then "extra-left-boundary-lig" else "extra-right-boundary-lig") else "lig/end"
        | _ => s!"{kindName o}/end"
  | i :: _, [] => s!"end/{kindName i}"

/-- Only used to locate the discretionaries when P1 already failed (no alignment exists): a
discretionary with a non-empty pre-break is taken as inserted (the text preprocessor only
makes empty ones). -/
def markDiscs (out : List Item) : List Bool :=
  out.map (fun o => match o with | .disc pre _ _ => !pre.isEmpty | _ => false)

def insertSorted (x : Nat) : List Nat → List Nat
  | [] => [x]
  | y :: ys => if x ≤ y then x :: y :: ys else y :: insertSorted x ys
def sortNats (l : List Nat) : List Nat := l.foldr insertSorted []

def positionsOf (lhm rhm : Int) (ws : List Word) (raws : List (List Nat)) (spec : Bool) : List (List Nat) :=
  (ws.zip raws).map (fun (w, r) =>
    if spec then specPositions lhm rhm w.letters.length r else wordPositions lhm rhm w.letters.length r)

/-! ### The reconstitution model -/

def optNat (i : Int) : Option Nat := if i < 0 then none else some i.toNat

def postOf : Int → Option C05.PostLig
  | 0 => some .bothNowhere | 1 => some .bothInserted | 2 => some .bothRight
  | 3 => some .rightInserted | 4 => some .rightRight | 5 => some .leftNowhere
  | 6 => some .leftInserted | 7 => some .neither | _ => none

def decInstrs : Nat → Cur → Option (List C05.Instr × Cur)
  | 0, c => some ([], c)
  | n + 1, nx :: r :: k :: x :: y :: t => do
    let op ← match k with
      | 0 => some (C05.RawOp.kern x)
      | 1 => some (C05.RawOp.kernAt x.toNat)
      | 2 => (postOf y).map (C05.RawOp.lig x.toNat)
      | 3 => some (C05.RawOp.redirect x.toNat)
      | _ => none
    let (is, t) ← decInstrs n t
    pure ({ next := optNat nx, right := r.toNat, op } :: is, t)
  | _, _ => none

def pairsOf : List Int → List (Nat × Nat)
  | a :: b :: t => (a.toNat, b.toNat) :: pairsOf t
  | _ => []

/-- Same encoding as `Driver/C05.lean`. -/
def decProg (c : Cur) : Option (C05.Program × Cur) :=
  match c with
  | rb :: lb :: nE :: t => do
    let (es, t) ← takeN (2 * nE.toNat) t
    let (ks, t) ← takeList t
    match t with
    | nI :: t =>
      let (is, t) ← decInstrs nI.toNat t
      pure ({ instrs := is, lbEntry := optNat lb, rb := optNat rb, entries := pairsOf es, kerns := ks }, t)
    | [] => none
  | _ => none

/-- `C05.table p` with `C05.bound p` computed once (`tableB (bound p) p = table p` by `rfl`). -/
def tableB (b : Nat) (p : C05.Program) (l : Option Nat) (r : Nat) : Option C05.Repl :=
  match C05.pairResult b p l r with
  | some (some rep) => some rep
  | _ => none

def encNode : Node × Bool → List Int
  | (.ch c, s) => [0, (c : Int), b2i s]
  | (.kern k, s) => [1, k, b2i s]
  | (.lig c o lb rb, s) => [2, (c : Int), b2i lb, b2i rb, (o.length : Int)] ++ o.map Int.ofNat ++ [b2i s]
where b2i (b : Bool) : Int := if b then 1 else 0

def showD : DElem → String
  | .char c _ => s!"c{c}"
  | .lig c _ o lb rb => s!"l{c}<{if lb then "|" else ""}{".".intercalate (o.map toString)}{if rb then "|" else ""}>"
  | .kern w => s!"k{w}"
  | .other t => s!"o{t}"

def showItem : Item → String
  | .char c f => s!"c{c}@{f}"
  | .lig c f o lb rb => s!"l{c}@{f}<{if lb then "|" else ""}{".".intercalate (o.map toString)}{if rb then "|" else ""}>"
  | .kern k w => s!"k{k}:{w}"
  | .other k _ => kindName (.other k [])
  | .disc pre post rc => s!"disc[{",".intercalate (pre.map showD)}|{",".intercalate (post.map showD)}|{rc}]"

/-- The words that are rebuilt, with the parameters of their main run. -/
def rebuiltWords (inp : List Item) (lhm rhm : Int) (liang : List Nat → List Nat) :
    List (List Nat × Bool × Option Nat) :=
  (findWords inp).filterMap (fun w =>
    let pos := wordPositions lhm rhm w.letters.length (liang w.letters)
    if pos.isEmpty then none else
    let rest := inp.drop w.start
    let skipped := ((inp.take w.start).reverse.takeWhile (fun x => !x.isGlue)).reverse
    let pb := popBoundaryLig w.font skipped (startsWithLB rest.head?)
    some (w.letters, !pb.2, rboOf w.font (rest.drop w.nodes).head?))

/-! ### Why the main run of a rebuilt word differs from the word's nodes (known findings C14-f/g/i)

Only meaningful when the model reproduces the real output exactly (`v = 1`): then, by
`hyphenateM_invariants`, the sole reason for a P1 failure is that some rebuilt word's main run is
not the word's nodes; this classifies that deviation by the shape of the input. -/

def clearRb : Item → Item
  | .lig c f o lb _ => .lig c f o lb false
  | x => x

def isEmptyLig : Item → Bool
  | .lig _ _ [] _ _ => true
  | _ => false

/-- Right-boundary flags cleared, trailing boundary-only ligatures dropped. -/
def normEnd (l : List Item) : List Item := ((l.map clearRb).reverse.dropWhile isEmptyLig).reverse

/-- `-` the main run is the word's nodes; `f` (C14-f) the word is followed by a non-letter of its
font (`right_boundary_override`) and the runs agree up to right-boundary flags and trailing
boundary-only ligatures; `g` (C14-g) the left boundary is enabled and the main run is the word's
nodes preceded by a copy of the font kern that was stepped over; `i` (C14-i) the word follows a
character of its font inside the token, the left boundary is disabled and the font has a rule
for (that character, first letter); `j` (C14-j) the left boundary is disabled, the word is
preceded by boundary-only ligatures the first of which absorbed the left boundary, and the run
WITH the left boundary reproduces exactly those ligatures followed by the word's nodes (a chain
of rules that started at the boundary changed the first letter); `o` anything else. -/
def devClass (eng : Engine) (inp : List Item) (lhm rhm : Int) (liang : List Nat → List Nat) (w : Word) : Option String :=
  let pos := wordPositions lhm rhm w.letters.length (liang w.letters)
  if pos.isEmpty then none else
  let rest := inp.drop w.start
  let skipped := ((inp.take w.start).reverse.takeWhile (fun x => !x.isGlue)).reverse
  let pb := popBoundaryLig w.font skipped (startsWithLB rest.head?)
  let dlb := !pb.2
  let rbo := rboOf w.font (rest.drop w.nodes).head?
  let a := ((eng.run dlb rbo w.letters).map (·.1)).map (toItem w.font)
  let b := skipped.drop pb.1.length ++ rest.take w.nodes
  if a = b then some "-"
  else if rbo.isSome && normEnd a == normEnd b then some "f"
  else if !dlb && (match a, pb.1.getLast? with
      | .kern 0 k :: a', some (.kern 0 k') => k == k' && a' == b
      | _, _ => false) then some "g"
  else if dlb && (
      let pre := ((pb.1.reverse.takeWhile isEmptyLig).reverse).dropWhile
        (fun x => match x with | .lig _ _ _ lb _ => !lb | _ => true)
      !pre.isEmpty && ((eng.run false rbo w.letters).map (·.1)).map (toItem w.font) == pre ++ b) then some "j"
  else if dlb && (match pb.1.getLast?, w.letters with
      | some (.char c f), l :: _ => f == w.font && eng.hasRepl (some c) (some l)
      | some (.lig c f _ _ _), l :: _ => f == w.font && eng.hasRepl (some c) (some l)
      | _, _ => false) then some "i"
  else some "o"

def tidx (l : Option Nat) (r : Nat) : Nat := (match l with | none => 256 | some x => x) * 256 + r

/-- `C05.table p`, tabulated once per program: the candidate pairs are evaluated with the fuel
`C05.bound p` (`tableB (bound p) p = table p` by `rfl`); every other pair has no rule, hence no
entry. (A separate function returning the array: a `let` inside a function that returns a
closure would be re-evaluated at every lookup.) -/
def mkArr (b : Nat) (p : C05.Program) : Array (Option C05.Repl) :=
  if b < 2000 then #[] else   -- small program: direct evaluation is cheaper than a 65 792-entry table
  (C05.candPairs p).foldl
    (fun (a : Array (Option C05.Repl)) pr =>
      let i := tidx pr.1 pr.2
      if i < a.size then (if (a[i]?).join.isSome then a else a.set! i (tableB b p pr.1 pr.2)) else a)
    (Array.replicate (257 * 256) none)

/-- Lookup: characters ≥ 256 fall back to `tableB`. -/
def tblOf (b : Nat) (p : C05.Program) (arr : Array (Option C05.Repl)) (l : Option Nat) (r : Nat) : Option C05.Repl :=
  if arr.size != 0 && r < 256 && (match l with | none => true | some x => decide (x < 256)) then (arr[tidx l r]?).join
  else tableB b p l r

def handleRm (eng : Engine) (lhm rhm : Int) (rest : Cur) : String :=
    match decItems rest with
    | none => "bad-request inp"
    | some (inp, rest) =>
      match decItems rest with
      | some (out, n :: rest) =>
        match (if n < 0 then none else decRawsN n.toNat rest) with
        | some (raws, []) =>
          let fw := findWords inp
          if fw.length ≠ raws.length then "bad-request words" else
          let table := (fw.map (·.letters)).zip raws
          let liang := fun (s : List Nat) => ((table.find? (fun e => e.1 == s)).map (·.2)).getD []
          let model := hyphenateM eng lhm rhm liang inp
          let v := match model with
            | none => "P"
            | some m => if m = out then "1" else "0"
          let runs := (rebuiltWords inp lhm rhm liang).map (fun (s, dlb, rbo) =>
            let r := eng.run dlb rbo s
            showInts ([if dlb then 1 else 0, (match rbo with | some c => (c : Int) | none => -1), (r.length : Int)]
              ++ (r.map encNode).flatten))
          let shown := match model with
            | none => "panic-or-hang"
            | some m => if m = out then "=" else " ".intercalate (m.map showItem)
          let ub := match unbrokenM eng lhm rhm liang inp with
            | some u => if u = inp then "1" else "0"
            | none => "P"
          let dev := "".intercalate ((findWords inp).filterMap (devClass eng inp lhm rhm liang))
          -- `positions_exact_list`, evaluated on the REAL output: break positions of its inserted
          -- discretionaries = the allowed positions (`expectedM`) that no discretionary covers
          let marks := (align inp out).getD (markDiscs out)
          let tr := discPositions marks out 0
          let ex := expectedM lhm rhm liang inp
          let pe := tr.map (·.1) == ex.filter (fun p => !coveredBy tr p)
          -- and `expectedM` agrees with the positions computed from `findWords` (what `chk` uses)
          let ee := ex == expectedPositions inp fw (fw.map (fun w => wordPositions lhm rhm w.letters.length (liang w.letters)))
          s!"{v} | {";".intercalate runs} | {shown} | ub={ub} dev={dev} pe={b2s pe} ee={b2s ee}"
        | _ => "bad-request raws"
      | _ => "bad-request out"

def handle (line : String) : String :=
  match words line with
  | "fw" :: ws =>
    match ints? ws >>= decItems with
    | some (l, []) =>
      let fw := findWords l
      showInts ((fw.length : Int) :: (fw.map encWord).flatten)
    | _ => "bad-request"
  | ["li", pats, excs, w] =>
    let items := fun (x : String) => if x = "_" then [] else (x.splitOn ",").map String.toList
    match C13.lowerWord C13.asciiLc w.toList with
    | none => "N"
    | some lw => dots (C13.specIndices (items pats) (items excs) lw)
  | "chk" :: ws =>
    match ints? ws with
    | some (lhm :: rhm :: rest) =>
      match decItems rest with
      | some (inp, rest) =>
        match decItems rest with
        | some (out, n :: rest) =>
          match (if n < 0 then none else decRawsN n.toNat rest) with
          | some (raws, []) =>
            let fw := findWords inp
            if fw.length ≠ raws.length then "bad-request words" else
            let sw := specWords inp
            let fwPre := findWordsPrefix inp
            let al := align inp out
            let marks := al.getD (markDiscs out)
            let p1 := al.isSome && P1 marks out inp
            let p2 := P2 marks out
            let dps := discPositions marks out 0
            let impl := sortNats (dps.map (·.1))
            let mpos := positionsOf lhm rhm fw raws false
            let spos := positionsOf lhm rhm fw raws true
            let model := sortNats (expectedPositions inp fw mpos)
            let spec := sortNats (expectedPositions inp (if sw = fw then sw else []) spos)
            -- pre-fix model: positions of those words it still finds
            let preOk := fwPre.all (fun w => fw.contains w)
            let prePos := (fwPre.map (fun w =>
              match (fw.zip mpos).find? (fun (v, _) => v = w) with
              | some (_, ps) => ps
              | none => []))
            let pre := sortNats (expectedPositions inp fwPre prePos)
            let extra := impl.filter (fun p => !spec.contains p)
            let missing := spec.filter (fun p => !impl.contains p)
            let covered := coveredBy dps
            let missC := missing.filter covered
            let missU := missing.filter (fun p => !covered p)
            s!"al={b2s al.isSome} p1={b2s p1} p2={b2s p2} nd={(marks.filter id).length} mm={firstMismatch inp out} impl={dots impl} model={dots model} spec={dots spec} pre={if preOk then dots pre else "?"} extra={dots extra} missU={dots missU} missC={dots missC} mw={b2s (sw = fw)} nw={fw.length} nwpre={fwPre.length}"
          | _ => "bad-request raws"
        | _ => "bad-request out"
      | _ => "bad-request inp"
    | _ => "bad-request"
  | _ => "bad-request"

end DrvC14

/-- The driver keeps one piece of state: the engine of the program last sent with `prog` (the
table of a font like cmr10 is tabulated once, not once per case). -/
partial def DrvC14.loop (eng : Option C14.Engine) : IO Unit := do
  let stdin ← IO.getStdin
  let stdout ← IO.getStdout
  let line ← stdin.getLine
  if line.isEmpty then return ()
  match Proto.words line with
  | "prog" :: ws =>
    match Proto.ints? ws >>= DrvC14.decProg with
    | some (p, []) =>
      let b := C05.bound p
      let arr ← pure (DrvC14.mkArr b p)
      let e := C14.engineOf (DrvC14.tblOf b p arr) p.rb
      stdout.putStrLn s!"ok {arr.size}"
      stdout.flush
      DrvC14.loop (some e)
    | _ =>
      stdout.putStrLn "bad-request program"
      stdout.flush
      DrvC14.loop eng
  | "rm" :: ws =>
    let reply := match eng, Proto.ints? ws with
      | some e, some (lhm :: rhm :: rest) => DrvC14.handleRm e lhm rhm rest
      | none, _ => "bad-request no program"
      | _, _ => "bad-request"
    stdout.putStrLn reply
    stdout.flush
    DrvC14.loop eng
  | _ =>
    stdout.putStrLn (DrvC14.handle line)
    stdout.flush
    DrvC14.loop eng

def main : IO Unit := DrvC14.loop none
