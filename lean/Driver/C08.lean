import TexcraftModel.Util.Proto
import TexcraftModel.Model.C08
import TexcraftModel.Model.C08Macros
import TexcraftModel.Model.C08Input

/-! Driver for C08. Requests:

* `p <v> <ops>` — one program with exactly one checkpoint marker, run by C01's model in variant
  `v` (bit 0 = C01-a, bit 1 = C01-b, bit 2 = C01-c repaired; 7 = all). Ops are encoded as in
  `Driver/C01.lean` (`0` `{`, `1` `}`, `2 pre kind idx val`, `3 pre tk tn dk a b`, `4 pre f`,
  `5 0 kind idx` / `5 1 tk tn` / `5 2 0 0`), plus `dk = 10`: `\let`=primitive `a` of
  `C08.stdTable`, and `9` = the checkpoint.
  Reply: `N | F | P`: the outputs of all ops (`pre ++ post`) without a checkpoint, with the
  checkpoint of the code as it is — serialiser transcribed with its incremental macro table,
  `C08.runCheckpointedInc id` —, with the checkpoint of the code before C08-a
  (`PANIC` if the checkpoint itself panics in the model). Output words as in `Driver/C01.lean`.
* `share <v> <ops>` — the serialised macro table as coded (`serializeInc id`) at the checkpoint:
  `ok <tk>.<tn>.<u> …` for every candidate name that is written as `Macro(u)` (`none`: the program
  stopped before the checkpoint; `PANIC`: the serialiser panics).
* `instack n e1 l1 … en ln` — `C08.Input.Stack.next` on a stack of `n` sources (current first) with
  `e` pending expansions and `l` undelivered characters each: `token` / `invalid` / `endOfInput`.
* `same <words> | <words>` — the specification's verdict on two canonical observations (what
  the uninterrupted VM did, what the checkpointed VM did): `1` iff identical.
* `sound` — `NameTableSound` evaluated on the finite part of `stdTable` the driver uses. -/
open C01 C08 C20 Proto

namespace DrvC08

def kindOf : Int → Option VKind
  | 0 => some .count | 1 => some .dimen | 2 => some .skip | 3 => some .toks
  | 4 => some .catcode | 5 => some .mathcode | 6 => some .param | _ => none

def kindCode : VKind → Nat
  | .count => 0 | .dimen => 1 | .skip => 2 | .toks => 3 | .catcode => 4 | .mathcode => 5 | .param => 6

def targetOf (tk tn : Int) : Option CTarget :=
  if tn < 0 then none
  else if tk = 0 then some (.cs tn.toNat) else if tk = 1 then some (.act tn.toNat) else none

def defOf (dk a b : Int) : Option Def :=
  if a < 0 ∨ b < 0 then none else
  match dk with
  | 0 => some (.mac a.toNat) | 1 => some (.gmac a.toNat) | 2 => some (.chr a.toNat)
  | 3 => some (.mchr a.toNat) | 4 => some (.cdef a.toNat) | 5 => some (.tdef a.toNat)
  | 6 => some (.ltok a.toNat) | 7 => some (.lbuiltin (.prim 0)) | 8 => some (.lbuiltin (.font a.toNat))
  | 9 => (targetOf a b).map .lcs
  | 10 => some (.lbuiltin (.prim a.toNat))
  | _ => none

/-- Decode into the ops before and after the checkpoint marker `9` (`inPost` = marker seen). -/
def decOps : Nat → Bool → Cur → Option (List Op × List Op)
  | _, true, [] => some ([], [])
  | _, false, [] => none
  | 0, _, _ => none
  | fuel + 1, false, 9 :: t => do
    let r ← decOps fuel true t
    pure ([], r.1 ++ r.2)
  | fuel + 1, b, c => do
    let (op, t) ← (match c with
      | 0 :: t => some (Op.beginGroup, t)
      | 1 :: t => some (Op.endGroup, t)
      | 2 :: pre :: k :: i :: x :: t => do
        let kind ← kindOf k
        if pre < 0 ∨ i < 0 then none
        pure (Op.assign pre.toNat ⟨kind, i.toNat⟩ x, t)
      | 3 :: pre :: tk :: tn :: dk :: a :: b :: t => do
        let tgt ← targetOf tk tn
        let d ← defOf dk a b
        if pre < 0 then none
        pure (Op.define pre.toNat tgt d, t)
      | 4 :: pre :: f :: t => do
        if pre < 0 ∨ f < 0 then none
        pure (Op.selectFont pre.toNat f.toNat, t)
      | 5 :: 0 :: k :: i :: t => do
        let kind ← kindOf k
        if i < 0 then none
        pure (Op.read (.var ⟨kind, i.toNat⟩), t)
      | 5 :: 1 :: tk :: tn :: t => do
        let tgt ← targetOf tk tn
        pure (Op.read (.cmd tgt), t)
      | 5 :: 2 :: _ :: _ :: t => some (Op.read .font, t)
      | _ => none : Option (Op × Cur))
    let r ← decOps fuel b t
    if b then pure ([], op :: r.2) else pure (op :: r.1, r.2)

def showOptVal : Option Val → String
  | none => "d"
  | some x => toString x

def showOut : Out → String
  | .unit => "u"
  | .errNoGroup => "EG"
  | .errPrefix => "EP"
  | .panic => "PANIC"
  | .val none => "d"
  | .val (some x) => "i" ++ toString x
  | .cmd none _ => "?"
  | .cmd (some (.mac n)) _ => "m" ++ toString n
  | .cmd (some (.chr c)) _ => "c" ++ toString c
  | .cmd (some (.mchr n)) _ => "M" ++ toString n
  | .cmd (some (.alias v)) a => "v" ++ toString (kindCode v.kind) ++ "." ++ toString v.idx ++ "=" ++ showOptVal a
  | .cmd (some (.tok c)) _ => "t" ++ toString c
  | .cmd (some (.font f)) _ => "F" ++ toString f
  | .cmd (some (.prim p)) _ => "P" ++ toString p
  | .fnt f => "f" ++ toString f

def showOuts (l : List Out) : String := " ".intercalate (l.map showOut)

def showCk (r : Option (List Out)) : String :=
  match r with
  | some l => showOuts l
  | none => "PANIC"

/-- `NameTableSound stdTable` on the primitives / variables the requests can mention. -/
def soundCheck : Bool :=
  ((List.range 80).all fun p =>
    match stdTable.nameOfPrim p with
    | some n => stdTable.builtIn n == some p
    | none => true) &&
  ([VKind.count, .dimen, .skip, .toks, .catcode, .mathcode, .param].all fun k =>
    (List.range 40).all fun i =>
      match stdTable.nameOfVar ⟨k, i⟩ with
      | some (n, j) => stdTable.varOfName n j == some ⟨k, i⟩
      | none => true)

def handle (line : String) : String :=
  match words line with
  | "p" :: ws =>
    match ints? ws with
    | none => "bad"
    | some [] => "bad"
    | some (v :: c) =>
      if v < 0 ∨ 7 < v then "bad" else
      let cfg : Variant := ⟨v.toNat % 2 = 1, (v.toNat / 2) % 2 = 1, (v.toNat / 4) % 2 = 1⟩
      match decOps (c.length + 1) false c with
      | none => "bad"
      | some (pre, post) =>
        let n := showOuts (run cfg VMState.init (pre ++ post)).2
        let f := showCk (runCheckpointedInc id cfg stdTable pre post)
        let p := showCk (runCheckpointed cfg false stdTable pre post)
        " | ".intercalate [n, f, p]
  | "share" :: ws =>
    match ints? ws with
    | some (v :: c) =>
      if v < 0 ∨ 7 < v then "bad" else
      let cfg : Variant := ⟨v.toNat % 2 = 1, (v.toNat / 2) % 2 = 1, (v.toNat / 4) % 2 = 1⟩
      match decOps (c.length + 1) false c with
      | none => "bad"
      | some (pre, _) =>
        let r := run cfg VMState.init pre
        if r.2.any Out.fatal then "none" else
        match serializeInc id stdTable r.1 with
        | .ok s =>
          let cands : List (Nat × CTarget) :=
            ((List.range 6).map fun n => (0, CTarget.cs n)) ++
            ((List.range 60).map fun n => (0, CTarget.cs (100 + n))) ++
            ((List.range 4).map fun n => (1, CTarget.act n))
          let ws := cands.filterMap fun (tk, t) =>
            match s.get t, t with
            | some (.macro u), .cs n => some s!"{tk}.{n}.{u}"
            | some (.macro u), .act n => some s!"{tk}.{n}.{u}"
            | _, _ => none
          "ok " ++ " ".intercalate ws
        | _ => "PANIC"
    | _ => "bad"
  | "instack" :: ws =>
    -- `instack n e1 l1 … en ln`: a stack of n sources (current first), each with `e` pending
    -- expansions and `l` undelivered characters; reply: what `next_unexpanded` answers
    match nats? ws with
    | some (n :: rest) =>
      let rec build : Nat → List Nat → Option (List C08.Input.Src)
        | 0, [] => some []
        | k + 1, e :: l :: t =>
          (build k t).map fun r => { expansions := List.replicate e 0, lexer := List.replicate l (some 0) } :: r
        | _, _ => none
      match build n rest with
      | some (cur :: srcs) =>
        match (C08.Input.Stack.next { cur := cur, sources := srcs }).1 with
        | .token _ => "token"
        | .invalid => "invalid"
        | .endOfInput => "endOfInput"
      | _ => "bad"
    | _ => "bad"
  | "same" :: ws =>
    let a := ws.takeWhile (· ≠ "|")
    let b := (ws.dropWhile (· ≠ "|")).drop 1
    if a == b then "1" else "0"
  | ["sound"] => if soundCheck then "1" else "0"
  | _ => "bad"

end DrvC08

def main : IO Unit := Proto.main DrvC08.handle
