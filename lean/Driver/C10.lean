import TexcraftModel.Util.Proto
import TexcraftModel.Model.C10

/-! Driver for C10 (TFM reader front end). Requests (all numbers decimal):

* `raw <len> <b0> … <bk>`   (k+1 = min 24 len first bytes) → outcome of the repaired model
* `rawpre <len> <b0> … <bk>`                                → outcome of the pre-fix model
* `chk <len> <12 sizes> <bc> <ec> <11 × start stop>`        → `1`/`0`: spec `layoutOKB` on a
                                                               claimed (real) layout
* `hb <12 sizes>`                                           → the 24 bytes `headerBytes` writes
* `vf <nw> <nh> <nd> <ni> <n> <n × (w h d i)>`              → clamped indices, then `1`/`0`
                                                               (all in range)
* `tag <nl> <ne> <kind> <value> <exists01>`                 → `drop` / `keep`

Outcome text: `ok <junk> <12 sizes> <bc> <ec> <22 bounds>` | `err <name> <junk> <payload…>` |
`panic <site>`. -/
open C10 Proto

namespace DrvC10

def b2i (b : Bool) : Int := if b then 1 else 0

def showSizes (s : Sizes) : String := showInts s.toList

def showErr : DeErr → String × List Int
  | .fileIsEmpty => ("empty", [])
  | .fileHasOneByte b => ("onebyte", [b])
  | .lfZero => ("lfzero", [])
  | .lfNegative lf => ("lfneg", [lf])
  | .lfTooBig lf len => ("lftoobig", [lf, len])
  | .lfTooSmall lf len => ("lftoosmall", [lf, len])
  | .subFileSizeIsNegative s => ("negative", s.toList)
  | .headerLengthIsTooSmall lh => ("lhsmall", [lh])
  | .invalidCharacterRange bc ec => ("range", [bc, ec])
  | .incompleteSubFiles s => ("incomplete", s.toList)
  | .tooManyExtensibleCharacters ne => ("manyext", [ne])
  | .inconsistentSubFileSizes s => ("inconsistent", s.toList)

def showSite : Site → String
  | .get24 => "get24"
  | .arith => "arith"
  | .slice => "slice"
  | .bcCast => "bccast"

def showOutcome : Outcome → String
  | .ok L junk =>
    let bounds := (L.slices.map fun sl => [(sl.start : Int), (sl.stop : Int)]).flatten
    s!"ok {b2i junk} {showSizes L.sizes} {L.beginChar} {L.endChar} {showInts bounds}"
  | .err e junk =>
    let (n, p) := showErr e
    if p.isEmpty then s!"err {n} {b2i junk}" else s!"err {n} {b2i junk} {showInts p}"
  | .panic site => s!"panic {showSite site}"

def slicesOfInts : List Int → Option (List Slice)
  | [] => some []
  | a :: b :: t =>
    if a < 0 ∨ b < 0 then none
    else match slicesOfInts t with
      | some r => some (⟨a.toNat, b.toNat⟩ :: r)
      | none => none
  | _ => none

def dimsOfInts : List Int → Option (List Dims)
  | [] => some []
  | w :: h :: d :: i :: t =>
    if w < 0 ∨ h < 0 ∨ d < 0 ∨ i < 0 then none
    else match dimsOfInts t with
      | some r => some (⟨w.toNat, h.toNat, d.toNat, i.toNat⟩ :: r)
      | none => none
  | _ => none

def handle (line : String) : String :=
  match words line with
  | "raw" :: len :: bs =>
    match parseNat? len, nats? bs with
    | some len, some bs => showOutcome (rawCore false bs len)
    | _, _ => "bad-request"
  | "rawpre" :: len :: bs =>
    match parseNat? len, nats? bs with
    | some len, some bs => showOutcome (rawCore true bs len)
    | _, _ => "bad-request"
  | "chk" :: len :: ws =>
    match parseNat? len, ints? ws with
    | some len, some (lf :: lh :: bc :: ec :: nw :: nh :: nd :: ni :: nl :: nk :: ne :: np :: b :: e :: rest) =>
      if b < 0 ∨ e < 0 then "bad-request" else
      match slicesOfInts rest with
      | some sl =>
        let L : RawLayout := ⟨⟨lf, lh, bc, ec, nw, nh, nd, ni, nl, nk, ne, np⟩, b.toNat, e.toNat, sl⟩
        toString (b2i (layoutOKB len L && sl.length == 11))
      | none => "bad-request"
    | _, _ => "bad-request"
  | "hb" :: ws =>
    match ints? ws with
    | some [lf, lh, bc, ec, nw, nh, nd, ni, nl, nk, ne, np] =>
      showNats (headerBytes ⟨lf, lh, bc, ec, nw, nh, nd, ni, nl, nk, ne, np⟩)
    | _ => "bad-request"
  | "vf" :: ws =>
    match nats? ws with
    | some (nw :: nh :: nd :: ni :: n :: rest) =>
      match dimsOfInts (rest.map Int.ofNat) with
      | some ds =>
        if ds.length ≠ n then "bad-request" else
        let cs := ds.map (clampDims nw nh nd ni)
        let ok := cs.all fun c => decide (c.w < nw ∧ c.h < nh ∧ c.d < nd ∧ c.i < ni)
        showNats ((cs.map fun c => [c.w, c.h, c.d, c.i]).flatten ++ [if ok then 1 else 0])
      | none => "bad-request"
    | _ => "bad-request"
  | ["tag", nl, ne, kind, value, ex] =>
    match nats? [nl, ne, value, ex] with
    | some [nl, ne, value, ex] =>
      let t : Option Tag := match kind with
        | "lig" => some (.lig value) | "list" => some (.list value) | "ext" => some (.ext value) | _ => none
      match t with
      | some t => match clampTag nl ne (fun _ => ex != 0) t with
        | some _ => "keep" | none => "drop"
      | none => "bad-request"
    | _ => "bad-request"
  | _ => "bad-request"

end DrvC10

def main : IO Unit := Proto.main DrvC10.handle
