import TexcraftModel.Util.Proto
import TexcraftModel.Model.C10
import TexcraftModel.Model.C10Ser
import TexcraftModel.Model.C10Cst
import TexcraftModel.Model.C10Num
import TexcraftModel.Model.C10Body

/-! Driver for C10 (TFM reader front end). Requests (all numbers decimal):

* `raw <len> <b0> … <bk>`   (k+1 = min 24 len first bytes) → outcome of the repaired model
* `rawpre <len> <b0> … <bk>`                                → outcome of the pre-fix model
* `chk <len> <12 sizes> <bc> <ec> <11 × start stop>`        → `1`/`0`: spec `layoutOKB` on a
                                                               claimed (real) layout
* `hb <12 sizes>`                                           → the 24 bytes `headerBytes` writes
* `ser <headerExtra> <hasChars> <bc> <ec> <nw> <nh> <nd> <ni> <steps> <added> <nk> <ne> <np>`
                                                             → `serializeSizes` of the shape and the first
                                                               failing clause of `ShapeOK` (0 = none)
* `body <all bytes of the file>`                             → `Body.readFile`: the whole parsed file as integers
* `num fix|u32|u8 <data code points…>`                      → the number reader's value, span, warnings
* `cstrt <text code points…>`                               → `warnings=<n> same=<0/1>`: does `renderAll (parse text)` give the text back
* `cst <k> <k non-ASCII alphanumeric code points> <text code points…>`
                                                             → `Cst.cstModel`: tree and warnings as integers
* `vf <nw> <nh> <nd> <ni> <n> <n × (w h d i)>`              → clamped indices, then `1`/`0`
                                                               (all in range)
* `lig <nl> <entry> <redirect target or -1>`                 → `keep <unpacked entry>` / `drop` (exact)
* `tag <nl> <ne> <kind> <value> <exists01>`                 → `drop` / `keep`

Outcome text: `ok <junk> <12 sizes> <bc> <ec> <22 bounds>` | `err <name> <junk> <payload…>` |
`panic <site>`. -/
open C10 Proto

namespace DrvC10

def b2i (b : Bool) : Int := if b then 1 else 0

def showSizes (s : Sizes) : String := showInts s.toList

def showErr : DeErr → String × List Int
  | .fileIsEmpty => ("empty", [])
  | .fileHasOneByte b => ("onebyte", [b])
  | .lfZero => ("lfzero", [])
  | .lfNegative lf => ("lfneg", [lf])
  | .lfTooBig lf len => ("lftoobig", [lf, len])
  | .lfTooSmall lf len => ("lftoosmall", [lf, len])
  | .subFileSizeIsNegative s => ("negative", s.toList)
  | .headerLengthIsTooSmall lh => ("lhsmall", [lh])
  | .invalidCharacterRange bc ec => ("range", [bc, ec])
  | .incompleteSubFiles s => ("incomplete", s.toList)
  | .tooManyExtensibleCharacters ne => ("manyext", [ne])
  | .inconsistentSubFileSizes s => ("inconsistent", s.toList)

def showSite : Site → String
  | .get24 => "get24"
  | .arith => "arith"
  | .slice => "slice"
  | .bcCast => "bccast"

def showOutcome : Outcome → String
  | .ok L junk =>
    let bounds := (L.slices.map fun sl => [(sl.start : Int), (sl.stop : Int)]).flatten
    s!"ok {b2i junk} {showSizes L.sizes} {L.beginChar} {L.endChar} {showInts bounds}"
  | .err e junk =>
    let (n, p) := showErr e
    if p.isEmpty then s!"err {n} {b2i junk}" else s!"err {n} {b2i junk} {showInts p}"
  | .panic site => s!"panic {showSite site}"

def slicesOfInts : List Int → Option (List Slice)
  | [] => some []
  | a :: b :: t =>
    if a < 0 ∨ b < 0 then none
    else match slicesOfInts t with
      | some r => some (⟨a.toNat, b.toNat⟩ :: r)
      | none => none
  | _ => none

def dimsOfInts : List Int → Option (List Dims)
  | [] => some []
  | w :: h :: d :: i :: t =>
    if w < 0 ∨ h < 0 ∨ d < 0 ∨ i < 0 then none
    else match dimsOfInts t with
      | some r => some (⟨w.toNat, h.toNat, d.toNat, i.toNat⟩ :: r)
      | none => none
  | _ => none

/-! ### CST: encoding of trees and warnings as integers (the harness encodes the real `Cst`
the same way). Node: `0 len chars…` (comment) | `1 open keyS keyE dataS dataE closeS closeE
keyLen key… dataLen data… nChildren children…`; warning: `0 at openPos` | `1 at` |
`2 start stop len chars…`. -/

def encChars (l : List Char) : List Nat := l.length :: l.map Char.toNat

mutual
  def encNode : Cst.Node → List Nat
    | .comment t => 0 :: encChars t
    | .regular o key ks data ds children cl =>
      [1, o, ks.start, ks.stop, ds.start, ds.stop, cl.start, cl.stop] ++ encChars key ++ encChars data ++
        (children.length :: encNodes children)
  def encNodes : List Cst.Node → List Nat
    | [] => []
    | n :: ns => encNode n ++ encNodes ns
end

def encWarning : Cst.Warning → List Nat
  | .unbalancedOpen a o => [0, a, o]
  | .unexpectedClose a => [1, a]
  | .junk sp t => [2, sp.start, sp.stop] ++ encChars t

def asciiAlnum (c : Char) : Bool := c.isAlphanum

def handleCst (ws : List Nat) : String :=
  match ws with
  | k :: rest =>
    if rest.length < k then "bad-request" else
    let extra := rest.take k
    let text := (rest.drop k).map Char.ofNat
    let alnum : Char → Bool := fun c => asciiAlnum c || extra.contains c.toNat
    match Cst.cstModel alnum text with
    | .outOfFuel => "outoffuel"
    | .ok tree warnings =>
      showNats ((tree.length :: encNodes tree) ++ (warnings.length :: (warnings.map encWarning).flatten))
  | [] => "bad-request"

/-! ### Number readers -/

def encKind : Num.Kind → List Nat
  | .invalidPrefixForInteger => [0, 0]
  | .invalidOctalDigit => [1, 0]
  | .integerIsTooBig r => [2, r]
  | .invalidPrefixForDecimalNumber => [3, 0]
  | .decimalNumberIsTooBig => [4, 0]
  | .smallIntegerIsTooBig r => [5, r]
  | .emptyCharacterValue => [6, 0]
  | .invalidFaceCode => [7, 0]
  | .invalidPrefixForSmallInteger => [8, 0]
  | .junkAfterPropertyValue => [9, 0]

def showRes (r : Num.Res) : String :=
  let r := Num.withJunk r
  let ws := (r.warns.map fun w => encKind w.kind ++ [w.start, w.stop, w.offset]).flatten
  s!"ok {r.value} {r.start} {r.stop} {r.warns.length} {showNats ws}".trimAsciiEnd.toString

def handleNum (which : String) (cps : List Nat) : String :=
  let i : Num.In := ⟨cps.map Char.ofNat, 0⟩
  match which with
  | "fix" => match Num.parseFix i with | .ok r => showRes r | .panic => "panic"
  | "u32" => showRes (Num.parseU32 i)
  | "u8" => showRes (Num.parseU8 i)
  | _ => "bad-request"

/-- The round-trip law evaluated on the model: the text parses without warnings and the
canonical rendering of the tree is the (normalised) text again. -/
def handleCstRt (cps : List Nat) : String :=
  let text := cps.map Char.ofNat
  match Cst.cstModel asciiAlnum text with
  | .outOfFuel => "outoffuel"
  | .ok tree warnings =>
    let back := Cst.renderAll tree
    s!"warnings={warnings.length} same={b2i (back == Cst.normalize text)}"

/-! ### The whole reader (`Body.readFile`): the parsed file as integers -/

def encOptList (o : Option (List Nat)) : List Int :=
  match o with
  | none => [-1]
  | some l => (l.length : Int) :: l.map Int.ofNat

def encOptNat (o : Option Nat) : Int := match o with | none => -1 | some n => n

def encInts (l : List Int) : List Int := (l.length : Int) :: l

def insertSorted (x : Nat) : List Nat → List Nat
  | [] => [x]
  | y :: t => if x < y then x :: y :: t else if x = y then y :: t else y :: insertSorted x t

def encBody (f : Body.File) : List Int :=
  let h := f.header
  [(h.checksum : Int), h.designSize] ++ encOptList h.scheme ++ encOptList h.family ++
  [match h.sevenBitSafe with | none => -1 | some b => b2i b, encOptNat h.face] ++ encInts (h.extra.map Int.ofNat) ++
  [(f.smallestChar : Int), (f.chars.length : Int)] ++
  (f.chars.map fun (c, ci) =>
    [(c : Int)] ++ (match ci.dims with | none => [0, 0, 0, 0, 0] | some (w, hh, d, i) => [1, (w : Int), hh, d, i]) ++
      (match ci.tag with | none => [0, 0, 0] | some (k, p) => [1, (k : Int), p])).flatten ++
  encInts f.widths ++ encInts f.heights ++ encInts f.depths ++ encInts f.italics ++
  [(f.ligKern.instructions.length : Int)] ++
  (f.ligKern.instructions.map fun i => [encOptNat i.next, (i.right : Int), i.op.1, i.op.2.1, i.op.2.2.1, i.op.2.2.2]).flatten ++
  [encOptNat f.ligKern.rightBoundary, encOptNat f.ligKern.leftEntry] ++
  encInts ((f.ligKern.passthrough.foldr insertSorted []).map Int.ofNat) ++
  encInts f.kerns ++ [(f.exten.length : Int)] ++
  (f.exten.map fun (a, b, c, d) => [(a : Int), b, c, d]).flatten ++ encInts f.params

def handleBody (bytes : List Nat) : String :=
  match Body.readFile bytes with
  | .panic => "panic"
  | .err _ _ => "err"
  | .ok f j => s!"ok {b2i j} {showInts (encBody f)}"

def handle (line : String) : String :=
  match words line with
  | "raw" :: len :: bs =>
    match parseNat? len, nats? bs with
    | some len, some bs => showOutcome (rawCore false bs len)
    | _, _ => "bad-request"
  | "rawpre" :: len :: bs =>
    match parseNat? len, nats? bs with
    | some len, some bs => showOutcome (rawCore true bs len)
    | _, _ => "bad-request"
  | "chk" :: len :: ws =>
    match parseNat? len, ints? ws with
    | some len, some (lf :: lh :: bc :: ec :: nw :: nh :: nd :: ni :: nl :: nk :: ne :: np :: b :: e :: rest) =>
      if b < 0 ∨ e < 0 then "bad-request" else
      match slicesOfInts rest with
      | some sl =>
        let L : RawLayout := ⟨⟨lf, lh, bc, ec, nw, nh, nd, ni, nl, nk, ne, np⟩, b.toNat, e.toNat, sl⟩
        toString (b2i (layoutOKB len L && sl.length == 11))
      | none => "bad-request"
    | _, _ => "bad-request"
  | "hb" :: ws =>
    match ints? ws with
    | some [lf, lh, bc, ec, nw, nh, nd, ni, nl, nk, ne, np] =>
      showNats (headerBytes ⟨lf, lh, bc, ec, nw, nh, nd, ni, nl, nk, ne, np⟩)
    | _ => "bad-request"
  | "ser" :: ws =>
    match nats? ws with
    | some [hx, hasChars, bc, ec, nw, nh, nd, ni, steps, added, nk, ne, np] =>
      let f : FileShape := ⟨hx, if hasChars = 0 then none else some (bc, ec), nw, nh, nd, ni, steps, added, nk, ne, np⟩
      let v := shapeViolation f
      match serializeSizes f with
      | .ok s => s!"ok {showSizes s} viol={v}"
      | .panic .lhCast => s!"panic lhcast viol={v}"
      | .panic (.sectionCast k) => s!"panic section{k} viol={v}"
      | .panic .lfOverflow => s!"panic lfoverflow viol={v}"
    | _ => "bad-request"
  | "body" :: ws =>
    match nats? ws with
    | some ns => handleBody ns
    | none => "bad-request"
  | "num" :: which :: ws =>
    match nats? ws with
    | some ns => handleNum which ns
    | none => "bad-request"
  | "cstrt" :: ws =>
    match nats? ws with
    | some ns => handleCstRt ns
    | none => "bad-request"
  | "cst" :: ws =>
    match nats? ws with
    | some ns => handleCst ns
    | none => "bad-request"
  | "vf" :: ws =>
    match nats? ws with
    | some (nw :: nh :: nd :: ni :: n :: rest) =>
      match dimsOfInts (rest.map Int.ofNat) with
      | some ds =>
        if ds.length ≠ n then "bad-request" else
        let cs := ds.map (clampDims nw nh nd ni)
        let ok := cs.all fun c => decide (c.w < nw ∧ c.h < nh ∧ c.d < nd ∧ c.i < ni)
        showNats ((cs.map fun c => [c.w, c.h, c.d, c.i]).flatten ++ [if ok then 1 else 0])
      | none => "bad-request"
    | _ => "bad-request"
  | ["lig", nl, e, redir] =>
    -- exact lig-tag clamp: `redir` = -1 or the redirect target of the word at the entry point
    match parseNat? nl, parseNat? e, parseInt? redir with
    | some nl, some e, some r =>
      match unpackEntry nl e (if r < 0 then none else some r.toNat) with
      | some u => s!"keep {u}"
      | none => "drop"
    | _, _, _ => "bad-request"
  | ["tag", nl, ne, kind, value, ex] =>
    match nats? [nl, ne, value, ex] with
    | some [nl, ne, value, ex] =>
      let t : Option Tag := match kind with
        | "lig" => some (.lig value) | "list" => some (.list value) | "ext" => some (.ext value) | _ => none
      match t with
      | some t => match clampTag nl ne (fun _ => ex != 0) t with
        | some _ => "keep" | none => "drop"
      | none => "bad-request"
    | _ => "bad-request"
  | _ => "bad-request"

end DrvC10

def main : IO Unit := Proto.main DrvC10.handle
