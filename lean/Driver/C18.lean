import TexcraftModel.Util.Proto
import TexcraftModel.Model.C18

/-! Driver for C18 (Box language). Sections of a request are separated by ` | `.

* `rt <H|V> <style> | <nodes> | <code points of the real printed text, or -> | <code points
    that Rust's escape_debug prints raw, among those occurring in the list's strings>`
    style 1 = list printer (`Vec<_>::to_box_lang`, runs of characters merged),
    style 0 = one `Display` per element (boxworks-testing).
    → `expr=<0/1> lex=<ok/err/uns> tok=<0/1> spec=<0/1> model=<0/1>`
      expr  : the list is expressible (`exprList`)
      lex   : the model lexer on the real text
      tok   : tokens of the real text = `printCalls (lower l)`            (I vs M)
      spec  : `parseToks` of the real text's tokens = the original list    (S on real output)
      model : `parseToks (printNodes l)` = the original list               (M vs S)
      txt   : the real text = the model's `renderCalls raw 0 (lower l)` character by character
              (I vs M; on a mismatch the model's text follows after ` | `)
      mlex  : `lex` of the model's text = the model's tokens (sanity of `lexer_inverts_printer`)
      repr  : `reprList` (token-level representable); nspec: `parseToks` of the real text's
              tokens = `normList l` (what printing forgets, S on real output)
* `src <E|O|P> | <code points of a source> | <code points of the real format(source), or -> |
    <raw code points>`   (E: the real format returned errors, O: it returned text, P: it panicked)
    → `H=<ok nodes|err|uns> | V=<…> | fmt=<1/0/na>`
      fmt: tokens of the real formatted text = `formatToks (lex source)`   (I vs M)
      B  : `bracketCloses`: for every bracket token (up to the first lexer error) the byte offset
           of the closer `Lexer::build` matches it with, -1 = unmatched            (I vs M)
      ftxt: on a source without comments, the real formatted text = `formatText raw source`
           character by character, and the real formatter errs iff the model does  (I vs M)
      L  : the model lexer's token stream of the source (`ok <tokens>`), or `err <class>
           <start> <end>` = the first error the real lexer records and the byte range of its label                          (I vs M)

Nodes are integer-encoded (see `encNode`); a list is its length followed by its nodes. In
requests an hbox carries the *printed text* of its glue ratio (length + code points), in
replies the parsed numerator. -/
open C18 Proto

namespace DrvC18

def encOrder : Order → Int | .normal => 0 | .fil => 1 | .fill => 2 | .filll => 3
def decOrder : Int → Option Order
  | 0 => some .normal | 1 => some .fil | 2 => some .fill | 3 => some .filll | _ => none
def b2i (b : Bool) : Int := if b then 1 else 0

mutual
def encNode : Node → List Int
  | .char c font => [0, (c.toNat : Int), (font : Int)]
  | .glue kind w st sto sh sho => [1, (kind : Int), w, st, encOrder sto, sh, encOrder sho]
  | .kern kind w => [2, (kind : Int), w]
  | .penalty p => [3, p]
  | .rule h w d => [4, h, w, d]
  | .lig c orig font l r =>
    [5, (c.toNat : Int), (font : Int), b2i l, b2i r, (orig.length : Int)] ++ orig.map (fun c => (c.toNat : Int))
  | .disc pre post rc => [6, (rc : Int)] ++ encList pre ++ encList post
  | .hbox h w d s ratio o l => [7, h, w, d, s, encOrder o, ratio] ++ encList l
  | .vbox h w d s g l => [8, h, w, d, s, b2i g] ++ encList l
  | .mark n => [9, (n : Int)]
  | .adjust l => 10 :: encList l
  | .ins box h md w st sto sh sho fp l =>
    [11, (box : Int), h, md, w, st, encOrder sto, sh, encOrder sho, (fp : Int)] ++ encList l
  | .math a => [12, b2i a]
def encList : List Node → List Int
  | [] => [0]
  | n :: r =>
    match encList r with
    | k :: t => (k + 1) :: (encNode n ++ t)
    | [] => []
end

def nat? (i : Int) : Option Nat := if i < 0 then none else some i.toNat
def char? (i : Int) : Option Char :=
  if i < 0 then none else if Nat.isValidChar i.toNat then some (Char.ofNat i.toNat) else none
def chars? (l : List Int) : Option (List Char) := l.mapM char?

/-- Glue ratio text (`display_no_units` of a non-negative value) → the scaled value it
denotes, without any range check (values above the language's limit stay representable in
the model so that printing can be compared; `exprNode` excludes them). -/
def ratioOfText (t : List Char) : Int :=
  let (ip, r) := scanDigits 0 t
  match r with
  | '.' :: r' =>
    match scanFrac r' with
    | (ds, []) => ((ip * 65536 + fromDecimalDigits ds : Nat) : Int)
    | _ => -1
  | _ => -1

mutual
def decNode : Nat → Cur → Option (Node × Cur)
  | 0, _ => none
  | _ + 1, 0 :: c :: font :: t => do pure (.char (← char? c) (← nat? font), t)
  | _ + 1, 1 :: kind :: w :: st :: sto :: sh :: sho :: t => do
    pure (.glue (← nat? kind) w st (← decOrder sto) sh (← decOrder sho), t)
  | _ + 1, 2 :: kind :: w :: t => do pure (.kern (← nat? kind) w, t)
  | _ + 1, 3 :: p :: t => some (.penalty p, t)
  | _ + 1, 4 :: h :: w :: d :: t => some (.rule h w d, t)
  | _ + 1, 5 :: c :: font :: l :: r :: t => do
    let (o, t) ← takeList t
    pure (.lig (← char? c) (← chars? o) (← nat? font) (l != 0) (r != 0), t)
  | f + 1, 6 :: rc :: t => do
    let (pre, t) ← decList f t
    let (post, t) ← decList f t
    pure (.disc pre post (← nat? rc), t)
  | f + 1, 7 :: h :: w :: d :: s :: o :: t => do
    let (rt, t) ← takeList t
    let (l, t) ← decList f t
    pure (.hbox h w d s (ratioOfText (← chars? rt)) (← decOrder o) l, t)
  | f + 1, 8 :: h :: w :: d :: s :: g :: t => do
    let (l, t) ← decList f t
    pure (.vbox h w d s (g != 0) l, t)
  | _ + 1, 9 :: n :: t => do pure (.mark (← nat? n), t)
  | f + 1, 10 :: t => do
    let (l, t) ← decList f t
    pure (.adjust l, t)
  | f + 1, 11 :: box :: h :: md :: w :: st :: sto :: sh :: sho :: fp :: t => do
    let (l, t) ← decList f t
    pure (.ins (← nat? box) h md w st (← decOrder sto) sh (← decOrder sho) (← nat? fp) l, t)
  | _ + 1, 12 :: a :: t => some (.math (a != 0), t)
  | _ + 1, _ => none
def decListN : Nat → Nat → Cur → Option (List Node × Cur)
  | 0, _, _ => none
  | _ + 1, 0, t => some ([], t)
  | f + 1, k + 1, t => do
    let (n, t) ← decNode f t
    let (r, t) ← decListN f k t
    pure (n :: r, t)
def decList : Nat → Cur → Option (List Node × Cur)
  | 0, _ => none
  | f + 1, n :: t => if n < 0 then none else decListN f n.toNat t
  | _ + 1, [] => none
end

def sections (line : String) : List (List String) :=
  (line.splitOn " | ").map words

def text? (ws : List String) : Option (Option (List Char)) :=
  match ws with
  | ["-"] => some none
  | ws => match ints? ws >>= chars? with
    | some cs => some (some cs)
    | none => none

def mode? : String → Option Mode
  | "H" => some .H | "V" => some .V | "D" => some .D | _ => none

def sameNodes (a b : List Node) : Bool := encList a == encList b

def errName : LexErr → String
  | .invalidCharacter _ => "InvalidCharacter"
  | .unknownEscapeSequence _ => "UnknownEscapeSequence"
  | .numberOutOfRange _ => "NumberOutOfRange"
  | .multipleDecimalPoints _ => "MultipleDecimalPoints"
  | .numberWithoutUnits _ => "NumberWithoutUnits"
  | .invalidDimensionUnit _ => "InvalidDimensionUnit"
  | .unterminatedString => "UnterminatedString"
  | .parse => "Parse"

def showRes (r : Res (List Node)) : String :=
  match r with
  | .ok l => "ok " ++ showInts (encList l)
  | .err _ => "err"
  | .unsupported => "uns"

def encStr (s : List Char) : List Int := (s.length : Int) :: s.map (fun c => (c.toNat : Int))

def encInf : InfOrder → Int | .fil => 1 | .fill => 2 | .filll => 3

def encTok : BTok → List Int
  | .kw s => 0 :: encStr s
  | .lparen => [1] | .rparen => [2] | .lbrack => [3] | .rbrack => [4] | .comma => [5] | .eq => [6]
  | .str s => 7 :: encStr s
  | .int n => [8, n]
  | .dim s => [9, s]
  | .inf s o => [10, s, encInf o]

/-- The token stream of a text, or the first lexer error class. -/
def showLex (src : List Char) (r : Res (List BTok)) : String :=
  match r with
  | .ok toks => "ok " ++ showInts ((toks.map encTok).flatten)
  | .err e =>
    -- the class and the byte range of the label span
    match e.span with
    | some sp => let (a, b) := byteRange src sp; s!"err {errName e} {a} {b}"
    | none => "err " ++ errName e
  | .unsupported => "uns"

def handleRt (m : Mode) (style : Nat) (l : List Node) (txt : Option (List Char)) (rawCps : List Int) : String :=
  let cs := if style = 0 then lowerEach l else lower m l
  let mtoks := printCalls cs
  let expr := exprList m l
  let repr := reprList m l
  let raw : Char → Bool := fun c => rawCps.contains (c.toNat : Int)
  let mtext := renderCalls raw 0 cs
  let model := match parseToks m mtoks with
    | some l' => sameNodes l' l
    | none => false
  -- the model's own text level: lexing the model's text gives the model's tokens
  let mlex := match lex mtext with
    | .ok t => decide (t = mtoks)
    | _ => false
  let (lexs, tok, spec, nspec, sameText) :=
    match txt with
    | none => ("na", false, false, false, false)
    | some t =>
      let same := decide (t = mtext)
      match lex t with
      | .ok toks =>
        match parseToks m toks with
        | some l' => ("ok", decide (toks = mtoks), sameNodes l' l, sameNodes l' (normList l), same)
        | none => ("ok", decide (toks = mtoks), false, false, same)
      | .err _ => ("err", false, false, false, same)
      | .unsupported => ("uns", false, false, false, same)
  s!"expr={b2i expr} lex={lexs} tok={b2i tok} spec={b2i spec} model={b2i model} repr={b2i repr} nspec={b2i nspec} txt={b2i sameText} mlex={b2i mlex}"
    ++ (if sameText || txt.isNone then "" else " | " ++ showInts (mtext.map (fun c => (c.toNat : Int))))

def handleSrc (src : List Char) (fmt : Option (List Char)) (rawCps : List Int) (fmtErr : Bool) : String :=
  let h := showRes (parseText .H src)
  let v := showRes (parseText .V src)
  let f :=
    match fmt, lex src with
    | some ft, .ok toks =>
      match lex ft, formatToks toks with
      | .ok ftoks, some mt =>
        -- comments (dropped by the model lexer) switch a call to the one-argument-per-line
        -- layout, which adds commas: compare modulo commas when the source has a comment
        if ftoks = mt then "1"
        else if src.contains '#' ∧ ftoks.filter (· ≠ BTok.comma) = mt.filter (· ≠ BTok.comma) then "1"
        else "0"
      | _, _ => "na"
    | _, _ => "na"
  -- exact text of the formatter on comment-free text: real format(s) = formatText raw s
  let raw : Char → Bool := fun c => rawCps.contains (c.toNat : Int)
  let ftxt :=
    if src.contains '#' then "na"
    else
      match formatText raw src, fmt with
      | .ok t, some ft => if t = ft then "1" else "0"
      | .ok _, none => if fmtErr then "0" else "na"      -- model formats, the real one reports errors
      | .err _, some _ => "0"                           -- model says error, the real one formats
      | .err _, none => "1"
      | .unsupported, _ => "0"
  -- the pre-pass: for every bracket token the byte offset of its matching closer (-1 = none)
  let bs := (bracketCloses src (src.length + 1) src).map (fun o => match o with | some n => (n : Int) | none => -1)
  s!"H={h} | V={v} | fmt={f} | L={showLex src (lex src)} | ftxt={ftxt} | B={showInts bs}"

def handle (line : String) : String :=
  match sections line with
  | ["rt", m, style] :: nodes :: txt :: rawSec :: [] =>
    match mode? m, style.toNat?, ints? nodes, text? txt, ints? rawSec with
    | some m, some style, some ns, some txt, some rawCps =>
      match decList (ns.length + 2) ns with
      | some (l, []) => handleRt m style l txt rawCps
      | _ => "bad-request nodes"
    | _, _, _, _, _ => "bad-request"
  | ["src", fe] :: src :: fmt :: rawSec :: [] =>
    match text? src, text? fmt, ints? rawSec with
    | some (some s), some f, some rawCps => handleSrc s f rawCps (fe == "E")
    | some none, some f, some rawCps => handleSrc [] f rawCps (fe == "E")
    | _, _, _ => "bad-request"
  | _ => "bad-request"

end DrvC18

def main : IO Unit := Proto.main DrvC18.handle
