import TexcraftModel.Util.Proto
import TexcraftModel.Model.C18

/-! Driver for C18 (Box language). Sections of a request are separated by ` | `.

* `rt <H|V> <style> | <nodes> | <code points of the real printed text, or ->`
    style 1 = list printer (`Vec<_>::to_box_lang`, runs of characters merged),
    style 0 = one `Display` per element (boxworks-testing).
    → `expr=<0/1> lex=<ok/err/uns> tok=<0/1> spec=<0/1> model=<0/1>`
      expr  : the list is expressible (`exprList`)
      lex   : the model lexer on the real text
      tok   : tokens of the real text = `printCalls (lower l)`            (I vs M)
      spec  : `parseToks` of the real text's tokens = the original list    (S on real output)
      model : `parseToks (printNodes l)` = the original list               (M vs S)
      repr  : `reprList` (token-level representable); nspec: `parseToks` of the real text's
              tokens = `normList l` (what printing forgets, S on real output)
* `src | <code points of a source> | <code points of the real format(source), or ->`
    → `H=<ok nodes|err|uns> | V=<…> | fmt=<1/0/na>`
      fmt: tokens of the real formatted text = `formatToks (lex source)`   (I vs M)

Nodes are integer-encoded (see `encNode`); a list is its length followed by its nodes. In
requests an hbox carries the *printed text* of its glue ratio (length + code points), in
replies the parsed numerator. -/
open C18 Proto

namespace DrvC18

def encOrder : Order → Int | .normal => 0 | .fil => 1 | .fill => 2 | .filll => 3
def decOrder : Int → Option Order
  | 0 => some .normal | 1 => some .fil | 2 => some .fill | 3 => some .filll | _ => none
def b2i (b : Bool) : Int := if b then 1 else 0

mutual
def encNode : Node → List Int
  | .char c font => [0, (c.toNat : Int), (font : Int)]
  | .glue kind w st sto sh sho => [1, (kind : Int), w, st, encOrder sto, sh, encOrder sho]
  | .kern kind w => [2, (kind : Int), w]
  | .penalty p => [3, p]
  | .rule h w d => [4, h, w, d]
  | .lig c orig font l r =>
    [5, (c.toNat : Int), (font : Int), b2i l, b2i r, (orig.length : Int)] ++ orig.map (fun c => (c.toNat : Int))
  | .disc pre post rc => [6, (rc : Int)] ++ encList pre ++ encList post
  | .hbox h w d s ratio o l => [7, h, w, d, s, encOrder o, ratio] ++ encList l
  | .vbox h w d s g l => [8, h, w, d, s, b2i g] ++ encList l
  | .mark n => [9, (n : Int)]
  | .adjust l => 10 :: encList l
  | .ins box h md w st sto sh sho fp l =>
    [11, (box : Int), h, md, w, st, encOrder sto, sh, encOrder sho, (fp : Int)] ++ encList l
  | .math a => [12, b2i a]
def encList : List Node → List Int
  | [] => [0]
  | n :: r =>
    match encList r with
    | k :: t => (k + 1) :: (encNode n ++ t)
    | [] => []
end

def nat? (i : Int) : Option Nat := if i < 0 then none else some i.toNat
def char? (i : Int) : Option Char :=
  if i < 0 then none else if Nat.isValidChar i.toNat then some (Char.ofNat i.toNat) else none
def chars? (l : List Int) : Option (List Char) := l.mapM char?

/-- Glue ratio text (`display_no_units` of a non-negative value) → the scaled value it
denotes, without any range check (values above the language's limit stay representable in
the model so that printing can be compared; `exprNode` excludes them). -/
def ratioOfText (t : List Char) : Int :=
  let (ip, r) := scanDigits 0 t
  match r with
  | '.' :: r' =>
    match scanFrac r' with
    | (ds, []) => ((ip * 65536 + fromDecimalDigits ds : Nat) : Int)
    | _ => -1
  | _ => -1

mutual
def decNode : Nat → Cur → Option (Node × Cur)
  | 0, _ => none
  | _ + 1, 0 :: c :: font :: t => do pure (.char (← char? c) (← nat? font), t)
  | _ + 1, 1 :: kind :: w :: st :: sto :: sh :: sho :: t => do
    pure (.glue (← nat? kind) w st (← decOrder sto) sh (← decOrder sho), t)
  | _ + 1, 2 :: kind :: w :: t => do pure (.kern (← nat? kind) w, t)
  | _ + 1, 3 :: p :: t => some (.penalty p, t)
  | _ + 1, 4 :: h :: w :: d :: t => some (.rule h w d, t)
  | _ + 1, 5 :: c :: font :: l :: r :: t => do
    let (o, t) ← takeList t
    pure (.lig (← char? c) (← chars? o) (← nat? font) (l != 0) (r != 0), t)
  | f + 1, 6 :: rc :: t => do
    let (pre, t) ← decList f t
    let (post, t) ← decList f t
    pure (.disc pre post (← nat? rc), t)
  | f + 1, 7 :: h :: w :: d :: s :: o :: t => do
    let (rt, t) ← takeList t
    let (l, t) ← decList f t
    pure (.hbox h w d s (ratioOfText (← chars? rt)) (← decOrder o) l, t)
  | f + 1, 8 :: h :: w :: d :: s :: g :: t => do
    let (l, t) ← decList f t
    pure (.vbox h w d s (g != 0) l, t)
  | _ + 1, 9 :: n :: t => do pure (.mark (← nat? n), t)
  | f + 1, 10 :: t => do
    let (l, t) ← decList f t
    pure (.adjust l, t)
  | f + 1, 11 :: box :: h :: md :: w :: st :: sto :: sh :: sho :: fp :: t => do
    let (l, t) ← decList f t
    pure (.ins (← nat? box) h md w st (← decOrder sto) sh (← decOrder sho) (← nat? fp) l, t)
  | _ + 1, 12 :: a :: t => some (.math (a != 0), t)
  | _ + 1, _ => none
def decListN : Nat → Nat → Cur → Option (List Node × Cur)
  | 0, _, _ => none
  | _ + 1, 0, t => some ([], t)
  | f + 1, k + 1, t => do
    let (n, t) ← decNode f t
    let (r, t) ← decListN f k t
    pure (n :: r, t)
def decList : Nat → Cur → Option (List Node × Cur)
  | 0, _ => none
  | f + 1, n :: t => if n < 0 then none else decListN f n.toNat t
  | _ + 1, [] => none
end

def sections (line : String) : List (List String) :=
  (line.splitOn " | ").map words

def text? (ws : List String) : Option (Option (List Char)) :=
  match ws with
  | ["-"] => some none
  | ws => match ints? ws >>= chars? with
    | some cs => some (some cs)
    | none => none

def mode? : String → Option Mode
  | "H" => some .H | "V" => some .V | "D" => some .D | _ => none

def sameNodes (a b : List Node) : Bool := encList a == encList b

def showRes (r : Res (List Node)) : String :=
  match r with
  | .ok l => "ok " ++ showInts (encList l)
  | .err => "err"
  | .unsupported => "uns"

def handleRt (m : Mode) (style : Nat) (l : List Node) (txt : Option (List Char)) : String :=
  let cs := if style = 0 then lowerEach l else lower m l
  let mtoks := printCalls cs
  let expr := exprList m l
  let model := match parseToks m mtoks with
    | some l' => sameNodes l' l
    | none => false
  let repr := reprList m l
  let (lexs, tok, spec, nspec) :=
    match txt with
    | none => ("na", false, false, false)
    | some t =>
      match lex t with
      | .ok toks =>
        match parseToks m toks with
        | some l' => ("ok", decide (toks = mtoks), sameNodes l' l, sameNodes l' (normList l))
        | none => ("ok", decide (toks = mtoks), false, false)
      | .err => ("err", false, false, false)
      | .unsupported => ("uns", false, false, false)
  s!"expr={b2i expr} lex={lexs} tok={b2i tok} spec={b2i spec} model={b2i model} repr={b2i repr} nspec={b2i nspec}"

def handleSrc (src : List Char) (fmt : Option (List Char)) : String :=
  let h := showRes (parseText .H src)
  let v := showRes (parseText .V src)
  let f :=
    match fmt, lex src with
    | some ft, .ok toks =>
      match lex ft, formatToks toks with
      | .ok ftoks, some mt =>
        -- comments (dropped by the model lexer) switch a call to the one-argument-per-line
        -- layout, which adds commas: compare modulo commas when the source has a comment
        if ftoks = mt then "1"
        else if src.contains '#' ∧ ftoks.filter (· ≠ BTok.comma) = mt.filter (· ≠ BTok.comma) then "1"
        else "0"
      | _, _ => "na"
    | _, _ => "na"
  s!"H={h} | V={v} | fmt={f}"

def handle (line : String) : String :=
  match sections line with
  | ["rt", m, style] :: nodes :: txt :: [] =>
    match mode? m, style.toNat?, ints? nodes, text? txt with
    | some m, some style, some ns, some txt =>
      match decList (ns.length + 2) ns with
      | some (l, []) => handleRt m style l txt
      | _ => "bad-request nodes"
    | _, _, _, _ => "bad-request"
  | ["src"] :: src :: fmt :: [] =>
    match text? src, text? fmt with
    | some (some s), some f => handleSrc s f
    | some none, some f => handleSrc [] f
    | _, _ => "bad-request"
  | _ => "bad-request"

end DrvC18

def main : IO Unit := Proto.main DrvC18.handle
