import TexcraftModel.Util.Proto
import TexcraftModel.Model.C04
import TexcraftModel.Model.C04Algo

/-! Driver for C04. One request kind:

`judge <force> <q> <inst> <k> b1..bk <m> (a L pf b bad pen dem art)*`

* `force` 0/1 = `force_solution`; `q` = looseness; `k = -1` means the implementation returned `None`.
* `<inst>` = `tol emerg linePen hyphPen exHyphPen adj dbl fin  lw lst lso lsh  rw rst rso rsh  nW w..  nI items..`
  items: `0 w` box | `1` inert | `2 w st so sh` glue | `3 kind w` kern (kind 1 = explicit; 0 normal, 2 accent, 3 math) | `4 p` penalty |
  `5 npre pre.. npost post.. r` disc | `6 after` math.
* candidates: every `log_feasible_breakpoint` of the run: previous break `a` (−1 = start), line
  number `L`, previous fitness class `pf`, break `b`, and the logged badness, penalty, demerits,
  artificial flag.

Reply: `verdict=<ok|skip:reason|bad:reason> cand=<ok|bad:index:what> algo=<none|[b1,…]|skip:reason> trace=<-|e:l:f:t:h:p,…|skip:reason> thm=<n/a|ok:optimal|ok:loose|bad:…> best=<…> dpall=<…> total=<…>`.
The verdict is the property itself, decided with the proved-optimal reference `dp`.
`algo=` is the answer of the transcription `C04.algo` (Model/C04Algo.lean) of
`break_line_single_attempt` on the same instance, looseness and `force_solution`; the harness
demands that it equals the real result exactly (stream `algo`). -/
open C04 Proto

namespace DrvC04

def nat? (i : Int) : Option Nat := if i < 0 then none else some i.toNat

def takeNats (c : Cur) : Option (List Int × Cur) := takeList c

def decItem (c : Cur) : Option (Item × Cur) :=
  match c with
  | 0 :: w :: t => some (.box w, t)
  | 1 :: t => some (.inert, t)
  | 2 :: w :: st :: so :: sh :: t => do pure (.glue ⟨w, st, (← nat? so), sh⟩, t)
  | 3 :: e :: w :: t => some (.kern (e == 1) w, t)     -- 0 normal, 1 explicit, 2 accent, 3 math
  | 4 :: p :: t => some (.penalty p, t)
  | 5 :: t => do
      let (pre, t) ← takeList t
      let (post, t) ← takeList t
      match t with
      | r :: t => pure (.disc pre post (← nat? r), t)
      | [] => none
  | 6 :: a :: t => some (.math (a != 0), t)
  | _ => none

def decItems : Nat → Cur → Option (List Item × Cur)
  | 0, c => some ([], c)
  | n + 1, c => do
    let (it, c) ← decItem c
    let (its, c) ← decItems n c
    pure (it :: its, c)

def decInst (c : Cur) : Option (Inst × Cur) :=
  match c with
  | tol :: em :: lp :: hp :: ehp :: adj :: dbl :: fin :: lw :: lst :: lso :: lsh :: rw :: rst :: rso :: rsh :: t => do
    let (ws, t) ← takeList t
    match t with
    | n :: t =>
      let (items, t) ← decItems (← nat? n) t
      let p : Params := { linePenalty := lp, hyphenPenalty := hp, exHyphenPenalty := ehp, adjDemerits := adj,
                          doubleHyphenDemerits := dbl, finalHyphenDemerits := fin,
                          leftSkip := ⟨lw, lst, (← nat? lso), lsh⟩, rightSkip := ⟨rw, rst, (← nat? rso), rsh⟩,
                          emergencyStretch := em, tolerance := tol, widths := ws }
      pure ({ items := items, p := p }, t)
    | [] => none
  | _ => none

def showOpt : Option Int → String
  | none => "none"
  | some d => toString d

def fitOf (i : Int) : Fit := Fit.ofIdx i.toNat

structure CandLog where
  a : Option Nat
  L : Nat
  pf : Fit
  b : Nat
  bad : Int
  pen : Int
  dem : Int
  art : Bool

def decCands : Nat → Cur → Option (List CandLog)
  | 0, [] => some []
  | 0, _ => none
  | n + 1, a :: l :: pf :: b :: bad :: pen :: dem :: art :: t => do
    let rest ← decCands n t
    pure ({ a := if a < 0 then none else some a.toNat, L := (← nat? l), pf := fitOf pf, b := (← nat? b),
            bad := bad, pen := pen, dem := dem, art := art != 0 } :: rest)
  | _, _ => none

/-- Compare one logged candidate line with the specification's rating of the same line. -/
def checkCand (x : Inst) (c : CandLog) : Option String :=
  match breakInfo x c.b with
  | none => some "break-not-legal"
  | some (p, _) =>
    if p ≠ c.pen then some "penalty"
    else
      let r := rate (lineTotals x c.a c.b) (lineWidth x.p.widths c.L)
      if r.1 ≠ c.bad then some "badness"
      else if !c.art ∧ demerits x c.a c.pf c.b r.1 r.2 ≠ c.dem then some "demerits"
      else none

def checkCands (x : Inst) (cs : List CandLog) : String :=
  let rec go (i : Nat) : List CandLog → String
    | [] => "ok"
    | c :: t => match checkCand x c with
      | some w => s!"bad:{i}:{w}"
      | none => go (i + 1) t
  go 0 cs

/-- `all` must be `dpAllFast x` (= `dpAll x` by `C04.dpAllFast_eq`). -/
def judge (force : Bool) (q : Int) (x : Inst) (all : List (Option Int)) (res : Option (List Nat)) : String :=
  if x.p.widths.isEmpty then "skip:no-widths"
  else if !monotone x then "skip:nonmonotone"
  else if 1073741823 ≤ demBound x then "skip:demerits-may-overflow"
  else
    let best := minOpt all       -- = dpBest x
    if q = 0 then
      match res, best with
      | none, none => "ok"
      | none, some _ => "bad:missed-solution"
      | some s, none => if force then "skip:forced-infeasible" else
          (match total x s with | some _ => "bad:model-inconsistent" | none => "bad:infeasible-answer")
      | some s, some d =>
        match total x s with
        | none => "bad:infeasible-answer"
        | some t => if t = d then "ok" else if d < t then "bad:suboptimal" else "bad:model-inconsistent"
    else
      match best with
      | none =>
        (match res with
         | none => "ok"
         | some _ => if force then "skip:forced-infeasible" else "bad:infeasible-answer")
      | some _ =>
        match bestCountsOf all with
        | [bc] =>
          let target := looseTargetOf all bc q
          let exact : Bool := (target : Int) = (bc : Int) + q
          (match res with
           | none => if force then "bad:missed-solution" else if exact then "bad:missed-solution" else "ok"
           | some s =>
             match total x s with
             | none => "bad:infeasible-answer"
             | some t =>
               if !force ∧ !exact then "bad:looseness-not-exact-but-returned"
               else if s.length ≠ target then "bad:wrong-line-count"
               else if some t = all[target]?.join then "ok" else "bad:suboptimal-for-line-count")
        | _ => "skip:ambiguous-best-line-count"

/-- The model's answer `a = algo x q force`, or why the comparison is not made (outside the
modelled domain). -/
def algoField (x : Inst) (a : Option (List Nat)) : String :=
  if x.p.widths.isEmpty then "skip:no-widths"
  else if !discOK x then "skip:disc-malformed"
  else
    match a with
    | none => "none"
    | some bs => "[" ++ ",".intercalate (bs.map toString) ++ "]"

/-- The active nodes the model creates, in creation order, as
`elem:line:fitness:total:hyphenated:previous_elem` (previous_elem −1 = start of the paragraph);
the harness builds the same string from the real run's `log_new_active_node` calls (stream
`trace`). -/
def traceField (force : Bool) (q : Int) (x : Inst) : String :=
  if x.p.widths.isEmpty then "skip:no-widths"
  else if !discOK x then "skip:disc-malformed"
  else
    let tr := traceOf x q force
    if tr.isEmpty then "-"
    else ",".intercalate (tr.map fun ν =>
      let prev : Int := match ν.path with | _ :: p :: _ => (p : Int) | _ => -1
      let el : Int := match ν.path with | e :: _ => (e : Int) | [] => -1
      s!"{el}:{ν.line}:{ν.fit.toNat}:{ν.total}:{if ν.hyph then 1 else 0}:{prev}")

/-- Do the hypotheses of `C04.algo_optimal_dec` (looseness 0) resp. `C04.algo_loose` (looseness
≠ 0) hold for this request? Then the theorem predicts the model's answer `a = algo x q false`
from the reference vector `all = dpAll x`: `none` iff `best = none`, else total = `best`; resp.
exactly `Lb + q` lines with total `dp (Lb + q)`, `Lb` the least best line count, or `none`.
`thm=` is `n/a` outside the hypotheses, else `ok:optimal` / `ok:loose`, or `bad:…` if the
model's answer contradicts the theorem (impossible while the theorems are proved about the same
`algo`; a sanity stream). -/
def thmField (force : Bool) (q : Int) (x : Inst) (all : List (Option Int)) (a : Option (List Nat)) : String :=
  if force ∨ x.p.widths.isEmpty ∨ !discOK x ∨ !monotone x ∨ ¬ demBound x < awfulBad then "n/a"
  else if q = 0 then
    match a, minOpt all with
    | none, none => "ok:optimal"
    | some bs, some d => if total x bs = some d then "ok:optimal" else "bad:optimal"
    | _, _ => "bad:optimal"
  else
    match (bestCountsOf all).head? with
    | none => if a.isNone then "ok:loose" else "bad:loose"
    | some lb =>
      let tgt : Int := (lb : Int) + q
      let want : Option Int := if tgt < 0 then none else all[tgt.toNat]?.join
      match a, want with
      | none, none => "ok:loose"
      | some bs, some d =>
        if bs.length = tgt.toNat ∧ total x bs = some d then "ok:loose" else "bad:loose"
      | _, _ => "bad:loose"

/-! ### The pass driver (`break_line` → `break_line_all_attempts`, lib.rs:247-269, :440-490)

Request `passes <q> <pretol> <pfw> <pfst> <pfso> <pfsh> <inst> <nH> (pos pre)* <k> <nres> b..`:
`inst` holds the list as the caller passes it to `break_line` (tolerance = `\tolerance`,
emerg = `\emergencystretch`), `pf..` is `\parfillskip`, `(pos pre)*` are the places where the
hyphenator inserts a discretionary (before the item with index `pos` of the caller's list,
pre-break width `pre`, nothing replaced), `k` is the attempt (1, 2, 3) in which the real code
answered and `b..` its breakpoints. TeX.2021.816: a final glue is removed, `\penalty10000` and
`\parfillskip` are appended; TeX.2021.863: first pass with `\pretolerance` on the unhyphenated
list, second pass with `\tolerance` on the hyphenated list (final iff no emergency stretch), third
pass with the emergency stretch, final. Every pass is judged with the proved reference for its
own parameters: the passes before `k` must have had no answer, pass `k` must have the right one. -/

def decPairs : Nat → Cur → Option (List (Nat × Int) × Cur)
  | 0, c => some ([], c)
  | n + 1, pos :: pre :: t => do
    let (r, c) ← decPairs n t
    pure ((← nat? pos, pre) :: r, c)
  | _, _ => none

/-- Judge the real outcome (answer `res` in attempt `k`) pass by pass. -/
def judgePasses (q : Int) (ps : List Pass) (k : Nat) (res : List Nat) : String :=
  let rec go (j : Nat) : List Pass → String
    | [] => "bad:pass" ++ toString k ++ ":no-such-pass"
    | p :: t =>
      let v := judge p.force q p.x (dpAllFast p.x) (if j = k then some res else none)
      if v = "ok" then (if j = k then "ok" else go (j + 1) t)
      else if v.startsWith "skip" then v
      else s!"bad:pass{j}:{v.drop 4}"
  go 1 ps

def handlePasses (ws : List Int) : String :=
  match ws with
  | q :: pretol :: pfw :: pfst :: pfso :: pfsh :: rest =>
    match decInst rest with
    | some (x, nH :: t) =>
      match decPairs nH.toNat t with
      | some (hs, k :: nres :: t') =>
        match takeN nres.toNat t' with
        | some (bs, _) =>
          match nat? pfso with
          | some so =>
            let ps := passesOf x pretol ⟨pfw, pfst, so, pfsh⟩ (fun l => insertDiscs l hs)
            let res := bs.map Int.toNat
            let ok := ps.all fun p => !p.x.p.widths.isEmpty ∧ discOK p.x
            let m := if ok then
                match algoPasses q 1 ps with
                | some (km, b) => s!"{km}:[" ++ ",".intercalate (b.map toString) ++ "]"
                | none => "none"
              else "skip"
            -- the list after `break_line`: hyphenated iff a second pass ran
            let len := match ps[k.toNat - 1]? with | some p => p.x.n | none => 0
            let v := if ok then judgePasses q ps k.toNat res else "skip:disc-malformed"
            -- natural width of every line of the real answer as the breaker measured it
            let nat := match ps[k.toNat - 1]? with
              | some p =>
                -- first item of the line that starts after a break at `a` (cf. `afterRef`); a break inside
                -- the pruned run of discardables gives a degenerate line (TeX.2021.837 measures beyond the
                -- break, TeX.2021.879 prunes only up to it): not compared (`x`)
                let start : Option Nat → Nat
                  | none => 0
                  | some a => match p.x.items[a]? with
                    | some (.disc _ post r) => if post.isEmpty then pruneEnd p.x.items (a + 1 + r) else a + 1 + r
                    | _ => pruneEnd p.x.items a
                let rec go (a : Option Nat) : List Nat → List String
                  | [] => []
                  | b :: t => (if b < start a then "x" else toString (lineTotals p.x a b).w) :: go (some b) t
                ",".intercalate (go none res)
              | none => ""
            s!"pverdict={v} pmodel={m} plen={len} pnat={nat}"
          | none => "bad-request:pf"
        | none => "bad-request:res"
      | _ => "bad-request:hyph"
    | _ => "bad-request:inst"
  | _ => "bad-request:passes"

def handle (line : String) : String :=
  match words line with
  | "judge" :: ws =>
    match ints? ws with
    | some (force :: q :: rest) =>
      match decInst rest with
      | some (x, k :: t) =>
        let resAndRest : Option (Option (List Nat) × Cur) :=
          if k < 0 then some (none, t) else
            match takeN k.toNat t with
            | some (bs, t') => some (some (bs.map Int.toNat), t')
            | none => none
        match resAndRest with
        | some (res, m :: t') =>
          match decCands m.toNat t' with
          | some cs =>
            let all := dpAllFast x
            let a := algo x q (force != 0)
            let v := judge (force != 0) q x all res
            let tot := match res with | some s => showOpt (total x s) | none => "-"
            let dpall := ",".intercalate (all.map showOpt)
            let legal := ",".intercalate ((legalBreaks x).map toString)
            s!"verdict={v} cand={checkCands x cs} algo={algoField x a} trace={traceField (force != 0) q x} thm={thmField (force != 0) q x all a} best={showOpt (minOpt all)} total={tot} dpall={dpall} legal={legal}"
          | none => "bad-request:cands"
        | _ => "bad-request:result"
      | _ => "bad-request:inst"
    | _ => "bad-request:ints"
  | "passes" :: ws =>
    match ints? ws with
    | some l => handlePasses l
    | none => "bad-request:ints"
  | _ => "bad-request"

end DrvC04

def main : IO Unit := Proto.main DrvC04.handle
