import TexcraftModel.Util.Proto
import TexcraftModel.Model.C04

/-! Driver for C04. One request kind:

`judge <force> <q> <inst> <k> b1..bk <m> (a L pf b bad pen dem art)*`

* `force` 0/1 = `force_solution`; `q` = looseness; `k = -1` means the implementation returned `None`.
* `<inst>` = `tol emerg linePen hyphPen exHyphPen adj dbl fin  lw lst lso lsh  rw rst rso rsh  nW w..  nI items..`
  items: `0 w` box | `1` inert | `2 w st so sh` glue | `3 e w` kern | `4 p` penalty |
  `5 npre pre.. npost post.. r` disc | `6 after` math.
* candidates: every `log_feasible_breakpoint` of the run: previous break `a` (−1 = start), line
  number `L`, previous fitness class `pf`, break `b`, and the logged badness, penalty, demerits,
  artificial flag.

Reply: `verdict=<ok|skip:reason|bad:reason> cand=<ok|bad:index:what> best=<…> dpall=<…> total=<…>`.
The verdict is the property itself, decided with the proved-optimal reference `dp`. -/
open C04 Proto

namespace DrvC04

def nat? (i : Int) : Option Nat := if i < 0 then none else some i.toNat

def takeNats (c : Cur) : Option (List Int × Cur) := takeList c

def decItem (c : Cur) : Option (Item × Cur) :=
  match c with
  | 0 :: w :: t => some (.box w, t)
  | 1 :: t => some (.inert, t)
  | 2 :: w :: st :: so :: sh :: t => do pure (.glue ⟨w, st, (← nat? so), sh⟩, t)
  | 3 :: e :: w :: t => some (.kern (e != 0) w, t)
  | 4 :: p :: t => some (.penalty p, t)
  | 5 :: t => do
      let (pre, t) ← takeList t
      let (post, t) ← takeList t
      match t with
      | r :: t => pure (.disc pre post (← nat? r), t)
      | [] => none
  | 6 :: a :: t => some (.math (a != 0), t)
  | _ => none

def decItems : Nat → Cur → Option (List Item × Cur)
  | 0, c => some ([], c)
  | n + 1, c => do
    let (it, c) ← decItem c
    let (its, c) ← decItems n c
    pure (it :: its, c)

def decInst (c : Cur) : Option (Inst × Cur) :=
  match c with
  | tol :: em :: lp :: hp :: ehp :: adj :: dbl :: fin :: lw :: lst :: lso :: lsh :: rw :: rst :: rso :: rsh :: t => do
    let (ws, t) ← takeList t
    match t with
    | n :: t =>
      let (items, t) ← decItems (← nat? n) t
      let p : Params := { linePenalty := lp, hyphenPenalty := hp, exHyphenPenalty := ehp, adjDemerits := adj,
                          doubleHyphenDemerits := dbl, finalHyphenDemerits := fin,
                          leftSkip := ⟨lw, lst, (← nat? lso), lsh⟩, rightSkip := ⟨rw, rst, (← nat? rso), rsh⟩,
                          emergencyStretch := em, tolerance := tol, widths := ws }
      pure ({ items := items, p := p }, t)
    | [] => none
  | _ => none

def showOpt : Option Int → String
  | none => "none"
  | some d => toString d

def abs (i : Int) : Int := if i < 0 then -i else i

/-- A conservative bound on any total the implementation can form (it works in `i32` with
`AWFUL_BAD = 2^30 − 1` as infinity): instances that could exceed it are outside the domain. -/
def demBound (x : Inst) : Int :=
  let lines : Int := (legalBreaks x).length
  let capTol := if x.p.tolerance < 10001 then x.p.tolerance else 10001
  let d0 := abs x.p.linePenalty + (if capTol < 0 then 0 else capTol)
  let d1 := if 10000 ≤ d0 then 10000 else d0
  let maxPen : Int := (legalBreaks x).foldl (fun m b =>
    match breakInfo x b with
    | some (p, _) => if -10000 < p ∧ m < abs p then abs p else m
    | none => m) 0
  let perLine := d1 * d1 + maxPen * maxPen + abs x.p.finalHyphenDemerits + abs x.p.doubleHyphenDemerits + abs x.p.adjDemerits
  lines * perLine + abs x.p.adjDemerits

def fitOf (i : Int) : Fit := Fit.ofIdx i.toNat

structure CandLog where
  a : Option Nat
  L : Nat
  pf : Fit
  b : Nat
  bad : Int
  pen : Int
  dem : Int
  art : Bool

def decCands : Nat → Cur → Option (List CandLog)
  | 0, [] => some []
  | 0, _ => none
  | n + 1, a :: l :: pf :: b :: bad :: pen :: dem :: art :: t => do
    let rest ← decCands n t
    pure ({ a := if a < 0 then none else some a.toNat, L := (← nat? l), pf := fitOf pf, b := (← nat? b),
            bad := bad, pen := pen, dem := dem, art := art != 0 } :: rest)
  | _, _ => none

/-- Compare one logged candidate line with the specification's rating of the same line. -/
def checkCand (x : Inst) (c : CandLog) : Option String :=
  match breakInfo x c.b with
  | none => some "break-not-legal"
  | some (p, _) =>
    if p ≠ c.pen then some "penalty"
    else
      let r := rate (lineTotals x c.a c.b) (lineWidth x.p.widths c.L)
      if r.1 ≠ c.bad then some "badness"
      else if !c.art ∧ demerits x c.a c.pf c.b r.1 r.2 ≠ c.dem then some "demerits"
      else none

def checkCands (x : Inst) (cs : List CandLog) : String :=
  let rec go (i : Nat) : List CandLog → String
    | [] => "ok"
    | c :: t => match checkCand x c with
      | some w => s!"bad:{i}:{w}"
      | none => go (i + 1) t
  go 0 cs

/-- `all` must be `dpAllFast x` (= `dpAll x` by `C04.dpAllFast_eq`). -/
def judge (force : Bool) (q : Int) (x : Inst) (all : List (Option Int)) (res : Option (List Nat)) : String :=
  if x.p.widths.isEmpty then "skip:no-widths"
  else if !monotone x then "skip:nonmonotone"
  else if 1073741823 ≤ demBound x then "skip:demerits-may-overflow"
  else
    let best := minOpt all       -- = dpBest x
    if q = 0 then
      match res, best with
      | none, none => "ok"
      | none, some _ => "bad:missed-solution"
      | some s, none => if force then "skip:forced-infeasible" else
          (match total x s with | some _ => "bad:model-inconsistent" | none => "bad:infeasible-answer")
      | some s, some d =>
        match total x s with
        | none => "bad:infeasible-answer"
        | some t => if t = d then "ok" else if d < t then "bad:suboptimal" else "bad:model-inconsistent"
    else
      match best with
      | none =>
        (match res with
         | none => "ok"
         | some _ => if force then "skip:forced-infeasible" else "bad:infeasible-answer")
      | some _ =>
        match bestCountsOf all with
        | [bc] =>
          let target := looseTargetOf all bc q
          let exact : Bool := (target : Int) = (bc : Int) + q
          (match res with
           | none => if force then "bad:missed-solution" else if exact then "bad:missed-solution" else "ok"
           | some s =>
             match total x s with
             | none => "bad:infeasible-answer"
             | some t =>
               if !force ∧ !exact then "bad:looseness-not-exact-but-returned"
               else if s.length ≠ target then "bad:wrong-line-count"
               else if some t = all[target]?.join then "ok" else "bad:suboptimal-for-line-count")
        | _ => "skip:ambiguous-best-line-count"

def handle (line : String) : String :=
  match words line with
  | "judge" :: ws =>
    match ints? ws with
    | some (force :: q :: rest) =>
      match decInst rest with
      | some (x, k :: t) =>
        let resAndRest : Option (Option (List Nat) × Cur) :=
          if k < 0 then some (none, t) else
            match takeN k.toNat t with
            | some (bs, t') => some (some (bs.map Int.toNat), t')
            | none => none
        match resAndRest with
        | some (res, m :: t') =>
          match decCands m.toNat t' with
          | some cs =>
            let all := dpAllFast x
            let v := judge (force != 0) q x all res
            let tot := match res with | some s => showOpt (total x s) | none => "-"
            let dpall := ",".intercalate (all.map showOpt)
            let legal := ",".intercalate ((legalBreaks x).map toString)
            s!"verdict={v} cand={checkCands x cs} best={showOpt (minOpt all)} total={tot} dpall={dpall} legal={legal}"
          | none => "bad-request:cands"
        | _ => "bad-request:result"
      | _ => "bad-request:inst"
    | _ => "bad-request:ints"
  | _ => "bad-request"

end DrvC04

def main : IO Unit := Proto.main DrvC04.handle
