import TexcraftModel.Util.Proto
import TexcraftModel.Model.C06
import TexcraftModel.Model.C06Spec
import TexcraftModel.Model.C06Text

/-! Driver for C06. One request per line; every reply is `<model> | <spec>`.

* `ps <s>`                         print + scan back one scaled value
* `psr <start> <step> <count>`     the same for a range (one reply word per value)
* `pschk <s> <neg> <ip> <d…>`      spec verdict on a *real* printed form
* `fractab <lo> <hi>`              fraction digit strings for `lo ≤ fr < hi` (model)
* `int <signs> <radix> <digits>`   integer constant; `inti <signs> <i>` internal integer
* `dim <signs> <head> <unit>`      dimension
* `glue <part> [plus <part>] [minus <part>]`, `glue <signs> G w st so sh sho`
* `gp w st so sh sho`              print a glue (and scan the printed form back)
* `op <adv|mul|div> <int|dim|glue> …`

Words: signs = word over `p m s` or `_`; digits = hex digits or `_`;
head = `K <radix> <digits> <-|.digits>` | `P <digits>` | `I <i>` | `D <d>`;
unit = `fil<k>` | `vi <v>` | `vd <v>` | `vg <v>` | `em` | `ex` | `pt` … `sp` | `bad`. -/
open C06 Proto

namespace DrvC06

def hexVal (c : Char) : Option Nat :=
  if '0' ≤ c ∧ c ≤ '9' then some (c.toNat - 48)
  else if 'A' ≤ c ∧ c ≤ 'F' then some (c.toNat - 55)
  else none

def digits? (w : String) : Option (List Nat) :=
  if w = "_" then some [] else w.toList.mapM hexVal

def signs? (w : String) : Option (List Bool) :=
  if w = "_" then some []
  else w.toList.mapM fun c => if c = 'm' then some true else if c = 'p' ∨ c = 's' then some false else none

def showRes : Res Int → String
  | .ok v => s!"ok:{v}" | .overflow => "overflow" | .panic => "panic"

def showDigits (ds : List Nat) : String := String.ofList (ds.map digitChar)

def b2s (b : Bool) : String := if b then "1" else "0"

/-- Spec verdict on a printed form `p` claimed for `s`: it scans back to `s` by Knuth's
scanner (§448/§452 with unit pt), it is TeX's own output, and no shorter fraction scans to `s`. -/
def scanBackSpec (p : Printed) : Spec.SR :=
  Spec.scanDimen p.neg (.const 10 (Nat.toDigits 10 p.ip |>.map (fun c => c.toNat - 48)) (some p.frac)) (.phys .pt)

/-- Is there a fraction with fewer digits (but at least one) that scans to the same value? Only
the two neighbours `⌊fr·10^k/2^16⌋`, `⌈…⌉` at each shorter length can (monotonicity); the
theorem `print_shortest` covers *all* shorter digit strings. -/
def digitsOfLen : Nat → Nat → List Nat
  | 0, _ => []
  | k + 1, n => digitsOfLen k (n / 10) ++ [n % 10]

def shorterExists (s : Int) (p : Printed) : Bool :=
  let k := p.frac.length
  let fr := s.natAbs % 65536
  (List.range k).any fun j =>
    j ≥ 1 && [fr * 10 ^ j / 65536, fr * 10 ^ j / 65536 + 1].any fun n =>
      n < 10 ^ j && scanBackSpec { p with frac := digitsOfLen j n } == .ok s 0 0

def verdict (s : Int) (p : Printed) : String :=
  let rt := scanBackSpec p == .ok s 0 0
  let tex := decide (p = Spec.printScaled s)
  s!"rt={b2s rt} short={b2s (!shorterExists s p)} tex={b2s tex}"

def psOne (s : Int) : String :=
  match printScaled s with
  | none => "panic"
  | some p => s!"{C06.Text.toksString (C06.Text.renderToks p)}:{showRes (scanNoUnits p)}:{b2s (scanBackSpec p == .ok s 0 0 && decide (p = Spec.printScaled s))}"

def punit? : String → Option TUnit
  | "pt" => some .pt | "pc" => some .pc | "in" => some .inch | "bp" => some .bp
  | "cm" => some .cm | "mm" => some .mm | "dd" => some .dd | "cc" => some .cc | "sp" => some .sp
  | _ => none

/-- Parse a head; returns the head and the remaining words. -/
def head? : List String → Option (Head × List String)
  | "K" :: r :: ds :: fr :: t => do
    let r ← parseInt? r
    let ds ← digits? ds
    let fr ← if fr = "-" then some none else (digits? (if fr = "." then "_" else (fr.drop 1).toString)).map some
    pure (.const r ds fr, t)
  | "P" :: fr :: t => do pure (.point (← digits? fr), t)
  | "I" :: i :: t => do pure (.int (← parseInt? i), t)
  | "D" :: d :: t => do pure (.dimen (← parseInt? d), t)
  | _ => none

def unit? : List String → Option (UnitSpec × List String)
  | "vi" :: v :: t => do pure (.internal (← parseInt? v), t)
  | "vd" :: v :: t => do pure (.internal (← parseInt? v), t)
  | "vg" :: v :: t => do pure (.internal (← parseInt? v), t)
  | "em" :: t => some (.internal C06.Text.emWidth, t)
  | "ex" :: t => some (.internal C06.Text.exHeight, t)
  | "bad" :: t => some (.bad, t)
  | "fil0" :: t => some (.fil 0, t)
  | "fil1" :: t => some (.fil 1, t)
  | "fil2" :: t => some (.fil 2, t)
  | "fil3" :: t => some (.fil 3, t)
  | "fil4" :: t => some (.fil 4, t)
  | "fil5" :: t => some (.fil 5, t)
  | w :: t => do pure (.phys (← punit? w), t)
  | [] => none

def showSRes : SRes → String
  | .ok s => s!"ok {s.val} {s.nerr} {s.order}"
  | .panic => "panic"

def showSR : Spec.SR → String
  | .ok v e o => s!"ok {v} {e} {o}"
  | .undef => "undef"

/-- `<signs> <head> <unit>` → (neg, head, unit, rest) -/
def part? : List String → Option (Bool × Head × UnitSpec × List String)
  | sg :: t => do
    let sg ← signs? sg
    let (h, t) ← head? t
    match h with
    | .dimen _ => pure (negParity sg, h, .bad, t)
    | _ =>
      let (u, t) ← unit? t
      pure (negParity sg, h, u, t)
  | [] => none

def glue? : List Int → Option Glue
  | [w, st, so, sh, sho] => some ⟨w, st, so.toNat, sh, sho.toNat⟩
  | _ => none

def showGlue (g : Glue) : String := s!"{g.width} {g.stretch} {g.stretchOrder} {g.shrink} {g.shrinkOrder}"

def specPrintGlue (g : Glue) : String :=
  (Spec.printScaled g.width).render ++ "pt"
    ++ (if g.stretch ≠ 0 then " plus " ++ (Spec.printScaled g.stretch).render ++ orderStr g.stretchOrder else "")
    ++ (if g.shrink ≠ 0 then " minus " ++ (Spec.printScaled g.shrink).render ++ orderStr g.shrinkOrder else "")

def us (s : String) : String := s.replace " " "_"

/-- Spec side of a glue scan from its three parts. -/
def specGlue (w : Spec.SR) (p m : Option Spec.SR) : String :=
  match Spec.scanGlue w p m with
  | some (g, e) => s!"ok {g.width} {g.stretch} {g.stretchOrder} {g.shrink} {g.shrinkOrder} {e}"
  | none => "undef"

def modelGlue (w : SRes) (p m : Option SRes) : String :=
  match scanGlue w p m with
  | some (g, e) => s!"ok {showGlue g} {e}"
  | none => "panic"

def showAR (sh : α → String) : ARes α → String
  | .set a => s!"set {sh a}"
  | .error => "error"

def showSAR (sh : α → String) : Spec.AR α → String
  | .set a => s!"set {sh a}"
  | .error => "error"
  | .undef => "undef"

def negGlueModel (g : Glue) (neg : Bool) : String :=
  if !neg then s!"ok {showGlue g} 0"
  else s!"ok {showGlue { g with width := wrap32 (-g.width), stretch := wrap32 (-g.stretch), shrink := wrap32 (-g.shrink) }} 0"

def negGlueSpec (g : Glue) (neg : Bool) : String :=
  if !neg then s!"ok {showGlue g} 0"
  else if Spec.fits (-g.width) && Spec.fits (-g.stretch) && Spec.fits (-g.shrink) then
    s!"ok {showGlue { g with width := -g.width, stretch := -g.stretch, shrink := -g.shrink }} 0"
  else "undef"

/-! ### text requests: `tint|tdim|tglue|tidx <flag> <text>` (`_` = space, `!` = a control sequence;
flag bit 0: upper-case `A`–`F` have category other) -/

open C06.Text in
def toks (flag : Nat) (w : String) : List Tok :=
  w.toList.map fun c =>
    if c = '_' then .space
    else if c = '!' then .cs
    else .ch c (c.isAlpha && !(flag % 2 == 1 && 'A' ≤ c && c ≤ 'F'))

open C06.Text in
def untoks (t : List Tok) : String :=
  if t.isEmpty then "~"
  else String.ofList (t.map fun | .ch c _ => c | .space => '_' | .cs => '!')

open C06.Text in
def tintM (p : PInt) : String :=
  match p.const with
  | some (r, ds) => let m := scanInt p.neg r ds; s!"ok {m.1} {m.2} {untoks p.rest}"
  | none => s!"ok 0 1 {untoks p.rest}"

open C06.Text in
def tintS (p : PInt) : String :=
  match p.const with
  | some (r, ds) =>
    match Spec.scanInt p.neg r ds with
    | .ok v e _ => s!"ok {v} {e} {untoks p.rest}"
    | .undef => "undef"
  | none => s!"ok 0 1 {untoks p.rest}"

open C06.Text in
def tdimM (p : PDimen) : String :=
  match scanDimen p.neg p.head p.unit with
  | .ok sc => s!"ok {sc.val} {sc.nerr} {sc.order} {untoks p.rest}"
  | .panic => "panic"

open C06.Text in
def tdimS (p : PDimen) : String :=
  match Spec.scanDimen p.neg p.head p.unit with
  | .ok v e o => s!"ok {v} {e} {o} {untoks p.rest}"
  | .undef => "undef"

open C06.Text in
def tglueM (g : PGlue) : String :=
  let w := scanGlueWidth g.width.neg g.width.head g.width.unit
  match scanGlue w (g.plus.map fun d => scanDimen d.neg d.head d.unit) (g.minus.map fun d => scanDimen d.neg d.head d.unit) with
  | some (gl, e) => s!"ok {showGlue gl} {e} {untoks g.rest}"
  | none => "panic"

open C06.Text in
def tglueS (g : PGlue) : String :=
  let w := Spec.scanGlueWidth g.width.neg g.width.head g.width.unit
  let r := specGlue w (g.plus.map fun d => Spec.scanDimen d.neg d.head d.unit) (g.minus.map fun d => Spec.scanDimen d.neg d.head d.unit)
  if r = "undef" then r else s!"{r} {untoks g.rest}"

/-- `\advance\count<index><optional by><integer>`: index, summand, errors, rest. -/
def tidx (dg : C06.Text.DigitFn) (spec : Bool) (t : List C06.Text.Tok) : String :=
  let i := C06.Text.parseInt dg t
  let r0 := C06.Text.kwStart true i.rest
  let r := (C06.Text.keyword "by".toList r0).getD r0
  let v := C06.Text.parseInt dg r
  let val (p : C06.Text.PInt) : Option (Int × Nat) :=
    match p.const with
    | some (rx, ds) =>
      if spec then (match Spec.scanInt p.neg rx ds with | .ok v e _ => some (v, e) | .undef => none)
      else some (scanInt p.neg rx ds)
    | none => some (0, 1)
  match val i, val v with
  | some (n, e1), some (x, e2) => s!"ok {n} {x} {e1 + e2} {untoks v.rest}"
  | _, _ => "undef"

def handle (line : String) : String :=
  match words line with
  | ["tint", fl, w] =>
    let fl := fl.toNat?.getD 0
    s!"{tintM (C06.Text.parseInt constDigit (toks fl w))} | {tintS (C06.Text.parseInt Spec.constDigit (toks fl w))}"
  | ["tdim", fl, w] =>
    let fl := fl.toNat?.getD 0
    -- M: the code (keywords skip blanks, the `l` loop does not); S: TeX; third: the code before C06-j
    s!"{tdimM (C06.Text.parseDimen constDigit true false false false (toks fl w))} | {tdimS (C06.Text.parseDimen Spec.constDigit true true false false (toks fl w))} | {tdimM (C06.Text.parseDimen constDigit false false false false (toks fl w))}"
  | ["tglue", fl, w] =>
    let fl := fl.toNat?.getD 0
    s!"{tglueM (C06.Text.parseGlue constDigit true false false (toks fl w))} | {tglueS (C06.Text.parseGlue Spec.constDigit true true false (toks fl w))} | {tglueM (C06.Text.parseGlue constDigit false false false (toks fl w))}"
  | ["tidx", fl, w] =>
    let fl := fl.toNat?.getD 0
    s!"{tidx constDigit false (toks fl w)} | {tidx Spec.constDigit true (toks fl w)}"
  | "seq" :: ty :: a :: ops =>
    let rec dec : List String → Option (List ArithOp)
      | [] => some []
      | o :: b :: t => do
        let b ← parseInt? b
        let op ← (match o with
          | "adv" => some (ArithOp.advance b) | "mul" => some (ArithOp.multiply b) | "div" => some (ArithOp.divide b)
          | _ => none)
        let r ← dec t
        pure (op :: r)
      | _ => none
    match parseInt? a, dec ops with
    | some a, some ops =>
      let m := if ty = "int" then runReg stepInt a ops else runReg stepDimen a ops
      let s := if ty = "int" then Spec.runReg Spec.stepInt a ops else Spec.runReg Spec.stepDimen a ops
      let ss := match s with | some r => s!"ok {r.1} {r.2}" | none => "undef"
      s!"ok {m.1} {m.2} | {ss}"
    | _, _ => "bad-request"
  | ["kx", x, n, dd] =>
    match parseInt? x, parseInt? n, parseInt? dd with
    | some x, some n, some dd =>
      let m := match xnOverD x n dd with
        | .ok (q, r) => s!"ok {q} {r}" | .overflow => "overflow" | .panic => "panic"
      let sp := Spec.xnOverD x n dd
      let s := if 0 ≤ n ∧ n ≤ 65536 ∧ 0 < dd ∧ dd ≤ 65536 then (if sp.2.2 then "overflow" else s!"ok {sp.1} {sp.2.1}") else "undef"
      s!"{m} | {s}"
    | _, _, _ => "bad-request"
  | ["kn", x, n, y] =>
    match parseInt? x, parseInt? n, parseInt? y with
    | some x, some n, some y =>
      let m := match nxPlusY x n y with
        | .ok r => s!"ok {r}" | .overflow => "overflow" | .panic => "panic"
      let sp := Spec.nxPlusY n x y
      let s := if -maxDimen ≤ y ∧ y ≤ maxDimen then (if sp.err then "overflow" else s!"ok {sp.val}") else "undef"
      s!"{m} | {s}"
    | _, _, _ => "bad-request"
  | ["ks", ip, f, u] =>
    match parseInt? ip, parseInt? f, punit? u with
    | some ip, some f, some u =>
      let m := match scaledNew ip f u with
        | .ok r => s!"ok {r}" | .overflow => "overflow" | .panic => "panic"
      let s := if 0 ≤ ip ∧ 0 ≤ f ∧ f ≤ 65536 then
          (match Spec.units ip f false 0 (.phys u) with
           | .ok v e _ => if e > 0 then "overflow" else s!"ok {v}"
           | .undef => "undef")
        else "undef"
      s!"{m} | {s}"
    | _, _, _ => "bad-request"
  | ["kf", ds] =>
    match digits? ds with
    | some ds => s!"ok {fromDecimalDigits ds} | ok {Spec.roundDecimals ds}"
    | none => "bad-request"
  | ["ki", i] =>
    match parseInt? i with
    | some i => (match fromInteger i with | some v => s!"ok {v} | ok {v}" | none => "overflow | overflow")
    | none => "bad-request"
  | ["ps", s] =>
    match parseInt? s with
    | some s => psOne s
    | none => "bad-request"
  | ["psr", a, b, c] =>
    match parseInt? a, parseInt? b, parseNat? c with
    | some a, some b, some c => " ".intercalate ((List.range c).map fun (k : Nat) => psOne (a + b * (k : Int)))
    | _, _, _ => "bad-request"
  | "pschk" :: s :: neg :: ip :: ds =>
    match parseInt? s, parseNat? ip, nats? ds with
    | some s, some ip, some ds => verdict s { neg := neg = "1", ip := ip, frac := ds }
    | _, _, _ => "bad-request"
  | ["fractab", a, b] =>
    match parseNat? a, parseNat? b with
    | some a, some b =>
      " ".intercalate ((List.range (b - a)).map fun k =>
        match printFrac ((a + k : Nat) : Int) with
        | some ds => showDigits ds
        | none => "panic")
    | _, _ => "bad-request"
  | ["int", sg, r, ds] =>
    match signs? sg, parseInt? r, digits? ds with
    | some sg, some r, some ds =>
      let m := scanInt (negParity sg) r ds
      s!"ok {m.1} {m.2} 0 | {showSR (Spec.scanInt (negParity sg) r ds)}"
    | _, _, _ => "bad-request"
  | ["inti", sg, i] =>
    match signs? sg, parseInt? i with
    | some sg, some i =>
      s!"ok {scanIntInternal (negParity sg) i} 0 0 | {showSR (Spec.scanIntInternal (negParity sg) i)}"
    | _, _ => "bad-request"
  | "dim" :: t =>
    match part? t with
    | some (neg, h, u, []) => s!"{showSRes (scanDimen neg h u)} | {showSR (Spec.scanDimen neg h u)}"
    | _ => "bad-request"
  | ["glue", sg, "G", w, st, so, sh, sho] =>
    match signs? sg, ints? [w, st, so, sh, sho] >>= glue? with
    | some sg, some g => s!"{negGlueModel g (negParity sg)} | {negGlueSpec g (negParity sg)}"
    | _, _ => "bad-request"
  | "glue" :: t =>
    match part? t with
    | none => "bad-request"
    | some (neg, h, u, t) =>
      let mw := scanGlueWidth neg h u
      let sw := Spec.scanGlueWidth neg h u
      let plus? : Option (Option (Bool × Head × UnitSpec) × List String) :=
        match t with
        | "plus" :: t => (part? t).map fun (n, h, u, t) => (some (n, h, u), t)
        | t => some (none, t)
      match plus? with
      | none => "bad-request"
      | some (pl, t) =>
        let minus? : Option (Option (Bool × Head × UnitSpec) × List String) :=
          match t with
          | "minus" :: t => (part? t).map fun (n, h, u, t) => (some (n, h, u), t)
          | t => some (none, t)
        match minus? with
        | some (mi, []) =>
          let mp := pl.map fun (n, h, u) => scanDimen n h u
          let mm := mi.map fun (n, h, u) => scanDimen n h u
          let sp := pl.map fun (n, h, u) => Spec.scanDimen n h u
          let sm := mi.map fun (n, h, u) => Spec.scanDimen n h u
          s!"{modelGlue mw mp mm} | {specGlue sw sp sm}"
        | _ => "bad-request"
  | "gp" :: t =>
    match ints? t >>= glue? with
    | some g =>
      -- M: the token printer of Model/C06Text.lean (what `the_text_roundtrip` / `the_glue_text_roundtrip`
      -- are about), cross-checked against the string printer `printGlue`
      let m := C06.Text.toksString (C06.Text.renderGlueToks g)
      let m := if (printGlue g) == some m then m else s!"model-printers-disagree:{m}"
      s!"{us m} | {us (specPrintGlue g)}"
    | none => "bad-request"
  | ["op", o, "int", a, b] =>
    match parseInt? a, parseInt? b with
    | some a, some b =>
      match o with
      | "adv" => s!"{showAR toString (advanceInt a b)} | {showSAR toString (Spec.advanceInt a b)}"
      | "mul" => s!"{showAR toString (multiplyInt a b)} | {showSAR toString (Spec.multiplyInt a b)}"
      | "div" => s!"{showAR toString (divideInt a b)} | {showSAR toString (Spec.divide a b)}"
      | _ => "bad-request"
    | _, _ => "bad-request"
  | ["op", o, "dim", a, b] =>
    match parseInt? a, parseInt? b with
    | some a, some b =>
      match o with
      | "adv" => s!"{showAR toString (advanceInt a b)} | {showSAR toString (Spec.advanceInt a b)}"
      | "mul" => s!"{showAR toString (multiplyDimen a b)} | {showSAR toString (Spec.multiplyDimen a b)}"
      | "div" => s!"{showAR toString (divideInt a b)} | {showSAR toString (Spec.divide a b)}"
      | _ => "bad-request"
    | _, _ => "bad-request"
  | "op" :: o :: "glue" :: t =>
    match ints? t with
    | some [w, st, so, sh, sho, w2, st2, so2, sh2, sho2] =>
      let a : Glue := ⟨w, st, so.toNat, sh, sho.toNat⟩
      let b : Glue := ⟨w2, st2, so2.toNat, sh2, sho2.toNat⟩
      if o = "adv" then s!"{showAR showGlue (advanceGlue a b)} | {showSAR showGlue (Spec.advanceGlue a b)}"
      else "bad-request"
    | some [w, st, so, sh, sho, n] =>
      let a : Glue := ⟨w, st, so.toNat, sh, sho.toNat⟩
      match o with
      | "mul" => s!"{showAR showGlue (multiplyGlue a n)} | {showSAR showGlue (Spec.multiplyGlue a n)}"
      | "div" => s!"{showAR showGlue (divideGlue a n)} | {showSAR showGlue (Spec.divideGlue a n)}"
      | _ => "bad-request"
    | _ => "bad-request"
  | _ => "bad-request"

end DrvC06

def main : IO Unit := Proto.main DrvC06.handle
