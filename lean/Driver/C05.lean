import TexcraftModel.Util.Proto
import TexcraftModel.Model.C05
import TexcraftModel.Model.C05Raw
import TexcraftModel.Model.C05Text

/-! Driver for C05 (lig/kern programs). All fields are integers; `-1` = none / boundary.

Program `P` = `rb lb nE (c e)* nK k* nI (next right kind x y)*`
  kind 0 = kern x, 1 = kernAt x, 2 = lig char x form y (0..7 in `PostLig` order), 3 = redirect x.
Word `W` = `n c*`.  Items `I` = `n item*`, item = `0 c` | `1 k` | `2 c lb rb n o*`.

Requests:
* `txt font P | n c*`, `txw font P | n c*` → the nodes of `addText` / `addWord` (Model/C05Text.lean):
                        `0 c font` | `1 k` | `2 c font lb rb n o*` | `3` (discretionary) | `4` (glue)
* `dec …`            → the program read from raw TFM lig/kern words (`decodeFont`), see `handleDec`
* `tab P`            → `pair*` each `l r 0` (loops) or `l r 1 n op* c lig` (op = `0 k` | `1 c lig`),
                        pairs in candidate order, then `| S` spec verdict per pair (0 = terminates,
                        1 = never terminates within the state-space bound), then `| K` Knuth's
                        reported representatives `l r` in order, then `| n` the number of pairs whose
                        first matching instruction is a redirect word (never executed)
* `run P | W | I`    → `m g s t | M-items | S-glyphs` : `m` = I equals M's items, `g` = glyphs of I
                        equal `interp`, `s` = originals of I spell W, `t` = node types of I (character /
                        ligature) equal `interpT`; (`g`/`t` = 2: S out of fuel)
* `runs P | W | I | W | I …` → one `mgst` verdict (as a 4-digit word) per word
* `runn`, `runsn`      → the same for `RunOptions { disable_left_boundary: true }` (`runNoLB`, `seqNoLB`)
* `runsz P | W | I …`  → as `runs` for a very large program: no table is built, only the pairs the words
                        use are evaluated (`mkLazy`)
* `runx nolb ov …`, `runsx nolb ov …` → the same for any `RunOptions` (`runOpt`; S = `interp` on
                        `withRb p (effRb p ov)`); `ov = -1` = no override
-/
open C05 Proto

namespace DrvC05

def optNat (i : Int) : Option Nat := if i < 0 then none else some i.toNat
def encOpt : Option Nat → Int | none => -1 | some n => n

def postOf : Int → Option PostLig
  | 0 => some .bothNowhere | 1 => some .bothInserted | 2 => some .bothRight
  | 3 => some .rightInserted | 4 => some .rightRight | 5 => some .leftNowhere
  | 6 => some .leftInserted | 7 => some .neither | _ => none

def decInstrs : Nat → Cur → Option (List Instr × Cur)
  | 0, c => some ([], c)
  | n + 1, nx :: r :: k :: x :: y :: t => do
    let op ← match k with
      | 0 => some (RawOp.kern x)
      | 1 => some (RawOp.kernAt x.toNat)
      | 2 => (postOf y).map (RawOp.lig x.toNat)
      | 3 => some (RawOp.redirect x.toNat)
      | _ => none
    let (is, t) ← decInstrs n t
    pure ({ next := optNat nx, right := r.toNat, op } :: is, t)
  | _, _ => none

def pairsOf : List Int → List (Nat × Nat)
  | a :: b :: t => (a.toNat, b.toNat) :: pairsOf t
  | _ => []

def decProg (c : Cur) : Option (Program × Cur) :=
  match c with
  | rb :: lb :: nE :: t => do
    let (es, t) ← takeN (2 * nE.toNat) t
    let (ks, t) ← takeList t
    match t with
    | nI :: t =>
      let (is, t) ← decInstrs nI.toNat t
      pure ({ instrs := is, lbEntry := optNat lb, rb := optNat rb, entries := pairsOf es, kerns := ks }, t)
    | [] => none
  | _ => none

def decItems : Nat → Cur → Option (List Item × Cur)
  | 0, c => some ([], c)
  | n + 1, 0 :: c :: t => do let (is, t) ← decItems n t; pure (.ch c.toNat :: is, t)
  | n + 1, 1 :: k :: t => do let (is, t) ← decItems n t; pure (.kern k :: is, t)
  | n + 1, 2 :: c :: lb :: rb :: t => do
    let (o, t) ← takeList t
    let (is, t) ← decItems n t
    pure (.lig c.toNat (o.map Int.toNat) (lb != 0) (rb != 0) :: is, t)
  | _, _ => none

def b2i (b : Bool) : Int := if b then 1 else 0

def encItem : Item → List Int
  | .ch c => [0, c]
  | .kern k => [1, k]
  | .lig c o lb rb => [2, (c : Int), b2i lb, b2i rb, (o.length : Int)] ++ o.map Int.ofNat

def encItems (l : List Item) : List Int := (l.length : Int) :: (l.map encItem).flatten

def encIOp : IOp → List Int
  | .kern k => [0, k]
  | .ch c => [1, (c.c : Int), b2i c.lig]

def encGlyph : Glyph → List Int
  | .glyph c => [0, c]
  | .kern k => [1, k]

/-- Split a word list at `|`. -/
def splitBar (ws : List String) : List (List String) :=
  ws.foldr (fun w acc =>
    if w == "|" then [] :: acc
    else match acc with
      | h :: t => (w :: h) :: t
      | [] => [[w]]) [[]]

/-! ### A cached table: the same function as `C05.table p`, evaluated once per pair.
Index `l * 256 + r` with `l = 256` for the boundary; characters are `u8`. -/

def dedup (l : List (Option Nat × Nat)) : List (Option Nat × Nat) :=
  let rec go (seen : Array Bool) : List (Option Nat × Nat) → List (Option Nat × Nat)
    | [] => []
    | (a, b) :: t =>
      let i := (match a with | none => 256 | some x => x) * 256 + b
      if i < seen.size then
        if seen[i]! then go seen t else (a, b) :: go (seen.set! i true) t
      else (a, b) :: go seen t
  go (Array.replicate (257 * 256) false) l

def ruledPairs (p : Program) : List (Option Nat × Nat) :=
  (dedup (candPairs p)).filter (fun pr => (rule p pr.1 pr.2).isSome)

/-- Distinct characters that can occur in a two-element run (for the state-space bound). -/
def alphabetSize (p : Program) : Nat :=
  let cs := p.instrs.flatMap (fun i => i.right :: (match i.op with | .lig c _ => [c] | _ => []))
  (cs ++ p.entries.map (·.1)).eraseDups.length + 2

structure Cache where
  p : Program
  arr : Array (Option Repl)
  acyclic : Bool
  k : Nat
  /-- for very large programs: no table is built, every lookup evaluates `table` (with `bound p`
  computed once) — only the pairs the words use are ever evaluated -/
  lazyB : Option Nat := none

def idx (l : Option Nat) (r : Nat) : Nat := (match l with | none => 256 | some x => x) * 256 + r

/-- `table p l r` with `bound p` computed once. -/
def tableB (b : Nat) (p : Program) (l : Option Nat) (r : Nat) : Option Repl :=
  match pairResult b p l r with
  | some (some rep) => some rep
  | _ => none

def mkCache (p : Program) : Cache :=
  let b := bound p
  let prs := ruledPairs p
  let arr := prs.foldl
    (fun (a : Array (Option Repl)) pr =>
      let i := idx pr.1 pr.2
      if i < a.size then a.set! i (tableB b p pr.1 pr.2) else a)
    (Array.replicate (257 * 256) none)
  { p, arr, acyclic := prs.all (fun pr => (arr[idx pr.1 pr.2]?).join.isSome), k := alphabetSize p }

/-- The cache for a large program: nothing is precomputed. The program is declared acyclic by
the caller (the generator builds it from kerns and non-pending ligature forms only). -/
def mkLazy (p : Program) : Cache :=
  { p, arr := #[], acyclic := true, k := 12, lazyB := some (bound p) }

def Cache.tbl (c : Cache) (l : Option Nat) (r : Nat) : Option Repl :=
  match c.lazyB with
  | some b => tableB b c.p l r
  | none =>
  if r < 256 && (match l with | none => true | some x => x < 256) then
    (c.arr[idx l r]?).join
  else table c.p l r

/-! ### S verdicts -/

/-- A run on a two-element sequence never holds more than three elements; a terminating run
never repeats a state, so `3·k³ + 4` steps decide termination (capped for large fonts, where
the cap is reported as "terminates not shown" = 2). -/
def specPairLoops (p : Program) (k : Nat) (l : Option Nat) (r : Nat) : Int :=
  let full := 3 * k * k * k + 4
  let fuel := min full 20000
  let x := match l with | none => El.lb | some c => El.ch c
  match interp p fuel [x, El.ch r] with
  | some _ => 0
  | none => if fuel = full then 1 else 2

/-- Fuel for `interp` on a word. When every pair terminates, each cursor advance costs at
most one pair evaluation (bounded by the state-space bound); when some pair loops the run
is only judged if it happens to finish, so a small budget is enough. -/
def runFuel (k : Nat) (acyclic : Bool) (w : List Nat) : Nat :=
  (w.length + 2) * (if acyclic then min (3 * k * k * k + 4) 20000 else 200) + 8

/-! ### Knuth's representative (compiler.rs:400–460), M only -/

def findIdx (r : Nat) : Nat → Nat → List Instr → Option Nat
  | _, _, [] => none
  | 0, at_, i :: rest =>
    if i.right = r then some at_
    else match i.next with
      | none => none
      | some inc => findIdx r inc (at_ + 1) rest
  | s + 1, at_, _ :: rest => findIdx r s (at_ + 1) rest

def instrIndex (p : Program) (l : Option Nat) (r : Nat) : Nat :=
  match entryOf p l with
  | none => 0
  | some e => (findIdx r e 0 p.instrs).getD 0

/-- The child a looping pair is blocked on: its first dependency that does not resolve. -/
def blockedChild (b : Nat) (p : Program) (l : Option Nat) (r : Nat) : Option (Option Nat × Nat) :=
  match rule p l r with
  | some (.lig z post) =>
    match post with
    | .bothNowhere =>
      match pairResult b p l z with
      | none => some (l, z)
      | some c1 => some (some (applyChild (leftC l) ⟨z, true⟩ c1).2.c, r)
    | .bothInserted | .rightInserted => some (some z, r)
    | .leftNowhere => some (l, z)
    | _ => none
  | _ => none

abbrev Pair := Option Nat × Nat

def leftKey : Option Nat → Nat | none => 1000 | some c => c

def insertSorted (key : Pair → Nat × Nat) (x : Pair) : List Pair → List Pair
  | [] => [x]
  | y :: t =>
    let kx := key x; let ky := key y
    if kx.1 < ky.1 || (kx.1 == ky.1 && kx.2 < ky.2) then x :: y :: t else y :: insertSorted key x t

def follow : Nat → List (Pair × Pair) → Pair → List Pair → List (Pair × Pair) × Pair × List Pair
  | 0, m, node, seen => (m, node, seen)
  | f + 1, m, node, seen =>
    match m.find? (·.1 == node) with
    | none => (m, node, seen)
    | some (_, child) => follow f (m.filter (·.1 != node)) child (node :: seen)

def knuthReport (p : Program) : List Pair :=
  let b := bound p
  let loopers := (ruledPairs p).filter (fun pr => (pairResult b p pr.1 pr.2).isNone)
  let n2c : List (Pair × Pair) := loopers.filterMap (fun pr => (blockedChild b p pr.1 pr.2).map (pr, ·))
  let ordered := loopers.foldr (insertSorted (fun pr => (leftKey pr.1, instrIndex p pr.1 pr.2))) []
  let rec go (m : List (Pair × Pair)) : List Pair → List Pair
    | [] => []
    | node :: rest =>
      let r := follow (m.length + 1) m node []
      if r.2.2.contains r.2.1 then r.2.1 :: go r.1 rest else go r.1 rest
  go n2c ordered

/-! ### Raw TFM words -/

def encPost : PostLig → Int
  | .bothNowhere => 0 | .bothInserted => 1 | .bothRight => 2 | .rightInserted => 3
  | .rightRight => 4 | .leftNowhere => 5 | .leftInserted => 6 | .neither => 7

def encInstr (i : Instr) : List Int :=
  [encOpt i.next, (i.right : Int)] ++ (match i.op with
    | .kern k => [0, k, 0]
    | .kernAt x => [1, (x : Int), 0]
    | .lig c q => [2, (c : Int), encPost q]
    | .redirect u => [3, (u : Int), 1])

def encProg (p : Program) : List Int :=
  [encOpt p.rb, encOpt p.lbEntry, (p.entries.length : Int)] ++ (p.entries.map (fun e => [(e.1 : Int), (e.2 : Int)])).flatten
    ++ [(p.kerns.length : Int)] ++ p.kerns ++ [(p.instrs.length : Int)] ++ (p.instrs.map encInstr).flatten

def wordsOf : List Int → List Word
  | a :: b :: c :: d :: t => ⟨a.toNat, b.toNat, c.toNat, d.toNat⟩ :: wordsOf t
  | _ => []

/-- `dec nW (skip next op rem)* nT (c e)* nK k*` → the program `decodeFont` reads (in the `P` encoding),
then `|` and, per (left, right) candidate pair of that program, whether `rule` of the decoded program
equals `texRule` on the raw words (`1`/`0`; always `1` by `raw_rule` when the tags are distinct). -/
def handleDec (c : Cur) : String :=
  match c with
  | nW :: t =>
    match takeN (4 * nW.toNat) t with
    | some (ws, t) =>
      match t with
      | nT :: t =>
        match takeN (2 * nT.toNat) t with
        | some (ts, t) =>
          match takeList t with
          | some (ks, []) =>
            let f : RawFont := { words := wordsOf ws, kerns := ks, tags := pairsOf ts }
            let p := decodeFont f
            let agree := (dedup (candPairs p)).all (fun pr => rule p pr.1 pr.2 == texRule f pr.1 pr.2)
            s!"{showInts (encProg p)} | {b2i agree}"
          | _ => "bad-request"
        | none => "bad-request"
      | [] => "bad-request"
    | none => "bad-request"
  | [] => "bad-request"

/-! ### The text preprocessor -/

def encNode : HNode → List Int
  | .ch c f => [0, (c : Int), (f : Int)]
  | .kern k => [1, k]
  | .lig c f o lb rb => [2, (c : Int), (f : Int), b2i lb, b2i rb, (o.length : Int)] ++ o.map Int.ofNat
  | .disc => [3]
  | .glue => [4]

/-- `addWord` / `addWords` / `addText` of `Model/C05Text.lean` over the cached table. -/
def addWordC (c : Cache) (font : Nat) (w : List Nat) : List HNode :=
  (runCompiled c.tbl c.p.rb w).flatMap (nodesOf font)

def addWordsC (c : Cache) (font : Nat) : Bool → List (List Nat) → List HNode
  | _, [] => []
  | pending, w :: rest => (if pending then [HNode.glue] else []) ++ addWordC c font w ++ addWordsC c font true rest

def addTextC (c : Cache) (font : Nat) (t : List Nat) : List HNode :=
  addWordsC c font (match t with | x :: _ => isWs x | [] => true) (splitWs t)

/-- `txt font P | n c*` → nodes of `add_text`; `txw font P | n c*` → nodes of `add_word`. -/
def handleTxt (word : Bool) (font : String) (ws : List String) : String :=
  match font.toNat?, splitBar ws with
  | some f, [pw, t] =>
    match ints? pw >>= decProg, ints? t >>= takeList with
    | some (p, []), some (txt, []) =>
      let c := mkCache p
      let nodes := if word then addWordC c f (txt.map Int.toNat) else addTextC c f (txt.map Int.toNat)
      showInts (nodes.map encNode).flatten
    | _, _ => "bad-request"
  | _, _ => "bad-request"

/-! ### Requests -/

def handleTab (p : Program) : String :=
  let prs := ruledPairs p
  let b := bound p
  let body := prs.map (fun pr =>
    match pairResult b p pr.1 pr.2 with
    | some (some rep) =>
      [encOpt pr.1, (pr.2 : Int), 1, (rep.1.length : Int)] ++ (rep.1.map encIOp).flatten ++ [(rep.2.c : Int), b2i rep.2.lig]
    | _ => [encOpt pr.1, (pr.2 : Int), 0])
  let k := alphabetSize p
  let sv := prs.map (fun pr => specPairLoops p k pr.1 pr.2)
  let kn := (knuthReport p).map (fun pr => [encOpt pr.1, (pr.2 : Int)])
  let ph := ((dedup (candPairs p)).filter (fun pr =>
    match rawRule p pr.1 pr.2 with
    | some i => (match i.op with | .redirect _ => true | _ => false)
    | none => false)).length
  s!"{showInts body.flatten} | {showInts sv} | {showInts kn.flatten} | {ph}"

/-- `runNoLB` over the cached table. -/
def runNoLBc (c : Cache) (p : Program) : List Nat → List Item
  | [] => []
  | x :: w => goL c.tbl p.rb w (some x) true none

/-- `runOpt p (!lb) ov w` over the cached table, and S = `interp` on the program whose right
boundary is the effective one (`withRb p (effRb p ov)`). -/
def verdict (lb : Bool) (ov : Option Nat) (p : Program) (c : Cache) (w : List Nat) (items : List Item) : Int × List Item × Option (List Glyph) :=
  let rb := effRb p ov
  let p' := withRb p rb
  let m := if lb then runCompiled c.tbl rb w else runNoLBc c p' w
  -- one run of the typed machine; the untyped glyph sequence is its erasure (`typed_refines`)
  let seq := if lb then seqOf p' w else seqNoLB p' w
  let ts := interpT p' (runFuel c.k c.acyclic w) (seq.map (fun e => (e, false)))
  let s := ts.map (List.map TGlyph.erase)
  let mOk := b2i (m == items)
  let gOk : Int := match s with | none => 2 | some g => b2i (g == glyphs items)
  let sOk := b2i (originals items == w)
  let tOk : Int := match ts with | none => 2 | some g => b2i (g == items.map Item.tglyph)
  (mOk * 1000 + gOk * 100 + sOk * 10 + tOk, m, s)

def decWI (a b : List String) : Option (List Nat × List Item) := do
  let w ← ints? a >>= takeList
  let i ← ints? b
  match i with
  | n :: t =>
    let (items, rest) ← decItems n.toNat t
    if rest.isEmpty && w.2.isEmpty then pure (w.1.map Int.toNat, items) else none
  | [] => none

def handleRuns (lb : Bool) (ov : Option Nat) (p : Program) (lazy : Bool := false) : List (List String) → List String
  | a :: b :: t =>
    let c := if lazy then mkLazy p else mkCache p
    let rec go : List (List String) → List String
      | a :: b :: t =>
        (match decWI a b with
         | some (w, items) => toString (verdict lb ov p c w items).1
         | none => "bad") :: go t
      | _ => []
    go (a :: b :: t)
  | _ => []

def handleRun (lb : Bool) (ov : Option Nat) (ws : List String) : String :=
    match splitBar ws with
    | [pw, a, b] =>
      match ints? pw >>= decProg, decWI a b with
      | some (p, []), some (w, items) =>
        let v := verdict lb ov p (mkCache p) w items
        let m := v.1 / 1000; let g := v.1 / 100 % 10; let s := v.1 / 10 % 10; let t := v.1 % 10
        let sg := match v.2.2 with
          | none => "none"
          | some g => showInts (g.map encGlyph).flatten
        s!"{m} {g} {s} {t} | {showInts (encItems v.2.1)} | {sg}"
      | _, _ => "bad-request"
    | _ => "bad-request"

def handleRunsReq (lb : Bool) (ov : Option Nat) (ws : List String) (lazy : Bool := false) : String :=
    match splitBar ws with
    | pw :: rest =>
      match ints? pw >>= decProg with
      | some (p, []) => " ".intercalate (handleRuns lb ov p lazy rest)
      | _ => "bad-request"
    | _ => "bad-request"

def handle (line : String) : String :=
  match words line with
  | "tab" :: ws =>
    match ints? ws >>= decProg with
    | some (p, []) => handleTab p
    | _ => "bad-request"
  | "dec" :: ws =>
    match ints? ws with
    | some c => handleDec c
    | none => "bad-request"
  | "txt" :: font :: ws => handleTxt false font ws
  | "txw" :: font :: ws => handleTxt true font ws
  | "run" :: ws => handleRun true none ws
  | "runn" :: ws => handleRun false none ws
  | "runs" :: ws => handleRunsReq true none ws
  | "runsn" :: ws => handleRunsReq false none ws
  | "runx" :: nolb :: ov :: ws =>
    match nolb.toInt?, ov.toInt? with
    | some a, some b => handleRun (a == 0) (optNat b) ws
    | _, _ => "bad-request"
  | "runsz" :: ws => handleRunsReq true none ws true
  | "runsx" :: nolb :: ov :: ws =>
    match nolb.toInt?, ov.toInt? with
    | some a, some b => handleRunsReq (a == 0) (optNat b) ws
    | _, _ => "bad-request"
  | _ => "bad-request"

end DrvC05

def main : IO Unit := Proto.main DrvC05.handle
