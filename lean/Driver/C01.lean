import TexcraftModel.Util.Proto
import TexcraftModel.Model.C01

/-! Driver for C01. One request = one program (all integers after the verb):

`p <ops>` with the ops encoded as
* `0` = `{`, `1` = `}`
* `2 pre kind idx val`           assignment (`kind`: 0 count 1 dimen 2 skip 3 toks 4 catcode 5 mathcode 6 param;
                                 only `pre % 10` counts: the tens digit tells the harness how to write it)
* `3 pre tk tn dk a b`           definition of target `(tk, tn)` (`tk`: 0 control sequence, 1 active char; only
                                 `pre % 10` = number of `\global`s counts: the other digits spell the whole prefix
                                 run `\global`/`\long`/`\outer` for the harness);
                                 `dk`: 0 `\def` body a, 1 `\gdef` body a, 2 `\chardef` a, 3 `\mathchardef` a,
                                 4 `\countdef` a, 5 `\toksdef` a, 6 `\let`=char a, 7 `\let`=`\relax`,
                                 8 `\let`=font selector a, 9 `\let`=target `(a, b)`
* `4 pre f`                      font selector `f` (only `pre % 10` counts)
* `5 0 kind idx` / `5 1 tk tn` / `5 2 0 0`   read a variable / a command / the current font
* `6 c` the character `c` typed in the source, `7 tk tn` the name used as a command, `8 pre tk tn c`
  `\let`=the character `c` (surface items, `Model/C01.lean` `Item`: what they do is decided by `elabItem` in
  the current state); output word `sk` = a name whose meaning is neither a character token nor a font
  selector (the harness does not write it), annotation of a character / a name used as a command: `B` begins a group, `Z` ends one, `T` typeset,
  `F` selects a font, `S` not written

Only `kind % 10` counts in `2 …` and `5 0 …` (the tens digit of the kind of a read, like the
hundreds of `pre`, tells the harness to go through a register alias).

Reply: `S | T | V0 | … | V7 | X` (`X` = the outputs of TeX's own specification `Spec.runTeX`, which differs
from `S` only after a `\\let` from an undefined name, annotation `N`): the specification's outputs, one annotation per op (`L`/`G` effective
scope of an assignment, `N` a `\let` to an undefined name, `-` otherwise; on an assignment to / a read
of a variable followed by `:` and the names `c<n>`/`x<n>` that are register aliases of that variable
in the specification's current environment; then `D<maxdepth>`), and the
model's outputs for the 8 variants (bit 0 = fixA, bit 1 = fixB, bit 2 = fixC; `V7` = the fixed code).
Output words: `u` unit, `EG` no group to end, `EP` cannot be prefixed, `PANIC`; `d` / `i<x>` variable
(initial / value), `?` undefined command, `m<n>` macro, `c<n>` char, `M<n>` math char,
`v<kind>.<idx>=<d|x>` register alias, `t<c>` character token, `F<f>` font selector, `P<p>` primitive,
`f<n>` current font. `bad` = malformed request. -/
open C01 C20 Proto

namespace DrvC01

def kindOf : Int → Option VKind
  | 0 => some .count | 1 => some .dimen | 2 => some .skip | 3 => some .toks
  | 4 => some .catcode | 5 => some .mathcode | 6 => some .param | _ => none

def kindCode : VKind → Nat
  | .count => 0 | .dimen => 1 | .skip => 2 | .toks => 3 | .catcode => 4 | .mathcode => 5 | .param => 6

def targetOf (tk tn : Int) : Option CTarget :=
  if tn < 0 then none
  else if tk = 0 then some (.cs tn.toNat) else if tk = 1 then some (.act tn.toNat) else none

def defOf (dk a b : Int) : Option Def :=
  if a < 0 ∨ b < 0 then none else
  match dk with
  | 0 => some (.mac a.toNat) | 1 => some (.gmac a.toNat) | 2 => some (.chr a.toNat)
  | 3 => some (.mchr a.toNat) | 4 => some (.cdef a.toNat) | 5 => some (.tdef a.toNat)
  | 6 => some (.ltok (tokCode a.toNat 11)) | 7 => some (.lbuiltin (.prim 0)) | 8 => some (.lbuiltin (.font a.toNat))
  | 9 => (targetOf a b).map .lcs
  | _ => none

def decOps : Nat → Cur → Option (List Op)
  | _, [] => some []
  | 0, _ => none
  | fuel + 1, 0 :: t => (decOps fuel t).map (Op.beginGroup :: ·)
  | fuel + 1, 1 :: t => (decOps fuel t).map (Op.endGroup :: ·)
  | fuel + 1, 2 :: pre :: k :: i :: x :: t => do
    let kind ← kindOf (k % 10)
    if pre < 0 ∨ i < 0 then none
    let rest ← decOps fuel t
    pure (Op.assign (pre.toNat % 10) ⟨kind, i.toNat⟩ x :: rest)
  | fuel + 1, 3 :: pre :: tk :: tn :: dk :: a :: b :: t => do
    let tgt ← targetOf tk tn
    let d ← defOf dk a b
    if pre < 0 then none
    let rest ← decOps fuel t
    pure (Op.define (pre.toNat % 10) tgt d :: rest)
  | fuel + 1, 4 :: pre :: f :: t => do
    if pre < 0 ∨ f < 0 then none
    let rest ← decOps fuel t
    pure (Op.selectFont (pre.toNat % 10) f.toNat :: rest)
  | fuel + 1, 5 :: 0 :: k :: i :: t => do
    let kind ← kindOf (k % 10)
    if i < 0 then none
    let rest ← decOps fuel t
    pure (Op.read (.var ⟨kind, i.toNat⟩) :: rest)
  | fuel + 1, 5 :: 1 :: tk :: tn :: t => do
    let tgt ← targetOf tk tn
    let rest ← decOps fuel t
    pure (Op.read (.cmd tgt) :: rest)
  | fuel + 1, 5 :: 2 :: _ :: _ :: t => (decOps fuel t).map (Op.read .font :: ·)
  | _, _ => none

/-- Items: the ops, `6 c` a character, `7 tk tn` a name used as a command, `8 pre tk tn c` `\let`=character. -/
def decItems : Nat → Cur → Option (List Item)
  | _, [] => some []
  | 0, _ => none
  | fuel + 1, 6 :: c :: t => if c < 0 then none else (decItems fuel t).map (Item.chr c.toNat :: ·)
  | fuel + 1, 7 :: tk :: tn :: t => do
    let tgt ← targetOf tk tn
    let rest ← decItems fuel t
    pure (Item.exec tgt :: rest)
  | fuel + 1, 8 :: pre :: tk :: tn :: c :: t => do
    let tgt ← targetOf tk tn
    if pre < 0 ∨ c < 0 then none
    let rest ← decItems fuel t
    pure (Item.letChr (pre.toNat % 10) tgt c.toNat :: rest)
  | fuel + 1, c => do
    -- one op: find its width by decoding a single op
    let w : Nat := match c with
      | 0 :: _ => 1 | 1 :: _ => 1 | 2 :: _ => 5 | 3 :: _ => 7 | 4 :: _ => 3 | 5 :: _ => 4 | _ => 0
    if w = 0 ∨ c.length < w then none
    let ops ← decOps 2 (c.take w)
    match ops with
    | [o] =>
      let rest ← decItems fuel (c.drop w)
      pure (Item.op o :: rest)
    | _ => none

def showOptVal : Option Val → String
  | none => "d"
  | some x => toString x

def showOut : Out → String
  | .unit => "u"
  | .errNoGroup => "EG"
  | .errPrefix => "EP"
  | .panic => "PANIC"
  | .val none => "d"
  | .val (some x) => "i" ++ toString x
  | .cmd none _ => "?"
  | .cmd (some (.mac n)) _ => "m" ++ toString n
  | .cmd (some (.chr c)) _ => "c" ++ toString c
  | .cmd (some (.mchr n)) _ => "M" ++ toString n
  | .cmd (some (.alias v)) a => "v" ++ toString (kindCode v.kind) ++ "." ++ toString v.idx ++ "=" ++ showOptVal a
  | .cmd (some (.tok c)) _ => "t" ++ toString c
  | .cmd (some (.font f)) _ => "F" ++ toString f
  | .cmd (some (.prim p)) _ => "P" ++ toString p
  | .fnt f => "f" ++ toString f

def showOuts (l : List Out) : String := " ".intercalate (l.map showOut)

/-- The command names (of the harness's vocabulary) that are register aliases of `v` in `e`. -/
def aliasesOf (e : Env) (v : Var) : List String :=
  ((List.range 8).filterMap (fun n =>
      if e.cs n = some (.alias v) then some ("c" ++ toString n) else none)) ++
  ((List.range 4).filterMap (fun n =>
      if e.act n = some (.alias v) then some ("x" ++ toString n) else none))

def withAliases (tag : String) (e : Env) (v : Var) : String :=
  match aliasesOf e v with
  | [] => tag
  | l => tag ++ ":" ++ ",".intercalate l

/-- Annotation of one op in the specification state before it. -/
def annot (s : Spec) : Op → String
  | .assign pre v _ =>
    withAliases (match Spec.effScope s.globalDefs pre with | .loc => "L" | .glob => "G") s.cur v
  | .selectFont pre _ => match Spec.effScope s.globalDefs pre with | .loc => "L" | .glob => "G"
  | .define pre _ d =>
    match Spec.resolveDef s.cur d with
    | none => "N"
    | some _ => match defScope d (Spec.effScope s.globalDefs pre) with | .loc => "L" | .glob => "G"
  | .read (.var v) => withAliases "-" s.cur v
  | _ => "-"

def annots : Spec → List Op → Nat → List String
  | _, [], dmax => ["D" ++ toString dmax]
  | s, op :: ops, dmax =>
    let r := s.step op
    if r.2.fatal then [annot s op, "D" ++ toString dmax]
    else annot s op :: annots r.1 ops (max dmax r.1.saved.length)

/-- Output word of one item: an `exec` that is not written by the harness is `sk`. -/
def itemWord (it : Item) (e : Elab) (o : Out) : String :=
  match it, e with
  | .exec _, .out .unit => "sk"
  | _, _ => showOut o

def traceM (cfg : Variant) : VMState → List Item → List String
  | _, [] => []
  | m, it :: its =>
    let e := elabItem (catOf m) (getCmd m) it
    let r := stepItem cfg m it
    if r.2.fatal then [itemWord it e r.2] else itemWord it e r.2 :: traceM cfg r.1 its

def traceS (tex : Bool) : Spec → List Item → List String
  | _, [] => []
  | s, it :: its =>
    let e := elabItem (Spec.catOf s.cur) (Spec.getCmd s.cur) it
    let r := if tex then s.stepItemTeX it else s.stepItem it
    if r.2.fatal then [itemWord it e r.2] else itemWord it e r.2 :: traceS tex r.1 its

/-- Annotation of one item: of its op, or `E`/`S` for a name used as a command (written / not). -/
def annotItem (s : Spec) (it : Item) : String :=
  match it, elabItem (Spec.catOf s.cur) (Spec.getCmd s.cur) it with
  | .op o, _ => annot s o
  | .letChr .., .op o => annot s o
  | .exec _, .out .unit => "S"
  | .exec _, .op (.selectFont ..) => "F"
  | _, .op .beginGroup => "B"
  | _, .op .endGroup => "Z"
  | _, _ => "T"

def annotsItems : Spec → List Item → Nat → List String
  | _, [], dmax => ["D" ++ toString dmax]
  | s, it :: its, dmax =>
    let r := s.stepItem it
    if r.2.fatal then [annotItem s it, "D" ++ toString dmax]
    else annotItem s it :: annotsItems r.1 its (max dmax r.1.saved.length)

def variantOf (i : Nat) : Variant := ⟨i % 2 = 1, (i / 2) % 2 = 1, (i / 4) % 2 = 1⟩

def handle (line : String) : String :=
  match words line with
  | "p" :: ws =>
    match ints? ws with
    | none => "bad"
    | some c =>
      match decItems (c.length + 1) c with
      | none => "bad"
      | some its =>
        let sp := " ".intercalate (traceS false Spec.init its)
        let t := " ".intercalate (annotsItems Spec.init its 0)
        let vs := (List.range 8).map (fun i => " ".intercalate (traceM (variantOf i) VMState.init its))
        let x := " ".intercalate (traceS true Spec.init its)
        " | ".intercalate (sp :: t :: vs ++ [x])
  | _ => "bad"

end DrvC01

def main : IO Unit := Proto.main DrvC01.handle
