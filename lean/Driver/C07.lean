import TexcraftModel.Util.Proto
import TexcraftModel.Model.C07
import TexcraftModel.Model.C07Scan

/-! Driver for C07. All requests are a command word followed by integers.

* `cond <Text>` → `n=<#flatten> | <M outcome> | <S: select> | <S with the pre-fix \ifodd>`
  `<M outcome>` = `ok -<stack, bottom→top, letters T/E/S> <groups> <plain codes…>` or `err <name>`
* `surf <flat tokens>` → `<surfaceL (loosen false l)> | <surfaceAll l>` as `num` tokens, or `none` if an operand is not a decimal constant
* `num <surface tokens>` → `<code machine outcome> | <TeX-rule machine outcome> | nc=<neverClosesWhileScanning>` (operand scanning on tokens, Model/C07Scan)
* `tok <flat tokens>` → `<M outcome> | <M outcome with the pre-fix \\ifodd>`
* `ev <test>` → `m=<0/1> s=<0/1> pre=<0/1>` (condition evaluation: model, spec, pre-fix formula)
* `xa <nmacros> (<nparams> <len> <body items…>)* <height> <stream…>`
     → `<simple outcome> | <optimized outcome> | <TeX reference (marked \\noexpand) outcome>`, outcome = `ok <toks…>` / `err <code>` / `fuel`

Encodings (the flags `al`, `sty` only matter to the renderer in the harness and are skipped):

    plain p          : p ≥ 0 → other p ; -1 → { ; -2 → }
    test             : kind al sty ops…   kind 0 tt | 1 ff | 2 odd n | 3 num a r b (r 0 <,1 =,2 >) | 4 case n
    Text             : Item* 0
    Item             : 1 p | 2 test Text al | 3 test Text al Text al | 4 al sty n Cases
    Cases            : 1 Text al | 2 Text al Text al | 3 Text al Cases
    flat token       : 1 p | 2 test | 3 al (else) | 4 al (or) | 5 al (fi)
    XTok             : 0 name (xa) | 1 (noexpand) | 2 k (cs) | 3 c (char)
    body item        : 0 XTok | 1 i (parameter i, 0-based)
-/
open C07 Proto

namespace DrvC07

def decPlain (p : Int) : Option Plain :=
  if p ≥ 0 then some (.other p.toNat) else if p = -1 then some .bg else if p = -2 then some .eg else none

def decRel : Int → Option Rel | 0 => some .lt | 1 => some .eq | 2 => some .gt | _ => none

/-- `kind al sty ops…` (kinds 0..3) -/
def decTest (c : Cur) : Option (Test × Cur) :=
  match c with
  | 0 :: _ :: _ :: t => some (.tt, t)
  | 1 :: _ :: _ :: t => some (.ff, t)
  | 2 :: _ :: _ :: n :: t => some (.odd n, t)
  | 3 :: _ :: _ :: a :: r :: b :: t => do pure (.num a (← decRel r) b, t)
  | _ => none

mutual
def decText : Nat → Cur → Option (Text × Cur)
  | 0, _ => none
  | fuel + 1, c =>
    match c with
    | 0 :: t => some (.nil, t)
    | 1 :: p :: t => do
      let p ← decPlain p
      let (rest, t) ← decText fuel t
      pure (.plain p rest, t)
    | 2 :: t => do
      let (test, t) ← decTest t
      let (a, t) ← decText fuel t
      match t with
      | _ :: t =>
        let (rest, t) ← decText fuel t
        pure (.ifThen test a rest, t)
      | [] => none
    | 3 :: t => do
      let (test, t) ← decTest t
      let (a, t) ← decText fuel t
      match t with
      | _ :: t =>
        let (b, t) ← decText fuel t
        match t with
        | _ :: t =>
          let (rest, t) ← decText fuel t
          pure (.ifElse test a b rest, t)
        | [] => none
      | [] => none
    | 4 :: _ :: _ :: n :: t => do
      let (cs, t) ← decCases fuel t
      let (rest, t) ← decText fuel t
      pure (.caseOf n cs rest, t)
    | _ => none
def decCases : Nat → Cur → Option (Cases × Cur)
  | 0, _ => none
  | fuel + 1, c =>
    match c with
    | 1 :: t => do
      let (b, t) ← decText fuel t
      match t with
      | _ :: t => pure (.last b, t)
      | [] => none
    | 2 :: t => do
      let (b, t) ← decText fuel t
      match t with
      | _ :: t =>
        let (e, t) ← decText fuel t
        match t with
        | _ :: t => pure (.lastElse b e, t)
        | [] => none
      | [] => none
    | 3 :: t => do
      let (b, t) ← decText fuel t
      match t with
      | _ :: t =>
        let (cs, t) ← decCases fuel t
        pure (.more b cs, t)
      | [] => none
    | _ => none
end

def decFlat : Nat → Cur → Option (List Tok)
  | 0, _ => none
  | fuel + 1, c =>
    match c with
    | [] => some []
    | 1 :: p :: t => do
      let p ← decPlain p
      pure (p.tok :: (← decFlat fuel t))
    | 2 :: 4 :: _ :: _ :: n :: t => do pure (.ifcase n :: (← decFlat fuel t))
    | 2 :: t => do
      let (test, t) ← decTest t
      pure (.iff test :: (← decFlat fuel t))
    | 3 :: _ :: t => do pure (.els :: (← decFlat fuel t))
    | 4 :: _ :: t => do pure (.orr :: (← decFlat fuel t))
    | 5 :: _ :: t => do pure (.fi :: (← decFlat fuel t))
    | _ => none

def encOut : List Tok → List Int
  | [] => []
  | .other n :: r => (n : Int) :: encOut r
  | .bg :: r => -1 :: encOut r
  | .eg :: r => -2 :: encOut r
  | _ :: r => -9 :: encOut r   -- cannot happen: only plain tokens are delivered

def errName : Err → String
  | .unexpectedElse => "unexpected-else"
  | .unexpectedOr => "unexpected-or"
  | .unexpectedFi => "unexpected-fi"
  | .eofFalse => "eof-false"
  | .eofCase => "eof-case"
  | .eofOr => "eof-or"
  | .eofElse => "eof-else"
  | .noGroupToEnd => "no-group-to-end"

def kindLetter : BranchKind → Char | .tru => 'T' | .els => 'E' | .switch => 'S'

/-- `ok -<stack bottom→top as T/E/S> <groups> <delivered plain codes…>` -/
def showM : Except Err St → String
  | .ok s => s!"ok -{String.ofList (s.stack.reverse.map kindLetter)} {s.groups} {showInts (encOut s.out)}".trimAscii.toString
  | .error e => s!"err {errName e}"

def b2i (b : Bool) : Int := if b then 1 else 0

/-- Diagnostic only: the tree with every `\ifodd` decided by the pre-fix Rust formula. -/
def preTest : Test → Test
  | .odd n => if ifoddPreFix n then .tt else .ff
  | t => t

def preTok : Tok → Tok
  | .iff c => .iff (preTest c)
  | t => t

mutual
def preText : Text → Text
  | .nil => .nil
  | .plain p r => .plain p (preText r)
  | .ifThen c a r => .ifThen (preTest c) (preText a) (preText r)
  | .ifElse c a b r => .ifElse (preTest c) (preText a) (preText b) (preText r)
  | .caseOf n cs r => .caseOf n (preCases cs) (preText r)
def preCases : Cases → Cases
  | .last b => .last (preText b)
  | .lastElse b e => .lastElse (preText b) (preText e)
  | .more b cs => .more (preText b) (preCases cs)
end

/-! ### `\expandafter` streams -/

def decXTok (c : Cur) : Option (XTok × Cur) :=
  match c with
  | 0 :: n :: t => if n < 0 then none else some (.xa n.toNat, t)
  | 1 :: t => some (.noexp, t)
  | 2 :: k :: t => if k < 0 then none else some (.cs k.toNat, t)
  | 3 :: ch :: t => if ch < 0 then none else some (.ch ch.toNat, t)
  | _ => none

def decXToks : Nat → Cur → Option (List XTok)
  | 0, _ => none
  | fuel + 1, c =>
    match c with
    | [] => some []
    | _ => do
      let (t, c) ← decXTok c
      pure (t :: (← decXToks fuel c))

def decBody : Nat → Cur → Option (List BodyItem × Cur)
  | 0, c => some ([], c)
  | n + 1, c =>
    match c with
    | 0 :: t => do
      let (x, t) ← decXTok t
      let (r, t) ← decBody n t
      pure (.tok x :: r, t)
    | 1 :: i :: t => do
      if i < 0 then none
      let (r, t) ← decBody n t
      pure (.param i.toNat :: r, t)
    | _ => none

def decMacros : Nat → Cur → Option (List Macro × Cur)
  | 0, c => some ([], c)
  | n + 1, c =>
    match c with
    | np :: len :: t => do
      if np < 0 || len < 0 then none
      let (body, t) ← decBody len.toNat t
      let (r, t) ← decMacros n t
      pure ({ nparams := np.toNat, body } :: r, t)
    | _ => none

def encXTok : XTok → List Int
  | .xa n => [0, n]
  | .noexp => [1]
  | .cs k => [2, k]
  | .ch c => [3, c]

def xerrCode : XErr → String
  | .xaEofFirst => "xa-eof-first"
  | .xaEofSecond => "xa-eof-second"
  | .noexpandEof => "noexpand-eof"
  | .other c => s!"other-{c}"

def showX : Option (Except XErr (List XTok)) → String
  | none => "fuel"
  | some (.error e) => s!"err {xerrCode e}"
  | some (.ok ts) => s!"ok {showInts (ts.map encXTok).flatten}".trimAscii.toString

/-! ### Surface programs (operand scanning) -/

/-- Values of the registers `\rA … \rH` that the harness sets up. -/
def regTable : List Int := [0, 1, -1, 7, -2147483648, 2147483647, -3, 100]

/-- `0 itrue 1 ifalse 2 iodd 3 inum 4 icase 5 else 6 or 7 fi | 8 d | 9 - | 10 + | 11 space | 12 r |
13 j (register) | 14 n (other) | 15 { | 16 }` -/
def decUToks : Nat → Cur → Option (List UTok)
  | 0, _ => none
  | fuel + 1, c =>
    match c with
    | [] => some []
    | 0 :: t => do pure (.itrue :: (← decUToks fuel t))
    | 1 :: t => do pure (.ifalse :: (← decUToks fuel t))
    | 2 :: t => do pure (.iodd :: (← decUToks fuel t))
    | 3 :: t => do pure (.inum :: (← decUToks fuel t))
    | 4 :: t => do pure (.icase :: (← decUToks fuel t))
    | 5 :: t => do pure (.els :: (← decUToks fuel t))
    | 6 :: t => do pure (.orr :: (← decUToks fuel t))
    | 7 :: t => do pure (.fi :: (← decUToks fuel t))
    | 8 :: d :: t => do
      if d < 0 || d > 9 then none
      pure (.dig d.toNat :: (← decUToks fuel t))
    | 9 :: t => do pure (.minus :: (← decUToks fuel t))
    | 10 :: t => do pure (.plus :: (← decUToks fuel t))
    | 11 :: t => do pure (.sp :: (← decUToks fuel t))
    | 12 :: r :: t => do pure (.rel (← decRel r) :: (← decUToks fuel t))
    | 13 :: j :: t => do
      if j < 0 then none
      pure (.reg (← regTable[j.toNat]?) :: (← decUToks fuel t))
    | 14 :: n :: t => do
      if n < 0 then none
      pure (.other n.toNat :: (← decUToks fuel t))
    | 15 :: t => do pure (.bg :: (← decUToks fuel t))
    | 16 :: t => do pure (.eg :: (← decUToks fuel t))
    | _ => none

def encRel : Rel → Int | .lt => 0 | .eq => 1 | .gt => 2

def encUTok : UTok → List Int
  | .itrue => [0] | .ifalse => [1] | .iodd => [2] | .inum => [3] | .icase => [4]
  | .els => [5] | .orr => [6] | .fi => [7]
  | .dig d => [8, d] | .minus => [9] | .plus => [10] | .sp => [11]
  | .rel r => [12, encRel r]
  | .reg v => [13, (regTable.idxOf v : Nat)]
  | .other n => [14, n] | .bg => [15] | .eg => [16]

def uerrName : UErr → String
  | .cond e => errName e
  | .expectedNumber => "expected-number"
  | .numberTooBig => "number-too-big"
  | .eofNumber => "eof-number"
  | .expectedRelation => "expected-relation"
  | .unmodelled => "unmodelled"
  | .fuel => "model-out-of-fuel"

def showU : Except UErr USt → String
  | .ok s => s!"ok -{String.ofList (s.stack.reverse.map kindLetter)} {s.groups} {showInts (s.out.map encUTok).flatten}".trimAscii.toString
  | .error e => s!"err {uerrName e}"

def handle (line : String) : String :=
  match words line with
  | "cond" :: ws =>
    match ints? ws with
    | some c =>
      match decText (c.length + 1) c with
      | some (t, []) =>
        let fl := t.flatten
        s!"n={fl.length} | {showM (expandAll fl)} | {showInts (encOut t.selectToks)} | {showInts (encOut (preText t).selectToks)}"
      | _ => "bad-request"
    | none => "bad-request"
  | "surf" :: ws =>
    -- the surface program (Model/C07Scan `surfaceL ∘ loosen false`) of an abstract token list
    match ints? ws with
    | some c =>
      match decFlat (c.length + 1) c with
      | some l =>
        if l.all Tok.operandsOkB then
          s!"{showInts ((surfaceL (loosen false l)).map encUTok).flatten} | {showInts ((surfaceAll l).map encUTok).flatten}"
        else "none"
      | none => "bad-request"
    | none => "bad-request"
  | "num" :: ws =>
    match ints? ws with
    | some c =>
      match decUToks (c.length + 1) c with
      | some l => s!"{showU (urun false {} l)} | {showU (urun true {} l)} | nc={b2i (neverClosesWhileScanning {} l)}"
      | none => "bad-request"
    | none => "bad-request"
  | "tok" :: ws =>
    match ints? ws with
    | some c =>
      match decFlat (c.length + 1) c with
      | some l => s!"{showM (expandAll l)} | {showM (expandAll (l.map preTok))}"
      | none => "bad-request"
    | none => "bad-request"
  | "ev" :: ws =>
    match ints? ws >>= decTest with
    | some (t, []) =>
      s!"m={b2i (evalTest t)} s={b2i (decide t.holds)} pre={b2i (evalTest (preTest t))}"
    | _ => "bad-request"
  | "xa" :: ws =>
    match ints? ws with
    | some (n :: c) =>
      if n < 0 then "bad-request" else
      match decMacros n.toNat c with
      | some (macros, h :: c) =>
        if h < 0 then "bad-request" else
        match decXToks (c.length + 1) c with
        | some stream =>
          let E := corrExpander macros
          let fuel := 20000
          let a := deliverAll E (fun _ => xaSimple E) fuel h.toNat stream
          let b := deliverAll E (xaOptimized E) fuel h.toNat stream
          let c := texDeliverAll macros fuel h.toNat (stream.map (·, false))
          s!"{showX a} | {showX b} | {showX c}"
        | none => "bad-request"
      | _ => "bad-request"
    | _ => "bad-request"
  | _ => "bad-request"

end DrvC07

def main : IO Unit := Proto.main DrvC07.handle
