import TexcraftModel.Util.Proto
import TexcraftModel.Model.C02
import TexcraftModel.Model.C02Stream

/-! Driver for C02 (macro parameters). Tokens are words: `{` `}` `_` (space) `#`, `\c`
(control sequence named by the one character `c`), any other single character = that
character token. Section markers are the upper-case words `P D H N B I O`.

* `s P <prefix> (D <delimiter>)* (H|N) B <items> I <input>` — a macro as the user wrote it
  (`H` = parameter text ends with `#{`; items: token words, `#1`..`#9`, `##`) and the tokens
  following the call. Reply: `<def tokens> | <defParse> | <call> | <callOld> | <spec>`.
* `r <def tokens> I <input>` — raw tokens after `\def\name`. Reply: `<defParse> | <call> | <callOld>`.
* `chk <same sections as s> O <observed tokens>` — spec verdict on an observed result:
  `ok`, `bad`, or `na` (the call does not match: outside the property).
* `chkd <same sections as s> Q <delivered tokens> [X]` — the same for a direct run, where
  only the non-brace tokens are observable (`project`); `X` = "there is no group to end".

Every `ok <tokens>` outcome is followed by a field with its `project`ion.

* `st <sections as s> I <p0> F <p1> F <p2>` — as `s`, but the call is run on the stream model
  (`callS`, `Model/C02Stream.lean`): `p0` is what is left of the current source's lexer, `p1`
  the pending tokens of the enclosing source, `p2` its lexer; the reply has the same fields.

Outcomes print as `ok <tokens>`, `err <name>`, `panic`; the spec as `some <tokens>` / `none`. -/
open C02 Proto

namespace DrvC02

def tokOfWord (w : String) : Option Tok :=
  match w.toList with
  | ['{'] => some .bg
  | ['}'] => some .eg
  | ['_'] => some .sp
  | ['#'] => some .param
  | ['\\', c] => some (.cs c.toNat)
  | [c] => if c.isUpper then none else some (.ch c.toNat)
  | _ => none

def wordOfTok : Tok → String
  | .bg => "{"
  | .eg => "}"
  | .sp => "_"
  | .param => "#"
  | .cs n => String.ofList ['\\', Char.ofNat n]
  | .ch c => String.ofList [Char.ofNat c]

def showToks (l : List Tok) : String := " ".intercalate (l.map wordOfTok)

def itemOfWord (w : String) : Option Item :=
  match w.toList with
  | ['#', '#'] => some .hash
  | ['#', c] => if '1' ≤ c ∧ c ≤ '9' then some (.arg (c.toNat - 49)) else none
  | _ => (tokOfWord w).bind fun t => if t = .param then none else some (.lit t)

def isMarker (w : String) : Bool := w ∈ ["P", "D", "H", "N", "B", "I", "O", "Q"]

/-- Split off the words up to the next marker. -/
def takeSection : List String → List String × List String
  | [] => ([], [])
  | w :: ws => if isMarker w then ([], w :: ws) else
    let (a, b) := takeSection ws
    (w :: a, b)

def parseDelims : Nat → List String → Option (List (List Tok) × List String)
  | 0, _ => none
  | fuel + 1, "D" :: ws =>
    let (sec, rest) := takeSection ws
    match sec.mapM tokOfWord, parseDelims fuel rest with
    | some d, some (ds, rest') => some (d :: ds, rest')
    | _, _ => none
  | _, ws => some ([], ws)

structure Req where
  s : SpecMacro
  inp : List Tok
  obs : Option (List Tok)

def parseSpecReq (ws : List String) : Option Req :=
  match ws with
  | "P" :: ws =>
    let (pre, ws) := takeSection ws
    match pre.mapM tokOfWord, parseDelims (ws.length + 1) ws with
    | some pre, some (delims, hw :: "B" :: ws) =>
      if hw ≠ "H" ∧ hw ≠ "N" then none else
      let (body, ws) := takeSection ws
      match body.mapM itemOfWord, ws with
      | some body, "I" :: ws =>
        let (inp, ws) := takeSection ws
        match inp.mapM tokOfWord with
        | none => none
        | some inp =>
          let s : SpecMacro := ⟨pre, delims, hw = "H", body⟩
          match ws with
          | [] => some ⟨s, inp, none⟩
          | "O" :: ws => (ws.mapM tokOfWord).map fun o => ⟨s, inp, some o⟩
          | "Q" :: ws =>
            -- projected observation; a final `X` = "no group to end"; encoded as a trailing `}`
            if ws.getLast? = some "X" then (ws.dropLast.mapM tokOfWord).map fun o => ⟨s, inp, some (o ++ [.eg])⟩
            else (ws.mapM tokOfWord).map fun o => ⟨s, inp, some o⟩
          | _ => none
      | _, _ => none
    | _, _ => none
  | _ => none

def errName : Err → String
  | .eoiPrefix => "eoi-prefix"
  | .prefixMismatch => "prefix-mismatch"
  | .eoiDelimited n => s!"eoi-delimited-{n}"
  | .eoiUndelimited n => s!"eoi-undelimited-{n}"
  | .eoiBalanced => "eoi-balanced"
  | .eoiParams => "eoi-params"
  | .eoiReplacement => "eoi-replacement"
  | .unexpectedEndGroup => "unexpected-end-group"
  | .tooManyParams => "too-many-params"
  | .badParamNumber => "bad-param-number"
  | .illegalParamNumber => "illegal-param-number"

def showRes (r : Res (List Tok)) : String :=
  match r with
  | .ok l => ("ok " ++ showToks l).trimAscii.toString
  | .err e => "err " ++ errName e
  | .panic => "panic"

def showOpt (r : Option (List Tok)) : String :=
  match r with
  | some l => ("some " ++ showToks l).trimAscii.toString
  | none => "none"

/-- What the main loop of the VM delivers to the character / undefined-command handlers
when it executes a token list: every non-brace token, in order; braces open and close
groups; a `}` with no open group ends the run with "there is no group to end" (`true`).
`\l` (only used by the harness's expandable-token stream, where it is `\def`) followed by a
name and a one-token group is a definition: nothing is delivered. -/
def project : Nat → List Tok → List Tok × Bool
  | _, [] => ([], false)
  | d, .cs 108 :: _ :: .bg :: _ :: .eg :: ts => project d ts   -- `\l` is `\def` in the expandable-token stream: `\l\x{;}` is executed silently
  | d, .bg :: ts => project (d + 1) ts
  | 0, .eg :: _ => ([], true)
  | d + 1, .eg :: ts => project d ts
  | d, t :: ts => let (l, e) := project d ts; (t :: l, e)

def showProj (l : List Tok) : String :=
  let (p, e) := project 0 l
  (showToks p ++ (if e then " X" else "")).trimAscii.toString

def showResP (r : Res (List Tok)) : String :=
  match r with
  | .ok l => s!"{showRes r} | {showProj l}"
  | _ => s!"{showRes r} | -"

/-- The macro's own name, standing between the definition and the call in the source. -/
def nameTok : Tok := .cs 0

/-- defParse on everything that follows `\def\name` in the source (definition text, the
name, the input), then both calls on what follows the name. `overrun` = the definition was
accepted but did not end exactly where the definition text ends. -/
def runModel (defToks inp : List Tok) : String :=
  match defParse (defToks ++ nameTok :: inp) with
  | .ok (m, rest) =>
    if rest = nameTok :: inp then s!"ok | {showResP (call m inp)} | {showResP (callOld m inp)}"
    else "overrun | - | - | - | -"
  | .err e => s!"err {errName e} | - | - | - | -"
  | .panic => "panic | - | - | - | -"

/-- Split a word list at every `F`. -/
def splitF : List String → List (List String)
  | [] => [[]]
  | w :: ws =>
    match splitF ws with
    | [] => [[]]
    | p :: ps => if w = "F" then [] :: p :: ps else (w :: p) :: ps

/-- As `runModel`, but the call runs on the *stream* model (`Model/C02Stream.lean`): the
definition and the call end the current source (`p0` = what is left of its lexer), the
enclosing source has the pending tokens `p1` and `p2` in its lexer; the result is read back
with `readAll`. -/
def runModelS (defToks p0 p1 p2 : List Tok) : String :=
  let inp := p0 ++ p1 ++ p2
  let st : Stream := ⟨⟨[], p0⟩, [⟨p1.reverse, p2⟩]⟩
  let showS (r : Res Stream) : String :=
    match r with
    | .ok st' => showResP (.ok (readAll (st'.flat.length + 1) st'))
    | .err e => showResP (.err e)
    | .panic => showResP .panic
  match defParse (defToks ++ nameTok :: inp) with
  | .ok (m, rest) =>
    if rest = nameTok :: inp then s!"ok | {showS (callS m st)} | {showS (callOldS m st)}"
    else "overrun | - | - | - | -"
  | .err e => s!"err {errName e} | - | - | - | -"
  | .panic => "panic | - | - | - | -"

def handle (line : String) : String :=
  match words line with
  | "s" :: ws =>
    match parseSpecReq ws with
    | some ⟨s, inp, none⟩ =>
      let d := renderDef s
      let sp := specExpand s inp
      s!"{showToks d} | {runModel d inp} | {showOpt sp} | {match sp with | some l => showProj l | none => "-"}"
    | _ => "bad-request"
  | "st" :: ws =>
    -- `st <sections as s> I <p0> F <p1> F <p2>`: the call on the stream model
    let before := ws.takeWhile (· ≠ "I")
    match ws.dropWhile (· ≠ "I") with
    | "I" :: inpWs =>
      match splitF inpWs with
      | [w0, w1, w2] =>
        match w0.mapM tokOfWord, w1.mapM tokOfWord, w2.mapM tokOfWord, parseSpecReq (before ++ "I" :: (w0 ++ w1 ++ w2)) with
        | some p0, some p1, some p2, some ⟨s, inp, none⟩ =>
          let d := renderDef s
          let sp := specExpand s inp
          s!"{showToks d} | {runModelS d p0 p1 p2} | {showOpt sp} | {match sp with | some l => showProj l | none => "-"}"
        | _, _, _, _ => "bad-request"
      | _ => "bad-request"
    | _ => "bad-request"
  | "r" :: ws =>
    let (d, ws) := takeSection ws
    match d.mapM tokOfWord, ws with
    | some d, "I" :: ws =>
      match ws.mapM tokOfWord with
      | some inp => runModel d inp
      | none => "bad-request"
    | _, _ => "bad-request"
  | "chk" :: ws =>
    match parseSpecReq ws with
    | some ⟨s, inp, some obs⟩ =>
      match specExpand s inp with
      | none => "na"
      | some e => if e = obs then "ok" else "bad"
    | _ => "bad-request"
  | "chkd" :: ws =>
    -- `Q <delivered non-brace tokens> [X]`: the observation of a direct run
    match parseSpecReq ws with
    | some ⟨s, inp, some obs⟩ =>
      match specExpand s inp with
      | none => "na"
      | some e =>
        let (p, x) := project 0 e
        if (if x then p ++ [.eg] else p) = obs then "ok" else "bad"
    | _ => "bad-request"
  | _ => "bad-request"

end DrvC02

def main : IO Unit := Proto.main DrvC02.handle
