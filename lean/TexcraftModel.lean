-- Root of the library: importing this builds every model, lemma file and property file.
import TexcraftModel.Util.Proto
