import TexcraftModel.Model.C17
/-! Lemmas for `next_larger_spec` (C17): after the largest node of every cycle has lost its
link, no walk in a finite functional graph has more steps than the graph has edges. -/
namespace C17

theorem it_add (s : Nat → Option Nat) (a b c : Nat) :
    it s (a + b) c = (it s a c).bind (it s b) := by
  induction b with
  | zero => simp [it]
  | succ b ih =>
    have : a + (b + 1) = (a + b) + 1 := by omega
    rw [this, it, ih, Option.bind_assoc]
    rfl

theorem it_succ_left (s : Nat → Option Nat) (k c : Nat) : it s (k + 1) c = (s c).bind (it s k) := by
  have := it_add s 1 k c
  rw [Nat.add_comm] at this
  rw [this]
  simp [it]

theorem it_prefix (s : Nat → Option Nat) (a b c y : Nat) (h : it s (a + b) c = some y) :
    ∃ z, it s a c = some z := by
  rw [it_add] at h
  cases h' : it s a c with
  | none => simp [h'] at h
  | some z => exact ⟨z, rfl⟩

theorem nxt_mem_keys (g : List (Nat × Nat)) (a b : Nat) (h : nxt g a = some b) :
    a ∈ g.map Prod.fst := by
  induction g with
  | nil => simp [nxt] at h
  | cons e t ih =>
    obtain ⟨x, y⟩ := e
    simp only [nxt] at h
    split at h
    · rename_i hx; simp [hx]
    · simp [ih h]

theorem cutNxt_sub (g : List (Nat × Nat)) (c d : Nat) (h : cutNxt g c = some d) : nxt g c = some d := by
  simp only [cutNxt] at h
  split at h
  · simp at h
  · exact h

theorem mem_orbit_of_it (g : List (Nat × Nat)) : ∀ (n m c y : Nat), it (nxt g) m c = some y → 1 ≤ m → m ≤ n →
    y ∈ orbit g n c := by
  intro n
  induction n with
  | zero => intro m c y _ h1 h2; omega
  | succ n ih =>
    intro m c y h h1 h2
    obtain ⟨m', rfl⟩ : ∃ m', m = m' + 1 := ⟨m - 1, by omega⟩
    rw [it_succ_left] at h
    simp only [orbit]
    cases hn : nxt g c with
    | none => simp [hn] at h
    | some d =>
      simp only [hn, Option.bind_some] at h
      by_cases hm : m' = 0
      · subst hm
        simp only [it, Option.some.injEq] at h
        simp [h]
      · exact List.mem_cons_of_mem _ (ih m' d y h (by omega) (by omega))

theorem exists_max (f : Nat → Nat) (i : Nat) : ∀ (j : Nat), i < j →
    ∃ k0, i ≤ k0 ∧ k0 < j ∧ ∀ k, i ≤ k → k < j → f k ≤ f k0 := by
  intro j
  induction j with
  | zero => intro h; omega
  | succ j ih =>
    intro h
    by_cases hij : i = j
    · subst hij
      exact ⟨i, by omega, by omega, fun k h1 h2 => by
        have : k = i := by omega
        subst this; exact Nat.le_refl _⟩
    · obtain ⟨k0, a, b, c⟩ := ih (by omega)
      by_cases hm : f j ≤ f k0
      · exact ⟨k0, a, by omega, fun k h1 h2 => by
          by_cases hk : k = j
          · subst hk; exact hm
          · exact c k h1 (by omega)⟩
      · exact ⟨j, by omega, by omega, fun k h1 h2 => by
          by_cases hk : k = j
          · subst hk; exact Nat.le_refl _
          · have := c k h1 (by omega); omega⟩

/-- A closed walk `f i → f (i+1) → … → f j = f i` of at most `g.length` steps contains a node
that `isCut` marks: its largest. -/
theorem cycle_cut_at (g : List (Nat × Nat)) (f : Nat → Nat) (i j : Nat) (hij : i < j)
    (hp : j - i ≤ g.length)
    (hstep : ∀ k, i ≤ k → k < j → nxt g (f k) = some (f (k + 1))) (heq : f i = f j)
    (k0 : Nat) (h1 : i ≤ k0) (h2 : k0 < j) (hmax : ∀ k, i ≤ k → k < j → f k ≤ f k0) :
    isCut g (f k0) = true := by
  -- walking inside the closed walk
  have walk : ∀ m k, i ≤ k → k + m ≤ j → it (nxt g) m (f k) = some (f (k + m)) := by
    intro m
    induction m with
    | zero => intro k _ _; simp [it]
    | succ m ih =>
      intro k hk hkm
      rw [it, ih k hk (by omega)]
      simp only [Option.bind_some]
      rw [hstep (k + m) (by omega) (by omega)]
      rfl
  -- every node of every orbit from the walk is a node of the walk
  have closed : ∀ n k, i ≤ k → k < j → ∀ z ∈ orbit g n (f k), ∃ k', i ≤ k' ∧ k' < j ∧ z = f k' := by
    intro n
    induction n with
    | zero => intro k _ _ z hz; simp [orbit] at hz
    | succ n ih =>
      intro k hk hkj z hz
      simp only [orbit, hstep k hk hkj] at hz
      by_cases hlast : k + 1 < j
      · rcases List.mem_cons.1 hz with rfl | hz
        · exact ⟨k + 1, by omega, hlast, rfl⟩
        · exact ih (k + 1) (by omega) hlast z hz
      · have e : f (k + 1) = f i := by
          have : k + 1 = j := by omega
          rw [this, heq]
        rw [e] at hz
        rcases List.mem_cons.1 hz with rfl | hz
        · exact ⟨i, by omega, by omega, rfl⟩
        · exact ih i (by omega) hij z hz
  -- the largest node returns to itself within `j - i` steps
  have ret : it (nxt g) ((j - k0) + (k0 - i)) (f k0) = some (f k0) := by
    rw [it_add, walk (j - k0) k0 h1 (by omega)]
    have e1 : k0 + (j - k0) = j := by omega
    rw [e1, ← heq]
    simp only [Option.bind_some]
    rw [walk (k0 - i) i (by omega) (by omega)]
    have e2 : i + (k0 - i) = k0 := by omega
    rw [e2]
  have hmem : f k0 ∈ orbit g g.length (f k0) :=
    mem_orbit_of_it g g.length _ _ _ ret (by omega) (by omega)
  simp only [isCut, Bool.and_eq_true, List.all_eq_true, decide_eq_true_eq]
  refine ⟨by simpa using hmem, ?_⟩
  intro z hz
  have hz' : z ∈ orbit g g.length (f k0) := (List.takeWhile_sublist _).subset hz
  obtain ⟨k', a, b, rfl⟩ := closed g.length k0 h1 h2 z hz'
  exact hmax k' a b

theorem cycle_cut (g : List (Nat × Nat)) (f : Nat → Nat) (i j : Nat) (hij : i < j)
    (hp : j - i ≤ g.length)
    (hstep : ∀ k, i ≤ k → k < j → nxt g (f k) = some (f (k + 1))) (heq : f i = f j) :
    ∃ k, i ≤ k ∧ k < j ∧ isCut g (f k) = true := by
  obtain ⟨k0, h1, h2, hmax⟩ := exists_max f i j hij
  exact ⟨k0, h1, h2, cycle_cut_at g f i j hij hp hstep heq k0 h1 h2 hmax⟩

/-- Pigeonhole: `n > ks.length` values in `ks` contain a repetition. -/
theorem pigeon (ks : List Nat) (f : Nat → Nat) (n : Nat) (hn : ks.length < n)
    (hf : ∀ m, m < n → f m ∈ ks) : ∃ i j, i < j ∧ j < n ∧ f i = f j := by
  apply Classical.byContradiction
  intro hno
  have hnd : ((List.range n).map f).Nodup := by
    rw [List.nodup_iff_pairwise_ne, List.pairwise_iff_getElem]
    intro a b ha hb hab e
    simp only [List.length_map, List.length_range] at ha hb
    simp only [List.getElem_map, List.getElem_range] at e
    exact hno ⟨a, b, hab, hb, e⟩
  have hsub : (List.range n).map f ⊆ ks := by
    intro x hx
    simp only [List.mem_map, List.mem_range] at hx
    obtain ⟨m, hm, rfl⟩ := hx
    exact hf m hm
  have := hnd.length_le_of_subset hsub
  simp at this
  omega

/-- No walk of the cut graph has `g.length + 1` steps. -/
theorem no_long_walk (g : List (Nat × Nat)) (c : Nat) : it (cutNxt g) (g.length + 1) c = none := by
  cases hN : it (cutNxt g) (g.length + 1) c with
  | none => rfl
  | some y =>
    exfalso
    have hdef : ∀ k, k ≤ g.length + 1 → ∃ z, it (cutNxt g) k c = some z := by
      intro k hk
      have e : g.length + 1 = k + (g.length + 1 - k) := by omega
      rw [e] at hN
      exact it_prefix _ _ _ _ _ hN
    let f : Nat → Nat := fun k => (it (cutNxt g) k c).getD 0
    have hf : ∀ k, k ≤ g.length + 1 → it (cutNxt g) k c = some (f k) := by
      intro k hk
      obtain ⟨z, hz⟩ := hdef k hk
      simp [f, hz]
    have hcut : ∀ k, k < g.length + 1 → cutNxt g (f k) = some (f (k + 1)) := by
      intro k hk
      have h1 := hf (k + 1) (by omega)
      rw [it, hf k (by omega)] at h1
      simpa using h1
    have hstep : ∀ k, k < g.length + 1 → nxt g (f k) = some (f (k + 1)) :=
      fun k hk => cutNxt_sub g _ _ (hcut k hk)
    obtain ⟨i, j, hij, hj, he⟩ := pigeon (g.map Prod.fst) f (g.length + 1) (by simp)
      (fun m hm => nxt_mem_keys g _ _ (hstep m hm))
    obtain ⟨k, hk1, hk2, hk3⟩ := cycle_cut g f i j hij (by omega)
      (fun k _ hkj => hstep k (by omega)) he
    have := hcut k (by omega)
    simp [cutNxt, hk3] at this

/-- The chain has as many elements as steps were possible. -/
theorem chain_len (g : List (Nat × Nat)) : ∀ (n c : Nat),
    ∃ y, it (cutNxt g) (chain g n c).length c = some y := by
  intro n
  induction n with
  | zero => intro c; exact ⟨c, by simp [chain, it]⟩
  | succ n ih =>
    intro c
    simp only [chain]
    cases hc : cutNxt g c with
    | none => exact ⟨c, by simp [it]⟩
    | some d =>
      obtain ⟨y, hy⟩ := ih d
      refine ⟨y, ?_⟩
      simp only [List.length_cons]
      rw [it_succ_left, hc]
      simpa using hy

theorem chain_length_le (g : List (Nat × Nat)) (n c : Nat) : (chain g n c).length ≤ g.length := by
  apply Classical.byContradiction
  intro h
  obtain ⟨y, hy⟩ := chain_len g n c
  have e : (chain g n c).length = (g.length + 1) + ((chain g n c).length - (g.length + 1)) := by omega
  rw [e] at hy
  obtain ⟨z, hz⟩ := it_prefix _ _ _ _ _ hy
  rw [no_long_walk] at hz
  simp at hz

/-- If the fuel was not used up, the chain ended at a node without a link in the cut graph. -/
theorem chain_stops (g : List (Nat × Nat)) : ∀ (n c : Nat), (chain g n c).length < n →
    cutNxt g ((chain g n c).getLastD c) = none := by
  intro n
  induction n with
  | zero => intro c h; simp at h
  | succ n ih =>
    intro c h
    cases hc : cutNxt g c with
    | none => simp [chain, hc]
    | some d =>
      simp only [chain, hc, List.length_cons] at h
      have := ih d (by omega)
      simpa [chain, hc, List.getLast?_cons] using this

/-- Consecutive elements of a chain are links of the cut graph (hence of the font). -/
theorem chain_links (g : List (Nat × Nat)) : ∀ (n c : Nat),
    Linked (cutNxt g) (c :: chain g n c) := by
  intro n
  induction n with
  | zero => intro c; simp [chain, Linked]
  | succ n ih =>
    intro c
    cases hc : cutNxt g c with
    | none => simp [chain, hc, Linked]
    | some d =>
      simp only [chain, hc, Linked]
      exact ⟨trivial, ih d⟩

/-- What `isCut` means: the node returns to itself and nothing on the way is larger. -/
theorem cut_meaning (g : List (Nat × Nat)) (c : Nat) : ∀ (n a : Nat), c ∈ orbit g n a →
    (∀ z ∈ (orbit g n a).takeWhile (· != c), z ≤ c) →
    ∃ p, 1 ≤ p ∧ it (nxt g) p a = some c ∧
      ∀ m y, 1 ≤ m → m < p → it (nxt g) m a = some y → y ≤ c := by
  intro n
  induction n with
  | zero => intro a h; simp [orbit] at h
  | succ n ih =>
    intro a hmem hall
    simp only [orbit] at hmem hall
    cases hn : nxt g a with
    | none => simp [hn] at hmem
    | some d =>
      simp only [hn] at hmem hall
      by_cases hd : d = c
      · subst hd
        exact ⟨1, by omega, by simp [it, hn], fun m y h1 h2 => by omega⟩
      · have hne : (d != c) = true := by simpa using hd
        simp only [List.takeWhile_cons, hne, if_true] at hall
        have hmem' : c ∈ orbit g n d := by
          rcases List.mem_cons.1 hmem with h | h
          · exact absurd h.symm hd
          · exact h
        obtain ⟨p, p1, p2, p3⟩ := ih d hmem' (fun z hz => hall z (List.mem_cons_of_mem _ hz))
        refine ⟨p + 1, by omega, by rw [it_succ_left, hn]; simpa using p2, ?_⟩
        intro m y h1 h2 hy
        obtain ⟨m', rfl⟩ : ∃ m', m = m' + 1 := ⟨m - 1, by omega⟩
        rw [it_succ_left, hn] at hy
        simp only [Option.bind_some] at hy
        by_cases hm : m' = 0
        · subst hm
          simp only [it, Option.some.injEq] at hy
          subst hy
          exact hall _ (by simp)
        · exact p3 m' y (by omega) (by omega) hy

theorem isCut_meaning (g : List (Nat × Nat)) (c : Nat) (h : isCut g c = true) :
    ∃ p, 1 ≤ p ∧ it (nxt g) p c = some c ∧ ∀ m y, m < p → it (nxt g) m c = some y → y ≤ c := by
  simp only [isCut, Bool.and_eq_true, List.all_eq_true, decide_eq_true_eq] at h
  obtain ⟨p, p1, p2, p3⟩ := cut_meaning g c g.length c (by simpa using h.1) h.2
  refine ⟨p, p1, p2, ?_⟩
  intro m y hm hy
  by_cases h0 : m = 0
  · subst h0
    simp only [it, Option.some.injEq] at hy
    omega
  · exact p3 m y (by omega) hm hy

theorem linked_mono (s s' : Nat → Option Nat) (h : ∀ a b, s a = some b → s' a = some b) :
    ∀ l, Linked s l → Linked s' l := by
  intro l
  induction l with
  | nil => intro _; simp [Linked]
  | cons a t ih =>
    cases t with
    | nil => intro _; simp [Linked]
    | cons b t =>
      intro hl
      simp only [Linked] at hl ⊢
      exact ⟨h a b hl.1, ih hl.2⟩

/-- More fuel than `g.length + 1` changes nothing. -/
theorem chain_stable (g : List (Nat × Nat)) : ∀ (n c : Nat), (chain g n c).length < n →
    chain g (n + 1) c = chain g n c := by
  intro n
  induction n with
  | zero => intro c h; simp at h
  | succ n ih =>
    intro c h
    cases hc : cutNxt g c with
    | none => simp [chain, hc]
    | some d =>
      simp only [chain, hc, List.length_cons] at h
      have := ih d (by omega)
      simp only [chain, hc] at this ⊢
      rw [this]

theorem chain_fuel (g : List (Nat × Nat)) (c k : Nat) :
    chain g (g.length + 1 + k) c = chain g (g.length + 1) c := by
  induction k with
  | zero => rfl
  | succ k ih =>
    have e : g.length + 1 + (k + 1) = (g.length + 1 + k) + 1 := by omega
    rw [e, chain_stable g _ c (by have := chain_length_le g (g.length + 1 + k) c; omega), ih]

/-! ### The precomputed cut graph used by the driver -/

theorem nxt_filter_key (g : List (Nat × Nat)) (q : Nat → Bool) (c : Nat) :
    nxt (g.filter (fun e => q e.1)) c = if q c = true then nxt g c else none := by
  induction g with
  | nil => simp [nxt]
  | cons e t ih =>
    obtain ⟨a, b⟩ := e
    by_cases hq : q a = true
    · simp only [List.filter_cons, hq, if_true, nxt, ih]
      by_cases hac : a = c
      · subst hac; simp [hq]
      · simp [hac]
    · simp only [List.filter_cons, hq, Bool.false_eq_true, if_false, nxt, ih]
      by_cases hac : a = c
      · subst hac; simp [hq]
      · simp [hac]

theorem nxt_cutList (g : List (Nat × Nat)) (c : Nat) : nxt (cutList g) c = cutNxt g c := by
  have := nxt_filter_key g (fun a => !isCut g a) c
  simp only [cutList, cutNxt]
  rw [this]
  by_cases h : isCut g c = true <;> simp [h]

theorem nlGetFast_eq (g : List (Nat × Nat)) (c : Nat) : nlGetFast g (cutList g) c = nlGet g c := by
  simp only [nlGetFast, nlGet]
  generalize g.length + 1 = n
  induction n generalizing c with
  | zero => rfl
  | succ n ih =>
    simp only [chainL, chain, nxt_cutList]
    cases cutNxt g c with
    | none => rfl
    | some d => simp [ih d]

end C17
