import TexcraftModel.Model.C09Alloc
import TexcraftModel.Lemmas.C09

/-! Helper lemmas for the deepening-round theorems of `Props/C09.lean`. -/
namespace C09

theorem lookupRef_mem (refs : List (Nat × Nat × Nat)) (name s l : Nat)
    (h : lookupRef refs name = some (s, l)) : (name, s, l) ∈ refs := by
  induction refs with
  | nil => simp [lookupRef] at h
  | cons e rest ih =>
    obtain ⟨n, s', l'⟩ := e
    simp only [lookupRef] at h
    split at h
    · rename_i hn
      simp only [Option.some.injEq, Prod.mk.injEq] at h
      obtain ⟨rfl, rfl⟩ := h
      subst hn
      simp
    · exact List.mem_cons_of_mem _ (ih h)

theorem WF_empty : Alloc.empty.WF := by
  intro e he
  simp [Alloc.empty] at he

theorem WF_new (a : Alloc) (h : a.WF) (name len : Nat) : (newIntArray a name len).WF := by
  intro e he
  simp only [newIntArray, List.mem_cons] at he
  simp only [newIntArray, List.length_append, List.length_replicate]
  rcases he with rfl | he
  · simp
  · have := h e he
    omega

theorem WF_set (a : Alloc) (h : a.WF) (f : Nat) (v : Int) :
    ({ a with arrays := a.arrays.set f v } : Alloc).WF := by
  intro e he
  simpa using h e he

theorem resolve_in_bounds (a : Alloc) (h : a.WF) (name : Nat) (i : Int) (f : Nat) (r : Bool)
    (hr : resolveWith true a name i = .index f r) : f < a.arrays.length := by
  unfold resolveWith at hr
  cases hl : lookupRef a.refs name with
  | none => simp [hl] at hr
  | some p =>
    obtain ⟨start, len⟩ := p
    have hm := h _ (lookupRef_mem _ _ _ _ hl)
    simp only [] at hm
    simp only [hl] at hr
    cases hu : uintBound 2147483647 i <;> simp only [hu, if_true] at hr <;>
      (split at hr
       · simp at hr
       · simp only [Resolved.index.injEq] at hr
         omega)

theorem runOps_no_panic (ops : List AOp) :
    ∀ (a : Alloc), a.WF → AOut.panic ∉ runOpsWith newIntArray true a ops := by
  induction ops with
  | nil => intro a _; simp [runOpsWith]
  | cons op ops ih =>
    intro a h
    cases op with
    | new name len =>
      simp only [runOpsWith]
      exact ih _ (WF_new a h name len)
    | write name i v =>
      simp only [runOpsWith]
      split
      · rename_i r _; cases r <;> simp
      · rename_i f r hr
        have hb := resolve_in_bounds a h name i f r hr
        rw [if_pos hb]
        have := ih _ (WF_set a h f v)
        cases r <;> simp [this]
    | read name i =>
      simp only [runOpsWith]
      split
      · rename_i r _; cases r <;> simp
      · rename_i f r hr
        have hb := resolve_in_bounds a h name i f r hr
        have hs : a.arrays[f]? = some a.arrays[f] := List.getElem?_eq_getElem hb
        rw [hs]
        have := ih a h
        cases r <;> simp [this]

theorem depths_bounded (ops : List IOp) : ∀ (n : Nat), n ≤ 100 → ∀ d ∈ depths n ops, d ≤ 100 := by
  induction ops with
  | nil => intro n h d hd; simp [depths] at hd; omega
  | cons op ops ih =>
    intro n h d hd
    cases op with
    | input =>
      by_cases hlt : 100 < n + 1
      · simp [depths, stepI, hlt] at hd; omega
      · simp only [depths, stepI, if_neg hlt, List.mem_cons] at hd
        rcases hd with rfl | hd
        · exact h
        · exact ih (n + 1) (by omega) d hd
    | endSource =>
      simp only [depths, stepI, List.mem_cons] at hd
      rcases hd with rfl | hd
      · exact h
      · exact ih (n - 1) (by omega) d hd

/-! ### Protocol: relation between the interaction modes -/

theorem runLoop_ok_prefix (pre rest : List Ev) (hpre : ∀ e ∈ pre, e = .ok) (s : St) :
    runLoop s (pre ++ rest) = runLoop s rest := by
  induction pre with
  | nil => rfl
  | cons e es ih =>
    have he : e = .ok := hpre e (by simp)
    subst he
    simp only [List.cons_append, runLoop, step]
    exact ih (fun x hx => hpre x (by simp [hx]))

theorem specRun_filter_recoverable (m : Mode) (hm : m ≠ .errorstop) (evs : List Ev)
    (hno : ∀ e ∈ evs, ∀ m', e ≠ .setMode m') :
    specRun m evs = specRun m (evs.filter (· ≠ .recoverable)) := by
  induction evs with
  | nil => rfl
  | cons e es ih =>
    have ih' := ih (fun x hx => hno x (by simp [hx]))
    cases e with
    | setMode m' => exact absurd rfl (hno _ (by simp) m')
    | recoverable => simp [specRun, hm, ih']
    | ok => simp [specRun, ih']
    | fatal => simp [specRun]
    | shutdown => simp [specRun]
    | ignFatal => simp [specRun, ih']
    | ignShutdown => simp [specRun, ih']
    | ignRecoverable => simp [specRun, ih']
    | spurious => simp [specRun, ih']

theorem digits_pos (n : Nat) : 1 ≤ digits n := by
  unfold digits
  split <;> omega

theorem digits_mono_step (n : Nat) (h : 10 ≤ n) : digits n = 1 + digits (n / 10) := by
  rw [digits]
  rw [if_neg (by omega)]

theorem ifcaseLoopGe_neg (k : Nat) : ∀ (c : Int) (j : Nat), c < 0 → ifcaseLoopGe c j k = none := by
  induction k with
  | zero => intro c j _; simp [ifcaseLoopGe]
  | succ k ih =>
    intro c j h
    simp only [ifcaseLoopGe]
    rw [if_neg (by omega)]
    exact ih c (j + 1) h

theorem ifcaseLoop_nonpos (k : Nat) : ∀ (c : Int) (j : Nat), c ≤ 0 → ifcaseLoop c j k = none := by
  induction k with
  | zero => intro c j _; simp [ifcaseLoop]
  | succ k ih =>
    intro c j h
    simp only [ifcaseLoop]
    rw [if_neg (by omega)]
    exact ih c (j + 1) h

theorem ifcaseLoopGe_eq (k : Nat) : ∀ (c : Int) (j : Nat), ifcaseLoopGe c j k = ifcaseLoop c j k := by
  induction k with
  | zero => intro c j; simp [ifcaseLoopGe, ifcaseLoop]
  | succ k ih =>
    intro c j
    simp only [ifcaseLoopGe, ifcaseLoop]
    by_cases h0 : 0 < c
    · rw [if_pos (by omega), if_pos h0]
      split
      · rfl
      · exact ih _ _
    · rw [if_neg h0]
      by_cases h1 : 0 ≤ c
      · have hc : c = 0 := by omega
        subst hc
        rw [if_pos h1, if_neg (by omega), ifcaseLoopGe_neg k _ _ (by omega), ifcaseLoop_nonpos k _ _ (by omega)]
      · rw [if_neg h1]
        exact ih _ _

end C09
