import TexcraftModel.Lemmas.C10

/-! The central case analysis of C10: on sixteen-bit sizes whose `lf` fits in the file, the
repaired `checks` either returns one of the documented errors or the layout `slicesFrom 0 parts`. -/
namespace C10

theorem sumI_parts (s : Sizes) :
    sumI s.parts = 6 + s.lh + (s.ec - s.bc + 1) + s.nw + s.nh + s.nd + s.ni + s.nl + s.nk + s.ne + s.np := by
  simp only [Sizes.parts, sumI]; omega

/-- The begin/end characters `checks` passes on. -/
def bcecOf (s : Sizes) : Nat × Nat :=
  if s.bc < (if s.ec = 32767 then 32767 else s.ec + 1) then (s.bc.toNat, s.ec.toNat) else (1, 0)

theorem finish_eq (len : Nat) (s : Sizes) (bc ec : Nat) (junk : Bool)
    (hnc : -1 ≤ s.ec - s.bc ∧ s.ec - s.bc ≤ 32766)
    (hnn : ∀ u ∈ s.parts, 0 ≤ u) (hfit : 4 * sumI s.parts ≤ len) :
    finish len s bc ec junk = .ok ⟨s, bc, ec, slicesFrom 0 s.parts⟩ junk := by
  have h1 : addW lim16 s.ec (-s.bc) = some (s.ec + -s.bc) := addW_some _ _ _ (by simp [lim16]; omega)
  have h2 : addW lim16 (s.ec + -s.bc) 1 = some (s.ec + -s.bc + 1) := addW_some _ _ _ (by simp [lim16]; omega)
  have hp : [6, s.lh, s.ec + -s.bc + 1, s.nw, s.nh, s.nd, s.ni, s.nl, s.nk, s.ne, s.np] = s.parts := by
    simp [Sizes.parts]; omega
  have hg := getSlices_eq len s.parts 0 hnn (by omega)
  simp only [finish, numChars, h1, h2, hp, hg]

theorem validLf32 (s : Sizes) (hr : s.InRange) : validLf lim32 s = some (sumI s.parts) := by
  have a1 := hr s.lf (by simp [Sizes.toList])
  have a2 := hr s.lh (by simp [Sizes.toList])
  have a3 := hr s.bc (by simp [Sizes.toList])
  have a4 := hr s.ec (by simp [Sizes.toList])
  have a5 := hr s.nw (by simp [Sizes.toList])
  have a6 := hr s.nh (by simp [Sizes.toList])
  have a7 := hr s.nd (by simp [Sizes.toList])
  have a8 := hr s.ni (by simp [Sizes.toList])
  have a9 := hr s.nl (by simp [Sizes.toList])
  have a10 := hr s.nk (by simp [Sizes.toList])
  have a11 := hr s.ne (by simp [Sizes.toList])
  have a12 := hr s.np (by simp [Sizes.toList])
  simp only [InI16] at *
  have e0 : addW lim32 6 s.lh = some (6 + s.lh) := addW_some _ _ _ (by simp [lim32]; omega)
  have e1 : addW lim32 s.ec (-s.bc) = some (s.ec + -s.bc) := addW_some _ _ _ (by simp [lim32]; omega)
  have e2 : addW lim32 (s.ec + -s.bc) 1 = some (s.ec + -s.bc + 1) := addW_some _ _ _ (by simp [lim32]; omega)
  have f1 := addW_some lim32 (6 + s.lh) (s.ec + -s.bc + 1) (by simp [lim32]; omega)
  have f2 := addW_some lim32 (6 + s.lh + (s.ec + -s.bc + 1)) s.nw (by simp [lim32]; omega)
  have f3 := addW_some lim32 (6 + s.lh + (s.ec + -s.bc + 1) + s.nw) s.nh (by simp [lim32]; omega)
  have f4 := addW_some lim32 (6 + s.lh + (s.ec + -s.bc + 1) + s.nw + s.nh) s.nd (by simp [lim32]; omega)
  have f5 := addW_some lim32 (6 + s.lh + (s.ec + -s.bc + 1) + s.nw + s.nh + s.nd) s.ni (by simp [lim32]; omega)
  have f6 := addW_some lim32 (6 + s.lh + (s.ec + -s.bc + 1) + s.nw + s.nh + s.nd + s.ni) s.nl (by simp [lim32]; omega)
  have f7 := addW_some lim32 (6 + s.lh + (s.ec + -s.bc + 1) + s.nw + s.nh + s.nd + s.ni + s.nl) s.nk (by simp [lim32]; omega)
  have f8 := addW_some lim32 (6 + s.lh + (s.ec + -s.bc + 1) + s.nw + s.nh + s.nd + s.ni + s.nl + s.nk) s.ne (by simp [lim32]; omega)
  have f9 := addW_some lim32 (6 + s.lh + (s.ec + -s.bc + 1) + s.nw + s.nh + s.nd + s.ni + s.nl + s.nk + s.ne) s.np (by simp [lim32]; omega)
  simp only [validLf, numChars, e0, e1, e2, sumW, f1, f2, f3, f4, f5, f6, f7, f8, f9, sumI_parts]
  exact congrArg some (by omega)

/-- The repaired checks: a documented error, or the layout described by the size table. -/
theorem checks_spec (s : Sizes) (len : Nat) (junk : Bool) (hr : s.InRange) (hlf : 4 * s.lf ≤ len) :
    (∃ e, checks false s len junk = .err e junk) ∨
    (checks false s len junk = .ok ⟨s, (bcecOf s).1, (bcecOf s).2, slicesFrom 0 s.parts⟩ junk ∧
      s.lf = sumI s.parts ∧ (∀ u ∈ s.parts, 0 ≤ u) ∧ 2 ≤ s.lh) := by
  have hv := validLf32 s hr
  have a3 := hr s.bc (by simp [Sizes.toList])
  have a4 := hr s.ec (by simp [Sizes.toList])
  simp only [InI16] at a3 a4
  simp only [checks, Bool.false_eq_true, if_false, hv]
  by_cases hneg : s.lh < 0 ∨ s.bc < 0 ∨ s.ec < 0 ∨ s.nw < 0 ∨ s.nh < 0 ∨ s.nd < 0 ∨ s.ni < 0 ∨ s.nl < 0 ∨
      s.nk < 0 ∨ s.ne < 0 ∨ s.np < 0
  · left; exact ⟨_, by rw [if_pos hneg]⟩
  rw [if_neg hneg]
  by_cases hlh : s.lh < 2
  · left; exact ⟨_, by rw [if_pos hlh]⟩
  rw [if_neg hlh]
  by_cases h1 : (if s.ec = 32767 then 32767 else s.ec + 1) < s.bc
  · left; exact ⟨_, by rw [if_pos h1]⟩
  rw [if_neg h1]
  by_cases h2 : s.bc < (if s.ec = 32767 then 32767 else s.ec + 1) ∧ 255 < s.ec
  · left; exact ⟨_, by rw [if_pos h2]⟩
  rw [if_neg h2]
  have h3 : ¬ (s.bc < (if s.ec = 32767 then 32767 else s.ec + 1) ∧ 255 < s.bc) := by
    intro ⟨h3a, h3b⟩
    apply h2
    refine ⟨h3a, ?_⟩
    split at h3a <;> omega
  rw [if_neg h3]
  by_cases h4 : s.nw = 0 ∨ s.nh = 0 ∨ s.nd = 0 ∨ s.ni = 0
  · left; exact ⟨_, by rw [if_pos h4]⟩
  rw [if_neg h4]
  by_cases h5 : 256 < s.ne
  · left; exact ⟨_, by rw [if_pos h5]⟩
  rw [if_neg h5]
  by_cases h6 : ¬ (-lim16 ≤ sumI s.parts ∧ sumI s.parts < lim16) ∨ s.lf ≠ sumI s.parts
  · left; exact ⟨_, by rw [if_pos h6]⟩
  rw [if_neg h6]
  right
  have hlfeq : s.lf = sumI s.parts := by
    by_cases h : s.lf = sumI s.parts
    · exact h
    · exact absurd (Or.inr h) h6
  have hnc : -1 ≤ s.ec - s.bc ∧ s.ec - s.bc ≤ 32766 := by
    split at h1 <;> omega
  have hnn : ∀ u ∈ s.parts, 0 ≤ u := by
    intro u hu
    simp only [Sizes.parts, List.mem_cons, List.not_mem_nil, or_false] at hu
    rcases hu with rfl | rfl | rfl | rfl | rfl | rfl | rfl | rfl | rfl | rfl | rfl <;> omega
  refine ⟨?_, hlfeq, hnn, by omega⟩
  have := finish_eq len s (bcecOf s).1 (bcecOf s).2 junk hnc hnn (by omega)
  simpa [bcecOf] using this

end C10
