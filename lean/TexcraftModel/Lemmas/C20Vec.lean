import TexcraftModel.Model.C20Vec
import TexcraftModel.Lemmas.C20GMap
import TexcraftModel.Lemmas.C20Tags
namespace C20
variable {V : Type}

/-!
# C20 — the Vec-backed scoped map (`VGMap`) simulates the association-list-backed one (`GMap Nat`)

Everything proved for `GMap Nat V` (refinement of `Snap`, `iterAll` total, round trip) is
transferred to `VGMap V` through the simulation relation `Sim`. Core Lean only.
-/

/-- The Vec-backed map and the association-list-backed map are in the same state. -/
def Sim (vm : VGMap V) (m : GMap Nat V) : Prop :=
  (∀ k, VecBacking.get vm.bc k = alookup m.bc k) ∧ vm.groups = m.groups

theorem sim_empty : Sim (VGMap.empty : VGMap V) GMap.empty := by
  refine ⟨?_, rfl⟩
  intro k
  simp only [VGMap.empty, GMap.empty, VecBacking.get_nil, alookup]

theorem get_insert_sim (vbc : List (Option V)) (bc : AList Nat V)
    (h : ∀ k, VecBacking.get vbc k = alookup bc k) (k : Nat) (v : V) (k' : Nat) :
    VecBacking.get (VecBacking.insert vbc k v) k' = alookup (ainsert k v bc) k' := by
  rw [VecBacking.get_insert, alookup_ainsert, h k']
  by_cases hk : k' = k
  · subst hk; simp
  · have hk' : ¬ k = k' := fun e => hk e.symm
    simp [hk, hk']

theorem get_remove_sim (vbc : List (Option V)) (bc : AList Nat V)
    (h : ∀ k, VecBacking.get vbc k = alookup bc k) (k : Nat) (k' : Nat) :
    VecBacking.get (VecBacking.remove vbc k) k' = alookup (aerase k bc) k' := by
  rw [VecBacking.get_remove, alookup_aerase, h k']
  by_cases hk : k' = k
  · subst hk; simp
  · have hk' : ¬ k = k' := fun e => hk e.symm
    simp [hk, hk']

theorem get_applyLog_sim (g : AList Nat (Action V)) (vbc : List (Option V)) (bc : AList Nat V)
    (h : ∀ k, VecBacking.get vbc k = alookup bc k) (k : Nat) :
    VecBacking.get (VGMap.applyLog g vbc) k = alookup (GMap.applyLog g bc) k := by
  induction g generalizing vbc bc with
  | nil => simpa only [VGMap.applyLog, GMap.applyLog] using h k
  | cons p t ih =>
    obtain ⟨a, act⟩ := p
    cases act with
    | delete =>
      simp only [VGMap.applyLog, GMap.applyLog]
      exact ih _ _ (get_remove_sim vbc bc h a)
    | revert v =>
      simp only [VGMap.applyLog, GMap.applyLog]
      exact ih _ _ (get_insert_sim vbc bc h a v)

theorem sim_step (vm : VGMap V) (m : GMap Nat V) (op : Op Nat V) (h : Sim vm m) :
    Sim (vm.step op).1 (m.step op).1 ∧ (vm.step op).2 = (m.step op).2 := by
  obtain ⟨vbc, vgs⟩ := vm
  obtain ⟨bc, gs⟩ := m
  obtain ⟨hb, hg⟩ := h
  simp only at hb hg
  subst hg
  cases op with
  | insert k v s =>
    have hi := get_insert_sim vbc bc hb k v
    cases s with
    | glob =>
      simp only [VGMap.step, GMap.step, VGMap.insert, GMap.insert, hb k]
      cases alookup bc k <;> exact ⟨⟨hi, rfl⟩, rfl⟩
    | loc =>
      simp only [VGMap.step, GMap.step, VGMap.insert, GMap.insert, hb k]
      cases alookup bc k <;> cases vgs <;> exact ⟨⟨hi, rfl⟩, rfl⟩
  | beginGroup => exact ⟨⟨hb, rfl⟩, rfl⟩
  | endGroup =>
    cases vgs with
    | nil => exact ⟨⟨hb, rfl⟩, rfl⟩
    | cons g gs => exact ⟨⟨get_applyLog_sim g vbc bc hb, rfl⟩, rfl⟩
  | get k =>
    refine ⟨⟨hb, rfl⟩, ?_⟩
    simp only [VGMap.step, GMap.step, VGMap.get, GMap.get, hb k]

theorem sim_run (vm : VGMap V) (m : GMap Nat V) (ops : List (Op Nat V)) (h : Sim vm m) :
    Sim (vm.run ops).1 (m.run ops).1 ∧ (vm.run ops).2 = (m.run ops).2 := by
  induction ops generalizing vm m with
  | nil => exact ⟨h, rfl⟩
  | cons op ops ih =>
    obtain ⟨h1, h2⟩ := sim_step vm m op h
    obtain ⟨i1, i2⟩ := ih _ _ h1
    simp only [VGMap.run, GMap.run]
    exact ⟨i1, by rw [h2, i2]⟩

theorem vgmap_refines_run (ops : List (Op Nat V)) :
    ((VGMap.empty : VGMap V).run ops).2 = (Snap.init.run ops).2 := by
  rw [(sim_run _ _ ops sim_empty).2]
  exact (gmap_refines_run ops).1

theorem vgmap_get_run (ops : List (Op Nat V)) (k : Nat) :
    ((VGMap.empty : VGMap V).run ops).1.get k = (Snap.init.run ops).1.cur k := by
  have hs := (sim_run _ _ ops (sim_empty (V := V))).1
  have hr := (gmap_refines_run (K := Nat) (V := V) ops).2
  rw [← hr]
  simp only [VGMap.get, GMap.abs]
  exact hs.1 k

/-! ## `VecBacking.iter` as an association list -/

theorem get_cons_zero (o : Option V) (t : List (Option V)) : VecBacking.get (o :: t) 0 = o := by
  simp [VecBacking.get]

theorem get_cons_succ (o : Option V) (t : List (Option V)) (j : Nat) :
    VecBacking.get (o :: t) (j + 1) = VecBacking.get t j := by
  simp [VecBacking.get]

theorem alookup_iterFrom (l : List (Option V)) (i k : Nat) :
    alookup (VecBacking.iterFrom i l) k = if k < i then none else VecBacking.get l (k - i) := by
  induction l generalizing i with
  | nil =>
    simp only [VecBacking.iterFrom, alookup, VecBacking.get_nil]
    split <;> rfl
  | cons o t ih =>
    have key : ¬ k < i → ¬ i = k →
        VecBacking.get (o :: t) (k - i) = VecBacking.get t (k - (i + 1)) := by
      intro h1 h2
      have : k - i = (k - (i + 1)) + 1 := by omega
      rw [this, get_cons_succ]
    cases o with
    | none =>
      simp only [VecBacking.iterFrom, ih]
      by_cases h1 : k < i
      · have h2 : k < i + 1 := by omega
        simp [h1, h2]
      · by_cases h2 : i = k
        · subst h2
          simp [get_cons_zero]
        · have h3 : ¬ k < i + 1 := by omega
          simp only [h1, h3, if_false]
          exact (key h1 h2).symm
    | some v =>
      simp only [VecBacking.iterFrom, alookup, ih]
      by_cases h2 : i = k
      · subst h2
        simp [get_cons_zero]
      · by_cases h1 : k < i
        · have h3 : k < i + 1 := by omega
          simp [h1, h2, h3]
        · have h3 : ¬ k < i + 1 := by omega
          simp only [h1, h2, h3, if_false]
          exact (key h1 h2).symm

theorem alookup_iter (l : List (Option V)) (k : Nat) :
    alookup (VecBacking.iter l) k = VecBacking.get l k := by
  rw [VecBacking.iter, alookup_iterFrom]
  simp

theorem nodupKeys_iterFrom (l : List (Option V)) (i : Nat) :
    NodupKeys (VecBacking.iterFrom i l) := by
  induction l generalizing i with
  | nil => exact nodupKeys_nil
  | cons o t ih =>
    cases o with
    | none => simpa only [VecBacking.iterFrom] using ih (i + 1)
    | some v =>
      simp only [VecBacking.iterFrom]
      rw [nodupKeys_cons]
      refine ⟨?_, ih (i + 1)⟩
      rw [alookup_iterFrom]
      simp

theorem nodupKeys_iter (l : List (Option V)) : NodupKeys (VecBacking.iter l) :=
  nodupKeys_iterFrom l 0

/-! ## Round trip -/

/-- The association-list-backed map on which `VGMap.iterAll` runs the generic `iter_all`. -/
def toG (vm : VGMap V) : GMap Nat V := { bc := VecBacking.iter vm.bc, groups := vm.groups }

theorem iterAll_toG (vm : VGMap V) : vm.iterAll = (toG vm).iterAll := rfl

theorem sim_toG (vm : VGMap V) : Sim vm (toG vm) :=
  ⟨fun k => (alookup_iter vm.bc k).symm, rfl⟩

theorem inv_toG (vm : VGMap V) (m : GMap Nat V) (h : Sim vm m) (hi : Inv m) : Inv (toG vm) := by
  obtain ⟨hb, hg⟩ := h
  refine ⟨nodupKeys_iter vm.bc, ?_, ?_, ?_⟩
  · intro g hgm
    simp only [toG, hg] at hgm
    exact hi.logsNodup g hgm
  · intro g hgm k hk
    simp only [toG, hg] at hgm
    simp only [toG]
    rw [alookup_iter, hb k]
    exact hi.visible g hgm k hk
  · simp only [toG, hg]
    exact hi.groupsOK

theorem abs_toG (vm : VGMap V) (m : GMap Nat V) (h : Sim vm m) : (toG vm).abs = m.abs := by
  obtain ⟨hb, hg⟩ := h
  have hf : (fun k => alookup (VecBacking.iter vm.bc) k) = fun k => alookup m.bc k :=
    funext fun k => by rw [alookup_iter, hb k]
  simp only [GMap.abs, toG, hf, hg]

theorem sim_feed (vm : VGMap V) (m : GMap Nat V) (i : Item Nat V) (h : Sim vm m) :
    Sim (vm.feed i) (m.feed i) := by
  cases i with
  | beginGroup => exact (sim_step vm m .beginGroup h).1
  | value k v => exact (sim_step vm m (.insert k v .loc) h).1

theorem sim_foldl_feed (items : List (Item Nat V)) (vm : VGMap V) (m : GMap Nat V)
    (h : Sim vm m) : Sim (items.foldl VGMap.feed vm) (items.foldl GMap.feed m) := by
  induction items generalizing vm m with
  | nil => exact h
  | cons i items ih =>
    simp only [List.foldl_cons]
    exact ih _ _ (sim_feed vm m i h)

theorem sim_fromIter (items : List (Item Nat V)) :
    Sim (VGMap.fromIter items) (GMap.fromIter items) :=
  sim_foldl_feed items _ _ sim_empty

/-- `iter_all` on a reachable Vec-backed map does not panic. -/
theorem vgmap_iterAll_total_run (pre : List (Op Nat V)) :
    ∃ items, ((VGMap.empty : VGMap V).run pre).1.iterAll = .ok items := by
  have hs := (sim_run _ _ pre (sim_empty (V := V))).1
  have hi : Inv ((GMap.empty : GMap Nat V).run pre).1 := inv_reachable pre
  exact iterAll_total _ (inv_toG _ _ hs hi)

/-- Main theorem: a reachable Vec-backed map rebuilt from its `iter_all()` behaves the same, and
as the specification. -/
theorem vgmap_iterAll_roundtrip_run (pre post : List (Op Nat V)) :
    ∃ items, ((VGMap.empty : VGMap V).run pre).1.iterAll = .ok items ∧
      ((VGMap.fromIter items).run post).2 = (((VGMap.empty : VGMap V).run pre).1.run post).2 ∧
      ((VGMap.fromIter items).run post).2 = ((Snap.init.run pre).1.run post).2 := by
  have hs := (sim_run _ _ pre (sim_empty (V := V))).1
  have hi : Inv ((GMap.empty : GMap Nat V).run pre).1 := inv_reachable pre
  have hiG := inv_toG _ _ hs hi
  have habs := abs_toG _ _ hs
  obtain ⟨items, hit, ha, hinv⟩ := iterAll_roundtrip _ hiG
  have e1 : ((VGMap.fromIter items).run post).2 =
      ((((GMap.empty : GMap Nat V).run pre).1.abs).run post).2 := by
    rw [(sim_run _ _ post (sim_fromIter items)).2, (gmap_refines_run_from _ hinv post).1, ha, habs]
  refine ⟨items, hit, ?_, ?_⟩
  · rw [e1, (sim_run _ _ post hs).2, (gmap_refines_run_from _ hi post).1]
  · rw [e1, (gmap_refines_run pre).2]

end C20
