import TexcraftModel.Model.C10Body
import TexcraftModel.Lemmas.C10Checks

/-! Helper lemmas for the sub-file bodies: a sub-file of `4·n` bytes is read word by word
without running off its end; the header guards cover every short header. -/
namespace C10.Body

theorem words4_some : ∀ (n : Nat) (l : List Nat), l.length = 4 * n →
    ∃ r, words4 l = some r ∧ r.length = n
  | 0, l, h => by
    have : l = [] := List.eq_nil_of_length_eq_zero (by omega)
    subst this
    exact ⟨[], by simp [words4], rfl⟩
  | n + 1, l, h => by
    match l, h with
    | a :: b :: c :: d :: t, h =>
      obtain ⟨r, hr, hl⟩ := words4_some n t (by simp at h; omega)
      exact ⟨(a, b, c, d) :: r, by simp [words4, hr], by simp [hl]⟩

theorem words4_mod (l : List Nat) (h : l.length % 4 = 0) : ∃ r, words4 l = some r ∧ r.length = l.length / 4 := by
  obtain ⟨r, hr, hl⟩ := words4_some (l.length / 4) l (by omega)
  exact ⟨r, hr, hl⟩

theorem slice_length (b : List Nat) (s : Slice) (h1 : s.start ≤ s.stop) (h2 : s.stop ≤ b.length) :
    (slice b s).length = s.stop - s.start := by
  simp only [slice, List.length_take, List.length_drop]
  omega

theorem after_mod (k : Nat) (b : List Nat) (hk : k % 4 = 0) (hb : b.length % 4 = 0) :
    (after k b).length % 4 = 0 := by
  unfold after
  split
  · simp only [List.length_drop]; omega
  · simp

theorem first_length (k : Nat) (b : List Nat) : (first k b).length = 0 ∨ (first k b).length = k := by
  unfold first
  split
  · right; simp only [List.length_take]; omega
  · left; simp

/-- The BCPL string guard: an empty field or one of at least two bytes never panics. -/
theorem bcplString_ok (b : List Nat) (h : b.length = 0 ∨ 2 ≤ b.length) : ∃ r, bcplString b = some r := by
  unfold bcplString
  match b, h with
  | [], _ => exact ⟨_, rfl⟩
  | len :: rest, h =>
    simp only []
    split
    · exact ⟨_, rfl⟩
    · rename_i hlen
      match rest, h, hlen with
      | c :: t, _, hlen =>
        simp only []
        have : ¬ len < 2 := by simp only [List.length_cons] at hlen; omega
        rw [if_neg this]
        exact ⟨_, rfl⟩
      | [], h, _ => simp at h

/-- `Header::deserialize` on a header sub-file of at least two words. -/
theorem header_ok (b : List Nat) (hm : b.length % 4 = 0) (h8 : 8 ≤ b.length) : ∃ h, header b = some h := by
  match b, hm, h8 with
  | c0 :: c1 :: c2 :: c3 :: d0 :: d1 :: d2 :: d3 :: t, hm, _ =>
    simp only [header]
    have hb1 : (d0 :: d1 :: d2 :: d3 :: t).length % 4 = 0 := by simp only [List.length_cons] at hm ⊢; omega
    have hb2 := after_mod 4 _ (by decide) hb1
    obtain ⟨sch, hsch⟩ := bcplString_ok (first 40 (after 4 (d0 :: d1 :: d2 :: d3 :: t)))
      (by rcases first_length 40 (after 4 (d0 :: d1 :: d2 :: d3 :: t)) with h | h <;> omega)
    have hb3 := after_mod 40 _ (by decide) hb2
    obtain ⟨fam, hfam⟩ := bcplString_ok (first 20 (after 40 (after 4 (d0 :: d1 :: d2 :: d3 :: t))))
      (by rcases first_length 20 (after 40 (after 4 (d0 :: d1 :: d2 :: d3 :: t))) with h | h <;> omega)
    have hb4 := after_mod 20 _ (by decide) hb3
    have hb5 := after_mod 4 _ (by decide) hb4
    obtain ⟨ex, hex, _⟩ := words4_mod _ hb5
    simp only [hsch, hfam, hex]
    exact ⟨_, rfl⟩

/-- `deserialize_lig_kern_program` on a sub-file of at most 2^16 words. -/
theorem ligKern_ok (b : List Nat) (hm : b.length % 4 = 0) (hmax : b.length ≤ 262144) : ∃ r, ligKern b = some r := by
  unfold ligKern
  obtain ⟨ws, hws, hl⟩ := words4_mod b hm
  simp only [hws]
  split
  · exact ⟨_, rfl⟩
  · rename_i h4
    have hd : (b.drop (b.length - 4)).length = 4 := by simp only [List.length_drop]; omega
    match hdd : b.drop (b.length - 4), hd with
    | [x, u, y, z], _ =>
      simp only []
      split
      · have : ¬ ((ws.map instr).length = 0 ∨ (ws.map instr).length - 1 > 65535) := by
          simp only [List.length_map, hl]; omega
        rw [if_neg this]
        exact ⟨_, rfl⟩
      · exact ⟨_, rfl⟩

/-- Every byte list has four times the corresponding word count. -/
def LensOK : List (List Nat) → List Int → Prop
  | [], [] => True
  | x :: xs, n :: ns => (x.length : Int) = 4 * n ∧ LensOK xs ns
  | _, _ => False

/-- The byte lists of consecutive slices have four times the declared word counts. -/
theorem slices_lengths (b : List Nat) : ∀ (ns : List Int) (pos : Nat), (∀ u ∈ ns, 0 ≤ u) →
    (pos : Int) + 4 * sumI ns ≤ b.length → LensOK ((slicesFrom pos ns).map (slice b)) ns
  | [], _, _, _ => by simp [slicesFrom, LensOK]
  | u :: us, pos, hn, hs => by
    have h1 : 0 ≤ u := hn u (by simp)
    have hn' : ∀ x ∈ us, 0 ≤ x := fun x hx => hn x (by simp [hx])
    have h2 := sumI_nonneg us hn'
    simp only [sumI] at hs
    simp only [slicesFrom, List.map_cons, LensOK]
    refine ⟨?_, slices_lengths b us (pos + u.toNat * 4) hn' (by omega)⟩
    rw [slice_length b _ (by simp) (by simp only []; omega)]
    simp only []
    omega

theorem LensOK.length : ∀ (xs : List (List Nat)) (ns : List Int), LensOK xs ns → xs.length = ns.length
  | [], [], _ => rfl
  | [], _ :: _, h => by simp [LensOK] at h
  | _ :: _, [], h => by simp [LensOK] at h
  | x :: xs, n :: ns, h => by
    simp only [LensOK] at h
    simp [LensOK.length xs ns h.2]

/-- `from_raw_file` on eleven sub-files of the declared sizes, a header of at least two words
and a lig/kern table of at most 2^16 words: no index leaves its sub-file. -/
theorem fromSlices_ok (bc ec : Nat) (n0 lh nc nw nh nd ni nl nk ne np : Int) (xs : List (List Nat))
    (hl : LensOK xs [n0, lh, nc, nw, nh, nd, ni, nl, nk, ne, np]) (hlh : 2 ≤ lh) (hnl : nl ≤ 65536) :
    ∃ f, fromSlices bc ec xs = some f := by
  have hlen := LensOK.length _ _ hl
  match xs, hlen, hl with
  | [x0, x1, x2, x3, x4, x5, x6, x7, x8, x9, x10], _, hl =>
    simp only [LensOK] at hl
    obtain ⟨_, h1, h2, h3, h4, h5, h6, h7, h8, h9, h10, _⟩ := hl
    obtain ⟨r2, e2, _⟩ := words4_mod x2 (by omega)
    obtain ⟨r1, e1⟩ := header_ok x1 (by omega) (by omega)
    obtain ⟨r3, e3, _⟩ := words4_mod x3 (by omega)
    obtain ⟨r4, e4, _⟩ := words4_mod x4 (by omega)
    obtain ⟨r5, e5, _⟩ := words4_mod x5 (by omega)
    obtain ⟨r6, e6, _⟩ := words4_mod x6 (by omega)
    obtain ⟨r7, e7⟩ := ligKern_ok x7 (by omega) (by omega)
    obtain ⟨r8, e8, _⟩ := words4_mod x8 (by omega)
    obtain ⟨r9, e9, _⟩ := words4_mod x9 (by omega)
    obtain ⟨r10, e10, _⟩ := words4_mod x10 (by omega)
    simp only [fromSlices, e1, e2, e3, e4, e5, e6, e7, e8, e9, e10]
    exact ⟨_, rfl⟩

end C10.Body
