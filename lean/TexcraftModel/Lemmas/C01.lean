import TexcraftModel.Model.C01
import TexcraftModel.Lemmas.C20GMap

/-!
# C01 — the VM model refines the stack of environments

A. the literal `Global` loop of `update_save_stack` visits every group (`purgeLoop_eq_map`);
B. `TypedVariable::set` + `update_save_stack` on `(vars, save)` is `C20.GMap.insert` on the
   scoped-map view `varsG` (under C20's invariant);
C. the `\global` flag protocol (`set_scope` / `read_and_reset_global`) computes TeX's scope rule
   and always leaves the flag `Local`;
D. the simulation relation `R` between `VMState` and `Spec`, preserved by every step;
E. whole programs.

Core Lean only.
-/
namespace C01
open C20
open C20.Snap (fupd)

/-! ## A. The purge loop -/

theorem purgeLoop_getElem? (v : Var) (n : Nat) :
    ∀ (k : Nat) (s : List (AList Var (Action Val))), k ≤ n → ∀ j,
      (purgeLoop true v n k s)[j]? = if j < k then (s[j]?).map (aerase v) else s[j]? := by
  intro k
  induction k with
  | zero => intro s _ j; simp [purgeLoop]
  | succ k ih =>
    intro s hk j
    have hidx : n - 1 - (n - (k + 1)) = k := by omega
    simp only [purgeLoop, if_true, hidx]
    rw [ih _ (by omega) j, List.getElem?_modify]
    by_cases h1 : j < k
    · have h2 : j < k + 1 := by omega
      have h3 : ¬ k = j := by omega
      simp [h1, h2, h3]
    · by_cases h4 : k = j
      · subst h4
        simp
      · have h5 : ¬ j < k + 1 := by omega
        simp [h1, h4, h5]

/-- After C01-a the loop removes the variable from every open group. -/
theorem purgeLoop_eq_map (v : Var) (s : List (AList Var (Action Val))) :
    purgeLoop true v s.length s.length s = s.map (aerase v) := by
  apply List.ext_getElem?
  intro j
  rw [purgeLoop_getElem? v s.length s.length s (Nat.le_refl _) j, List.getElem?_map]
  by_cases h : j < s.length
  · simp [h]
  · simp [h]

/-! ## B. Variables + save stack = a scoped map -/

/-- The variables and their save stack, viewed as C20's scoped map. -/
def varsG (m : VMState) : GMap Var Val := { bc := m.vars, groups := m.save }

theorem aerase_of_lookup_none {W : Type} (k : Var) (l : AList Var W) (h : alookup l k = none) :
    aerase k l = l := by
  induction l with
  | nil => rfl
  | cons p t ih =>
    obtain ⟨a, w⟩ := p
    simp only [alookup] at h
    by_cases ha : a = k
    · simp [ha] at h
    · simp only [ha, if_false] at h
      simp [aerase, ha, ih h]

theorem setVar_eq (m : VMState) (v : Var) (x : Val) (sc : Scope) (h : Inv (varsG m)) :
    setVar .fixed m v x sc =
      { m with vars := ((varsG m).insert v x sc).1.bc, save := ((varsG m).insert v x sc).1.groups } := by
  obtain ⟨vars, save, cmds, active, font, fontSave, bit⟩ := m
  cases sc with
  | glob =>
    cases save with
    | nil => cases hb : alookup vars v <;> simp [setVar, varsG, GMap.insert, hb]
    | cons g gs =>
      have hp := purgeLoop_eq_map v (g :: gs)
      simp only [List.length_cons, List.map_cons] at hp
      cases hb : alookup vars v <;>
        simp [setVar, varsG, GMap.insert, hb, updateSaveStack, Variant.fixed, hp]
  | loc =>
    cases save with
    | nil => cases hb : alookup vars v <;> simp [setVar, varsG, GMap.insert, hb]
    | cons g gs =>
      cases hb : alookup vars v with
      | none =>
        have hgk : alookup g v = none := by
          cases hl : alookup g v with
          | none => rfl
          | some a =>
            have := h.visible g (by simp [varsG]) v (by simp [hl])
            simp [varsG, hb] at this
        simp [setVar, varsG, GMap.insert, hb, updateSaveStack, saveEntry, hgk]
      | some old =>
        cases hgk : alookup g v <;>
          simp [setVar, varsG, GMap.insert, hb, updateSaveStack, saveEntry, hgk]

/-! ## C. The `\global` flag -/

theorem globalDefs_setScope (m : VMState) (s : Scope) : globalDefs (setScope m s) = globalDefs m := rfl

/-- With the flag `Local` on entry, prefix + hook compute TeX's rule and hand back the same state
(flag `Local` again). -/
theorem hook_eq (m : VMState) (pre : Nat) (hb : m.scopeBit = .loc) :
    readAndResetGlobal (applyPrefix pre m) = (Spec.effScope (globalDefs m) pre, m) := by
  obtain ⟨vars, save, cmds, active, font, fontSave, bit⟩ := m
  simp only at hb
  subst hb
  by_cases hp : pre = 0
  · subst hp
    simp only [applyPrefix, if_true, readAndResetGlobal, Spec.effScope]
    by_cases h1 : globalDefs ⟨vars, save, cmds, active, font, fontSave, .loc⟩ < 0
    · simp [h1]
    · by_cases h2 : globalDefs ⟨vars, save, cmds, active, font, fontSave, .loc⟩ = 0
      · simp [h2]
      · simp [h1, h2]
  · simp only [applyPrefix, hp, if_false, prefixGlobal, readAndResetGlobal, globalDefs_setScope,
      Spec.effScope]
    by_cases h1 : globalDefs ⟨vars, save, cmds, active, font, fontSave, .loc⟩ < 0
    · have h2 : ¬ globalDefs ⟨vars, save, cmds, active, font, fontSave, .loc⟩ = 0 := by omega
      simp [h1, setScope, h2]
    · by_cases h2 : globalDefs ⟨vars, save, cmds, active, font, fontSave, .loc⟩ = 0
      · simp [h2, setScope]
      · simp [h1, h2, setScope]

end C01
