import TexcraftModel.Model.C01
import TexcraftModel.Lemmas.C20GMap

/-!
# C01 — the VM model refines the stack of environments

A. the literal `Global` loop of `update_save_stack` visits every group (`purgeLoop_eq_map`);
B. `TypedVariable::set` + `update_save_stack` on `(vars, save)` is `C20.GMap.insert` on the
   scoped-map view `varsG` (under C20's invariant);
C. the `\global` flag protocol (`set_scope` / `read_and_reset_global`) computes TeX's scope rule
   and always leaves the flag `Local`;
D. the simulation relation `R` between `VMState` and `Spec`, preserved by every step;
E. whole programs.

Core Lean only.
-/
namespace C01
open C20
open C20.Snap (fupd)

/-! ## A. The purge loop -/

theorem purgeLoop_getElem? (v : Var) (n : Nat) :
    ∀ (k : Nat) (s : List (AList Var (Action Val))), k ≤ n → ∀ j,
      (purgeLoop true v n k s)[j]? = if j < k then (s[j]?).map (aerase v) else s[j]? := by
  intro k
  induction k with
  | zero => intro s _ j; simp [purgeLoop]
  | succ k ih =>
    intro s hk j
    have hidx : n - 1 - (n - (k + 1)) = k := by omega
    simp only [purgeLoop, if_true, hidx]
    rw [ih _ (by omega) j, List.getElem?_modify]
    by_cases h1 : j < k
    · have h2 : j < k + 1 := by omega
      have h3 : ¬ k = j := by omega
      simp [h1, h2, h3]
    · by_cases h4 : k = j
      · subst h4
        simp
      · have h5 : ¬ j < k + 1 := by omega
        simp [h1, h4, h5]

/-- After C01-a the loop removes the variable from every open group. -/
theorem purgeLoop_eq_map (v : Var) (s : List (AList Var (Action Val))) :
    purgeLoop true v s.length s.length s = s.map (aerase v) := by
  apply List.ext_getElem?
  intro j
  rw [purgeLoop_getElem? v s.length s.length s (Nat.le_refl _) j, List.getElem?_map]
  by_cases h : j < s.length
  · simp [h]
  · simp [h]

/-! ## B. Variables + save stack = a scoped map -/

/-- The variables and their save stack, viewed as C20's scoped map. -/
def varsG (m : VMState) : GMap Var Val := { bc := m.vars, groups := m.save }

theorem aerase_of_lookup_none {W : Type} (k : Var) (l : AList Var W) (h : alookup l k = none) :
    aerase k l = l := by
  induction l with
  | nil => rfl
  | cons p t ih =>
    obtain ⟨a, w⟩ := p
    simp only [alookup] at h
    by_cases ha : a = k
    · simp [ha] at h
    · simp only [ha, if_false] at h
      simp [aerase, ha, ih h]

theorem setVar_eq (m : VMState) (v : Var) (x : Val) (sc : Scope) (h : Inv (varsG m)) :
    setVar .fixed m v x sc =
      { m with vars := ((varsG m).insert v x sc).1.bc, save := ((varsG m).insert v x sc).1.groups } := by
  obtain ⟨vars, save, cmds, active, font, fontSave, bit⟩ := m
  cases sc with
  | glob =>
    cases save with
    | nil => cases hb : alookup vars v <;> simp [setVar, varsG, GMap.insert, hb]
    | cons g gs =>
      have hp := purgeLoop_eq_map v (g :: gs)
      simp only [List.length_cons, List.map_cons] at hp
      cases hb : alookup vars v <;>
        simp [setVar, varsG, GMap.insert, hb, updateSaveStack, Variant.fixed, hp]
  | loc =>
    cases save with
    | nil => cases hb : alookup vars v <;> simp [setVar, varsG, GMap.insert, hb]
    | cons g gs =>
      cases hb : alookup vars v with
      | none =>
        have hgk : alookup g v = none := by
          cases hl : alookup g v with
          | none => rfl
          | some a =>
            have := h.visible g (by simp [varsG]) v (by simp [hl])
            simp [varsG, hb] at this
        simp [setVar, varsG, GMap.insert, hb, updateSaveStack, saveEntry, hgk]
      | some old =>
        cases hgk : alookup g v <;>
          simp [setVar, varsG, GMap.insert, hb, updateSaveStack, saveEntry, hgk]

/-! ## C. The `\global` flag -/

theorem globalDefs_setScope (m : VMState) (s : Scope) : globalDefs (setScope m s) = globalDefs m := rfl

/-- With the flag `Local` on entry, prefix + hook compute TeX's rule and hand back the same state
(flag `Local` again). -/
theorem hook_eq (m : VMState) (pre : Nat) (hb : m.scopeBit = .loc) :
    readAndResetGlobal (applyPrefix pre m) = (Spec.effScope (globalDefs m) pre, m) := by
  obtain ⟨vars, save, cmds, active, font, fontSave, bit⟩ := m
  simp only at hb
  subst hb
  by_cases hp : pre = 0
  · subst hp
    simp only [applyPrefix, if_true, readAndResetGlobal, Spec.effScope]
    by_cases h1 : globalDefs ⟨vars, save, cmds, active, font, fontSave, .loc⟩ < 0
    · simp [h1]
    · by_cases h2 : globalDefs ⟨vars, save, cmds, active, font, fontSave, .loc⟩ = 0
      · simp [h2]
      · simp [h1, h2]
  · simp only [applyPrefix, hp, if_false, prefixGlobal, readAndResetGlobal, globalDefs_setScope,
      Spec.effScope]
    by_cases h1 : globalDefs ⟨vars, save, cmds, active, font, fontSave, .loc⟩ < 0
    · have h2 : ¬ globalDefs ⟨vars, save, cmds, active, font, fontSave, .loc⟩ = 0 := by omega
      simp [h1, setScope, h2]
    · by_cases h2 : globalDefs ⟨vars, save, cmds, active, font, fontSave, .loc⟩ = 0
      · simp [h2, setScope]
      · simp [h1, h2, setScope]

/-! ## D. The simulation relation -/

/-- The fonts that the open groups will restore, innermost first. -/
def absFont : Nat → List (Option Nat) → List Nat
  | _, [] => []
  | cur, none :: r => cur :: absFont cur r
  | _, some f :: r => f :: absFont f r

/-- `es` is the list of environments whose four components are listed separately. -/
inductive Zip4 : List Env → List (Var → Option Val) → List (Nat → Option Cmd) →
    List (Nat → Option Cmd) → List Nat → Prop
  | nil : Zip4 [] [] [] [] []
  | cons (a : Var → Option Val) (b c : Nat → Option Cmd) (f : Nat)
      {es : List Env} {as : List (Var → Option Val)} {bs cs : List (Nat → Option Cmd)} {fs : List Nat} :
      Zip4 es as bs cs fs → Zip4 (⟨a, b, c, f⟩ :: es) (a :: as) (b :: bs) (c :: cs) (f :: fs)

section Zip
variable {es : List Env} {as : List (Var → Option Val)} {bs cs : List (Nat → Option Cmd)} {fs : List Nat}

theorem Zip4.mapVar (v : Var) (x : Val) (h : Zip4 es as bs cs fs) :
    Zip4 (es.map (Spec.setVarEnv v x)) (as.map (fun f => fupd f v (some x))) bs cs fs := by
  induction h with
  | nil => exact .nil
  | cons a b c f _ ih => exact .cons _ _ _ _ ih

theorem Zip4.mapCs (n : Nat) (c' : Cmd) (h : Zip4 es as bs cs fs) :
    Zip4 (es.map (Spec.setCmdEnv (.cs n) c')) as (bs.map (fun f => fupd f n (some c'))) cs fs := by
  induction h with
  | nil => exact .nil
  | cons a b c f _ ih => exact .cons _ _ _ _ ih

theorem Zip4.mapAct (n : Nat) (c' : Cmd) (h : Zip4 es as bs cs fs) :
    Zip4 (es.map (Spec.setCmdEnv (.act n) c')) as bs (cs.map (fun f => fupd f n (some c'))) fs := by
  induction h with
  | nil => exact .nil
  | cons a b c f _ ih => exact .cons _ _ _ _ ih

theorem Zip4.mapFont (f' : Nat) (h : Zip4 es as bs cs fs) :
    Zip4 (es.map (Spec.setFontEnv f')) as bs cs (fs.map (fun _ => f')) := by
  induction h with
  | nil => exact .nil
  | cons a b c f _ ih => exact .cons _ _ _ _ ih

theorem Zip4.nil_inv (h : Zip4 [] as bs cs fs) : as = [] ∧ bs = [] ∧ cs = [] ∧ fs = [] := by
  cases h; exact ⟨rfl, rfl, rfl, rfl⟩

theorem Zip4.cons_inv {e : Env} (h : Zip4 (e :: es) as bs cs fs) :
    ∃ as' bs' cs' fs', as = e.var :: as' ∧ bs = e.cs :: bs' ∧ cs = e.act :: cs' ∧ fs = e.font :: fs' ∧
      Zip4 es as' bs' cs' fs' := by
  cases h with
  | cons a b c f h' => exact ⟨_, _, _, _, rfl, rfl, rfl, rfl, h'⟩

end Zip

section AbsShape
variable {K V : Type} [DecidableEq K]

theorem absGroups_eq_nil (f : K → Option V) (gs : List (AList K (Action V)))
    (h : absGroups f gs = []) : gs = [] := by
  cases gs with
  | nil => rfl
  | cons g t => simp [absGroups] at h

theorem absGroups_eq_cons (f a : K → Option V) (gs : List (AList K (Action V)))
    (as : List (K → Option V)) (h : absGroups f gs = a :: as) :
    ∃ g t, gs = g :: t ∧ a = undo g f ∧ as = absGroups (undo g f) t := by
  cases gs with
  | nil => simp [absGroups] at h
  | cons g t =>
    simp only [absGroups, List.cons.injEq] at h
    exact ⟨g, t, rfl, h.1.symm, h.2.symm⟩

/-- Abstract state after `end_group` popped the log `g`. -/
theorem abs_endGroup (bc : AList K V) (g : AList K (Action V)) (gs : List (AList K (Action V)))
    (h : Inv ({ bc := bc, groups := g :: gs } : GMap K V)) :
    ({ bc := GMap.applyLog g bc, groups := gs } : GMap K V).abs =
      { cur := undo g (fun k => alookup bc k),
        saved := absGroups (undo g (fun k => alookup bc k)) gs } := by
  have hfun : (fun k => alookup (GMap.applyLog g bc) k) = undo g (fun k => alookup bc k) := by
    funext k; exact alookup_applyLog g bc (h.logsNodup g (by simp)) k
  simp only [GMap.abs, hfun]

theorem abs_insert (m : GMap K V) (k : K) (v : V) (sc : Scope) (h : Inv m) :
    (m.insert k v sc).1.abs = (m.abs.step (.insert k v sc)).1 :=
  (gmap_refines m (.insert k v sc) h).1

end AbsShape

theorem absFont_eq_nil (c : Nat) (l : List (Option Nat)) (h : absFont c l = []) : l = [] := by
  cases l with
  | nil => rfl
  | cons o t => cases o <;> simp [absFont] at h

theorem absFont_eq_cons (c f : Nat) (l : List (Option Nat)) (fs : List Nat)
    (h : absFont c l = f :: fs) :
    ∃ o t, l = o :: t ∧ f = (match o with | none => c | some x => x) ∧ fs = absFont f t := by
  cases l with
  | nil => simp [absFont] at h
  | cons o t =>
    cases o with
    | none =>
      simp only [absFont, List.cons.injEq] at h
      exact ⟨none, t, rfl, h.1.symm, by rw [← h.1]; exact h.2.symm⟩
    | some x =>
      simp only [absFont, List.cons.injEq] at h
      exact ⟨some x, t, rfl, h.1.symm, by rw [← h.1]; exact h.2.symm⟩

theorem absFont_map_none (f c : Nat) (l : List (Option Nat)) :
    absFont f (l.map (fun _ => none)) = (absFont c l).map (fun _ => f) := by
  induction l generalizing c with
  | nil => rfl
  | cons o t ih =>
    cases o with
    | none => simp [absFont, ih c]
    | some x => simp [absFont, ih x]

/-- The simulation relation: the flag is `Local`, the three scoped containers satisfy C20's
invariant and abstract, level by level, to the components of the specification's environments. -/
structure R (m : VMState) (s : Spec) : Prop where
  bit : m.scopeBit = .loc
  invV : Inv (varsG m)
  invC : Inv m.cmds
  invA : Inv m.active
  curVar : s.cur.var = (varsG m).abs.cur
  curCs : s.cur.cs = m.cmds.abs.cur
  curAct : s.cur.act = m.active.abs.cur
  curFont : s.cur.font = m.font
  saved : Zip4 s.saved (varsG m).abs.saved m.cmds.abs.saved m.active.abs.saved
    (absFont m.font m.fontSave)

theorem R_init : R VMState.init Spec.init :=
  ⟨rfl, inv_empty, inv_empty, inv_empty, rfl, rfl, rfl, rfl, .nil⟩

theorem R.globalDefs {m : VMState} {s : Spec} (h : R m s) : globalDefs m = s.globalDefs := by
  simp only [C01.globalDefs, Spec.globalDefs, h.curVar, GMap.abs, varsG]

theorem R.getCmd {m : VMState} {s : Spec} (h : R m s) (t : CTarget) :
    getCmd m t = Spec.getCmd s.cur t := by
  cases t with
  | cs n => simp only [C01.getCmd, Spec.getCmd, h.curCs, GMap.abs, GMap.get]
  | act c => simp only [C01.getCmd, Spec.getCmd, h.curAct, GMap.abs, GMap.get]

theorem R.resolveDef {m : VMState} {s : Spec} (h : R m s) (d : Def) :
    resolveDef m d = Spec.resolveDef s.cur d := by
  cases d <;> simp only [C01.resolveDef, Spec.resolveDef, h.getCmd]

theorem R.read {m : VMState} {s : Spec} (h : R m s) (t : Target) :
    readTarget m t = Spec.readTarget s.cur t := by
  cases t with
  | var v => simp only [readTarget, Spec.readTarget, h.curVar, GMap.abs, varsG]
  | cmd t => simp only [readTarget, Spec.readTarget, h.getCmd, h.curVar, GMap.abs, varsG]
  | font => simp only [readTarget, Spec.readTarget, h.curFont]

/-! ### one step of each kind -/

theorem R.beginGroup {m : VMState} {s : Spec} (h : R m s) :
    R (beginGroup .fixed m) { cur := s.cur, saved := s.cur :: s.saved } := by
  obtain ⟨hb, hV, hC, hA, cV, cC, cA, cF, hz⟩ := h
  obtain ⟨⟨var, cs, act, font⟩, saved⟩ := s
  simp only at cV cC cA cF hz
  subst cV cC cA cF
  refine ⟨hb, inv_beginGroup (varsG m) hV, ?_, ?_, rfl, rfl, rfl, rfl, ?_⟩
  · exact inv_beginGroup _ hC
  · exact inv_beginGroup _ hA
  · exact Zip4.cons _ _ _ _ hz

theorem R.assign {m : VMState} {s : Spec} (h : R m s) (pre : Nat) (v : Var) (x : Val) :
    R (assign .fixed m pre v x) (s.update (Spec.effScope s.globalDefs pre) (Spec.setVarEnv v x)) := by
  have hgd := h.globalDefs
  obtain ⟨hb, hV, hC, hA, cV, cC, cA, cF, hz⟩ := h
  simp only [C01.assign, hook_eq m pre hb, setVar_eq m v x _ hV, hgd]
  have habs := abs_insert (varsG m) v x (Spec.effScope s.globalDefs pre) hV
  have hinv := inv_insert (varsG m) v x (Spec.effScope s.globalDefs pre) hV
  cases hsc : Spec.effScope s.globalDefs pre with
  | loc =>
    rw [hsc] at habs hinv
    simp only [Snap.step] at habs
    refine ⟨hb, hinv, hC, hA, ?_, cC, cA, cF, ?_⟩
    · show fupd s.cur.var v (some x) = _
      rw [cV]; exact (congrArg Snap.cur habs).symm
    · show Zip4 s.saved ((varsG m).insert v x .loc).1.abs.saved _ _ _
      rw [congrArg Snap.saved habs]; exact hz
  | glob =>
    rw [hsc] at habs hinv
    simp only [Snap.step] at habs
    refine ⟨hb, hinv, hC, hA, ?_, cC, cA, cF, ?_⟩
    · show fupd s.cur.var v (some x) = _
      rw [cV]; exact (congrArg Snap.cur habs).symm
    · show Zip4 (s.saved.map (Spec.setVarEnv v x)) ((varsG m).insert v x .glob).1.abs.saved _ _ _
      rw [congrArg Snap.saved habs]; exact hz.mapVar v x

theorem R.insertCmd {m : VMState} {s : Spec} (h : R m s) (t : CTarget) (c : Cmd) (sc : Scope) :
    R (insertCmd m t c sc) (s.update sc (Spec.setCmdEnv t c)) := by
  obtain ⟨hb, hV, hC, hA, cV, cC, cA, cF, hz⟩ := h
  cases t with
  | cs n =>
    have habs := abs_insert m.cmds n c sc hC
    have hinv := inv_insert m.cmds n c sc hC
    cases sc with
    | loc =>
      simp only [Snap.step] at habs
      refine ⟨hb, hV, hinv, hA, cV, ?_, cA, cF, ?_⟩
      · show fupd s.cur.cs n (some c) = _
        rw [cC]; exact (congrArg Snap.cur habs).symm
      · show Zip4 s.saved _ (m.cmds.insert n c .loc).1.abs.saved _ _
        rw [congrArg Snap.saved habs]; exact hz
    | glob =>
      simp only [Snap.step] at habs
      refine ⟨hb, hV, hinv, hA, cV, ?_, cA, cF, ?_⟩
      · show fupd s.cur.cs n (some c) = _
        rw [cC]; exact (congrArg Snap.cur habs).symm
      · show Zip4 (s.saved.map (Spec.setCmdEnv (.cs n) c)) _ (m.cmds.insert n c .glob).1.abs.saved _ _
        rw [congrArg Snap.saved habs]; exact hz.mapCs n c
  | act n =>
    have habs := abs_insert m.active n c sc hA
    have hinv := inv_insert m.active n c sc hA
    cases sc with
    | loc =>
      simp only [Snap.step] at habs
      refine ⟨hb, hV, hC, hinv, cV, cC, ?_, cF, ?_⟩
      · show fupd s.cur.act n (some c) = _
        rw [cA]; exact (congrArg Snap.cur habs).symm
      · show Zip4 s.saved _ _ (m.active.insert n c .loc).1.abs.saved _
        rw [congrArg Snap.saved habs]; exact hz
    | glob =>
      simp only [Snap.step] at habs
      refine ⟨hb, hV, hC, hinv, cV, cC, ?_, cF, ?_⟩
      · show fupd s.cur.act n (some c) = _
        rw [cA]; exact (congrArg Snap.cur habs).symm
      · show Zip4 (s.saved.map (Spec.setCmdEnv (.act n) c)) _ _ (m.active.insert n c .glob).1.abs.saved _
        rw [congrArg Snap.saved habs]; exact hz.mapAct n c

theorem R.define {m : VMState} {s : Spec} (h : R m s) (pre : Nat) (t : CTarget) (d : Def) :
    ∃ m', define .fixed m pre t d = some m' ∧ R m' (s.step (.define pre t d)).1 := by
  have hgd := h.globalDefs
  have hres := h.resolveDef d
  simp only [C01.define, Variant.fixed, hook_eq m pre h.bit, Spec.step, hgd, hres]
  cases hr : Spec.resolveDef s.cur d with
  | none => exact ⟨m, by simp, h⟩
  | some c => exact ⟨_, by simp, h.insertCmd t c _⟩

theorem R.selectFont {m : VMState} {s : Spec} (h : R m s) (pre : Nat) (f : Nat) :
    R (selectFont m pre f) (s.update (Spec.effScope s.globalDefs pre) (Spec.setFontEnv f)) := by
  have hgd := h.globalDefs
  obtain ⟨hb, hV, hC, hA, cV, cC, cA, cF, hz⟩ := h
  simp only [C01.selectFont, hook_eq m pre hb, hgd]
  obtain ⟨vars, save, cmds, active, font, fontSave, bit⟩ := m
  cases hsc : Spec.effScope s.globalDefs pre with
  | loc =>
    refine ⟨hb, hV, hC, hA, cV, cC, cA, rfl, ?_⟩
    cases fontSave with
    | nil => exact hz
    | cons o t => cases o <;> exact hz
  | glob =>
    refine ⟨hb, hV, hC, hA, cV, cC, cA, rfl, ?_⟩
    dsimp only
    rw [absFont_map_none f font]; exact hz.mapFont f

theorem R.endGroup {m : VMState} {s : Spec} (h : R m s) :
    (s.saved = [] ∧ (step .fixed m .endGroup) = (m, .errNoGroup)) ∨
    (∃ e rest m', s.saved = e :: rest ∧ step .fixed m .endGroup = (m', .unit) ∧
      R m' { cur := e, saved := rest }) := by
  obtain ⟨hb, hV, hC, hA, cV, cC, cA, cF, hz⟩ := h
  obtain ⟨vars, save, ⟨cbc, cgs⟩, ⟨abc, ags⟩, font, fontSave, bit⟩ := m
  obtain ⟨cur, saved⟩ := s
  simp only [varsG, GMap.abs] at hz hV cV cC cA cF
  cases saved with
  | nil =>
    left
    obtain ⟨-, h2, -, -⟩ := hz.nil_inv
    have := absGroups_eq_nil _ _ h2
    subst this
    exact ⟨rfl, by simp [step, C01.endGroup, mapEndGroup, GMap.endGroup]⟩
  | cons e rest =>
    right
    obtain ⟨as', bs', cs', fs', h1, h2, h3, h4, hz'⟩ := hz.cons_inv
    obtain ⟨g1, t1, rfl, e1, r1⟩ := absGroups_eq_cons _ _ _ _ h1
    obtain ⟨g2, t2, rfl, e2, r2⟩ := absGroups_eq_cons _ _ _ _ h2
    obtain ⟨g3, t3, rfl, e3, r3⟩ := absGroups_eq_cons _ _ _ _ h3
    obtain ⟨o, t4, rfl, e4, r4⟩ := absFont_eq_cons _ _ _ _ h4
    have a1 := abs_endGroup vars g1 t1 hV
    have a2 := abs_endGroup cbc g2 t2 hC
    have a3 := abs_endGroup abc g3 t3 hA
    have i1 := inv_endGroup vars g1 t1 hV
    have i2 := inv_endGroup cbc g2 t2 hC
    have i3 := inv_endGroup abc g3 t3 hA
    subst r1 r2 r3 r4
    cases o with
    | none =>
      refine ⟨e, _, VMState.mk (GMap.applyLog g1 vars) t1 ⟨GMap.applyLog g2 cbc, t2⟩
        ⟨GMap.applyLog g3 abc, t3⟩ font t4 bit, rfl,
        by simp [step, C01.endGroup, mapEndGroup, GMap.endGroup, Variant.fixed], ?_⟩
      refine ⟨hb, i1, i2, i3, ?_, ?_, ?_, ?_, ?_⟩
      · show e.var = _; rw [e1]; exact (congrArg Snap.cur a1).symm
      · show e.cs = _; rw [e2]; exact (congrArg Snap.cur a2).symm
      · show e.act = _; rw [e3]; exact (congrArg Snap.cur a3).symm
      · exact e4
      · simp only [varsG]
        rw [congrArg Snap.saved a1, congrArg Snap.saved a2, congrArg Snap.saved a3]
        simp only [] at e4
        rw [← e4]; exact hz'
    | some x =>
      refine ⟨e, _, VMState.mk (GMap.applyLog g1 vars) t1 ⟨GMap.applyLog g2 cbc, t2⟩
        ⟨GMap.applyLog g3 abc, t3⟩ x t4 bit, rfl,
        by simp [step, C01.endGroup, mapEndGroup, GMap.endGroup, Variant.fixed], ?_⟩
      refine ⟨hb, i1, i2, i3, ?_, ?_, ?_, ?_, ?_⟩
      · show e.var = _; rw [e1]; exact (congrArg Snap.cur a1).symm
      · show e.cs = _; rw [e2]; exact (congrArg Snap.cur a2).symm
      · show e.act = _; rw [e3]; exact (congrArg Snap.cur a3).symm
      · exact e4
      · simp only [varsG]
        rw [congrArg Snap.saved a1, congrArg Snap.saved a2, congrArg Snap.saved a3]
        simp only [] at e4
        rw [← e4]; exact hz'

/-! ## E. Steps and programs -/

theorem R.step {m : VMState} {s : Spec} (h : R m s) (op : Op) :
    (step .fixed m op).2 = (s.step op).2 ∧ R (step .fixed m op).1 (s.step op).1 := by
  cases op with
  | beginGroup => exact ⟨rfl, h.beginGroup⟩
  | endGroup =>
    rcases h.endGroup with ⟨hs, hm⟩ | ⟨e, rest, m', hs, hm, hR⟩
    · rw [hm]; simp only [Spec.step, hs]; exact ⟨trivial, h⟩
    · rw [hm]; simp only [Spec.step, hs]; exact ⟨trivial, hR⟩
  | assign pre v x => exact ⟨rfl, h.assign pre v x⟩
  | define pre t d =>
    obtain ⟨m', hd, hR⟩ := h.define pre t d
    simp only [C01.step, hd]
    refine ⟨?_, hR⟩
    simp only [Spec.step]
    cases Spec.resolveDef s.cur d <;> rfl
  | selectFont pre f => exact ⟨rfl, h.selectFont pre f⟩
  | read t => exact ⟨by simp only [C01.step, Spec.step, h.read], h⟩

theorem refines_run_from {m : VMState} {s : Spec} (h : R m s) (ops : List Op) :
    (run .fixed m ops).2 = (s.run ops).2 ∧ R (run .fixed m ops).1 (s.run ops).1 := by
  induction ops generalizing m s with
  | nil => exact ⟨rfl, h⟩
  | cons op ops ih =>
    obtain ⟨h1, h2⟩ := h.step op
    simp only [run, Spec.run, h1]
    by_cases hf : (s.step op).2.fatal = true
    · simp only [hf, if_true]; exact ⟨trivial, h2⟩
    · obtain ⟨i1, i2⟩ := ih h2
      have hf' : (s.step op).2.fatal = false := by simpa using hf
      simp only [hf', Bool.false_eq_true, if_false]
      exact ⟨by rw [i1], i2⟩

/-- Every state reached by a program is related to the specification's state. -/
theorem R_reachable (ops : List Op) : R (run .fixed VMState.init ops).1 (Spec.init.run ops).1 :=
  (refines_run_from R_init ops).2

theorem run_append (cfg : Variant) (m : VMState) (a b : List Op)
    (h : ∀ o ∈ (run cfg m a).2, o.fatal = false) :
    run cfg m (a ++ b) = ((run cfg (run cfg m a).1 b).1, (run cfg m a).2 ++ (run cfg (run cfg m a).1 b).2) := by
  induction a generalizing m with
  | nil => rfl
  | cons op a ih =>
    simp only [List.cons_append, run] at h ⊢
    by_cases hf : (step cfg m op).2.fatal = true
    · simp only [hf, if_true] at h
      have := h (step cfg m op).2 (by simp)
      simp [hf] at this
    · have hf' : (step cfg m op).2.fatal = false := by simpa using hf
      simp only [hf', Bool.false_eq_true, if_false] at h ⊢
      have h' : ∀ o ∈ (run cfg (step cfg m op).1 a).2, o.fatal = false :=
        fun o ho => h o (by simp [ho])
      rw [ih _ h']
      simp

end C01
