import TexcraftModel.Lemmas.C09
namespace C09

/-- The state of the loop of `Tracer::trace` after the characters `p` have been passed. -/
def locAfter : List Char → Nat → Nat → Loc → Loc
  | [], _, _, loc => loc
  | c :: cs, ci, bi, loc =>
    if c = '\n' then locAfter cs (ci + 1) (bi + u8len c) ⟨loc.line + 1, ci + 1, bi + u8len c⟩
    else locAfter cs (ci + 1) (bi + u8len c) loc

theorem traceLoop_append (off : Nat) (pre rest : List Char) :
    ∀ (ci bi : Nat) (loc : Loc), ci + pre.length ≤ off →
      traceLoop off (pre ++ rest) ci bi loc
        = traceLoop off rest (ci + pre.length) (bi + byteLen pre) (locAfter pre ci bi loc) := by
  induction pre with
  | nil => intro ci bi loc _; simp [locAfter, byteLen]
  | cons c cs ih =>
    intro ci bi loc h
    simp only [List.length_cons] at h
    simp only [List.cons_append, traceLoop, locAfter, byteLen, List.length_cons]
    rw [if_neg (by omega)]
    split
    · rw [ih _ _ _ (by omega)]; congr 1 <;> omega
    · rw [ih _ _ _ (by omega)]; congr 1 <;> omega

theorem locAfter_snoc_newline (p : List Char) :
    ∀ (ci bi : Nat) (loc : Loc),
      locAfter (p ++ ['\n']) ci bi loc
        = ⟨loc.line + p.count '\n' + 1, ci + p.length + 1, bi + byteLen p + u8len '\n'⟩ := by
  induction p with
  | nil => intro ci bi loc; simp [locAfter, byteLen]
  | cons c cs ih =>
    intro ci bi loc
    simp only [List.cons_append, locAfter, byteLen, List.length_cons]
    split
    · rename_i h; subst h
      rw [ih]; simp only [List.count_cons_self]
      congr 1 <;> omega
    · rename_i h
      rw [ih, List.count_cons_of_ne (by intro h'; exact h h')]
      congr 1 <;> omega

theorem traceLoop_stop (lc suf : List Char) (hlc : ∀ c ∈ lc, c ≠ '\n') :
    ∀ (pos ci bi : Nat) (loc : Loc), pos ≤ lc.length →
      traceLoop (ci + pos) (lc ++ suf) ci bi loc = loc := by
  induction lc with
  | nil =>
    intro pos ci bi loc h
    have : pos = 0 := by simpa using h
    subst this
    cases suf with
    | nil => simp [traceLoop]
    | cons c cs => simp [traceLoop]
  | cons c cs ih =>
    intro pos ci bi loc h
    cases pos with
    | zero => simp [traceLoop]
    | succ p =>
      have hc : c ≠ '\n' := hlc c (by simp)
      have hcs : ∀ c ∈ cs, c ≠ '\n' := fun x hx => hlc x (by simp [hx])
      simp only [List.cons_append, traceLoop]
      rw [if_neg (by omega), if_neg hc]
      have := ih hcs p (ci + 1) (bi + u8len c) loc (by simpa using h)
      rwa [show ci + 1 + p = ci + (p + 1) by omega] at this

theorem lineOf_append (lc suf : List Char) (hlc : ∀ c ∈ lc, c ≠ '\n')
    (hsuf : suf = [] ∨ suf.head? = some '\n') : lineOf (lc ++ suf) = lc := by
  unfold lineOf
  induction lc with
  | nil =>
    rcases hsuf with rfl | h
    · simp
    · cases suf with
      | nil => simp
      | cons c cs => simp at h; subst h; simp
  | cons c cs ih =>
    have hc : c ≠ '\n' := hlc c (by simp)
    have hcs : ∀ c ∈ cs, c ≠ '\n' := fun x hx => hlc x (by simp [hx])
    have := ih hcs
    simp only [List.cons_append, List.takeWhile_cons, ne_eq, hc, not_false_eq_true, decide_true, ite_true]
    rw [this]

/-- Correctness of the location: for a token at character `pos` of the line `lc` that follows
the complete lines `pre`, `trace` reports line `1 + (number of newlines before)`, position `pos`
and the content `lc` — whatever multi-byte characters the text contains. `pos = lc.length` is the
position of the line's own end (the end-of-line character). -/
theorem trace_locates' (pre lc suf : List Char) (pos : Nat)
    (hlc : ∀ c ∈ lc, c ≠ '\n') (hpre : pre = [] ∨ pre.getLast? = some '\n')
    (hsuf : suf = [] ∨ suf.head? = some '\n') (hpos : pos ≤ lc.length) :
    trace (pre ++ lc ++ suf) (pre.length + pos) = .ok (1 + pre.count '\n') pos lc := by
  have hloop : traceLoop (pre.length + pos) (pre ++ lc ++ suf) 0 0 ⟨1, 0, 0⟩
      = ⟨1 + pre.count '\n', pre.length, byteLen pre⟩ := by
    rw [List.append_assoc, traceLoop_append _ pre (lc ++ suf) 0 0 _ (by omega)]
    simp only [Nat.zero_add]
    rw [traceLoop_stop lc suf hlc pos _ _ _ hpos]
    rcases hpre with rfl | h
    · simp [locAfter, byteLen]
    · obtain ⟨p, rfl⟩ := List.getLast?_eq_some_iff.mp h
      rw [locAfter_snoc_newline]
      simp [byteLen_append, byteLen, List.count_append]
      omega
  unfold trace
  simp only [hloop]
  rw [if_neg (by omega)]
  have hs : splitAtByte (pre ++ lc ++ suf) (byteLen pre) = some (pre, lc ++ suf) := by
    have := splitAtByte_take (pre ++ lc ++ suf) pre.length (by simp)
    simpa [List.append_assoc] using this
  rw [hs]
  simp only []
  rw [lineOf_append lc suf hlc hsuf]
  congr 1
  omega

/-! ### `trace_end_of_input` -/

theorem u8len_newline : u8len '\n' = 1 := by decide

/-- Both recorded line starts are byte offsets of character boundaries of the content. -/
theorem eoiLoop_inv (rest : List Char) :
    ∀ (pre : List Char) (ll lne : Nat × Nat),
      (∃ k, k ≤ pre.length ∧ ll.2 = byteLen (pre.take k)) →
      (∃ k, k ≤ pre.length ∧ lne.2 = byteLen (pre.take k)) →
      ∃ k, k ≤ (pre ++ rest).length ∧
        (eoiLoop rest (byteLen pre) ll lne).2 = byteLen ((pre ++ rest).take k) := by
  induction rest with
  | nil =>
    intro pre ll lne _ h2
    simpa [eoiLoop] using h2
  | cons c cs ih =>
    intro pre ll lne h1 h2
    have hb : byteLen (pre ++ [c]) = byteLen pre + u8len c := by simp [byteLen_append, byteLen]
    have happ : pre ++ c :: cs = (pre ++ [c]) ++ cs := by simp
    have lift : ∀ x : Nat × Nat, (∃ k, k ≤ pre.length ∧ x.2 = byteLen (pre.take k)) →
        ∃ k, k ≤ (pre ++ [c]).length ∧ x.2 = byteLen ((pre ++ [c]).take k) := by
      intro x ⟨k, hk, hx⟩
      exact ⟨k, by simp; omega, by rw [List.take_append_of_le_length hk]; exact hx⟩
    simp only [eoiLoop]
    rw [happ, ← hb]
    split
    · exact ih (pre ++ [c]) ll ll (lift ll h1) (lift ll h1)
    · split
      · rename_i hc
        refine ih (pre ++ [c]) (ll.1 + 1, byteLen pre + 1) lne ⟨pre.length + 1, by simp, ?_⟩ (lift lne h2)
        subst hc
        simp only []
        rw [List.take_of_length_le (by simp), hb, u8len_newline]
      · exact ih (pre ++ [c]) ll lne (lift ll h1) (lift lne h2)

end C09