import TexcraftModel.Lemmas.C06Print
/-!
C06 — `Scaled::new` = TeX §458 (`xn_over_d`, fraction adjustment, `attach_fraction`,
`attach_sign`) for each physical unit; generated per unit so that every product is by a literal.
-/
namespace C06

theorem scaledNew_pc (ip f : Int) (hip : 0 ≤ ip) (hip2 : ip ≤ 2147483647) (hf0 : 0 ≤ f) (hf : f ≤ 65536) :
    (match scaledNew ip f .pc with
      | .ok s => Spec.SR.ok s 0 0 | .overflow => Spec.SR.ok maxDimen 1 0 | .panic => Spec.SR.undef)
      = Spec.units ip f false 0 (.phys .pc) := by
  have hM : maxDimen = 1073741823 := rfl
  have hx := xnOverD_nonneg ip 12 1 hip (by omega) (by omega) (by omega) (by omega)
  obtain ⟨g, hg⟩ := specXnOverD_nonneg ip 12 1 hip (by omega) (by omega)
  unfold scaledNew
  simp only [TUnit.frac, hx, Spec.units, hg]
  rw [if_neg (by decide)]
  by_cases hbig : ip * 12 / 1 > maxDimen
  · rw [if_pos hbig, if_pos hbig]
    simp only [Spec.attachFraction]
    split
    · rw [attachSign_err _ _ _ _ _ (Or.inl rfl)]; simp [hM]
    · rw [attachSign_err _ _ _ _ _ (Or.inl rfl)]; simp [hM]
  · rw [if_neg hbig, if_neg hbig]
    have hr : 0 ≤ ip * 12 % 1 ∧ ip * 12 % 1 < 1 := by omega
    have h1 : fromInteger (ip * 12 % 1) = some (65536 * (ip * 12 % 1)) := by
      unfold fromInteger; rw [if_neg (by omega)]
    have h2 : nxPlusY f 12 (65536 * (ip * 12 % 1)) = .ok (f * 12 + 65536 * (ip * 12 % 1)) := by
      unfold nxPlusY
      rw [if_neg (by omega), if_pos (by omega)]
    have ht : 0 ≤ f * 12 + 65536 * (ip * 12 % 1) := by omega
    have hff : 0 ≤ (f * 12 + 65536 * (ip * 12 % 1)) / 1 := by omega
    simp only [h1, h2, Int.tdiv_eq_ediv_of_nonneg ht, Int.tdiv_eq_ediv_of_nonneg hff,
      Int.tmod_eq_emod_of_nonneg hff, unity]
    have e : (12 * f + 65536 * (ip * 12 % 1)) = (f * 12 + 65536 * (ip * 12 % 1)) := by omega
    rw [e]
    generalize hF : (f * 12 + 65536 * (ip * 12 % 1)) / 1 = F at *
    have hFb : F ≤ 16777216 := by omega
    have h3 : chk32 (ip * 12 / 1 + F / 65536) = .ok (ip * 12 / 1 + F / 65536) := by
      unfold chk32; rw [if_pos (by simp [inI32]; omega)]
    simp only [h3, Spec.attachFraction]
    by_cases hov : ip * 12 / 1 + F / 65536 ≥ 16384
    · have : fromInteger (ip * 12 / 1 + F / 65536) = none := by
        unfold fromInteger; rw [if_pos (Or.inl hov)]
      simp only [this]; rw [if_pos hov]
      rw [attachSign_err _ _ _ _ _ (Or.inl rfl)]; simp [hM]
    · have : fromInteger (ip * 12 / 1 + F / 65536) = some (65536 * (ip * 12 / 1 + F / 65536)) := by
        unfold fromInteger; rw [if_neg (by omega)]
      simp only [this]; rw [if_neg hov]
      have h4 : chk32 (65536 * (ip * 12 / 1 + F / 65536) + F % 65536)
          = .ok (65536 * (ip * 12 / 1 + F / 65536) + F % 65536) := by
        unfold chk32; rw [if_pos (by simp [inI32]; omega)]
      simp only [h4]
      rw [attachSign_ok _ _ _ _ (by omega)]
      simp; omega

theorem scaledNew_inch (ip f : Int) (hip : 0 ≤ ip) (hip2 : ip ≤ 2147483647) (hf0 : 0 ≤ f) (hf : f ≤ 65536) :
    (match scaledNew ip f .inch with
      | .ok s => Spec.SR.ok s 0 0 | .overflow => Spec.SR.ok maxDimen 1 0 | .panic => Spec.SR.undef)
      = Spec.units ip f false 0 (.phys .inch) := by
  have hM : maxDimen = 1073741823 := rfl
  have hx := xnOverD_nonneg ip 7227 100 hip (by omega) (by omega) (by omega) (by omega)
  obtain ⟨g, hg⟩ := specXnOverD_nonneg ip 7227 100 hip (by omega) (by omega)
  unfold scaledNew
  simp only [TUnit.frac, hx, Spec.units, hg]
  rw [if_neg (by decide)]
  by_cases hbig : ip * 7227 / 100 > maxDimen
  · rw [if_pos hbig, if_pos hbig]
    simp only [Spec.attachFraction]
    split
    · rw [attachSign_err _ _ _ _ _ (Or.inl rfl)]; simp [hM]
    · rw [attachSign_err _ _ _ _ _ (Or.inl rfl)]; simp [hM]
  · rw [if_neg hbig, if_neg hbig]
    have hr : 0 ≤ ip * 7227 % 100 ∧ ip * 7227 % 100 < 100 := by omega
    have h1 : fromInteger (ip * 7227 % 100) = some (65536 * (ip * 7227 % 100)) := by
      unfold fromInteger; rw [if_neg (by omega)]
    have h2 : nxPlusY f 7227 (65536 * (ip * 7227 % 100)) = .ok (f * 7227 + 65536 * (ip * 7227 % 100)) := by
      unfold nxPlusY
      rw [if_neg (by omega), if_pos (by omega)]
    have ht : 0 ≤ f * 7227 + 65536 * (ip * 7227 % 100) := by omega
    have hff : 0 ≤ (f * 7227 + 65536 * (ip * 7227 % 100)) / 100 := by omega
    simp only [h1, h2, Int.tdiv_eq_ediv_of_nonneg ht, Int.tdiv_eq_ediv_of_nonneg hff,
      Int.tmod_eq_emod_of_nonneg hff, unity]
    have e : (7227 * f + 65536 * (ip * 7227 % 100)) = (f * 7227 + 65536 * (ip * 7227 % 100)) := by omega
    rw [e]
    generalize hF : (f * 7227 + 65536 * (ip * 7227 % 100)) / 100 = F at *
    have hFb : F ≤ 16777216 := by omega
    have h3 : chk32 (ip * 7227 / 100 + F / 65536) = .ok (ip * 7227 / 100 + F / 65536) := by
      unfold chk32; rw [if_pos (by simp [inI32]; omega)]
    simp only [h3, Spec.attachFraction]
    by_cases hov : ip * 7227 / 100 + F / 65536 ≥ 16384
    · have : fromInteger (ip * 7227 / 100 + F / 65536) = none := by
        unfold fromInteger; rw [if_pos (Or.inl hov)]
      simp only [this]; rw [if_pos hov]
      rw [attachSign_err _ _ _ _ _ (Or.inl rfl)]; simp [hM]
    · have : fromInteger (ip * 7227 / 100 + F / 65536) = some (65536 * (ip * 7227 / 100 + F / 65536)) := by
        unfold fromInteger; rw [if_neg (by omega)]
      simp only [this]; rw [if_neg hov]
      have h4 : chk32 (65536 * (ip * 7227 / 100 + F / 65536) + F % 65536)
          = .ok (65536 * (ip * 7227 / 100 + F / 65536) + F % 65536) := by
        unfold chk32; rw [if_pos (by simp [inI32]; omega)]
      simp only [h4]
      rw [attachSign_ok _ _ _ _ (by omega)]
      simp; omega

theorem scaledNew_bp (ip f : Int) (hip : 0 ≤ ip) (hip2 : ip ≤ 2147483647) (hf0 : 0 ≤ f) (hf : f ≤ 65536) :
    (match scaledNew ip f .bp with
      | .ok s => Spec.SR.ok s 0 0 | .overflow => Spec.SR.ok maxDimen 1 0 | .panic => Spec.SR.undef)
      = Spec.units ip f false 0 (.phys .bp) := by
  have hM : maxDimen = 1073741823 := rfl
  have hx := xnOverD_nonneg ip 7227 7200 hip (by omega) (by omega) (by omega) (by omega)
  obtain ⟨g, hg⟩ := specXnOverD_nonneg ip 7227 7200 hip (by omega) (by omega)
  unfold scaledNew
  simp only [TUnit.frac, hx, Spec.units, hg]
  rw [if_neg (by decide)]
  by_cases hbig : ip * 7227 / 7200 > maxDimen
  · rw [if_pos hbig, if_pos hbig]
    simp only [Spec.attachFraction]
    split
    · rw [attachSign_err _ _ _ _ _ (Or.inl rfl)]; simp [hM]
    · rw [attachSign_err _ _ _ _ _ (Or.inl rfl)]; simp [hM]
  · rw [if_neg hbig, if_neg hbig]
    have hr : 0 ≤ ip * 7227 % 7200 ∧ ip * 7227 % 7200 < 7200 := by omega
    have h1 : fromInteger (ip * 7227 % 7200) = some (65536 * (ip * 7227 % 7200)) := by
      unfold fromInteger; rw [if_neg (by omega)]
    have h2 : nxPlusY f 7227 (65536 * (ip * 7227 % 7200)) = .ok (f * 7227 + 65536 * (ip * 7227 % 7200)) := by
      unfold nxPlusY
      rw [if_neg (by omega), if_pos (by omega)]
    have ht : 0 ≤ f * 7227 + 65536 * (ip * 7227 % 7200) := by omega
    have hff : 0 ≤ (f * 7227 + 65536 * (ip * 7227 % 7200)) / 7200 := by omega
    simp only [h1, h2, Int.tdiv_eq_ediv_of_nonneg ht, Int.tdiv_eq_ediv_of_nonneg hff,
      Int.tmod_eq_emod_of_nonneg hff, unity]
    have e : (7227 * f + 65536 * (ip * 7227 % 7200)) = (f * 7227 + 65536 * (ip * 7227 % 7200)) := by omega
    rw [e]
    generalize hF : (f * 7227 + 65536 * (ip * 7227 % 7200)) / 7200 = F at *
    have hFb : F ≤ 16777216 := by omega
    have h3 : chk32 (ip * 7227 / 7200 + F / 65536) = .ok (ip * 7227 / 7200 + F / 65536) := by
      unfold chk32; rw [if_pos (by simp [inI32]; omega)]
    simp only [h3, Spec.attachFraction]
    by_cases hov : ip * 7227 / 7200 + F / 65536 ≥ 16384
    · have : fromInteger (ip * 7227 / 7200 + F / 65536) = none := by
        unfold fromInteger; rw [if_pos (Or.inl hov)]
      simp only [this]; rw [if_pos hov]
      rw [attachSign_err _ _ _ _ _ (Or.inl rfl)]; simp [hM]
    · have : fromInteger (ip * 7227 / 7200 + F / 65536) = some (65536 * (ip * 7227 / 7200 + F / 65536)) := by
        unfold fromInteger; rw [if_neg (by omega)]
      simp only [this]; rw [if_neg hov]
      have h4 : chk32 (65536 * (ip * 7227 / 7200 + F / 65536) + F % 65536)
          = .ok (65536 * (ip * 7227 / 7200 + F / 65536) + F % 65536) := by
        unfold chk32; rw [if_pos (by simp [inI32]; omega)]
      simp only [h4]
      rw [attachSign_ok _ _ _ _ (by omega)]
      simp; omega

theorem scaledNew_cm (ip f : Int) (hip : 0 ≤ ip) (hip2 : ip ≤ 2147483647) (hf0 : 0 ≤ f) (hf : f ≤ 65536) :
    (match scaledNew ip f .cm with
      | .ok s => Spec.SR.ok s 0 0 | .overflow => Spec.SR.ok maxDimen 1 0 | .panic => Spec.SR.undef)
      = Spec.units ip f false 0 (.phys .cm) := by
  have hM : maxDimen = 1073741823 := rfl
  have hx := xnOverD_nonneg ip 7227 254 hip (by omega) (by omega) (by omega) (by omega)
  obtain ⟨g, hg⟩ := specXnOverD_nonneg ip 7227 254 hip (by omega) (by omega)
  unfold scaledNew
  simp only [TUnit.frac, hx, Spec.units, hg]
  rw [if_neg (by decide)]
  by_cases hbig : ip * 7227 / 254 > maxDimen
  · rw [if_pos hbig, if_pos hbig]
    simp only [Spec.attachFraction]
    split
    · rw [attachSign_err _ _ _ _ _ (Or.inl rfl)]; simp [hM]
    · rw [attachSign_err _ _ _ _ _ (Or.inl rfl)]; simp [hM]
  · rw [if_neg hbig, if_neg hbig]
    have hr : 0 ≤ ip * 7227 % 254 ∧ ip * 7227 % 254 < 254 := by omega
    have h1 : fromInteger (ip * 7227 % 254) = some (65536 * (ip * 7227 % 254)) := by
      unfold fromInteger; rw [if_neg (by omega)]
    have h2 : nxPlusY f 7227 (65536 * (ip * 7227 % 254)) = .ok (f * 7227 + 65536 * (ip * 7227 % 254)) := by
      unfold nxPlusY
      rw [if_neg (by omega), if_pos (by omega)]
    have ht : 0 ≤ f * 7227 + 65536 * (ip * 7227 % 254) := by omega
    have hff : 0 ≤ (f * 7227 + 65536 * (ip * 7227 % 254)) / 254 := by omega
    simp only [h1, h2, Int.tdiv_eq_ediv_of_nonneg ht, Int.tdiv_eq_ediv_of_nonneg hff,
      Int.tmod_eq_emod_of_nonneg hff, unity]
    have e : (7227 * f + 65536 * (ip * 7227 % 254)) = (f * 7227 + 65536 * (ip * 7227 % 254)) := by omega
    rw [e]
    generalize hF : (f * 7227 + 65536 * (ip * 7227 % 254)) / 254 = F at *
    have hFb : F ≤ 16777216 := by omega
    have h3 : chk32 (ip * 7227 / 254 + F / 65536) = .ok (ip * 7227 / 254 + F / 65536) := by
      unfold chk32; rw [if_pos (by simp [inI32]; omega)]
    simp only [h3, Spec.attachFraction]
    by_cases hov : ip * 7227 / 254 + F / 65536 ≥ 16384
    · have : fromInteger (ip * 7227 / 254 + F / 65536) = none := by
        unfold fromInteger; rw [if_pos (Or.inl hov)]
      simp only [this]; rw [if_pos hov]
      rw [attachSign_err _ _ _ _ _ (Or.inl rfl)]; simp [hM]
    · have : fromInteger (ip * 7227 / 254 + F / 65536) = some (65536 * (ip * 7227 / 254 + F / 65536)) := by
        unfold fromInteger; rw [if_neg (by omega)]
      simp only [this]; rw [if_neg hov]
      have h4 : chk32 (65536 * (ip * 7227 / 254 + F / 65536) + F % 65536)
          = .ok (65536 * (ip * 7227 / 254 + F / 65536) + F % 65536) := by
        unfold chk32; rw [if_pos (by simp [inI32]; omega)]
      simp only [h4]
      rw [attachSign_ok _ _ _ _ (by omega)]
      simp; omega

theorem scaledNew_mm (ip f : Int) (hip : 0 ≤ ip) (hip2 : ip ≤ 2147483647) (hf0 : 0 ≤ f) (hf : f ≤ 65536) :
    (match scaledNew ip f .mm with
      | .ok s => Spec.SR.ok s 0 0 | .overflow => Spec.SR.ok maxDimen 1 0 | .panic => Spec.SR.undef)
      = Spec.units ip f false 0 (.phys .mm) := by
  have hM : maxDimen = 1073741823 := rfl
  have hx := xnOverD_nonneg ip 7227 2540 hip (by omega) (by omega) (by omega) (by omega)
  obtain ⟨g, hg⟩ := specXnOverD_nonneg ip 7227 2540 hip (by omega) (by omega)
  unfold scaledNew
  simp only [TUnit.frac, hx, Spec.units, hg]
  rw [if_neg (by decide)]
  by_cases hbig : ip * 7227 / 2540 > maxDimen
  · rw [if_pos hbig, if_pos hbig]
    simp only [Spec.attachFraction]
    split
    · rw [attachSign_err _ _ _ _ _ (Or.inl rfl)]; simp [hM]
    · rw [attachSign_err _ _ _ _ _ (Or.inl rfl)]; simp [hM]
  · rw [if_neg hbig, if_neg hbig]
    have hr : 0 ≤ ip * 7227 % 2540 ∧ ip * 7227 % 2540 < 2540 := by omega
    have h1 : fromInteger (ip * 7227 % 2540) = some (65536 * (ip * 7227 % 2540)) := by
      unfold fromInteger; rw [if_neg (by omega)]
    have h2 : nxPlusY f 7227 (65536 * (ip * 7227 % 2540)) = .ok (f * 7227 + 65536 * (ip * 7227 % 2540)) := by
      unfold nxPlusY
      rw [if_neg (by omega), if_pos (by omega)]
    have ht : 0 ≤ f * 7227 + 65536 * (ip * 7227 % 2540) := by omega
    have hff : 0 ≤ (f * 7227 + 65536 * (ip * 7227 % 2540)) / 2540 := by omega
    simp only [h1, h2, Int.tdiv_eq_ediv_of_nonneg ht, Int.tdiv_eq_ediv_of_nonneg hff,
      Int.tmod_eq_emod_of_nonneg hff, unity]
    have e : (7227 * f + 65536 * (ip * 7227 % 2540)) = (f * 7227 + 65536 * (ip * 7227 % 2540)) := by omega
    rw [e]
    generalize hF : (f * 7227 + 65536 * (ip * 7227 % 2540)) / 2540 = F at *
    have hFb : F ≤ 16777216 := by omega
    have h3 : chk32 (ip * 7227 / 2540 + F / 65536) = .ok (ip * 7227 / 2540 + F / 65536) := by
      unfold chk32; rw [if_pos (by simp [inI32]; omega)]
    simp only [h3, Spec.attachFraction]
    by_cases hov : ip * 7227 / 2540 + F / 65536 ≥ 16384
    · have : fromInteger (ip * 7227 / 2540 + F / 65536) = none := by
        unfold fromInteger; rw [if_pos (Or.inl hov)]
      simp only [this]; rw [if_pos hov]
      rw [attachSign_err _ _ _ _ _ (Or.inl rfl)]; simp [hM]
    · have : fromInteger (ip * 7227 / 2540 + F / 65536) = some (65536 * (ip * 7227 / 2540 + F / 65536)) := by
        unfold fromInteger; rw [if_neg (by omega)]
      simp only [this]; rw [if_neg hov]
      have h4 : chk32 (65536 * (ip * 7227 / 2540 + F / 65536) + F % 65536)
          = .ok (65536 * (ip * 7227 / 2540 + F / 65536) + F % 65536) := by
        unfold chk32; rw [if_pos (by simp [inI32]; omega)]
      simp only [h4]
      rw [attachSign_ok _ _ _ _ (by omega)]
      simp; omega

theorem scaledNew_dd (ip f : Int) (hip : 0 ≤ ip) (hip2 : ip ≤ 2147483647) (hf0 : 0 ≤ f) (hf : f ≤ 65536) :
    (match scaledNew ip f .dd with
      | .ok s => Spec.SR.ok s 0 0 | .overflow => Spec.SR.ok maxDimen 1 0 | .panic => Spec.SR.undef)
      = Spec.units ip f false 0 (.phys .dd) := by
  have hM : maxDimen = 1073741823 := rfl
  have hx := xnOverD_nonneg ip 1238 1157 hip (by omega) (by omega) (by omega) (by omega)
  obtain ⟨g, hg⟩ := specXnOverD_nonneg ip 1238 1157 hip (by omega) (by omega)
  unfold scaledNew
  simp only [TUnit.frac, hx, Spec.units, hg]
  rw [if_neg (by decide)]
  by_cases hbig : ip * 1238 / 1157 > maxDimen
  · rw [if_pos hbig, if_pos hbig]
    simp only [Spec.attachFraction]
    split
    · rw [attachSign_err _ _ _ _ _ (Or.inl rfl)]; simp [hM]
    · rw [attachSign_err _ _ _ _ _ (Or.inl rfl)]; simp [hM]
  · rw [if_neg hbig, if_neg hbig]
    have hr : 0 ≤ ip * 1238 % 1157 ∧ ip * 1238 % 1157 < 1157 := by omega
    have h1 : fromInteger (ip * 1238 % 1157) = some (65536 * (ip * 1238 % 1157)) := by
      unfold fromInteger; rw [if_neg (by omega)]
    have h2 : nxPlusY f 1238 (65536 * (ip * 1238 % 1157)) = .ok (f * 1238 + 65536 * (ip * 1238 % 1157)) := by
      unfold nxPlusY
      rw [if_neg (by omega), if_pos (by omega)]
    have ht : 0 ≤ f * 1238 + 65536 * (ip * 1238 % 1157) := by omega
    have hff : 0 ≤ (f * 1238 + 65536 * (ip * 1238 % 1157)) / 1157 := by omega
    simp only [h1, h2, Int.tdiv_eq_ediv_of_nonneg ht, Int.tdiv_eq_ediv_of_nonneg hff,
      Int.tmod_eq_emod_of_nonneg hff, unity]
    have e : (1238 * f + 65536 * (ip * 1238 % 1157)) = (f * 1238 + 65536 * (ip * 1238 % 1157)) := by omega
    rw [e]
    generalize hF : (f * 1238 + 65536 * (ip * 1238 % 1157)) / 1157 = F at *
    have hFb : F ≤ 16777216 := by omega
    have h3 : chk32 (ip * 1238 / 1157 + F / 65536) = .ok (ip * 1238 / 1157 + F / 65536) := by
      unfold chk32; rw [if_pos (by simp [inI32]; omega)]
    simp only [h3, Spec.attachFraction]
    by_cases hov : ip * 1238 / 1157 + F / 65536 ≥ 16384
    · have : fromInteger (ip * 1238 / 1157 + F / 65536) = none := by
        unfold fromInteger; rw [if_pos (Or.inl hov)]
      simp only [this]; rw [if_pos hov]
      rw [attachSign_err _ _ _ _ _ (Or.inl rfl)]; simp [hM]
    · have : fromInteger (ip * 1238 / 1157 + F / 65536) = some (65536 * (ip * 1238 / 1157 + F / 65536)) := by
        unfold fromInteger; rw [if_neg (by omega)]
      simp only [this]; rw [if_neg hov]
      have h4 : chk32 (65536 * (ip * 1238 / 1157 + F / 65536) + F % 65536)
          = .ok (65536 * (ip * 1238 / 1157 + F / 65536) + F % 65536) := by
        unfold chk32; rw [if_pos (by simp [inI32]; omega)]
      simp only [h4]
      rw [attachSign_ok _ _ _ _ (by omega)]
      simp; omega

theorem scaledNew_cc (ip f : Int) (hip : 0 ≤ ip) (hip2 : ip ≤ 2147483647) (hf0 : 0 ≤ f) (hf : f ≤ 65536) :
    (match scaledNew ip f .cc with
      | .ok s => Spec.SR.ok s 0 0 | .overflow => Spec.SR.ok maxDimen 1 0 | .panic => Spec.SR.undef)
      = Spec.units ip f false 0 (.phys .cc) := by
  have hM : maxDimen = 1073741823 := rfl
  have hx := xnOverD_nonneg ip 14856 1157 hip (by omega) (by omega) (by omega) (by omega)
  obtain ⟨g, hg⟩ := specXnOverD_nonneg ip 14856 1157 hip (by omega) (by omega)
  unfold scaledNew
  simp only [TUnit.frac, hx, Spec.units, hg]
  rw [if_neg (by decide)]
  by_cases hbig : ip * 14856 / 1157 > maxDimen
  · rw [if_pos hbig, if_pos hbig]
    simp only [Spec.attachFraction]
    split
    · rw [attachSign_err _ _ _ _ _ (Or.inl rfl)]; simp [hM]
    · rw [attachSign_err _ _ _ _ _ (Or.inl rfl)]; simp [hM]
  · rw [if_neg hbig, if_neg hbig]
    have hr : 0 ≤ ip * 14856 % 1157 ∧ ip * 14856 % 1157 < 1157 := by omega
    have h1 : fromInteger (ip * 14856 % 1157) = some (65536 * (ip * 14856 % 1157)) := by
      unfold fromInteger; rw [if_neg (by omega)]
    have h2 : nxPlusY f 14856 (65536 * (ip * 14856 % 1157)) = .ok (f * 14856 + 65536 * (ip * 14856 % 1157)) := by
      unfold nxPlusY
      rw [if_neg (by omega), if_pos (by omega)]
    have ht : 0 ≤ f * 14856 + 65536 * (ip * 14856 % 1157) := by omega
    have hff : 0 ≤ (f * 14856 + 65536 * (ip * 14856 % 1157)) / 1157 := by omega
    simp only [h1, h2, Int.tdiv_eq_ediv_of_nonneg ht, Int.tdiv_eq_ediv_of_nonneg hff,
      Int.tmod_eq_emod_of_nonneg hff, unity]
    have e : (14856 * f + 65536 * (ip * 14856 % 1157)) = (f * 14856 + 65536 * (ip * 14856 % 1157)) := by omega
    rw [e]
    generalize hF : (f * 14856 + 65536 * (ip * 14856 % 1157)) / 1157 = F at *
    have hFb : F ≤ 16777216 := by omega
    have h3 : chk32 (ip * 14856 / 1157 + F / 65536) = .ok (ip * 14856 / 1157 + F / 65536) := by
      unfold chk32; rw [if_pos (by simp [inI32]; omega)]
    simp only [h3, Spec.attachFraction]
    by_cases hov : ip * 14856 / 1157 + F / 65536 ≥ 16384
    · have : fromInteger (ip * 14856 / 1157 + F / 65536) = none := by
        unfold fromInteger; rw [if_pos (Or.inl hov)]
      simp only [this]; rw [if_pos hov]
      rw [attachSign_err _ _ _ _ _ (Or.inl rfl)]; simp [hM]
    · have : fromInteger (ip * 14856 / 1157 + F / 65536) = some (65536 * (ip * 14856 / 1157 + F / 65536)) := by
        unfold fromInteger; rw [if_neg (by omega)]
      simp only [this]; rw [if_neg hov]
      have h4 : chk32 (65536 * (ip * 14856 / 1157 + F / 65536) + F % 65536)
          = .ok (65536 * (ip * 14856 / 1157 + F / 65536) + F % 65536) := by
        unfold chk32; rw [if_pos (by simp [inI32]; omega)]
      simp only [h4]
      rw [attachSign_ok _ _ _ _ (by omega)]
      simp; omega



theorem scaledNew_pt' (ip f : Int) (hip : 0 ≤ ip) (hip2 : ip ≤ 2147483647) (hf0 : 0 ≤ f) (hf : f ≤ 65536) :
    (match scaledNew ip f .pt with
      | .ok s => Spec.SR.ok s 0 0 | .overflow => Spec.SR.ok maxDimen 1 0 | .panic => Spec.SR.undef)
      = Spec.units ip f false 0 (.phys .pt) := by
  have hM : maxDimen = 1073741823 := rfl
  rw [scaledNew_pt ip f hip hf0 hf]
  simp only [Spec.units, Spec.attachFraction]
  by_cases h1 : ip ≥ 16384
  · rw [if_pos (by omega), if_pos h1, attachSign_err _ _ _ _ _ (Or.inl rfl)]; simp [hM]
  · rw [if_neg h1]
    by_cases h2 : ip + f / 65536 ≥ 16384
    · rw [if_pos h2, attachSign_err _ _ _ _ _ (Or.inr (by omega))]; simp [hM]
    · rw [if_neg h2, attachSign_ok _ _ _ _ (by omega)]; simp; omega

theorem scaledNew_sp (ip f : Int) (hip : 0 ≤ ip) (hip2 : ip ≤ 2147483647) :
    (match scaledNew ip f .sp with
      | .ok s => Spec.SR.ok s 0 0 | .overflow => Spec.SR.ok maxDimen 1 0 | .panic => Spec.SR.undef)
      = Spec.units ip f false 0 (.phys .sp) := by
  have hM : maxDimen = 1073741823 := rfl
  unfold scaledNew
  simp only [Spec.units]
  rw [if_pos trivial]
  by_cases h1 : ip > maxDimen
  · rw [if_pos h1, attachSign_err _ _ _ _ _ (Or.inr (by omega))]; simp [hM]
  · rw [if_neg h1, attachSign_ok _ _ _ _ (by omega)]; simp

/-- `Scaled::new` = TeX §458 for every unit. In particular it never panics: the two `expect`s
are unreachable for a non-negative integer part and a fraction in `[0, 2^16]`. -/
theorem scaledNew_eq (u : TUnit) (ip f : Int) (hip : 0 ≤ ip) (hip2 : ip ≤ 2147483647) (hf0 : 0 ≤ f)
    (hf : f ≤ 65536) :
    (match scaledNew ip f u with
      | .ok s => Spec.SR.ok s 0 0 | .overflow => Spec.SR.ok maxDimen 1 0 | .panic => Spec.SR.undef)
      = Spec.units ip f false 0 (.phys u) := by
  cases u
  · exact scaledNew_pt' ip f hip hip2 hf0 hf
  · exact scaledNew_pc ip f hip hip2 hf0 hf
  · exact scaledNew_inch ip f hip hip2 hf0 hf
  · exact scaledNew_bp ip f hip hip2 hf0 hf
  · exact scaledNew_cm ip f hip hip2 hf0 hf
  · exact scaledNew_mm ip f hip hip2 hf0 hf
  · exact scaledNew_dd ip f hip hip2 hf0 hf
  · exact scaledNew_cc ip f hip hip2 hf0 hf
  · exact scaledNew_sp ip f hip hip2

/-- `Spec.units` never answers `undef`. -/
theorem units_defined (cv f : Int) (neg : Bool) (nerr : Nat) (u : UnitSpec) :
    ∃ v e o, Spec.units cv f neg nerr u = .ok v e o := by
  have as : ∀ cv ae neg nerr order, ∃ v e o, Spec.attachSign cv ae neg nerr order = .ok v e o := by
    intro cv ae neg nerr order; unfold Spec.attachSign; exact ⟨_, _, _, rfl⟩
  have af : ∀ cv f ae neg nerr order, ∃ v e o, Spec.attachFraction cv f ae neg nerr order = .ok v e o := by
    intro cv f ae neg nerr order; unfold Spec.attachFraction; split <;> exact as _ _ _ _ _
  cases u with
  | fil ls => exact af _ _ _ _ _ _
  | internal v => simp only [Spec.units]; exact as _ _ _ _ _
  | bad => exact af _ _ _ _ _ _
  | phys pu =>
    cases pu <;> simp only [Spec.units] <;> first | exact af _ _ _ _ _ _ | exact as _ _ _ _ _

theorem scaledNew_no_panic (u : TUnit) (ip f : Int) (hip : 0 ≤ ip) (hip2 : ip ≤ 2147483647) (hf0 : 0 ≤ f)
    (hf : f ≤ 65536) : scaledNew ip f u ≠ .panic := by
  intro h
  have := scaledNew_eq u ip f hip hip2 hf0 hf
  rw [h] at this
  obtain ⟨v, e, o, hv⟩ := units_defined ip f false 0 (.phys u)
  rw [hv] at this
  simp at this


end C06
