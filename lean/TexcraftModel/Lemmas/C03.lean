import TexcraftModel.Model.C03

/-! Helper lemmas for C03: key accounting of the model (`Raw.Inv`), fuel sufficiency. -/
namespace C03

/-! ### bytes and characters -/

theorem utf8Len_pos (c : Char) : 1 ≤ utf8Len c := by
  unfold utf8Len; split <;> (try split) <;> (try split) <;> omega

theorem length_le_byteLen (l : List Char) : l.length ≤ byteLen l := by
  induction l with
  | nil => simp [byteLen]
  | cons c t ih => simp only [byteLen, List.length_cons]; have := utf8Len_pos c; omega

theorem byteLen_append (a b : List Char) : byteLen (a ++ b) = byteLen a + byteLen b := by
  induction a with
  | nil => simp [byteLen]
  | cons c t ih => simp only [List.cons_append, byteLen, ih]; omega

theorem length_lt_keyLimit (src : List Char) : src.length < keyLimit src := by
  have := length_le_byteLen src
  unfold keyLimit; split <;> omega

/-! ### the line loop of `start_new_line` -/

theorem scanLineGo_len (src : List Char) : ∀ (acc : List Char) (p : Nat),
    (scanLineGo acc p src).1.length + (scanLineGo acc p src).2.1 + (scanLineGo acc p src).2.2.length
      = acc.length + p + src.length ∧
    ((scanLineGo acc p src).2.1 = 0 → (scanLineGo acc p src).2.2 = []) := by
  induction src with
  | nil => intro acc p; simp [scanLineGo]
  | cons c t ih =>
    intro acc p
    simp only [scanLineGo]
    split
    · simp; omega
    · split
      · have := ih acc (p + 1); simp only [List.length_cons]; exact ⟨by omega, this.2⟩
      · have := ih (acc ++ List.replicate p ' ' ++ [c]) 0
        simp only [List.length_append, List.length_replicate, List.length_cons, List.length_nil] at this ⊢
        exact ⟨by omega, this.2⟩

/-! ### the key-accounting invariant -/

/-- For a source of `N` characters: the keys still to be handed out fit; one extra key (for an
end-line character at the end of a text without final newline) only when the source is used up. -/
structure Raw.Inv (N : Nat) (r : Raw) : Prop where
  lim : N < r.limit
  le1 : r.key + r.line.length + r.trimmed + r.rest.length ≤ N + 1
  le0 : r.rest ≠ [] → r.key + r.line.length + r.trimmed + r.rest.length ≤ N

theorem Raw.Inv.init (src : List Char) : (Lexer.init src).raw.Inv src.length := by
  constructor <;> simp [Lexer.init, length_lt_keyLimit]

theorem Raw.Inv.endLine {N : Nat} {r : Raw} (h : r.Inv N) : r.endLine.Inv N := by
  obtain ⟨h1, h2, h3⟩ := h
  constructor <;> simp_all [Raw.endLine] <;> omega

theorem Raw.startNewLine_spec {N : Nat} {cfg : Cfg} {r r' : Raw} (h : r.Inv N) (hl : r.line = [])
    (hs : r.startNewLine cfg = (true, r')) :
    r'.Inv N ∧ 3 * r'.rest.length + r'.line.length < 3 * r.rest.length := by
  obtain ⟨h1, h2, h3⟩ := h
  unfold Raw.startNewLine at hs
  split at hs
  · simp at hs
  · rename_i c t hr
    have hlen := scanLineGo_len (c :: t) [] 0
    split at hs
    rename_i content nsp rest' hgo
    rw [hgo] at hlen
    simp only [List.length_nil, List.length_cons] at hlen
    have hz : nsp = 0 → rest'.length = 0 := fun h0 => by simp [hlen.2 h0]
    have h3' := h3 (by simp [hr])
    rw [hr, hl] at h3' h2
    simp only [List.length_cons, List.length_nil] at h3' h2
    split at hs <;> simp only [Prod.mk.injEq, true_and] at hs <;> subst hs
    · refine ⟨⟨h1, ?_, ?_⟩, ?_⟩ <;> simp only [hl, hr, List.length_nil, List.length_cons] <;> omega
    · refine ⟨⟨h1, ?_, ?_⟩, ?_⟩ <;>
        simp only [hl, hr, List.length_nil, List.length_cons, List.length_append]
      · omega
      · intro hne
        have : nsp ≠ 0 := fun h0 => hne (hlen.2 h0)
        omega
      · omega

theorem Raw.next_spec {N : Nat} {r : Raw} (h : r.Inv N) :
    (r.line = [] ∧ r.next = .eol) ∨
    (∃ c l, r.line = c :: l ∧ r.next = .got c r.key { r with line := l, key := r.key + 1 } ∧
      r.key ≤ N ∧ Raw.Inv N { r with line := l, key := r.key + 1 }) := by
  obtain ⟨h1, h2, h3⟩ := h
  unfold Raw.next
  split
  · left; simp_all
  · rename_i c l hl
    right
    refine ⟨c, l, hl, ?_, ?_, ?_⟩
    · simp only [hl, List.length_cons] at h2; have hk : r.key < r.limit := by omega
      simp [hk]
    · simp only [hl, List.length_cons] at h2; omega
    · simp only [hl, List.length_cons] at h2 h3
      refine ⟨h1, ?_, ?_⟩
      · show r.key + 1 + l.length + r.trimmed + r.rest.length ≤ N + 1; omega
      · intro hne; have h3' := h3 hne
        show r.key + 1 + l.length + r.trimmed + r.rest.length ≤ N; omega

/-- The caret function in terms of the characters from `char_2` on. -/
def caretOn (r : Raw) (c1 : Char) (skip : Nat) : List Char → Cr
  | c2 :: c3 :: l3 =>
    if c2 ≠ c1 then .no
    else if 128 ≤ c3.toNat then .no
    else
      match hexVal c3, l3.head?.bind hexVal with
      | some hi, some lo =>
        if r.key + (skip + 2) ≤ r.limit then
          .yes { r with key := r.key + (skip + 2), line := Char.ofNat (16 * hi + lo) :: l3.drop 1 }
        else .panic
      | _, _ =>
        if r.key + (skip + 1) ≤ r.limit then
          .yes { r with key := r.key + (skip + 1), line := caretChar c3 :: l3 }
        else .panic
  | _ => .no

theorem Raw.caret_eq (r : Raw) (c1 : Char) (b : Bool) :
    r.caret c1 b = caretOn r c1 (if b then 0 else 1) (r.line.drop (if b then 0 else 1)) := by
  unfold Raw.caret caretOn
  rfl

theorem caretOn_spec {N : Nat} {r : Raw} (h : r.Inv N) (c1 : Char) (skip : Nat) (l2 : List Char)
    (hl : r.line.length = skip + l2.length) :
    caretOn r c1 skip l2 = .no ∨
    ∃ r', caretOn r c1 skip l2 = .yes r' ∧ r'.Inv N ∧ r'.line.length + skip < r.line.length ∧
      r'.rest = r.rest := by
  obtain ⟨h1, h2, h3⟩ := h
  unfold caretOn
  split
  · rename_i c2 c3 l3
    simp only [List.length_cons] at hl
    split
    · left; rfl
    · split
      · left; rfl
      · right
        split
        · rename_i hi lo hhi hlo
          have hl3' : (l3.drop 1).length + 1 = l3.length := by
            cases l3 with
            | nil => simp at hlo
            | cons a t => simp
          have hk : r.key + (skip + 2) ≤ r.limit := by omega
          rw [if_pos hk]
          refine ⟨_, rfl, ⟨h1, ?_, ?_⟩, ?_, rfl⟩
          · simp only [List.length_cons]; omega
          · intro hne; have := h3 hne; simp only [List.length_cons]; omega
          · simp only [List.length_cons]; omega
        · have hk : r.key + (skip + 1) ≤ r.limit := by omega
          rw [if_pos hk]
          refine ⟨_, rfl, ⟨h1, ?_, ?_⟩, ?_, rfl⟩
          · simp only [List.length_cons]; omega
          · intro hne; have := h3 hne; simp only [List.length_cons]; omega
          · simp only [List.length_cons]; omega
  · left; rfl

theorem Raw.caret_spec {N : Nat} {r : Raw} (h : r.Inv N) (c1 : Char) (b : Bool)
    (hb : b = false → r.line ≠ []) :
    r.caret c1 b = .no ∨
    ∃ r', r.caret c1 b = .yes r' ∧ r'.Inv N ∧ r'.line.length < r.line.length ∧ r'.rest = r.rest := by
  rw [Raw.caret_eq]
  have hl : r.line.length = (if b then 0 else 1) + (r.line.drop (if b then 0 else 1)).length := by
    cases b
    · have := hb rfl
      cases hr : r.line with
      | nil => exact absurd hr this
      | cons a t => simp; omega
    · simp
  rcases caretOn_spec h c1 _ _ hl with h0 | ⟨r', e, i, l, rr⟩
  · left; exact h0
  · right; exact ⟨r', e, i, by omega, rr⟩

theorem readLetters_spec {N : Nat} (cfg : Cfg) : ∀ (f : Nat) (acc : List Char) (r : Raw),
    r.Inv N → r.line.length < f →
    ∃ name r', readLetters cfg f acc r = .ok (name, r') ∧ r'.Inv N ∧
      r'.line.length ≤ r.line.length ∧ r'.rest = r.rest := by
  intro f
  induction f with
  | zero => intro acc r _ hf; omega
  | succ f ih =>
    intro acc r h hf
    rcases Raw.next_spec h with ⟨hl, _⟩ | ⟨c, l, hl, _, hk, hinv⟩
    · exact ⟨acc, r, by simp [readLetters, hl], h, Nat.le_refl _, rfl⟩
    · have hlim : ¬ r.limit ≤ r.key := by have := h.lim; omega
      simp only [readLetters, hl, if_neg hlim]
      split
      · have hf' : ({ r with line := l, key := r.key + 1 } : Raw).line.length < f := by
          simp only [hl, List.length_cons] at hf; simp; omega
        obtain ⟨name, r', e, i, le, rr⟩ := ih (acc ++ [c]) _ hinv hf'
        refine ⟨name, r', e, i, ?_, rr⟩
        simp only [List.length_cons]; simp at le; omega
      · rcases Raw.caret_spec h c false (by simp [hl]) with h0 | ⟨r1, e1, i1, l1, rr1⟩
        · rw [h0]; exact ⟨acc, r, rfl, h, by simp [hl], rfl⟩
        · rw [e1]
          obtain ⟨name, r', e, i, le, rr⟩ := ih acc r1 i1 (by omega)
          exact ⟨name, r', e, i, by simp only [hl] at l1 ⊢; omega, by rw [rr, rr1]⟩
      · exact ⟨acc, r, rfl, h, by simp [hl], rfl⟩

theorem readCS_spec {N : Nat} (cfg : Cfg) : ∀ (f : Nat) (r : Raw),
    r.Inv N → r.line.length < f →
    ∃ name st r', readCS cfg f r = .ok (name, st, r') ∧ r'.Inv N ∧
      r'.line.length ≤ r.line.length ∧ r'.rest = r.rest := by
  intro f
  induction f with
  | zero => intro r _ hf; omega
  | succ f ih =>
    intro r h hf
    rcases Raw.next_spec h with ⟨hl, hn⟩ | ⟨c, l, hl, hn, hk, hinv⟩
    · exact ⟨[], .newLine, r, by simp [readCS, hn], h, Nat.le_refl _, rfl⟩
    · simp only [readCS, hn]
      have hlen : r.line.length = l.length + 1 := by simp [hl]
      split
      · obtain ⟨name, r', e, i, le, rr⟩ :=
          readLetters_spec (N := N) cfg (l.length + 1) [c] _ hinv (by simp)
        rw [e]
        exact ⟨name, .skipBlanks, r', rfl, i, by simp at le; omega, rr⟩
      · rcases Raw.caret_spec hinv c true (by simp) with h0 | ⟨r1, e1, i1, l1, rr1⟩
        · rw [h0]; exact ⟨[c], .midLine, _, rfl, hinv, by simp [hl], rfl⟩
        · rw [e1]
          simp at l1
          obtain ⟨name, st, r', e, i, le, rr⟩ := ih r1 i1 (by omega)
          exact ⟨name, st, r', e, i, by omega, by rw [rr, rr1]⟩
      · exact ⟨[c], .skipBlanks, _, rfl, hinv, by simp [hl], rfl⟩
      · exact ⟨[c], .midLine, _, rfl, hinv, by simp [hl], rfl⟩

/-- The key of a result (if it has one) is at most `N`. -/
def Res.keyLe (N : Nat) : Res Nat → Prop
  | .token _ k => k ≤ N
  | .invalid _ k => k ≤ N
  | _ => True

/-- A result after which lexing goes on. -/
def Res.goesOn {P : Type} : Res P → Bool
  | .token _ _ => true
  | .invalid _ _ => true
  | .endOfLine => true
  | _ => false

/-- What one call of `Lexer::next` guarantees. -/
structure NextOk (N : Nat) (L : Lexer) (res : Res Nat) (L' : Lexer) : Prop where
  noPanic : res ≠ .panic
  noFuel : res ≠ .fuel
  key : res.keyLe N
  inv : res.goesOn = true → L'.raw.Inv N
  dec : res.goesOn = true → L'.mu < L.mu

theorem NextOk.mono {N : Nat} {L0 L res L'} (h : NextOk N L res L') (hm : L.mu ≤ L0.mu) :
    NextOk N L0 res L' :=
  ⟨h.noPanic, h.noFuel, h.key, h.inv, fun g => Nat.lt_of_lt_of_le (h.dec g) hm⟩

theorem nextF_spec {N : Nat} (cfg : Cfg) (rep : Bool) : ∀ (f : Nat) (L : Lexer),
    L.raw.Inv N → L.mu < f → NextOk N L (L.nextF cfg rep f).1 (L.nextF cfg rep f).2 := by
  intro f
  induction f with
  | zero => intro L _ hf; omega
  | succ f ih =>
    intro L h hf
    rcases Raw.next_spec h with ⟨hl, hn⟩ | ⟨c, l, hl, hn, hk, hinv⟩
    · -- the line is over
      simp only [Lexer.nextF, hn]
      cases hs : L.raw.startNewLine cfg with
      | mk more raw =>
        cases more with
        | false => exact ⟨by simp, by simp, by simp [Res.keyLe], by simp [Res.goesOn], by simp [Res.goesOn]⟩
        | true =>
          obtain ⟨hi, hd⟩ := Raw.startNewLine_spec h hl hs
          have hmu : ∀ (st : St) (b : Bool), (Lexer.mk raw st b).mu < L.mu := by
            intro st b; simp only [Lexer.mu, hl, List.length_nil]; omega
          simp only [Bool.not_true, Bool.false_eq_true, if_false]
          cases rep with
          | false =>
            simp only [Bool.false_eq_true, if_false]
            exact (ih _ hi (by have := hmu .newLine L.started; omega)).mono (Nat.le_of_lt (hmu _ _))
          | true =>
            simp only [if_true]
            cases hst : L.started with
            | true =>
              simp only [if_true]
              exact ⟨by simp, by simp, by simp [Res.keyLe], fun _ => hi, fun _ => hmu _ _⟩
            | false =>
              simp only [Bool.false_eq_true, if_false]
              exact (ih _ hi (by have := hmu .newLine true; omega)).mono (Nat.le_of_lt (hmu _ _))
    · -- a character
      have hlen : L.raw.line.length = l.length + 1 := by simp [hl]
      have hmu : ∀ (raw : Raw) (st : St) (b : Bool), raw.rest = L.raw.rest → raw.line.length ≤ l.length →
          (Lexer.mk raw st b).mu < L.mu := by
        intro raw st b hr hle; simp only [Lexer.mu, hr]; omega
      have hmuf : ∀ (raw : Raw) (st : St) (b : Bool), raw.rest = L.raw.rest → raw.line.length ≤ l.length →
          (Lexer.mk raw st b).mu < f := by
        intro raw st b hr hle; have := hmu raw st b hr hle; omega
      have hend := Raw.Inv.endLine hinv
      simp only [Lexer.nextF, hn]
      split
      · -- escape
        obtain ⟨name, st, r', e, i, le, rr⟩ := readCS_spec (N := N) cfg (l.length + 1) _ hinv (by simp)
        rw [e]
        exact ⟨by simp, by simp, hk, fun _ => i, fun _ => hmu _ _ _ rr (by simpa using le)⟩
      · -- end of line
        split
        · exact ⟨by simp, by simp, hk, fun _ => hend, fun _ => hmu _ _ _ rfl (by simp [Raw.endLine])⟩
        · exact ⟨by simp, by simp, hk, fun _ => hend, fun _ => hmu _ _ _ rfl (by simp [Raw.endLine])⟩
        · refine NextOk.mono (ih _ ?_ ?_) ?_
          · exact hend
          · exact hmuf _ _ _ rfl (by simp [Raw.endLine])
          · exact Nat.le_of_lt (hmu _ _ _ rfl (by simp [Raw.endLine]))
      · -- space
        split
        · exact ⟨by simp, by simp, hk, fun _ => hinv, fun _ => hmu _ _ _ rfl (by simp)⟩
        · refine NextOk.mono (ih _ ?_ ?_) ?_
          · exact hinv
          · exact hmuf _ _ _ rfl (Nat.le_refl _)
          · exact Nat.le_of_lt (hmu _ _ _ rfl (Nat.le_refl _))
      · -- superscript
        rcases Raw.caret_spec hinv c true (by simp) with h0 | ⟨r1, e1, i1, l1, rr1⟩
        · rw [h0]
          exact ⟨by simp, by simp, hk, fun _ => hinv, fun _ => hmu _ _ _ rfl (by simp)⟩
        · rw [e1]
          simp at l1
          refine NextOk.mono (ih _ ?_ ?_) ?_
          · exact i1
          · exact hmuf _ _ _ rr1 (by omega)
          · exact Nat.le_of_lt (hmu _ _ _ rr1 (by omega))
      · -- comment
        refine NextOk.mono (ih _ ?_ ?_) ?_
        · exact hend
        · exact hmuf _ _ _ rfl (by simp [Raw.endLine])
        · exact Nat.le_of_lt (hmu _ _ _ rfl (by simp [Raw.endLine]))
      · -- ignored
        refine NextOk.mono (ih _ ?_ ?_) ?_
        · exact hinv
        · exact hmuf _ _ _ rfl (Nat.le_refl _)
        · exact Nat.le_of_lt (hmu _ _ _ rfl (Nat.le_refl _))
      · exact ⟨by simp, by simp, hk, fun _ => hinv, fun _ => hmu _ _ _ rfl (by simp)⟩
      · exact ⟨by simp, by simp, hk, fun _ => hinv, fun _ => hmu _ _ _ rfl (by simp)⟩
      · exact ⟨by simp, by simp, hk, fun _ => hinv, fun _ => hmu _ _ _ rfl (by simp)⟩

/-- Every result of a run is fine: no panic, fuel sufficed, keys in range; the run ends with
the end of the input. -/
def RunOk (N : Nat) (l : List (Res Nat)) : Prop :=
  (∀ r ∈ l, r ≠ .panic ∧ r ≠ .fuel ∧ r.keyLe N) ∧ l.getLast? = some .endOfInput

theorem RunOk.cons {N : Nat} {r : Res Nat} {l : List (Res Nat)}
    (hr : r ≠ .panic ∧ r ≠ .fuel ∧ r.keyLe N) (h : RunOk N l) : RunOk N (r :: l) := by
  refine ⟨?_, ?_⟩
  · intro x hx
    simp only [List.mem_cons] at hx
    rcases hx with rfl | hx
    · exact hr
    · exact h.1 x hx
  · rw [List.getLast?_cons, h.2]; rfl

theorem lexAllF_spec {N : Nat} (cfg : Cfg) (rep : Bool) : ∀ (f : Nat) (L : Lexer),
    L.raw.Inv N → L.mu + 1 < f → RunOk N (lexAllF cfg rep f L) := by
  intro f
  induction f with
  | zero => intro L _ hf; omega
  | succ f ih =>
    intro L h hf
    have ok := nextF_spec (N := N) cfg rep (L.mu + 1) L h (by omega)
    simp only [lexAllF]
    unfold Lexer.next
    generalize Lexer.nextF cfg rep (L.mu + 1) L = p at ok
    obtain ⟨res, L'⟩ := p
    have ok : NextOk N L res L' := ok
    cases res with
    | token t k =>
      exact RunOk.cons ⟨by simp, by simp, ok.key⟩
        (ih L' (ok.inv rfl) (by have := ok.dec rfl; omega))
    | invalid c k =>
      exact RunOk.cons ⟨by simp, by simp, ok.key⟩
        (ih L' (ok.inv rfl) (by have := ok.dec rfl; omega))
    | endOfLine =>
      exact RunOk.cons ⟨by simp, by simp, ok.key⟩
        (ih L' (ok.inv rfl) (by have := ok.dec rfl; omega))
    | endOfInput => exact ⟨by simp [Res.keyLe], by simp⟩
    | panic => exact absurd rfl ok.noPanic
    | fuel => exact absurd rfl ok.noFuel

theorem lexAll_ok (cfg : Cfg) (rep : Bool) (src : List Char) :
    RunOk src.length (lexAll cfg rep src) :=
  lexAllF_spec cfg rep _ _ (Raw.Inv.init src) (by omega)

/-! ### `Tracer::trace` -/


theorem traceLoop_skip (off : Nat) (a : List Char) : ∀ (i ln ls : Nat) (tail b : List Char),
    '\n' ∉ a → i + a.length ≤ off →
    traceLoop off i ln ls tail (a ++ b) = traceLoop off (i + a.length) ln ls tail b := by
  induction a with
  | nil => intros; simp
  | cons c t ih =>
    intro i ln ls tail b hn hle
    simp only [List.mem_cons, not_or] at hn
    simp only [List.length_cons] at hle
    simp only [List.cons_append, traceLoop]
    rw [if_neg (by omega), if_neg (fun h => hn.1 h.symm)]
    rw [ih (i + 1) ln ls tail b hn.2 (by omega)]
    simp only [List.length_cons]
    congr 1; omega



theorem traceLoop_at (off ln ls : Nat) (tail rem : List Char) :
    traceLoop off off ln ls tail rem = (ln, ls, tail) := by
  cases rem <;> simp [traceLoop]

theorem traceLoop_lines (off : Nat) : ∀ (ls : List (List Char)) (i ln : Nat) (b : List Char),
    (∀ l ∈ ls, '\n' ∉ l) → i + (joined ls).length ≤ off →
    traceLoop off i ln i (joined ls ++ b) (joined ls ++ b)
      = traceLoop off (i + (joined ls).length) (ln + ls.length) (i + (joined ls).length) b b := by
  intro ls
  induction ls with
  | nil => intro i ln b _ _; simp [joined]
  | cons l rest ih =>
    intro i ln b hn hle
    have hj : joined (l :: rest) = l ++ ('\n' :: joined rest) := by simp [joined]
    rw [hj] at hle ⊢
    simp only [List.length_append, List.length_cons] at hle
    have hl : '\n' ∉ l := hn l (by simp)
    rw [List.append_assoc, traceLoop_skip off l i ln i _ _ hl (by omega)]
    simp only [List.cons_append, traceLoop]
    rw [if_neg (by omega)]
    simp only [if_true]
    rw [ih (i + l.length + 1) (ln + 1) b (fun x hx => hn x (by simp [hx])) (by omega)]
    simp only [List.length_append, List.length_cons]
    congr 1 <;> omega

theorem takeWhile_line (text post : List Char) (ht : '\n' ∉ text)
    (hp : post = [] ∨ post.head? = some '\n') :
    (text ++ post).takeWhile (· ≠ '\n') = text := by
  induction text with
  | nil =>
    rcases hp with rfl | hp
    · rfl
    · cases post with
      | nil => rfl
      | cons c t => simp at hp; simp [hp]
  | cons c t ih =>
    simp only [List.mem_cons, not_or] at ht
    have : c ≠ '\n' := fun h => ht.1 h.symm
    have ih' := ih ht.2
    simp only [ne_eq, decide_not] at ih' ⊢
    simp [this, ih']

/-- `Tracer::trace` is right: the key of the character at column `col` of the line `text` that
follows the complete lines `ls` traces to line number `ls.length + 1`, column `col`, and that
line's text. `col = text.length` is the position of the newline (or one past the end). -/
theorem trace_spec (ls : List (List Char)) (text post : List Char) (col : Nat)
    (hls : ∀ l ∈ ls, '\n' ∉ l) (ht : '\n' ∉ text) (hp : post = [] ∨ post.head? = some '\n')
    (hc : col ≤ text.length) :
    trace (joined ls ++ (text ++ post)) ((joined ls).length + col) = ⟨ls.length + 1, col, text⟩ := by
  unfold trace
  have h1 := traceLoop_lines ((joined ls).length + col) ls 0 1 (text ++ post) hls (by omega)
  simp only [Nat.zero_add] at h1
  rw [h1]
  have h2 : text ++ post = text.take col ++ (text.drop col ++ post) := by
    rw [← List.append_assoc, List.take_append_drop]
  have h3 := traceLoop_skip ((joined ls).length + col) (text.take col) (joined ls).length
    (1 + ls.length) (joined ls).length (text ++ post) (text.drop col ++ post)
    (fun h => ht (List.mem_of_mem_take h)) (by simp; omega)
  rw [← h2] at h3
  rw [h3]
  have h4 : (List.take col text).length = col := by simp; omega
  rw [h4, traceLoop_at]
  simp only [takeWhile_line text post ht hp]
  congr 1 <;> omega


/-! ### the `^^` rule of the model is TeX's -/

theorem char_le_iff (a b : Char) : a ≤ b ↔ a.toNat ≤ b.toNat := by
  rw [Char.le_def, UInt32.le_iff_toNat_le]; rfl

theorem hexVal_eq (c : Char) :
    hexVal c = if Spec.isHex c then some (Spec.hexDigit c) else none := by
  unfold hexVal Spec.isHex Spec.hexDigit
  simp only [char_le_iff, Bool.or_eq_true, Bool.and_eq_true, decide_eq_true_eq]
  have e0 : '0'.toNat = 48 := by decide
  have e9 : '9'.toNat = 57 := by decide
  have ea : 'a'.toNat = 97 := by decide
  have ef : 'f'.toNat = 102 := by decide
  rw [e0, e9, ea, ef]
  split
  · rename_i h; rw [if_pos (Or.inl h), if_pos h.2]
  · split
    · rename_i h1 h2; rw [if_pos (Or.inr h2), if_neg (by omega)]; congr 1; omega
    · rename_i h1 h2; rw [if_neg (by omega)]

theorem caretOn_eq_expanded (r : Raw) (c : Char) (skip : Nat) (l2 : List Char)
    (hk : r.key + skip + l2.length ≤ r.limit + 1) :
    caretOn r c skip l2 = match Spec.expanded c l2 with
      | some (c', l', n) => .yes { r with key := r.key + (skip + n - 1), line := c' :: l' }
      | none => .no := by
  unfold caretOn Spec.expanded
  match l2 with
  | [] => rfl
  | [_] => rfl
  | c2 :: c3 :: l3 =>
    simp only [List.length_cons] at hk
    by_cases h2 : c2 = c
    · by_cases h3 : c3.toNat < 128
      · have h3' : ¬ 128 ≤ c3.toNat := by omega
        simp only [h2, ne_eq, not_true_eq_false, if_false, h3', h3, and_self, if_true, hexVal_eq]
        match l3 with
        | [] =>
          have : r.key + (skip + 1) ≤ r.limit := by omega
          by_cases hx : Spec.isHex c3 <;> simp [hx, this, caretChar]
        | c4 :: l4 =>
          simp only [List.length_cons] at hk
          have k1 : r.key + (skip + 1) ≤ r.limit := by omega
          have k2 : r.key + (skip + 2) ≤ r.limit := by omega
          by_cases hx : Spec.isHex c3 <;> by_cases hy : Spec.isHex c4 <;>
            simp [hx, hy, k1, k2, caretChar, hexVal_eq]
      · have h3' : 128 ≤ c3.toNat := by omega
        simp [h2, h3, h3']
    · simp [h2]

/-! ### control sequence names: the model against §354–§356 -/


theorem Raw.caret_consumed {N : Nat} {r : Raw} (h : r.Inv N) (c : Char) :
    r.caret c true = match Spec.expanded c r.line with
      | some (c', l', n) => .yes { r with key := r.key + (n - 1), line := c' :: l' }
      | none => .no := by
  rw [Raw.caret_eq]
  simp only [if_true, List.drop_zero]
  rw [caretOn_eq_expanded r c 0 r.line (by have := h.le1; have := h.lim; omega)]
  cases Spec.expanded c r.line with
  | none => rfl
  | some x => obtain ⟨c', l', n⟩ := x; simp

theorem Raw.caret_peeked {N : Nat} {r : Raw} (h : r.Inv N) (c : Char) (t : List Char)
    (hl : r.line = c :: t) :
    r.caret c false = match Spec.expanded c t with
      | some (c', l', n) => .yes { r with key := r.key + n, line := c' :: l' }
      | none => .no := by
  rw [Raw.caret_eq]
  simp only [Bool.false_eq_true, if_false, hl, List.drop_succ_cons, List.drop_zero]
  rw [caretOn_eq_expanded r c 1 t (by have h1 := h.le1; have := h.lim; simp only [hl, List.length_cons] at h1; omega)]
  cases he : Spec.expanded c t with
  | none => rfl
  | some x =>
    obtain ⟨c', l', n⟩ := x
    have : 2 ≤ n := by
      unfold Spec.expanded at he
      split at he
      · split at he
        · split at he
          · split at he <;> simp at he <;> omega
          · simp at he; omega
        · simp at he
      · simp at he
    simp only []
    congr 2
    omega


theorem Raw.eta_line_nil {r : Raw} (h : r.line = []) : { r with line := [], key := r.key } = r := by
  cases r; simp_all

theorem Raw.eta_line {r : Raw} {x : List Char} (h : r.line = x) :
    r = { r with line := x, key := r.key } := by
  cases r; simp_all

theorem Raw.inv_of_yes {N : Nat} {r r' : Raw} (h : r.Inv N) (c : Char) (b : Bool)
    (hb : b = false → r.line ≠ []) (e : r.caret c b = .yes r') : r'.Inv N := by
  rcases Raw.caret_spec h c b hb with h0 | ⟨r1, e1, i1, _, _⟩
  · rw [h0] at e; cases e
  · rw [e1] at e; cases e; exact i1

theorem readLetters_eq {N : Nat} (cfg : Cfg) : ∀ (f : Nat) (acc : List Char) (r : Raw), r.Inv N →
    readLetters cfg f acc r = match Spec.moreLetters cfg f acc r.line r.key with
      | some (name, l', k') => .ok (name, { r with line := l', key := k' })
      | none => .fuel := by
  intro f
  induction f with
  | zero => intro acc r _; simp [readLetters, Spec.moreLetters]
  | succ f ih =>
    intro acc r h
    rcases Raw.next_spec h with ⟨hl, _⟩ | ⟨c, l, hl, _, hk, hinv⟩
    · simp [readLetters, Spec.moreLetters, hl, Raw.eta_line_nil hl]
    · have hlim : ¬ r.limit ≤ r.key := by have := h.lim; omega
      simp only [readLetters, Spec.moreLetters, hl, if_neg hlim]
      cases hc : cfg.cat c
      case letter =>
        simp only [if_true]
        rw [ih _ _ hinv]
      case superscript =>
        simp only [reduceCtorEq, if_false, if_true]
        have hp := Raw.caret_peeked h c l hl
        cases he : Spec.expanded c l with
        | none => rw [he] at hp; simp only [hp]; simp only [Out.ok.injEq, Prod.mk.injEq, true_and]; exact Raw.eta_line hl
        | some x =>
          obtain ⟨c', l', n⟩ := x
          rw [he] at hp
          simp only [hp]
          have hi := Raw.inv_of_yes h c false (by simp [hl]) hp
          rw [ih _ _ hi]
      all_goals (simp only [reduceCtorEq, if_false, Out.ok.injEq, Prod.mk.injEq, true_and]; exact Raw.eta_line hl)


theorem expanded_n {c : Char} {l : List Char} {c' : Char} {l' : List Char} {n : Nat}
    (he : Spec.expanded c l = some (c', l', n)) : 2 ≤ n ∧ l.length = l'.length + n := by
  unfold Spec.expanded at he
  split at he
  · split at he
    · split at he
      · split at he <;> simp at he <;> obtain ⟨_, rfl, rfl⟩ := he <;> simp <;> omega
      · simp at he; obtain ⟨_, rfl, rfl⟩ := he; simp
    · simp at he
  · simp at he

theorem readCS_eq {N : Nat} (cfg : Cfg) : ∀ (f : Nat) (r : Raw), r.Inv N →
    readCS cfg f r = match Spec.csName cfg f r.line r.key with
      | some (name, st, l', k') => .ok (name, st, { r with line := l', key := k' })
      | none => .fuel := by
  intro f
  induction f with
  | zero => intro r _; simp [readCS, Spec.csName]
  | succ f ih =>
    intro r h
    rcases Raw.next_spec h with ⟨hl, hn⟩ | ⟨c, l, hl, hn, hk, hinv⟩
    · simp [readCS, Spec.csName, hl, hn, Raw.eta_line_nil hl]
    · simp only [readCS, Spec.csName, hl, hn]
      cases hc : cfg.cat c
      case letter =>
        simp only [if_true]
        rw [readLetters_eq cfg _ _ _ hinv]
        cases Spec.moreLetters cfg (l.length + 1) [c] l (r.key + 1) with
        | none => rfl
        | some x => obtain ⟨name, l', k'⟩ := x; rfl
      case superscript =>
        simp only [reduceCtorEq, if_false, if_true]
        have hp := Raw.caret_consumed hinv c
        simp only [] at hp
        cases he : Spec.expanded c l with
        | none => rw [he] at hp; simp only [hp]
        | some x =>
          obtain ⟨c', l', n⟩ := x
          rw [he] at hp
          simp only [hp]
          have hi := Raw.inv_of_yes hinv c true (by simp) hp
          rw [ih _ hi]
          have hn2 := (expanded_n he).1
          have : r.key + 1 + (n - 1) = r.key + n := by omega
          simp only [this]
      case space => simp
      all_goals simp


theorem moreLetters_sum (cfg : Cfg) : ∀ (f : Nat) (acc l : List Char) (col : Nat) name l' col',
    Spec.moreLetters cfg f acc l col = some (name, l', col') → col' + l'.length = col + l.length := by
  intro f
  induction f with
  | zero => intro acc l col name l' col' h; simp [Spec.moreLetters] at h
  | succ f ih =>
    intro acc l col name l' col' h
    unfold Spec.moreLetters at h
    split at h
    · simp at h; obtain ⟨_, rfl, rfl⟩ := h; rfl
    · rename_i c t
      split at h
      · have := ih _ _ _ _ _ _ h; simp only [List.length_cons]; omega
      · split at h
        · split at h
          · rename_i c' t' n he
            have := ih _ _ _ _ _ _ h
            have := (expanded_n he).2
            simp only [List.length_cons] at *; omega
          · simp at h; obtain ⟨_, rfl, rfl⟩ := h; rfl
        · simp at h; obtain ⟨_, rfl, rfl⟩ := h; rfl

theorem csName_sum (cfg : Cfg) : ∀ (f : Nat) (l : List Char) (col : Nat) name st l' col',
    Spec.csName cfg f l col = some (name, st, l', col') → col' + l'.length = col + l.length := by
  intro f
  induction f with
  | zero => intro l col name st l' col' h; simp [Spec.csName] at h
  | succ f ih =>
    intro l col name st l' col' h
    unfold Spec.csName at h
    split at h
    · simp at h; obtain ⟨_, _, rfl, rfl⟩ := h; rfl
    · rename_i c t
      split at h
      · split at h
        · rename_i name2 t2 col2 hm
          simp at h; obtain ⟨_, _, rfl, rfl⟩ := h
          have := moreLetters_sum cfg _ _ _ _ _ _ _ hm
          simp only [List.length_cons]; omega
        · simp at h
      · split at h
        · split at h
          · rename_i c' t' n he
            have := ih _ _ _ _ _ _ h
            have := (expanded_n he).2
            simp only [List.length_cons] at *; omega
          · simp at h; obtain ⟨_, _, rfl, rfl⟩ := h; simp only [List.length_cons]; omega
        · simp at h; obtain ⟨_, _, rfl, rfl⟩ := h; simp only [List.length_cons]; omega


/-! ### one call of `Lexer::next` inside a line against `Spec.scan` -/


def Lexer.endLine (L : Lexer) : Lexer := { L with raw := L.raw.endLine }

/-- One emitting call of `Lexer::next` inside a line, against one item of `Spec.scan`. -/
structure LineStep (N : Nat) (cfg : Cfg) (L : Lexer) (item : Res Nat) (more : List (Res Nat))
    (L' : Lexer) : Prop where
  more_eq : ∃ fs', L'.raw.line.length < fs' ∧ more = Spec.scan cfg fs' L'.st L'.raw.line L'.raw.key
  inv : L'.raw.Inv N
  dec : L'.mu < L.mu
  rest : L'.raw.rest = L.raw.rest
  trimmed : L'.raw.trimmed = L.raw.trimmed
  started : L'.started = L.started
  keysum : L'.raw.key + L'.raw.line.length = L.raw.key + L.raw.line.length
  keymono : L.raw.key ≤ L'.raw.key
  itemKey : ∀ p, item.pos? = some p → L.raw.key ≤ p ∧ p < L.raw.key + L.raw.line.length
  goes : item.goesOn = true

def LineRes (N : Nat) (cfg : Cfg) (rep : Bool) (f : Nat) (L : Lexer) (fs : Nat) : Prop :=
  (Spec.scan cfg fs L.st L.raw.line L.raw.key = [] ∧
    ∃ f', L.endLine.mu < f' ∧ L.nextF cfg rep f = L.endLine.nextF cfg rep f') ∨
  (∃ item more L', Spec.scan cfg fs L.st L.raw.line L.raw.key = item :: more ∧
    L.nextF cfg rep f = (item, L') ∧ LineStep N cfg L item more L')

theorem LineRes.lift {N : Nat} {cfg : Cfg} {rep : Bool} {L L1 : Lexer} {f fs : Nat}
    (hscan : Spec.scan cfg (fs + 1) L.st L.raw.line L.raw.key
      = Spec.scan cfg fs L1.st L1.raw.line L1.raw.key)
    (hnext : L.nextF cfg rep (f + 1) = L1.nextF cfg rep f)
    (hend : L1.endLine = L.endLine) (hmu : L1.mu ≤ L.mu)
    (hrest : L1.raw.rest = L.raw.rest) (htrim : L1.raw.trimmed = L.raw.trimmed)
    (hstarted : L1.started = L.started)
    (hsum : L1.raw.key + L1.raw.line.length = L.raw.key + L.raw.line.length)
    (hkey : L.raw.key ≤ L1.raw.key)
    (h : LineRes N cfg rep f L1 fs) : LineRes N cfg rep (f + 1) L (fs + 1) := by
  rcases h with ⟨hs, f', hf', hn⟩ | ⟨item, more, L', hs, hn, st⟩
  · left
    exact ⟨by rw [hscan, hs], f', by rw [← hend]; exact hf', by rw [hnext, hn, hend]⟩
  · right
    refine ⟨item, more, L', by rw [hscan, hs], by rw [hnext, hn], ?_⟩
    exact ⟨st.more_eq, st.inv, Nat.lt_of_lt_of_le st.dec hmu, by rw [st.rest, hrest],
      by rw [st.trimmed, htrim], by rw [st.started, hstarted], by rw [st.keysum, hsum],
      Nat.le_trans hkey st.keymono,
      fun p hp => by have := st.itemKey p hp; omega, st.goes⟩


theorem Lexer.endLine_of_nil {L : Lexer} (h : L.raw.line = []) : L.endLine = L := by
  cases L with
  | mk raw st started =>
    cases raw
    simp_all [Lexer.endLine, Raw.endLine]

theorem scan_nil (cfg : Cfg) (fs : Nat) (st : St) (k : Nat) (h : 0 < fs) :
    Spec.scan cfg fs st [] k = [] := by
  cases fs with
  | zero => omega
  | succ n => simp [Spec.scan]

theorem line_step {N : Nat} (cfg : Cfg) (rep : Bool) : ∀ (f : Nat) (L : Lexer) (fs : Nat),
    L.raw.Inv N → L.mu < f → L.raw.line.length < fs → LineRes N cfg rep f L fs := by
  intro f
  induction f with
  | zero => intro L fs _ hf; omega
  | succ f ih =>
    intro L fs h hf hfs
    cases fs with
    | zero => omega
    | succ fs =>
    rcases Raw.next_spec h with ⟨hl, hn⟩ | ⟨c, l, hl, hn, hk, hinv⟩
    · left
      refine ⟨by rw [hl]; exact scan_nil cfg _ _ _ (by omega), f + 1, ?_, ?_⟩
      · rw [Lexer.endLine_of_nil hl]; exact hf
      · rw [Lexer.endLine_of_nil hl]
    · have hlen : L.raw.line.length = l.length + 1 := by simp [hl]
      have hfs' : l.length < fs := by omega
      -- the raw lexer after the character
      generalize hr1 : ({ L.raw with line := l, key := L.raw.key + 1 } : Raw) = r1 at hn hinv
      have r1line : r1.line = l := by subst hr1; rfl
      have r1key : r1.key = L.raw.key + 1 := by subst hr1; rfl
      have r1rest : r1.rest = L.raw.rest := by subst hr1; rfl
      have r1trim : r1.trimmed = L.raw.trimmed := by subst hr1; rfl
      have hendeq : ∀ (st : St), ({ L with raw := r1.endLine, st := st } : Lexer).endLine.raw = L.endLine.raw := by
        intro st; subst hr1
        simp only [Lexer.endLine, Raw.endLine, hl, List.length_cons, List.length_nil]
        congr 1; omega
      have hmu1 : ∀ (raw : Raw) (st : St) (b : Bool), raw.rest = L.raw.rest → raw.line.length ≤ l.length →
          (Lexer.mk raw st b).mu < L.mu := by
        intro raw st b hr hle; simp only [Lexer.mu, hr]; omega
      -- a silent step that continues with `r1`
      have silent : Spec.scan cfg (fs + 1) L.st L.raw.line L.raw.key = Spec.scan cfg fs L.st l (L.raw.key + 1) →
          L.nextF cfg rep (f + 1) = Lexer.nextF cfg rep f { L with raw := r1 } →
          LineRes N cfg rep (f + 1) L (fs + 1) := by
        intro hs hx
        refine LineRes.lift (L1 := { L with raw := r1 }) (by rw [hs, r1line, r1key]) hx ?_ ?_ r1rest r1trim rfl ?_ ?_
          (ih _ _ hinv ?_ (by rw [r1line]; exact hfs'))
        · have := hendeq L.st
          simp only [Lexer.endLine] at this ⊢
          subst hr1
          simp only [Raw.endLine, hl, List.length_cons]
          congr 2; omega
        · exact Nat.le_of_lt (hmu1 _ _ _ r1rest (by rw [r1line]; exact Nat.le_refl _))
        · simp only [r1line, r1key, hlen]; omega
        · simp only [r1key]; omega
        · have := hmu1 r1 L.st L.started r1rest (by rw [r1line]; exact Nat.le_refl _); omega
      -- a step that drops the rest of the line silently
      have dropLine : Spec.scan cfg (fs + 1) L.st L.raw.line L.raw.key = [] →
          L.nextF cfg rep (f + 1) = Lexer.nextF cfg rep f { L with raw := r1.endLine } →
          LineRes N cfg rep (f + 1) L (fs + 1) := by
        intro hs hx
        left
        refine ⟨hs, f, ?_, ?_⟩
        · have : L.endLine.mu < L.mu := by
            simp only [Lexer.endLine, Lexer.mu, Raw.endLine, List.length_nil, hlen]; omega
          omega
        · rw [hx]
          congr 1
          subst hr1
          simp only [Lexer.endLine, Raw.endLine, hl, List.length_cons]
          congr 2; omega
      -- an emitting step that leaves `r1`
      have emit : ∀ (item : Res Nat) (st' : St), item.goesOn = true →
          (∀ p, item.pos? = some p → p = L.raw.key) →
          Spec.scan cfg (fs + 1) L.st L.raw.line L.raw.key = item :: Spec.scan cfg fs st' l (L.raw.key + 1) →
          L.nextF cfg rep (f + 1) = (item, { L with raw := r1, st := st' }) →
          LineRes N cfg rep (f + 1) L (fs + 1) := by
        intro item st' hg hp hs hx
        right
        refine ⟨item, _, _, hs, hx, ⟨⟨fs, by rw [r1line]; exact hfs', by rw [r1line, r1key]⟩, hinv,
          hmu1 _ _ _ r1rest (by rw [r1line]; exact Nat.le_refl _), r1rest, r1trim, rfl, ?_, ?_, ?_, hg⟩⟩
        · simp only [r1line, r1key, hlen]; omega
        · simp only [r1key]; omega
        · intro p hpp; have := hp p hpp; omega
      -- an emitting step that ends the line
      have emitEnd : ∀ (item : Res Nat), item.goesOn = true →
          (∀ p, item.pos? = some p → p = L.raw.key) →
          Spec.scan cfg (fs + 1) L.st L.raw.line L.raw.key = [item] →
          L.nextF cfg rep (f + 1) = (item, { L with raw := r1.endLine, st := .newLine }) →
          LineRes N cfg rep (f + 1) L (fs + 1) := by
        intro item hg hp hs hx
        right
        refine ⟨item, _, _, hs, hx, ⟨⟨1, by simp [Raw.endLine], (scan_nil cfg 1 _ _ (by omega)).symm⟩,
          Raw.Inv.endLine hinv, hmu1 _ _ _ r1rest (by simp [Raw.endLine]), r1rest, r1trim, rfl, ?_, ?_, ?_, hg⟩⟩
        · simp only [Raw.endLine, r1line, r1key, hlen, List.length_nil]; omega
        · simp only [Raw.endLine, r1key]; omega
        · intro p hpp; have := hp p hpp; omega
      have hscan0 : Spec.scan cfg (fs + 1) L.st L.raw.line L.raw.key
          = Spec.scan cfg (fs + 1) L.st (c :: l) L.raw.key := by rw [hl]
      cases hc : cfg.cat c
      case ignored =>
        exact silent (by rw [hscan0]; simp [Spec.scan, hc]) (by simp [Lexer.nextF, hn, hc])
      case comment =>
        exact dropLine (by rw [hscan0]; simp [Spec.scan, hc]) (by simp [Lexer.nextF, hn, hc])
      case invalid =>
        exact emit (.invalid c L.raw.key) L.st rfl (by intro p hp; simp [Res.pos?] at hp; exact hp.symm)
          (by rw [hscan0]; simp [Spec.scan, hc]) (by simp [Lexer.nextF, hn, hc])
      case active =>
        exact emit (.token (.active c) L.raw.key) .midLine rfl
          (by intro p hp; simp [Res.pos?] at hp; exact hp.symm)
          (by rw [hscan0]; simp [Spec.scan, hc]) (by simp [Lexer.nextF, hn, hc])
      case space =>
        cases hst : L.st
        case midLine =>
          exact emit (.token (.chr ' ' .space) L.raw.key) .skipBlanks rfl
            (by intro p hp; simp [Res.pos?] at hp; exact hp.symm)
            (by rw [hscan0]; simp [Spec.scan, hc, hst]) (by simp [Lexer.nextF, hn, hc, hst])
        all_goals
          exact silent (by rw [hscan0]; simp [Spec.scan, hc, hst]) (by simp [Lexer.nextF, hn, hc, hst])
      case endOfLine =>
        cases hst : L.st
        case newLine =>
          exact emitEnd (.token (.cs parName) L.raw.key) rfl
            (by intro p hp; simp [Res.pos?] at hp; exact hp.symm)
            (by rw [hscan0]; simp [Spec.scan, hc, hst]) (by simp [Lexer.nextF, hn, hc, hst])
        case midLine =>
          exact emitEnd (.token (.chr ' ' .space) L.raw.key) rfl
            (by intro p hp; simp [Res.pos?] at hp; exact hp.symm)
            (by rw [hscan0]; simp [Spec.scan, hc, hst]) (by simp [Lexer.nextF, hn, hc, hst])
        case skipBlanks =>
          exact dropLine (by rw [hscan0]; simp [Spec.scan, hc, hst]) (by simp [Lexer.nextF, hn, hc, hst])
      case superscript =>
        have hp := Raw.caret_consumed hinv c
        rw [r1line] at hp
        cases he : Spec.expanded c l with
        | none =>
          rw [he] at hp
          exact emit (.token (.chr c .superscript) L.raw.key) .midLine rfl
            (by intro p hp; simp [Res.pos?] at hp; exact hp.symm)
            (by rw [hscan0]; simp [Spec.scan, hc, he]) (by simp [Lexer.nextF, hn, hc, hp])
        | some x =>
          obtain ⟨c', l', n⟩ := x
          rw [he] at hp
          simp only [] at hp
          obtain ⟨hn2, hll⟩ := expanded_n he
          have hi := Raw.inv_of_yes hinv c true (by simp) hp
          generalize hr2 : ({ r1 with key := r1.key + (n - 1), line := c' :: l' } : Raw) = r2 at hp hi
          have r2line : r2.line = c' :: l' := by subst hr2; rfl
          have r2key : r2.key = L.raw.key + n := by subst hr2; simp only [r1key]; omega
          have r2rest : r2.rest = L.raw.rest := by subst hr2; exact r1rest
          have r2trim : r2.trimmed = L.raw.trimmed := by subst hr2; exact r1trim
          refine LineRes.lift (L1 := { L with raw := r2 }) ?_ ?_ ?_ ?_ r2rest r2trim rfl ?_ ?_
            (ih _ _ hi ?_ ?_)
          · rw [hscan0]; simp [Spec.scan, hc, he, r2line, r2key]
          · simp [Lexer.nextF, hn, hc, hp]
          · simp only [Lexer.endLine, Raw.endLine, hl, r2line, r2key, List.length_cons]
            subst hr2; subst hr1
            simp only []
            congr 2; omega
          · exact Nat.le_of_lt (hmu1 _ _ _ r2rest (by rw [r2line]; simp only [List.length_cons]; omega))
          · simp only [r2line, r2key, hlen, List.length_cons]; omega
          · simp only [r2key]; omega
          · have := hmu1 r2 L.st L.started r2rest (by rw [r2line]; simp only [List.length_cons]; omega)
            omega
          · simp only [r2line, List.length_cons]; omega
      case escape =>
        have he := readCS_eq cfg (r1.line.length + 1) r1 hinv
        obtain ⟨name0, st0, r0, e0, i0, le0, rr0⟩ := readCS_spec (N := N) cfg (r1.line.length + 1) r1 hinv (by omega)
        rw [r1line, r1key] at he
        rw [r1line] at e0 le0
        cases hcs : Spec.csName cfg (l.length + 1) l (L.raw.key + 1) with
        | none => rw [hcs, e0] at he; simp at he
        | some x =>
          obtain ⟨name, st', t', k'⟩ := x
          rw [hcs, e0] at he
          simp only [Out.ok.injEq, Prod.mk.injEq] at he
          obtain ⟨rfl, rfl, rfl⟩ := he
          have hsum := csName_sum cfg _ _ _ _ _ _ _ hcs
          right
          refine ⟨.token (.cs name0) L.raw.key, Spec.scan cfg fs st0 t' k',
            { L with raw := { r1 with line := t', key := k' }, st := st0 }, ?_, ?_, ?_⟩
          · rw [hscan0]; simp [Spec.scan, hc, hcs]
          · simp only [Lexer.nextF, hn, hc, r1line, e0]
          · refine ⟨⟨fs, ?_, rfl⟩, i0, hmu1 _ _ _ (by simp [r1rest]) (by simpa using le0),
              by simp [r1rest], by simp [r1trim], rfl, ?_, ?_, ?_, rfl⟩
            · simp only [] at le0 ⊢; omega
            · simp only [hlen] at hsum ⊢; simp only [] at le0 ⊢; omega
            · simp only [] at le0 ⊢; omega
            · intro p hp; simp [Res.pos?] at hp; omega
      all_goals
        exact emit (.token (.chr c (cfg.cat c)) L.raw.key) .midLine rfl
          (by intro p hp; simp [Res.pos?] at hp; exact hp.symm)
          (by rw [hscan0]; simp [Spec.scan, hc]) (by simp [Lexer.nextF, hn, hc])

/-! ### columns shift; loading a line is splitting, trimming, appending -/


theorem moreLetters_shift (cfg : Cfg) (d : Nat) : ∀ (f : Nat) (acc l : List Char) (col : Nat),
    Spec.moreLetters cfg f acc l (col + d)
      = (Spec.moreLetters cfg f acc l col).map (fun x => (x.1, x.2.1, x.2.2 + d)) := by
  intro f
  induction f with
  | zero => intros; simp [Spec.moreLetters]
  | succ f ih =>
    intro acc l col
    unfold Spec.moreLetters
    cases l with
    | nil => simp
    | cons c t =>
      simp only []
      split
      · rw [show col + d + 1 = col + 1 + d by omega, ih]
      · split
        · cases he : Spec.expanded c t with
          | none => simp
          | some x =>
            obtain ⟨c', t', n⟩ := x
            simp only []
            rw [show col + d + n = col + n + d by omega, ih]
        · simp

theorem csName_shift (cfg : Cfg) (d : Nat) : ∀ (f : Nat) (l : List Char) (col : Nat),
    Spec.csName cfg f l (col + d)
      = (Spec.csName cfg f l col).map (fun x => (x.1, x.2.1, x.2.2.1, x.2.2.2 + d)) := by
  intro f
  induction f with
  | zero => intros; simp [Spec.csName]
  | succ f ih =>
    intro l col
    unfold Spec.csName
    cases l with
    | nil => simp
    | cons c t =>
      simp only []
      split
      · rw [show col + d + 1 = col + 1 + d by omega, moreLetters_shift]
        cases Spec.moreLetters cfg (t.length + 1) [c] t (col + 1) with
        | none => simp
        | some x => obtain ⟨a, b, e⟩ := x; simp
      · split
        · cases he : Spec.expanded c t with
          | none => simp; omega
          | some x =>
            obtain ⟨c', t', n⟩ := x
            simp only []
            rw [show col + d + n = col + n + d by omega, ih]
        · simp; omega

theorem scan_shift (cfg : Cfg) (d : Nat) : ∀ (f : Nat) (st : St) (l : List Char) (col : Nat),
    Spec.scan cfg f st l (col + d) = (Spec.scan cfg f st l col).map (Res.map (· + d)) := by
  intro f
  induction f with
  | zero => intros; simp [Spec.scan, Res.map]
  | succ f ih =>
    intro st l col
    unfold Spec.scan
    cases l with
    | nil => simp
    | cons c t =>
      simp only []
      have e1 : col + d + 1 = col + 1 + d := by omega
      cases hc : cfg.cat c
      case escape =>
        simp only []
        rw [e1, csName_shift]
        cases Spec.csName cfg (t.length + 1) t (col + 1) with
        | none => simp [Res.map]
        | some x => obtain ⟨a, b, e, g⟩ := x; simp [Res.map, ih]
      case endOfLine => cases st <;> simp [Res.map]
      case space => cases st <;> simp [Res.map, e1, ih]
      case superscript =>
        simp only []
        cases he : Spec.expanded c t with
        | none => simp [Res.map, e1, ih]
        | some x =>
          obtain ⟨c', t', n⟩ := x
          simp only []
          rw [show col + d + n = col + n + d by omega, ih]
      all_goals simp [Res.map, e1, ih]


theorem trimRight_snoc_space (l : List Char) : Spec.trimRight (l ++ [' ']) = Spec.trimRight l := by
  induction l with
  | nil => simp [Spec.trimRight]
  | cons a t ih => simp only [List.cons_append, Spec.trimRight, ih]

theorem trimRight_snoc (l : List Char) (c : Char) (hc : c ≠ ' ') :
    Spec.trimRight (l ++ [c]) = l ++ [c] := by
  induction l with
  | nil => simp [Spec.trimRight, hc]
  | cons a t ih => simp only [List.cons_append, Spec.trimRight, ih]; simp

theorem trimRight_length_le (l : List Char) : (Spec.trimRight l).length ≤ l.length := by
  induction l with
  | nil => simp [Spec.trimRight]
  | cons a t ih => simp only [Spec.trimRight]; split <;> simp <;> omega

theorem scanLineGo_spec : ∀ (src acc : List Char) (p : Nat),
    Spec.trimRight (acc ++ List.replicate p ' ') = acc → '\n' ∉ acc →
    ∃ (ln rest' : List Char) (nl : Bool),
      scanLineGo acc p src
        = (Spec.trimRight ln, ln.length - (Spec.trimRight ln).length + (if nl then 1 else 0), rest') ∧
      acc ++ List.replicate p ' ' ++ src = ln ++ (if nl then '\n' :: rest' else []) ∧
      (nl = false → rest' = []) ∧ '\n' ∉ ln ∧
      Spec.splitLinesAux (acc ++ List.replicate p ' ') src
        = (if nl = false ∧ ln = [] then [] else ln :: Spec.splitLinesAux [] rest') := by
  intro src
  induction src with
  | nil =>
    intro acc p ht hn
    refine ⟨acc ++ List.replicate p ' ', [], false, ?_, by simp, by simp, ?_, ?_⟩
    · simp [scanLineGo, ht]
    · simp only [List.mem_append, not_or]; exact ⟨hn, by simp [List.mem_replicate]⟩
    · simp only [Spec.splitLinesAux, true_and]
      split <;> rfl
  | cons c t ih =>
    intro acc p ht hn
    by_cases h1 : c = '\n'
    · subst h1
      refine ⟨acc ++ List.replicate p ' ', t, true, ?_, by simp, by simp, ?_, ?_⟩
      · simp [scanLineGo, ht]
      · simp only [List.mem_append, not_or]; exact ⟨hn, by simp [List.mem_replicate]⟩
      · simp [Spec.splitLinesAux]
    · by_cases h2 : c = ' '
      · subst h2
        have ht' : Spec.trimRight (acc ++ List.replicate (p + 1) ' ') = acc := by
          rw [List.replicate_succ', ← List.append_assoc, trimRight_snoc_space, ht]
        obtain ⟨ln, rest', nl, e1, e2, e3, e4, e5⟩ := ih acc (p + 1) ht' hn
        refine ⟨ln, rest', nl, ?_, ?_, e3, e4, ?_⟩
        · simp only [scanLineGo, h1, if_false, if_true]; exact e1
        · rw [← e2, List.replicate_succ']; simp
        · simp only [Spec.splitLinesAux, h1, if_false]
          rw [← e5, List.replicate_succ']; simp
      · have ht' : Spec.trimRight ((acc ++ List.replicate p ' ' ++ [c]) ++ List.replicate 0 ' ')
            = acc ++ List.replicate p ' ' ++ [c] := by
          simp only [List.replicate_zero, List.append_nil]; exact trimRight_snoc _ c h2
        have hn' : '\n' ∉ acc ++ List.replicate p ' ' ++ [c] := by
          simp only [List.mem_append, List.mem_singleton, not_or]
          exact ⟨⟨hn, by simp [List.mem_replicate]⟩, fun h => h1 h.symm⟩
        obtain ⟨ln, rest', nl, e1, e2, e3, e4, e5⟩ := ih _ 0 ht' hn'
        refine ⟨ln, rest', nl, ?_, ?_, e3, e4, ?_⟩
        · simp only [scanLineGo, h1, h2, if_false]; exact e1
        · rw [← e2]; simp
        · simp only [Spec.splitLinesAux, h1, if_false]
          rw [← e5]; simp


theorem startNewLine_eq (cfg : Cfg) (r : Raw) (c : Char) (t : List Char) (hr : r.rest = c :: t) :
    ∃ (ln rest' : List Char) (nl : Bool),
      r.startNewLine cfg = (true, { r with
          key := r.key + r.line.length + r.trimmed, line := Spec.buffer cfg ln,
          trimmed := (ln.length - (Spec.trimRight ln).length + (if nl then 1 else 0))
            - (if cfg.endline.isSome then 1 else 0),
          rest := rest' }) ∧
      r.rest = ln ++ (if nl then '\n' :: rest' else []) ∧ (nl = false → rest' = []) ∧ '\n' ∉ ln ∧
      Spec.splitLines r.rest = ln :: Spec.splitLines rest' := by
  obtain ⟨ln, rest', nl, e1, e2, e3, e4, e5⟩ :=
    scanLineGo_spec (c :: t) [] 0 (by simp [Spec.trimRight]) (by simp)
  simp only [List.replicate_zero, List.append_nil, List.nil_append] at e2 e5
  refine ⟨ln, rest', nl, ?_, by rw [hr, e2], e3, e4, ?_⟩
  · unfold Raw.startNewLine
    rw [hr]
    simp only [e1]
    cases he : cfg.endline <;> simp [Spec.buffer, he]
  · rw [hr]
    unfold Spec.splitLines
    rw [e5]
    split
    · rename_i h
      obtain ⟨h1, h2⟩ := h
      rw [h1, h2] at e2
      simp at e2
    · rfl


/-! ### the refinement: calls of `Lexer::next` across lines against `Spec.lines` -/


def posOf (n k0 : Nat) (text : List Char) (k : Nat) : Pos := ⟨n, k - k0, text⟩

/-- The lexer is inside the line `text` that follows the complete lines `done`. -/
structure StA (src : List Char) (rep : Bool) (L : Lexer) (done : List (List Char))
    (text : List Char) (nl : Bool) : Prop where
  src_eq : src = joined done ++ (text ++ (if nl then '\n' :: L.raw.rest else []))
  noNl : nl = false → L.raw.rest = []
  done_ok : ∀ l ∈ done, '\n' ∉ l
  text_ok : '\n' ∉ text
  k0_le : (joined done).length ≤ L.raw.key
  in_line : L.raw.key + L.raw.line.length ≤ (joined done).length + text.length + 1
  nextStart : nl = true →
    L.raw.key + L.raw.line.length + L.raw.trimmed = (joined done).length + text.length + 1
  started : rep = true → L.started = true
  inv : L.raw.Inv src.length

/-- The lexer is between lines: `done` are the lines it has finished. -/
structure StB (src : List Char) (rep : Bool) (L : Lexer) (done : List (List Char)) : Prop where
  line_nil : L.raw.line = []
  body : L.raw.rest = [] ∨
    (src = joined done ++ L.raw.rest ∧ L.raw.key + L.raw.trimmed = (joined done).length)
  done_ok : ∀ l ∈ done, '\n' ∉ l
  started : rep = true → (L.started = true ↔ done ≠ [])
  inv : L.raw.Inv src.length

def SpecA (cfg : Cfg) (rep : Bool) (L : Lexer) (done : List (List Char)) (text : List Char)
    (fs : Nat) : List (Res Pos) :=
  (Spec.scan cfg fs L.st L.raw.line L.raw.key).map
      (Res.map (posOf (done.length + 1) (joined done).length text))
    ++ Spec.lines cfg rep (done.length + 2) (Spec.splitLines L.raw.rest)

def SpecB (cfg : Cfg) (rep : Bool) (L : Lexer) (done : List (List Char)) : List (Res Pos) :=
  Spec.lines cfg rep (done.length + 1) (Spec.splitLines L.raw.rest)

/-- One call of `Lexer::next` against the specification stream `S`. -/
def NxOk (src : List Char) (cfg : Cfg) (rep : Bool) (L : Lexer) (S : List (Res Pos))
    (res : Res Nat) (L' : Lexer) : Prop :=
  (res = .endOfInput ∧ S = [.endOfInput]) ∨
  (res.goesOn = true ∧ L'.mu < L.mu ∧
    ∃ done text nl fs, StA src rep L' done text nl ∧ L'.raw.line.length < fs ∧
      S = res.map (trace src) :: SpecA cfg rep L' done text fs)

theorem NxOk.mono {src cfg rep L0 L S res L'} (h : NxOk src cfg rep L S res L')
    (hm : L.mu ≤ L0.mu) : NxOk src cfg rep L0 S res L' := by
  rcases h with h | ⟨g, d, rest⟩
  · exact Or.inl h
  · exact Or.inr ⟨g, Nat.lt_of_lt_of_le d hm, rest⟩

theorem joined_snoc (done : List (List Char)) (text : List Char) :
    joined (done ++ [text]) = joined done ++ (text ++ ['\n']) := by
  simp [joined]

theorem buffer_length (cfg : Cfg) (ln : List Char) :
    (Spec.buffer cfg ln).length = (Spec.trimRight ln).length + (if cfg.endline.isSome then 1 else 0) := by
  unfold Spec.buffer; cases cfg.endline <;> simp


theorem scan_pos_shift (cfg : Cfg) (fs : Nat) (st : St) (b : List Char) (n k0 : Nat) (ln : List Char) :
    (Spec.scan cfg fs st b 0).map (Res.map fun col => (⟨n, col, ln⟩ : Pos))
      = (Spec.scan cfg fs st b k0).map (Res.map (posOf n k0 ln)) := by
  have := scan_shift cfg k0 fs st b 0
  rw [Nat.zero_add] at this
  rw [this, List.map_map]
  apply List.map_congr_left
  intro r _
  cases r <;> simp [Res.map, posOf]

theorem nxB {src : List Char} {cfg : Cfg} {rep : Bool} (m : Nat)
    (ihA : ∀ (L : Lexer) done text nl fs f, L.mu < m → StA src rep L done text nl → L.mu < f →
      L.raw.line.length < fs →
      NxOk src cfg rep L (SpecA cfg rep L done text fs) (L.nextF cfg rep f).1 (L.nextF cfg rep f).2) :
    ∀ (L : Lexer) done f, L.mu < m + 1 → StB src rep L done → L.mu < f →
      NxOk src cfg rep L (SpecB cfg rep L done) (L.nextF cfg rep f).1 (L.nextF cfg rep f).2 := by
  intro L done f hm hB hf
  cases f with
  | zero => omega
  | succ f =>
  have hn : L.raw.next = .eol := by simp [Raw.next, hB.line_nil]
  simp only [Lexer.nextF, hn]
  cases hr : L.raw.rest with
  | nil =>
    left
    simp [Raw.startNewLine, hr, SpecB, Spec.splitLines, Spec.splitLinesAux, Spec.lines]
  | cons c t =>
    obtain ⟨ln, rest', nl, hs, hdec, hnl, hln, hsplit⟩ := startNewLine_eq cfg L.raw c t hr
    obtain ⟨hsrc, hkey⟩ : src = joined done ++ L.raw.rest ∧ L.raw.key + L.raw.trimmed = (joined done).length := by
      rcases hB.body with h | h
      · rw [hr] at h; cases h
      · exact h
    generalize hraw1 : (L.raw.startNewLine cfg).2 = raw1
    have hs' : L.raw.startNewLine cfg = (true, raw1) := by rw [← hraw1, hs]
    obtain ⟨hinv1, hmu1⟩ := Raw.startNewLine_spec hB.inv hB.line_nil hs'
    rw [hs']
    have r1key : raw1.key = (joined done).length := by
      rw [← hraw1, hs]; simp only [hB.line_nil, List.length_nil]; omega
    have r1line : raw1.line = Spec.buffer cfg ln := by rw [← hraw1, hs]
    have r1rest : raw1.rest = rest' := by rw [← hraw1, hs]
    have r1trim : raw1.trimmed = (ln.length - (Spec.trimRight ln).length + (if nl then 1 else 0))
            - (if cfg.endline.isSome then 1 else 0) := by rw [← hraw1, hs]
    have htl := trimRight_length_le ln
    have hbl := buffer_length cfg ln
    have hA : ∀ b : Bool, (rep = true → b = true) → StA src rep ⟨raw1, .newLine, b⟩ done ln nl := by
      intro b hb
      refine ⟨?_, ?_, hB.done_ok, hln, ?_, ?_, ?_, hb, hinv1⟩
      · rw [hsrc, hdec, r1rest]
      · intro h; rw [r1rest]; exact hnl h
      · rw [r1key]; exact Nat.le_refl _
      · rw [r1key, r1line, hbl]; split <;> omega
      · intro h; rw [r1key, r1line, r1trim, hbl, h]; simp only [if_true]; split <;> omega
    have hmu : ∀ b : Bool, (Lexer.mk raw1 .newLine b).mu < L.mu := by
      intro b; simp only [Lexer.mu, hB.line_nil, List.length_nil]; omega
    have hS : ∀ b : Bool, SpecB cfg rep L done
        = (if rep = true ∧ done ≠ [] then [Res.endOfLine] else [])
          ++ SpecA cfg rep ⟨raw1, .newLine, b⟩ done ln ((Spec.buffer cfg ln).length + 1) := by
      intro b
      simp only [SpecB, SpecA, hsplit, Spec.lines, r1line, r1key, r1rest, scan_pos_shift cfg _ _ _ _ (joined done).length]
      have : (1 < done.length + 1) ↔ done ≠ [] := by
        cases done <;> simp
      simp only [this, List.append_assoc]
    have hfs : ∀ b : Bool, (Lexer.mk raw1 .newLine b).raw.line.length < (Spec.buffer cfg ln).length + 1 := by
      intro b; simp only [r1line]; omega
    simp only [Bool.not_true, Bool.false_eq_true, if_false]
    cases rep with
    | false =>
      simp only [Bool.false_eq_true, if_false]
      have := ihA ⟨raw1, .newLine, L.started⟩ done ln nl _ f (by have := hmu L.started; omega)
        (hA _ (by intro h; cases h)) (by have := hmu L.started; omega)
        (hfs _)
      rw [hS L.started]
      simp only [Bool.false_eq_true, false_and, if_false, List.nil_append]
      exact this.mono (Nat.le_of_lt (hmu _))
    | true =>
      simp only [if_true]
      have hst := hB.started rfl
      cases hstarted : L.started with
      | true =>
        simp only [if_true]
        right
        refine ⟨rfl, hmu _, done, ln, nl, _, hA true (fun _ => rfl), hfs _, ?_⟩
        rw [hS true, if_pos ⟨rfl, hst.1 hstarted⟩]; rfl
      | false =>
        simp only [Bool.false_eq_true, if_false]
        have hd : done = [] := by
          by_cases h : done = []
          · exact h
          · have := hst.2 h; rw [hstarted] at this; cases this
        have := ihA ⟨raw1, .newLine, true⟩ done ln nl _ f (by have := hmu true; omega)
          (hA _ (fun _ => rfl)) (by have := hmu true; omega) (hfs _)
        rw [hS true, if_neg (by simp [hd]), List.nil_append]
        exact this.mono (Nat.le_of_lt (hmu _))


theorem trace_posOf {src : List Char} {rep : Bool} {L : Lexer} {done text nl}
    (h : StA src rep L done text nl) (p : Nat) (h1 : (joined done).length ≤ p)
    (h2 : p ≤ (joined done).length + text.length) :
    trace src p = posOf (done.length + 1) (joined done).length text p := by
  have := trace_spec done text (if nl then '\n' :: L.raw.rest else []) (p - (joined done).length)
    h.done_ok h.text_ok (by cases nl <;> simp) (by omega)
  rw [← h.src_eq, show (joined done).length + (p - (joined done).length) = p by omega] at this
  rw [this]; rfl

theorem nxA {src : List Char} {cfg : Cfg} {rep : Bool} (m : Nat)
    (hB : ∀ (L : Lexer) done f, L.mu < m + 1 → StB src rep L done → L.mu < f →
      NxOk src cfg rep L (SpecB cfg rep L done) (L.nextF cfg rep f).1 (L.nextF cfg rep f).2) :
    ∀ (L : Lexer) done text nl fs f, L.mu < m + 1 → StA src rep L done text nl → L.mu < f →
      L.raw.line.length < fs →
      NxOk src cfg rep L (SpecA cfg rep L done text fs) (L.nextF cfg rep f).1 (L.nextF cfg rep f).2 := by
  intro L done text nl fs f hm hA hf hfs
  rcases line_step cfg rep f L fs hA.inv hf hfs with ⟨hs, f', hf', hn⟩ | ⟨item, more, L', hs, hn, st⟩
  · rw [hn]
    have hmu : L.endLine.mu ≤ L.mu := by
      simp only [Lexer.endLine, Lexer.mu, Raw.endLine, List.length_nil]; omega
    have stB : StB src rep L.endLine (done ++ [text]) := by
      refine ⟨rfl, ?_, ?_, ?_, Raw.Inv.endLine hA.inv⟩
      · cases hnl : nl with
        | false => left; exact hA.noNl hnl
        | true =>
          right
          refine ⟨?_, ?_⟩
          · have := hA.src_eq; rw [hnl] at this
            rw [this, joined_snoc]; simp [Lexer.endLine, Raw.endLine]
          · have := hA.nextStart hnl
            rw [joined_snoc]
            simp only [Lexer.endLine, Raw.endLine, List.length_append, List.length_cons, List.length_nil]
            omega
      · intro l hl
        simp only [List.mem_append, List.mem_singleton] at hl
        rcases hl with hl | rfl
        · exact hA.done_ok l hl
        · exact hA.text_ok
      · intro hr; simp [Lexer.endLine, hA.started hr]
    have hS : SpecA cfg rep L done text fs = SpecB cfg rep L.endLine (done ++ [text]) := by
      simp only [SpecA, SpecB, hs, List.map_nil, List.nil_append, List.length_append,
        List.length_cons, List.length_nil]
      rfl
    rw [hS]
    exact (hB L.endLine _ f' (by omega) stB hf').mono hmu
  · rw [hn]
    right
    obtain ⟨fs', hfs', hmore⟩ := st.more_eq
    refine ⟨st.goes, st.dec, done, text, nl, fs', ?_, hfs', ?_⟩
    · refine ⟨?_, ?_, hA.done_ok, hA.text_ok, ?_, ?_, ?_, ?_, st.inv⟩
      · rw [st.rest]; exact hA.src_eq
      · intro h; rw [st.rest]; exact hA.noNl h
      · exact Nat.le_trans hA.k0_le st.keymono
      · rw [st.keysum]; exact hA.in_line
      · intro h; rw [st.keysum, st.trimmed]; exact hA.nextStart h
      · intro h; rw [st.started]; exact hA.started h
    · simp only [SpecA, hs, List.map_cons, List.cons_append, st.rest, ← hmore]
      congr 1
      have hk := st.itemKey
      have hin := hA.in_line
      have hk0 := hA.k0_le
      cases item with
      | token t p =>
        have := hk p rfl
        simp only [Res.map, trace_posOf hA p (by omega) (by omega)]
      | invalid c p =>
        have := hk p rfl
        simp only [Res.map, trace_posOf hA p (by omega) (by omega)]
      | _ => rfl


theorem nx_all {src : List Char} {cfg : Cfg} {rep : Bool} : ∀ m : Nat,
    (∀ (L : Lexer) done text nl fs f, L.mu < m → StA src rep L done text nl → L.mu < f →
      L.raw.line.length < fs →
      NxOk src cfg rep L (SpecA cfg rep L done text fs) (L.nextF cfg rep f).1 (L.nextF cfg rep f).2) ∧
    (∀ (L : Lexer) done f, L.mu < m → StB src rep L done → L.mu < f →
      NxOk src cfg rep L (SpecB cfg rep L done) (L.nextF cfg rep f).1 (L.nextF cfg rep f).2) := by
  intro m
  induction m with
  | zero => exact ⟨by intros; omega, by intros; omega⟩
  | succ m ih =>
    have hB := nxB (src := src) (cfg := cfg) (rep := rep) m ih.1
    exact ⟨nxA m hB, hB⟩

/-- The lexer is in a state that the specification stream `S` describes. -/
def Described (src : List Char) (cfg : Cfg) (rep : Bool) (L : Lexer) (S : List (Res Pos)) : Prop :=
  (∃ done text nl fs, StA src rep L done text nl ∧ L.raw.line.length < fs ∧
    S = SpecA cfg rep L done text fs) ∨
  (∃ done, StB src rep L done ∧ S = SpecB cfg rep L done)

theorem next_described {src : List Char} {cfg : Cfg} {rep : Bool} {L : Lexer} {S : List (Res Pos)}
    (h : Described src cfg rep L S) :
    NxOk src cfg rep L S (L.next cfg rep).1 (L.next cfg rep).2 := by
  have all := nx_all (src := src) (cfg := cfg) (rep := rep) (L.mu + 1)
  rcases h with ⟨done, text, nl, fs, hA, hfs, rfl⟩ | ⟨done, hB, rfl⟩
  · exact all.1 L done text nl fs (L.mu + 1) (by omega) hA (by omega) hfs
  · exact all.2 L done (L.mu + 1) (by omega) hB (by omega)

theorem lexAllF_eq {src : List Char} {cfg : Cfg} {rep : Bool} : ∀ (F : Nat) (L : Lexer)
    (S : List (Res Pos)), Described src cfg rep L S → L.mu + 1 < F →
    (lexAllF cfg rep F L).map (Res.map (trace src)) = S := by
  intro F
  induction F with
  | zero => intro L S _ hf; omega
  | succ F ih =>
    intro L S hd hf
    have ok := next_described hd
    simp only [lexAllF]
    generalize L.next cfg rep = p at ok
    obtain ⟨res, L'⟩ := p
    rcases ok with ⟨hr, hS⟩ | ⟨hg, hmu, done, text, nl, fs, hA, hfs, hS⟩
    · simp only [] at hr; subst hr; rw [hS]; rfl
    · simp only [] at hg hmu hS hA hfs
      have hrec := ih L' _ (Or.inl ⟨done, text, nl, fs, hA, hfs, rfl⟩) (by omega)
      cases res with
      | token t p => simp only [List.map_cons, hrec, hS]
      | invalid c p => simp only [List.map_cons, hrec, hS]
      | endOfLine => simp only [List.map_cons, hrec, hS]
      | endOfInput => simp [Res.goesOn] at hg
      | panic => simp [Res.goesOn] at hg
      | fuel => simp [Res.goesOn] at hg

theorem lexTraced_eq_specAll (cfg : Cfg) (rep : Bool) (src : List Char) :
    lexTraced cfg rep src = Spec.specAll cfg rep src := by
  unfold lexTraced lexAll
  apply lexAllF_eq
  · right
    refine ⟨[], ⟨rfl, Or.inr ⟨by simp [joined, Lexer.init], by simp [joined, Lexer.init]⟩, by simp,
      by intro _; simp [Lexer.init], Raw.Inv.init src⟩, ?_⟩
    simp [SpecB, Spec.specAll, Lexer.init]
  · omega


end C03
