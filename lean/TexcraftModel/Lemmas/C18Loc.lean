import TexcraftModel.Lemmas.C18Lex

/-! C18: errors are located. Every scanner returns a suffix of its input, and the label span
of the first error `lex` reports is a pair of suffixes of the source, the second a suffix of
the first: a valid character range. -/
namespace C18

theorem suffix_cons_of {α} {a b : List α} (c : α) (h : a <:+ b) : a <:+ c :: b :=
  List.IsSuffix.trans h (List.suffix_cons c b)

theorem dropLine_suffix : ∀ r : List Char, dropLine r <:+ r := by
  intro r
  induction r with
  | nil => exact List.suffix_refl _
  | cons c r ih =>
    simp only [dropLine]
    split
    · exact List.suffix_cons c r
    · exact suffix_cons_of c ih

theorem scanDigits_suffix : ∀ (cs : List Char) (acc : Nat), (scanDigits acc cs).2 <:+ cs := by
  intro cs
  induction cs with
  | nil => intro acc; exact List.suffix_refl _
  | cons c r ih =>
    intro acc
    simp only [scanDigits]
    split
    · next d _ => exact suffix_cons_of c (ih (acc * 10 + d))
    · exact List.suffix_refl _

theorem scanFrac_suffix : ∀ (cs : List Char), (scanFrac cs).2 <:+ cs := by
  intro cs
  induction cs with
  | nil => exact List.suffix_refl _
  | cons c r ih =>
    simp only [scanFrac]
    split
    · exact suffix_cons_of c ih
    · exact List.suffix_refl _

theorem scanWord_suffix : ∀ (cs : List Char), (scanWord cs).2 <:+ cs := by
  intro cs
  induction cs with
  | nil => exact List.suffix_refl _
  | cons c r ih =>
    simp only [scanWord]
    split
    · exact suffix_cons_of c ih
    · exact List.suffix_refl _

theorem scanStr_suffix : ∀ (cs : List Char) (st : SState) (s : Str) (r : List Char),
    scanStr st cs = .ok (s, r) → r <:+ cs := by
  intro cs
  induction cs with
  | nil => intro st s r h; cases st <;> simp [scanStr] at h
  | cons c cs ih =>
    intro st s r h
    cases st with
    | norm =>
      simp only [scanStr] at h
      split at h
      · simp only [Res.ok.injEq, Prod.mk.injEq] at h; rw [← h.2]; exact List.suffix_cons c cs
      · split at h
        · exact suffix_cons_of c (ih _ _ _ h)
        · obtain ⟨s', hs⟩ := push_ok h; exact suffix_cons_of c (ih _ _ _ hs)
    | esc bs =>
      simp only [scanStr] at h
      repeat' split at h
      all_goals first
        | (obtain ⟨s', hs⟩ := push_ok h; exact suffix_cons_of c (ih _ _ _ hs))
        | exact suffix_cons_of c (ih _ _ _ h)
        | cases h
    | afterU bs =>
      simp only [scanStr] at h
      split at h
      · exact suffix_cons_of c (ih _ _ _ h)
      · cases h
    | hex bs v valid =>
      simp only [scanStr] at h
      repeat' split at h
      all_goals first
        | (obtain ⟨s', hs⟩ := push_ok h; exact suffix_cons_of c (ih _ _ _ hs))
        | exact suffix_cons_of c (ih _ _ _ h)
        | cases h

/-- The text from the backslash on, for the states inside an escape. -/
def SState.bs? : SState → Option (List Char)
  | .norm => none
  | .esc bs | .afterU bs | .hex bs _ _ => some bs

theorem push_err {α} {c : Char} {x : Res (Str × α)} {e : LexErr}
    (h : x.push c = .err e) : x = .err e := by
  cases x with
  | ok p => simp [Res.push] at h
  | err e' => simpa [Res.push] using h
  | unsupported => simp [Res.push] at h

/-- An error inside a string: its span ends where the scan stopped and starts either at the
backslash of the escape being read or later in the text. -/
theorem scanStr_err_located : ∀ (cs : List Char) (st : SState) (e : LexErr) (f t : List Char),
    scanStr st cs = .err e → e.span = some (f, t) → (∀ bs, st.bs? = some bs → cs <:+ bs) →
    t <:+ f ∧ (f <:+ cs ∨ st.bs? = some f) := by
  intro cs
  induction cs with
  | nil =>
    intro st e f t h hs hb
    cases st with
    | norm => simp only [scanStr, Res.err.injEq] at h; rw [← h] at hs; cases hs
    | esc bs => simp only [scanStr, Res.err.injEq] at h; rw [← h] at hs; cases hs
    | afterU bs =>
      simp only [scanStr, Res.err.injEq] at h; rw [← h] at hs
      simp only [LexErr.span, Option.some.injEq, Prod.mk.injEq] at hs
      rw [← hs.1, ← hs.2]
      exact ⟨hb bs rfl, .inr rfl⟩
    | hex bs v valid =>
      simp only [scanStr, Res.err.injEq] at h; rw [← h] at hs
      simp only [LexErr.span, Option.some.injEq, Prod.mk.injEq] at hs
      rw [← hs.1, ← hs.2]
      exact ⟨hb bs rfl, .inr rfl⟩
  | cons c cs ih =>
    intro st e f t h hs hb
    -- continuing in state `st'` on `cs`
    have cont : ∀ st', scanStr st' cs = .err e → (∀ bs, st'.bs? = some bs → cs <:+ bs) →
        (st'.bs? = none ∨ st'.bs? = st.bs? ∨ st'.bs? = some (c :: cs)) →
        t <:+ f ∧ (f <:+ c :: cs ∨ st.bs? = some f) := by
      intro st' h' hb' hrel
      have := ih st' e f t h' hs hb'
      refine ⟨this.1, ?_⟩
      rcases this.2 with h1 | h1
      · exact .inl (suffix_cons_of c h1)
      · rcases hrel with h2 | h2 | h2
        · rw [h2] at h1; cases h1
        · rw [h2] at h1; exact .inr h1
        · rw [h2] at h1; simp only [Option.some.injEq] at h1; rw [← h1]; exact .inl (List.suffix_refl _)
    have here : ∀ (bs t' : List Char), st.bs? = some bs → t' <:+ c :: cs →
        e = .unknownEscapeSequence (bs, t') → t <:+ f ∧ (f <:+ c :: cs ∨ st.bs? = some f) := by
      intro bs t' hst ht he
      rw [he] at hs
      simp only [LexErr.span, Option.some.injEq, Prod.mk.injEq] at hs
      rw [← hs.1, ← hs.2]
      exact ⟨List.IsSuffix.trans ht (hb bs hst), .inr hst⟩
    cases st with
    | norm =>
      simp only [scanStr] at h
      split at h
      · cases h
      · split at h
        · exact cont (.esc (c :: cs)) h (fun bs hbs => by
            simp only [SState.bs?, Option.some.injEq] at hbs; rw [← hbs]; exact List.suffix_cons c cs)
            (.inr (.inr rfl))
        · exact cont .norm (push_err h) (fun bs hbs => by cases hbs) (.inl rfl)
    | esc bs =>
      have hcs : cs <:+ bs := List.IsSuffix.trans (List.suffix_cons c cs) (hb bs rfl)
      simp only [scanStr] at h
      repeat' split at h
      all_goals first
        | exact cont .norm (push_err h) (fun bs hbs => by cases hbs) (.inl rfl)
        | exact cont (.afterU bs) h (fun b hbs => by
            simp only [SState.bs?, Option.some.injEq] at hbs; rw [← hbs]; exact hcs) (.inr (.inl rfl))
        | (simp only [Res.err.injEq] at h
           exact here bs cs rfl (List.suffix_cons c cs) h.symm)
    | afterU bs =>
      have hcs : cs <:+ bs := List.IsSuffix.trans (List.suffix_cons c cs) (hb bs rfl)
      simp only [scanStr] at h
      split at h
      · exact cont (.hex bs 0 true) h (fun b hbs => by
          simp only [SState.bs?, Option.some.injEq] at hbs; rw [← hbs]; exact hcs) (.inr (.inl rfl))
      · simp only [Res.err.injEq] at h
        exact here bs (c :: cs) rfl (List.suffix_refl _) h.symm
    | hex bs v valid =>
      have hcs : cs <:+ bs := List.IsSuffix.trans (List.suffix_cons c cs) (hb bs rfl)
      simp only [scanStr] at h
      repeat' split at h
      all_goals first
        | exact cont .norm (push_err h) (fun bs hbs => by cases hbs) (.inl rfl)
        | exact cont (.hex bs _ valid) h (fun b hbs => by
            simp only [SState.bs?, Option.some.injEq] at hbs; rw [← hbs]; exact hcs) (.inr (.inl rfl))
        | exact cont (.hex bs _ false) h (fun b hbs => by
            simp only [SState.bs?, Option.some.injEq] at hbs; rw [← hbs]; exact hcs) (.inr (.inl rfl))
        | (simp only [Res.err.injEq] at h
           first
             | exact here bs cs rfl (List.suffix_cons c cs) h.symm
             | exact here bs (c :: cs) rfl (List.suffix_refl _) h.symm)

/-! ### numbers -/

theorem lexInt_err_located (st : List Char) (neg : Bool) (n : Nat) (r : List Char) (e : LexErr)
    (f t : List Char) (h : lexInt st neg n r = .err e) (hs : e.span = some (f, t)) :
    f = st ∧ t = r := by
  unfold lexInt at h
  split at h
  · simp only [Res.err.injEq] at h; rw [← h] at hs
    simp only [LexErr.span, Option.some.injEq, Prod.mk.injEq] at hs
    exact ⟨hs.1.symm, hs.2.symm⟩
  · cases h

theorem lexUnit_err_located (st : List Char) (neg : Bool) (n : Nat) (ds : List Nat) (r : List Char)
    (e : LexErr) (f t : List Char) (h : lexUnit st neg n ds r = .err e) (hs : e.span = some (f, t)) :
    t <:+ r ∧ (f = st ∨ f = r) := by
  unfold lexUnit at h
  have hw := scanWord_suffix r
  generalize scanWord r = p at h hw
  obtain ⟨u, r1⟩ := p
  simp only [] at h hw
  repeat' split at h
  all_goals first
    | (simp only [Res.err.injEq] at h; rw [← h] at hs
       simp only [LexErr.span, Option.some.injEq, Prod.mk.injEq] at hs
       rw [← hs.1, ← hs.2]
       first
         | exact ⟨hw, .inl rfl⟩
         | exact ⟨hw, .inr rfl⟩)
    | cases h

theorem lexUnit_suffix (st : List Char) (neg : Bool) (n : Nat) (ds : List Nat) (r : List Char) (t : BTok)
    (r' : List Char) (h : lexUnit st neg n ds r = .ok (t, r')) : r' <:+ r := by
  unfold lexUnit at h
  have hw := scanWord_suffix r
  generalize scanWord r = p at h hw
  obtain ⟨u, r1⟩ := p
  simp only [] at h hw
  repeat' split at h
  all_goals first
    | (simp only [Res.ok.injEq, Prod.mk.injEq] at h; rw [← h.2]; exact hw)
    | cases h

theorem lexNumber_suffix (st : List Char) (neg : Bool) (cs : List Char) (t : BTok) (r' : List Char)
    (h : lexNumber st neg cs = .ok (t, r')) : r' <:+ cs := by
  unfold lexNumber at h
  have hd := scanDigits_suffix cs 0
  generalize scanDigits 0 cs = p at h hd
  obtain ⟨n, r1⟩ := p
  simp only [] at h hd
  cases r1 with
  | nil => simp only [] at h; rw [lexInt_len _ _ _ _ _ _ h]; exact hd
  | cons c r2 =>
    simp only [] at h
    split at h
    · have hf := scanFrac_suffix r2
      generalize scanFrac r2 = q at h hf
      obtain ⟨ds, r3⟩ := q
      simp only [] at h hf
      cases r3 with
      | nil => cases h
      | cons c' r4 =>
        simp only [] at h
        repeat' split at h
        all_goals first
          | exact List.IsSuffix.trans (lexUnit_suffix _ _ _ _ _ _ _ h)
              (List.IsSuffix.trans hf (List.IsSuffix.trans (List.suffix_cons c r2) hd))
          | cases h
    · split at h
      · exact List.IsSuffix.trans (lexUnit_suffix _ _ _ _ _ _ _ h) hd
      · rw [lexInt_len _ _ _ _ _ _ h]; exact hd

/-- An error inside a number: the span ends inside the number's text and starts at the start of
the number or inside it. -/
theorem lexNumber_err_located (st : List Char) (neg : Bool) (cs : List Char) (e : LexErr)
    (f t : List Char) (h : lexNumber st neg cs = .err e) (hs : e.span = some (f, t))
    (hst : cs <:+ st) : t <:+ f ∧ (f = st ∨ f <:+ cs) := by
  unfold lexNumber at h
  have hd := scanDigits_suffix cs 0
  generalize scanDigits 0 cs = p at h hd
  obtain ⟨n, r1⟩ := p
  simp only [] at h hd
  cases r1 with
  | nil =>
    simp only [] at h
    obtain ⟨h1, h2⟩ := lexInt_err_located _ _ _ _ _ _ _ h hs
    rw [h1, h2]
    exact ⟨List.nil_suffix, .inl rfl⟩
  | cons c r2 =>
    simp only [] at h
    split at h
    · have hf := scanFrac_suffix r2
      generalize scanFrac r2 = q at h hf
      obtain ⟨ds, r3⟩ := q
      simp only [] at h hf
      have h3 : r3 <:+ cs := List.IsSuffix.trans hf (List.IsSuffix.trans (List.suffix_cons c r2) hd)
      cases r3 with
      | nil =>
        simp only [Res.err.injEq] at h; rw [← h] at hs
        simp only [LexErr.span, Option.some.injEq, Prod.mk.injEq] at hs
        rw [← hs.1, ← hs.2]
        exact ⟨List.suffix_refl _, .inr List.nil_suffix⟩
      | cons c' r4 =>
        simp only [] at h
        split at h
        · obtain ⟨h1, h2⟩ := lexUnit_err_located _ _ _ _ _ _ _ _ h hs
          rcases h2 with h2 | h2
          · rw [h2]; exact ⟨List.IsSuffix.trans h1 (List.IsSuffix.trans h3 hst), .inl rfl⟩
          · rw [h2]; exact ⟨h1, .inr h3⟩
        · split at h
          all_goals
            simp only [Res.err.injEq] at h; rw [← h] at hs
            simp only [LexErr.span, Option.some.injEq, Prod.mk.injEq] at hs
            rw [← hs.1, ← hs.2]
            exact ⟨List.suffix_cons c' r4, .inr h3⟩
    · split at h
      · obtain ⟨h1, h2⟩ := lexUnit_err_located _ _ _ _ _ _ _ _ h hs
        rcases h2 with h2 | h2
        · rw [h2]; exact ⟨List.IsSuffix.trans h1 (List.IsSuffix.trans hd hst), .inl rfl⟩
        · rw [h2]; exact ⟨h1, .inr hd⟩
      · obtain ⟨h1, h2⟩ := lexInt_err_located _ _ _ _ _ _ _ h hs
        rw [h1, h2]
        exact ⟨List.IsSuffix.trans hd hst, .inl rfl⟩

/-! ### one step, and the whole text -/

theorem ofRes_err {x : Res (BTok × List Char)} {e : LexErr} (h : Step.ofRes x = .err e) : x = .err e := by
  cases x with
  | ok p => obtain ⟨a, b⟩ := p; simp [Step.ofRes] at h
  | err e' => cases e' <;> simp_all [Step.ofRes]
  | unsupported => simp [Step.ofRes] at h

theorem map_err {α β} {f : α → β} {x : Res α} {e : LexErr} (h : x.map f = .err e) : x = .err e := by
  cases x <;> simp_all [Res.map]

theorem step_skip_suffix {x r : List Char} (h : x <:+ r) :
    (∀ r', Step.skip x = .skip r' → r' <:+ r) ∧ (∀ t r', Step.skip x = .tok t r' → r' <:+ r) :=
  ⟨fun r' e => (by cases e; exact h), fun t r' e => (by cases e)⟩

theorem step_tok_suffix {tk : BTok} {x r : List Char} (h : x <:+ r) :
    (∀ r', Step.tok tk x = .skip r' → r' <:+ r) ∧ (∀ t r', Step.tok tk x = .tok t r' → r' <:+ r) :=
  ⟨fun r' e => (by cases e), fun t r' e => (by cases e; exact h)⟩

theorem step_err_suffix {e0 : LexErr} {r : List Char} :
    (∀ r', Step.err e0 = .skip r' → r' <:+ r) ∧ (∀ t r', Step.err e0 = .tok t r' → r' <:+ r) :=
  ⟨fun r' e => (by cases e), fun t r' e => (by cases e)⟩

/-- The rest after a step is a suffix of the text after the character looked at. -/
theorem lexStep_suffix (c : Char) (r : List Char) :
    (∀ r', lexStep c r = .skip r' → r' <:+ r) ∧ (∀ t r', lexStep c r = .tok t r' → r' <:+ r) := by
  unfold lexStep
  by_cases h1 : c = '#'
  · rw [if_pos h1]; exact step_skip_suffix (dropLine_suffix r)
  rw [if_neg h1]
  by_cases h2 : isWs c = true
  · rw [if_pos h2]; exact step_skip_suffix (List.suffix_refl _)
  rw [if_neg h2]
  by_cases h3 : c = '('
  · rw [if_pos h3]; exact step_tok_suffix (List.suffix_refl _)
  rw [if_neg h3]
  by_cases h4 : c = ')'
  · rw [if_pos h4]; exact step_tok_suffix (List.suffix_refl _)
  rw [if_neg h4]
  by_cases h5 : c = '['
  · rw [if_pos h5]; exact step_tok_suffix (List.suffix_refl _)
  rw [if_neg h5]
  by_cases h6 : c = ']'
  · rw [if_pos h6]; exact step_tok_suffix (List.suffix_refl _)
  rw [if_neg h6]
  by_cases h7 : c = ','
  · rw [if_pos h7]; exact step_tok_suffix (List.suffix_refl _)
  rw [if_neg h7]
  by_cases h8 : c = '='
  · rw [if_pos h8]; exact step_tok_suffix (List.suffix_refl _)
  rw [if_neg h8]
  by_cases h9 : c = '"'
  · rw [if_pos h9]
    refine ⟨fun r' h => absurd h ofRes_skip, fun t r' h => ?_⟩
    have h' := ofRes_tok h
    cases hs : scanStr .norm r with
    | ok p =>
      rw [hs] at h'
      simp only [Res.map, Res.ok.injEq, Prod.mk.injEq] at h'
      rw [← h'.2]; exact scanStr_suffix r .norm p.1 p.2 (by rw [hs])
    | err e => rw [hs] at h'; simp [Res.map] at h'
    | unsupported => rw [hs] at h'; simp [Res.map] at h'
  rw [if_neg h9]
  by_cases h10 : c = '-'
  · rw [if_pos h10]
    exact ⟨fun r' h => absurd h ofRes_skip, fun t r' h => lexNumber_suffix _ _ _ _ _ (ofRes_tok h)⟩
  rw [if_neg h10]
  by_cases h11 : (digitVal c).isSome = true
  · rw [if_pos h11]
    refine ⟨fun r' h => absurd h ofRes_skip, fun t r' h => ?_⟩
    have h' := ofRes_tok h
    -- the first digit is consumed
    unfold lexNumber at h'
    cases hv : digitVal c with
    | none => rw [hv] at h11; simp at h11
    | some d =>
      simp only [scanDigits, hv] at h'
      have hd := scanDigits_suffix r (0 * 10 + d)
      generalize scanDigits (0 * 10 + d) r = p at h' hd
      obtain ⟨n, r1⟩ := p
      simp only [] at h' hd
      cases r1 with
      | nil => simp only [] at h'; rw [lexInt_len _ _ _ _ _ _ h']; exact hd
      | cons c2 r2 =>
        simp only [] at h'
        split at h'
        · have hf := scanFrac_suffix r2
          generalize scanFrac r2 = q at h' hf
          obtain ⟨ds, r3⟩ := q
          simp only [] at h' hf
          cases r3 with
          | nil => cases h'
          | cons c' r4 =>
            simp only [] at h'
            repeat' split at h'
            all_goals first
              | exact List.IsSuffix.trans (lexUnit_suffix _ _ _ _ _ _ _ h')
                  (List.IsSuffix.trans hf (List.IsSuffix.trans (List.suffix_cons c2 r2) hd))
              | cases h'
        · split at h'
          · exact List.IsSuffix.trans (lexUnit_suffix _ _ _ _ _ _ _ h') hd
          · rw [lexInt_len _ _ _ _ _ _ h']; exact hd
  rw [if_neg h11]
  by_cases h12 : isAlpha c = true
  · rw [if_pos h12]
    have hw := scanWord_suffix r
    generalize scanWord r = p at hw
    obtain ⟨w, r1⟩ := p
    exact step_tok_suffix hw
  rw [if_neg h12]
  exact step_err_suffix

/-- An error reported by one step is located inside `c :: r`. -/
theorem lexStep_err_located (c : Char) (r : List Char) (e : LexErr) (f t : List Char)
    (h : lexStep c r = .err e) (hs : e.span = some (f, t)) : t <:+ f ∧ f <:+ c :: r := by
  unfold lexStep at h
  by_cases h1 : c = '#'
  · rw [if_pos h1] at h; cases h
  rw [if_neg h1] at h
  by_cases h2 : isWs c = true
  · rw [if_pos h2] at h; cases h
  rw [if_neg h2] at h
  by_cases h3 : c = '('
  · rw [if_pos h3] at h; cases h
  rw [if_neg h3] at h
  by_cases h4 : c = ')'
  · rw [if_pos h4] at h; cases h
  rw [if_neg h4] at h
  by_cases h5 : c = '['
  · rw [if_pos h5] at h; cases h
  rw [if_neg h5] at h
  by_cases h6 : c = ']'
  · rw [if_pos h6] at h; cases h
  rw [if_neg h6] at h
  by_cases h7 : c = ','
  · rw [if_pos h7] at h; cases h
  rw [if_neg h7] at h
  by_cases h8 : c = '='
  · rw [if_pos h8] at h; cases h
  rw [if_neg h8] at h
  by_cases h9 : c = '"'
  · rw [if_pos h9] at h
    have h' := map_err (ofRes_err h)
    have := scanStr_err_located r .norm e f t h' hs (fun bs hb => by cases hb)
    rcases this.2 with h2 | h2
    · exact ⟨this.1, suffix_cons_of c h2⟩
    · cases h2
  rw [if_neg h9] at h
  by_cases h10 : c = '-'
  · rw [if_pos h10] at h
    have := lexNumber_err_located _ _ _ e f t (ofRes_err h) hs (List.suffix_cons c r)
    rcases this.2 with h2 | h2
    · rw [h2]; rw [h2] at this; exact ⟨this.1, List.suffix_refl _⟩
    · exact ⟨this.1, suffix_cons_of c h2⟩
  rw [if_neg h10] at h
  by_cases h11 : (digitVal c).isSome = true
  · rw [if_pos h11] at h
    have := lexNumber_err_located _ _ _ e f t (ofRes_err h) hs (List.suffix_refl _)
    rcases this.2 with h2 | h2
    · rw [h2]; rw [h2] at this; exact ⟨this.1, List.suffix_refl _⟩
    · exact ⟨this.1, h2⟩
  rw [if_neg h11] at h
  by_cases h12 : isAlpha c = true
  · rw [if_pos h12] at h
    generalize scanWord r = p at h
    obtain ⟨w, r1⟩ := p
    cases h
  rw [if_neg h12] at h
  simp only [Step.err.injEq] at h
  rw [← h] at hs
  simp only [LexErr.span, Option.some.injEq, Prod.mk.injEq] at hs
  rw [← hs.1, ← hs.2]
  exact ⟨List.suffix_cons c r, List.suffix_refl _⟩

theorem lex_err_located : ∀ (n : Nat) (s : List Char) (e : LexErr) (f t : List Char),
    s.length ≤ n → lex s = .err e → e.span = some (f, t) → t <:+ f ∧ f <:+ s := by
  intro n
  induction n with
  | zero =>
    intro s e f t hn h hs
    have : s = [] := List.eq_nil_of_length_eq_zero (by omega)
    subst this
    simp [lex_nil] at h
  | succ n ih =>
    intro s e f t hn h hs
    cases s with
    | nil => simp [lex_nil] at h
    | cons c r =>
      simp only [List.length_cons] at hn
      rw [lex_cons] at h
      have hsh := lexStep_shorter c r
      have hsu := lexStep_suffix c r
      cases hst : lexStep c r with
      | skip r' =>
        rw [hst] at h
        have := ih r' e f t (by have := hsh.1 r' hst; omega) h hs
        exact ⟨this.1, suffix_cons_of c (List.IsSuffix.trans this.2 (hsu.1 r' hst))⟩
      | tok tk r' =>
        rw [hst] at h
        simp only [] at h
        cases hl : lex r' with
        | ok l => rw [hl] at h; simp [Res.cons] at h
        | err e' =>
          rw [hl] at h
          simp only [Res.cons, Res.err.injEq] at h
          subst h
          have := ih r' e' f t (by have := hsh.2 tk r' hst; omega) hl hs
          exact ⟨this.1, suffix_cons_of c (List.IsSuffix.trans this.2 (hsu.2 tk r' hst))⟩
        | unsupported => rw [hl] at h; simp [Res.cons] at h
      | err e' =>
        rw [hst] at h
        simp only [Res.err.injEq] at h
        subst h
        exact lexStep_err_located c r e' f t hst hs
      | stop => rw [hst] at h; cases h

/-! ### the errors `lex` reports all carry a span -/

theorem scanStr_err_class : ∀ (cs : List Char) (st : SState) (e : LexErr),
    scanStr st cs = .err e → e = .unterminatedString ∨ ∃ sp, e = .unknownEscapeSequence sp := by
  intro cs
  induction cs with
  | nil =>
    intro st e h
    cases st <;> simp only [scanStr, Res.err.injEq] at h <;> rw [← h]
    · exact .inl rfl
    · exact .inl rfl
    · exact .inr ⟨_, rfl⟩
    · exact .inr ⟨_, rfl⟩
  | cons c cs ih =>
    intro st e h
    cases st with
    | norm =>
      simp only [scanStr] at h
      split at h
      · cases h
      · split at h
        · exact ih _ _ h
        · exact ih _ _ (push_err h)
    | esc bs =>
      simp only [scanStr] at h
      repeat' split at h
      all_goals first
        | exact ih _ _ (push_err h)
        | exact ih _ _ h
        | (simp only [Res.err.injEq] at h; rw [← h]; exact .inr ⟨_, rfl⟩)
    | afterU bs =>
      simp only [scanStr] at h
      split at h
      · exact ih _ _ h
      · simp only [Res.err.injEq] at h; rw [← h]; exact .inr ⟨_, rfl⟩
    | hex bs v valid =>
      simp only [scanStr] at h
      repeat' split at h
      all_goals first
        | exact ih _ _ (push_err h)
        | exact ih _ _ h
        | (simp only [Res.err.injEq] at h; rw [← h]; exact .inr ⟨_, rfl⟩)

theorem lexInt_err_span (st : List Char) (neg : Bool) (n : Nat) (r : List Char) (e : LexErr)
    (h : lexInt st neg n r = .err e) : e.span ≠ none := by
  unfold lexInt at h
  split at h
  · simp only [Res.err.injEq] at h; rw [← h]; simp [LexErr.span]
  · cases h

theorem lexUnit_err_span (st : List Char) (neg : Bool) (n : Nat) (ds : List Nat) (r : List Char)
    (e : LexErr) (h : lexUnit st neg n ds r = .err e) : e.span ≠ none := by
  unfold lexUnit at h
  generalize scanWord r = p at h
  obtain ⟨u, r1⟩ := p
  simp only [] at h
  repeat' split at h
  all_goals first
    | (simp only [Res.err.injEq] at h; rw [← h]; simp [LexErr.span])
    | cases h

theorem lexNumber_err_span (st : List Char) (neg : Bool) (cs : List Char) (e : LexErr)
    (h : lexNumber st neg cs = .err e) : e.span ≠ none := by
  unfold lexNumber at h
  generalize scanDigits 0 cs = p at h
  obtain ⟨n, r1⟩ := p
  simp only [] at h
  cases r1 with
  | nil => exact lexInt_err_span _ _ _ _ _ h
  | cons c r2 =>
    simp only [] at h
    split at h
    · generalize scanFrac r2 = q at h
      obtain ⟨ds, r3⟩ := q
      simp only [] at h
      cases r3 with
      | nil => simp only [Res.err.injEq] at h; rw [← h]; simp [LexErr.span]
      | cons c' r4 =>
        simp only [] at h
        split at h
        · exact lexUnit_err_span _ _ _ _ _ _ h
        · split at h <;> (simp only [Res.err.injEq] at h; rw [← h]; simp [LexErr.span])
    · split at h
      · exact lexUnit_err_span _ _ _ _ _ _ h
      · exact lexInt_err_span _ _ _ _ _ h

theorem ofRes_err_ne {x : Res (BTok × List Char)} {e : LexErr} (h : Step.ofRes x = .err e) :
    e ≠ .unterminatedString := by
  cases x with
  | ok p => obtain ⟨a, b⟩ := p; simp [Step.ofRes] at h
  | err e' => cases e' <;> simp_all [Step.ofRes] <;> (intro h2; rw [← h] at h2; cases h2)
  | unsupported => simp [Step.ofRes] at h

theorem lexStep_err_span (c : Char) (r : List Char) (e : LexErr) (h : lexStep c r = .err e) :
    e.span ≠ none := by
  unfold lexStep at h
  by_cases h1 : c = '#'
  · rw [if_pos h1] at h; cases h
  rw [if_neg h1] at h
  by_cases h2 : isWs c = true
  · rw [if_pos h2] at h; cases h
  rw [if_neg h2] at h
  by_cases h3 : c = '('
  · rw [if_pos h3] at h; cases h
  rw [if_neg h3] at h
  by_cases h4 : c = ')'
  · rw [if_pos h4] at h; cases h
  rw [if_neg h4] at h
  by_cases h5 : c = '['
  · rw [if_pos h5] at h; cases h
  rw [if_neg h5] at h
  by_cases h6 : c = ']'
  · rw [if_pos h6] at h; cases h
  rw [if_neg h6] at h
  by_cases h7 : c = ','
  · rw [if_pos h7] at h; cases h
  rw [if_neg h7] at h
  by_cases h8 : c = '='
  · rw [if_pos h8] at h; cases h
  rw [if_neg h8] at h
  by_cases h9 : c = '"'
  · rw [if_pos h9] at h
    have hne := ofRes_err_ne h
    rcases scanStr_err_class r .norm e (map_err (ofRes_err h)) with h2 | ⟨sp, h2⟩
    · exact absurd h2 hne
    · rw [h2]; simp [LexErr.span]
  rw [if_neg h9] at h
  by_cases h10 : c = '-'
  · rw [if_pos h10] at h; exact lexNumber_err_span _ _ _ _ (ofRes_err h)
  rw [if_neg h10] at h
  by_cases h11 : (digitVal c).isSome = true
  · rw [if_pos h11] at h; exact lexNumber_err_span _ _ _ _ (ofRes_err h)
  rw [if_neg h11] at h
  by_cases h12 : isAlpha c = true
  · rw [if_pos h12] at h
    generalize scanWord r = p at h
    obtain ⟨w, r1⟩ := p
    cases h
  rw [if_neg h12] at h
  simp only [Step.err.injEq] at h
  rw [← h]; simp [LexErr.span]

/-- The only errors `lex` reports are the six located classes. -/
theorem lex_err_has_span : ∀ (n : Nat) (s : List Char) (e : LexErr),
    s.length ≤ n → lex s = .err e → e.span ≠ none := by
  intro n
  induction n with
  | zero =>
    intro s e hn h
    have : s = [] := List.eq_nil_of_length_eq_zero (by omega)
    subst this
    simp [lex_nil] at h
  | succ n ih =>
    intro s e hn h
    cases s with
    | nil => simp [lex_nil] at h
    | cons c r =>
      simp only [List.length_cons] at hn
      rw [lex_cons] at h
      have hsh := lexStep_shorter c r
      cases hst : lexStep c r with
      | skip r' => rw [hst] at h; exact ih r' e (by have := hsh.1 r' hst; omega) h
      | tok tk r' =>
        rw [hst] at h
        simp only [] at h
        cases hl : lex r' with
        | ok l => rw [hl] at h; simp [Res.cons] at h
        | err e' =>
          rw [hl] at h
          simp only [Res.cons, Res.err.injEq] at h
          subst h
          exact ih r' e' (by have := hsh.2 tk r' hst; omega) hl
        | unsupported => rw [hl] at h; simp [Res.cons] at h
      | err e' =>
        rw [hst] at h
        simp only [Res.err.injEq] at h
        subst h
        exact lexStep_err_span c r e' hst
      | stop => rw [hst] at h; cases h

end C18
