import TexcraftModel.Model.C11
namespace C11

/-! ## Ascending, `Int` -/

theorem mem_insertAsc {x y : Int} {l : List Int} : y ∈ insertAsc x l ↔ y = x ∨ y ∈ l := by
  induction l with
  | nil => simp [insertAsc]
  | cons a t ih =>
    simp only [insertAsc]
    split
    · simp
    · split
      · subst_vars; simp
      · simp only [List.mem_cons, ih]
        constructor
        · rintro (h | h | h) <;> simp [h]
        · rintro (h | h | h) <;> simp [h]

theorem sortDedup_cons (a : Int) (l : List Int) :
    sortDedup (a :: l) = insertAsc a (sortDedup l) := rfl

theorem mem_sortDedup {y : Int} {l : List Int} : y ∈ sortDedup l ↔ y ∈ l := by
  induction l with
  | nil => simp [sortDedup]
  | cons a t ih => rw [sortDedup_cons, mem_insertAsc, ih]; simp

theorem insertAsc_sorted {x : Int} {l : List Int} (h : l.Pairwise (· < ·)) :
    (insertAsc x l).Pairwise (· < ·) := by
  induction l with
  | nil => simp [insertAsc]
  | cons a t ih =>
    have ⟨ha, ht⟩ := List.pairwise_cons.mp h
    simp only [insertAsc]
    split
    · rename_i hxa
      refine List.pairwise_cons.mpr ⟨?_, h⟩
      intro y hy
      rcases List.mem_cons.mp hy with rfl | hy
      · exact hxa
      · exact Int.lt_trans hxa (ha y hy)
    · split
      · exact h
      · rename_i h1 h2
        refine List.pairwise_cons.mpr ⟨?_, ih ht⟩
        intro y hy
        rcases mem_insertAsc.mp hy with rfl | hy
        · omega
        · exact ha y hy

theorem sortDedup_sorted (l : List Int) : (sortDedup l).Pairwise (· < ·) := by
  induction l with
  | nil => simp [sortDedup]
  | cons a t ih => rw [sortDedup_cons]; exact insertAsc_sorted ih

theorem insertAsc_of_lt {a : Int} {t : List Int} (h : ∀ y ∈ t, a < y) :
    insertAsc a t = a :: t := by
  cases t with
  | nil => rfl
  | cons b t' =>
    have : a < b := h b (by simp)
    simp [insertAsc, this]

theorem sortDedup_of_sorted {l : List Int} (h : l.Pairwise (· < ·)) : sortDedup l = l := by
  induction l with
  | nil => rfl
  | cons a t ih =>
    have ⟨ha, ht⟩ := List.pairwise_cons.mp h
    rw [sortDedup_cons, ih ht, insertAsc_of_lt ha]

/-- normalising a normalised table changes nothing -/
theorem dedup_sort_idempotent (l : List Int) : sortDedup (sortDedup l) = sortDedup l :=
  sortDedup_of_sorted (sortDedup_sorted l)

theorem dims_sorted_ext : ∀ {l l' : List Int}, l.Pairwise (· < ·) → l'.Pairwise (· < ·) →
    (∀ x, x ∈ l ↔ x ∈ l') → l = l'
  | [], [], _, _, _ => rfl
  | [], b :: _, _, _, h => by have := (h b).mpr (by simp); simp at this
  | a :: _, [], _, _, h => by have := (h a).mp (by simp); simp at this
  | a :: t, b :: t', hl, hl', h => by
    have ⟨ha, ht⟩ := List.pairwise_cons.mp hl
    have ⟨hb, ht'⟩ := List.pairwise_cons.mp hl'
    have hab : a = b := by
      have h1 := (h a).mp (by simp)
      have h2 := (h b).mpr (by simp)
      rcases List.mem_cons.mp h1 with e | h1
      · exact e
      · rcases List.mem_cons.mp h2 with e | h2
        · exact e.symm
        · have := hb a h1
          have := ha b h2
          omega
    subst hab
    have : t = t' := by
      apply dims_sorted_ext ht ht'
      intro x
      constructor
      · intro hx
        have := (h x).mp (List.mem_cons_of_mem _ hx)
        rcases List.mem_cons.mp this with e | h3
        · have := ha x hx; omega
        · exact h3
      · intro hx
        have := (h x).mpr (List.mem_cons_of_mem _ hx)
        rcases List.mem_cons.mp this with e | h3
        · have := hb x hx; omega
        · exact h3
    rw [this]

/-- the table depends only on the *set* of values -/
theorem sortDedup_canonical {l l' : List Int} (h : ∀ x, x ∈ l ↔ x ∈ l') :
    sortDedup l = sortDedup l' :=
  dims_sorted_ext (sortDedup_sorted l) (sortDedup_sorted l')
    (fun x => by rw [mem_sortDedup, mem_sortDedup]; exact h x)

theorem dims_indexOf_of_mem {v : Int} {l : List Int} (h : v ∈ l) :
    ∃ i, indexOf v l = some i ∧ l[i]? = some v := by
  induction l with
  | nil => simp at h
  | cons a t ih =>
    simp only [indexOf]
    split
    · rename_i e
      exact ⟨0, rfl, by simp [e]⟩
    · rename_i ne
      rcases List.mem_cons.mp h with e | h'
      · exact absurd e.symm ne
      · obtain ⟨i, hi, hg⟩ := ih h'
        exact ⟨i + 1, by simp [hi], by simpa using hg⟩

theorem dims_indexOf_none {v : Int} {l : List Int} (h : v ∉ l) : indexOf v l = none := by
  induction l with
  | nil => rfl
  | cons a t ih =>
    have h1 : ¬ a = v := fun e => h (by simp [e])
    have h2 : v ∉ t := fun e => h (List.mem_cons_of_mem _ e)
    simp [indexOf, h1, ih h2]

/-- a value that was given is found again under its index -/
theorem index_preserved {v : Int} {vals : List Int} (h : v ∈ vals) :
    (table vals)[dimIndex v vals]? = some v := by
  obtain ⟨i, hi, hg⟩ := dims_indexOf_of_mem (mem_sortDedup.mpr h)
  simp only [dimIndex, hi, table, List.getElem?_cons_succ, hg]

/-- a value that was not given (zero heights/depths/italics are never pushed) gets index 0,
which reads 0 -/
theorem index_absent {v : Int} {vals : List Int} (h : v ∉ vals) :
    dimIndex v vals = 0 ∧ (table vals)[0]? = some 0 := by
  have := dims_indexOf_none (fun h' => h (mem_sortDedup.mp h'))
  simp [dimIndex, this, table]

theorem dims_indexOf_lt {v : Int} {l : List Int} {i : Nat} (h : indexOf v l = some i) :
    i < l.length := by
  induction l generalizing i with
  | nil => simp [indexOf] at h
  | cons a t ih =>
    simp only [indexOf] at h
    split at h
    · cases h; simp
    · cases hj : indexOf v t with
      | none => simp [hj] at h
      | some j =>
        simp [hj] at h
        have := ih hj
        simp; omega

theorem dimIndex_le (v : Int) (vals : List Int) : dimIndex v vals ≤ (sortDedup vals).length := by
  unfold dimIndex
  split
  · rename_i i hi
    exact dims_indexOf_lt hi
  · exact Nat.zero_le _

/-! ## Descending, `Nat` -/

theorem mem_insertDesc {x y : Nat} {l : List Nat} : y ∈ insertDesc x l ↔ y = x ∨ y ∈ l := by
  induction l with
  | nil => simp [insertDesc]
  | cons a t ih =>
    simp only [insertDesc]
    split
    · simp
    · split
      · subst_vars; simp
      · simp only [List.mem_cons, ih]
        constructor
        · rintro (h | h | h) <;> simp [h]
        · rintro (h | h | h) <;> simp [h]

theorem descDistinct_cons (a : Nat) (l : List Nat) :
    descDistinct (a :: l) = insertDesc a (descDistinct l) := rfl

theorem mem_descDistinct {y : Nat} {l : List Nat} : y ∈ descDistinct l ↔ y ∈ l := by
  induction l with
  | nil => simp [descDistinct]
  | cons a t ih => rw [descDistinct_cons, mem_insertDesc, ih]; simp

theorem insertDesc_sorted {x : Nat} {l : List Nat} (h : l.Pairwise (· > ·)) :
    (insertDesc x l).Pairwise (· > ·) := by
  induction l with
  | nil => simp [insertDesc]
  | cons a t ih =>
    have ⟨ha, ht⟩ := List.pairwise_cons.mp h
    simp only [insertDesc]
    split
    · rename_i hxa
      refine List.pairwise_cons.mpr ⟨?_, h⟩
      intro y hy
      rcases List.mem_cons.mp hy with rfl | hy
      · exact hxa
      · have := ha y hy; omega
    · split
      · exact h
      · rename_i h1 h2
        refine List.pairwise_cons.mpr ⟨?_, ih ht⟩
        intro y hy
        rcases mem_insertDesc.mp hy with rfl | hy
        · omega
        · exact ha y hy

theorem descDistinct_sorted (l : List Nat) : (descDistinct l).Pairwise (· > ·) := by
  induction l with
  | nil => simp [descDistinct]
  | cons a t ih => rw [descDistinct_cons]; exact insertDesc_sorted ih

end C11
