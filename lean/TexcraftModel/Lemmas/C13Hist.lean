import TexcraftModel.Lemmas.C13Trie
import TexcraftModel.Model.C13Text

/-! C13: for EVERY history (any order of loads, exception inserts and queries) the coded
hyphenator refines the prefix-map hyphenator. -/
namespace C13

/-- One operation on the prefix-map hyphenator. -/
def aApply (h : Hyph) : Op → Hyph
  | .loadText t => (splitWs t []).foldl loadPattern h
  | .excText t => (exceptionLines t).foldl insertException h
  | .exc e => insertException h e
  | .query _ => h

/-- `next` calls an operation makes (upper bound for the vertices it allocates). -/
def opEdges : Op → Nat
  | .loadText t => ((splitWs t []).map (fun p => (patOps p).2.length)).sum
  | .excText t => ((exceptionLines t).map (fun e => (excScan e [excNo] [.start]).2.length + 1)).sum
  | .exc e => (excScan e [excNo] [.start]).2.length + 1
  | .query _ => 0

theorem rel_applyOp (c : CHyph) (h : Hyph) (r : Rel c h) (op : Op)
    (hlt : c.trie.next + opEdges op < rootV) :
    Rel (applyOpG true c op) (aApply h op) ∧
    (applyOpG true c op).trie.next ≤ c.trie.next + opEdges op := by
  cases op with
  | loadText t => exact rel_loadPatterns (splitWs t []) c h r hlt
  | excText t => exact rel_insertExceptions' (exceptionLines t) c h r hlt
  | exc e => exact rel_insertException c h e r hlt
  | query w => exact ⟨r, by simp [applyOpG, opEdges]⟩

theorem rel_history (ops : List Op) (c : CHyph) (h : Hyph) (r : Rel c h)
    (hlt : c.trie.next + (ops.map opEdges).sum < rootV) :
    Rel (ops.foldl (applyOpG true) c) (ops.foldl aApply h) := by
  induction ops generalizing c h with
  | nil => exact r
  | cons op ops ih =>
    simp only [List.map_cons, List.sum_cons] at hlt
    obtain ⟨r1, n1⟩ := rel_applyOp c h r op (by omega)
    exact ih _ _ r1 (by omega)

end C13
