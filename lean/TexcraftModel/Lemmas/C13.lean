import TexcraftModel.Model.C13

/-! Helper lemmas for C13. -/
namespace C13

/-! ## `maxOver` -/

theorem maxOver_le_iff {α : Type} (l : List α) (f : α → Nat) (b : Nat) :
    maxOver l f ≤ b ↔ ∀ x ∈ l, f x ≤ b := by
  induction l with
  | nil => simp [maxOver]
  | cons a l ih =>
    have : maxOver (a :: l) f = max (f a) (maxOver l f) := rfl
    rw [this, Nat.max_le, ih]; simp

theorem le_maxOver {α : Type} (l : List α) (f : α → Nat) (x : α) (h : x ∈ l) :
    f x ≤ maxOver l f :=
  (maxOver_le_iff l f _).1 (Nat.le_refl _) x h

theorem maxOver_cons {α : Type} (a : α) (l : List α) (f : α → Nat) :
    maxOver (a :: l) f = max (f a) (maxOver l f) := rfl

theorem maxOver_append {α : Type} (l₁ l₂ : List α) (f : α → Nat) :
    maxOver (l₁ ++ l₂) f = max (maxOver l₁ f) (maxOver l₂ f) := by
  induction l₁ with
  | nil => simp [maxOver]
  | cons a l ih => simp only [List.cons_append, maxOver_cons, ih, Nat.max_assoc]

/-- Two maxima agree when each contribution of one is bounded by a contribution of the other. -/
theorem maxOver_eq {α β : Type} (l₁ : List α) (l₂ : List β) (f : α → Nat) (g : β → Nat)
    (h₁ : ∀ x ∈ l₁, f x = 0 ∨ ∃ y ∈ l₂, f x ≤ g y)
    (h₂ : ∀ y ∈ l₂, g y = 0 ∨ ∃ x ∈ l₁, g y ≤ f x) :
    maxOver l₁ f = maxOver l₂ g := by
  apply Nat.le_antisymm
  · rw [maxOver_le_iff]; intro x hx
    rcases h₁ x hx with h | ⟨y, hy, hle⟩
    · omega
    · exact Nat.le_trans hle (le_maxOver l₂ g y hy)
  · rw [maxOver_le_iff]; intro y hy
    rcases h₂ y hy with h | ⟨x, hx, hle⟩
    · omega
    · exact Nat.le_trans hle (le_maxOver l₁ f x hx)

/-! ## One op stream against the score vector -/

/-- Pointwise maximum of `s` with the digits `ds` placed at `pos`. -/
def applyDigits : List Nat → Nat → List Nat → Option (List Nat)
  | [], _, s => some s
  | d :: ds, pos, s =>
    if pos < s.length then applyDigits ds (pos + 1) (if s.getD pos 0 < d then s.set pos d else s)
    else none

theorem applyDigits_zeros (z : Nat) (ds : List Nat) (pos : Nat) (s : List Nat)
    (h : pos + z ≤ s.length) :
    applyDigits (List.replicate z 0 ++ ds) pos s = applyDigits ds (pos + z) s := by
  induction z generalizing pos with
  | zero => simp
  | succ z ih =>
    have hp : pos < s.length := by omega
    simp only [List.replicate_succ, List.cons_append, applyDigits, hp, if_true, Nat.not_lt_zero,
      if_false]
    rw [ih (pos + 1) (by omega)]
    congr 1; omega

/-- A stream acts as its decoded digits (when they fit: otherwise both sides are `none`
or the stream runs off the vector). -/
theorem applyOps_eq (bs : List Nat) (pos : Nat) (s : List Nat)
    (h : pos + (decodeOps bs).length ≤ s.length) :
    applyOps bs pos s = applyDigits (decodeOps bs) pos s := by
  induction bs generalizing pos s with
  | nil => simp [applyOps, decodeOps, applyDigits]
  | cons b bs ih =>
    by_cases ht : b % 16 = 10 ∨ b % 16 = 11
    · simp [applyOps, decodeOps, ht, applyDigits]
    · simp only [decodeOps, ht, if_false, List.length_append, List.length_replicate,
        List.length_cons] at h
      have hp : pos + b / 16 < s.length := by omega
      simp only [applyOps, ht, if_false, hp, if_true, decodeOps]
      rw [applyDigits_zeros _ _ _ _ (by omega)]
      simp only [applyDigits, hp, if_true]
      apply ih
      split
      · simp only [List.length_set]; omega
      · omega

theorem applyDigits_length (ds : List Nat) (pos : Nat) (s s' : List Nat)
    (h : applyDigits ds pos s = some s') : s'.length = s.length := by
  induction ds generalizing pos s with
  | nil => simp [applyDigits] at h; subst h; rfl
  | cons d ds ih =>
    simp only [applyDigits] at h
    split at h
    · have := ih _ _ h
      rw [this]; split
      · simp
      · rfl
    · cases h

theorem applyDigits_some (ds : List Nat) (pos : Nat) (s : List Nat)
    (h : pos + ds.length ≤ s.length) : ∃ s', applyDigits ds pos s = some s' := by
  induction ds generalizing pos s with
  | nil => exact ⟨s, rfl⟩
  | cons d ds ih =>
    simp only [List.length_cons] at h
    have hp : pos < s.length := by omega
    simp only [applyDigits, hp, if_true]
    apply ih
    split
    · simp only [List.length_set]; omega
    · omega

/-- What `ds` at `pos` says about position `i`. -/
def digitAt (ds : List Nat) (pos i : Nat) : Nat := if pos ≤ i then ds.getD (i - pos) 0 else 0

theorem getD_set_ne (s : List Nat) (pos i d : Nat) (h : pos ≠ i) :
    (s.set pos d).getD i 0 = s.getD i 0 := by
  simp [List.getD_eq_getElem?_getD, h]

theorem getD_set_eq (s : List Nat) (pos d : Nat) (h : pos < s.length) :
    (s.set pos d).getD pos 0 = d := by
  simp [List.getD_eq_getElem?_getD, h]

theorem applyDigits_getD (ds : List Nat) (pos : Nat) (s s' : List Nat)
    (h : applyDigits ds pos s = some s') (i : Nat) :
    s'.getD i 0 = max (s.getD i 0) (digitAt ds pos i) := by
  induction ds generalizing pos s with
  | nil =>
    simp [applyDigits] at h; subst h
    simp [digitAt]
  | cons d ds ih =>
    simp only [applyDigits] at h
    split at h
    next hp =>
      rw [ih _ _ h]
      simp only [digitAt]
      by_cases h1 : pos + 1 ≤ i
      · have h2 : pos ≤ i := by omega
        have h3 : i - pos = (i - (pos + 1)) + 1 := by omega
        simp only [h1, h2, if_true]
        rw [h3, List.getD_cons_succ]
        congr 1
        split
        · exact getD_set_ne _ _ _ _ (by omega)
        · rfl
      · simp only [h1, if_false]
        by_cases h2 : pos ≤ i
        · have h3 : i = pos := by omega
          subst h3
          simp only [Nat.le_refl, if_true, Nat.sub_self, List.getD_cons_zero, Nat.max_zero]
          split
          next hlt =>
            rw [getD_set_eq _ _ _ hp]; omega
          next hge =>
            omega
        · simp only [h2, if_false, Nat.max_zero]
          split
          · exact getD_set_ne _ _ _ _ (by omega)
          · rfl
    next => cases h

/-! ## The op stream of a pattern -/

def ScoreBytes (ops : List Nat) : Prop := ∀ b ∈ ops, b % 16 ≤ 9

def NonTerm (ops : List Nat) : Prop := ∀ b ∈ ops, ¬ (b % 16 = 10 ∨ b % 16 = 11)

theorem nt {ops : List Nat} (h : ScoreBytes ops) : NonTerm ops := by
  intro b hb; have := h b hb; omega

theorem decodeOps_append (a b : List Nat) (h : NonTerm a) :
    decodeOps (a ++ b) = decodeOps a ++ decodeOps b := by
  induction a with
  | nil => simp [decodeOps]
  | cons x a ih =>
    have hn : ¬ (x % 16 = 10 ∨ x % 16 = 11) := h x (by simp)
    have ha : NonTerm a := fun b hb => h b (by simp [hb])
    simp [decodeOps, hn, ih ha]

theorem decodeOps_240 (k : Nat) (rest : List Nat) :
    decodeOps (List.replicate k 240 ++ rest) = List.replicate (16 * k) 0 ++ decodeOps rest := by
  induction k with
  | zero => simp
  | succ k ih =>
    simp only [List.replicate_succ, List.cons_append, decodeOps, ih]
    have : 16 * (k + 1) = 15 + (1 + 16 * k) := by omega
    rw [this, ← List.replicate_append_replicate, ← List.replicate_append_replicate]
    simp

theorem decodeOps_zerosThen_score (n op : Nat) (hop : op ≤ 9) :
    decodeOps (zerosThen n op) = List.replicate n 0 ++ [op] := by
  unfold zerosThen
  rw [decodeOps_240]
  have h1 : (op + n % 16 * 16) % 16 = op := by omega
  have h2 : (op + n % 16 * 16) / 16 = n % 16 := by omega
  have hn : ¬ (op = 10 ∨ op = 11) := by omega
  simp only [decodeOps, h1, h2, hn, if_false]
  have : n = 16 * (n / 16) + n % 16 := by omega
  rw [← List.append_assoc, List.replicate_append_replicate, ← this]

theorem decodeOps_zerosThen_term (n op : Nat) (hop : op = 10 ∨ op = 11) :
    decodeOps (zerosThen n op) = List.replicate (16 * (n / 16)) 0 := by
  unfold zerosThen
  rw [decodeOps_240]
  have h1 : (op + n % 16 * 16) % 16 = op := by omega
  simp [decodeOps, h1, hop]

theorem scoreBytes_zerosThen (n op : Nat) (hop : op ≤ 9) : ScoreBytes (zerosThen n op) := by
  intro b hb
  unfold zerosThen at hb
  simp only [List.mem_append, List.mem_replicate, List.mem_singleton] at hb
  rcases hb with ⟨_, rfl⟩ | rfl <;> omega

theorem scoreBytes_append {a b : List Nat} (ha : ScoreBytes a) (hb : ScoreBytes b) :
    ScoreBytes (a ++ b) := by
  intro x hx
  rcases List.mem_append.1 hx with h | h
  · exact ha x h
  · exact hb x h

theorem digVal_le (c : Char) (h : isDig c = true) : digVal c ≤ 9 := by
  simp [isDig] at h; unfold digVal; omega

/-! ## `scan`: path, length bound (every pattern), exact digits (well-formed patterns) -/

/-- The letters of a pattern: everything that is neither a digit nor a dot. -/
def lettersOf (cs : List Char) : List Char := cs.filter (fun c => !isDig c && decide (c ≠ '.'))

theorem isDig_dot : isDig '.' = false := by decide

theorem scan_digit_char (c : Char) (cs : List Char) (ops : List Nat) (path : List Edge) (n : Nat)
    (h : isDig c = true) :
    scan (c :: cs) ops path (.afterChar n)
      = scan cs (ops ++ zerosThen n (digVal c)) path .afterScore := by
  simp [scan, h]

theorem scan_digit_score (c : Char) (cs : List Char) (ops : List Nat) (path : List Edge)
    (h : isDig c = true) :
    scan (c :: cs) ops path .afterScore = scan cs (ops.dropLast ++ [digVal c]) path .afterScore := by
  simp [scan, h]

theorem scan_dot (cs : List Char) (ops : List Nat) (path : List Edge) (st : St) :
    scan ('.' :: cs) ops path st = scan cs ops path st := by
  simp [scan, isDig_dot]

def St.afterLetter : St → St
  | .afterChar n => .afterChar (n + 1)
  | .afterScore => .afterChar 0

theorem scan_letter (c : Char) (cs : List Char) (ops : List Nat) (path : List Edge) (st : St)
    (h : isDig c = false) (hdot : c ≠ '.') :
    scan (c :: cs) ops path st = scan cs ops (path ++ [.ch c]) st.afterLetter := by
  cases st <;> simp [scan, h, hdot, St.afterLetter]

theorem lettersOf_digit (c : Char) (cs : List Char) (h : isDig c = true) :
    lettersOf (c :: cs) = lettersOf cs := by simp [lettersOf, h]
theorem lettersOf_dot (cs : List Char) : lettersOf ('.' :: cs) = lettersOf cs := by
  simp [lettersOf]
theorem lettersOf_letter (c : Char) (cs : List Char) (h : isDig c = false) (hdot : c ≠ '.') :
    lettersOf (c :: cs) = c :: lettersOf cs := by simp [lettersOf, h, hdot]

theorem scan_path (cs : List Char) (ops : List Nat) (path : List Edge) (st : St) :
    (scan cs ops path st).2.1 = path ++ (lettersOf cs).map Edge.ch := by
  induction cs generalizing ops path st with
  | nil => simp [scan, lettersOf]
  | cons c cs ih =>
    by_cases hd : isDig c = true
    · rw [lettersOf_digit c cs hd]
      cases st with
      | afterChar n => rw [scan_digit_char c cs ops path n hd, ih]
      | afterScore => rw [scan_digit_score c cs ops path hd, ih]
    · have hd' : isDig c = false := by simpa using hd
      by_cases hdot : c = '.'
      · subst hdot; rw [scan_dot, lettersOf_dot, ih]
      · rw [scan_letter c cs ops path st hd' hdot, lettersOf_letter c cs hd' hdot, ih]; simp

/-- Positions accounted for so far, the pending one included. -/
def accounted (ops : List Nat) : St → Nat
  | .afterChar n => (decodeOps ops).length + n + 1
  | .afterScore => (decodeOps ops).length

theorem decodeOps_single (d : Nat) (h : d ≤ 9) : decodeOps [d] = [d] := by
  have h1 : d % 16 = d := by omega
  have h2 : d / 16 = 0 := by omega
  have h3 : ¬ (d = 10 ∨ d = 11) := by omega
  simp [decodeOps, h1, h2, h3]

theorem scoreBytes_dropLast {ops : List Nat} (h : ScoreBytes ops) : ScoreBytes ops.dropLast :=
  fun b hb => h b (List.dropLast_subset _ hb)

theorem decodeOps_pop_length (ops : List Nat) (d : Nat) (hs : ScoreBytes ops) (hne : ops ≠ [])
    (hd : d ≤ 9) : (decodeOps (ops.dropLast ++ [d])).length ≤ (decodeOps ops).length := by
  have hsplit : ops = ops.dropLast ++ [ops.getLast hne] := (List.dropLast_concat_getLast hne).symm
  have hl : ops.getLast hne % 16 ≤ 9 := hs _ (List.getLast_mem hne)
  have hn : ¬ (ops.getLast hne % 16 = 10 ∨ ops.getLast hne % 16 = 11) := by omega
  rw [decodeOps_append _ _ (nt (scoreBytes_dropLast hs)), decodeOps_single d hd]
  conv => rhs; rw [hsplit, decodeOps_append _ _ (nt (scoreBytes_dropLast hs))]
  simp [decodeOps, hn]

theorem scan_bound (cs : List Char) (ops : List Nat) (path : List Edge) (st : St)
    (hs : ScoreBytes ops) (hne : st = .afterScore → ops ≠ []) :
    ScoreBytes (scan cs ops path st).1 ∧
    ((scan cs ops path st).2.2 = .afterScore → (scan cs ops path st).1 ≠ []) ∧
    accounted (scan cs ops path st).1 (scan cs ops path st).2.2
      ≤ accounted ops st + (lettersOf cs).length := by
  induction cs generalizing ops path st with
  | nil => simp [scan, lettersOf, hs]; exact hne
  | cons c cs ih =>
    by_cases hd : isDig c = true
    · have hle := digVal_le c hd
      rw [lettersOf_digit c cs hd]
      cases st with
      | afterChar n =>
        rw [scan_digit_char c cs ops path n hd]
        have h1 := scoreBytes_append hs (scoreBytes_zerosThen n _ hle)
        obtain ⟨a, b, c'⟩ := ih (ops ++ zerosThen n (digVal c)) path .afterScore h1
          (by intro _; simp [zerosThen])
        refine ⟨a, b, Nat.le_trans c' ?_⟩
        simp [accounted, decodeOps_append _ _ (nt hs), decodeOps_zerosThen_score n _ hle]
        omega
      | afterScore =>
        rw [scan_digit_score c cs ops path hd]
        have hne' := hne rfl
        have h1 : ScoreBytes (ops.dropLast ++ [digVal c]) :=
          scoreBytes_append (scoreBytes_dropLast hs) (by intro b hb; simp at hb; subst hb; omega)
        obtain ⟨a, b, c'⟩ := ih (ops.dropLast ++ [digVal c]) path .afterScore h1 (by intro _; simp)
        refine ⟨a, b, Nat.le_trans c' ?_⟩
        have := decodeOps_pop_length ops _ hs hne' hle
        simp only [accounted]; omega
    · have hd' : isDig c = false := by simpa using hd
      by_cases hdot : c = '.'
      · subst hdot; rw [scan_dot, lettersOf_dot]
        exact ih ops path st hs hne
      · rw [scan_letter c cs ops path st hd' hdot, lettersOf_letter c cs hd' hdot]
        obtain ⟨a, b, c'⟩ := ih ops (path ++ [.ch c]) st.afterLetter hs
          (by cases st <;> (intro h; cases h))
        refine ⟨a, b, Nat.le_trans c' ?_⟩
        cases st <;> simp only [accounted, St.afterLetter, List.length_cons] <;> omega

/-! ### Exact digits of a well-formed pattern -/

def bodyOf (cs : List Char) : List Char := cs.filter (· ≠ '.')

def HeadNotDigit (l : List Char) : Prop := ∀ c, l.head? = some c → isDig c = false

theorem digitsOf_letter (c : Char) (cs : List Char) (h : isDig c = false) :
    digitsOf (c :: cs) = 0 :: digitsOf cs := by
  cases cs with
  | nil => simp [digitsOf, h]
  | cons c' rest => simp [digitsOf, h]

theorem digitsOf_digit (c : Char) (cs : List Char) (h : isDig c = true) (hn : HeadNotDigit cs) :
    digitsOf (c :: cs) = digVal c :: (digitsOf cs).tail := by
  cases cs with
  | nil => simp [digitsOf, h]
  | cons c' rest =>
    have h' : isDig c' = false := hn c' rfl
    rw [digitsOf_letter c' rest h']
    simp [digitsOf, h, h']

theorem noAdj_tail (c : Char) (cs : List Char) (h : noAdjDigits (c :: cs) = true) :
    noAdjDigits cs = true := by
  cases cs with
  | nil => simp [noAdjDigits]
  | cons c' rest => simp [noAdjDigits] at h; exact h.2

theorem noAdj_digit (c : Char) (cs : List Char) (h : noAdjDigits (c :: cs) = true)
    (hd : isDig c = true) : HeadNotDigit cs := by
  cases cs with
  | nil => intro c' h'; cases h'
  | cons c' rest =>
    simp [noAdjDigits, hd] at h
    intro c'' h''; simp at h''; subst h''; exact h.1

def expected : St → List Char → List Nat
  | .afterChar n, body => List.replicate n 0 ++ digitsOf body
  | .afterScore, body => (digitsOf body).tail

/-- The bytes a pattern has pushed when its terminator `term` has been written. -/
def finish (r : List Nat × List Edge × St) (term : Nat) : List Nat :=
  r.1 ++ (match r.2.2 with
    | .afterChar n => zerosThen n term
    | .afterScore => [term])

theorem bodyOf_dot (cs : List Char) : bodyOf ('.' :: cs) = bodyOf cs := by simp [bodyOf]
theorem bodyOf_ne (c : Char) (cs : List Char) (h : c ≠ '.') : bodyOf (c :: cs) = c :: bodyOf cs := by
  simp [bodyOf, h]

theorem scan_sem (cs : List Char) (ops : List Nat) (path : List Edge) (st : St) (term : Nat)
    (hterm : term = 10 ∨ term = 11) (hs : ScoreBytes ops)
    (hwf : noAdjDigits (bodyOf cs) = true)
    (hst : st = .afterScore → HeadNotDigit (bodyOf cs)) :
    ∃ k, decodeOps (finish (scan cs ops path st) term) ++ List.replicate k 0
      = decodeOps ops ++ expected st (bodyOf cs) := by
  induction cs generalizing ops path st with
  | nil =>
    cases st with
    | afterChar n =>
      refine ⟨n + 1 - 16 * (n / 16), ?_⟩
      simp only [scan, finish, bodyOf, List.filter_nil, expected, digitsOf]
      rw [decodeOps_append _ _ (nt hs), decodeOps_zerosThen_term n term hterm, List.append_assoc,
        List.replicate_append_replicate]
      have : List.replicate n 0 ++ [0] = List.replicate (n + 1) 0 := by
        rw [List.replicate_succ']
      rw [this]; congr 2; omega
    | afterScore =>
      refine ⟨0, ?_⟩
      have ht : decodeOps [term] = [] := by
        rcases hterm with rfl | rfl <;> simp [decodeOps]
      simp [scan, finish, bodyOf, expected, digitsOf, decodeOps_append _ _ (nt hs), ht]
  | cons c cs ih =>
    by_cases hd : isDig c = true
    · have hle := digVal_le c hd
      have hdot : c ≠ '.' := by intro h; subst h; simp [isDig_dot] at hd
      rw [bodyOf_ne c cs hdot] at hwf hst
      have hhead := noAdj_digit c _ hwf hd
      have hwf' := noAdj_tail c _ hwf
      cases st with
      | afterChar n =>
        rw [scan_digit_char c cs ops path n hd, bodyOf_ne c cs hdot]
        obtain ⟨k, hk⟩ := ih (ops ++ zerosThen n (digVal c)) path .afterScore
          (scoreBytes_append hs (scoreBytes_zerosThen n _ hle)) hwf' (fun _ => hhead)
        refine ⟨k, ?_⟩
        rw [hk, decodeOps_append _ _ (nt hs), decodeOps_zerosThen_score n _ hle]
        simp [expected, digitsOf_digit c _ hd hhead]
      | afterScore =>
        have := hst rfl c rfl
        rw [hd] at this; cases this
    · have hd' : isDig c = false := by simpa using hd
      by_cases hdot : c = '.'
      · subst hdot
        rw [scan_dot, bodyOf_dot]
        rw [bodyOf_dot] at hwf hst
        exact ih ops path st hs hwf hst
      · rw [bodyOf_ne c cs hdot] at hwf hst
        have hwf' := noAdj_tail c _ hwf
        rw [scan_letter c cs ops path st hd' hdot, bodyOf_ne c cs hdot]
        obtain ⟨k, hk⟩ := ih ops (path ++ [.ch c]) st.afterLetter hs hwf'
          (by cases st <;> (intro h; cases h))
        refine ⟨k, ?_⟩
        rw [hk]
        cases st with
        | afterChar n =>
          simp only [St.afterLetter, expected, digitsOf_letter c _ hd', List.replicate_succ']
          simp
        | afterScore =>
          simp [St.afterLetter, expected, digitsOf_letter c _ hd']

theorem getD_append_zeros (a : List Nat) (k j : Nat) :
    (a ++ List.replicate k 0).getD j 0 = a.getD j 0 := by
  simp only [List.getD_eq_getElem?_getD]
  by_cases h : j < a.length
  · rw [List.getElem?_append_left h]
  · rw [List.getElem?_append_right (by omega)]
    have : a[j]? = none := by simp; omega
    rw [this]
    simp [List.getElem?_replicate]
    split <;> simp

/-! ## The trie walk visits a fixed list of vertices -/

/-- Digits stored at the vertex named `π` (nothing = no digits). -/
def val (h : Hyph) (π : List Edge) : List Nat :=
  match lookup h.trie π with
  | none => []
  | some o => decodeOps (h.data.drop o)

def chCount : List Edge → Nat
  | [] => 0
  | .ch _ :: r => chCount r + 1
  | _ :: r => chCount r

theorem chCount_append (a b : List Edge) : chCount (a ++ b) = chCount a + chCount b := by
  induction a with
  | nil => simp [chCount]
  | cons e a ih => cases e <;> simp [chCount, ih] <;> omega

/-- Every stored digit list fits the letters of its vertex. -/
def Bounded (h : Hyph) : Prop := ∀ π, (val h π).length ≤ chCount π + 1

theorem lookup_none_of_not_hasPrefix (t : List (List Edge × Nat)) (π π' : List Edge)
    (h : hasPrefix t π = false) (hp : π <+: π') : lookup t π' = none := by
  induction t with
  | nil => rfl
  | cons kv t ih =>
    obtain ⟨k, v⟩ := kv
    simp only [hasPrefix, List.any_cons, Bool.or_eq_false_iff] at h
    have ih' := ih (by simpa [hasPrefix] using h.2)
    simp only [lookup]
    split
    next heq =>
      subst heq
      have := h.1
      rw [← Bool.not_eq_true, List.isPrefixOf_iff_prefix] at this
      exact absurd hp this
    next => exact ih'

theorem val_nil_of_not_hasPrefix (h : Hyph) (π π' : List Edge)
    (hn : hasPrefix h.trie π = false) (hp : π <+: π') : val h π' = [] := by
  simp [val, lookup_none_of_not_hasPrefix _ _ _ hn hp]

def applyAll (vl : List Edge → List Nat) : List (Nat × List Edge) → List Nat → Option (List Nat)
  | [], s => some s
  | (o, π) :: r, s =>
    match applyDigits (vl π) o s with
    | none => none
    | some s' => applyAll vl r s'

theorem applyAll_nil_vals (vl : List Edge → List Nat) (l : List (Nat × List Edge)) (s : List Nat)
    (h : ∀ x ∈ l, vl x.2 = []) : applyAll vl l s = some s := by
  induction l with
  | nil => rfl
  | cons x l ih =>
    obtain ⟨o, π⟩ := x
    have h0 : vl π = [] := h (o, π) (by simp)
    simp only [applyAll, h0, applyDigits]
    exact ih (fun y hy => h y (by simp [hy]))

theorem applyAll_append (vl : List Edge → List Nat) (l₁ l₂ : List (Nat × List Edge)) (s : List Nat) :
    applyAll vl (l₁ ++ l₂) s =
      match applyAll vl l₁ s with
      | none => none
      | some s' => applyAll vl l₂ s' := by
  induction l₁ generalizing s with
  | nil => simp [applyAll]
  | cons x l ih =>
    obtain ⟨o, π⟩ := x
    simp only [List.cons_append, applyAll]
    cases applyDigits (vl π) o s with
    | none => rfl
    | some s' => exact ih s'

theorem visit_eq (h : Hyph) (off : Nat) (π : List Edge) (s : List Nat)
    (hb : off + (val h π).length ≤ s.length) :
    visit h off π s = applyDigits (val h π) off s := by
  unfold visit val at *
  cases hl : lookup h.trie π with
  | none => simp [applyDigits]
  | some o =>
    simp only [hl] at hb
    exact applyOps_eq _ _ _ hb

/-- Vertices the `process` closure asks for, from vertex `v` over the letters `ls`. -/
def walk (v : List Edge) : List Char → List (List Edge)
  | [] => [v ++ [.stop]]
  | l :: ls => (v ++ [.ch l]) :: walk (v ++ [.ch l]) ls

theorem walk_prefix (v : List Edge) (ls : List Char) : ∀ π ∈ walk v ls, v <+: π := by
  induction ls generalizing v with
  | nil => intro π h; simp [walk] at h; subst h; exact List.prefix_append _ _
  | cons l ls ih =>
    intro π h
    simp only [walk, List.mem_cons] at h
    rcases h with rfl | h
    · exact List.prefix_append _ _
    · exact List.IsPrefix.trans (List.prefix_append _ _) (ih _ π h)

theorem process_eq (h : Hyph) (lc : Char → Option Char) (hB : Bounded h) (off : Nat)
    (cs ls : List Char) (hl : cs.mapM lc = some ls) (v : List Edge) (s : List Nat)
    (hs : off + chCount v + ls.length + 1 ≤ s.length) :
    process h lc off v cs s = applyAll (val h) ((walk v ls).map (fun π => (off, π))) s := by
  induction cs generalizing ls v s with
  | nil =>
    simp at hl; subst hl
    simp only [process, walk, List.map_cons, List.map_nil, applyAll]
    have hb : off + (val h (v ++ [.stop])).length ≤ s.length := by
      have := hB (v ++ [.stop]); simp [chCount_append, chCount] at this; simp at hs; omega
    by_cases hp : hasPrefix h.trie (v ++ [.stop]) = true
    · simp only [hp, if_true]
      rw [visit_eq h off _ s hb]
      cases applyDigits (val h (v ++ [.stop])) off s <;> rfl
    · have hp' : hasPrefix h.trie (v ++ [.stop]) = false := by simpa using hp
      simp [hp', val_nil_of_not_hasPrefix h _ _ hp' (List.prefix_refl _), applyDigits]
  | cons c cs ih =>
    rw [List.mapM_cons] at hl
    cases hc : lc c with
    | none => simp [hc] at hl
    | some l =>
      cases hm : cs.mapM lc with
      | none => simp [hc, hm] at hl
      | some ls' =>
        simp [hc, hm] at hl; subst hl
        simp only [process, hc, walk, List.map_cons, applyAll]
        have hb : off + (val h (v ++ [.ch l])).length ≤ s.length := by
          have := hB (v ++ [.ch l]); simp [chCount_append, chCount] at this
          simp at hs; omega
        by_cases hp : hasPrefix h.trie (v ++ [.ch l]) = true
        · simp only [hp, if_true]
          rw [visit_eq h off _ s hb]
          cases ha : applyDigits (val h (v ++ [.ch l])) off s with
          | none => rfl
          | some s' =>
            simp only
            apply ih ls' hm
            rw [applyDigits_length _ _ _ _ ha]
            simp [chCount_append, chCount] at hs ⊢; omega
        · have hp' : hasPrefix h.trie (v ++ [.ch l]) = false := by simpa using hp
          simp only [hp', Bool.false_eq_true, if_false]
          simp only [val_nil_of_not_hasPrefix h _ _ hp' (List.prefix_refl _), applyDigits]
          symm
          apply applyAll_nil_vals
          intro x hx
          simp only [List.mem_map] at hx
          obtain ⟨π, hπ, rfl⟩ := hx
          exact val_nil_of_not_hasPrefix h _ _ hp' (walk_prefix _ _ π hπ)

/-- Everything `for_each_pattern` visits from the unanchored root, offset by offset. -/
def visitedFrom : Nat → List Char → List (Nat × List Edge)
  | _, [] => []
  | o, l :: ls => (walk [] (l :: ls)).map (fun π => (o, π)) ++ visitedFrom (o + 1) ls

def visited (ls : List Char) : List (Nat × List Edge) :=
  (walk [.start] ls).map (fun π => (0, π)) ++ visitedFrom 0 ls

theorem applyAll_length (vl : List Edge → List Nat) (l : List (Nat × List Edge)) (s s' : List Nat)
    (h : applyAll vl l s = some s') : s'.length = s.length := by
  induction l generalizing s with
  | nil => simp [applyAll] at h; subst h; rfl
  | cons x l ih =>
    obtain ⟨o, π⟩ := x
    simp only [applyAll] at h
    cases ha : applyDigits (vl π) o s with
    | none => simp [ha] at h
    | some s1 =>
      simp only [ha] at h
      rw [ih _ h, applyDigits_length _ _ _ _ ha]

theorem offsets_eq (h : Hyph) (lc : Char → Option Char) (hB : Bounded h) (off : Nat)
    (cs ls : List Char) (hl : cs.mapM lc = some ls) (s : List Nat)
    (hs : off + ls.length + 1 ≤ s.length) :
    offsets h lc off cs s = applyAll (val h) (visitedFrom off ls) s := by
  induction cs generalizing ls s off with
  | nil => simp at hl; subst hl; simp [offsets, visitedFrom, applyAll]
  | cons c cs ih =>
    have hl0 := hl
    rw [List.mapM_cons] at hl
    cases hc : lc c with
    | none => simp [hc] at hl
    | some l =>
      cases hm : cs.mapM lc with
      | none => simp [hc, hm] at hl
      | some ls' =>
        simp [hc, hm] at hl; subst hl
        simp only [offsets, hc, visitedFrom]
        rw [applyAll_append, process_eq h lc hB off (c :: cs) (l :: ls') hl0 [] s
          (by simp [chCount] at hs ⊢; omega)]
        cases ha : applyAll (val h) ((walk [] (l :: ls')).map (fun π => (off, π))) s with
        | none => rfl
        | some s' =>
          simp only
          apply ih (off + 1) ls' hm
          rw [applyAll_length _ _ _ _ ha]; simp at hs; omega

theorem forEachPattern_eq (h : Hyph) (lc : Char → Option Char) (hB : Bounded h)
    (w ls : List Char) (hl : w.mapM lc = some ls) (s : List Nat)
    (hs : ls.length + 1 ≤ s.length) :
    forEachPattern h lc w s = applyAll (val h) (visited ls) s := by
  unfold forEachPattern visited
  rw [applyAll_append]
  have h1 : (if hasPrefix h.trie [.start] = true then process h lc 0 [.start] w s else some s)
      = applyAll (val h) ((walk [.start] ls).map (fun π => (0, π))) s := by
    by_cases hp : hasPrefix h.trie [.start] = true
    · simp only [hp, if_true]
      exact process_eq h lc hB 0 w ls hl [.start] s (by simp [chCount]; omega)
    · have hp' : hasPrefix h.trie [.start] = false := by simpa using hp
      simp only [hp', Bool.false_eq_true, if_false]
      symm
      apply applyAll_nil_vals
      intro x hx
      simp only [List.mem_map] at hx
      obtain ⟨π, hπ, rfl⟩ := hx
      exact val_nil_of_not_hasPrefix h _ _ hp' (walk_prefix _ _ π hπ)
  rw [h1]
  cases ha : applyAll (val h) ((walk [.start] ls).map (fun π => (0, π))) s with
  | none => rfl
  | some s' =>
    simp only
    exact offsets_eq h lc hB 0 w ls hl s' (by rw [applyAll_length _ _ _ _ ha]; omega)

/-- Pointwise: the final vector is the maximum over everything visited. -/
theorem applyAll_getD (vl : List Edge → List Nat) (l : List (Nat × List Edge)) (s s' : List Nat)
    (h : applyAll vl l s = some s') (i : Nat) :
    s'.getD i 0 = max (s.getD i 0) (maxOver l (fun x => digitAt (vl x.2) x.1 i)) := by
  induction l generalizing s with
  | nil => simp [applyAll] at h; subst h; simp [maxOver]
  | cons x l ih =>
    obtain ⟨o, π⟩ := x
    simp only [applyAll] at h
    cases ha : applyDigits (vl π) o s with
    | none => simp [ha] at h
    | some s1 =>
      simp only [ha] at h
      rw [ih _ h, applyDigits_getD _ _ _ _ ha, maxOver_cons, Nat.max_assoc]

theorem applyAll_some (vl : List Edge → List Nat) (l : List (Nat × List Edge)) (s : List Nat)
    (h : ∀ x ∈ l, x.1 + (vl x.2).length ≤ s.length) : ∃ s', applyAll vl l s = some s' := by
  induction l generalizing s with
  | nil => exact ⟨s, rfl⟩
  | cons x l ih =>
    obtain ⟨o, π⟩ := x
    obtain ⟨s1, h1⟩ := applyDigits_some (vl π) o s (h (o, π) (by simp))
    simp only [applyAll, h1]
    apply ih
    intro y hy
    rw [applyDigits_length _ _ _ _ h1]
    exact h y (by simp [hy])

theorem walk_chCount (v : List Edge) (ls : List Char) :
    ∀ π ∈ walk v ls, chCount π ≤ chCount v + ls.length := by
  induction ls generalizing v with
  | nil => intro π h; simp [walk] at h; subst h; simp [chCount_append, chCount]
  | cons l ls ih =>
    intro π h
    simp only [walk, List.mem_cons] at h
    rcases h with rfl | h
    · simp [chCount_append, chCount]
    · have := ih _ π h; simp [chCount_append, chCount] at this; simp; omega

theorem visitedFrom_bound (o : Nat) (ls : List Char) :
    ∀ x ∈ visitedFrom o ls, x.1 + chCount x.2 ≤ o + ls.length := by
  induction ls generalizing o with
  | nil => intro x h; simp [visitedFrom] at h
  | cons l ls ih =>
    intro x h
    simp only [visitedFrom, List.mem_append, List.mem_map] at h
    rcases h with ⟨π, hπ, rfl⟩ | h
    · have := walk_chCount [] (l :: ls) π hπ; simp [chCount] at this; simp; omega
    · have := ih (o + 1) x h; simp; omega

theorem visited_bound (ls : List Char) : ∀ x ∈ visited ls, x.1 + chCount x.2 ≤ ls.length := by
  intro x h
  simp only [visited, List.mem_append, List.mem_map] at h
  rcases h with ⟨π, hπ, rfl⟩ | h
  · have := walk_chCount [.start] ls π hπ; simp [chCount] at this; simp; omega
  · have := visitedFrom_bound 0 ls x h; omega

/-! ## What the trie and the data hold after `build` -/

structure Item where
  key : List Edge
  ops : List Nat

def addItem (h : Hyph) (it : Item) : Hyph :=
  { data := h.data ++ it.ops,
    trie := if it.key = [] then h.trie else (it.key, h.data.length) :: h.trie }

def patItem (p : List Char) : Item := ⟨(patOps p).2, (patOps p).1⟩
def excItem (e : List Char) : Item :=
  ⟨(excScan e [excNo] [.start]).2 ++ [.stop], (excScan e [excNo] [.start]).1 ++ [10]⟩

theorem scoreBytes_nil' : ScoreBytes [] := fun _ h => by cases h

/-- A pattern's stream is not empty and never starts with an exception score. -/
theorem patOps_head (p : List Char) :
    ∃ x rest, (patOps p).1 = x :: rest ∧ x % 16 < 12 := by
  have hb := scan_bound p [] (if p.head? = some '.' then [.start] else []) (.afterChar 0)
    scoreBytes_nil' (by intro h; cases h)
  have hfin : (patOps p).1
      = finish (scan p [] (if p.head? = some '.' then [.start] else []) (.afterChar 0))
          (if p.getLast? = some '.' then 11 else 10) := rfl
  have hterm : (if p.getLast? = some '.' then 11 else 10) = 10 ∨
      (if p.getLast? = some '.' then 11 else 10) = 11 := by split <;> simp
  rw [hfin]
  generalize (if p.getLast? = some '.' then 11 else 10) = term at hterm
  generalize scan p [] (if p.head? = some '.' then [.start] else []) (.afterChar 0) = r at hb
  obtain ⟨ops, path, st⟩ := r
  simp only [finish]
  cases ops with
  | cons x rest =>
    exact ⟨x, _, rfl, by have := hb.1 x (by simp); omega⟩
  | nil =>
    cases st with
    | afterScore => exact ⟨term, [], rfl, by omega⟩
    | afterChar n =>
      simp only [List.nil_append, zerosThen]
      cases hk : n / 16 with
      | zero => exact ⟨term + n % 16 * 16, [], by simp, by omega⟩
      | succ k =>
        exact ⟨240, List.replicate k 240 ++ [term + n % 16 * 16],
          by simp [List.replicate_succ], by decide⟩

/-- Every value in the trie points into the data, at a pattern's stream. -/
def PatOnly (h : Hyph) : Prop :=
  ∀ π o, lookup h.trie π = some o → o < h.data.length ∧ isExcAt h.data o = false

theorem patOnly_empty : PatOnly {} := by intro π o h; simp [lookup] at h

theorem patOnly_holdsExc (h : Hyph) (hp : PatOnly h) (π : List Edge) : holdsExc h π = false := by
  unfold holdsExc
  cases hl : lookup h.trie π with
  | none => rfl
  | some o => exact (hp π o hl).2

/-- While only patterns have been loaded the `holds_exception` test never fires. -/
theorem loadPattern_eq (h : Hyph) (p : List Char) (hp : PatOnly h) :
    loadPattern h p = addItem h (patItem p) := by
  by_cases hk : (patOps p).2 = [] <;>
    simp [loadPattern, addItem, patItem, patOnly_holdsExc h hp, hk]

theorem patOnly_add (h : Hyph) (p : List Char) (hp : PatOnly h) :
    PatOnly (addItem h (patItem p)) := by
  obtain ⟨x, rest, hx, hx12⟩ := patOps_head p
  have hops : (patItem p).ops = x :: rest := hx
  intro π o hl
  have hold : ∀ o, o < h.data.length → isExcAt h.data o = false →
      o < (h.data ++ (patItem p).ops).length ∧ isExcAt (h.data ++ (patItem p).ops) o = false := by
    intro o h1 h2
    refine ⟨by simp; omega, ?_⟩
    simp only [isExcAt, List.getD_eq_getElem?_getD] at h2 ⊢
    rw [List.getElem?_append_left h1]; exact h2
  simp only [addItem] at hl ⊢
  by_cases hk : (patItem p).key = []
  · simp only [hk, if_true] at hl
    obtain ⟨h1, h2⟩ := hp π o hl
    exact hold o h1 h2
  · simp only [hk, if_false, lookup] at hl
    by_cases hkp : (patItem p).key = π
    · simp only [hkp, if_true, Option.some.injEq] at hl
      subst hl
      refine ⟨by simp [hops], ?_⟩
      simp only [isExcAt, List.getD_eq_getElem?_getD]
      rw [List.getElem?_append_right (Nat.le_refl _)]
      simp [hops]; omega
    · simp only [hkp, if_false] at hl
      obtain ⟨h1, h2⟩ := hp π o hl
      exact hold o h1 h2

theorem loadPatterns_eq (ps : List (List Char)) (h : Hyph) (hp : PatOnly h) :
    ps.foldl loadPattern h = ps.foldl (fun h p => addItem h (patItem p)) h := by
  induction ps generalizing h with
  | nil => rfl
  | cons p ps ih =>
    simp only [List.foldl_cons]
    rw [loadPattern_eq h p hp]
    exact ih _ (patOnly_add h p hp)

theorem insertException_eq (h : Hyph) (e : List Char) :
    insertException h e = addItem h (excItem e) := by
  simp [insertException, addItem, excItem]

theorem build_eq (ps es : List (List Char)) :
    build ps es = (ps.map patItem ++ es.map excItem).foldl addItem {} := by
  unfold build insertExceptions loadPatterns
  rw [List.foldl_append, List.foldl_map, List.foldl_map, loadPatterns_eq ps {} patOnly_empty]
  have h2 : (fun h e => insertException h e) = (fun h e => addItem h (excItem e)) := by
    funext h e; exact insertException_eq h e
  show List.foldl (fun h e => insertException h e) _ es = _
  rw [h2]

/-- The last item with key `π`. -/
def newest : List Item → List Edge → Option Item
  | [], _ => none
  | it :: r, π =>
    match newest r π with
    | some x => some x
    | none => if it.key = π then some it else none

theorem newest_append (a b : List Item) (π : List Edge) :
    newest (a ++ b) π = match newest b π with
      | some x => some x
      | none => newest a π := by
  induction a with
  | nil => simp [newest]; cases newest b π <;> rfl
  | cons it a ih =>
    simp only [List.cons_append, newest, ih]
    cases newest b π <;> rfl

theorem newest_mem (l : List Item) (π : List Edge) (it : Item) (h : newest l π = some it) :
    it ∈ l ∧ it.key = π := by
  induction l with
  | nil => simp [newest] at h
  | cons x l ih =>
    simp only [newest] at h
    cases hn : newest l π with
    | some y =>
      simp [hn] at h; subst h
      have := ih hn; exact ⟨by simp [this.1], this.2⟩
    | none =>
      simp [hn] at h
      obtain ⟨hk, rfl⟩ := h
      exact ⟨by simp, hk⟩

theorem newest_none (l : List Item) (π : List Edge) (h : newest l π = none) :
    ∀ it ∈ l, it.key ≠ π := by
  induction l with
  | nil => intro it h; cases h
  | cons x l ih =>
    simp only [newest] at h
    cases hn : newest l π with
    | some y => simp [hn] at h
    | none =>
      simp [hn] at h
      intro it hit
      simp at hit
      rcases hit with rfl | hit
      · exact h
      · exact ih hn it hit

def Term (ops : List Nat) : Prop := ∀ rest, decodeOps (ops ++ rest) = decodeOps ops

def Inv (h : Hyph) (items : List Item) : Prop :=
  (∀ π o, lookup h.trie π = some o →
    o ≤ h.data.length ∧ π ≠ [] ∧
      ∃ it rest, newest items π = some it ∧ h.data.drop o = it.ops ++ rest) ∧
  (∀ π, π ≠ [] → newest items π ≠ none → lookup h.trie π ≠ none)

theorem inv_empty : Inv {} [] := by
  constructor
  · intro π o h; simp [lookup] at h
  · intro π _ h; simp [newest] at h

theorem inv_add (h : Hyph) (items : List Item) (it : Item) (hI : Inv h items) :
    Inv (addItem h it) (items ++ [it]) := by
  have hnew : ∀ π, newest (items ++ [it]) π = if it.key = π then some it else newest items π := by
    intro π; rw [newest_append]; simp only [newest]
    by_cases hk : it.key = π <;> simp [hk]
  constructor
  · intro π o hl
    by_cases hk : it.key = []
    · simp only [addItem, hk, if_true] at hl
      obtain ⟨h1, h2, it', rest, h3, h4⟩ := hI.1 π o hl
      refine ⟨by simp [addItem]; omega, h2, it', rest ++ it.ops, ?_, ?_⟩
      · rw [hnew]; have : ¬ it.key = π := by rw [hk]; exact fun h => h2 h.symm
        simp [this, h3]
      · simp only [addItem]; rw [List.drop_append_of_le_length h1, h4, List.append_assoc]
    · simp only [addItem, hk, if_false, lookup] at hl
      by_cases hkp : it.key = π
      · simp only [hkp, if_true, Option.some.injEq] at hl
        subst hl
        refine ⟨by simp [addItem], by rw [← hkp]; exact hk, it, [], ?_, ?_⟩
        · rw [hnew]; simp [hkp]
        · simp [addItem]
      · simp only [hkp, if_false] at hl
        obtain ⟨h1, h2, it', rest, h3, h4⟩ := hI.1 π o hl
        refine ⟨by simp [addItem]; omega, h2, it', rest ++ it.ops, ?_, ?_⟩
        · rw [hnew]; simp [hkp, h3]
        · simp only [addItem]; rw [List.drop_append_of_le_length h1, h4, List.append_assoc]
  · intro π hπ hn
    rw [hnew] at hn
    by_cases hk : it.key = []
    · have : ¬ it.key = π := by rw [hk]; exact fun h => hπ h.symm
      simp only [this, if_false] at hn
      simp only [addItem, hk, if_true]
      exact hI.2 π hπ hn
    · simp only [addItem, hk, if_false, lookup]
      by_cases hkp : it.key = π
      · simp [hkp]
      · simp only [hkp, if_false] at hn ⊢
        exact hI.2 π hπ hn

theorem inv_foldl (l : List Item) (h : Hyph) (items : List Item) (hI : Inv h items) :
    Inv (l.foldl addItem h) (items ++ l) := by
  induction l generalizing h items with
  | nil => simpa using hI
  | cons it l ih =>
    have := ih (addItem h it) (items ++ [it]) (inv_add h items it hI)
    simpa using this

theorem inv_build (ps es : List (List Char)) :
    Inv (build ps es) (ps.map patItem ++ es.map excItem) := by
  rw [build_eq]
  simpa using inv_foldl (ps.map patItem ++ es.map excItem) {} [] inv_empty

/-- The value at a vertex: nothing, or the decoded stream of the newest item with that key. -/
theorem val_cases (h : Hyph) (items : List Item) (hI : Inv h items)
    (hT : ∀ it ∈ items, Term it.ops) (π : List Edge) :
    (val h π = [] ∧ (π = [] ∨ newest items π = none)) ∨
    (π ≠ [] ∧ ∃ it, newest items π = some it ∧ val h π = decodeOps it.ops) := by
  unfold val
  cases hl : lookup h.trie π with
  | none =>
    left; refine ⟨rfl, ?_⟩
    by_cases hπ : π = []
    · exact Or.inl hπ
    · right
      cases hn : newest items π with
      | none => rfl
      | some it => exact absurd hl (hI.2 π hπ (by simp [hn]))
  | some o =>
    right
    obtain ⟨_, h2, it, rest, h3, h4⟩ := hI.1 π o hl
    refine ⟨h2, it, h3, ?_⟩
    simp only [h4]
    exact hT it (newest_mem _ _ _ h3).1 rest

/-! ## Facts about the items -/

theorem term_zerosThen (n term : Nat) (hterm : term = 10 ∨ term = 11) (rest : List Nat) :
    decodeOps (zerosThen n term ++ rest) = decodeOps (zerosThen n term) := by
  rw [decodeOps_zerosThen_term n term hterm]
  unfold zerosThen
  rw [List.append_assoc, decodeOps_240]
  have h1 : (term + n % 16 * 16) % 16 = term := by omega
  simp [decodeOps, h1, hterm]

theorem term_finish (r : List Nat × List Edge × St) (term : Nat) (hterm : term = 10 ∨ term = 11)
    (hs : ScoreBytes r.1) : Term (finish r term) := by
  intro rest
  unfold finish
  rw [List.append_assoc, decodeOps_append _ _ (nt hs), decodeOps_append _ _ (nt hs)]
  congr 1
  cases r.2.2 with
  | afterChar n => exact term_zerosThen n term hterm rest
  | afterScore => rcases hterm with rfl | rfl <;> simp [decodeOps]

def path0 (p : List Char) : List Edge := if p.head? = some '.' then [.start] else []
def termOf (p : List Char) : Nat := if p.getLast? = some '.' then 11 else 10

theorem termOf_cases (p : List Char) : termOf p = 10 ∨ termOf p = 11 := by
  unfold termOf; split <;> simp

theorem patItem_ops (p : List Char) :
    (patItem p).ops = finish (scan p [] (path0 p) (.afterChar 0)) (termOf p) := rfl

theorem scoreBytes_nil : ScoreBytes [] := fun _ h => by cases h

theorem patItem_term (p : List Char) : Term (patItem p).ops := by
  rw [patItem_ops]
  exact term_finish _ _ (termOf_cases p)
    (scan_bound p [] (path0 p) (.afterChar 0) scoreBytes_nil (by intro h; cases h)).1

theorem decodeOps_le (a : List Nat) (hs : ScoreBytes a) : ∀ d ∈ decodeOps a, d ≤ 9 := by
  induction a with
  | nil => intro d h; simp [decodeOps] at h
  | cons x a ih =>
    have hx : x % 16 ≤ 9 := hs x (by simp)
    have hn : ¬ (x % 16 = 10 ∨ x % 16 = 11) := by omega
    have ha : ScoreBytes a := fun b hb => hs b (by simp [hb])
    intro d h
    simp only [decodeOps, hn, if_false, List.mem_append, List.mem_replicate, List.mem_cons] at h
    rcases h with ⟨_, rfl⟩ | rfl | h
    · omega
    · exact hx
    · exact ih ha d h

theorem patItem_digits_le (p : List Char) : ∀ d ∈ decodeOps (patItem p).ops, d ≤ 9 := by
  rw [patItem_ops]
  have hb := scan_bound p [] (path0 p) (.afterChar 0) scoreBytes_nil (by intro h; cases h)
  intro d hd
  unfold finish at hd
  rw [decodeOps_append _ _ (nt hb.1), List.mem_append] at hd
  rcases hd with hd | hd
  · exact decodeOps_le _ hb.1 d hd
  · cases hst : (scan p [] (path0 p) (.afterChar 0)).2.2 with
    | afterChar n =>
      rw [hst] at hd; simp only at hd
      rw [decodeOps_zerosThen_term n _ (termOf_cases p)] at hd
      simp at hd; omega
    | afterScore =>
      rw [hst] at hd; simp only at hd
      rcases termOf_cases p with h | h <;> simp [h, decodeOps] at hd

theorem patItem_length (p : List Char) :
    (decodeOps (patItem p).ops).length ≤ (lettersOf p).length + 1 := by
  rw [patItem_ops]
  have hb := scan_bound p [] (path0 p) (.afterChar 0) scoreBytes_nil (by intro h; cases h)
  unfold finish
  rw [decodeOps_append _ _ (nt hb.1), List.length_append]
  have h3 := hb.2.2
  cases hst : (scan p [] (path0 p) (.afterChar 0)).2.2 with
  | afterChar n =>
    rw [hst] at h3; simp only
    rw [decodeOps_zerosThen_term n _ (termOf_cases p)]
    simp [accounted, decodeOps] at h3 ⊢; omega
  | afterScore =>
    rw [hst] at h3; simp only
    have : decodeOps [termOf p] = [] := by
      rcases termOf_cases p with h | h <;> simp [h, decodeOps]
    rw [this]
    simp [accounted, decodeOps] at h3 ⊢; omega

/-- A trie key: anchored at the start?, letters, anchored at the end? -/
def enc (a : Bool) (L : List Char) (b : Bool) : List Edge :=
  (if a then [Edge.start] else []) ++ L.map Edge.ch ++ (if b then [Edge.stop] else [])

theorem chCount_map_ch (L : List Char) : chCount (L.map Edge.ch) = L.length := by
  induction L with
  | nil => rfl
  | cons c L ih => simp [chCount, ih]

theorem chCount_enc (a : Bool) (L : List Char) (b : Bool) : chCount (enc a L b) = L.length := by
  unfold enc
  rw [chCount_append, chCount_append, chCount_map_ch]
  cases a <;> cases b <;> simp [chCount]

theorem parsePat_letters (p : List Char) : (parsePat p).letters = lettersOf p := by
  simp [parsePat, lettersOf, List.filter_filter]

theorem patItem_key (p : List Char) :
    (patItem p).key = enc (parsePat p).anchorStart (parsePat p).letters (parsePat p).anchorEnd := by
  rw [parsePat_letters]
  show (patOps p).2 = _
  unfold patOps
  simp only [scan_path, enc, parsePat]
  by_cases h1 : p.head? = some '.' <;> by_cases h2 : p.getLast? = some '.' <;> simp [h1, h2]

theorem patItem_key' (p : List Char) : (patItem p).key = (parsePat p).key := by
  rw [patItem_key]; rfl

/-- Well-formed pattern: the stream decodes to the digits of the pattern (up to trailing 0s). -/
theorem patItem_digits (p : List Char) (hwf : wellFormed p = true) (j : Nat) :
    (decodeOps (patItem p).ops).getD j 0 = (parsePat p).digits.getD j 0 := by
  rw [patItem_ops]
  simp only [wellFormed, Bool.and_eq_true] at hwf
  obtain ⟨k, hk⟩ := scan_sem p [] (path0 p) (.afterChar 0) (termOf p) (termOf_cases p)
    scoreBytes_nil hwf.1 (by intro h; cases h)
  have : (parsePat p).digits = digitsOf (bodyOf p) := rfl
  rw [this, ← getD_append_zeros _ k j, hk]
  simp [decodeOps, expected]

/-! ### Exceptions -/

def code (b : Bool) : Nat := if b then excHyph else excNo

theorem excScan_sem (e : List Char) (pre : List Nat) (pend : Bool) (path : List Edge) :
    ∃ pend', excScan e (pre ++ [code pend]) path
      = (pre ++ (marks e pend).map code ++ [code pend'], path ++ (stripHyphens e).map Edge.ch) := by
  induction e generalizing pre pend path with
  | nil => exact ⟨pend, by simp [excScan, marks, stripHyphens]⟩
  | cons c e ih =>
    by_cases hc : c = '-'
    · subst hc
      obtain ⟨p', hp'⟩ := ih pre true path
      refine ⟨p', ?_⟩
      simp only [excScan, if_true, List.dropLast_concat, marks]
      have : [excHyph] = [code true] := rfl
      rw [this, hp']
      simp [stripHyphens]
    · obtain ⟨p', hp'⟩ := ih (pre ++ [code pend]) false (path ++ [.ch c])
      refine ⟨p', ?_⟩
      simp only [excScan, hc, if_false, marks]
      have : [excNo] = [code false] := rfl
      rw [this, hp']
      simp [stripHyphens, hc]

theorem marks_length (e : List Char) (pend : Bool) :
    (marks e pend).length = (stripHyphens e).length := by
  induction e generalizing pend with
  | nil => rfl
  | cons c e ih =>
    by_cases hc : c = '-'
    · subst hc; simp [marks, stripHyphens, ih]
    · simp [marks, stripHyphens, hc, ih]

theorem nonTerm_codes (l : List Bool) : NonTerm (l.map code) := by
  intro b hb
  simp only [List.mem_map] at hb
  obtain ⟨x, _, rfl⟩ := hb
  cases x <;> simp [code, excHyph, excNo]

theorem decodeOps_codes (l : List Bool) : decodeOps (l.map code) = l.map code := by
  induction l with
  | nil => rfl
  | cons x l ih => cases x <;> simp [decodeOps, code, excHyph, excNo, ih]

theorem excItem_spec (e : List Char) :
    ∃ pend', (excItem e).ops = ((marks e false).map code ++ [code pend']) ++ [10] ∧
      (excItem e).key = enc true (stripHyphens e) true := by
  obtain ⟨p', hp'⟩ := excScan_sem e [] false [.start]
  refine ⟨p', ?_, ?_⟩
  · simp only [excItem]
    have : [excNo] = [] ++ [code false] := rfl
    rw [this, hp']; simp
  · simp only [excItem]
    have : [excNo] = [] ++ [code false] := rfl
    rw [this, hp']; simp [enc]

theorem excItem_key (e : List Char) : (excItem e).key = enc true (stripHyphens e) true := by
  obtain ⟨_, _, h⟩ := excItem_spec e; exact h

theorem excItem_decode (e : List Char) :
    ∃ pend', decodeOps (excItem e).ops = (marks e false).map code ++ [code pend'] ∧
      Term (excItem e).ops := by
  obtain ⟨p', h1, _⟩ := excItem_spec e
  refine ⟨p', ?_, ?_⟩
  · rw [h1]
    have hnt : NonTerm ((marks e false).map code ++ [code p']) := by
      have := nonTerm_codes (marks e false ++ [p']); simpa using this
    rw [decodeOps_append _ _ hnt]
    have := decodeOps_codes (marks e false ++ [p'])
    simp only [List.map_append, List.map_cons, List.map_nil] at this
    rw [this]; simp [decodeOps]
  · intro rest
    rw [h1]
    have hnt : NonTerm ((marks e false).map code ++ [code p']) := by
      have := nonTerm_codes (marks e false ++ [p']); simpa using this
    rw [List.append_assoc, decodeOps_append _ _ hnt, decodeOps_append _ _ hnt]
    simp [decodeOps]

/-! ### Keys are injective -/

def decL (π : List Edge) : List Char :=
  π.filterMap (fun e => match e with | .ch c => some c | _ => none)

theorem decL_enc (a : Bool) (L : List Char) (b : Bool) : decL (enc a L b) = L := by
  unfold decL enc
  rw [List.filterMap_append, List.filterMap_append, List.filterMap_map]
  have : (List.filterMap ((fun e => match e with | Edge.ch c => some c | _ => none) ∘ Edge.ch) L) = L := by
    induction L with
    | nil => rfl
    | cons c L ih => simp [List.filterMap_cons, ih]
  rw [this]
  cases a <;> cases b <;> simp

theorem head_enc (a : Bool) (L : List Char) (b : Bool) :
    ((enc a L b).head? = some Edge.start) ↔ a = true := by
  unfold enc
  cases a <;> cases b <;> cases L <;> simp

theorem last_enc (a : Bool) (L : List Char) (b : Bool) :
    ((enc a L b).getLast? = some Edge.stop) ↔ b = true := by
  unfold enc
  cases a <;> cases b <;>
    simp [List.getLast?_append, List.getLast?_map, List.getLast?_cons]
  all_goals (cases h : L.getLast? <;> simp)

theorem enc_inj {a a' : Bool} {L L' : List Char} {b b' : Bool} (h : enc a L b = enc a' L' b') :
    a = a' ∧ L = L' ∧ b = b' := by
  refine ⟨?_, ?_, ?_⟩
  · have h1 := head_enc a L b; have h2 := head_enc a' L' b'
    rw [h] at h1
    cases a <;> cases a' <;> simp_all
  · have := decL_enc a L b; rw [h, decL_enc] at this; exact this.symm
  · have h1 := last_enc a L b; have h2 := last_enc a' L' b'
    rw [h] at h1
    cases b <;> cases b' <;> simp_all

/-! ### What is visited, in terms of keys -/

theorem enc_snoc_ch (a : Bool) (cons : List Char) (l : Char) :
    enc a cons false ++ [.ch l] = enc a (cons ++ [l]) false := by simp [enc]
theorem enc_snoc_stop (a : Bool) (cons : List Char) :
    enc a cons false ++ [.stop] = enc a cons true := by simp [enc]

theorem mem_walk (a : Bool) (cons ls : List Char) (π : List Edge) :
    π ∈ walk (enc a cons false) ls ↔
      (∃ pre suf, ls = pre ++ suf ∧ pre ≠ [] ∧ π = enc a (cons ++ pre) false) ∨
      π = enc a (cons ++ ls) true := by
  induction ls generalizing cons with
  | nil =>
    simp only [walk, List.mem_singleton, enc_snoc_stop, List.append_nil]
    constructor
    · intro h; exact Or.inr h
    · rintro (⟨pre, suf, h1, h2, _⟩ | h)
      · have : pre = [] := by
          cases pre with
          | nil => rfl
          | cons x xs => simp at h1
        exact absurd this h2
      · exact h
  | cons l ls ih =>
    simp only [walk, List.mem_cons, enc_snoc_ch, ih]
    constructor
    · rintro (h | ⟨pre, suf, h1, _, h3⟩ | h)
      · exact Or.inl ⟨[l], ls, rfl, by simp, h⟩
      · exact Or.inl ⟨l :: pre, suf, by simp [h1], by simp, by simpa using h3⟩
      · exact Or.inr (by simpa using h)
    · rintro (⟨pre, suf, h1, h2, h3⟩ | h)
      · cases pre with
        | nil => exact absurd rfl h2
        | cons x pre =>
          simp only [List.cons_append, List.cons.injEq] at h1
          obtain ⟨rfl, h1⟩ := h1
          by_cases hp : pre = []
          · subst hp; exact Or.inl h3
          · exact Or.inr (Or.inl ⟨pre, suf, h1, hp, by simpa using h3⟩)
      · exact Or.inr (Or.inr (by simpa using h))

theorem mem_visitedFrom (o0 : Nat) (ls : List Char) (o : Nat) (π : List Edge) :
    (o, π) ∈ visitedFrom o0 ls ↔ ∃ k, k < ls.length ∧ o = o0 + k ∧ π ∈ walk [] (ls.drop k) := by
  induction ls generalizing o0 with
  | nil => simp [visitedFrom]
  | cons l ls ih =>
    simp only [visitedFrom, List.mem_append, List.mem_map, Prod.mk.injEq, ih]
    constructor
    · rintro (⟨π', h1, rfl, rfl⟩ | ⟨k, h1, h2, h3⟩)
      · exact ⟨0, by simp, by simp, by simpa using h1⟩
      · exact ⟨k + 1, by simp; omega, by omega, by simpa using h3⟩
    · rintro ⟨k, h1, h2, h3⟩
      cases k with
      | zero => exact Or.inl ⟨π, by simpa using h3, by omega, rfl⟩
      | succ k =>
        exact Or.inr ⟨k, by simp at h1; omega, by omega, by simpa using h3⟩

theorem mem_visited (ls : List Char) (o : Nat) (π : List Edge) :
    (o, π) ∈ visited ls ↔
      (o = 0 ∧ π ∈ walk [.start] ls) ∨ (o < ls.length ∧ π ∈ walk [] (ls.drop o)) := by
  simp only [visited, List.mem_append, List.mem_map, Prod.mk.injEq, mem_visitedFrom]
  constructor
  · rintro (⟨π', h1, rfl, rfl⟩ | ⟨k, h1, h2, h3⟩)
    · exact Or.inl ⟨rfl, h1⟩
    · exact Or.inr ⟨by omega, by have : o = k := by omega
                                 subst this; exact h3⟩
  · rintro (⟨rfl, h⟩ | ⟨h1, h2⟩)
    · exact Or.inl ⟨π, h, rfl, rfl⟩
    · exact Or.inr ⟨o, h1, by omega, h2⟩

theorem enc_start : ([.start] : List Edge) = enc true [] false := by simp [enc]
theorem enc_root : ([] : List Edge) = enc false [] false := by simp [enc]

theorem matchesAt_iff (P : Pat) (ls : List Char) (o : Nat) :
    matchesAt P ls o = true ↔
      P.letters ≠ [] ∧ P.letters <+: ls.drop o ∧ (P.anchorStart = true → o = 0) ∧
      (P.anchorEnd = true → o + P.letters.length = ls.length) := by
  unfold matchesAt
  simp only [Bool.and_eq_true, decide_eq_true_eq, List.isPrefixOf_iff_prefix, Bool.or_eq_true,
    Bool.not_eq_true', and_assoc]
  constructor
  · rintro ⟨h1, h2, h3, h4⟩
    refine ⟨h1, h2, ?_, ?_⟩
    · intro h; rcases h3 with h3 | h3
      · rw [h] at h3; cases h3
      · exact h3
    · intro h; rcases h4 with h4 | h4
      · rw [h] at h4; cases h4
      · exact h4
  · rintro ⟨h1, h2, h3, h4⟩
    refine ⟨h1, h2, ?_, ?_⟩
    · cases h : P.anchorStart
      · exact Or.inl rfl
      · exact Or.inr (h3 h)
    · cases h : P.anchorEnd
      · exact Or.inl rfl
      · exact Or.inr (h4 h)

theorem visited_iff_matches (ls : List Char) (hne : ls ≠ []) (P : Pat) (o : Nat) :
    (o, enc P.anchorStart P.letters P.anchorEnd) ∈ visited ls ↔ matchesAt P ls o = true := by
  rw [mem_visited, matchesAt_iff, enc_start, enc_root, mem_walk, mem_walk]
  simp only [List.nil_append]
  constructor
  · rintro (⟨rfl, ⟨pre, suf, h1, h2, h3⟩ | h3⟩ | ⟨ho, ⟨pre, suf, h1, h2, h3⟩ | h3⟩)
    · obtain ⟨ha, hL, hb⟩ := enc_inj h3
      refine ⟨by rw [hL]; exact h2, by rw [hL, h1]; simp, fun _ => rfl, ?_⟩
      intro h; rw [hb] at h; cases h
    · obtain ⟨ha, hL, hb⟩ := enc_inj h3
      refine ⟨by rw [hL]; exact hne, by rw [hL]; simp, fun _ => rfl, ?_⟩
      intro _; rw [hL]; simp
    · obtain ⟨ha, hL, hb⟩ := enc_inj h3
      refine ⟨by rw [hL]; exact h2, by rw [hL, h1]; exact List.prefix_append _ _, ?_, ?_⟩
      · intro h; rw [ha] at h; cases h
      · intro h; rw [hb] at h; cases h
    · obtain ⟨ha, hL, hb⟩ := enc_inj h3
      refine ⟨?_, by rw [hL]; exact List.prefix_refl _, ?_, ?_⟩
      · rw [hL]; intro h
        have := congrArg List.length h
        simp at this; omega
      · intro h; rw [ha] at h; cases h
      · intro _; rw [hL]; simp; omega
  · rintro ⟨h1, ⟨suf, h2⟩, h3, h4⟩
    cases ha : P.anchorStart with
    | true =>
      have ho := h3 ha
      subst ho
      left
      refine ⟨rfl, ?_⟩
      simp only [List.drop_zero] at h2
      cases hb : P.anchorEnd with
      | true =>
        right
        have := h4 hb
        have hs : suf = [] := by
          have := congrArg List.length h2
          simp at this
          exact List.eq_nil_of_length_eq_zero (by omega)
        rw [hs] at h2; simp at h2
        rw [h2]
      | false =>
        left
        exact ⟨P.letters, suf, h2.symm, h1, rfl⟩
    | false =>
      right
      have ho : o < ls.length := by
        have : (ls.drop o) ≠ [] := by
          rw [← h2]; intro h; simp at h; exact h1 h.1
        have hl : (ls.drop o).length ≠ 0 := fun h => this (List.eq_nil_of_length_eq_zero h)
        simp at hl; omega
      refine ⟨ho, ?_⟩
      cases hb : P.anchorEnd with
      | true =>
        right
        have := h4 hb
        have hs : suf = [] := by
          have := congrArg List.length h2
          simp at this
          exact List.eq_nil_of_length_eq_zero (by omega)
        rw [hs] at h2; simp at h2
        rw [h2]
      | false =>
        left
        exact ⟨P.letters, suf, h2.symm, h1, rfl⟩

end C13
