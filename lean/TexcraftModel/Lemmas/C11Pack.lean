/-
C11 — `pack_entrypoints`: the loop invariant, the shape of the packed table
(`front ++ instrs ++ post`) and the preservation of every character's chain.
-/
import TexcraftModel.Model.C11
import TexcraftModel.Lemmas.C11Chain
import TexcraftModel.Lemmas.C11Dims

namespace C11

/-- Number of carrier words that end up in front (1 while the boundary-char carrier is still there). -/
def cc (rbSome : Bool) (st : LoopSt) : Nat := if rbSome && !st.popped then 1 else 0

/-- Loop invariant of `packLoop` (`rest` = the entry points still to be visited, all smaller
than the ones visited): the words in front are counted by `offset`; every assignment made so
far is either *direct* (entry point + offset, final because only smaller entry points follow)
or the *slot* of its redirect word. -/
structure Good (rbSome : Bool) (st : LoopSt) (rest : List Nat) : Prop where
  inv : cc rbSome st + st.redirects.length = st.offset
  asg : ∀ e u, (e, u) ∈ st.assign →
      (u = e + st.offset ∧ u ≤ 255 ∧ ∀ e' ∈ rest, e' < e) ∨
      (∃ j, u = cc rbSome st + j ∧ st.redirects[j]? = some e ∧ u ≤ 255)

theorem packLoop_good (rbSome : Bool) (ds : List Nat) :
    ∀ (k : Nat) (st st' : LoopSt), ds.Pairwise (· > ·) → Good rbSome st ds →
      packLoop rbSome (k + 1) ds st = some st' →
      Good rbSome st' [] ∧ (∀ e, (e ∈ st.assign.map (·.1) ∨ e ∈ ds) → e ∈ st'.assign.map (·.1)) := by
  induction ds with
  | nil =>
    intro k st st' _ hg h
    simp only [packLoop, Option.some.injEq] at h
    subst h
    exact ⟨hg, by intro e he; simpa using he⟩
  | cons e rest ih =>
    intro k st st' hs hg h
    have hs' := List.pairwise_cons.mp hs
    simp only [packLoop] at h
    split at h
    · -- direct
      rename_i hfit
      have hg1 : Good rbSome { st with assign := (e, e + st.offset) :: st.assign } rest := by
        refine ⟨hg.inv, ?_⟩
        intro e0 u0 hm
        simp only [List.mem_cons, Prod.mk.injEq] at hm
        rcases hm with ⟨rfl, rfl⟩ | hm
        · exact Or.inl ⟨rfl, hfit, fun e' he' => hs'.1 e' he'⟩
        · rcases hg.asg e0 u0 hm with ⟨h1, h2, h3⟩ | hr
          · exact Or.inl ⟨h1, h2, fun e' he' => h3 e' (List.mem_cons_of_mem _ he')⟩
          · exact Or.inr hr
      obtain ⟨g, hk⟩ := ih (k + 1) _ st' hs'.2 hg1 h
      refine ⟨g, ?_⟩
      intro e0 he0
      apply hk
      rcases he0 with he0 | he0
      · left; simp only [List.map_cons, List.mem_cons]; exact Or.inr he0
      · rcases List.mem_cons.mp he0 with rfl | he0
        · left; simp
        · exact Or.inr he0
    · -- redirect
      rename_i hnofit
      have hk0 : (k + 1 == 0) = false := by simp
      simp only [hk0, Bool.false_and, Bool.false_eq_true, if_false, Bool.or_false] at h
      split at h
      · rename_i hoff
        have hg1 : Good rbSome (LoopSt.mk (st.offset + 1) (st.redirects ++ [e]) ((e, st.offset) :: st.assign) st.popped) rest := by
          refine ⟨?_, ?_⟩
          · have := hg.inv
            simp only [cc] at this ⊢
            simp only [List.length_append, List.length_cons, List.length_nil]
            omega
          · intro e0 u0 hm
            simp only [List.mem_cons, Prod.mk.injEq] at hm
            rcases hm with ⟨rfl, rfl⟩ | hm
            · refine Or.inr ⟨st.redirects.length, ?_, ?_, hoff⟩
              · have := hg.inv
                simp only [cc] at this ⊢
                omega
              · simp
            · rcases hg.asg e0 u0 hm with ⟨h1, h2, h3⟩ | ⟨j, h1, h2, h3⟩
              · exfalso
                have := h3 e (List.mem_cons_self ..)
                omega
              · refine Or.inr ⟨j, ?_, ?_, h3⟩
                · simpa [cc] using h1
                · have hj : j < st.redirects.length := by
                    rcases List.getElem?_eq_some_iff.mp h2 with ⟨hj, _⟩
                    exact hj
                  rw [List.getElem?_append_left hj]
                  exact h2
        obtain ⟨g, hk⟩ := ih (k + 1) _ st' hs'.2 hg1 h
        refine ⟨g, ?_⟩
        intro e0 he0
        apply hk
        rcases he0 with he0 | he0
        · left; simp only [List.map_cons, List.mem_cons]; exact Or.inr he0
        · rcases List.mem_cons.mp he0 with rfl | he0
          · left; simp
          · exact Or.inr he0
      · simp at h

/-- The initial state of the loop (lang.rs:565–579). -/
def initSt (rbSome : Bool) : LoopSt :=
  { offset := if rbSome then 1 else 0, redirects := [], assign := [], popped := false }

/-- The whole loop, from its first pass (where "location 0 does double duty" may pop the carrier). -/
theorem packLoop_zero (rbSome : Bool) (ds : List Nat) (st' : LoopSt)
    (hs : ds.Pairwise (· > ·)) (h : packLoop rbSome 0 ds (initSt rbSome) = some st') :
    Good rbSome st' [] ∧ (∀ e ∈ ds, e ∈ st'.assign.map (·.1)) := by
  cases ds with
  | nil =>
    simp only [packLoop, Option.some.injEq] at h
    subst h
    refine ⟨⟨?_, ?_⟩, by simp⟩
    · cases rbSome <;> simp [cc, initSt]
    · intro e u hm; simp [initSt] at hm
  | cons e rest =>
    have hs' := List.pairwise_cons.mp hs
    simp only [packLoop] at h
    split at h
    · rename_i hfit
      have hg1 : Good rbSome { initSt rbSome with assign := (e, e + (initSt rbSome).offset) :: (initSt rbSome).assign } rest := by
        refine ⟨?_, ?_⟩
        · cases rbSome <;> simp [cc, initSt]
        · intro e0 u0 hm
          simp only [initSt, List.mem_cons, Prod.mk.injEq, List.not_mem_nil, or_false] at hm
          obtain ⟨rfl, rfl⟩ := hm
          exact Or.inl ⟨rfl, hfit, fun e' he' => hs'.1 e' he'⟩
      obtain ⟨g, hk⟩ := packLoop_good rbSome rest 0 _ st' hs'.2 hg1 h
      refine ⟨g, ?_⟩
      intro e0 he0
      apply hk
      rcases List.mem_cons.mp he0 with rfl | he0
      · left; simp
      · exact Or.inr he0
    · have h00 : ((0 : Nat) == 0) = true := by simp
      simp only [h00, Bool.true_and] at h
      have hoff0 : (if rbSome = true then 0 else (initSt rbSome).offset) = 0 := by
        cases rbSome <;> simp [initSt]
      simp only [hoff0] at h
      simp only [Nat.zero_le, if_true, Nat.zero_add] at h
      have hg1 : Good rbSome (LoopSt.mk 1 ((initSt rbSome).redirects ++ [e]) ((e, 0) :: (initSt rbSome).assign) ((initSt rbSome).popped || rbSome)) rest := by
        refine ⟨?_, ?_⟩
        · cases rbSome <;> simp [cc, initSt]
        · intro e0 u0 hm
          simp only [initSt, List.mem_cons, Prod.mk.injEq, List.not_mem_nil, or_false] at hm
          obtain ⟨rfl, rfl⟩ := hm
          refine Or.inr ⟨0, ?_, ?_, by omega⟩
          · cases rbSome <;> simp [cc, initSt]
          · simp [initSt]
      obtain ⟨g, hk⟩ := packLoop_good rbSome rest 0 _ st' hs'.2 hg1 h
      refine ⟨g, ?_⟩
      intro e0 he0
      apply hk
      rcases List.mem_cons.mp he0 with rfl | he0
      · left; simp
      · exact Or.inr he0

/-! ### Small facts about `lookup`, `mapEntries`, `rotateRight` -/

theorem lookup_mem {a : List (Nat × Nat)} {k v : Nat} (h : lookup a k = some v) : (k, v) ∈ a := by
  induction a with
  | nil => simp [lookup] at h
  | cons x t ih =>
    obtain ⟨k', v'⟩ := x
    simp only [lookup] at h
    split at h
    · rename_i hk
      simp only [Option.some.injEq] at h
      subst hk; subst h
      exact List.mem_cons_self ..
    · exact List.mem_cons_of_mem _ (ih h)

theorem lookup_of_key {a : List (Nat × Nat)} {k : Nat} (h : k ∈ a.map (·.1)) : ∃ v, lookup a k = some v := by
  induction a with
  | nil => simp at h
  | cons x t ih =>
    obtain ⟨k', v'⟩ := x
    simp only [lookup]
    split
    · exact ⟨v', rfl⟩
    · rename_i hk
      simp only [List.map_cons, List.mem_cons] at h
      rcases h with h | h
      · exact absurd h.symm hk
      · exact ih h

/-- `mapEntries` translates each entry point through `assign` and keeps the characters. -/
theorem mapEntries_spec {assign : List (Nat × Nat)} :
    ∀ {entries pe : List (Nat × Nat)}, mapEntries assign entries = some pe →
      pe.map (·.1) = entries.map (·.1) ∧
      ((entries.map (·.1)).Nodup → ∀ ce ∈ entries, ∃ u, lookup pe ce.1 = some u ∧ lookup assign ce.2 = some u) := by
  intro entries
  induction entries with
  | nil =>
    intro pe h
    simp only [mapEntries, Option.some.injEq] at h
    subst h
    simp
  | cons x t ih =>
    intro pe h
    obtain ⟨c, e⟩ := x
    simp only [mapEntries] at h
    split at h
    · rename_i u r hu hr
      simp only [Option.some.injEq] at h
      subst h
      obtain ⟨ih1, ih2⟩ := ih hr
      refine ⟨by simp [ih1], ?_⟩
      intro hnd ce hce
      simp only [List.map_cons, List.nodup_cons] at hnd
      rcases List.mem_cons.mp hce with rfl | hce
      · exact ⟨u, by simp [lookup], hu⟩
      · obtain ⟨u', h1, h2⟩ := ih2 hnd.2 ce hce
        refine ⟨u', ?_, h2⟩
        have hne : c ≠ ce.1 := by
          intro heq
          apply hnd.1
          rw [heq]
          exact List.mem_map_of_mem hce
        simp only [lookup, hne, if_false]
        exact h1
    · simp at h

theorem mapEntries_total {assign : List (Nat × Nat)} :
    ∀ {entries : List (Nat × Nat)}, (∀ ce ∈ entries, ce.2 ∈ assign.map (·.1)) →
      ∃ pe, mapEntries assign entries = some pe := by
  intro entries
  induction entries with
  | nil => intro _; exact ⟨[], rfl⟩
  | cons x t ih =>
    intro h
    obtain ⟨c, e⟩ := x
    obtain ⟨u, hu⟩ := lookup_of_key (h (c, e) (List.mem_cons_self ..))
    obtain ⟨r, hr⟩ := ih (fun ce hce => h ce (List.mem_cons_of_mem _ hce))
    exact ⟨(c, u) :: r, by simp [mapEntries, hu, hr]⟩

theorem rotateRight_append (a b : List Instr) : rotateRight (a ++ b) b.length = b ++ a := by
  simp [rotateRight]

/-! ### The shape of the packed table -/

/-- The words `pack` puts in front: the carrier (unless popped) and the redirect words. -/
def frontOf (p : Prog) (st : LoopSt) : List Instr :=
  (if p.rb.isSome && !st.popped then [carrier (p.rb.getD 0)] else []) ++
    st.redirects.map (redirectInstr (p.rb.getD 0) st.offset)

/-- The word `pack` appends: the left-boundary word, if any. -/
def postOf (p : Prog) (st : LoopSt) : List Instr :=
  match p.lb with
  | none => []
  | some l => [lbInstr (l + st.offset)]

theorem frontOf_length (p : Prog) (st : LoopSt) (hg : Good p.rb.isSome st []) :
    (frontOf p st).length = st.offset := by
  have := hg.inv
  simp only [cc] at this
  simp only [frontOf, List.length_append, List.length_map]
  split <;> simp_all

/-- `pack` = loop, then `front ++ instrs ++ post` with `front.length = offset`. -/
theorem pack_shape {p : Prog} {entries : List (Nat × Nat)} {P : Prog} {pe : List (Nat × Nat)}
    (h : pack p entries = some (P, pe)) :
    ∃ st, packLoop p.rb.isSome 0 (descDistinct (entries.map (·.2))) (initSt p.rb.isSome) = some st ∧
      Good p.rb.isSome st [] ∧
      (∀ e ∈ descDistinct (entries.map (·.2)), e ∈ st.assign.map (·.1)) ∧
      mapEntries st.assign entries = some pe ∧
      P = { instrs := frontOf p st ++ p.instrs ++ postOf p st, lb := p.lb.map (· + st.offset), rb := p.rb } ∧
      (frontOf p st).length = st.offset := by
  simp only [pack] at h
  split at h
  · simp at h
  · rename_i st hst
    split at h
    · simp at h
    · rename_i pe' hpe
      simp only [Option.some.injEq, Prod.mk.injEq] at h
      obtain ⟨hP, hpe'⟩ := h
      subst hpe'
      have hst' : packLoop p.rb.isSome 0 (descDistinct (entries.map (·.2))) (initSt p.rb.isSome) = some st := by
        simpa [initSt] using hst
      obtain ⟨hg, hkeys⟩ := packLoop_zero _ _ _ (descDistinct_sorted _) hst'
      have hlen := frontOf_length p st hg
      refine ⟨st, hst', hg, hkeys, hpe, ?_, hlen⟩
      rw [← hP]
      have hrot : rotateRight (p.instrs ++ (if (p.rb.isSome && !st.popped) = true then [carrier (p.rb.getD 0)] else []) ++
            List.map (redirectInstr (p.rb.getD 0) st.offset) st.redirects) st.offset
          = frontOf p st ++ p.instrs := by
        have hr := rotateRight_append p.instrs (frontOf p st)
        rw [hlen] at hr
        rw [List.append_assoc]
        exact hr
      rw [hrot]
      cases hlb : p.lb <;> simp [postOf, hlb]

/-! ### Every character starts the same chain after packing -/

theorem wf_parts {p : Prog} {entries : List (Nat × Nat)} (h : wf p entries = true) :
    noRedirect p.instrs = true ∧ closed p.instrs = true ∧
      (∀ ce ∈ entries, ce.2 < p.instrs.length) ∧ (∀ l, p.lb = some l → l < p.instrs.length) := by
  simp only [wf, Bool.and_eq_true, List.all_eq_true, decide_eq_true_eq] at h
  obtain ⟨⟨⟨h1, h2⟩, h3⟩, h4⟩ := h
  refine ⟨h1, h2, h3, ?_⟩
  intro l hl
  rw [hl] at h4
  simpa using h4

theorem entryOk_of {orig packed : List Instr} {pe : List (Nat × Nat)} {ce : Nat × Nat} {u e' : Nat}
    (h1 : lookup pe ce.1 = some u) (h2 : u ≤ 255) (h3 : unpackEntry packed u = some e')
    (h4 : chain e' packed = chain ce.2 orig) : entryOk orig packed pe ce = true := by
  simp [entryOk, h1, h2, h3, h4]

theorem getElem?_embedded (F I Q : List Instr) (e : Nat) (he : e < I.length) :
    (F ++ I ++ Q)[F.length + e]? = I[e]? := by
  rw [List.getElem?_append_left (by simp; omega)]
  rw [List.getElem?_append_right (by omega)]
  simp

theorem getElem?_front (F I Q : List Instr) (u : Nat) (hu : u < F.length) :
    (F ++ I ++ Q)[u]? = F[u]? := by
  rw [List.append_assoc, List.getElem?_append_left hu]

/-- A direct entry point: the word is the original instruction, which is not a redirect. -/
theorem unpackEntry_direct (F I Q : List Instr) (e : Nat) (he : e < I.length)
    (hnr : noRedirect I = true) : unpackEntry (F ++ I ++ Q) (F.length + e) = some (F.length + e) := by
  have hget := getElem?_embedded F I Q e he
  have hI : I[e]? = some I[e] := List.getElem?_eq_getElem he
  have hmem : I[e] ∈ I := List.getElem_mem he
  have hop : I[e].op.isRedirect = false := by
    simp only [noRedirect, List.all_eq_true, Bool.not_eq_eq_eq_not, Bool.not_true] at hnr
    exact hnr _ hmem
  simp only [unpackEntry, hget, hI]
  cases hopc : I[e].op <;> simp_all [Op.isRedirect]

/-- A redirected entry point: slot `u` holds `redirect (e + offset)`, which is inside the table. -/
theorem unpackEntry_slot (F I Q : List Instr) (u e rbc : Nat) (he : e < I.length)
    (hF : F[u]? = some (redirectInstr rbc F.length e)) :
    unpackEntry (F ++ I ++ Q) u = some (F.length + e) := by
  have hu : u < F.length := (List.getElem?_eq_some_iff.mp hF).1
  have hget := getElem?_front F I Q u hu
  simp only [unpackEntry, hget, hF, redirectInstr]
  have : e + F.length < (F ++ I ++ Q).length := by simp; omega
  simp [this]
  omega

theorem frontOf_slot (p : Prog) (st : LoopSt) (j e : Nat) (hj : st.redirects[j]? = some e) :
    (frontOf p st)[cc p.rb.isSome st + j]? = some (redirectInstr (p.rb.getD 0) st.offset e) := by
  simp only [frontOf, cc]
  split
  · simp [List.getElem?_append_right, hj, Nat.add_comm]
  · simp [hj]

/-- Explicit form: the byte stored for `c` unpacks to `offset + e`, and the packed table is
`front ++ instrs ++ post` with `front.length = offset`. -/
theorem pack_entry_explicit {p : Prog} {entries : List (Nat × Nat)} {P : Prog} {pe : List (Nat × Nat)}
    (h : pack p entries = some (P, pe)) (hwf : wf p entries = true)
    (hnd : (entries.map (·.1)).Nodup) :
    ∃ st, Good p.rb.isSome st [] ∧ (frontOf p st).length = st.offset ∧
      P = { instrs := frontOf p st ++ p.instrs ++ postOf p st, lb := p.lb.map (· + st.offset), rb := p.rb } ∧
      pe.map (·.1) = entries.map (·.1) ∧
      ∀ ce ∈ entries, ∃ u, lookup pe ce.1 = some u ∧ u ≤ 255 ∧
        unpackEntry P.instrs u = some (st.offset + ce.2) := by
  obtain ⟨st, _, hg, _, hpe, hP, hlen⟩ := pack_shape h
  obtain ⟨hnr, hcl, hent, _⟩ := wf_parts hwf
  refine ⟨st, hg, hlen, hP, (mapEntries_spec hpe).1, ?_⟩
  intro ce hce
  obtain ⟨u, hu1, hu2⟩ := (mapEntries_spec hpe).2 hnd ce hce
  have he := hent ce hce
  have hPi : P.instrs = frontOf p st ++ p.instrs ++ postOf p st := by rw [hP]
  rw [hPi, ← hlen]
  rcases hg.asg ce.2 u (lookup_mem hu2) with ⟨h1, h2, _⟩ | ⟨j, h1, h2, h3⟩
  · -- direct
    have hu : u = (frontOf p st).length + ce.2 := by omega
    refine ⟨u, hu1, h2, ?_⟩
    rw [hu]; exact unpackEntry_direct _ _ _ _ he hnr
  · -- redirected
    have hslot := frontOf_slot p st j ce.2 h2
    rw [← h1, ← hlen] at hslot
    exact ⟨u, hu1, h3, unpackEntry_slot _ _ _ _ _ _ he hslot⟩

/-- **pack_preserves**, per character. -/
theorem pack_preserves_entry {p : Prog} {entries : List (Nat × Nat)} {P : Prog} {pe : List (Nat × Nat)}
    (h : pack p entries = some (P, pe)) (hwf : wf p entries = true)
    (hnd : (entries.map (·.1)).Nodup) :
    ∀ ce ∈ entries, entryOk p.instrs P.instrs pe ce = true := by
  obtain ⟨st, _, hlen, hP, _, hex⟩ := pack_entry_explicit h hwf hnd
  obtain ⟨_, hcl, hent, _⟩ := wf_parts hwf
  intro ce hce
  obtain ⟨u, hu1, hu2, hu3⟩ := hex ce hce
  refine entryOk_of hu1 hu2 hu3 ?_
  have hPi : P.instrs = frontOf p st ++ p.instrs ++ postOf p st := by rw [hP]
  rw [hPi, ← hlen]
  exact chain_embedded _ _ _ _ hcl (hent ce hce)

/-! ### Totality: at most 256 distinct entry points never overflow the slot byte -/

theorem good_direct {rbSome : Bool} {st : LoopSt} {e : Nat} {rest : List Nat}
    (hg : Good rbSome st (e :: rest)) (hlt : ∀ e' ∈ rest, e' < e) (hfit : e + st.offset ≤ 255) :
    Good rbSome { st with assign := (e, e + st.offset) :: st.assign } rest := by
  refine ⟨hg.inv, ?_⟩
  intro e0 u0 hm
  simp only [List.mem_cons, Prod.mk.injEq] at hm
  rcases hm with ⟨rfl, rfl⟩ | hm
  · exact Or.inl ⟨rfl, hfit, hlt⟩
  · rcases hg.asg e0 u0 hm with ⟨h1, h2, h3⟩ | hr
    · exact Or.inl ⟨h1, h2, fun e' he' => h3 e' (List.mem_cons_of_mem _ he')⟩
    · exact Or.inr hr

theorem good_redirect {rbSome : Bool} {st : LoopSt} {e : Nat} {rest : List Nat}
    (hg : Good rbSome st (e :: rest)) (hnofit : ¬ e + st.offset ≤ 255) (hoff : st.offset ≤ 255) :
    Good rbSome (LoopSt.mk (st.offset + 1) (st.redirects ++ [e]) ((e, st.offset) :: st.assign) st.popped) rest := by
  refine ⟨?_, ?_⟩
  · have := hg.inv
    simp only [cc] at this ⊢
    simp only [List.length_append, List.length_cons, List.length_nil]
    omega
  · intro e0 u0 hm
    simp only [List.mem_cons, Prod.mk.injEq] at hm
    rcases hm with ⟨rfl, rfl⟩ | hm
    · refine Or.inr ⟨st.redirects.length, ?_, ?_, hoff⟩
      · have := hg.inv
        simp only [cc] at this ⊢
        omega
      · simp
    · rcases hg.asg e0 u0 hm with ⟨h1, h2, h3⟩ | ⟨j, h1, h2, h3⟩
      · exfalso
        have := h3 e (List.mem_cons_self ..)
        omega
      · refine Or.inr ⟨j, ?_, ?_, h3⟩
        · simpa [cc] using h1
        · have hj : j < st.redirects.length := (List.getElem?_eq_some_iff.mp h2).1
          rw [List.getElem?_append_left hj]
          exact h2

/-- From pass `k+1` on: as long as no direct assignment has been made the offset is at most
the number of passes, so the slot number fits a byte while `k + 1 + |rest| ≤ 256`. -/
theorem packLoop_total (rbSome : Bool) (ds : List Nat) :
    ∀ (k : Nat) (st : LoopSt), ds.Pairwise (· > ·) → Good rbSome st ds →
      (st.offset ≤ k + 1 ∨ ∃ e u, (e, u) ∈ st.assign ∧ u = e + st.offset ∧ u ≤ 255 ∧ ∀ e' ∈ ds, e' < e) →
      k + 1 + ds.length ≤ 256 → ∃ st', packLoop rbSome (k + 1) ds st = some st' := by
  induction ds with
  | nil => intro k st _ _ _ _; exact ⟨st, by simp [packLoop]⟩
  | cons e rest ih =>
    intro k st hs hg hd hlen
    have hs' := List.pairwise_cons.mp hs
    simp only [List.length_cons] at hlen
    simp only [packLoop]
    split
    · rename_i hfit
      apply ih (k + 1) _ hs'.2 (good_direct hg (fun e' he' => hs'.1 e' he') hfit)
      · exact Or.inr ⟨e, e + st.offset, List.mem_cons_self .., rfl, hfit, fun e' he' => hs'.1 e' he'⟩
      · omega
    · rename_i hnofit
      have hk0 : (k + 1 == 0) = false := by simp
      simp only [hk0, Bool.false_and, Bool.false_eq_true, if_false, Bool.or_false]
      have hoff : st.offset ≤ k + 1 := by
        rcases hd with hd | ⟨e0, u0, _, h1, h2, h3⟩
        · exact hd
        · exfalso
          have := h3 e (List.mem_cons_self ..)
          omega
      have hoff' : st.offset ≤ 255 := by omega
      simp only [hoff', if_true]
      apply ih (k + 1) _ hs'.2 (good_redirect hg hnofit hoff')
      · exact Or.inl (by simp only; omega)
      · omega

theorem packLoop_zero_total (rbSome : Bool) (ds : List Nat) (hs : ds.Pairwise (· > ·))
    (hlen : ds.length ≤ 256) : ∃ st', packLoop rbSome 0 ds (initSt rbSome) = some st' := by
  cases ds with
  | nil => exact ⟨initSt rbSome, by simp [packLoop]⟩
  | cons e rest =>
    have hs' := List.pairwise_cons.mp hs
    simp only [List.length_cons] at hlen
    have hg0 : Good rbSome (initSt rbSome) (e :: rest) := by
      refine ⟨by cases rbSome <;> simp [cc, initSt], ?_⟩
      intro e0 u0 hm; simp [initSt] at hm
    simp only [packLoop]
    split
    · rename_i hfit
      apply packLoop_total rbSome rest 0 _ hs'.2 (good_direct hg0 (fun e' he' => hs'.1 e' he') hfit)
      · exact Or.inr ⟨e, e + (initSt rbSome).offset, List.mem_cons_self .., rfl, hfit, fun e' he' => hs'.1 e' he'⟩
      · omega
    · have h00 : ((0 : Nat) == 0) = true := by simp
      simp only [h00, Bool.true_and]
      have hoff0 : (if rbSome = true then 0 else (initSt rbSome).offset) = 0 := by
        cases rbSome <;> simp [initSt]
      simp only [hoff0, Nat.zero_le, if_true, Nat.zero_add]
      have hg1 : Good rbSome (LoopSt.mk 1 ((initSt rbSome).redirects ++ [e]) ((e, 0) :: (initSt rbSome).assign) ((initSt rbSome).popped || rbSome)) rest := by
        refine ⟨?_, ?_⟩
        · cases rbSome <;> simp [cc, initSt]
        · intro e0 u0 hm
          simp only [initSt, List.mem_cons, Prod.mk.injEq, List.not_mem_nil, or_false] at hm
          obtain ⟨rfl, rfl⟩ := hm
          refine Or.inr ⟨0, ?_, ?_, by omega⟩
          · cases rbSome <;> simp [cc, initSt]
          · simp [initSt]
      apply packLoop_total rbSome rest 0 _ hs'.2 hg1
      · exact Or.inl (by simp)
      · omega

/-- **pack_total**: with at most 256 distinct entry points (there are only 256 characters)
`pack_entrypoints` (with fix C11-a) does not panic. -/
theorem pack_total_aux (p : Prog) (entries : List (Nat × Nat))
    (hlen : (descDistinct (entries.map (·.2))).length ≤ 256) : ∃ r, pack p entries = some r := by
  obtain ⟨st, hst⟩ := packLoop_zero_total p.rb.isSome _ (descDistinct_sorted _) hlen
  obtain ⟨_, hkeys⟩ := packLoop_zero _ _ _ (descDistinct_sorted _) hst
  have hall : ∀ ce ∈ entries, ce.2 ∈ st.assign.map (·.1) := by
    intro ce hce
    apply hkeys
    rw [mem_descDistinct]
    exact List.mem_map_of_mem hce
  obtain ⟨pe, hpe⟩ := mapEntries_total hall
  have hst' : packLoop p.rb.isSome 0 (descDistinct (entries.map (·.2)))
      { offset := if p.rb.isSome then 1 else 0, redirects := [], assign := [], popped := false } = some st := by
    simpa [initSt] using hst
  simp only [pack, hst', hpe]
  exact ⟨_, rfl⟩

end C11
