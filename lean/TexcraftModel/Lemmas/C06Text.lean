import TexcraftModel.Lemmas.C06Glue
import TexcraftModel.Model.C06Text
/-!
C06 — the text level: the character-level scanner of `Model/C06Text.lean` cuts a text in the
same way with `parse_constant`'s digit decoding and with TeX §445's, always produces
well-formed heads, and never produces the unit of the recorded deviation C06-f; so the kernel
theorems lift to the text the user writes.
-/
namespace C06
open Text

theorem constDigit_eq (radix : Int) (hr : radix = 10 ∨ radix = 8 ∨ radix = 16) (c : Char) (letter : Bool) :
    constDigit radix c letter = Spec.constDigit radix c letter := by
  unfold constDigit Spec.constDigit
  generalize c.toNat = n
  rcases hr with rfl | rfl | rfl <;> cases letter <;> simp <;> (repeat' split) <;>
    first | rfl | omega | (simp; omega)

theorem constDigit_lt (radix : Int) (hr : radix = 10 ∨ radix = 8 ∨ radix = 16) (c : Char) (letter : Bool)
    (d : Nat) (h : constDigit radix c letter = some d) : (d : Int) < radix := by
  unfold constDigit at h
  generalize c.toNat = n at h
  rcases hr with rfl | rfl | rfl <;> cases letter <;> simp at h <;> (repeat' split at h) <;>
    first | (simp at h; omega) | (simp at h) | omega

theorem decDigit_lt (radix : Int) (c : Char) (letter : Bool) (d : Nat) (h : decDigit radix c letter = some d) :
    d < 10 := by
  unfold decDigit at h
  split at h
  · simp at h; omega
  · simp at h

theorem takeDigits_congr (dg1 dg2 : DigitFn) (radix : Int) (h : ∀ c l, dg1 radix c l = dg2 radix c l) :
    ∀ t, takeDigits dg1 radix t = takeDigits dg2 radix t := by
  intro t
  induction t with
  | nil => simp [takeDigits]
  | cons a t ih =>
    cases a with
    | ch c l => simp only [takeDigits, h c l, ih]
    | space => simp [takeDigits]
    | cs => simp [takeDigits]

theorem takeDigits_lt (dg : DigitFn) (radix : Int) (B : Nat → Prop)
    (h : ∀ c l d, dg radix c l = some d → B d) : ∀ t, ∀ d ∈ (takeDigits dg radix t).1, B d := by
  intro t
  induction t with
  | nil => simp [takeDigits]
  | cons a t ih =>
    cases a with
    | space => simp [takeDigits]
    | cs => simp [takeDigits]
    | ch c l =>
      simp only [takeDigits]
      cases hd : dg radix c l with
      | none => simp
      | some d0 =>
        simp only [List.mem_cons]
        intro d hm
        rcases hm with rfl | hm
        · exact h c l _ hd
        · exact ih d hm

theorem fraction_lt (t : List Tok) : ∀ d ∈ (fraction t).1, d < 10 := by
  unfold fraction
  exact takeDigits_lt decDigit 10 (· < 10) (fun c l d h => decDigit_lt 10 c l d h) t


/-! ## the scanner cuts the text the same way for M and S -/

theorem cd_congr (radix : Int) (hr : radix = 10 ∨ radix = 8 ∨ radix = 16) :
    ∀ t, takeDigits constDigit radix t = takeDigits Spec.constDigit radix t :=
  takeDigits_congr _ _ radix (fun c l => constDigit_eq radix hr c l)

theorem parseHead_congr (fas : Bool) (t : List Tok) :
    parseHead constDigit fas t = parseHead Spec.constDigit fas t := by
  unfold parseHead
  simp only [cd_congr 16 (by simp), cd_congr 8 (by simp), cd_congr 10 (by simp)]

theorem wf_const (r : Int) (hr : r = 10 ∨ r = 8 ∨ r = 16) (ds : List Nat) (hds : ∀ d ∈ ds, (d : Int) < r)
    (fr : Option (List Nat)) (hfr : ∀ fd, fr = some fd → ∀ d ∈ fd, d < 10) : (Head.const r ds fr).WF :=
  ⟨hr, hds, hfr⟩

theorem parseHead_wf (fas : Bool) (t : List Tok) : (parseHead constDigit fas t).1.WF := by
  have b16 := takeDigits_lt constDigit 16 (fun d => (d : Int) < 16) (fun c l d h => constDigit_lt 16 (by simp) c l d h)
  have b8 := takeDigits_lt constDigit 8 (fun d => (d : Int) < 8) (fun c l d h => constDigit_lt 8 (by simp) c l d h)
  have b10 := takeDigits_lt constDigit 10 (fun d => (d : Int) < 10) (fun c l d h => constDigit_lt 10 (by simp) c l d h)
  simp only [parseHead]
  repeat' split
  all_goals
    first
      | exact fraction_lt _
      | exact wf_const 16 (by simp) _ (b16 _) none (by simp)
      | exact wf_const 8 (by simp) _ (b8 _) none (by simp)
      | exact wf_const 10 (by simp) _ (b10 _) none (by simp)
      | exact wf_const 10 (by simp) _ (b10 _) (some _) (by intro fd h; cases h; exact fraction_lt _)
      | exact wf_const 10 (by simp) [] (by simp) none (by simp)


/-- Text never denotes a negative internal unit: the recorded deviation C06-f cannot arise. -/
theorem parseUnit_noNeg (skip skipL glue : Bool) (t : List Tok) (ip f : Int) :
    negUnitOverflow ip f (parseUnit skip skipL glue t).1 = false := by
  simp only [parseUnit]
  repeat' split
  all_goals simp [negUnitOverflow, emWidth, exHeight]

theorem parseDimen_congr (skip skipL glue fas : Bool) (t : List Tok) :
    parseDimen constDigit skip skipL glue fas t = parseDimen Spec.constDigit skip skipL glue fas t := by
  simp only [parseDimen, parseHead_congr]

theorem parseInt_congr (t : List Tok) : parseInt constDigit t = parseInt Spec.constDigit t := by
  have hc : ∀ t, parseConst constDigit t = parseConst Spec.constDigit t := by
    intro t
    unfold parseConst
    simp only [cd_congr 16 (by simp), cd_congr 8 (by simp), cd_congr 10 (by simp)]
  simp only [parseInt, hc]

theorem parseGlue_congr (skip skipL fas : Bool) (t : List Tok) :
    parseGlue constDigit skip skipL fas t = parseGlue Spec.constDigit skip skipL fas t := by
  simp only [parseGlue, parseDimen_congr]

/-- The value of a dimension written as text: M = S, with no exclusion. -/
theorem scanDimen_text (skip skipL glue fas : Bool) (t : List Tok) :
    (scanDimen (parseDimen constDigit skip skipL glue fas t).neg (parseDimen constDigit skip skipL glue fas t).head
        (parseDimen constDigit skip skipL glue fas t).unit).toSR
      = Spec.scanDimen (parseDimen constDigit skip skipL glue fas t).neg (parseDimen constDigit skip skipL glue fas t).head
        (parseDimen constDigit skip skipL glue fas t).unit := by
  apply scanDimen_eq
  · exact parseHead_wf fas _
  · exact parseUnit_noNeg skip skipL glue _ _ _

theorem parseConst_digits (t : List Tok) (r : Int) (ds : List Nat) (rest : List Tok)
    (h : parseConst constDigit t = some (r, ds, rest)) :
    (r = 10 ∨ r = 8 ∨ r = 16) ∧ ∀ d ∈ ds, (d : Int) < r := by
  have b16 := takeDigits_lt constDigit 16 (fun d => (d : Int) < 16) (fun c l d h => constDigit_lt 16 (by simp) c l d h)
  have b8 := takeDigits_lt constDigit 8 (fun d => (d : Int) < 8) (fun c l d h => constDigit_lt 8 (by simp) c l d h)
  have b10 := takeDigits_lt constDigit 10 (fun d => (d : Int) < 10) (fun c l d h => constDigit_lt 10 (by simp) c l d h)
  simp only [parseConst] at h
  repeat' split at h
  all_goals
    first
      | (simp only [Option.some.injEq, Prod.mk.injEq] at h
         obtain ⟨rfl, rfl, _⟩ := h
         first | exact ⟨by simp, b16 _⟩ | exact ⟨by simp, b8 _⟩ | exact ⟨by simp, b10 _⟩)
      | simp at h


theorem scanGlue_toSR (w : SRes) (p m : Option SRes) :
    scanGlue w p m = Spec.scanGlue w.toSR (p.map SRes.toSR) (m.map SRes.toSR) := by
  cases w with
  | panic => simp [scanGlue, Spec.scanGlue, SRes.toSR]
  | ok ws =>
    cases p with
    | none =>
      cases m with
      | none => simp [scanGlue, Spec.scanGlue, SRes.toSR]
      | some m => cases m <;> simp [scanGlue, Spec.scanGlue, SRes.toSR]
    | some p =>
      cases p with
      | panic => cases m with
        | none => simp [scanGlue, Spec.scanGlue, SRes.toSR]
        | some m => cases m <;> simp [scanGlue, Spec.scanGlue, SRes.toSR]
      | ok ps =>
        cases m with
        | none => simp [scanGlue, Spec.scanGlue, SRes.toSR]
        | some m => cases m <;> simp [scanGlue, Spec.scanGlue, SRes.toSR]

theorem wf_wf32 (h : Head) (wf : h.WF) : h.WF32 := by
  cases h with
  | const r ds fr => exact wf
  | point fr => exact wf
  | int i => simp only [Head.WF] at wf; simp only [Head.WF32]; omega
  | dimen d => exact wf

/-- The width of a glue written as text (constant or `.ddd` head): `scan_dimen` then the sign. -/
theorem scanGlueWidth_text (neg : Bool) (h : Head) (u : UnitSpec) (wf : h.WF)
    (hk : (∃ r ds fr, h = .const r ds fr) ∨ (∃ fr, h = .point fr))
    (hex : negUnitOverflow (coeff h).1 (coeff h).2 u = false) :
    (scanGlueWidth neg h u).toSR = Spec.scanGlueWidth neg h u := by
  have he := scanDimen_eq false h u wf hex
  obtain ⟨sc, hsc, hb1, hb2⟩ := scanDimen_total false h u (wf_wf32 h wf)
  rw [hsc] at he
  have fin : ∀ (X : Spec.SR), X = (SRes.ok sc).toSR →
      (mulSign (SRes.ok sc) (if neg then -1 else 1)).toSR
        = (match X with
           | .ok v e o => Spec.SR.ok (if neg then -v else v) e o
           | .undef => .undef) := by
    intro X hX
    subst hX
    cases neg
    · simp only [mulSign, Bool.false_eq_true, if_false, Int.mul_one]
      rw [if_pos (by simp [inI32]; omega)]; simp [SRes.toSR]
    · simp only [mulSign, if_true]
      rw [if_pos (by simp [inI32]; omega)]; simp [SRes.toSR]
  rcases hk with ⟨r, ds, fr, rfl⟩ | ⟨fr, rfl⟩
  · simp only [scanGlueWidth, Spec.scanGlueWidth, hsc]
    exact fin _ he.symm
  · simp only [scanGlueWidth, Spec.scanGlueWidth, hsc]
    exact fin _ he.symm


theorem parseHead_kind (dg : DigitFn) (fas : Bool) (t : List Tok) :
    (∃ r ds fr, (parseHead dg fas t).1 = .const r ds fr) ∨ (∃ fr, (parseHead dg fas t).1 = .point fr) := by
  simp only [parseHead]
  repeat' split
  all_goals first | exact Or.inl ⟨_, _, _, rfl⟩ | exact Or.inr ⟨_, rfl⟩

/-- A glue written as text: M = S (width, stretch, shrink, orders, error count). -/
theorem scanGlue_text (skip skipL fas : Bool) (t : List Tok) :
    scanGlue
        (scanGlueWidth (parseGlue constDigit skip skipL fas t).width.neg (parseGlue constDigit skip skipL fas t).width.head
          (parseGlue constDigit skip skipL fas t).width.unit)
        ((parseGlue constDigit skip skipL fas t).plus.map fun d => scanDimen d.neg d.head d.unit)
        ((parseGlue constDigit skip skipL fas t).minus.map fun d => scanDimen d.neg d.head d.unit)
      = Spec.scanGlue
        (Spec.scanGlueWidth (parseGlue constDigit skip skipL fas t).width.neg (parseGlue constDigit skip skipL fas t).width.head
          (parseGlue constDigit skip skipL fas t).width.unit)
        ((parseGlue constDigit skip skipL fas t).plus.map fun d => Spec.scanDimen d.neg d.head d.unit)
        ((parseGlue constDigit skip skipL fas t).minus.map fun d => Spec.scanDimen d.neg d.head d.unit) := by
  rw [scanGlue_toSR]
  have hw : (scanGlueWidth (parseGlue constDigit skip skipL fas t).width.neg (parseGlue constDigit skip skipL fas t).width.head
      (parseGlue constDigit skip skipL fas t).width.unit).toSR
      = Spec.scanGlueWidth (parseGlue constDigit skip skipL fas t).width.neg (parseGlue constDigit skip skipL fas t).width.head
        (parseGlue constDigit skip skipL fas t).width.unit := by
    simp only [parseGlue, parseDimen]
    exact scanGlueWidth_text _ _ _ (parseHead_wf fas _) (parseHead_kind _ fas _) (parseUnit_noNeg skip skipL false _ _ _)
  rw [hw]
  have hp : ∀ (o : Option PDimen), (∀ d, o = some d → ∃ r, d = parseDimen constDigit skip skipL true fas r) →
      (o.map fun d => scanDimen d.neg d.head d.unit).map SRes.toSR
        = o.map fun d => Spec.scanDimen d.neg d.head d.unit := by
    intro o ho
    cases o with
    | none => rfl
    | some d =>
      obtain ⟨r, rfl⟩ := ho d rfl
      simp only [Option.map_some]
      rw [scanDimen_text skip skipL true fas r]
  have hplus : ∀ d, (parseGlue constDigit skip skipL fas t).plus = some d → ∃ r, d = parseDimen constDigit skip skipL true fas r := by
    intro d hd
    simp only [parseGlue] at hd
    split at hd
    · simp only [Option.some.injEq] at hd; exact ⟨_, hd.symm⟩
    · simp at hd
  have hminus : ∀ d, (parseGlue constDigit skip skipL fas t).minus = some d → ∃ r, d = parseDimen constDigit skip skipL true fas r := by
    intro d hd
    simp only [parseGlue] at hd
    split at hd
    · simp only [Option.some.injEq] at hd; exact ⟨_, hd.symm⟩
    · simp at hd
  rw [hp _ hplus, hp _ hminus]

/-! ## what `\\the` writes is cut back into its parts -/

theorem digit_cases (d : Nat) (h : d < 10) :
    d = 0 ∨ d = 1 ∨ d = 2 ∨ d = 3 ∨ d = 4 ∨ d = 5 ∨ d = 6 ∨ d = 7 ∨ d = 8 ∨ d = 9 := by omega

/-- Everything the scanner asks about a digit character. -/
theorem digitChar_facts (d : Nat) (h : d < 10) :
    constDigit 10 (digitChar d) false = some d ∧ decDigit 10 (digitChar d) false = some d ∧
    (digitChar d).isDigit = true ∧ digitChar d ≠ '+' ∧ digitChar d ≠ '-' ∧ digitChar d ≠ '.' ∧
    digitChar d ≠ ',' ∧ digitChar d ≠ '"' ∧ digitChar d ≠ '\'' := by
  rcases digit_cases d h with rfl | rfl | rfl | rfl | rfl | rfl | rfl | rfl | rfl | rfl <;> decide

theorem takeDigits_digits (dg : DigitFn) (radix : Int) (ds : List Nat) (rest : List Tok)
    (hd : ∀ d ∈ ds, dg radix (digitChar d) false = some d)
    (hr : (takeDigits dg radix rest).1 = [] ∧ (takeDigits dg radix rest).2 = rest) :
    takeDigits dg radix (ds.map digitTok ++ rest) = (ds, rest) := by
  induction ds with
  | nil => simp only [List.map_nil, List.nil_append]; exact Prod.ext hr.1 hr.2
  | cons d ds ih =>
    have := ih (fun x hx => hd x (by simp [hx]))
    have e : digitTok d = .ch (digitChar d) false := rfl
    simp only [List.map_cons, List.cons_append]
    rw [e]
    simp only [takeDigits, hd d (by simp), this]

theorem dec5_lt (n : Nat) (h : n < 100000) : ∀ d ∈ dec5 n, d < 10 := by
  intro d hd
  unfold dec5 at hd
  split at hd
  · simp at hd; omega
  split at hd
  · simp at hd; omega
  split at hd
  · simp at hd; omega
  split at hd
  · simp at hd; omega
  · simp at hd; omega

theorem dec5_ne_nil (n : Nat) : dec5 n ≠ [] := by
  unfold dec5; repeat' split
  all_goals simp


/-- `parseHead` on `<decimal digits>.<fraction digits><letter…>`. -/
theorem parseHead_rendered (ip : List Nat) (frac : List Nat) (c : Char) (U : List Tok)
    (hip : ∀ d ∈ ip, d < 10) (hne : ip ≠ []) (hfr : ∀ d ∈ frac, d < 10) :
    parseHead constDigit false (ip.map digitTok ++ [.ch '.' false] ++ frac.map digitTok ++ .ch c true :: U)
      = (.const 10 ip (some frac), .ch c true :: U) := by
  cases ip with
  | nil => exact absurd rfl hne
  | cons d0 ds =>
    have hd0 := digitChar_facts d0 (hip d0 (by simp))
    obtain ⟨f1, f2, f3, f4, f5, f6, f7, f8, f9⟩ := hd0
    -- the integer part
    have hrest : (takeDigits constDigit 10 (Tok.ch '.' false :: (frac.map digitTok ++ .ch c true :: U))).1 = [] ∧
        (takeDigits constDigit 10 (Tok.ch '.' false :: (frac.map digitTok ++ .ch c true :: U))).2
          = Tok.ch '.' false :: (frac.map digitTok ++ .ch c true :: U) := by
      have : constDigit 10 '.' false = none := by decide
      simp [takeDigits, this]
    have hint := takeDigits_digits constDigit 10 (d0 :: ds)
      (Tok.ch '.' false :: (frac.map digitTok ++ .ch c true :: U))
      (fun d hd => (digitChar_facts d (hip d hd)).1) hrest
    -- the fraction
    have hfrest : (takeDigits decDigit 10 (Tok.ch c true :: U)).1 = [] ∧
        (takeDigits decDigit 10 (Tok.ch c true :: U)).2 = Tok.ch c true :: U := by
      have : decDigit 10 c true = none := by simp [decDigit]
      simp [takeDigits, this]
    have hfrac := takeDigits_digits decDigit 10 frac (Tok.ch c true :: U)
      (fun d hd => (digitChar_facts d (hfr d hd)).2.1) hfrest
    have e0 : digitTok d0 = .ch (digitChar d0) false := rfl
    have shape : (d0 :: ds).map digitTok ++ [Tok.ch '.' false] ++ frac.map digitTok ++ Tok.ch c true :: U
        = Tok.ch (digitChar d0) false :: (ds.map digitTok ++ Tok.ch '.' false :: (frac.map digitTok ++ Tok.ch c true :: U)) := by
      simp [e0]
    have hint' : takeDigits constDigit 10
        (Tok.ch (digitChar d0) false :: (ds.map digitTok ++ Tok.ch '.' false :: (frac.map digitTok ++ Tok.ch c true :: U)))
        = (d0 :: ds, Tok.ch '.' false :: (frac.map digitTok ++ Tok.ch c true :: U)) := by
      have := hint
      simp only [List.map_cons, List.cons_append, e0] at this
      exact this
    rw [shape]
    simp only [parseHead]
    rw [if_neg (by simp [f6, f7]), if_neg f8, if_neg f9, if_pos f3, hint']
    simp only [optSpace, isPoint, fraction, hfrac]
    simp


theorem signs_digit (d : Nat) (h : d < 10) (t : List Tok) :
    signs (Tok.ch (digitChar d) false :: t) = (false, Tok.ch (digitChar d) false :: t) := by
  obtain ⟨_, _, _, f4, f5, _⟩ := digitChar_facts d h
  simp [signs, f4, f5]

theorem signs_minus (t : List Tok) :
    signs (Tok.ch '-' false :: t) = (!(signs t).1, (signs t).2) := by
  have h1 : ('-' : Char) ≠ '+' := by decide
  rw [signs]; simp [h1]

theorem parseUnit_unitToks (skip skipL gl : Bool) (k : Nat) (hk : k ≤ 3) (hg : gl = true ∨ k = 0) :
    parseUnit skip skipL gl (unitToks k) = (unitOfOrder k, []) := by
  have : k = 0 ∨ k = 1 ∨ k = 2 ∨ k = 3 := by omega
  rcases this with rfl | rfl | rfl | rfl
  · cases gl <;> cases skip <;> cases skipL <;> decide
  · rcases hg with rfl | h
    · cases skip <;> cases skipL <;> decide
    · omega
  · rcases hg with rfl | h
    · cases skip <;> cases skipL <;> decide
    · omega
  · rcases hg with rfl | h
    · cases skip <;> cases skipL <;> decide
    · omega

theorem unitToks_letter (k : Nat) : ∃ c U, unitToks k = Tok.ch c true :: U := by
  cases k with
  | zero => exact ⟨_, _, rfl⟩
  | succ k => exact ⟨_, _, rfl⟩

/-- What `\the` writes for a legal dimension (or one glue component), followed by its unit, is
cut by the scanner into exactly the printed parts, with nothing left over. -/
theorem parseDimen_rendered (skip skipL : Bool) (s : Int) (h : -maxDimen ≤ s ∧ s ≤ maxDimen) (gl : Bool) (k : Nat) (hk : k ≤ 3)
    (hg : gl = true ∨ k = 0) :
    parseDimen constDigit skip skipL gl false (renderToks (Spec.printScaled s) ++ unitToks k)
      = { neg := (Spec.printScaled s).neg,
          head := .const 10 (dec5 (Spec.printScaled s).ip) (some (Spec.printScaled s).frac),
          unit := unitOfOrder k, rest := [] } := by
  have hipb := printed_ip_small s h
  have hdig := dec5_lt (Spec.printScaled s).ip (by omega)
  have hne := dec5_ne_nil (Spec.printScaled s).ip
  have hfr : ∀ d ∈ (Spec.printScaled s).frac, d < 10 := by
    obtain ⟨p, _, h2, _, _, h5, _⟩ := print_scan_core s h
    subst h2; exact h5
  obtain ⟨c, U, hU⟩ := unitToks_letter k
  have hhead := parseHead_rendered (dec5 (Spec.printScaled s).ip) (Spec.printScaled s).frac c U hdig hne hfr
  have hunit := parseUnit_unitToks skip skipL gl k hk hg
  rw [hU] at hunit
  -- the signs
  obtain ⟨d0, ds, hd⟩ : ∃ d0 ds, dec5 (Spec.printScaled s).ip = d0 :: ds := by
    cases hq : dec5 (Spec.printScaled s).ip with
    | nil => exact absurd hq hne
    | cons a b => exact ⟨a, b, rfl⟩
  have hd0 : d0 < 10 := hdig d0 (by rw [hd]; simp)
  have e0 : digitTok d0 = .ch (digitChar d0) false := rfl
  have body : (dec5 (Spec.printScaled s).ip).map digitTok ++ [Tok.ch '.' false]
        ++ (Spec.printScaled s).frac.map digitTok ++ Tok.ch c true :: U
      = Tok.ch (digitChar d0) false :: (ds.map digitTok ++ Tok.ch '.' false ::
          ((Spec.printScaled s).frac.map digitTok ++ Tok.ch c true :: U)) := by
    rw [hd]; simp [e0]
  have hs : signs (renderToks (Spec.printScaled s) ++ unitToks k)
      = ((Spec.printScaled s).neg, (dec5 (Spec.printScaled s).ip).map digitTok ++ [Tok.ch '.' false]
        ++ (Spec.printScaled s).frac.map digitTok ++ Tok.ch c true :: U) := by
    rw [hU, body]
    unfold renderToks
    cases (Spec.printScaled s).neg
    · simp only [Bool.false_eq_true, if_false, List.nil_append, List.append_assoc]
      rw [hd]
      simp only [List.map_cons, List.cons_append, e0, List.nil_append]
      exact signs_digit d0 hd0 _
    · simp only [if_true, List.append_assoc, List.cons_append, List.nil_append]
      rw [hd]
      simp only [List.map_cons, List.cons_append, e0]
      have := signs_digit d0 hd0 (ds.map digitTok ++ Tok.ch '.' false ::
          ((Spec.printScaled s).frac.map digitTok ++ Tok.ch c true :: U))
      rw [signs_minus, this]; rfl
  simp only [parseDimen, hs, hhead, hunit]



/-! ## a printed glue is cut back into its components -/

theorem kwStart_letter (skip : Bool) (c : Char) (l : Bool) (t : List Tok) :
    kwStart skip (.ch c l :: t) = .ch c l :: t := by
  cases skip <;> simp [kwStart, dropSpaces]

theorem kwStart_nil (skip : Bool) : kwStart skip [] = [] := by
  cases skip <;> simp [kwStart, dropSpaces]

/-- A unit followed by a blank and a letter that is not an `l`: the unit, and the text from that
letter on (with blank skipping the blank is eaten by the failing `l` test, otherwise by the
optional space). -/
theorem parseUnit_unitToks_tail (skip skipL gl : Bool) (k : Nat) (hk : k ≤ 3) (hg : gl = true ∨ k = 0)
    (c : Char) (hc : c ≠ 'l' ∧ c ≠ 'L') (X : List Tok) :
    parseUnit skip skipL gl (unitToks k ++ .space :: .ch c true :: X) = (unitOfOrder k, .ch c true :: X) := by
  obtain ⟨hc1, hc2⟩ := hc
  have : k = 0 ∨ k = 1 ∨ k = 2 ∨ k = 3 := by omega
  rcases this with rfl | rfl | rfl | rfl
  · cases gl <;> cases skip <;> cases skipL <;>
      simp [parseUnit, unitToks, keyword, firstUnit, physUnits, optSpace, unitOfOrder, kwStart, dropSpaces]
  · rcases hg with rfl | h
    · cases skip <;> cases skipL <;>
        simp [parseUnit, unitToks, keyword, countL, optSpace, unitOfOrder, kwStart, dropSpaces, hc1, hc2]
    · omega
  · rcases hg with rfl | h
    · cases skip <;> cases skipL <;>
        simp [parseUnit, unitToks, keyword, countL, optSpace, unitOfOrder, kwStart, dropSpaces, hc1, hc2]
    · omega
  · rcases hg with rfl | h
    · cases skip <;> cases skipL <;>
        simp [parseUnit, unitToks, keyword, countL, optSpace, unitOfOrder, kwStart, dropSpaces, hc1, hc2,
          List.replicate]
    · omega

theorem keyword_plus (X : List Tok) :
    keyword "plus".toList (.ch 'p' true :: .ch 'l' true :: .ch 'u' true :: .ch 's' true :: X) = some X := by
  simp [keyword]

theorem keyword_minus (X : List Tok) :
    keyword "minus".toList (.ch 'm' true :: .ch 'i' true :: .ch 'n' true :: .ch 'u' true :: .ch 's' true :: X) = some X := by
  simp [keyword]

theorem keyword_plus_minus (X : List Tok) :
    keyword "plus".toList (.ch 'm' true :: X) = none := by simp [keyword]

theorem keyword_nil (k : List Char) (h : k ≠ []) : keyword k [] = none := by
  cases k with
  | nil => exact absurd rfl h
  | cons a b => simp [keyword]


theorem parseDimen_space (dg : DigitFn) (skip skipL gl fas : Bool) (t : List Tok) :
    parseDimen dg skip skipL gl fas (.space :: t) = parseDimen dg skip skipL gl fas t := by
  simp only [parseDimen, signs]

/-- As `parseDimen_rendered`, with text following the unit. -/
theorem parseDimen_rendered_gen (skip skipL : Bool) (s : Int) (h : -maxDimen ≤ s ∧ s ≤ maxDimen) (gl : Bool) (k : Nat)
    (tl R : List Tok) (hunit : parseUnit skip skipL gl (unitToks k ++ tl) = (unitOfOrder k, R)) :
    parseDimen constDigit skip skipL gl false (renderToks (Spec.printScaled s) ++ unitToks k ++ tl)
      = { neg := (Spec.printScaled s).neg,
          head := .const 10 (dec5 (Spec.printScaled s).ip) (some (Spec.printScaled s).frac),
          unit := unitOfOrder k, rest := R } := by
  have hipb := printed_ip_small s h
  have hdig := dec5_lt (Spec.printScaled s).ip (by omega)
  have hne := dec5_ne_nil (Spec.printScaled s).ip
  have hfr : ∀ d ∈ (Spec.printScaled s).frac, d < 10 := by
    obtain ⟨p, _, h2, _, _, h5, _⟩ := print_scan_core s h
    subst h2; exact h5
  obtain ⟨c, U, hU⟩ := unitToks_letter k
  have hhead := parseHead_rendered (dec5 (Spec.printScaled s).ip) (Spec.printScaled s).frac c (U ++ tl) hdig hne hfr
  rw [hU] at hunit
  obtain ⟨d0, ds, hd⟩ : ∃ d0 ds, dec5 (Spec.printScaled s).ip = d0 :: ds := by
    cases hq : dec5 (Spec.printScaled s).ip with
    | nil => exact absurd hq hne
    | cons a b => exact ⟨a, b, rfl⟩
  have hd0 : d0 < 10 := hdig d0 (by rw [hd]; simp)
  have e0 : digitTok d0 = .ch (digitChar d0) false := rfl
  have hs : signs (renderToks (Spec.printScaled s) ++ unitToks k ++ tl)
      = ((Spec.printScaled s).neg, (dec5 (Spec.printScaled s).ip).map digitTok ++ [Tok.ch '.' false]
        ++ (Spec.printScaled s).frac.map digitTok ++ Tok.ch c true :: (U ++ tl)) := by
    rw [hU]
    unfold renderToks
    cases (Spec.printScaled s).neg
    · simp only [Bool.false_eq_true, if_false, List.append_assoc, List.cons_append]
      rw [hd]
      simp only [List.map_cons, List.cons_append, e0, List.nil_append]
      exact signs_digit d0 hd0 _
    · simp only [if_true, List.append_assoc, List.cons_append, List.nil_append]
      rw [hd]
      simp only [List.map_cons, List.cons_append, e0]
      have := signs_digit d0 hd0 (ds.map digitTok ++ Tok.ch '.' false ::
          ((Spec.printScaled s).frac.map digitTok ++ Tok.ch c true :: (U ++ tl)))
      rw [signs_minus, this]; rfl
  have hunit' : parseUnit skip skipL gl (Tok.ch c true :: (U ++ tl)) = (unitOfOrder k, R) := by
    simpa using hunit
  simp only [parseDimen, hs, hhead, hunit']


/-- The parse of one printed component. -/
def PD (s : Int) (k : Nat) (R : List Tok) : PDimen :=
  { neg := (Spec.printScaled s).neg,
    head := .const 10 (dec5 (Spec.printScaled s).ip) (some (Spec.printScaled s).frac),
    unit := unitOfOrder k, rest := R }

def minusTail (g : Glue) : List Tok :=
  .ch 'm' true :: .ch 'i' true :: .ch 'n' true :: .ch 'u' true :: .ch 's' true :: .space ::
    (renderToks (Spec.printScaled g.shrink) ++ unitToks g.shrinkOrder)

def plusTail (g : Glue) (rest : List Tok) : List Tok :=
  .ch 'p' true :: .ch 'l' true :: .ch 'u' true :: .ch 's' true :: .space ::
    (renderToks (Spec.printScaled g.stretch) ++ unitToks g.stretchOrder ++ rest)

/-- What `Display for Glue` / `\\the\\skip` writes is cut by `Glue::parse_impl` into exactly the
printed components, with nothing left over. -/
theorem parseGlue_rendered (skip skipL : Bool) (g : Glue)
    (hw : -maxDimen ≤ g.width ∧ g.width ≤ maxDimen) (hst : -maxDimen ≤ g.stretch ∧ g.stretch ≤ maxDimen)
    (hsh : -maxDimen ≤ g.shrink ∧ g.shrink ≤ maxDimen) (ho1 : g.stretchOrder ≤ 3) (ho2 : g.shrinkOrder ≤ 3) :
    ∃ Rw Rp Rm, parseGlue constDigit skip skipL false (renderGlueToks g)
      = { width := PD g.width 0 Rw,
          plus := if g.stretch = 0 then none else some (PD g.stretch g.stretchOrder Rp),
          minus := if g.shrink = 0 then none else some (PD g.shrink g.shrinkOrder Rm),
          rest := [] } := by
  have kn : keyword "plus".toList ([] : List Tok) = none := keyword_nil _ (by decide)
  have kn2 : keyword "minus".toList ([] : List Tok) = none := keyword_nil _ (by decide)
  have ksm : kwStart skip (minusTail g) = minusTail g := kwStart_letter skip _ _ _
  have ksp : ∀ rest, kwStart skip (plusTail g rest) = plusTail g rest := fun rest => kwStart_letter skip _ _ _
  have ks0 : kwStart skip ([] : List Tok) = [] := kwStart_nil skip
  have kpm : keyword "plus".toList (minusTail g) = none := keyword_plus_minus _
  have km : keyword "minus".toList (minusTail g)
      = some (.space :: (renderToks (Spec.printScaled g.shrink) ++ unitToks g.shrinkOrder)) := keyword_minus _
  have kp : ∀ rest, keyword "plus".toList (plusTail g rest)
      = some (.space :: (renderToks (Spec.printScaled g.stretch) ++ unitToks g.stretchOrder ++ rest)) :=
    fun rest => keyword_plus _
  have hsd := parseDimen_rendered skip skipL g.shrink hsh true g.shrinkOrder ho2 (Or.inl rfl)
  have tailM : ∀ gl k (hk : k ≤ 3) (hg : gl = true ∨ k = 0),
      parseUnit skip skipL gl (unitToks k ++ .space :: minusTail g) = (unitOfOrder k, minusTail g) :=
    fun gl k hk hg => parseUnit_unitToks_tail skip skipL gl k hk hg 'm' (by decide) _
  have tailP : ∀ rest gl k (hk : k ≤ 3) (hg : gl = true ∨ k = 0),
      parseUnit skip skipL gl (unitToks k ++ .space :: plusTail g rest) = (unitOfOrder k, plusTail g rest) :=
    fun rest gl k hk hg => parseUnit_unitToks_tail skip skipL gl k hk hg 'p' (by decide) _
  by_cases h1 : g.stretch = 0
  · by_cases h2 : g.shrink = 0
    · have e : renderGlueToks g = renderToks (Spec.printScaled g.width) ++ unitToks 0 := by
        simp [renderGlueToks, h1, h2]
      have hwd := parseDimen_rendered skip skipL g.width hw false 0 (by omega) (Or.inr rfl)
      refine ⟨[], [], [], ?_⟩
      rw [e]
      simp only [parseGlue, hwd, ks0, kn, kn2, PD, h1, h2, if_true]
    · have e : renderGlueToks g = renderToks (Spec.printScaled g.width) ++ unitToks 0 ++ (.space :: minusTail g) := by
        simp [renderGlueToks, minusTail, h1, h2, List.append_assoc]
      have hwd := parseDimen_rendered_gen skip skipL g.width hw false 0 (.space :: minusTail g) (minusTail g)
        (tailM false 0 (by omega) (Or.inr rfl))
      refine ⟨minusTail g, [], [], ?_⟩
      rw [e]
      simp only [parseGlue, hwd, ksm, kpm, km, parseDimen_space, hsd, PD, h1, h2, if_true, if_false, ks0, kn2]
  · have hpd0 := parseDimen_rendered skip skipL g.stretch hst true g.stretchOrder ho1 (Or.inl rfl)
    by_cases h2 : g.shrink = 0
    · have e : renderGlueToks g = renderToks (Spec.printScaled g.width) ++ unitToks 0 ++ (.space :: plusTail g []) := by
        simp [renderGlueToks, plusTail, h1, h2, List.append_assoc]
      have hwd := parseDimen_rendered_gen skip skipL g.width hw false 0 (.space :: plusTail g []) (plusTail g [])
        (tailP [] false 0 (by omega) (Or.inr rfl))
      refine ⟨plusTail g [], [], [], ?_⟩
      rw [e]
      simp only [parseGlue, hwd, ksp, kp, parseDimen_space, List.append_nil, hpd0, PD, h1, h2, if_true, if_false,
        ks0, kn2]
    · have e : renderGlueToks g = renderToks (Spec.printScaled g.width) ++ unitToks 0 ++
          (.space :: plusTail g (.space :: minusTail g)) := by
        simp [renderGlueToks, plusTail, minusTail, h1, h2, List.append_assoc]
      have hwd := parseDimen_rendered_gen skip skipL g.width hw false 0 (.space :: plusTail g (.space :: minusTail g))
        (plusTail g (.space :: minusTail g)) (tailP _ false 0 (by omega) (Or.inr rfl))
      have hpd := parseDimen_rendered_gen skip skipL g.stretch hst true g.stretchOrder (.space :: minusTail g) (minusTail g)
        (tailM true g.stretchOrder ho1 (Or.inl rfl))
      refine ⟨plusTail g (.space :: minusTail g), minusTail g, [], ?_⟩
      rw [e]
      simp only [parseGlue, hwd, ksp, kp, parseDimen_space, hpd, ksm, km, hsd, PD, h1, h2, if_false, ks0]

end C06
