import TexcraftModel.Lemmas.C04AlgoDefs

/-!
`monotone x = true` unpacked into its specification, and `lineWidth` only depends on the
line class `lkey`. Core Lean only.
-/
namespace C04

/-- The fold of `monotone`: if it ends with `ok`, "overfull" is upward closed along the list. -/
theorem mono_fold (o : Nat → Bool) : ∀ (l : List Nat) (ok seen : Bool),
    (l.foldl (fun (st : Bool × Bool) b => (st.1 && (!st.2 || o b), st.2 || o b)) (ok, seen)).1 = true →
    ok = true ∧ (seen = true → ∀ b ∈ l, o b = true) ∧
      l.Pairwise (fun b b' => o b = true → o b' = true) := by
  intro l
  induction l with
  | nil =>
    intro ok seen h
    refine ⟨by simpa using h, ?_, List.Pairwise.nil⟩
    intro _ b hb
    cases hb
  | cons c t ih =>
    intro ok seen h
    rw [List.foldl_cons] at h
    obtain ⟨h1, h2, h3⟩ := ih _ _ h
    simp only [Bool.and_eq_true, Bool.or_eq_true, Bool.not_eq_true'] at h1 h2
    refine ⟨h1.1, ?_, ?_⟩
    · intro hs b hb
      rcases List.mem_cons.mp hb with rfl | hbt
      · rcases h1.2 with h' | h'
        · rw [hs] at h'; cases h'
        · exact h'
      · exact h2 (Or.inl hs) b hbt
    · refine List.Pairwise.cons ?_ h3
      intro b' hb' hc
      exact h2 (Or.inr hc) b' hb'

theorem mono_pairwise_lt {R : Nat → Nat → Prop} : ∀ (l : List Nat),
    l.Pairwise R → l.Pairwise (· < ·) → ∀ b b', b ∈ l → b' ∈ l → b < b' → R b b' := by
  intro l
  induction l with
  | nil => intro _ _ b b' hb; cases hb
  | cons c t ih =>
    intro hR hlt b b' hb hb' hbb
    rw [List.pairwise_cons] at hR hlt
    rcases List.mem_cons.mp hb with rfl | hbt
    · rcases List.mem_cons.mp hb' with rfl | hbt'
      · exact absurd hbb (Nat.lt_irrefl _)
      · exact hR.1 b' hbt'
    · rcases List.mem_cons.mp hb' with rfl | hbt'
      · exact absurd (hlt.1 b hbt) (Nat.lt_asymm hbb)
      · exact ih hR.2 hlt.2 b b' hbt hbt' hbb

theorem mono_legalBreaks_lt (x : Inst) : (legalBreaks x).Pairwise (· < ·) := by
  unfold legalBreaks
  exact List.Pairwise.filter _ List.pairwise_lt_range

theorem mono_mem_legalBreaks (x : Inst) (b : Nat) :
    b ∈ legalBreaks x ↔ b ≤ x.n ∧ (breakInfo x b).isSome = true := by
  unfold legalBreaks
  rw [List.mem_filter, List.mem_range]
  constructor
  · intro h; exact ⟨by omega, h.2⟩
  · intro h; exact ⟨by omega, h.2⟩

theorem mono_lt_trans (a : Option Nat) (b b' : Nat) (hab : lt? a b = true) (hbb : b < b') :
    lt? a b' = true := by
  cases a with
  | none => rfl
  | some a0 =>
    simp only [lt?, decide_eq_true_eq] at hab ⊢
    omega

theorem monotone_spec (x : Inst) (hm : monotone x = true) (a : Option Nat) (L b b' : Nat)
    (ha : a = none ∨ ∃ a0, a = some a0 ∧ a0 ≤ x.n ∧ (breakInfo x a0).isSome)
    (hL : L < x.p.widths.length)
    (hb : (breakInfo x b).isSome) (hb' : (breakInfo x b').isSome) (hbn' : b' ≤ x.n)
    (hab : lt? a b = true) (hbb : b < b') (ho : overfull x a L b = true) :
    overfull x a L b' = true := by
  unfold monotone at hm
  simp only [List.all_eq_true] at hm
  have hmem : a ∈ (none : Option Nat) :: (legalBreaks x).map some := by
    rcases ha with rfl | ⟨a0, rfl, h1, h2⟩
    · exact List.mem_cons_self
    · exact List.mem_cons_of_mem _
        (List.mem_map.mpr ⟨a0, (mono_mem_legalBreaks x a0).mpr ⟨h1, h2⟩, rfl⟩)
  have hfold := hm a hmem L (List.mem_range.mpr hL)
  obtain ⟨_, _, hpw⟩ := mono_fold (fun b => overfull x a L b) _ _ _ hfold
  have hlt : ((legalBreaks x).filter (lt? a)).Pairwise (· < ·) :=
    List.Pairwise.filter _ (mono_legalBreaks_lt x)
  have hbm : b ∈ (legalBreaks x).filter (lt? a) :=
    List.mem_filter.mpr ⟨(mono_mem_legalBreaks x b).mpr ⟨by omega, hb⟩, hab⟩
  have hbm' : b' ∈ (legalBreaks x).filter (lt? a) :=
    List.mem_filter.mpr ⟨(mono_mem_legalBreaks x b').mpr ⟨hbn', hb'⟩, mono_lt_trans a b b' hab hbb⟩
  exact mono_pairwise_lt _ hpw hlt b b' hbm hbm' hbb ho

theorem lineWidth_lkey (x : Inst) (L : Nat) (hW : 0 < x.p.widths.length) :
    lineWidth x.p.widths L = lineWidth x.p.widths (lkey x L) := by
  unfold lkey
  by_cases h : L < x.p.widths.length
  · have : min L (x.p.widths.length - 1) = L := by rw [Nat.min_def]; split <;> omega
    rw [this]
  · have hmin : min L (x.p.widths.length - 1) = x.p.widths.length - 1 := by
      rw [Nat.min_def]; split <;> omega
    rw [hmin]
    unfold lineWidth
    have h1 : x.p.widths[L]? = none := List.getElem?_eq_none (by omega)
    have h2 : x.p.widths[x.p.widths.length - 1]? =
        some (x.p.widths[x.p.widths.length - 1]'(by omega)) :=
      List.getElem?_eq_getElem (by omega)
    rw [h1, h2, List.getLast?_eq_getElem?, h2]
    rfl

end C04
