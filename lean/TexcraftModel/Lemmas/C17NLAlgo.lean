import TexcraftModel.Lemmas.C17NLFinal
import TexcraftModel.Lemmas.C17NLLayout
/-! Assembly of `next_larger_algo` (C17): the transcription of `NextLargerProgram::new`/`get`
equals the cut-graph specification. -/
namespace C17

theorem length_le_256 (l : List Nat) (hn : l.Nodup) (hb : ∀ x ∈ l, x < 256) : l.length ≤ 256 := by
  have hsub : l ⊆ List.range 256 := fun x hx => List.mem_range.2 (hb x hx)
  have := hn.length_le_of_subset hsub
  simpa using this

theorem getIter_none (nl : List (Nat × Nat)) (n : Nat) : getIter nl (n + 1) none = [] := rfl

theorem chainS_none (s : Nat → Option Nat) (n c : Nat) (h : s c = none) : chainS s (n + 1) c = [] := by
  simp only [chainS, h]

theorem chainS_some (s : Nat → Option Nat) (n c d : Nat) (h : s c = some d) :
    chainS s (n + 1) c = d :: chainS s n d := by
  simp only [chainS, h]

/-- The array layout for a functional map `g` whose links all go from later to earlier
elements of the duplicate-free list `ord` of characters. -/
theorem layout_correct (g : List (Nat × Nat)) (ord : List Nat) (hG : Functional g) (hN : ord.Nodup)
    (hE : ∀ y x, nxt g y = some x → y ∈ ord ∧ x ∈ ord ∧ ord.idxOf x < ord.idxOf y)
    (hLab : ∀ x ∈ ord, x < 256) :
    ∃ arr pos entry, buildArr g (g.map Prod.snd) ord [] [] = .ok arr ∧
      posOf 0 arr.reverse [] = .ok pos ∧ buildEntry g pos ord [] = .ok entry ∧
      ∀ c, progGet ⟨entry, arr.reverse⟩ c = chainS (nxt g) 257 c := by
  let p : Nat → Bool := fun c => (g.map Prod.snd).contains c
  have hP : ∀ y x, nxt g y = some x → p x = true := by
    intro y x h
    simp only [p, List.contains_iff_mem]
    exact List.mem_map.2 ⟨(y, x), mem_of_nxt g y x h, rfl⟩
  have hPinv : ∀ x, p x = true → ∃ y, nxt g y = some x := by
    intro x h
    simp only [p, List.contains_iff_mem] at h
    obtain ⟨e, he, hx⟩ := List.mem_map.1 h
    exact ⟨e.1, by rw [← hx]; exact nxt_of_mem g hG e.1 e.2 he⟩
  -- at most 255 parents
  have hK : (ord.filter p).length ≤ 255 := by
    have hlen := length_le_256 ord hN hLab
    rcases List.eq_nil_or_concat ord with h | ⟨init, z, h⟩
    · rw [h]; simp
    · rw [List.concat_eq_append] at h
      have hz : z ∉ init := by
        rw [h] at hN
        intro hm
        exact (List.nodup_append.1 hN).2.2 z hm z (by simp) rfl
      have hpz : p z = false := by
        cases hpz : p z with
        | false => rfl
        | true =>
          obtain ⟨y, hy⟩ := hPinv z hpz
          obtain ⟨hyo, _, hlt⟩ := hE y z hy
          have h1 : ord.idxOf z = init.length := by rw [h]; exact idxOf_mid init [] z hz
          have h2 : ord.idxOf y < ord.length := List.idxOf_lt_length_iff.2 hyo
          rw [h] at h2
          simp only [List.length_append, List.length_singleton] at h2
          rw [h] at hlt h1
          omega
      have : ord.filter p = init.filter p := by
        rw [h, List.filter_append]; simp [hpz]
      rw [this]
      have := List.length_filter_le p init
      rw [h] at hlen
      simp only [List.length_append, List.length_singleton] at hlen
      omega
  obtain ⟨arr, harr, hkeys, hoff⟩ := buildArr_spec g (g.map Prod.snd) ord p (fun _ => rfl) hN
    (fun y x h => ⟨(hE y x h).2.1, (hE y x h).2.2⟩) hP hK ord [] [] [] (by simp) (by simp)
    (by intro c hc; simp at hc) (by intro k c o h; simp at h)
  have hKn : (ord.filter p).Nodup := hN.sublist List.filter_sublist
  have hlenA : arr.length = (ord.filter p).length := by rw [← hkeys]; simp
  have hrevkeys : arr.reverse.map Prod.fst = (ord.filter p).reverse := by
    rw [List.map_reverse, hkeys]
  obtain ⟨pos, hpos, hposspec⟩ := posOf_spec arr.reverse 0 [] (by simp; omega)
    (by rw [hrevkeys]; exact nodup_reverse _ hKn)
  have hposK : ∀ c ∈ ord.filter p, nxt pos c = some ((ord.filter p).length - 1 - (ord.filter p).idxOf c) := by
    intro c hc
    have := hposspec c (by rw [hrevkeys]; exact List.mem_reverse.2 hc)
    rw [this, hrevkeys, idxOf_reverse _ hKn c hc]
    simp
  obtain ⟨entry, hentry, hentryspec⟩ := buildEntry_spec g pos ord [] hN (by intro c _; rfl)
    (by
      intro c _ par hpar
      exact ⟨_, hposK par (List.mem_filter.2 ⟨(hE c par hpar).2.1, hP c par hpar⟩)⟩)
  refine ⟨arr, pos, entry, harr, hpos, hentry, ?_⟩
  intro c
  simp only [progGet]
  rw [hentryspec c]
  cases hn : nxt g c with
  | none =>
    have : (if c ∈ ord then (none : Option Nat).bind (nxt pos) else nxt [] c) = none := by
      split
      · rfl
      · rfl
    rw [this]
    have e257 : (257 : Nat) = 256 + 1 := rfl
    rw [e257, getIter_none, chainS_none _ _ _ hn]
  | some par =>
    obtain ⟨hco, hpo, _⟩ := hE c par hn
    have hpK : par ∈ ord.filter p := List.mem_filter.2 ⟨hpo, hP c par hn⟩
    simp only [hco, if_true, Option.bind_some, hposK par hpK]
    have e257 : (257 : Nat) = 256 + 1 := rfl
    rw [e257, getIter_spec g (ord.filter p) arr hkeys hK hoff 256 par hpK, chainS_some _ _ _ _ hn]

/-- **The transcription equals the specification.** -/
theorem nlCompile_correct (G0 : List (Nat × Nat)) (hF : Functional G0)
    (hLab : ∀ e ∈ G0, e.1 < 256 ∧ e.2 < 256) (order : List Nat) (hnd : order.Nodup)
    (hmem : ∀ x, x ∈ order ↔ IsNode G0 x) :
    ∃ prog, nlCompile G0 order = .ok (prog, nlLoops G0 255) ∧ ∀ c, progGet prog c = nlGet G0 c := by
  obtain ⟨hI0, hm0⟩ := inv_init G0 hF order hnd hmem
  obtain ⟨σ, hrun, hI, hl, hn⟩ := wl_run hF (2 * order.length + 2) (wlInit G0 order) hI0 hm0
  have hnodeLab : ∀ x, IsNode G0 x → x < 256 := by
    rintro x ⟨e, he, h | h⟩
    · rw [← h]; exact (hLab e he).1
    · rw [← h]; exact (hLab e he).2
  have hsorted : ∀ x, IsNode G0 x → x ∈ σ.sorted := by
    intro x hx
    rcases (hI.cover x).1 hx with h | h | h
    · exact h
    · rw [hl] at h; simp at h
    · rw [hn] at h; simp at h
  have hE : ∀ y x, nxt σ.g y = some x → y ∈ σ.sorted ∧ x ∈ σ.sorted ∧ σ.sorted.idxOf x < σ.sorted.idxOf y := by
    intro y x h
    have h0 : nxt G0 y = some x := cutNxt_sub G0 y x (by rw [← final_graph hI hl hn y]; exact h)
    have hx := hsorted x (isNode_of_nxt G0 y x h0).2
    exact ⟨hsorted y (isNode_of_nxt G0 y x h0).1, hx, (hI.topo y x h hx).2⟩
  obtain ⟨arr, pos, entry, h1, h2, h3, h4⟩ := layout_correct σ.g σ.sorted hI.gfun hI.ndS hE
    (fun x hx => hnodeLab x ((hI.cover x).2 (Or.inl hx)))
  refine ⟨⟨entry, arr.reverse⟩, ?_, ?_⟩
  · simp only [nlCompile, hrun, h1, h2, h3]
    rw [final_loops hI hl hn hnodeLab]
  · intro c
    rw [h4 c, chainS_congr (nxt σ.g) (cutNxt G0) (final_graph hI hl hn) 257 c, ← chain_eq_chainS]
    have hlen : G0.length ≤ 256 := by
      have := length_le_256 (G0.map Prod.fst) hF (by
        intro x hx
        obtain ⟨e, he, rfl⟩ := List.mem_map.1 hx
        exact (hLab e he).1)
      simpa using this
    have e : 257 = G0.length + 1 + (256 - G0.length) := by omega
    rw [e, chain_fuel]
    rfl

/-! ### The first loop keeps a functional graph functional -/

theorem nlEdges_sub (exist : Nat → Bool) (dropNE : Bool) : ∀ (es g w : List (Nat × Nat)),
    ∀ e ∈ (nlEdges exist dropNE es g w).1, e ∈ es ∨ e ∈ g := by
  intro es
  induction es with
  | nil => intro g w e he; exact Or.inr he
  | cons a t ih =>
    intro g w e he
    obtain ⟨s, l⟩ := a
    simp only [nlEdges] at he
    split at he
    · split at he
      · rcases ih g _ e he with h | h
        · exact Or.inl (List.mem_cons_of_mem _ h)
        · exact Or.inr h
      · rcases ih _ _ e he with h | h
        · exact Or.inl (List.mem_cons_of_mem _ h)
        · rcases List.mem_cons.1 h with h | h
          · exact Or.inl (by rw [h]; simp)
          · exact Or.inr h
    · rcases ih _ _ e he with h | h
      · exact Or.inl (List.mem_cons_of_mem _ h)
      · rcases List.mem_cons.1 h with h | h
        · exact Or.inl (by rw [h]; simp)
        · exact Or.inr h

theorem nlEdges_functional (exist : Nat → Bool) (dropNE : Bool) : ∀ (es g w : List (Nat × Nat)),
    (es.map Prod.fst).Nodup → Functional g → (∀ a ∈ es.map Prod.fst, a ∉ g.map Prod.fst) →
    Functional (nlEdges exist dropNE es g w).1 := by
  intro es
  induction es with
  | nil => intro g w _ hg _; exact hg
  | cons a t ih =>
    intro g w hn hg hd
    obtain ⟨s, l⟩ := a
    simp only [List.map_cons, List.nodup_cons] at hn
    have hcons : Functional ((s, l) :: g) := by
      simp only [Functional, List.map_cons, List.nodup_cons]
      exact ⟨hd s (by simp), hg⟩
    have hd' : ∀ a ∈ t.map Prod.fst, a ∉ g.map Prod.fst := fun a ha => hd a (by simp [ha])
    have hd'' : ∀ a ∈ t.map Prod.fst, a ∉ ((s, l) :: g).map Prod.fst := by
      intro a ha hm
      simp only [List.map_cons, List.mem_cons] at hm
      rcases hm with h | h
      · exact hn.1 (h ▸ ha)
      · exact hd' a ha h
    simp only [nlEdges]
    split
    · split
      · exact ih g _ hn.2 hg hd'
      · exact ih _ _ hn.2 hcons hd''
    · exact ih _ _ hn.2 hcons hd''

end C17
