import TexcraftModel.Lemmas.C17Text
/-! Assembly of `fix_print_parse` (C17). -/
namespace C17

theorem showInt_nat (n : Nat) : showInt (n : Int) = Nat.toDigits 10 n := by
  have : ¬ ((n : Int) < 0) := by omega
  simp [showInt, this]

/-- The printed text in terms of `w = |v|`. -/
theorem printFix_eq (v : Int) :
    printFix v = (if v < 0 then ['-'] else []) ++ (Nat.toDigits 10 (v.natAbs / 1048576) ++
      '.' :: ((fracDigits FRAC_FUEL (10 * ((v.natAbs % 1048576 : Nat) : Int) + 5) 10).map showInt).flatten) := by
  have e1 : (Int.tdiv v 1048576).natAbs = v.natAbs / 1048576 := by
    rw [Int.natAbs_tdiv]; rfl
  have e2 : (Int.tmod v 1048576).natAbs = v.natAbs % 1048576 := by
    rw [Int.natAbs_tmod]; rfl
  simp only [printFix, e1, e2, showInt_nat, List.append_assoc, List.singleton_append]

theorem parse_unsigned_text (w : Nat) (hw : w < 2147483648) (neg : Bool) (s : List Char)
    (hs : s = Nat.toDigits 10 (w / 1048576) ++
      '.' :: ((fracDigits FRAC_FUEL (10 * ((w % 1048576 : Nat) : Int) + 5) 10).map showInt).flatten) :
    (let (ip, s3) := readInt s 0
     let fp : Int := match s3 with
       | '.' :: s4 => fracValue (readFracDigits 7 s4).1
       | _ => 0
     if ip ≥ 2048 ∨ (fp ≥ 1048576 ∧ ip = 2047) then
       (⟨if ip = 2047 then 1048576 else 0, .tooBig⟩ : Parsed)
     else
       let m := ip * 1048576 + fp
       ⟨if neg then -m else m, .none⟩) = ⟨if neg then -(w : Int) else (w : Int), .none⟩ := by
  obtain ⟨c, t, _, _, h3, h4⟩ := read_unsigned (w / 1048576) (by omega)
    ((w % 1048576 : Nat) : Int) (by omega) (by omega)
  subst hs
  rw [h3]
  simp only [h4]
  have h5 : ¬ (((w / 1048576 : Nat) : Int) ≥ 2048 ∨
      (((w % 1048576 : Nat) : Int) ≥ 1048576 ∧ ((w / 1048576 : Nat) : Int) = 2047)) := by omega
  simp only [h5, if_false]
  have h6 : ((w / 1048576 : Nat) : Int) * 1048576 + ((w % 1048576 : Nat) : Int) = (w : Int) := by omega
  rw [h6]

end C17
