import TexcraftModel.Lemmas.C17Text
/-! Assembly of `fix_print_parse` (C17). -/
namespace C17

theorem showInt_nat (n : Nat) : showInt (n : Int) = Nat.toDigits 10 n := by
  have : ¬ ((n : Int) < 0) := by omega
  simp [showInt, this]

/-- The printed text in terms of `w = |v|`. -/
theorem printFix_eq (v : Int) :
    printFix v = (if v < 0 then ['-'] else []) ++ (Nat.toDigits 10 (v.natAbs / 1048576) ++
      '.' :: ((fracDigits FRAC_FUEL (10 * ((v.natAbs % 1048576 : Nat) : Int) + 5) 10).map showInt).flatten) := by
  have e1 : (Int.tdiv v 1048576).natAbs = v.natAbs / 1048576 := by
    rw [Int.natAbs_tdiv]; rfl
  have e2 : (Int.tmod v 1048576).natAbs = v.natAbs % 1048576 := by
    rw [Int.natAbs_tmod]; rfl
  simp only [printFix, e1, e2, showInt_nat, List.append_assoc, List.singleton_append]

end C17
