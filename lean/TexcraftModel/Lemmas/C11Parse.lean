/-
C11 — the transcribed LIGTABLE printer and parser compose to the closed form `normalise`:
`printParse p es = normalise p es` (program equal; label positions equal as maps) whenever no
reachable word is a redirect word. This ties the theorems about `normalise` to the
item-level passes that the driver compares with the real `lower` / `from_ast`.
-/
import TexcraftModel.Model.C11
import TexcraftModel.Model.C11Norm
import TexcraftModel.Lemmas.C11Norm

namespace C11

/-- The items printed for one word. -/
def group (lb : Option Nat) (es : List (Nat × Nat)) (k : Nat) (i : Instr) (f : Bool) (fl : List Bool) : List Item :=
  if f then
    (if lb = some k then [Item.labelB] else []) ++ (labelsAt es k).map Item.label ++
      (if i.op.isRedirect then [] else [Item.op i.right i.op]) ++ tailItems i.next fl
  else []

theorem printItems_cons (lb : Option Nat) (es : List (Nat × Nat)) (k : Nat) (i : Instr) (rest : List Instr)
    (f : Bool) (fl : List Bool) :
    printItems lb es k (i :: rest) (f :: fl) = group lb es k i f fl ++ printItems lb es (k + 1) rest fl := rfl

/-- All labels of one position. -/
def addLabels (es : List (Nat × Nat)) (cs : List Nat) (u : Nat) : List (Nat × Nat) :=
  cs.foldl (fun acc c => insertEntry acc c u) es

theorem foldl_labels : ∀ (cs : List Nat) (s : PState),
    (cs.map Item.label).foldl parseStep s =
      { s with entries := addLabels s.entries cs s.instrs.length,
               precedes := if cs = [] then s.precedes else false } := by
  intro cs
  induction cs with
  | nil => intro s; simp [addLabels]
  | cons c t ih =>
    intro s
    simp only [List.map_cons, List.foldl_cons, parseStep, ih, addLabels]
    cases t <;> simp

theorem setLastNext_snoc : ∀ (acc : List Instr) (x : Instr) (n : Option Nat),
    setLastNext (acc ++ [x]) n = acc ++ [{ x with next := n }] := by
  intro acc
  induction acc with
  | nil => intro x n; rfl
  | cons a t ih =>
    intro x n
    cases t with
    | nil => simp [setLastNext]
    | cons b t' =>
      have := ih x n
      simp only [List.cons_append] at this ⊢
      simp only [setLastNext, this]

/-- The step and what follows it: the parser ends up with `next = outNext`. -/
theorem foldl_op_tail (s : PState) (i : Instr) (fl : List Bool) :
    (([Item.op i.right i.op] ++ tailItems i.next fl).foldl parseStep s).instrs =
        s.instrs ++ [{ i with next := outNext i.next fl }] ∧
      (([Item.op i.right i.op] ++ tailItems i.next fl).foldl parseStep s).entries = s.entries ∧
      (([Item.op i.right i.op] ++ tailItems i.next fl).foldl parseStep s).lb = s.lb := by
  simp only [List.singleton_append, List.foldl_cons, parseStep, tailItems, outNext]
  cases ha : adjSkip i.next fl with
  | some n => simp [parseStep, setLastNext_snoc]
  | none =>
    cases hn : i.next with
    | none => simp [parseStep, setLastNext_snoc]
    | some m =>
      cases m with
      | zero => simp
      | succ m' => simp [parseStep, setLastNext_snoc]

/-- What the parser has after the items of the words from `k` on. -/
def parseSpec (lb : Option Nat) (es : List (Nat × Nat)) : Nat → List Instr → List Bool → PState → PState
  | k, i :: rest, f :: fl, s =>
    if f && !i.op.isRedirect then
      parseSpec lb es (k + 1) rest fl
        ⟨s.instrs ++ [{ i with next := outNext i.next fl }],
         addLabels s.entries (labelsAt es k) s.instrs.length,
         if lb = some k then some s.instrs.length else s.lb,
         (([Item.op i.right i.op] ++ tailItems i.next fl).foldl parseStep
           { s with entries := addLabels s.entries (labelsAt es k) s.instrs.length,
                    lb := if lb = some k then some s.instrs.length else s.lb,
                    precedes := false }).precedes⟩
    else parseSpec lb es (k + 1) rest fl s
  | _, _, _, s => s

theorem foldl_group (lb : Option Nat) (es : List (Nat × Nat)) (k : Nat) (i : Instr) (fl : List Bool)
    (s : PState) (hop : i.op.isRedirect = false) :
    (group lb es k i true fl).foldl parseStep s =
      ⟨s.instrs ++ [{ i with next := outNext i.next fl }],
       addLabels s.entries (labelsAt es k) s.instrs.length,
       if lb = some k then some s.instrs.length else s.lb,
       (([Item.op i.right i.op] ++ tailItems i.next fl).foldl parseStep
         { s with entries := addLabels s.entries (labelsAt es k) s.instrs.length,
                  lb := if lb = some k then some s.instrs.length else s.lb,
                  precedes := false }).precedes⟩ := by
  simp only [group, if_true, hop, Bool.false_eq_true, if_false, List.append_assoc]
  rw [List.foldl_append, List.foldl_append]
  -- boundary label, then the labels
  have h1 : ((labelsAt es k).map Item.label).foldl parseStep
      ((if lb = some k then [Item.labelB] else []).foldl parseStep s) =
      { s with entries := addLabels s.entries (labelsAt es k) s.instrs.length,
               lb := if lb = some k then some s.instrs.length else s.lb,
               precedes := if lb = some k ∨ labelsAt es k ≠ [] then false else s.precedes } := by
    rw [foldl_labels]
    by_cases hb : lb = some k
    · simp only [hb, if_true, List.foldl_cons, List.foldl_nil, parseStep, true_or]
      cases labelsAt es k <;> simp
    · simp only [hb, if_false, List.foldl_nil, false_or]
      cases labelsAt es k <;> simp
  rw [h1]
  -- the step: `precedes` before it is irrelevant
  have h2 : ∀ (b : Bool) (t : PState),
      ([Item.op i.right i.op] ++ tailItems i.next fl).foldl parseStep { t with precedes := b } =
        ([Item.op i.right i.op] ++ tailItems i.next fl).foldl parseStep { t with precedes := false } := by
    intro b t
    simp [parseStep]
  have h3 := h2 (if lb = some k ∨ labelsAt es k ≠ [] then false else s.precedes)
    { s with entries := addLabels s.entries (labelsAt es k) s.instrs.length,
             lb := if lb = some k then some s.instrs.length else s.lb }
  simp only at h3
  rw [h3]
  obtain ⟨g1, g2, g3⟩ := foldl_op_tail
    { s with entries := addLabels s.entries (labelsAt es k) s.instrs.length,
             lb := if lb = some k then some s.instrs.length else s.lb,
             precedes := false } i fl
  generalize hR : ([Item.op i.right i.op] ++ tailItems i.next fl).foldl parseStep
    { s with entries := addLabels s.entries (labelsAt es k) s.instrs.length,
             lb := if lb = some k then some s.instrs.length else s.lb,
             precedes := false } = R at g1 g2 g3 ⊢
  cases R
  simp only at g1 g2 g3
  simp [g1, g2, g3]

/-- The parser run on the printed items is `parseSpec`. -/
theorem foldl_printItems (lb : Option Nat) (es : List (Nat × Nat)) :
    ∀ (l : List Instr) (fl : List Bool) (k : Nat) (s : PState), noReachRedirect l fl = true →
      (printItems lb es k l fl).foldl parseStep s = parseSpec lb es k l fl s := by
  intro l
  induction l with
  | nil => intro fl k s _; cases fl <;> simp [printItems, parseSpec]
  | cons i rest ih =>
    intro fl k s hnr
    cases fl with
    | nil => simp [printItems, parseSpec]
    | cons f fl' =>
      obtain ⟨h1, h2⟩ := noReachRedirect_cons hnr
      rw [printItems_cons, List.foldl_append, parseSpec]
      cases f with
      | false =>
        simp only [group, Bool.false_eq_true, if_false, List.foldl_nil, Bool.false_and]
        exact ih fl' (k + 1) s h2
      | true =>
        have hop := h1 rfl
        rw [foldl_group lb es k i fl' s hop]
        simp only [hop, Bool.not_false, Bool.and_self, if_true]
        exact ih fl' (k + 1) _ h2

/-! ### Components of `parseSpec` -/

theorem parseSpec_instrs (lb : Option Nat) (es : List (Nat × Nat)) :
    ∀ (l : List Instr) (fl : List Bool) (k : Nat) (s : PState),
      (parseSpec lb es k l fl s).instrs = s.instrs ++ compact l fl := by
  intro l
  induction l with
  | nil => intro fl k s; cases fl <;> simp [parseSpec, compact]
  | cons i rest ih =>
    intro fl k s
    cases fl with
    | nil => simp [parseSpec, compact]
    | cons f fl' =>
      simp only [parseSpec, compact]
      split
      · rw [ih]; simp
      · rw [ih]; simp

theorem isReach_succ (f : Bool) (fl : List Bool) (j : Nat) : isReach (f :: fl) (j + 1) = isReach fl j := by
  simp [isReach]

theorem posOf_succ (i : Instr) (rest : List Instr) (f : Bool) (fl : List Bool) (j : Nat) :
    posOf (i :: rest) (f :: fl) (j + 1) = (if f && !i.op.isRedirect then 1 else 0) + posOf rest fl j := rfl

theorem posOf_zero : ∀ (l : List Instr) (fl : List Bool), posOf l fl 0 = 0 := by
  intro l fl; cases l <;> cases fl <;> rfl

theorem parseSpec_lb (es : List (Nat × Nat)) (b : Nat) :
    ∀ (l : List Instr) (fl : List Bool) (k : Nat) (s : PState), fl.length = l.length →
      noReachRedirect l fl = true →
      (parseSpec (some b) es k l fl s).lb =
        if k ≤ b ∧ isReach fl (b - k) = true then some (s.instrs.length + posOf l fl (b - k)) else s.lb := by
  intro l
  induction l with
  | nil => intro fl k s hl _; cases fl <;> simp_all [parseSpec, isReach]
  | cons i rest ih =>
    intro fl k s hl hnr
    cases fl with
    | nil => simp at hl
    | cons f fl' =>
      have hl' : fl'.length = rest.length := by simpa using hl
      have ih := fun k s => ih fl' k s hl'
      obtain ⟨h1, h2⟩ := noReachRedirect_cons hnr
      simp only [parseSpec]
      rcases Nat.lt_trichotomy b k with hlt | heq | hgt
      · -- the boundary label lies before this word
        have hk : ¬ k ≤ b := by omega
        have hk1 : ¬ k + 1 ≤ b := by omega
        have hne : ¬ (some b = some k) := by simp; omega
        split <;> rw [ih (k + 1) _ h2] <;> simp [hk, hk1, hne]
      · subst heq
        have hk1 : ¬ b + 1 ≤ b := by omega
        cases f with
        | false => simp [ih (b + 1) s h2, hk1, isReach]
        | true =>
          have hop := h1 rfl
          simp only [hop, Bool.not_false, Bool.and_self, if_true]
          rw [ih (b + 1) _ h2]
          simp [hk1, isReach, posOf_zero]
      · obtain ⟨j, hj⟩ : ∃ j, b - k = j + 1 := ⟨b - k - 1, by omega⟩
        have hj' : b - (k + 1) = j := by omega
        have hk : k ≤ b := by omega
        have hk1 : k + 1 ≤ b := by omega
        have hne : ¬ (some b = some k) := by simp; omega
        rw [hj, isReach_succ, posOf_succ]
        split
        · rename_i hem
          rw [ih (k + 1) _ h2, hj']
          simp only [hk, hk1, true_and, hne, if_false, hem, if_true, List.length_append, List.length_cons,
            List.length_nil]
          split <;> simp <;> omega
        · rename_i hem
          rw [ih (k + 1) s h2, hj']
          simp [hk, hk1, hem]

theorem parseSpec_lb_none (es : List (Nat × Nat)) :
    ∀ (l : List Instr) (fl : List Bool) (k : Nat) (s : PState), (parseSpec none es k l fl s).lb = s.lb := by
  intro l
  induction l with
  | nil => intro fl k s; cases fl <;> simp [parseSpec]
  | cons i rest ih =>
    intro fl k s
    cases fl with
    | nil => simp [parseSpec]
    | cons f fl' =>
      simp only [parseSpec]
      split <;> rw [ih] <;> simp

/-! ### Label positions as a map -/

theorem lookup_append (a b : List (Nat × Nat)) (k : Nat) :
    lookup (a ++ b) k = match lookup a k with | some v => some v | none => lookup b k := by
  induction a with
  | nil => simp [lookup]
  | cons x t ih =>
    obtain ⟨k', v⟩ := x
    simp only [List.cons_append, lookup]
    split
    · rfl
    · exact ih

theorem lookup_filter_ne (a : List (Nat × Nat)) (c k : Nat) :
    lookup (a.filter (·.1 ≠ c)) k = if k = c then none else lookup a k := by
  induction a with
  | nil => simp [lookup]
  | cons x t ih =>
    obtain ⟨k', v⟩ := x
    by_cases hk' : k' = c
    · subst hk'
      simp only [List.filter_cons, ne_eq, not_true_eq_false, decide_false, Bool.false_eq_true, if_false, ih, lookup]
      by_cases hk : k = k'
      · simp [hk]
      · have : ¬ k' = k := fun h => hk h.symm
        simp [hk, this]
    · simp only [List.filter_cons, ne_eq, hk', not_false_eq_true, decide_true, if_true, lookup, ih]
      by_cases hk : k' = k
      · subst hk; simp [hk']
      · simp [hk]

theorem lookup_insertEntry (acc : List (Nat × Nat)) (c u k : Nat) :
    lookup (insertEntry acc c u) k = if k = c then some u else lookup acc k := by
  simp only [insertEntry, lookup_append, lookup_filter_ne]
  by_cases hk : k = c
  · subst hk; simp [lookup]
  · have : ¬ c = k := fun h => hk h.symm
    simp only [hk, if_false, lookup, this]
    cases lookup acc k <;> rfl

theorem lookup_addLabels : ∀ (cs : List Nat) (acc : List (Nat × Nat)) (u k : Nat),
    lookup (addLabels acc cs u) k = if k ∈ cs then some u else lookup acc k := by
  intro cs
  induction cs with
  | nil => intro acc u k; simp [addLabels]
  | cons c t ih =>
    intro acc u k
    have := ih (insertEntry acc c u) u k
    simp only [addLabels, List.foldl_cons] at this ⊢
    rw [this, lookup_insertEntry]
    by_cases hk : k ∈ t
    · simp [hk]
    · by_cases hc : k = c
      · simp [hc]
      · simp [hk, hc]

/-- The position the parser records for a character whose (only) label is in front of word `e`. -/
theorem parseSpec_lookup (lb : Option Nat) (es : List (Nat × Nat)) (c e : Nat)
    (hc : ∀ k, c ∈ labelsAt es k ↔ k = e) :
    ∀ (l : List Instr) (fl : List Bool) (k : Nat) (s : PState), fl.length = l.length →
      noReachRedirect l fl = true →
      lookup (parseSpec lb es k l fl s).entries c =
        if k ≤ e ∧ isReach fl (e - k) = true then some (s.instrs.length + posOf l fl (e - k))
        else lookup s.entries c := by
  intro l
  induction l with
  | nil => intro fl k s hl _; cases fl <;> simp_all [parseSpec, isReach]
  | cons i rest ih =>
    intro fl k s hl hnr
    cases fl with
    | nil => simp at hl
    | cons f fl' =>
      have hl' : fl'.length = rest.length := by simpa using hl
      have ih := fun k s => ih fl' k s hl'
      obtain ⟨h1, h2⟩ := noReachRedirect_cons hnr
      simp only [parseSpec]
      rcases Nat.lt_trichotomy e k with hlt | heq | hgt
      · have hk : ¬ k ≤ e := by omega
        have hk1 : ¬ k + 1 ≤ e := by omega
        have hnot : c ∉ labelsAt es k := fun h => by have := (hc k).mp h; omega
        split <;> rw [ih (k + 1) _ h2] <;> simp [hk, hk1, lookup_addLabels, hnot]
      · subst heq
        have hk1 : ¬ e + 1 ≤ e := by omega
        have hin : c ∈ labelsAt es e := (hc e).mpr rfl
        cases f with
        | false => simp [ih (e + 1) s h2, hk1, isReach]
        | true =>
          have hop := h1 rfl
          simp only [hop, Bool.not_false, Bool.and_self, if_true]
          rw [ih (e + 1) _ h2]
          simp [hk1, isReach, posOf_zero, lookup_addLabels, hin]
      · obtain ⟨j, hj⟩ : ∃ j, e - k = j + 1 := ⟨e - k - 1, by omega⟩
        have hj' : e - (k + 1) = j := by omega
        have hk : k ≤ e := by omega
        have hk1 : k + 1 ≤ e := by omega
        have hnot : c ∉ labelsAt es k := fun h => by have := (hc k).mp h; omega
        rw [hj, isReach_succ, posOf_succ]
        split
        · rename_i hem
          rw [ih (k + 1) _ h2, hj']
          simp only [hk, hk1, true_and, hem, if_true, List.length_append, List.length_cons,
            List.length_nil, lookup_addLabels, hnot, if_false]
          split <;> simp <;> omega
        · rename_i hem
          rw [ih (k + 1) s h2, hj']
          simp [hk, hk1, hem]

/-- A character without a label gets no position. -/
theorem parseSpec_lookup_absent (lb : Option Nat) (es : List (Nat × Nat)) (c : Nat)
    (hc : ∀ k, c ∉ labelsAt es k) :
    ∀ (l : List Instr) (fl : List Bool) (k : Nat) (s : PState),
      lookup (parseSpec lb es k l fl s).entries c = lookup s.entries c := by
  intro l
  induction l with
  | nil => intro fl k s; cases fl <;> simp [parseSpec]
  | cons i rest ih =>
    intro fl k s
    cases fl with
    | nil => simp [parseSpec]
    | cons f fl' =>
      simp only [parseSpec]
      split
      · rw [ih]; simp [lookup_addLabels, hc k]
      · rw [ih]

/-! ### `printParse = normalise` -/

theorem labelsAt_iff {es : List (Nat × Nat)} {c e : Nat} (hnd : (es.map (·.1)).Nodup) (hce : (c, e) ∈ es) :
    ∀ k, c ∈ labelsAt es k ↔ k = e := by
  intro k
  simp only [labelsAt, List.mem_map, List.mem_filter, decide_eq_true_eq]
  constructor
  · rintro ⟨x, ⟨hx, hk⟩, hc⟩
    -- two entries with the same character are the same entry
    have : x = (c, e) := by
      clear hk
      induction es with
      | nil => simp at hx
      | cons y t ih =>
        simp only [List.map_cons, List.nodup_cons] at hnd
        rcases List.mem_cons.mp hx with rfl | hx' <;> rcases List.mem_cons.mp hce with h2 | hce'
        · exact h2.symm ▸ rfl
        · exfalso; apply hnd.1; rw [hc]; exact List.mem_map_of_mem (f := (·.1)) hce'
        · exfalso; apply hnd.1; rw [← h2]; simp only; rw [← hc]; exact List.mem_map_of_mem (f := (·.1)) hx'
        · exact ih hnd.2 hce' hx'
    rw [this] at hk
    exact hk.symm
  · intro hk
    exact ⟨(c, e), ⟨hce, hk.symm⟩, rfl⟩

theorem labelsAt_absent {es : List (Nat × Nat)} {c : Nat} (h : c ∉ es.map (·.1)) : ∀ k, c ∉ labelsAt es k := by
  intro k hk
  simp only [labelsAt, List.mem_map, List.mem_filter] at hk
  obtain ⟨x, ⟨hx, _⟩, hc⟩ := hk
  exact h (hc ▸ List.mem_map_of_mem (f := (·.1)) hx)

theorem lookup_none_of_not_key : ∀ (a : List (Nat × Nat)) (k : Nat), k ∉ a.map (·.1) → lookup a k = none := by
  intro a
  induction a with
  | nil => intro k _; rfl
  | cons x t ih =>
    intro k hk
    obtain ⟨k', v⟩ := x
    simp only [List.map_cons, List.mem_cons, not_or] at hk
    have : ¬ k' = k := fun h => hk.1 h.symm
    simp only [lookup, this, if_false]
    exact ih k hk.2

/-- `lookup` in the closed form's label list. -/
theorem lookup_normalise_entries (A : List Instr) (fl : List Bool) :
    ∀ (es : List (Nat × Nat)), (es.map (·.1)).Nodup → ∀ c,
      lookup (es.filterMap (fun ce => if isReach fl ce.2 then some (ce.1, posOf A fl ce.2) else none)) c =
        match lookup es c with
        | some e => if isReach fl e then some (posOf A fl e) else none
        | none => none := by
  intro es
  induction es with
  | nil => intro _ c; rfl
  | cons x t ih =>
    intro hnd c
    obtain ⟨c0, e0⟩ := x
    simp only [List.map_cons, List.nodup_cons] at hnd
    by_cases hc : c0 = c
    · subst hc
      simp only [List.filterMap_cons, lookup, if_true]
      by_cases hr : isReach fl e0 = true
      · simp [hr, lookup]
      · simp only [hr, Bool.false_eq_true, if_false]
        apply lookup_none_of_not_key
        intro hmem
        apply hnd.1
        simp only [List.mem_map, List.mem_filterMap] at hmem ⊢
        obtain ⟨y, ⟨z, hz, hzy⟩, hy⟩ := hmem
        split at hzy
        · simp only [Option.some.injEq] at hzy
          exact ⟨z, hz, by rw [← hy, ← hzy]⟩
        · simp at hzy
    · simp only [List.filterMap_cons, lookup, hc, if_false]
      by_cases hr : isReach fl e0 = true
      · simp only [hr, if_true, lookup, hc, if_false]
        exact ih hnd.2 c
      · simp only [hr, Bool.false_eq_true, if_false]
        exact ih hnd.2 c

theorem lookup_mem_nodup : ∀ (es : List (Nat × Nat)) (c e : Nat), (es.map (·.1)).Nodup → (c, e) ∈ es →
    lookup es c = some e := by
  intro es
  induction es with
  | nil => intro c e _ h; simp at h
  | cons x t ih =>
    intro c e hnd h
    obtain ⟨c0, e0⟩ := x
    simp only [List.map_cons, List.nodup_cons] at hnd
    rcases List.mem_cons.mp h with heq | h'
    · simp only [Prod.mk.injEq] at heq
      simp [lookup, heq.1, heq.2]
    · have hne : ¬ c0 = c := by
        intro hc
        apply hnd.1
        rw [hc]
        exact List.mem_map_of_mem (f := (·.1)) h'
      simp only [lookup, hne, if_false]
      exact ih c e hnd.2 h'

/-- **printParse_eq_normalise.** The LIGTABLE printer followed by the parser is the closed
form: same instruction list, same boundary data, and every character gets the same label
position — whenever no reachable word is a redirect word and the characters are distinct. -/
theorem printParse_normalise {p : Prog} {es : List (Nat × Nat)}
    (hnr : noReachRedirect p.instrs (reachable p es) = true) (hnd : (es.map (·.1)).Nodup) :
    (printParse p es).1 = (normalise p es).1 ∧
      ∀ c, lookup (printParse p es).2 c = lookup (normalise p es).2 c := by
  have hlen : (reachable p es).length = p.instrs.length := reachFrom_length _ _
  have hfold := foldl_printItems p.lb es p.instrs (reachable p es) 0 ⟨[], [], none, false⟩ hnr
  constructor
  · simp only [printParse, parseItems, normalise, hfold, parseSpec_instrs, List.nil_append]
    congr 1
    cases hl : p.lb with
    | none => simp [parseSpec_lb_none]
    | some b =>
      rw [parseSpec_lb es b _ _ 0 _ hlen hnr]
      simp
  · intro c
    simp only [printParse, parseItems, normalise, hfold]
    rw [lookup_normalise_entries _ _ es hnd c]
    by_cases hk : c ∈ es.map (·.1)
    · obtain ⟨ce, hce, hc⟩ := List.mem_map.mp hk
      obtain ⟨c0, e⟩ := ce
      simp only at hc
      subst hc
      rw [parseSpec_lookup p.lb es c0 e (labelsAt_iff hnd hce) _ _ 0 _ hlen hnr]
      rw [lookup_mem_nodup es c0 e hnd hce]
      simp [lookup]
    · rw [parseSpec_lookup_absent p.lb es c (labelsAt_absent hk)]
      rw [lookup_none_of_not_key es c hk]
      simp [lookup]

end C11
