import TexcraftModel.Model.C20Tags

/-!
# C20 — command tags (interleaving model) and the `Vec<Option<V>>` backing container

Part A (`C20.Tags`): for every schedule (= every interleaving of whole `Tag::new` /
`StaticTag::get` calls) the tags handed out are pairwise distinct, a static cell returns one
value, nothing panics below the `u32` limit, and the tags are `1, 2, …` in schedule order.
The invariant is `Good lo st`: every stored tag is `< lo ≤ NEXT_TAG_VALUE`; a poisoned mutex
(`next = none`) hands out nothing further. `run_spec` is the statement for any start state.

Part B (`C20.VecBacking`): the `Vec` backing satisfies the same `get/insert/remove/iter`
contract as the association-list backing of the main model.

Core Lean only.
-/

namespace C20.Tags

/-! ### Association-list facts (local copies, in this namespace) -/

/-- The values stored in an association list. -/
def vals (l : AList Nat Nat) : List Nat := l.map (·.2)

theorem aerase_of_alookup_none (l : AList Nat Nat) (k : Nat) (h : alookup l k = none) :
    aerase k l = l := by
  induction l with
  | nil => rfl
  | cons p t ih =>
    obtain ⟨k', v⟩ := p
    simp only [alookup] at h
    by_cases hk : k' = k
    · simp [hk] at h
    · simp only [hk, if_false] at h
      simp [aerase, hk, ih h]

theorem alookup_mem (l : AList Nat Nat) (k t : Nat) (h : alookup l k = some t) : (k, t) ∈ l := by
  induction l with
  | nil => simp [alookup] at h
  | cons p r ih =>
    obtain ⟨k', v⟩ := p
    simp only [alookup] at h
    by_cases hk : k' = k
    · simp only [hk, if_true, Option.some.injEq] at h
      subst hk; subst h; exact List.mem_cons_self
    · simp only [hk, if_false] at h
      exact List.mem_cons_of_mem _ (ih h)

theorem alookup_mem_vals (l : AList Nat Nat) (k t : Nat) (h : alookup l k = some t) :
    t ∈ vals l :=
  List.mem_map.mpr ⟨(k, t), alookup_mem l k t h, rfl⟩

/-! ### `newTags` / `cellTags` unfolding -/

@[simp] theorem newTags_nil : newTags [] = [] := rfl
@[simp] theorem newTags_new_some (th t : Nat) (r) :
    newTags ((.new th, some t) :: r) = t :: newTags r := rfl
@[simp] theorem newTags_none (e : Ev) (r) : newTags ((e, none) :: r) = newTags r := by
  cases e <;> rfl
@[simp] theorem newTags_get (th c : Nat) (o) (r) : newTags ((.get th c, o) :: r) = newTags r := by
  cases o <;> rfl

@[simp] theorem cellTags_nil (c : Nat) : cellTags c [] = [] := rfl
@[simp] theorem cellTags_get_some (c th c' t : Nat) (r) :
    cellTags c ((.get th c', some t) :: r)
      = if c' = c then t :: cellTags c r else cellTags c r := rfl
@[simp] theorem cellTags_none (c : Nat) (e : Ev) (r) :
    cellTags c ((e, none) :: r) = cellTags c r := by
  cases e <;> rfl
@[simp] theorem cellTags_new (c th : Nat) (o) (r) :
    cellTags c ((.new th, o) :: r) = cellTags c r := by
  cases o <;> rfl

theorem run_cons (st : State) (e : Ev) (es : List Ev) :
    run st (e :: es) = ((run (step st e).1 es).1, (e, (step st e).2) :: (run (step st e).1 es).2) :=
  rfl

@[simp] theorem run_nil (st : State) : run st [] = (st, []) := rfl

/-! ### One step, by cases -/

/-- What one atomic step can do: panic (poisoning the mutex), read an initialised cell,
or create the fresh tag `n = NEXT_TAG_VALUE` (for `Tag::new`, or to initialise a cell). -/
theorem step_spec (st : State) (e : Ev) :
    ((step st e).2 = none ∧ (step st e).1.cells = st.cells ∧ (step st e).1.next = none
        ∧ ∀ n, st.next = some n → n = 0 ∨ u32Max < n + 1)
    ∨ (∃ th c t, e = .get th c ∧ alookup st.cells c = some t ∧ (step st e).2 = some t
        ∧ (step st e).1 = st)
    ∨ (∃ th n, e = .new th ∧ st.next = some n ∧ 1 ≤ n ∧ n + 1 ≤ u32Max
        ∧ (step st e).2 = some n ∧ (step st e).1.next = some (n + 1)
        ∧ (step st e).1.cells = st.cells)
    ∨ (∃ th c n, e = .get th c ∧ alookup st.cells c = none ∧ st.next = some n ∧ 1 ≤ n
        ∧ n + 1 ≤ u32Max ∧ (step st e).2 = some n ∧ (step st e).1.next = some (n + 1)
        ∧ (step st e).1.cells = (c, n) :: st.cells) := by
  have tn : ∀ o : Option Nat,
      (tagNew o = (none, none) ∧ ∀ n, o = some n → n = 0 ∨ u32Max < n + 1)
      ∨ ∃ n, o = some n ∧ 1 ≤ n ∧ n + 1 ≤ u32Max ∧ tagNew o = (some n, some (n + 1)) := by
    intro o
    cases o with
    | none => left; exact ⟨rfl, fun n h => by cases h⟩
    | some n =>
      unfold tagNew
      by_cases h0 : n = 0
      · left; exact ⟨by simp [h0], fun m h => by cases h; exact Or.inl h0⟩
      · by_cases h1 : n + 1 > u32Max
        · left; exact ⟨by simp [h0, h1], fun m h => by cases h; exact Or.inr h1⟩
        · right; exact ⟨n, rfl, by omega, by omega, by simp [h0, h1]⟩
  cases e with
  | new th =>
    rcases tn st.next with ⟨h, hw⟩ | ⟨n, hn, h1, h2, h⟩
    · left; simp [step, h]; exact hw
    · right; right; left
      exact ⟨th, n, rfl, hn, h1, h2, by simp [step, h], by simp [step, h], by simp [step]⟩
  | get th c =>
    cases hl : alookup st.cells c with
    | some t =>
      right; left
      exact ⟨th, c, t, rfl, hl, by simp [step, hl], by simp [step, hl]⟩
    | none =>
      rcases tn st.next with ⟨h, hw⟩ | ⟨n, hn, h1, h2, h⟩
      · left; simp [step, hl, h]; exact hw
      · right; right; right
        have he : ainsert c n st.cells = (c, n) :: st.cells := by
          simp [ainsert, aerase_of_alookup_none _ _ hl]
        exact ⟨th, c, n, rfl, hl, hn, h1, h2, by simp [step, hl, h], by simp [step, hl, h],
          by simp [step, hl, h, he]⟩


/-! ### The invariant -/

/-- `lo` separates the past from the future: every tag stored so far is `< lo`, the counter
(if the mutex is not poisoned) is `≥ lo`. -/
structure Good (lo : Nat) (st : State) : Prop where
  next_ge : ∀ n, st.next = some n → lo ≤ n
  cells_lt : ∀ t ∈ vals st.cells, t < lo
  cells_nd : (vals st.cells).Nodup

theorem good_init : Good 1 init :=
  ⟨fun n h => by cases h; exact Nat.le_refl 1, fun t h => by simp [init, vals] at h,
   by simp [init, vals]⟩

/-- Main invariant, any start state: tags created by the run are `≥ lo`, cells only gain
tags `≥ lo`, and the `Tag::new` results together with all stored cell tags are distinct. -/
theorem run_spec (sched : List Ev) : ∀ (lo : Nat) (st : State), Good lo st →
    (∀ t ∈ newTags (run st sched).2, lo ≤ t) ∧
    (∀ t ∈ vals (run st sched).1.cells, t ∈ vals st.cells ∨ lo ≤ t) ∧
    (newTags (run st sched).2 ++ vals (run st sched).1.cells).Nodup := by
  induction sched with
  | nil =>
    intro lo st g
    refine ⟨by simp, fun t h => Or.inl h, by simpa using g.cells_nd⟩
  | cons e es ih =>
    intro lo st g
    rw [run_cons]
    dsimp only
    rcases step_spec st e with ⟨h2, hc, hn, _⟩ | ⟨th, c, t, he, hl, h2, h1⟩
      | ⟨th, n, he, hn, hn1, hn2, h2, hnx, hc⟩ | ⟨th, c, n, he, hl, hn, hn1, hn2, h2, hnx, hc⟩
    · -- panic
      have g' : Good lo (step st e).1 := by
        refine ⟨fun n h => ?_, ?_, ?_⟩
        · rw [hn] at h; cases h
        · rw [hc]; exact g.cells_lt
        · rw [hc]; exact g.cells_nd
      have := ih lo _ g'
      rw [hc] at this
      rw [h2, newTags_none]
      exact this
    · -- read
      have := ih lo _ g
      subst he
      rw [h1, h2, newTags_get]
      exact this
    · -- fresh tag from `Tag::new`
      have hlo : lo ≤ n := g.next_ge n hn
      have g' : Good (n + 1) (step st e).1 := by
        refine ⟨fun m h => ?_, ?_, ?_⟩
        · rw [hnx] at h; cases h; exact Nat.le_refl _
        · rw [hc]; intro t ht; have := g.cells_lt t ht; omega
        · rw [hc]; exact g.cells_nd
      obtain ⟨i1, i2, i3⟩ := ih (n + 1) _ g'
      rw [hc] at i2
      subst he
      rw [h2, newTags_new_some]
      refine ⟨?_, ?_, ?_⟩
      · intro t ht
        rcases List.mem_cons.mp ht with rfl | ht
        · exact hlo
        · have := i1 t ht; omega
      · intro t ht
        rcases i2 t ht with h | h
        · exact Or.inl h
        · right; omega
      · rw [List.cons_append, List.nodup_cons]
        refine ⟨?_, i3⟩
        intro hm
        rcases List.mem_append.mp hm with hm | hm
        · have := i1 n hm; omega
        · rcases i2 n hm with h | h
          · have := g.cells_lt n h; omega
          · omega
    · -- fresh tag initialising a cell
      have hlo : lo ≤ n := g.next_ge n hn
      have hv : vals (step st e).1.cells = n :: vals st.cells := by rw [hc]; rfl
      have g' : Good (n + 1) (step st e).1 := by
        refine ⟨fun m h => ?_, ?_, ?_⟩
        · rw [hnx] at h; cases h; exact Nat.le_refl _
        · rw [hv]; intro t ht
          rcases List.mem_cons.mp ht with rfl | ht
          · omega
          · have := g.cells_lt t ht; omega
        · rw [hv, List.nodup_cons]
          refine ⟨fun hm => ?_, g.cells_nd⟩
          have := g.cells_lt n hm; omega
      obtain ⟨i1, i2, i3⟩ := ih (n + 1) _ g'
      rw [hv] at i2
      subst he
      rw [h2, newTags_get]
      refine ⟨?_, ?_, i3⟩
      · intro t ht
        have := i1 t ht; omega
      · intro t ht
        rcases i2 t ht with h | h
        · rcases List.mem_cons.mp h with rfl | h
          · exact Or.inr hlo
          · exact Or.inl h
        · right; omega


/-! ### `OnceLock`: a cell, once set, never changes; every `get` returns its final content -/

theorem run_cells_mono (sched : List Ev) : ∀ (st : State) (c t : Nat),
    alookup st.cells c = some t → alookup (run st sched).1.cells c = some t := by
  induction sched with
  | nil => intro st c t h; exact h
  | cons e es ih =>
    intro st c t h
    rw [run_cons]
    dsimp only
    apply ih
    rcases step_spec st e with ⟨_, hc, _, _⟩ | ⟨_, _, _, _, _, _, h1⟩
      | ⟨_, _, _, _, _, _, _, _, hc⟩ | ⟨_, c', n, _, hl, _, _, _, _, _, hc⟩
    · rw [hc]; exact h
    · rw [h1]; exact h
    · rw [hc]; exact h
    · rw [hc]
      have : c' ≠ c := by
        intro e; subst e; rw [h] at hl; cases hl
      simp [alookup, this, h]

theorem cellTags_final (sched : List Ev) : ∀ (st : State) (c t : Nat),
    t ∈ cellTags c (run st sched).2 → alookup (run st sched).1.cells c = some t := by
  induction sched with
  | nil => intro st c t h; simp at h
  | cons e es ih =>
    intro st c t h
    rw [run_cons] at h ⊢
    dsimp only at h ⊢
    rcases step_spec st e with ⟨h2, _, _, _⟩ | ⟨th, c', t', he, hl, h2, h1⟩
      | ⟨th, n, he, _, _, _, h2, _, _⟩ | ⟨th, c', n, he, hl, _, _, _, h2, _, hc⟩
    · rw [h2, cellTags_none] at h
      exact ih _ c t h
    · subst he
      rw [h2, cellTags_get_some] at h
      by_cases hcc : c' = c
      · rw [if_pos hcc] at h
        rcases List.mem_cons.mp h with rfl | h
        · subst hcc
          apply run_cells_mono
          rw [h1]; exact hl
        · exact ih _ c t h
      · rw [if_neg hcc] at h
        exact ih _ c t h
    · subst he
      rw [cellTags_new] at h
      exact ih _ c t h
    · subst he
      rw [h2, cellTags_get_some] at h
      by_cases hcc : c' = c
      · rw [if_pos hcc] at h
        rcases List.mem_cons.mp h with rfl | h
        · subst hcc
          apply run_cells_mono
          rw [hc]; simp [alookup]
        · exact ih _ c t h
      · rw [if_neg hcc] at h
        exact ih _ c t h

/-! ### Every result satisfies any property that fresh tags and the initial cells satisfy -/

theorem run_results_all (P : Nat → Prop) (hP : ∀ n, 1 ≤ n → n + 1 ≤ u32Max → P n)
    (sched : List Ev) : ∀ (st : State), (∀ t ∈ vals st.cells, P t) →
    ∀ p ∈ (run st sched).2, ∀ t, p.2 = some t → P t := by
  induction sched with
  | nil => intro st _ p hp; simp at hp
  | cons e es ih =>
    intro st hst p hp t ht
    rw [run_cons] at hp
    dsimp only at hp
    have key : (∀ t, (step st e).2 = some t → P t) ∧ (∀ t ∈ vals (step st e).1.cells, P t) := by
      rcases step_spec st e with ⟨h2, hc, _, _⟩ | ⟨_, c', t', _, hl, h2, h1⟩
        | ⟨_, n, _, _, hn1, hn2, h2, _, hc⟩ | ⟨_, c', n, _, _, _, hn1, hn2, h2, _, hc⟩
      · rw [h2, hc]; exact ⟨fun t h => (by cases h), hst⟩
      · rw [h2, h1]
        refine ⟨fun t h => ?_, hst⟩
        cases h; exact hst _ (alookup_mem_vals _ _ _ hl)
      · rw [h2, hc]
        refine ⟨fun t h => ?_, hst⟩
        cases h; exact hP _ hn1 hn2
      · rw [h2, hc]
        refine ⟨fun t h => ?_, fun t h => ?_⟩
        · cases h; exact hP _ hn1 hn2
        · rcases List.mem_cons.mp h with rfl | h
          · exact hP _ hn1 hn2
          · exact hst _ h
    rcases List.mem_cons.mp hp with rfl | hp
    · exact key.1 t ht
    · exact ih _ key.2 p hp t ht

/-! ### No panic while the counter has room -/

theorem step_ok (st : State) (e : Ev) (n : Nat) (hn : st.next = some n) (h1 : 1 ≤ n)
    (h2 : n + 1 ≤ u32Max) :
    (step st e).2 ≠ none ∧
    ((step st e).1.next = some n ∨ (step st e).1.next = some (n + 1)) := by
  rcases step_spec st e with ⟨_, _, _, hw⟩ | ⟨_, _, _, _, _, r2, r1⟩
    | ⟨_, m, _, hm, _, _, r2, rn, _⟩ | ⟨_, _, m, _, _, hm, _, _, r2, rn, _⟩
  · exfalso
    rcases hw n hn with h | h <;> omega
  · rw [r2, r1]; exact ⟨by simp, Or.inl hn⟩
  · rw [hn] at hm; cases hm
    rw [r2, rn]; exact ⟨by simp, Or.inr rfl⟩
  · rw [hn] at hm; cases hm
    rw [r2, rn]; exact ⟨by simp, Or.inr rfl⟩


theorem run_no_panic (sched : List Ev) : ∀ (st : State) (n : Nat), st.next = some n → 1 ≤ n →
    n + sched.length ≤ u32Max → ∀ p ∈ (run st sched).2, p.2 ≠ none := by
  induction sched with
  | nil => intro st n _ _ _ p hp; simp at hp
  | cons e es ih =>
    intro st n hn h1 h2 p hp
    rw [run_cons] at hp
    dsimp only at hp
    simp only [List.length_cons] at h2
    obtain ⟨k1, k2⟩ := step_ok st e n hn h1 (by omega)
    rcases List.mem_cons.mp hp with rfl | hp
    · exact k1
    · rcases k2 with k2 | k2
      · exact ih _ n k2 h1 (by omega) p hp
      · exact ih _ (n + 1) k2 (by omega) (by omega) p hp

/-! ### Counting -/

/-- The event is a `Tag::new` call. -/
def Ev.isNew : Ev → Bool
  | .new _ => true
  | .get _ _ => false

theorem run_events (sched : List Ev) : ∀ st : State, (run st sched).2.map (·.1) = sched := by
  induction sched with
  | nil => intro st; rfl
  | cons e es ih => intro st; rw [run_cons]; simp [ih]

theorem newTags_length (res : List (Ev × Option Nat)) (h : ∀ p ∈ res, p.2 ≠ none) :
    (newTags res).length = (res.map (·.1)).countP Ev.isNew := by
  induction res with
  | nil => rfl
  | cons p r ih =>
    have ih := ih (fun q hq => h q (List.mem_cons_of_mem _ hq))
    obtain ⟨e, o⟩ := p
    cases o with
    | none => exact absurd rfl (h _ List.mem_cons_self)
    | some t =>
      cases e with
      | new th =>
        rw [newTags_new_some, List.length_cons, List.map_cons, List.countP_cons, ih]
        rfl
      | get th c =>
        rw [newTags_get, List.map_cons, List.countP_cons, ih]
        rfl

theorem run_all_new (sched : List Ev) : ∀ (st : State) (n : Nat), st.next = some n → 1 ≤ n →
    n + sched.length ≤ u32Max → (∀ e ∈ sched, e.isNew = true) →
    newTags (run st sched).2 = List.range' n sched.length := by
  induction sched with
  | nil => intro st n _ _ _ _; rfl
  | cons e es ih =>
    intro st n hn h1 h2 hall
    rw [run_cons]
    dsimp only
    simp only [List.length_cons] at h2
    have hall' : ∀ e ∈ es, e.isNew = true := fun x hx => hall x (List.mem_cons_of_mem _ hx)
    have he := hall e List.mem_cons_self
    rcases step_spec st e with ⟨_, _, _, hw⟩ | ⟨_, _, _, rfl, _, _, _⟩
      | ⟨_, m, rfl, hm, _, _, r2, rn, _⟩ | ⟨_, _, _, rfl, _, _, _, _, _, _, _⟩
    · exfalso
      rcases hw n hn with h | h <;> omega
    · simp [Ev.isNew] at he
    · rw [hn] at hm; cases hm
      rw [r2, newTags_new_some, List.length_cons, List.range'_succ]
      rw [ih _ (n + 1) rn (by omega) (by omega) hall']
    · simp [Ev.isNew] at he

/-! ### Cells hold only what some `get` returned -/

theorem cells_from_get (sched : List Ev) : ∀ (st : State) (c t : Nat),
    alookup (run st sched).1.cells c = some t →
    alookup st.cells c = some t ∨ t ∈ cellTags c (run st sched).2 := by
  induction sched with
  | nil => intro st c t h; exact Or.inl h
  | cons e es ih =>
    intro st c t h
    rw [run_cons] at h ⊢
    dsimp only at h ⊢
    rcases ih _ c t h with h | h
    · rcases step_spec st e with ⟨h2, hc, _, _⟩ | ⟨_, _, _, _, _, _, h1⟩
        | ⟨_, _, _, _, _, _, _, _, hc⟩ | ⟨th, c', n, rfl, hl, _, _, _, h2, _, hc⟩
      · rw [hc] at h; exact Or.inl h
      · rw [h1] at h; exact Or.inl h
      · rw [hc] at h; exact Or.inl h
      · rw [hc] at h
        simp only [alookup] at h
        by_cases hcc : c' = c
        · rw [if_pos hcc] at h; cases h
          right; rw [h2, cellTags_get_some, if_pos hcc]; exact List.mem_cons_self
        · rw [if_neg hcc] at h; exact Or.inl h
    · right
      rcases step_spec st e with ⟨h2, _, _, _⟩ | ⟨_, c', _, rfl, _, h2, _⟩
        | ⟨_, _, rfl, _, _, _, _, _, _⟩ | ⟨th, c', n, rfl, _, _, _, _, h2, _, _⟩
      · rw [h2, cellTags_none]; exact h
      · rw [h2, cellTags_get_some]
        by_cases hcc : c' = c
        · rw [if_pos hcc]; exact List.mem_cons_of_mem _ h
        · rw [if_neg hcc]; exact h
      · rw [cellTags_new]; exact h
      · rw [h2, cellTags_get_some]
        by_cases hcc : c' = c
        · rw [if_pos hcc]; exact List.mem_cons_of_mem _ h
        · rw [if_neg hcc]; exact h

theorem key_unique_of_vals_nodup (l : AList Nat Nat) (h : (vals l).Nodup) (k k' t : Nat)
    (h1 : (k, t) ∈ l) (h2 : (k', t) ∈ l) : k = k' := by
  induction l with
  | nil => cases h1
  | cons p r ih =>
    have hv : vals (p :: r) = p.2 :: vals r := rfl
    rw [hv, List.nodup_cons] at h
    have mem : ∀ k, (k, t) ∈ r → t ∈ vals r := fun k hk => List.mem_map.mpr ⟨(k, t), hk, rfl⟩
    rcases List.mem_cons.mp h1 with e1 | m1 <;> rcases List.mem_cons.mp h2 with e2 | m2
    · rw [← e2] at e1; cases e1; rfl
    · subst e1; exact absurd (mem _ m2) h.1
    · subst e2; exact absurd (mem _ m1) h.1
    · exact ih h.2 m1 m2

theorem not_mem_akeys_of_alookup_none (l : AList Nat Nat) (k : Nat) (h : alookup l k = none) :
    k ∉ akeys l := by
  induction l with
  | nil => simp [akeys]
  | cons p r ih =>
    obtain ⟨k', v⟩ := p
    simp only [alookup] at h
    by_cases hk : k' = k
    · rw [if_pos hk] at h; cases h
    · rw [if_neg hk] at h
      have : akeys ((k', v) :: r) = k' :: akeys r := rfl
      rw [this, List.mem_cons]
      rintro (e | e)
      · exact hk e.symm
      · exact ih h e

/-- Each cell has at most one entry (the cells form a map). -/
theorem run_keys_nodup (sched : List Ev) : ∀ st : State, (akeys st.cells).Nodup →
    (akeys (run st sched).1.cells).Nodup := by
  induction sched with
  | nil => intro st h; exact h
  | cons e es ih =>
    intro st h
    rw [run_cons]
    dsimp only
    apply ih
    rcases step_spec st e with ⟨_, hc, _, _⟩ | ⟨_, _, _, _, _, _, h1⟩
      | ⟨_, _, _, _, _, _, _, _, hc⟩ | ⟨_, c', n, _, hl, _, _, _, _, _, hc⟩
    · rw [hc]; exact h
    · rw [h1]; exact h
    · rw [hc]; exact h
    · rw [hc]
      have : akeys ((c', n) :: st.cells) = c' :: akeys st.cells := rfl
      rw [this, List.nodup_cons]
      exact ⟨not_mem_akeys_of_alookup_none _ _ hl, h⟩

/-! ## The target theorems (program start, every schedule) -/

/-- All `Tag::new` results together with every tag stored in a static cell: no duplicates. -/
theorem all_tags_distinct (sched : List Ev) :
    (newTags (run init sched).2 ++ vals (run init sched).1.cells).Nodup :=
  (run_spec sched 1 init good_init).2.2

/-- 1. Tags returned by `Tag::new` (any threads, any interleaving) are pairwise distinct. -/
theorem tags_distinct (sched : List Ev) : (newTags (run init sched).2).Nodup :=
  (List.nodup_append.mp (all_tags_distinct sched)).1

/-- The static cells hold pairwise distinct tags at the end. -/
theorem cell_vals_distinct (sched : List Ev) : (vals (run init sched).1.cells).Nodup :=
  (List.nodup_append.mp (all_tags_distinct sched)).2.1

/-- Each static cell is stored at most once. -/
theorem cell_keys_distinct (sched : List Ev) : (akeys (run init sched).1.cells).Nodup :=
  run_keys_nodup sched init (by simp [init, akeys])

/-- The cells at the end hold exactly what the `get` calls returned. -/
theorem cellTags_iff (sched : List Ev) (c t : Nat) :
    t ∈ cellTags c (run init sched).2 ↔ alookup (run init sched).1.cells c = some t := by
  constructor
  · exact cellTags_final sched init c t
  · intro h
    rcases cells_from_get sched init c t h with h | h
    · simp [init, alookup] at h
    · exact h

/-- A static tag differs from every `Tag::new` tag. -/
theorem cell_tag_ne_new_tag (sched : List Ev) (c : Nat) :
    ∀ t ∈ cellTags c (run init sched).2, ∀ t' ∈ newTags (run init sched).2, t ≠ t' := by
  intro t ht t' ht' e
  have hv := alookup_mem_vals _ _ _ (cellTags_final sched init c t ht)
  exact (List.nodup_append.mp (all_tags_distinct sched)).2.2 t' ht' t hv e.symm

/-- Different static cells have different tags. -/
theorem cell_tags_distinct (sched : List Ev) (c c' : Nat) (hc : c ≠ c') :
    ∀ t ∈ cellTags c (run init sched).2, ∀ t' ∈ cellTags c' (run init sched).2, t ≠ t' := by
  intro t ht t' ht' e
  subst e
  have h1 := alookup_mem _ _ _ (cellTags_final sched init c t ht)
  have h2 := alookup_mem _ _ _ (cellTags_final sched init c' t ht')
  exact hc (key_unique_of_vals_nodup _ (cell_vals_distinct sched) c c' t h1 h2)

/-- 2. Every `get` on one static cell returns the same value, in every schedule. -/
theorem static_tag_once (sched : List Ev) (c : Nat) :
    ∀ t ∈ cellTags c (run init sched).2, ∀ t' ∈ cellTags c (run init sched).2, t = t' := by
  intro t ht t' ht'
  have h1 := cellTags_final sched init c t ht
  have h2 := cellTags_final sched init c t' ht'
  rw [h1] at h2; cases h2; rfl

/-- 3. No call panics while fewer than `2^32 - 2` calls have been made. -/
theorem tags_no_panic (sched : List Ev) (h : sched.length + 1 < u32Max) :
    ∀ p ∈ (run init sched).2, p.2 ≠ none :=
  run_no_panic sched init 1 rfl (Nat.le_refl 1) (by omega)

/-- Every returned tag is nonzero (`NonZeroU32`). -/
theorem tags_positive (sched : List Ev) :
    ∀ p ∈ (run init sched).2, ∀ t, p.2 = some t → 1 ≤ t :=
  run_results_all (fun t => 1 ≤ t) (fun _ h _ => h) sched init
    (fun t h => by simp [init, vals] at h)

/-- Every returned tag fits a `u32` (and is not `u32::MAX`). -/
theorem tags_lt_u32Max (sched : List Ev) :
    ∀ p ∈ (run init sched).2, ∀ t, p.2 = some t → t < u32Max :=
  run_results_all (fun t => t < u32Max) (fun _ _ h => by omega) sched init
    (fun t h => by simp [init, vals] at h)

/-- 4. Without overflow, every `Tag::new` call yields a tag. -/
theorem tags_count (sched : List Ev) (h : sched.length + 1 < u32Max) :
    (newTags (run init sched).2).length = sched.countP Ev.isNew := by
  rw [newTags_length _ (tags_no_panic sched h), run_events]

/-- 4'. With only `Tag::new` calls the tags are exactly `1, 2, …, N` in schedule order:
as a multiset `{1..T·N}`, which is what the threaded Rust harness checks. -/
theorem tags_exact (sched : List Ev) (h : sched.length + 1 < u32Max)
    (hnew : ∀ e ∈ sched, e.isNew = true) :
    newTags (run init sched).2 = List.range' 1 sched.length :=
  run_all_new sched init 1 rfl (Nat.le_refl 1) (by omega) hnew

end C20.Tags

/-! # Part B — the `Vec<Option<V>>` backing container -/

namespace C20.VecBacking
variable {V : Type}

theorem get_nil (k : Nat) : get ([] : List (Option V)) k = none := by
  simp [get]

theorem get_eq_some_iff (l : List (Option V)) (k : Nat) (v : V) :
    get l k = some v ↔ l[k]? = some (some v) := by
  unfold get
  cases h : l[k]? with
  | none => simp
  | some o => simp


theorem get_pad (l : List (Option V)) (m k' : Nat) (v : V) :
    get (l ++ List.replicate m none ++ [some v]) k'
      = if k' = l.length + m then some v else get l k' := by
  unfold get
  rw [List.getElem?_append, List.getElem?_append, List.getElem?_replicate]
  simp only [List.length_append, List.length_replicate]
  by_cases h1 : k' < l.length
  · have h2 : k' < l.length + m := by omega
    have h3 : k' ≠ l.length + m := by omega
    rw [if_pos h2, if_pos h1, if_neg h3]
  · have e1 : l[k']? = none := List.getElem?_eq_none_iff.mpr (by omega)
    rw [e1]
    by_cases h2 : k' < l.length + m
    · have h3 : k' ≠ l.length + m := by omega
      have h4 : k' - l.length < m := by omega
      rw [if_pos h2, if_neg h1, if_pos h4, if_neg h3]
    · rw [if_neg h2]
      by_cases h3 : k' = l.length + m
      · rw [if_pos h3]
        have : k' - (l.length + m) = 0 := by omega
        rw [this]; rfl
      · rw [if_neg h3]
        have : [some v][k' - (l.length + m)]? = none :=
          List.getElem?_eq_none_iff.mpr (by simp; omega)
        rw [this]

theorem get_insert (l : List (Option V)) (k k' : Nat) (v : V) :
    get (insert l k v) k' = if k' = k then some v else get l k' := by
  unfold insert
  cases h : l[k]? with
  | none =>
    have hk : l.length ≤ k := List.getElem?_eq_none_iff.mp h
    show get (l ++ List.replicate (k - l.length) none ++ [some v]) k' = _
    rw [get_pad]
    have : l.length + (k - l.length) = k := by omega
    rw [this]
  | some o =>
    have hk : k < l.length := by
      rcases List.getElem?_eq_some_iff.mp h with ⟨h', _⟩; exact h'
    simp only [get, List.getElem?_set]
    by_cases h5 : k' = k
    · subst h5; simp [hk]
    · have : ¬ k = k' := fun e => h5 e.symm
      simp [h5, this]

theorem get_remove (l : List (Option V)) (k k' : Nat) :
    get (remove l k) k' = if k' = k then none else get l k' := by
  unfold remove
  cases h : l[k]? with
  | none =>
    by_cases h5 : k' = k
    · subst h5; simp [get, h]
    · simp [h5]
  | some o =>
    have hk : k < l.length := by
      rcases List.getElem?_eq_some_iff.mp h with ⟨h', _⟩; exact h'
    simp only [get, List.getElem?_set]
    by_cases h5 : k' = k
    · subst h5; simp [hk]
    · have : ¬ k = k' := fun e => h5 e.symm
      simp [h5, this]

theorem mem_iterFrom (l : List (Option V)) : ∀ (i k : Nat) (v : V),
    (k, v) ∈ iterFrom i l ↔ ∃ j, k = i + j ∧ l[j]? = some (some v) := by
  induction l with
  | nil => intro i k v; simp [iterFrom]
  | cons o t ih =>
    intro i k v
    cases o with
    | none =>
      simp only [iterFrom, ih]
      constructor
      · rintro ⟨j, hj, hl⟩; exact ⟨j + 1, by omega, by simpa using hl⟩
      · rintro ⟨j, hj, hl⟩
        cases j with
        | zero => simp at hl
        | succ j => exact ⟨j, by omega, by simpa using hl⟩
    | some w =>
      simp only [iterFrom, List.mem_cons, ih]
      constructor
      · rintro (h | ⟨j, hj, hl⟩)
        · cases h; exact ⟨0, by omega, by simp⟩
        · exact ⟨j + 1, by omega, by simpa using hl⟩
      · rintro ⟨j, hj, hl⟩
        cases j with
        | zero =>
          left
          simp at hl; subst hl; simp at hj; subst hj; rfl
        | succ j => right; exact ⟨j, by omega, by simpa using hl⟩

theorem iter_spec (l : List (Option V)) :
    ∀ k v, (k, v) ∈ iter l ↔ get l k = some v := by
  intro k v
  rw [iter, mem_iterFrom, get_eq_some_iff]
  constructor
  · rintro ⟨j, hj, hl⟩
    have : k = j := by omega
    subst this; exact hl
  · intro h; exact ⟨k, by omega, h⟩

theorem length_iterFrom (l : List (Option V)) : ∀ i, (iterFrom i l).length = len l := by
  induction l with
  | nil => intro i; rfl
  | cons o t ih =>
    intro i
    cases o with
    | none => simpa [iterFrom, len] using ih (i + 1)
    | some w => simpa [iterFrom, len] using ih (i + 1)

theorem len_eq_iter (l : List (Option V)) : len l = (iter l).length :=
  (length_iterFrom l 0).symm

end C20.VecBacking
