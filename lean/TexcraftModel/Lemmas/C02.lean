import TexcraftModel.Lemmas.C02Defs

/-! Helper lemmas for C02 (see `Props/C02.lean` for the property statements). -/
namespace C02

/-! ## `runDepth` -/

theorem runDepth_append (d : Nat) (l1 l2 : List Tok) :
    runDepth d (l1 ++ l2) = (runDepth d l1).bind (fun d' => runDepth d' l2) := by
  induction l1 generalizing d with
  | nil => simp [runDepth]
  | cons t ts ih =>
    cases t <;> simp only [List.cons_append, runDepth, ih]
    cases d <;> simp

theorem runDepth_prefix_some {d x : Nat} {l1 l2 : List Tok} (h : runDepth d (l1 ++ l2) = some x) :
    ∃ y, runDepth d l1 = some y ∧ runDepth y l2 = some x := by
  rw [runDepth_append] at h
  cases h1 : runDepth d l1 with
  | none => simp [h1] at h
  | some y => exact ⟨y, rfl, by simpa [h1] using h⟩

/-- One more token: the model's signed counter agrees with the scan. -/
theorem runDepth_snoc_step {d d1 : Nat} {t : Tok} (h : runDepth d [t] = some d1) :
    (d1 : Int) = depthStep d t := by
  cases t <;> simp only [runDepth, depthStep] at h ⊢
  · cases h; omega
  · cases d with
    | zero => simp at h
    | succ d' => simp at h; omega
  all_goals (cases h; rfl)

/-- Tokens that are not braces. -/
def NoBrace (l : List Tok) : Prop := ∀ t ∈ l, t ≠ .bg ∧ t ≠ .eg

theorem runDepth_noBrace {l : List Tok} (h : NoBrace l) (d : Nat) : runDepth d l = some d := by
  induction l with
  | nil => rfl
  | cons t ts ih =>
    have ht := h t (by simp)
    have hts : NoBrace ts := fun x hx => h x (by simp [hx])
    cases t <;> simp_all [runDepth]

/-! ## Trimming -/

theorem depthStep_other {t : Tok} (h1 : t ≠ .bg) (h2 : t ≠ .eg) (d : Int) : depthStep d t = d := by
  cases t <;> simp_all [depthStep]

theorem runDepth_cons_other {t : Tok} (h1 : t ≠ .bg) (h2 : t ≠ .eg) (d : Nat) (ts : List Tok) :
    runDepth d (t :: ts) = runDepth d ts := by
  cases t <;> simp_all [runDepth]

theorem closesAtEnd_iff (d : Nat) (r : List Tok) :
    closesAtEnd ((d : Int) + 1) r = true ↔ ∃ b, r = b ++ [.eg] ∧ runDepth d b = some 0 := by
  induction r generalizing d with
  | nil => simp [closesAtEnd]
  | cons t ts ih =>
    by_cases hbg : t = .bg
    · subst hbg
      have h2 : ((d : Int) + 1 + 1 = 0) = False := by simp; omega
      have e : (d : Int) + 1 + 1 = ((d + 1 : Nat) : Int) + 1 := by omega
      simp only [closesAtEnd, depthStep, h2, if_false]
      rw [e, ih (d + 1)]
      constructor
      · rintro ⟨b, rfl, hb⟩; exact ⟨.bg :: b, by simp, by simpa [runDepth] using hb⟩
      · rintro ⟨b, hb, hr⟩
        cases b with
        | nil => simp at hb
        | cons x b' =>
          simp at hb; obtain ⟨rfl, rfl⟩ := hb
          exact ⟨b', rfl, by simpa [runDepth] using hr⟩
    · by_cases heg : t = .eg
      · subst heg
        cases d with
        | zero =>
          simp only [closesAtEnd, depthStep]
          simp
          constructor
          · rintro rfl; exact ⟨[], by simp, by simp [runDepth]⟩
          · rintro ⟨b, hb, hr⟩
            cases b with
            | nil => simpa using hb
            | cons x b' =>
              simp at hb; obtain ⟨rfl, _⟩ := hb
              simp [runDepth] at hr
        | succ d' =>
          have h2 : ((d' + 1 : Nat) : Int) + 1 - 1 = (d' : Int) + 1 := by omega
          have h3 : ((d' : Int) + 1 = 0) = False := by simp; omega
          simp only [closesAtEnd, depthStep, h2, h3, if_false]
          rw [ih d']
          constructor
          · rintro ⟨b, rfl, hb⟩; exact ⟨.eg :: b, by simp, by simpa [runDepth] using hb⟩
          · rintro ⟨b, hb, hr⟩
            cases b with
            | nil => simp [runDepth] at hr
            | cons x b' =>
              simp at hb; obtain ⟨rfl, rfl⟩ := hb
              exact ⟨b', rfl, by simpa [runDepth] using hr⟩
      · have h3 : ((d : Int) + 1 = 0) = False := by simp; omega
        simp only [closesAtEnd, depthStep_other hbg heg, h3, if_false]
        rw [ih d]
        constructor
        · rintro ⟨b, rfl, hb⟩
          exact ⟨t :: b, by simp, by rw [runDepth_cons_other hbg heg]; exact hb⟩
        · rintro ⟨b, hb, hr⟩
          cases b with
          | nil => simp at hb; exact absurd hb.1 heg
          | cons x b' =>
            simp at hb; obtain ⟨rfl, rfl⟩ := hb
            exact ⟨b', rfl, by rw [runDepth_cons_other hbg heg] at hr; exact hr⟩

theorem shouldTrim_iff (a : List Tok) :
    shouldTrim a = true ↔ ∃ b, a = .bg :: b ++ [.eg] ∧ Balanced b := by
  cases a with
  | nil => simp [shouldTrim]
  | cons t r =>
    by_cases hbg : t = .bg
    · subst hbg
      have := closesAtEnd_iff 0 r
      simp only [Int.natCast_zero, Int.zero_add] at this
      simp only [shouldTrim, this, Balanced]
      simp
    · cases t <;> simp_all [shouldTrim]

theorem isSingleGroup_iff (a : List Tok) :
    isSingleGroup a = true ↔ ∃ b, a = .bg :: b ++ [.eg] ∧ Balanced b := by
  cases a with
  | nil => simp [isSingleGroup]
  | cons t r =>
    by_cases hbg : t = .bg
    · subst hbg
      simp only [isSingleGroup, balancedB, Bool.and_eq_true, decide_eq_true_eq]
      constructor
      · rintro ⟨h1, h2⟩
        refine ⟨r.dropLast, ?_, h2⟩
        have hne : r ≠ [] := by intro h; simp [h] at h1
        have := List.dropLast_concat_getLast hne
        rw [List.getLast?_eq_some_getLast hne] at h1
        simp at h1
        rw [h1] at this
        simp [this]
      · rintro ⟨b, hb, hbal⟩
        simp at hb; subst hb
        simp [hbal]
    · cases t <;> simp_all [isSingleGroup]

theorem shouldTrim_eq_isSingleGroup (a : List Tok) : shouldTrim a = isSingleGroup a := by
  have h1 := shouldTrim_iff a
  have h2 := isSingleGroup_iff a
  cases h : shouldTrim a <;> cases h' : isSingleGroup a <;> try rfl
  · rw [← h1] at h2; rw [h2.mp h'] at h; exact h.symm
  · rw [← h2] at h1; rw [h1.mp h] at h'; exact h'

/-! ## Undelimited parameters -/

theorem skipSpaces_eq (inp : List Tok) : skipSpaces inp = inp.dropWhile (· = .sp) := by
  induction inp with
  | nil => rfl
  | cons t ts ih => cases t <;> simp [skipSpaces, List.dropWhile, ih]

theorem dropWhile_sp_spec (inp : List Tok) :
    ∃ sps, inp = sps ++ inp.dropWhile (· = .sp) ∧ (∀ t ∈ sps, t = .sp) ∧
      ∀ t ts, inp.dropWhile (· = .sp) = t :: ts → t ≠ .sp := by
  induction inp with
  | nil => exact ⟨[], by simp, by simp, by simp⟩
  | cons t ts ih =>
    by_cases h : t = .sp
    · subst h
      obtain ⟨sps, h1, h2, h3⟩ := ih
      refine ⟨.sp :: sps, ?_, ?_, ?_⟩
      · simp only [List.dropWhile_cons, decide_true, if_true, List.cons_append]; rw [← h1]
      · intro x hx; simp at hx; rcases hx with rfl | hx; rfl; exact h2 x hx
      · intro x xs hx; simp only [List.dropWhile_cons, decide_true, if_true] at hx; exact h3 x xs hx
    · refine ⟨[], ?_, by simp, ?_⟩
      · simp [h]
      · intro x xs hx; simp [h] at hx; rw [← hx.1]; exact h

/-- One more token keeps the scan defined unless it is a `}` at depth 0. -/
theorem runDepth_snoc_some {pre : List Tok} {dn : Nat} (h : runDepth 0 pre = some dn) (t : Tok)
    (hne : ¬(t = .eg ∧ dn = 0)) :
    ∃ dn', runDepth 0 (pre ++ [t]) = some dn' ∧ (dn' : Int) = depthStep dn t := by
  have : ∃ dn', runDepth dn [t] = some dn' := by
    cases t <;> simp [runDepth]
    cases dn with
    | zero => simp at hne
    | succ k => simp
  obtain ⟨dn', h'⟩ := this
  exact ⟨dn', by rw [runDepth_append, h]; simpa using h', runDepth_snoc_step h'⟩

theorem specGroupFrom_finish (inp : List Tok) : ∀ (pre : List Tok) (dn : Nat) (g rest : List Tok),
    runDepth 0 pre = some dn → specGroupFrom pre inp = some (g, rest) →
    ∃ g', g = pre ++ g' ∧ inp = g' ++ .eg :: rest ∧ Balanced g ∧
      finishBalanced dn inp = .ok (g', rest) := by
  induction inp with
  | nil => intro pre dn g rest _ h; simp [specGroupFrom] at h
  | cons t ts ih =>
    intro pre dn g rest hpre h
    by_cases hc : t = .eg ∧ balancedB pre = true
    · simp only [specGroupFrom, hc, and_self, if_true] at h
      simp at h; obtain ⟨rfl, rfl⟩ := h
      have hb : Balanced pre := by simpa [balancedB] using hc.2
      have : dn = 0 := by simp [Balanced, hpre] at hb; exact hb
      subst this
      exact ⟨[], by simp, by simp [hc.1], hb, by simp [finishBalanced, hc.1]⟩
    · simp only [specGroupFrom, hc, if_false] at h
      have hne : ¬(t = .eg ∧ dn = 0) := by
        rintro ⟨h1, h2⟩
        exact hc ⟨h1, by simp [balancedB, Balanced, hpre, h2]⟩
      obtain ⟨dn', hdn', hstep⟩ := runDepth_snoc_some hpre t hne
      obtain ⟨g'', rfl, rfl, hbal, hfin⟩ := ih (pre ++ [t]) dn' g rest hdn' h
      refine ⟨t :: g'', by simp, by simp, hbal, ?_⟩
      have hne' : ¬(t = .eg ∧ (dn : Int) = 0) := by
        rintro ⟨h1, h2⟩; exact hne ⟨h1, by omega⟩
      simp only [finishBalanced, hne', if_false, ← hstep, hfin]

theorem specUndelim_parse {inp a rest : List Tok} (n : Nat) (h : specUndelim inp = some (a, rest)) :
    parseUndelimited n inp = .ok (a, rest) := by
  unfold specUndelim at h
  unfold parseUndelimited
  rw [skipSpaces_eq]
  cases hd : inp.dropWhile (· = .sp) with
  | nil => simp [hd] at h
  | cons t ts =>
    rw [hd] at h
    cases t with
    | bg =>
      simp only at h ⊢
      obtain ⟨g', hg, _, _, hfin⟩ := specGroupFrom_finish ts [] 0 a rest rfl h
      simp at hg; subst hg
      simpa using hfin
    | eg => simp at h
    | _ => simp at h ⊢; exact h

/-! ## Delimited parameters -/

/-- A delimiter as `\def` can produce it: non-empty, no braces, except that the last token
may be `{` (the `#{` form). -/
structure DelimWF (d : List Tok) : Prop where
  ne : d ≠ []
  body : ∃ b, NoBrace b ∧ (d = b ∨ d = b ++ [.bg])

def closingNat (d : List Tok) : Nat := if d.getLast? = some .bg then 1 else 0

theorem closingDepth_eq (m : Matcher) : closingDepth m = (closingNat m.sub : Int) := by
  unfold closingDepth closingNat; split <;> simp

theorem delim_runDepth {d : List Tok} (h : DelimWF d) (x : Nat) :
    runDepth x d = some (x + closingNat d) := by
  obtain ⟨b, hb, hd | hd⟩ := h.body
  · subst hd
    have hne := h.ne
    have : closingNat d = 0 := by
      unfold closingNat
      rw [List.getLast?_eq_some_getLast hne]
      have := hb _ (List.getLast_mem hne)
      simp [this.1]
    rw [this, runDepth_noBrace hb]; rfl
  · subst hd
    have : closingNat (b ++ [.bg]) = 1 := by simp [closingNat]
    rw [this, runDepth_append, runDepth_noBrace hb]; simp [runDepth]

theorem run_snoc (m : Matcher) : ∀ (xs : List Tok) (q0 q q' : Nat) (b : Bool) (t : Tok),
    m.run q0 xs = some q → m.next q t = some (q', b) → m.run q0 (xs ++ [t]) = some q' := by
  intro xs
  induction xs with
  | nil => intro q0 q q' b t h1 h2; simp [Matcher.run] at h1; subst h1; simp [Matcher.run, h2]
  | cons x xs ih =>
    intro q0 q q' b t h1 h2
    simp only [Matcher.run, List.cons_append] at h1 ⊢
    cases hn : m.next q0 x with
    | none => simp [hn] at h1
    | some r => simp only [hn] at h1 ⊢; exact ih _ _ _ _ _ h1 h2

/-- The loop of `parse_delimited_argument` stops here. -/
def Stop (d x : List Tok) : Prop := d <:+ x ∧ runDepth 0 x = some (closingNat d)

theorem delimLoop_complete (m : Matcher) (hok : MatcherOK m) (n : Nat) :
    ∀ (cons seen rest : List Tok) (q dn : Nat),
      m.run 0 seen = some q → runDepth 0 seen = some dn → cons ≠ [] →
      (∀ k, k ≤ cons.length → ∃ dk, runDepth 0 (seen ++ cons.take k) = some dk) →
      Stop m.sub (seen ++ cons) →
      (∀ k, 0 < k → k < cons.length → ¬ Stop m.sub (seen ++ cons.take k)) →
      delimLoop m (closingDepth m) n q dn (cons ++ rest) = .ok (cons, rest) := by
  intro cons
  induction cons with
  | nil => intro seen rest q dn _ _ h; exact absurd rfl h
  | cons t cons' ih =>
    intro seen rest q dn hrun hdn _ hpre hstopall hnostop
    obtain ⟨q0, q', b, hrun0, hnext, hb⟩ := hok seen t
    have hq : q0 = q := by rw [hrun] at hrun0; exact (Option.some.inj hrun0).symm
    subst hq
    obtain ⟨d1, hd1⟩ := hpre 1 (by simp)
    simp only [List.take_succ_cons, List.take_zero] at hd1
    have hstep : (d1 : Int) = depthStep dn t := by
      have : runDepth dn [t] = some d1 := by
        rw [runDepth_append, hdn] at hd1; simpa using hd1
      exact runDepth_snoc_step this
    simp only [List.cons_append, delimLoop, hnext, closingDepth_eq]
    by_cases hstop : Stop m.sub (seen ++ [t])
    · have hnil : cons' = [] := by
        cases cons' with
        | nil => rfl
        | cons y ys => exact absurd (by simpa using hstop) (hnostop 1 (by omega) (by simp))
      subst hnil
      have h1 : depthStep (dn : Int) t = (closingNat m.sub : Int) := by
        have := hstop.2; rw [hd1] at this
        have := Option.some.inj this; omega
      have h2 : b = true := hb.mpr hstop.1
      simp [h1, h2]
    · have hcond : ¬(depthStep (dn : Int) t = (closingNat m.sub : Int) ∧ b = true) := by
        rintro ⟨h1, h2⟩
        exact hstop ⟨hb.mp h2, by rw [hd1]; congr 1; omega⟩
      have hne : cons' ≠ [] := by
        intro h; subst h; exact hstop hstopall
      have hrun' := run_snoc m seen 0 q0 q' b t hrun hnext
      have := ih (seen ++ [t]) rest q' d1 hrun' hd1 hne
        (fun k hk => by
          obtain ⟨dk, h⟩ := hpre (k + 1) (by simp; omega)
          exact ⟨dk, by simpa using h⟩)
        (by simpa using hstopall)
        (fun k hk0 hk => by
          have := hnostop (k + 1) (by omega) (by simp; omega)
          simpa using this)
      rw [← hstep] at hcond ⊢
      rw [closingDepth_eq] at this
      rw [if_neg hcond, this]

theorem specDelimFrom_spec (d : List Tok) (inp : List Tok) : ∀ (pre a rest : List Tok),
    specDelimFrom d pre inp = some (a, rest) →
    ∃ mid, a = pre ++ mid ∧ inp = mid ++ d ++ rest ∧ Balanced a ∧
      ∀ k, k < mid.length →
        ¬(Balanced (pre ++ mid.take k) ∧ d <+: (mid ++ d ++ rest).drop k) := by
  induction inp with
  | nil =>
    intro pre a rest h
    rw [specDelimFrom] at h
    by_cases hc : (balancedB pre && d.isPrefixOf []) = true
    · simp only [hc, if_true] at h
      simp at h; obtain ⟨rfl, rfl⟩ := h
      simp at hc
      refine ⟨[], by simp, ?_, by simpa [balancedB] using hc.1, by simp⟩
      simp [hc.2]
    · simp [hc] at h
  | cons t ts ih =>
    intro pre a rest h
    rw [specDelimFrom] at h
    by_cases hc : (balancedB pre && d.isPrefixOf (t :: ts)) = true
    · simp only [hc, if_true] at h
      simp at h; obtain ⟨rfl, rfl⟩ := h
      simp only [Bool.and_eq_true, List.isPrefixOf_iff_prefix] at hc
      refine ⟨[], by simp, ?_, by simpa [balancedB] using hc.1, by simp⟩
      have := List.prefix_iff_eq_append.mp hc.2
      simpa using this.symm
    · simp only [hc] at h
      obtain ⟨mid', rfl, rfl, hbal, hmin⟩ := ih (pre ++ [t]) a rest h
      refine ⟨t :: mid', by simp, by simp, hbal, ?_⟩
      intro k hk
      cases k with
      | zero =>
        simp only [List.take_zero, List.append_nil, List.drop_zero]
        rintro ⟨h1, h2⟩
        apply hc
        simp only [Bool.and_eq_true, List.isPrefixOf_iff_prefix]
        exact ⟨by simpa [balancedB] using h1, by simpa using h2⟩
      | succ k' =>
        have := hmin k' (by simpa using hk)
        simpa using this

theorem specDelim_parse (m : Matcher) (hok : MatcherOK m) (hwf : DelimWF m.sub) (n : Nat)
    {inp a rest : List Tok} (h : specDelim m.sub inp = some (a, rest)) :
    parseDelimited shouldTrim m n inp = .ok (stripSpec a, rest) := by
  obtain ⟨mid, hmid, hinp, hbal, hmin⟩ := specDelimFrom_spec m.sub inp [] a rest h
  simp only [List.nil_append] at hmid hmin
  subst hmid
  have hfull : runDepth 0 (a ++ m.sub) = some (closingNat m.sub) := by
    rw [runDepth_append, hbal]; simp [delim_runDepth hwf]
  have hloop := delimLoop_complete m hok n (a ++ m.sub) [] rest 0 0 rfl rfl
    (by simp [hwf.ne])
    (fun k _ => by
      have : List.take k (a ++ m.sub) ++ List.drop k (a ++ m.sub) = a ++ m.sub := List.take_append_drop _ _
      rw [← this] at hfull
      obtain ⟨y, hy, _⟩ := runDepth_prefix_some hfull
      exact ⟨y, by simpa using hy⟩)
    ⟨by simp, by simpa using hfull⟩
    (by
      intro k hk0 hk hstop
      simp only [List.nil_append] at hstop
      obtain ⟨⟨p, hp⟩, hdepth⟩ := hstop
      have hlen : p.length + m.sub.length = k := by
        have := congrArg List.length hp
        simp at this hk; omega
      have hplt : p.length < a.length := by simp at hk; omega
      have hpa : p <+: a := by
        apply List.prefix_of_prefix_length_le (l₃ := a ++ m.sub)
        · exact (List.prefix_append p m.sub).trans (hp ▸ List.take_prefix k _)
        · exact List.prefix_append a m.sub
        · omega
      obtain ⟨a2, ha2⟩ := hpa
      have hbalp : Balanced p := by
        rw [← hp] at hdepth
        obtain ⟨y, hy, hyd⟩ := runDepth_prefix_some hdepth
        rw [delim_runDepth hwf] at hyd
        have : y = 0 := by have := Option.some.inj hyd; omega
        subst this; exact hy
      have htake : a.take p.length = p := by rw [← ha2]; simp
      have hdrop : m.sub <+: (a ++ m.sub ++ rest).drop p.length := by
        have e : a ++ m.sub ++ rest = p ++ (m.sub ++ (List.drop k (a ++ m.sub) ++ rest)) := by
          calc a ++ m.sub ++ rest
              = (List.take k (a ++ m.sub) ++ List.drop k (a ++ m.sub)) ++ rest := by
                rw [List.take_append_drop]
            _ = ((p ++ m.sub) ++ List.drop k (a ++ m.sub)) ++ rest := by rw [hp]
            _ = p ++ (m.sub ++ (List.drop k (a ++ m.sub) ++ rest)) := by simp
        rw [e, List.drop_left]
        exact List.prefix_append _ _
      exact hmin p.length hplt ⟨by rw [htake]; exact hbalp, hdrop⟩)
  unfold parseDelimited
  rw [hinp]
  have e0 : ((0 : Nat) : Int) = 0 := rfl
  rw [e0, List.append_assoc] at hloop
  rw [List.append_assoc, hloop]
  simp only [List.length_append, Nat.add_sub_cancel, List.take_left', shouldTrim_eq_isSingleGroup, stripSpec]
  split <;> simp_all

end C02
