import TexcraftModel.Lemmas.C13

/-! C13: assembling the walk, the trie invariant and the item facts. -/
namespace C13

def itemsOf (ps es : List (List Char)) : List Item := ps.map patItem ++ es.map excItem

theorem items_term (ps es : List (List Char)) : ∀ it ∈ itemsOf ps es, Term it.ops := by
  intro it h
  simp only [itemsOf, List.mem_append, List.mem_map] at h
  rcases h with ⟨p, _, rfl⟩ | ⟨e, _, rfl⟩
  · exact patItem_term p
  · obtain ⟨_, _, h⟩ := excItem_decode e; exact h

theorem items_bound (ps es : List (List Char)) :
    ∀ it ∈ itemsOf ps es, (decodeOps it.ops).length ≤ chCount it.key + 1 := by
  intro it h
  simp only [itemsOf, List.mem_append, List.mem_map] at h
  rcases h with ⟨p, _, rfl⟩ | ⟨e, _, rfl⟩
  · rw [patItem_key, chCount_enc, parsePat_letters]; exact patItem_length p
  · obtain ⟨p', h1, _⟩ := excItem_decode e
    rw [excItem_key, chCount_enc, h1]
    simp [marks_length]

theorem bounded_build (ps es : List (List Char)) : Bounded (build ps es) := by
  intro π
  rcases val_cases _ _ (inv_build ps es) (items_term ps es) π with ⟨h, _⟩ | ⟨_, it, h1, h2⟩
  · rw [h]; simp
  · rw [h2]
    have := newest_mem _ _ _ h1
    rw [← this.2]
    exact items_bound ps es it this.1

theorem mapM_length (lc : Char → Option Char) (w ls : List Char) (h : w.mapM lc = some ls) :
    ls.length = w.length := by
  induction w generalizing ls with
  | nil => simp at h; subst h; rfl
  | cons c w ih =>
    rw [List.mapM_cons] at h
    cases hc : lc c with
    | none => simp [hc] at h
    | some l =>
      cases hm : w.mapM lc with
      | none => simp [hc, hm] at h
      | some ls' => simp [hc, hm] at h; subst h; simp [ih ls' hm]

theorem byteLen_ge (w : List Char) : w.length ≤ byteLen w := by
  induction w with
  | nil => simp [byteLen]
  | cons c w ih =>
    have : 0 < c.utf8Size := Char.utf8Size_pos c
    simp only [byteLen, List.map_cons, List.sum_cons, List.length_cons] at ih ⊢
    omega

theorem getD_replicate_zero (n i : Nat) : (List.replicate n 0).getD i 0 = 0 := by
  simp only [List.getD_eq_getElem?_getD, List.getElem?_replicate]
  split <;> rfl

/-- The score vector before `scores[0] = 0; truncate`: pointwise the maximum over the
visited vertices. -/
theorem aggregate_pointwise (h : Hyph) (hB : Bounded h) (lc : Char → Option Char)
    (w ls : List Char) (hl : w.mapM lc = some ls) :
    ∃ s' : List Nat, aggregateScores h lc w = some ((s'.set 0 0).take w.length) ∧
      s'.length = byteLen w + 1 ∧
      ∀ i, s'.getD i 0 = maxOver (visited ls) (fun x => digitAt (val h x.2) x.1 i) := by
  have hlen := mapM_length lc w ls hl
  have hbl := byteLen_ge w
  have hfe := forEachPattern_eq h lc hB w ls hl (List.replicate (byteLen w + 1) 0)
    (by simp; omega)
  obtain ⟨s', hs'⟩ := applyAll_some (val h) (visited ls) (List.replicate (byteLen w + 1) 0) (by
    intro x hx
    have h1 := visited_bound ls x hx
    have h2 := hB x.2
    simp; omega)
  refine ⟨s', ?_, ?_, ?_⟩
  · simp [aggregateScores, hfe, hs']
  · rw [applyAll_length _ _ _ _ hs']; simp
  · intro i
    rw [applyAll_getD _ _ _ _ hs' i, getD_replicate_zero, Nat.zero_max]

/-! ### Exceptions and `newest` -/

theorem newest_none_of (l : List Item) (π : List Edge) (h : ∀ y ∈ l, y.key ≠ π) :
    newest l π = none := by
  induction l with
  | nil => rfl
  | cons x l ih =>
    simp only [newest, ih (fun y hy => h y (by simp [hy]))]
    simp [h x (by simp)]

theorem newest_nodup (l : List Item) (hnd : (l.map Item.key).Nodup) (it : Item) (hit : it ∈ l) :
    newest l it.key = some it := by
  induction l with
  | nil => cases hit
  | cons x l ih =>
    simp only [List.map_cons, List.nodup_cons, List.mem_map, not_exists, not_and] at hnd
    simp only [List.mem_cons] at hit
    rcases hit with rfl | hit
    · simp only [newest]
      rw [newest_none_of l it.key (fun y hy h => hnd.1 y hy h)]
      simp
    · simp only [newest, ih hnd.2 hit]

theorem newest_exc (es : List (List Char)) (ls : List Char) :
    newest (es.map excItem) (enc true ls true) = (findException es ls).map excItem := by
  induction es with
  | nil => rfl
  | cons e es ih =>
    simp only [List.map_cons, newest, ih, findException]
    cases findException es ls with
    | some x => rfl
    | none =>
      simp only [Option.map_none]
      by_cases hs : stripHyphens e = ls
      · simp [hs, excItem_key]
      · have : ¬ (excItem e).key = enc true ls true := by
          rw [excItem_key]; intro h; exact hs (enc_inj h).2.1
        simp [hs, this]

theorem findException_strip (es : List (List Char)) (ls e : List Char)
    (h : findException es ls = some e) : stripHyphens e = ls := by
  induction es with
  | nil => simp [findException] at h
  | cons e0 es ih =>
    simp only [findException] at h
    cases hf : findException es ls with
    | some x => simp [hf] at h; subst h; exact ih hf
    | none =>
      simp [hf] at h
      obtain ⟨h1, rfl⟩ := h; exact h1

theorem findException_none (es : List (List Char)) (ls : List Char)
    (h : findException es ls = none) : ∀ e ∈ es, stripHyphens e ≠ ls := by
  induction es with
  | nil => intro e he; cases he
  | cons e0 es ih =>
    simp only [findException] at h
    cases hf : findException es ls with
    | some x => simp [hf] at h
    | none =>
      simp [hf] at h
      intro e he
      simp at he
      rcases he with rfl | he
      · exact h
      · exact ih hf e he

/-- An exception key is visited only at offset 0 and only for the whole word. -/
theorem visited_exc (ls : List Char) (hne : ls ≠ []) (o : Nat) (L : List Char)
    (h : (o, enc true L true) ∈ visited ls) : o = 0 ∧ L = ls := by
  have := (visited_iff_matches ls hne ⟨true, L, [], true⟩ o).1 h
  rw [matchesAt_iff] at this
  obtain ⟨_, ⟨suf, h2⟩, h3, h4⟩ := this
  have ho := h3 rfl
  subst ho
  have h4 := h4 rfl
  simp only [List.drop_zero] at h2
  have hs : suf = [] := by
    have := congrArg List.length h2
    simp at this h4
    exact List.eq_nil_of_length_eq_zero (by omega)
  rw [hs] at h2; simp at h2
  exact ⟨rfl, h2⟩

theorem exc_visited (ls : List Char) (hne : ls ≠ []) : (0, enc true ls true) ∈ visited ls := by
  apply (visited_iff_matches ls hne ⟨true, ls, [], true⟩ 0).2
  rw [matchesAt_iff]
  exact ⟨hne, by simp, fun _ => rfl, fun _ => by simp⟩

/-! ### Patterns: visited values = Liang's contributions -/

theorem digitAt_nil (o i : Nat) : digitAt [] o i = 0 := by simp [digitAt]

theorem enc_ne_nil (a : Bool) (L : List Char) (b : Bool) (h : L ≠ []) : enc a L b ≠ [] := by
  intro he
  have := congrArg chCount he
  rw [chCount_enc] at this
  simp [chCount] at this
  exact h this

/-- Position `i`: the maximum over the visited vertices is Liang's maximum. -/
theorem visited_eq_liang (ps es : List (List Char)) (ls : List Char) (hne : ls ≠ [])
    (hwf : ∀ p ∈ ps, wellFormed p = true)
    (hnd : ((ps.map parsePat).map Pat.key).Nodup)
    (hex : findException es ls = none) (i : Nat) :
    maxOver (visited ls) (fun x => digitAt (val (build ps es) x.2) x.1 i)
      = liangAt (ps.map parsePat) ls i := by
  have hI := inv_build ps es
  have hT := items_term ps es
  have hnewE : ∀ π o, (o, π) ∈ visited ls → newest (es.map excItem) π = none := by
    intro π o hv
    cases hn : newest (es.map excItem) π with
    | none => rfl
    | some x =>
      exfalso
      obtain ⟨hx, hk⟩ := newest_mem _ _ _ hn
      simp only [List.mem_map] at hx
      obtain ⟨e, he, rfl⟩ := hx
      rw [excItem_key] at hk
      rw [← hk] at hv
      exact findException_none es ls hex e he (visited_exc ls hne o _ hv).2
  have hkeys : (ps.map patItem).map Item.key = (ps.map parsePat).map Pat.key := by
    simp [List.map_map, Function.comp_def, patItem_key']
  unfold liangAt
  apply Nat.le_antisymm
  · rw [maxOver_le_iff]
    rintro ⟨o, π⟩ hx
    simp only
    rcases val_cases _ _ hI hT π with ⟨h0, _⟩ | ⟨hπ, it, h1, h2⟩
    · rw [h0, digitAt_nil]; exact Nat.zero_le _
    · rw [h2]
      change newest (ps.map patItem ++ es.map excItem) π = some it at h1
      rw [newest_append, hnewE π o hx] at h1
      simp only at h1
      obtain ⟨hit, hk⟩ := newest_mem _ _ _ h1
      simp only [List.mem_map] at hit
      obtain ⟨p, hp, rfl⟩ := hit
      rw [patItem_key] at hk
      rw [← hk] at hx
      have hm := (visited_iff_matches ls hne (parsePat p) o).1 hx
      have hob := visited_bound ls _ hx
      simp only at hob
      by_cases hoi : o ≤ i
      · have : digitAt (decodeOps (patItem p).ops) o i = contrib (parsePat p) ls o i := by
          unfold digitAt contrib
          rw [if_pos hoi]
          simp only [hm, hoi, decide_true, Bool.and_self, if_true]
          exact patItem_digits p (hwf p hp) (i - o)
        rw [this]
        refine Nat.le_trans ?_ (le_maxOver _ _ (parsePat p) (List.mem_map_of_mem hp))
        exact le_maxOver _ (fun o => contrib (parsePat p) ls o i) o (by simp; omega)
      · simp [digitAt, hoi]
  · rw [maxOver_le_iff]
    intro P hP
    rw [maxOver_le_iff]
    intro o _
    simp only [List.mem_map] at hP
    obtain ⟨p, hp, rfl⟩ := hP
    unfold contrib
    by_cases hm : (matchesAt (parsePat p) ls o && decide (o ≤ i)) = true
    · simp only [hm, if_true]
      simp only [Bool.and_eq_true, decide_eq_true_eq] at hm
      obtain ⟨hm, hoi⟩ := hm
      have hv := (visited_iff_matches ls hne (parsePat p) o).2 hm
      have hL : (parsePat p).letters ≠ [] := ((matchesAt_iff _ _ _).1 hm).1
      have hnew : newest (itemsOf ps es) (patItem p).key = some (patItem p) := by
        unfold itemsOf
        rw [newest_append]
        have : newest (es.map excItem) (patItem p).key = none := by
          rw [patItem_key]; exact hnewE _ o hv
        rw [this]
        exact newest_nodup (ps.map patItem) (by rw [hkeys]; exact hnd) (patItem p)
          (List.mem_map_of_mem hp)
      have hval : val (build ps es) (patItem p).key = decodeOps (patItem p).ops := by
        rcases val_cases _ _ hI hT (patItem p).key with ⟨_, h0 | h0⟩ | ⟨_, it, h1, h2⟩
        · exfalso; rw [patItem_key] at h0; exact enc_ne_nil _ _ _ hL h0
        · exfalso; change newest (itemsOf ps es) _ = none at h0; rw [hnew] at h0; cases h0
        · change newest (itemsOf ps es) _ = some it at h1
          rw [hnew] at h1; cases h1; exact h2
      have : (parsePat p).digits.getD (i - o) 0
          = digitAt (val (build ps es) (patItem p).key) o i := by
        rw [hval]; unfold digitAt; rw [if_pos hoi]
        exact (patItem_digits p (hwf p hp) (i - o)).symm
      rw [this]
      rw [patItem_key] at *
      exact le_maxOver (visited ls) (fun x => digitAt (val (build ps es) x.2) x.1 i) _ hv
    · simp [hm]

theorem scores_eq_liang_aux (ps es : List (List Char)) (lc : Char → Option Char)
    (w ls : List Char) (hl : w.mapM lc = some ls)
    (hwf : ∀ p ∈ ps, wellFormed p = true)
    (hnd : ((ps.map parsePat).map Pat.key).Nodup)
    (hex : findException es ls = none) :
    aggregateScores (build ps es) lc w = some (liangScores (ps.map parsePat) ls) := by
  obtain ⟨s', h1, h2, h3⟩ := aggregate_pointwise _ (bounded_build ps es) lc w ls hl
  have hlen := mapM_length lc w ls hl
  have hbl := byteLen_ge w
  rw [h1]
  congr 1
  by_cases hne : ls = []
  · subst hne
    have : w.length = 0 := by simpa using hlen.symm
    simp [this, liangScores]
  · apply List.ext_getElem
    · simp [liangScores]; omega
    · intro i hi1 hi2
      simp only [List.length_take, List.length_set] at hi1
      simp only [liangScores, List.getElem_map, List.getElem_range, List.getElem_take]
      rw [List.getElem_set]
      by_cases hi0 : i = 0
      · subst hi0; simp
      · have : ¬ 0 = i := fun h => hi0 h.symm
        simp only [this, hi0, if_false]
        rw [← visited_eq_liang ps es ls hne hwf hnd hex i, ← h3 i]
        rw [List.getD_eq_getElem?_getD, List.getElem?_eq_getElem (by omega)]
        rfl

/-! ### Exceptions win -/

theorem getD_le_of_all (l : List Nat) (b : Nat) (h : ∀ d ∈ l, d ≤ b) (j : Nat) : l.getD j 0 ≤ b := by
  rw [List.getD_eq_getElem?_getD]
  cases hj : l[j]? with
  | none => simp
  | some d => simp; exact h d (List.mem_of_getElem? hj)

theorem codes_getD_ge (l : List Bool) (j : Nat) (h : j < l.length) : 12 ≤ (l.map code).getD j 0 := by
  rw [List.getD_eq_getElem?_getD, List.getElem?_eq_getElem (by simpa using h)]
  simp only [List.getElem_map, Option.getD_some]
  cases l[j] <;> simp [code, excNo, excHyph]

theorem oddIdx_codes (l : List Bool) (k : Nat) : oddIdx k (l.map code) = trueIdx k l := by
  induction l generalizing k with
  | nil => rfl
  | cons b l ih => cases b <;> simp [oddIdx, trueIdx, code, excNo, excHyph, ih]

theorem trueIdx_ge (l : List Bool) (k : Nat) : ∀ x ∈ trueIdx k l, k ≤ x := by
  induction l generalizing k with
  | nil => intro x h; cases h
  | cons b l ih =>
    intro x h
    cases b
    · simp only [trueIdx] at h
      have := ih (k + 1) x (by simpa using h); omega
    · simp only [trueIdx, if_true, List.mem_cons] at h
      rcases h with rfl | h
      · exact Nat.le_refl _
      · have := ih (k + 1) x h; omega

theorem oddIdx_listed (l : List Bool) :
    oddIdx 0 ((l.map code).set 0 0) = (trueIdx 0 l).filter (fun i => decide (0 < i)) := by
  cases l with
  | nil => rfl
  | cons b l =>
    have hf : (trueIdx 1 l).filter (fun i => decide (0 < i)) = trueIdx 1 l := by
      rw [List.filter_eq_self]
      intro x hx; have := trueIdx_ge l 1 x hx; simp; omega
    simp only [List.map_cons, List.set_cons_zero, oddIdx]
    rw [show (0 + 1 = 1) from rfl, oddIdx_codes]
    cases b <;> simp [trueIdx, hf]

/-- The word is a listed exception: every position carries exactly the exception's code. -/
theorem exception_scores (ps es : List (List Char)) (lc : Char → Option Char)
    (w ls e : List Char) (hl : w.mapM lc = some ls) (hex : findException es ls = some e) :
    aggregateScores (build ps es) lc w = some (((marks e false).map code).set 0 0) := by
  obtain ⟨s', h1, h2, h3⟩ := aggregate_pointwise _ (bounded_build ps es) lc w ls hl
  have hlen := mapM_length lc w ls hl
  have hbl := byteLen_ge w
  have hstrip := findException_strip es ls e hex
  have hml : (marks e false).length = ls.length := by rw [marks_length, hstrip]
  rw [h1]; congr 1
  by_cases hne : ls = []
  · subst hne
    have h0 : w.length = 0 := by simpa using hlen.symm
    have : marks e false = [] := List.eq_nil_of_length_eq_zero (by simpa using hml)
    simp [h0, this]
  · have hI := inv_build ps es
    have hT := items_term ps es
    obtain ⟨pend, hdec, _⟩ := excItem_decode e
    -- the exception's vertex
    have hnew0 : newest (es.map excItem) (enc true ls true) = some (excItem e) := by
      rw [newest_exc, hex]; rfl
    have hnew : newest (itemsOf ps es) (enc true ls true) = some (excItem e) := by
      unfold itemsOf; rw [newest_append, hnew0]
    have hval : val (build ps es) (enc true ls true) = decodeOps (excItem e).ops := by
      rcases val_cases _ _ hI hT (enc true ls true) with ⟨_, h0 | h0⟩ | ⟨_, it, h1, h2⟩
      · exfalso; exact enc_ne_nil _ _ _ hne h0
      · exfalso; change newest (itemsOf ps es) _ = none at h0; rw [hnew] at h0; cases h0
      · change newest (itemsOf ps es) _ = some it at h1
        rw [hnew] at h1; cases h1; exact h2
    have key : ∀ i, i < ls.length → s'.getD i 0 = ((marks e false).map code).getD i 0 := by
      intro i hi
      have hci : (decodeOps (excItem e).ops).getD i 0 = ((marks e false).map code).getD i 0 := by
        rw [hdec, List.getD_eq_getElem?_getD, List.getD_eq_getElem?_getD,
          List.getElem?_append_left (by simp; omega)]
      have hge : 12 ≤ ((marks e false).map code).getD i 0 := codes_getD_ge _ i (by omega)
      rw [h3 i]
      apply Nat.le_antisymm
      · rw [maxOver_le_iff]
        rintro ⟨o, π⟩ hx
        simp only
        rcases val_cases _ _ hI hT π with ⟨h0, _⟩ | ⟨hπ, it, hn1, hn2⟩
        · rw [h0, digitAt_nil]; exact Nat.zero_le _
        · rw [hn2]
          change newest (ps.map patItem ++ es.map excItem) π = some it at hn1
          rw [newest_append] at hn1
          cases hne' : newest (es.map excItem) π with
          | some x =>
            rw [hne'] at hn1; simp only at hn1; cases hn1
            obtain ⟨hx1, hk⟩ := newest_mem _ _ _ hne'
            simp only [List.mem_map] at hx1
            obtain ⟨e', _, rfl⟩ := hx1
            rw [excItem_key] at hk
            rw [← hk] at hx
            obtain ⟨ho, hL⟩ := visited_exc ls hne o _ hx
            subst ho
            rw [hL] at hk
            rw [← hk, hnew0] at hne'
            have he := Option.some.inj hne'
            rw [← he]
            simp only [digitAt, Nat.zero_le, if_true, Nat.sub_zero]
            rw [hci]; exact Nat.le_refl _
          | none =>
            rw [hne'] at hn1; simp only at hn1
            obtain ⟨hit, _⟩ := newest_mem _ _ _ hn1
            simp only [List.mem_map] at hit
            obtain ⟨p, _, rfl⟩ := hit
            have : digitAt (decodeOps (patItem p).ops) o i ≤ 9 := by
              unfold digitAt; split
              · exact getD_le_of_all _ 9 (patItem_digits_le p) _
              · omega
            omega
      · have := le_maxOver (visited ls) (fun x => digitAt (val (build ps es) x.2) x.1 i)
          (0, enc true ls true) (exc_visited ls hne)
        simp only [hval, digitAt, Nat.zero_le, if_true, Nat.sub_zero, hci] at this
        exact this
    apply List.ext_getElem
    · simp [hml]; omega
    · intro i hi1 hi2
      simp only [List.length_take, List.length_set] at hi1
      simp only [List.getElem_take]
      rw [List.getElem_set, List.getElem_set]
      by_cases hi0 : 0 = i
      · simp [hi0]
      · simp only [hi0, if_false]
        have := key i (by omega)
        rw [List.getD_eq_getElem?_getD, List.getD_eq_getElem?_getD,
          List.getElem?_eq_getElem (by omega),
          List.getElem?_eq_getElem (by simp [hml]; omega)] at this
        simpa using this

/-! ### No index is ever out of range (any word, letters or not) -/

theorem visit_some (h : Hyph) (hB : Bounded h) (off : Nat) (π : List Edge) (s : List Nat)
    (hb : off + chCount π + 1 ≤ s.length) :
    ∃ s', visit h off π s = some s' ∧ s'.length = s.length := by
  have h1 : off + (val h π).length ≤ s.length := by have := hB π; omega
  rw [visit_eq h off π s h1]
  obtain ⟨s', hs'⟩ := applyDigits_some (val h π) off s h1
  exact ⟨s', hs', applyDigits_length _ _ _ _ hs'⟩

theorem process_some (h : Hyph) (hB : Bounded h) (lc : Char → Option Char) (off : Nat)
    (cs : List Char) (v : List Edge) (s : List Nat)
    (hs : off + chCount v + cs.length + 1 ≤ s.length) :
    ∃ s', process h lc off v cs s = some s' ∧ s'.length = s.length := by
  induction cs generalizing v s with
  | nil =>
    simp only [process]
    split
    · exact visit_some h hB off _ s (by simp [chCount_append, chCount] at hs ⊢; omega)
    · exact ⟨s, rfl, rfl⟩
  | cons c cs ih =>
    simp only [process]
    cases lc c with
    | none => exact ⟨s, rfl, rfl⟩
    | some l =>
      simp only
      split
      · obtain ⟨s1, h1, h2⟩ := visit_some h hB off (v ++ [.ch l]) s
          (by simp [chCount_append, chCount] at hs ⊢; omega)
        rw [h1]; simp only
        obtain ⟨s2, h3, h4⟩ := ih (v ++ [.ch l]) s1
          (by simp [chCount_append, chCount] at hs ⊢; omega)
        exact ⟨s2, h3, by omega⟩
      · exact ⟨s, rfl, rfl⟩

theorem offsets_some (h : Hyph) (hB : Bounded h) (lc : Char → Option Char) (off : Nat)
    (cs : List Char) (s : List Nat) (hs : off + cs.length + 1 ≤ s.length) :
    ∃ s', offsets h lc off cs s = some s' ∧ s'.length = s.length := by
  induction cs generalizing off s with
  | nil => exact ⟨s, rfl, rfl⟩
  | cons c cs ih =>
    simp only [offsets]
    cases lc c with
    | none => exact ⟨s, rfl, rfl⟩
    | some l =>
      simp only
      obtain ⟨s1, h1, h2⟩ := process_some h hB lc off (c :: cs) [] s (by simp [chCount] at hs ⊢; omega)
      rw [h1]; simp only
      obtain ⟨s2, h3, h4⟩ := ih (off + 1) s1 (by simp at hs; omega)
      exact ⟨s2, h3, by omega⟩

theorem aggregate_some (h : Hyph) (hB : Bounded h) (lc : Char → Option Char) (w : List Char) :
    ∃ s, aggregateScores h lc w = some s ∧ s.length = w.length := by
  have hbl := byteLen_ge w
  unfold aggregateScores forEachPattern
  have h1 : ∃ s1, (if hasPrefix h.trie [.start] = true
        then process h lc 0 [.start] w (List.replicate (byteLen w + 1) 0)
        else some (List.replicate (byteLen w + 1) 0)) = some s1 ∧ s1.length = byteLen w + 1 := by
    split
    · obtain ⟨s1, h1, h2⟩ := process_some h hB lc 0 w [.start] (List.replicate (byteLen w + 1) 0)
        (by simp [chCount]; omega)
      exact ⟨s1, h1, by simpa using h2⟩
    · exact ⟨_, rfl, by simp⟩
  obtain ⟨s1, h1, h2⟩ := h1
  rw [h1]; simp only
  obtain ⟨s2, h3, h4⟩ := offsets_some h hB lc 0 w s1 (by omega)
  rw [h3]
  exact ⟨_, rfl, by simp; omega⟩

end C13
