import TexcraftModel.Lemmas.C04AlgoGroups
import TexcraftModel.Lemmas.C04AlgoDefsQ

/-!
`groupsRun_cover` / `groupsRun_sorted` for an arbitrary looseness `q`: with `q ≠ 0` every round
looks at the maximal prefix of nodes on the line of the first node, and the line classes are the
line numbers themselves. Core Lean only.
-/
namespace C04

/-! ### Translating the `q`-general notions -/

theorem grpq_sorted_zero (x : Inst) (l : List ANode) : SortedQ x 0 l ↔ SortedK x l := by
  unfold SortedQ SortedK
  simp [ckey]

theorem grpq_sorted_ne (x : Inst) (q : Int) (hq : q ≠ 0) (l : List ANode) :
    SortedQ x q l ↔ l.Pairwise fun a b => a.line ≤ b.line := by
  unfold SortedQ
  simp [ckey, hq]

theorem grpq_shape_zero (x : Inst) (G : List ANode) (h : GroupShape x G) : GroupShapeQ x 0 G := by
  rcases h with h | h
  · exact Or.inl h
  · exact Or.inr ⟨rfl, h⟩

/-! ### One round with `q ≠ 0` -/

theorem grpq_run (x : Inst) (q : Int) (hq : q ≠ 0) (c : BCtx) (fuel : Nat) (first : ANode)
    (t : List ANode) :
    groupsRun x q c (fuel + 1) (first :: t) =
      groupOut x c ((first :: t).takeWhile fun ν => ν.line == first.line) ++
        groupsRun x q c fuel ((first :: t).dropWhile fun ν => ν.line == first.line) := by
  have hm : numNext x q (first :: t) (first :: t).length =
      ((first :: t).takeWhile fun ν => ν.line == first.line).length := by
    unfold numNext
    simp [hq]
  rw [groupsRun, if_neg (List.cons_ne_nil _ _)]
  simp only [hm, grp_take_takeWhile, grp_drop_takeWhile]

/-- Behind the maximal prefix of nodes on line `L` all nodes are on a later line. -/
theorem grpq_rest_line (L : Nat) (l : List ANode)
    (hs : l.Pairwise fun a b => a.line ≤ b.line) (hl : ∀ a, a ∈ l → L ≤ a.line) (μ : ANode)
    (hμ : μ ∈ l.dropWhile fun ν => ν.line == L) : L + 1 ≤ μ.line := by
  induction l with
  | nil => simp at hμ
  | cons a l ih =>
    have hs' := List.pairwise_cons.1 hs
    by_cases h : (a.line == L) = true
    · simp only [List.dropWhile_cons, h] at hμ
      exact ih hs'.2 (fun b hb => hl b (List.mem_cons_of_mem _ hb)) hμ
    · simp only [List.dropWhile_cons, h] at hμ
      have ha : L + 1 ≤ a.line := by
        have h1 := hl a (List.mem_cons_self ..)
        have h2 : a.line ≠ L := by simpa using h
        omega
      rcases List.mem_cons.1 hμ with rfl | hμ
      · exact ha
      · exact Nat.le_trans ha (hs'.1 μ hμ)

/-- Every node of `groupOut` of a group on line `L` is on line `L` or `L + 1`. -/
theorem grpq_out_le (x : Inst) (c : BCtx) (G : List ANode) (L : Nat)
    (hG : ∀ ν, ν ∈ G → ν.line = L) (μ : ANode) (h : μ ∈ groupOut x c G) : μ.line ≤ L + 1 := by
  rcases groupOut_line x c G μ h with h | ⟨ν, hν, hl⟩
  · rw [hG μ h]
    exact Nat.le_succ _
  · rw [hl, hG ν hν]
    exact Nat.le_refl _

/-- `groupOut` of a group on one line is sorted by line. -/
theorem grpq_out_sorted (x : Inst) (c : BCtx) (G : List ANode) (L : Nat)
    (hG : ∀ ν, ν ∈ G → ν.line = L) :
    (groupOut x c G).Pairwise fun a b => a.line ≤ b.line := by
  unfold groupOut
  simp only
  rw [List.pairwise_append]
  have hnew : ∀ μ, μ ∈ (if (scanC x c G (Cands.init, awfulBad)).2 < awfulBad then
        newNodes c (breakWidth x c.i c.diffs) (scanC x c G (Cands.init, awfulBad)).1
          (pruneThreshold x.p.adjDemerits (scanC x c G (Cands.init, awfulBad)).2)
      else []) → μ.line = L + 1 := by
    intro μ hμ
    split at hμ
    · obtain ⟨ν, hν, hl⟩ := grp_new_line x c G _ μ hμ
      rw [hl, hG ν hν]
    · simp at hμ
  refine ⟨?_, ?_, ?_⟩
  · apply grp_pairwise_of_all
    intro a ha b hb
    rw [hG a (grp_surv_mem x c G a ha), hG b (grp_surv_mem x c G b hb)]
    exact Nat.le_refl _
  · apply grp_pairwise_of_all
    intro a ha b hb
    rw [hnew a ha, hnew b hb]
    exact Nat.le_refl _
  · intro a ha b hb
    rw [hnew b hb, hG a (grp_surv_mem x c G a ha)]
    exact Nat.le_succ _

/-! ### The statements for `q ≠ 0` -/

theorem grpq_cover_ne (x : Inst) (q : Int) (hq : q ≠ 0) (c : BCtx) (fuel : Nat)
    (todo : List ANode) (hf : todo.length ≤ fuel) (ν : ANode) (hν : ν ∈ todo) :
    ∃ G, ν ∈ G ∧ (∀ μ, μ ∈ G → μ ∈ todo) ∧ (∀ μ ∈ G, ∀ μ' ∈ G, μ.line = μ'.line) ∧
      ∀ μ, μ ∈ groupOut x c G → μ ∈ groupsRun x q c fuel todo := by
  induction fuel generalizing todo with
  | zero =>
    have : todo = [] := List.eq_nil_of_length_eq_zero (Nat.le_zero.1 hf)
    subst this
    simp at hν
  | succ fuel ih =>
    cases todo with
    | nil => simp at hν
    | cons first t =>
      rw [grpq_run x q hq c fuel first t]
      rw [← List.takeWhile_append_dropWhile (p := fun ν => ν.line == first.line)
        (l := first :: t)] at hν
      rcases List.mem_append.1 hν with hν | hν
      · refine ⟨_, hν, fun μ hμ => (List.takeWhile_sublist _).subset hμ, ?_, ?_⟩
        · intro μ hμ μ' hμ'
          have h1 := grp_mem_takeWhile _ _ _ hμ
          have h2 := grp_mem_takeWhile _ _ _ hμ'
          simp only [beq_iff_eq] at h1 h2
          rw [h1, h2]
        · intro μ hμ
          exact List.mem_append_left _ hμ
      · have hlen := grp_dropWhile_len first t
        have hsub : ((first :: t).dropWhile fun ν => ν.line == first.line).Sublist (first :: t) :=
          List.dropWhile_sublist _
        obtain ⟨G, hG1, hG2, hG3, hG4⟩ := ih _
          (Nat.le_trans hlen (Nat.le_of_succ_le_succ hf)) hν
        exact ⟨G, hG1, fun μ hμ => hsub.subset (hG2 μ hμ), hG3,
          fun μ hμ => List.mem_append_right _ (hG4 μ hμ)⟩

theorem grpq_sorted_ne_run (x : Inst) (q : Int) (hq : q ≠ 0) (c : BCtx) (fuel : Nat)
    (todo : List ANode) (hf : todo.length ≤ fuel)
    (hs : todo.Pairwise fun a b => a.line ≤ b.line) :
    (groupsRun x q c fuel todo).Pairwise fun a b => a.line ≤ b.line := by
  induction fuel generalizing todo with
  | zero => simp [groupsRun]
  | succ fuel ih =>
    cases todo with
    | nil => simp [groupsRun]
    | cons first t =>
      rw [grpq_run x q hq c fuel first t]
      have hlen := grp_dropWhile_len first t
      have hsubD : ((first :: t).dropWhile fun ν => ν.line == first.line).Sublist (first :: t) :=
        List.dropWhile_sublist _
      have hGline : ∀ ν, ν ∈ ((first :: t).takeWhile fun ν => ν.line == first.line) →
          ν.line = first.line := by
        intro ν hν
        have h1 := grp_mem_takeWhile _ _ _ hν
        simpa using h1
      have hfirst : ∀ a, a ∈ first :: t → first.line ≤ a.line := by
        intro a ha
        rcases List.mem_cons.1 ha with rfl | ha
        · exact Nat.le_refl _
        · exact (List.pairwise_cons.1 hs).1 a ha
      have hrest := grpq_rest_line first.line (first :: t) hs hfirst
      rw [List.pairwise_append]
      refine ⟨?_, ?_, ?_⟩
      · exact grpq_out_sorted x c _ first.line hGline
      · exact ih _ (Nat.le_trans hlen (Nat.le_of_succ_le_succ hf)) (List.Pairwise.sublist hsubD hs)
      · intro a ha b hb'
        have h1 := grpq_out_le x c _ first.line hGline a ha
        obtain ⟨G, hG, hbG⟩ := groupsRun_sub x q c fuel _ b hb'
        have h2 : first.line + 1 ≤ b.line := by
          rcases groupOut_line x c G b hbG with h | ⟨ν, hν, hl⟩
          · exact hrest b (hG b h)
          · rw [hl]
            exact Nat.le_trans (hrest ν (hG ν hν)) (Nat.le_succ _)
        exact Nat.le_trans h1 h2

/-! ### The statements -/

theorem groupsRun_coverQ (x : Inst) (q : Int) (c : BCtx) (fuel : Nat) (todo : List ANode)
    (hf : todo.length ≤ fuel) (hs : SortedQ x q todo) (ν : ANode) (hν : ν ∈ todo) :
    ∃ G, ν ∈ G ∧ (∀ μ, μ ∈ G → μ ∈ todo) ∧ GroupShapeQ x q G ∧
      ∀ μ, μ ∈ groupOut x c G → μ ∈ groupsRun x q c fuel todo := by
  by_cases hq : q = 0
  · subst hq
    obtain ⟨G, h1, h2, h3, h4⟩ :=
      groupsRun_cover x c fuel todo hf ((grpq_sorted_zero x todo).1 hs) ν hν
    exact ⟨G, h1, h2, grpq_shape_zero x G h3, h4⟩
  · obtain ⟨G, h1, h2, h3, h4⟩ := grpq_cover_ne x q hq c fuel todo hf ν hν
    exact ⟨G, h1, h2, Or.inl h3, h4⟩

theorem groupsRun_sortedQ (x : Inst) (q : Int) (c : BCtx) (fuel : Nat) (todo : List ANode)
    (hf : todo.length ≤ fuel) (hs : SortedQ x q todo) :
    SortedQ x q (groupsRun x q c fuel todo) := by
  by_cases hq : q = 0
  · subst hq
    exact (grpq_sorted_zero x _).2
      (groupsRun_sorted x c fuel todo hf ((grpq_sorted_zero x todo).1 hs))
  · exact (grpq_sorted_ne x q hq _).2
      (grpq_sorted_ne_run x q hq c fuel todo hf ((grpq_sorted_ne x q hq todo).1 hs))

end C04
