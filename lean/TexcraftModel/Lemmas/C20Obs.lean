import TexcraftModel.Lemmas.C20GMap

/-! C20 — the remaining observers of the scoped map (`iter`, `len`, `is_empty`) and `extend`. -/
namespace C20
variable {K V : Type} [DecidableEq K]

theorem alookup_eq_some_of_mem {W : Type} (l : AList K W) (h : NodupKeys l) (k : K) (v : W)
    (hm : (k, v) ∈ l) : alookup l k = some v := by
  induction l with
  | nil => cases hm
  | cons p t ih =>
    obtain ⟨k', v'⟩ := p
    simp only [NodupKeys, List.map_cons, List.nodup_cons] at h
    simp only [alookup]
    rcases List.mem_cons.mp hm with heq | ht
    · injection heq with h1 h2
      subst h1; subst h2; simp
    · have hne : k' ≠ k := by
        intro e
        subst e
        exact h.1 (List.mem_map.mpr ⟨(k', v), ht, rfl⟩)
      simp [hne, ih h.2 ht]

theorem mem_of_alookup_eq_some {W : Type} (l : AList K W) (k : K) (v : W)
    (h : alookup l k = some v) : (k, v) ∈ l := by
  induction l with
  | nil => simp [alookup] at h
  | cons p t ih =>
    obtain ⟨k', v'⟩ := p
    simp only [alookup] at h
    by_cases e : k' = k
    · simp [e] at h
      subst e; subst h; exact List.mem_cons_self
    · simp [e] at h
      exact List.mem_cons_of_mem _ (ih h)

/-- `iter()` yields exactly the visible pairs, each key once; `len()` is their number;
`is_empty()` says whether there is none. -/
theorem gmap_iter_spec (m : GMap K V) (h : Inv m) :
    (∀ k v, (k, v) ∈ m.iter ↔ m.abs.cur k = some v) ∧ (m.iter.map (·.1)).Nodup ∧
    m.len = m.iter.length ∧ (m.isEmpty = true ↔ ∀ k, m.abs.cur k = none) := by
  refine ⟨fun k v => ⟨alookup_eq_some_of_mem m.bc h.bcNodup k v, mem_of_alookup_eq_some m.bc k v⟩,
    h.bcNodup, rfl, ?_⟩
  simp only [GMap.isEmpty, GMap.len, GMap.abs]
  constructor
  · intro he k
    have : m.bc = [] := List.eq_nil_of_length_eq_zero (by simpa using he)
    simp [this, alookup]
  · intro hall
    cases hb : m.bc with
    | nil => simp
    | cons p t =>
      obtain ⟨k, v⟩ := p
      have := hall k
      simp [hb, alookup] at this

/-- `extend` is a run of local inserts. -/
theorem gmap_extend_run (m : GMap K V) (l : List (K × V)) :
    m.extend l = (m.run (l.map fun p => Op.insert p.1 p.2 .loc)).1 := by
  induction l generalizing m with
  | nil => rfl
  | cons p t ih =>
    obtain ⟨k, v⟩ := p
    simp only [GMap.extend, List.map_cons, GMap.run, GMap.step]
    exact ih _

end C20
