import TexcraftModel.Model.C20Kmp

/-!
# C20 — KMP streaming matcher: correctness of the model

Main results: `search_spec`, `prefixFn_spec`, `search_next_spec`, `prefixFn_eq_specPf`.
-/
namespace C20.Kmp

variable {α : Type} [DecidableEq α]

/-! ## Matching lengths -/

/-- `n` is a matching length: the length-`n` prefix of `pat` is a suffix of `c`. -/
def M (pat c : List α) (n : Nat) : Prop := n ≤ pat.length ∧ pat.take n <:+ c

omit [DecidableEq α] in
theorem M_zero (pat c : List α) : M pat c 0 := ⟨Nat.zero_le _, by simp⟩

omit [DecidableEq α] in
theorem M_succ_iff (pat c : List α) (x : α) (n : Nat) :
    M pat (c ++ [x]) (n + 1) ↔ M pat c n ∧ pat[n]? = some x := by
  unfold M
  constructor
  · rintro ⟨hn, hs⟩
    have hlt : n < pat.length := hn
    rw [List.take_succ_eq_append_getElem hlt,
      List.suffix_append_inj_of_length_eq (by simp)] at hs
    refine ⟨⟨by omega, hs.1⟩, ?_⟩
    rw [List.getElem?_eq_getElem hlt]
    simpa using hs.2
  · rintro ⟨⟨_, hs⟩, hx⟩
    obtain ⟨hlt, hx'⟩ := List.getElem?_eq_some_iff.1 hx
    refine ⟨hlt, ?_⟩
    rw [List.take_succ_eq_append_getElem hlt,
      List.suffix_append_inj_of_length_eq (by simp)]
    exact ⟨hs, by rw [hx']⟩

omit [DecidableEq α] in
theorem M_of_le {pat c : List α} {k n : Nat} (hk : M pat c k) (hnk : n ≤ k) :
    M pat c n ↔ pat.take n <:+ pat.take k := by
  constructor
  · intro hn
    refine List.suffix_of_suffix_length_le hn.2 hk.2 ?_
    simp only [List.length_take]; omega
  · intro h
    exact ⟨by have := hk.1; omega, h.trans hk.2⟩

omit [DecidableEq α] in
theorem M_le_length {pat c : List α} {n : Nat} (h : M pat c n) : n ≤ c.length := by
  have := h.2.length_le
  have := h.1
  simp only [List.length_take] at *
  omega

/-! ## Table correctness -/

/-- `pf[i]` is the length of the longest proper border of `pat.take (i+1)`. -/
def TableOK (pat : List α) (pf : List Nat) : Prop :=
  ∀ i r, pf[i]? = some r →
    r ≤ i ∧ pat.take r <:+ pat.take (i + 1) ∧
      ∀ n, n ≤ i → pat.take n <:+ pat.take (i + 1) → n ≤ r

/-! ## The failure-chain walk -/

theorem fallback_ok (pat : List α) (pf : List Nat) (c : List α) (x : α) (hT : TableOK pat pf) :
    ∀ k, k < pat.length → k ≤ pf.length → M pat c k → ∀ fuel, k < fuel →
      ∃ k', fallback pat pf x fuel k = .ok k' ∧ k' ≤ k ∧ M pat c k' ∧
        (k' ≠ 0 → pat[k']? = some x) ∧
        ∀ n, n ≤ k → n ≠ 0 → M pat c n → pat[n]? = some x → n ≤ k' := by
  intro k
  induction k using Nat.strongRecOn with
  | _ k ih =>
    intro hk hpf hM fuel hfuel
    cases k with
    | zero =>
      refine ⟨0, ?_, Nat.le_refl _, hM, fun h => absurd rfl h,
        fun n hn hn0 => absurd (Nat.le_zero.1 hn) hn0⟩
      cases fuel <;> rfl
    | succ k =>
      cases fuel with
      | zero => omega
      | succ fuel =>
        obtain ⟨d, hd⟩ : ∃ d, pat[k + 1]? = some d := ⟨pat[k + 1], List.getElem?_eq_getElem hk⟩
        have hp : k < pf.length := hpf
        obtain ⟨r, hr⟩ : ∃ r, pf[k]? = some r := ⟨pf[k], List.getElem?_eq_getElem hp⟩
        by_cases hx : d = x
        · refine ⟨k + 1, ?_, Nat.le_refl _, hM, fun _ => by rw [hd, hx], fun n hn _ _ _ => hn⟩
          simp [fallback, hd, hx]
        · obtain ⟨hrk, hrs, hrmax⟩ := hT k r hr
          have hMr : M pat c r := (M_of_le hM (by omega)).2 hrs
          obtain ⟨k', he, hle, hM', hx', hmax⟩ :=
            ih r (by omega) (by omega) (by omega) hMr fuel (by omega)
          refine ⟨k', ?_, by omega, hM', hx', ?_⟩
          · simp [fallback, hd, hx, hr, he]
          · intro n hn hn0 hMn hxn
            have hne : n ≠ k + 1 := by
              rintro rfl
              rw [hd] at hxn
              exact hx (Option.some.inj hxn)
            have hnk : n ≤ k := by omega
            have hnr := hrmax n hnk ((M_of_le hM (by omega)).1 hMn)
            exact hmax n hnr hn0 hMn hxn

theorem advance_ok (pat : List α) (pf : List Nat) (c : List α) (x : α) (hT : TableOK pat pf)
    (k : Nat) (hk : k < pat.length) (hpf : k ≤ pf.length) (hM : M pat c k)
    (hmax : ∀ n, n < pat.length → M pat c n → n ≤ k) :
    ∃ k', advance pat pf x k = .ok k' ∧ M pat (c ++ [x]) k' ∧
      ∀ n, M pat (c ++ [x]) n → n ≤ k' := by
  obtain ⟨k0, he, hle, hM0, hx0, hmax0⟩ :=
    fallback_ok pat pf c x hT k hk hpf hM (k + 1) (Nat.lt_succ_self k)
  have hk0 : k0 < pat.length := by omega
  obtain ⟨d, hd⟩ : ∃ d, pat[k0]? = some d := ⟨pat[k0], List.getElem?_eq_getElem hk0⟩
  by_cases hdx : d = x
  · subst hdx
    refine ⟨k0 + 1, by simp [advance, he, hd], (M_succ_iff ..).2 ⟨hM0, hd⟩, ?_⟩
    intro n hn
    cases n with
    | zero => omega
    | succ n =>
      obtain ⟨hMn, hxn⟩ := (M_succ_iff ..).1 hn
      have hnlt : n < pat.length := hn.1
      have hnk := hmax n hnlt hMn
      by_cases hn0 : n = 0
      · omega
      · have := hmax0 n hnk hn0 hMn hxn
        omega
  · have hk00 : k0 = 0 := by
      by_cases h : k0 = 0
      · exact h
      · have := hx0 h
        rw [hd] at this
        exact absurd (Option.some.inj this) hdx
    subst hk00
    refine ⟨0, by simp [advance, he, hd, hdx], M_zero _ _, ?_⟩
    intro n hn
    cases n with
    | zero => omega
    | succ n =>
      exfalso
      obtain ⟨hMn, hxn⟩ := (M_succ_iff ..).1 hn
      have hnlt : n < pat.length := hn.1
      have hnk := hmax n hnlt hMn
      by_cases hn0 : n = 0
      · subst hn0
        rw [hd] at hxn
        exact hdx (Option.some.inj hxn)
      · have := hmax0 n hnk hn0 hMn hxn
        omega

/-! ## Building the table -/

theorem buildPf_ok (pat : List α) :
    ∀ (rest done : List α) (pf : List Nat) (k : Nat), pat = done ++ rest → done ≠ [] →
      pf.length = done.length → TableOK pat pf → M pat (done.drop 1) k →
      (∀ n, M pat (done.drop 1) n → n ≤ k) →
      ∃ pf', buildPf pat rest pf k = .ok pf' ∧ pf'.length = pat.length ∧ TableOK pat pf' := by
  intro rest
  induction rest with
  | nil =>
    intro done pf k hpat _ hlen hT _ _
    exact ⟨pf, rfl, by simp [hpat, hlen], hT⟩
  | cons x rest ih =>
    intro done pf k hpat hne hlen hT hM hmax
    have hdl : 0 < done.length := List.length_pos_iff.2 hne
    have hpl : pat.length = done.length + (rest.length + 1) := by simp [hpat]
    have hkd : k ≤ done.length - 1 := by
      have := M_le_length hM
      simpa using this
    obtain ⟨k', he, hM', hmax'⟩ := advance_ok pat pf (done.drop 1) x hT k (by omega) (by omega) hM
      (fun n _ h => hmax n h)
    have hdrop : done.drop 1 ++ [x] = (done ++ [x]).drop 1 := by
      cases done with
      | nil => exact absurd rfl hne
      | cons a t => simp
    rw [hdrop] at hM' hmax'
    have htake : pat.take (done.length + 1) = done ++ [x] := by
      rw [hpat]
      have : done ++ x :: rest = (done ++ [x]) ++ rest := by simp
      rw [this]
      exact List.take_left' (by simp)
    have hk'd : k' ≤ done.length := by
      have := M_le_length hM'
      simpa using this
    have hT' : TableOK pat (pf ++ [k']) := by
      intro i r hir
      by_cases hi : i < pf.length
      · rw [List.getElem?_append_left hi] at hir
        exact hT i r hir
      · rw [List.getElem?_append_right (by omega)] at hir
        have hi0 : i - pf.length = 0 := by
          cases hj : i - pf.length with
          | zero => rfl
          | succ j => rw [hj] at hir; simp at hir
        rw [hi0] at hir
        have hrk : k' = r := by simpa using hir
        subst hrk
        have hi' : i = done.length := by omega
        subst hi'
        rw [htake]
        refine ⟨hk'd, hM'.2.trans (List.drop_suffix _ _), ?_⟩
        intro n hn hs
        apply hmax' n
        refine ⟨by omega, List.suffix_of_suffix_length_le hs (List.drop_suffix 1 _) ?_⟩
        simp only [List.length_take, List.length_drop, List.length_append, List.length_singleton]
        omega
    obtain ⟨pf', hb, hl', hT''⟩ := ih (done ++ [x]) (pf ++ [k']) k' (by simp [hpat]) (by simp)
      (by simp [hlen]) hT' hM' hmax'
    exact ⟨pf', by simp [buildPf, he, hb], hl', hT''⟩

theorem prefixFn_ok (first : α) (tail : List α) :
    ∃ pf, prefixFn first tail = .ok pf ∧ pf.length = tail.length + 1 ∧
      TableOK (first :: tail) pf := by
  have h := buildPf_ok (first :: tail) tail [first] [0] 0 rfl (by simp) rfl ?_ (M_zero _ _) ?_
  · obtain ⟨pf, h1, h2, h3⟩ := h
    exact ⟨pf, h1, by simpa using h2, h3⟩
  · intro i r hir
    cases i with
    | zero =>
      have : r = 0 := by simpa using hir.symm
      subst this
      exact ⟨Nat.le_refl _, by simp, fun n hn _ => hn⟩
    | succ i => simp at hir
  · intro n hn
    have := M_le_length hn
    simpa using this

/-! ## One step of the matcher -/

/-- The matcher state `q` after consuming `consumed`: the longest proper prefix of `pat`
that is a suffix of `consumed`. -/
def MatchState (pat consumed : List α) (q : Nat) : Prop :=
  q < pat.length ∧ pat.take q <:+ consumed ∧
    ∀ n, n < pat.length → pat.take n <:+ consumed → n ≤ q

theorem next_ok (pat : List α) (pf : List Nat) (hT : TableOK pat pf)
    (hlen : pf.length = pat.length) (consumed : List α) (q : Nat) (x : α)
    (hq : MatchState pat consumed q) :
    ∃ q' b, next pat pf q x = .ok (q', b) ∧ (b = true ↔ pat <:+ consumed ++ [x]) ∧
      MatchState pat (consumed ++ [x]) q' := by
  obtain ⟨hql, hqs, hqmax⟩ := hq
  obtain ⟨k', he, hM', hmax'⟩ := advance_ok pat pf consumed x hT q hql (by omega)
    ⟨by omega, hqs⟩ (fun n hn h => hqmax n hn h.2)
  by_cases hk : k' = pat.length
  · have hp : pat.length - 1 < pf.length := by omega
    obtain ⟨r, hr⟩ : ∃ r, pf[pat.length - 1]? = some r :=
      ⟨pf[pat.length - 1], List.getElem?_eq_getElem hp⟩
    obtain ⟨hrk, hrs, hrmax⟩ := hT _ r hr
    have hfull : pat <:+ consumed ++ [x] := by
      have := hM'.2
      rwa [hk, List.take_length] at this
    have h1 : pat.length - 1 + 1 = pat.length := by omega
    rw [h1, List.take_length] at hrs hrmax
    refine ⟨r, true, ?_, by simp [hfull], by omega, hrs.trans hfull, ?_⟩
    · subst hk
      simp [next, he, hr]
    · intro n hn hs
      apply hrmax n (by omega)
      refine List.suffix_of_suffix_length_le hs hfull ?_
      simp only [List.length_take]; omega
  · have hk'l : k' < pat.length := by have := hM'.1; omega
    refine ⟨k', false, by simp [next, he, hk], ?_, hk'l, hM'.2, ?_⟩
    · constructor
      · intro h; cases h
      · intro h
        exfalso
        have := hmax' pat.length ⟨Nat.le_refl _, by rwa [List.take_length]⟩
        omega
    · intro n hn hs
      exact hmax' n ⟨by omega, hs⟩

theorem search_next_spec (first : α) (tail : List α) (pf : List Nat) (pat consumed : List α)
    (q : Nat) (x : α) (hpf : prefixFn first tail = .ok pf) (hpat : pat = first :: tail)
    (hq : MatchState pat consumed q) :
    ∃ q' b, next pat pf q x = .ok (q', b) ∧ (b = true ↔ pat <:+ consumed ++ [x]) ∧
      MatchState pat (consumed ++ [x]) q' := by
  obtain ⟨pf', h1, h2, h3⟩ := prefixFn_ok first tail
  rw [hpf] at h1
  cases h1
  subst hpat
  exact next_ok _ pf h3 (by simpa using h2) consumed q x hq

/-! ## The whole search -/

theorem searchFrom_ok (pat : List α) (pf : List Nat) (hT : TableOK pat pf)
    (hlen : pf.length = pat.length) :
    ∀ (text consumed : List α) (q : Nat), MatchState pat consumed q →
      searchFrom pat pf q text = .ok (specFrom pat consumed text) := by
  intro text
  induction text with
  | nil => intro consumed q _; rfl
  | cons x xs ih =>
    intro consumed q hq
    obtain ⟨q', b, hn, hb, hq'⟩ := next_ok pat pf hT hlen consumed q x hq
    have hbe : b = pat.isSuffixOf (consumed ++ [x]) := by
      rw [Bool.eq_iff_iff, hb, List.isSuffixOf_iff_suffix]
    simp [searchFrom, specFrom, hn, ih _ _ hq', hbe]

theorem search_spec (first : α) (tail text : List α) :
    search first tail text = .ok (spec (first :: tail) text) := by
  obtain ⟨pf, h1, h2, h3⟩ := prefixFn_ok first tail
  have h0 : MatchState (first :: tail) [] 0 := by
    refine ⟨by simp, by simp, ?_⟩
    intro n hn hs
    have := hs.length_le
    simp only [List.length_take, List.length_nil] at this
    omega
  simp only [search, h1, spec]
  exact searchFrom_ok _ pf h3 (by simpa using h2) text [] 0 h0

/-! ## The prefix function in terms of `IsBorder` -/

omit [DecidableEq α] in
theorem isBorder_iff (s : List α) (n : Nat) :
    IsBorder s n ↔ n ≤ s.length ∧ s.take n <:+ s := by
  unfold IsBorder
  constructor
  · rintro ⟨h, e⟩
    exact ⟨h, by rw [e]; exact List.drop_suffix _ _⟩
  · rintro ⟨h, e⟩
    refine ⟨h, ?_⟩
    have := List.suffix_iff_eq_drop.1 e
    rwa [List.length_take, Nat.min_eq_left h] at this

theorem prefixFn_spec (first : α) (tail : List α) :
    ∃ pf, prefixFn first tail = .ok pf ∧ pf.length = tail.length + 1 ∧
      ∀ i (hi : i < pf.length),
        IsBorder ((first :: tail).take (i + 1)) pf[i] ∧
        pf[i] < ((first :: tail).take (i + 1)).length ∧
        ∀ n, n < ((first :: tail).take (i + 1)).length →
          IsBorder ((first :: tail).take (i + 1)) n → n ≤ pf[i] := by
  obtain ⟨pf, h1, h2, h3⟩ := prefixFn_ok first tail
  refine ⟨pf, h1, h2, ?_⟩
  intro i hi
  obtain ⟨hr, hs, hmax⟩ := h3 i pf[i] (List.getElem?_eq_getElem hi)
  have hl : ((first :: tail).take (i + 1)).length = i + 1 := by
    simp only [List.length_take, List.length_cons]; omega
  refine ⟨?_, by omega, ?_⟩
  · rw [isBorder_iff, hl, List.take_take, Nat.min_eq_left (by omega)]
    exact ⟨by omega, hs⟩
  · intro n hn hb
    rw [hl] at hn
    rw [isBorder_iff, List.take_take, Nat.min_eq_left (by omega)] at hb
    exact hmax n (by omega) hb.2

/-! ## The prefix function equals its executable specification -/

theorem foldl_max_eq (l : List Nat) (r : Nat) :
    ∀ a, (r ∈ l ∨ r = a) → (∀ y ∈ l, y ≤ r) → a ≤ r → l.foldl max a = r := by
  induction l with
  | nil =>
    intro a hmem _ _
    rcases hmem with h | h
    · cases h
    · exact h.symm
  | cons y l ih =>
    intro a hmem hle ha
    have hy : y ≤ r := hle y (by simp)
    rw [List.foldl_cons]
    apply ih
    · rcases hmem with h | h
      · rcases List.mem_cons.1 h with h | h
        · right; omega
        · left; exact h
      · right; omega
    · intro z hz; exact hle z (by simp [hz])
    · omega

theorem longestProperBorder_eq (s : List α) (r : Nat) (hb : IsBorder s r) (hr : r < s.length)
    (hmax : ∀ n, n < s.length → IsBorder s n → n ≤ r) : longestProperBorder s = r := by
  unfold longestProperBorder
  apply foldl_max_eq
  · left
    rw [List.mem_filter, List.mem_range]
    exact ⟨hr, by simpa using hb.2⟩
  · intro y hy
    rw [List.mem_filter, List.mem_range] at hy
    exact hmax y hy.1 ⟨by omega, by simpa using hy.2⟩
  · omega

theorem prefixFn_eq_specPf (first : α) (tail : List α) :
    prefixFn first tail = .ok (specPf (first :: tail)) := by
  obtain ⟨pf, h1, h2, h3⟩ := prefixFn_spec first tail
  rw [h1]
  congr 1
  apply List.ext_getElem
  · simp [specPf, h2]
  · intro i hi hi'
    obtain ⟨hb, hr, hmax⟩ := h3 i hi
    simp only [specPf, List.getElem_map, List.getElem_range]
    exact (longestProperBorder_eq _ _ hb hr hmax).symm

end C20.Kmp
