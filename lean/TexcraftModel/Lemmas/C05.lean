import TexcraftModel.Model.C05

/-!
# C05 — helper lemmas

Part 1: the shape invariant `GoodRepl` of every table entry and the closed form of `drain`
on such entries (used by `spell`).
-/
namespace C05

/-! ## Shape of a replacement -/

def allLig : List IOp → Bool
  | [] => true
  | .kern _ :: t => allLig t
  | .ch c :: t => c.lig && allLig t

def hasCh : List IOp → Bool
  | [] => false
  | .kern _ :: t => hasCh t
  | .ch _ :: _ => true

/-- The first character op is a ligature or the left character itself; all later ones are ligatures. -/
def firstOK (l : Option Nat) : List IOp → Bool
  | [] => true
  | .kern _ :: t => firstOK l t
  | .ch c :: t => (c.lig || l == some c.c) && allLig t

/-- What `spell` needs of a table entry for the pair `(l, r)`. -/
structure GoodRepl (l : Option Nat) (r : Nat) (rep : Repl) : Prop where
  first : firstOK l rep.1 = true
  lastR : rep.2.lig = false → rep.2.c = r
  empty : hasCh rep.1 = false → rep.2.lig = false → l = none

theorem allLig_append (a b : List IOp) : allLig (a ++ b) = (allLig a && allLig b) := by
  induction a with
  | nil => simp [allLig]
  | cons x t ih => cases x <;> simp [allLig, ih, Bool.and_assoc]

theorem hasCh_append (a b : List IOp) : hasCh (a ++ b) = (hasCh a || hasCh b) := by
  induction a with
  | nil => simp [hasCh]
  | cons x t ih => cases x <;> simp [hasCh, ih]

theorem firstOK_append (l : Option Nat) (a b : List IOp) :
    firstOK l (a ++ b) = if hasCh a then (firstOK l a && allLig b) else firstOK l b := by
  induction a with
  | nil => simp [hasCh]
  | cons x t ih =>
    cases x with
    | kern k => simp only [List.cons_append, firstOK, hasCh]; exact ih
    | ch c => simp [firstOK, hasCh, allLig_append, Bool.and_assoc]

theorem firstOK_of_allLig (l : Option Nat) (a : List IOp) (h : allLig a = true) : firstOK l a = true := by
  induction a with
  | nil => rfl
  | cons x t ih =>
    cases x with
    | kern k => simpa [firstOK, allLig] using ih (by simpa [allLig] using h)
    | ch c => simp [allLig] at h; simp [firstOK, h]

/-! ## `markFirst` -/

theorem markFirst_false (ops : List IOp) : markFirst false ops = (ops, false) := by
  induction ops with
  | nil => rfl
  | cons x t ih =>
    cases x with
    | kern k => simp [markFirst, ih]
    | ch c => cases c; simp [markFirst]

theorem markFirst_true (l : Option Nat) (ops : List IOp) (h : firstOK l ops = true) :
    allLig (markFirst true ops).1 = true ∧ (markFirst true ops).2 = !hasCh ops
      ∧ hasCh (markFirst true ops).1 = hasCh ops := by
  induction ops with
  | nil => simp [markFirst, allLig, hasCh]
  | cons x t ih =>
    cases x with
    | kern k =>
      have := ih (by simpa [firstOK] using h)
      simpa [markFirst, allLig, hasCh] using this
    | ch c =>
      simp [firstOK] at h
      simp [markFirst, allLig, hasCh, h.2]

/-! ## `drain` on good replacements (originals only) -/

theorem drain_allLig (left : Option Nat) (nl : Bool) (ops : List IOp) (h : allLig ops = true) :
    originals (drain left nl ops none false).1 = [] ∧ (drain left nl ops none false).2 = (none, false) := by
  induction ops with
  | nil => simp [drain, originals]
  | cons x t ih =>
    cases x with
    | kern k =>
      have := ih (by simpa [allLig] using h)
      simp [drain, originals, Item.originals] at this ⊢
      exact this
    | ch c =>
      obtain ⟨c, lg⟩ := c
      simp [allLig] at h
      obtain ⟨h1, h2⟩ := h
      subst h1
      have := ih h2
      simp [drain, originals, Item.originals, addLeft, pendOr] at this ⊢
      exact this

/-- State A: fresh left character (`consumes_left = true`, nothing pending). -/
theorem drain_A (l : Option Nat) (nl : Bool) (ops : List IOp) (h : firstOK l ops = true) :
    originals (drain l nl ops none true).1 = (if hasCh ops then l.toList else [])
      ∧ (drain l nl ops none true).2 = (none, !hasCh ops) := by
  induction ops with
  | nil => simp [drain, originals, hasCh]
  | cons x t ih =>
    cases x with
    | kern k =>
      have := ih (by simpa [firstOK] using h)
      simp [drain, originals, Item.originals, hasCh] at this ⊢
      exact this
    | ch c =>
      obtain ⟨c, lg⟩ := c
      simp [firstOK] at h
      obtain ⟨h1, h2⟩ := h
      have := drain_allLig l nl t h2
      cases lg with
      | false =>
        simp at h1
        subst h1
        simp [drain, originals, Item.originals, hasCh] at this ⊢
        exact this
      | true =>
        cases l <;>
          (simp [drain, originals, Item.originals, hasCh, addLeft, pendOr] at this ⊢; exact this)

/-- State B: the left character is a pending ligature (`consumes_left = false`). -/
theorem drain_B (l : Option Nat) (nl : Bool) (s : Pending) (ops : List IOp) (h : firstOK l ops = true) :
    originals (drain l nl ops (some s) false).1 = (if hasCh ops then s.s else [])
      ∧ (drain l nl ops (some s) false).2 = (if hasCh ops then (none, false) else (some s, false)) := by
  induction ops with
  | nil => simp [drain, originals, hasCh]
  | cons x t ih =>
    cases x with
    | kern k =>
      have := ih (by simpa [firstOK] using h)
      simp [drain, originals, Item.originals, hasCh] at this ⊢
      exact this
    | ch c =>
      obtain ⟨c, lg⟩ := c
      simp [firstOK] at h
      have := drain_allLig l nl t h.2
      cases lg <;>
        (simp [drain, originals, Item.originals, hasCh, addLeft, pendOr] at this ⊢; exact this)

end C05

namespace C05

/-! ## The run spells the word, for any table of good entries -/

@[simp] theorem originals_nil : originals [] = [] := rfl
@[simp] theorem originals_cons (i : Item) (t : List Item) : originals (i :: t) = i.originals ++ originals t := by
  simp [originals]
@[simp] theorem originals_append (a b : List Item) : originals (a ++ b) = originals a ++ originals b := by
  simp [originals]

def GoodTable (tbl : Option Nat → Nat → Option Repl) : Prop :=
  ∀ l r rep, tbl l r = some rep → GoodRepl l r rep

theorem drain_A' (l : Option Nat) (nl : Bool) (ops : List IOp) (h : firstOK l ops = true) :
    ∃ items, drain l nl ops none true = (items, none, !hasCh ops)
      ∧ originals items = (if hasCh ops then l.toList else []) := by
  have := drain_A l nl ops h
  refine ⟨(drain l nl ops none true).1, ?_, this.1⟩
  rw [← this.2]

theorem drain_B' (l : Option Nat) (nl : Bool) (s : Pending) (ops : List IOp) (h : firstOK l ops = true) :
    ∃ items, drain l nl ops (some s) false = (items, if hasCh ops then (none, false) else (some s, false))
      ∧ originals items = (if hasCh ops then s.s else []) := by
  have := drain_B l nl s ops h
  refine ⟨(drain l nl ops (some s) false).1, ?_, this.1⟩
  rw [← this.2]

theorem hasCh_of_good {l : Nat} {r : Nat} {rep : Repl} (hg : GoodRepl (some l) r rep)
    (hl : rep.2.lig = false) : hasCh rep.1 = true := by
  cases hc : hasCh rep.1 with
  | true => rfl
  | false => exact absurd (hg.empty hc hl) (by simp)

theorem goL_spell (tbl : Option Nat → Nat → Option Repl) (rb : Option Nat) (ht : GoodTable tbl) :
    ∀ w : List Nat,
      (∀ left, originals (goL tbl rb w left true none) = left.toList ++ w) ∧
      (∀ x s, originals (goL tbl rb w (some x) false (some s)) = s.s ++ w) := by
  intro w
  induction w with
  | nil =>
    refine ⟨?_, ?_⟩
    · intro left
      cases left with
      | none => simp [goL]
      | some l =>
        simp only [goL]
        cases hrb : rb.bind (fun r => tbl (some l) r) with
        | none => simp [emitLeft, Item.originals]
        | some rep =>
          obtain ⟨rbc, -, hrep⟩ := Option.bind_eq_some_iff.mp hrb
          have hg := ht _ _ _ hrep
          obtain ⟨items, hdr, ho⟩ := drain_A' (some l) (!rep.2.lig) rep.1 hg.first
          simp only [hdr]
          cases hl : rep.2.lig with
          | true =>
            cases hc : hasCh rep.1 <;>
              simp [hc, ho, addLeft, pendOr, Item.originals]
          | false =>
            have hc := hasCh_of_good hg hl
            simp [hc, ho]
    · intro x s
      simp only [goL]
      cases hrb : rb.bind (fun r => tbl (some x) r) with
      | none => simp [emitLeft, Item.originals]
      | some rep =>
        obtain ⟨rbc, -, hrep⟩ := Option.bind_eq_some_iff.mp hrb
        have hg := ht _ _ _ hrep
        obtain ⟨items, hdr, ho⟩ := drain_B' (some x) (!rep.2.lig) s rep.1 hg.first
        simp only [hdr]
        cases hl : rep.2.lig with
        | true =>
          cases hc : hasCh rep.1 <;>
            simp [hc, ho, addLeft, pendOr, Item.originals]
        | false =>
          have hc := hasCh_of_good hg hl
          simp [hc, ho]
  | cons r rest ih =>
    obtain ⟨ihA, ihB⟩ := ih
    refine ⟨?_, ?_⟩
    · intro left
      simp only [goL]
      cases hrep : tbl left r with
      | none =>
        cases left with
        | none => simp [ihA]
        | some l => simp [ihA, emitLeft, Item.originals]
      | some rep =>
        have hg := ht _ _ _ hrep
        obtain ⟨items, hdr, ho⟩ := drain_A' left false rep.1 hg.first
        simp only [hdr]
        cases hl : rep.2.lig with
        | true =>
          cases hc : hasCh rep.1 <;> cases left <;>
            simp [hc, ho, addLeft, pendOr, ihB]
        | false =>
          have hr := hg.lastR hl
          cases hc : hasCh rep.1 with
          | true => simp [hc, ho, ihA, hr]
          | false =>
            have := hg.empty hc hl
            subst this
            simp [hc, ho, ihA, hr]
    · intro x s
      simp only [goL]
      cases hrep : tbl (some x) r with
      | none => simp [ihA, emitLeft, Item.originals]
      | some rep =>
        have hg := ht _ _ _ hrep
        obtain ⟨items, hdr, ho⟩ := drain_B' (some x) false s rep.1 hg.first
        simp only [hdr]
        cases hl : rep.2.lig with
        | true =>
          cases hc : hasCh rep.1 <;>
            simp [hc, ho, addLeft, pendOr, ihB]
        | false =>
          have hr := hg.lastR hl
          have hc := hasCh_of_good hg hl
          simp [hc, ho, ihA, hr]

end C05

namespace C05

/-! ## Every value the compiler computes is a good replacement -/

theorem applyChild_lig (x pr : C) (hx : x.lig = true) (child : Option Repl)
    (hc : ∀ rep, child = some rep → GoodRepl (some x.c) pr.c rep) :
    allLig (applyChild (some x) pr child).1 = true
      ∧ ((applyChild (some x) pr child).2.lig = false → (applyChild (some x) pr child).2.c = pr.c)
      ∧ (hasCh (applyChild (some x) pr child).1 = false → (applyChild (some x) pr child).2.lig = true) := by
  cases child with
  | none => simp [applyChild, allLig, hasCh, hx]
  | some rep =>
    have hg := hc rep rfl
    obtain ⟨h1, h2, h3⟩ := markFirst_true _ _ hg.first
    simp only [applyChild, hx]
    refine ⟨h1, ?_, ?_⟩
    · intro h
      simp at h
      exact hg.lastR h.1.1
    · intro h
      rw [h3] at h
      simp [h2, h]

theorem applyChild_left (l : Option Nat) (pr : C) (child : Option Repl)
    (hc : ∀ rep, child = some rep → GoodRepl l pr.c rep) :
    firstOK l (applyChild (leftC l) pr child).1 = true
      ∧ ((applyChild (leftC l) pr child).2.lig = false → (applyChild (leftC l) pr child).2.c = pr.c)
      ∧ (hasCh (applyChild (leftC l) pr child).1 = false →
          (applyChild (leftC l) pr child).2.lig = false → l = none)
      ∧ (pr.lig = true → (applyChild (leftC l) pr child).2.lig = true) := by
  cases child with
  | none => cases l <;> simp [applyChild, leftC, firstOK, allLig, hasCh]
  | some rep =>
    have hg := hc rep rfl
    cases l <;>
    · simp only [applyChild, leftC, markFirst_false]
      refine ⟨hg.first, ?_, ?_, ?_⟩
      · intro h
        simp at h
        exact hg.lastR h.1
      · intro h1 h2
        have h2' : rep.2.lig = false := by simpa using (by simpa using h2 : rep.2.lig = false ∧ pr.lig = false).1
        first | exact hg.empty h1 h2' | trivial
      · intro h; simp [h]

theorem firstOK_leftOps (l : Option Nat) : firstOK l (leftOps l) = true := by
  cases l <;> simp [leftOps, firstOK, allLig]

theorem hasCh_leftOps (l : Option Nat) : hasCh (leftOps l) = l.isSome := by
  cases l <;> simp [leftOps, hasCh]

theorem pairResult_good (p : Program) :
    ∀ fuel l r rep, pairResult fuel p l r = some (some rep) → GoodRepl l r rep := by
  intro fuel
  induction fuel with
  | zero => intro l r rep h; simp [pairResult] at h
  | succ n ih =>
    intro l r rep h
    simp only [pairResult] at h
    cases hr : rule p l r with
    | none => simp [hr] at h
    | some op =>
      cases op with
      | kern k =>
        simp [hr] at h
        subst h
        refine ⟨?_, fun _ => rfl, ?_⟩
        · cases l <;> simp [leftOps, firstOK, allLig]
        · cases l <;> simp [leftOps, hasCh]
      | lig z post =>
        cases post with
        | bothNowhere =>
          simp only [hr] at h
          cases h1 : pairResult n p l z with
          | none => simp [h1] at h
          | some c1 =>
            simp only [h1] at h
            cases h2 : pairResult n p (some (applyChild (leftC l) ⟨z, true⟩ c1).2.c) r with
            | none => simp [h2] at h
            | some c2 =>
              simp only [h2] at h
              simp at h
              subst h
              have a1 := applyChild_left l ⟨z, true⟩ c1 (fun rep hrep => ih l z rep (by rw [h1, hrep]))
              have hlig : (applyChild (leftC l) ⟨z, true⟩ c1).2.lig = true := a1.2.2.2 rfl
              have a2 := applyChild_lig (applyChild (leftC l) ⟨z, true⟩ c1).2 ⟨r, false⟩ hlig c2
                (fun rep hrep => ih _ r rep (by rw [h2, hrep]))
              refine ⟨?_, a2.2.1, ?_⟩
              · rw [firstOK_append]
                split
                · simp [a1.1, a2.1]
                · exact firstOK_of_allLig _ _ a2.1
              · intro hh hl
                rw [hasCh_append] at hh
                simp at hh
                have := a2.2.2 hh.2
                simp [this] at hl
        | bothInserted =>
          simp only [hr] at h
          cases h1 : pairResult n p (some z) r with
          | none => simp [h1] at h
          | some c1 =>
            simp only [h1] at h
            simp at h
            subst h
            have a2 := applyChild_lig ⟨z, true⟩ ⟨r, false⟩ rfl c1
              (fun rep hrep => ih _ r rep (by rw [h1, hrep]))
            refine ⟨?_, a2.2.1, ?_⟩
            · rw [firstOK_append]
              split
              · simp [firstOK_leftOps, a2.1]
              · exact firstOK_of_allLig _ _ a2.1
            · intro hh hl
              rw [hasCh_append] at hh
              simp at hh
              have := a2.2.2 hh.2
              simp [this] at hl
        | bothRight =>
          simp [hr] at h
          subst h
          refine ⟨?_, fun _ => rfl, ?_⟩
          · cases l <;> simp [leftOps, firstOK, allLig]
          · cases l <;> simp [leftOps, hasCh]
        | rightInserted =>
          simp only [hr] at h
          cases h1 : pairResult n p (some z) r with
          | none => simp [h1] at h
          | some c1 =>
            simp only [h1] at h
            simp at h
            subst h
            have a2 := applyChild_lig ⟨z, true⟩ ⟨r, false⟩ rfl c1
              (fun rep hrep => ih _ r rep (by rw [h1, hrep]))
            refine ⟨firstOK_of_allLig _ _ a2.1, a2.2.1, ?_⟩
            intro hh hl
            have := a2.2.2 hh
            simp [this] at hl
        | rightRight =>
          simp [hr] at h
          subst h
          exact ⟨by simp [firstOK, allLig], fun _ => rfl, by simp [hasCh]⟩
        | leftNowhere =>
          simp only [hr] at h
          cases h1 : pairResult n p l z with
          | none => simp [h1] at h
          | some c1 =>
            simp only [h1] at h
            simp at h
            subst h
            have a1 := applyChild_left l ⟨z, true⟩ c1 (fun rep hrep => ih l z rep (by rw [h1, hrep]))
            have hlig := a1.2.2.2 rfl
            refine ⟨a1.1, ?_, ?_⟩
            · intro hl; simp [hlig] at hl
            · intro _ hl; simp [hlig] at hl
        | leftInserted =>
          simp [hr] at h
          subst h
          exact ⟨firstOK_leftOps l, by simp, by simp⟩
        | neither =>
          simp [hr] at h
          subst h
          exact ⟨by simp [firstOK], by simp, by simp⟩

theorem table_good (p : Program) : GoodTable (table p) := by
  intro l r rep h
  simp only [table] at h
  cases hp : pairResult (bound p) p l r with
  | none => simp [hp] at h
  | some o =>
    cases o with
    | none => simp [hp] at h
    | some rep' =>
      simp [hp] at h
      subst h
      exact pairResult_good p _ _ _ _ hp

end C05


namespace C05

/-- In `applyChild`, the left-over `consumes_left_lig` flag never decides `last.is_lig`: it is
left over only if the child's ops contain no character, and then (the left character of the
child being a real character) the child's `last` is already flagged. (This is why dropping
`|| consumes_left_lig` from compiler.rs `is_lig: replacement.1.is_lig || consumes_left_lig ||
right_is_lig` is an equivalent change.) -/
theorem markFirst_snd (cl : Bool) (ops : List IOp) : (markFirst cl ops).2 = (cl && !hasCh ops) := by
  induction ops with
  | nil => simp [markFirst, hasCh]
  | cons x t ih => cases x <;> simp [markFirst, hasCh, ih]

theorem applyChild_flag_redundant (cl : Bool) (x r : Nat) (prLig : Bool) (rep : Repl)
    (hg : GoodRepl (some x) r rep) :
    (rep.2.lig || (markFirst cl rep.1).2 || prLig) = (rep.2.lig || prLig) := by
  rw [markFirst_snd]
  cases hl : rep.2.lig with
  | true => simp
  | false => simp [hasCh_of_good hg hl]

end C05
