import TexcraftModel.Model.C07Scan
import TexcraftModel.Lemmas.C07

/-! # C07 — lemmas about operand scanning on tokens (Model/C07Scan.lean) -/
namespace C07

theorem usteps_append (tex : Bool) : ∀ (a b : List UTok) (s : USt),
    usteps tex s (a ++ b) = match usteps tex s a with | .ok s' => usteps tex s' b | .error e => .error e
  | [], b, s => rfl
  | t :: ts, b, s => by
    simp only [List.cons_append, usteps]
    cases ustep tex s t with
    | error e => rfl
    | ok s' => exact usteps_append tex ts b s'

theorem urun_append (tex : Bool) : ∀ (a b : List UTok) (s : USt),
    urun tex s (a ++ b) = match usteps tex s a with | .ok s' => urun tex s' b | .error e => .error e
  | [], b, s => rfl
  | t :: ts, b, s => by
    simp only [List.cons_append, urun, usteps]
    cases ustep tex s t with
    | error e => rfl
    | ok s' => exact urun_append tex ts b s'

/-- One digit in the digits phase. -/
theorem ustep_digit (tex : Bool) (st g o) (k neg) (acc : Int) (base rest) (d : Nat)
    (h : acc * 10 + d ≤ 2147483647) :
    ustep tex ⟨st, .deliver, g, o, .digits k neg acc base :: rest⟩ (.dig d) =
      .ok ⟨st, .deliver, g, o, .digits k neg (acc * 10 + d) base :: rest⟩ := by
  have h' : ¬ (acc * 10 + (d : Int) > 2147483647) := by omega
  simp [ustep, ustepF, isIf, isClosing, h']

theorem ustep_first_digit (tex : Bool) (st g o) (k neg) (base rest) (d : Nat) :
    ustep tex ⟨st, .deliver, g, o, .signs k neg base :: rest⟩ (.dig d) =
      .ok ⟨st, .deliver, g, o, .digits k neg d base :: rest⟩ := by
  simp [ustep, ustepF, isIf, isClosing]

theorem ustep_minus (tex : Bool) (st g o) (k neg) (base rest) :
    ustep tex ⟨st, .deliver, g, o, .signs k neg base :: rest⟩ .minus =
      .ok ⟨st, .deliver, g, o, .signs k (!neg) base :: rest⟩ := by
  simp [ustep, ustepF, isIf, isClosing]

/-- Scanning the decimal digits of `n` from the signs phase leaves the scanner in its digits
phase with accumulator `n`. -/
theorem scan_decDigits (tex : Bool) (st g o) (k neg) (base rest) : ∀ (n : Nat), n ≤ 2147483647 →
    usteps tex ⟨st, .deliver, g, o, .signs k neg base :: rest⟩ ((decDigits n).map .dig) =
      .ok ⟨st, .deliver, g, o, .digits k neg n base :: rest⟩ := by
  intro n
  induction n using Nat.strongRecOn with
  | _ n ih =>
    intro hn
    rw [decDigits]
    split
    · simp [usteps, ustep_first_digit]
    · next h =>
      rw [List.map_append, usteps_append, ih (n / 10) (by omega) (by omega)]
      simp only [List.map_cons, List.map_nil, usteps]
      have e : ((n / 10 : Nat) : Int) * 10 + ((n % 10 : Nat) : Int) = (n : Int) := by omega
      rw [ustep_digit tex st g o k neg _ base rest (n % 10) (by omega), e]

theorem scan_numToks (tex : Bool) (st g o) (k) (base rest) (n : Int) (hn : n.natAbs ≤ 2147483647) :
    usteps tex ⟨st, .deliver, g, o, .signs k false base :: rest⟩ (numToks n) =
      .ok ⟨st, .deliver, g, o, .digits k (decide (n < 0)) n.natAbs base :: rest⟩ := by
  unfold numToks
  by_cases h : n < 0
  · simp only [h, if_true, List.singleton_append, usteps, ustep_minus, decide_true, Bool.not_false]
    exact scan_decDigits tex st g o k true base rest n.natAbs hn
  · simp only [h, if_false, List.nil_append, decide_false]
    exact scan_decDigits tex st g o k false base rest n.natAbs hn

theorem value_of_scan (n : Int) (hn : n.natAbs ≤ 2147483647) :
    (if decide (n < 0) = true then negate32 (n.natAbs : Int) else (n.natAbs : Int)) = n := by
  unfold negate32
  by_cases h : n < 0
  · have : ¬ ((n.natAbs : Int) = -2147483648) := by omega
    simp [h, this]; omega
  · simp [h]; omega

/-! ## Skipping modes -/

theorem ustep_skip (tex : Bool) (s : USt) (t : UTok) (h : s.mode ≠ .deliver) :
    ustep tex s t = .ok (uskip s t) := by
  unfold ustep ustepF
  cases hm : s.mode <;> simp_all

/-- In a skipping mode `step` only moves (stack, mode), as `skipNext` says. -/
theorem step_skip_shape (st : List BranchKind) (m : Mode) (g : Nat) (o : List Tok) (t : Tok)
    (h : m ≠ .deliver) :
    step ⟨st, m, g, o⟩ t = .ok ⟨(skipNext st m t).1, (skipNext st m t).2, g, o⟩ := by
  cases m with
  | deliver => exact absurd rfl h
  | skipFalse d =>
    cases t <;> simp only [step, skipNext, fiClause] <;> (repeat' split) <;> simp_all <;> (subst_vars; simp)
  | skipCase l d =>
    cases t <;> simp only [step, skipNext, fiClause] <;> (repeat' split) <;> simp_all <;> (subst_vars; simp)
  | skipOr d =>
    cases t <;> simp only [step, skipNext, fiClause] <;> (repeat' split) <;> simp_all <;> (subst_vars; simp)
  | skipElse d =>
    cases t <;> simp only [step, skipNext, fiClause] <;> (repeat' split) <;> simp_all <;> (subst_vars; simp)

theorem skipNext_iff (st m) (c : Test) (h : m ≠ .deliver) :
    skipNext st m (.iff c) = skipNext st m (.iff .tt) := by
  cases m <;> first | exact absurd rfl h | rfl

theorem skipNext_ifcase (st m) (n : Int) (h : m ≠ .deliver) :
    skipNext st m (.ifcase n) = skipNext st m (.iff .tt) := by
  cases m <;> first | exact absurd rfl h | rfl

theorem skipNext_iff_mode (st m) (h : m ≠ .deliver) : (skipNext st m (.iff .tt)).2 ≠ .deliver := by
  cases m <;> first | exact absurd rfl h | simp [skipNext, step]

theorem skipNext_plain (st m) (h : m ≠ .deliver) : skipNext st m (.other 0) = (st, m) := by
  cases m <;> first | exact absurd rfl h | rfl

theorem uskip_plain (s : USt) (t : UTok) (h : s.mode ≠ .deliver) (ht : t.skipClass = .other 0) :
    uskip s t = s := by
  obtain ⟨st, mode, g, o, fr⟩ := s
  simp only [uskip, ht, skipNext_plain st mode h]

theorem usteps_skip_plain (tex : Bool) : ∀ (l : List UTok) (s : USt), s.mode ≠ .deliver →
    (∀ t ∈ l, t.skipClass = .other 0) → usteps tex s l = .ok s
  | [], s, _, _ => rfl
  | t :: ts, s, h, hl => by
    simp only [usteps, ustep_skip tex s t h, uskip_plain s t h (hl t (by simp))]
    exact usteps_skip_plain tex ts s h (fun t ht => hl t (by simp [ht]))

theorem numToks_plain (n : Int) : ∀ t ∈ numToks n, t.skipClass = .other 0 := by
  intro t ht
  unfold numToks at ht
  simp only [List.mem_append, List.mem_map] at ht
  rcases ht with ht | ⟨d, _, rfl⟩
  · split at ht <;> simp_all [UTok.skipClass]
  · rfl

/-- A surface form "head token of if-class, then only plain tokens" is read by a skipping loop
as the abstract if-token. -/
theorem skip_if_form (tex : Bool) (st m g o) (h : m ≠ .deliver) (u : UTok) (tail : List UTok)
    (hu : u.skipClass = .iff .tt) (ht : ∀ t ∈ tail, t.skipClass = .other 0) (t : Tok)
    (hs : skipNext st m t = skipNext st m (.iff .tt)) :
    usteps tex (St.lift ⟨st, m, g, o⟩) (u :: tail) = liftRes (step ⟨st, m, g, o⟩ t) := by
  have hl : (St.lift ⟨st, m, g, o⟩).mode ≠ .deliver := h
  rw [step_skip_shape st m g o t h, hs]
  simp only [usteps, ustep_skip tex _ _ hl]
  have h1 : (uskip (St.lift ⟨st, m, g, o⟩) u).mode ≠ .deliver := by
    simp only [uskip, St.lift, hu]; exact skipNext_iff_mode st m h
  rw [usteps_skip_plain tex tail _ h1 ht]
  simp [uskip, St.lift, hu, liftRes]

/-- Simulation, skipping modes. -/
theorem surface_skip (tex : Bool) (s : St) (t : Tok) (h : s.mode ≠ .deliver) :
    usteps tex s.lift (surface t) = liftRes (step s t) := by
  obtain ⟨st, m, g, o⟩ := s
  have hl : (St.lift ⟨st, m, g, o⟩).mode ≠ .deliver := h
  have single : ∀ (u : UTok) (t : Tok), u.skipClass = t →
      usteps tex (St.lift ⟨st, m, g, o⟩) [u] = liftRes (step ⟨st, m, g, o⟩ t) := by
    intro u t hu
    rw [step_skip_shape st m g o t h]
    simp only [usteps]
    rw [ustep_skip tex _ u hl]
    simp [uskip, St.lift, hu, liftRes]
  cases t with
  | iff c =>
    cases c with
    | tt => exact single .itrue _ rfl
    | ff => exact skip_if_form tex st m g o h .ifalse [] rfl (by simp) _ (skipNext_iff st m _ h)
    | odd n =>
      exact skip_if_form tex st m g o h .iodd _ rfl (by
        intro t ht
        simp only [List.mem_append, List.mem_singleton] at ht
        rcases ht with ht | rfl
        · exact numToks_plain n t ht
        · rfl) _ (skipNext_iff st m _ h)
    | num a r b =>
      exact skip_if_form tex st m g o h .inum _ rfl (by
        intro t ht
        simp only [List.mem_append, List.mem_cons, List.mem_singleton, List.not_mem_nil, or_false] at ht
        rcases ht with ht | rfl | ht | rfl
        · exact numToks_plain a t ht
        · rfl
        · exact numToks_plain b t ht
        · rfl) _ (skipNext_iff st m _ h)
  | ifcase n =>
    exact skip_if_form tex st m g o h .icase _ rfl (by
      intro t ht
      simp only [List.mem_append, List.mem_singleton] at ht
      rcases ht with ht | rfl
      · exact numToks_plain n t ht
      · rfl) _ (skipNext_ifcase st m _ h)
  | els => exact single .els _ rfl
  | orr => exact single .orr _ rfl
  | fi => exact single .fi _ rfl
  | other n =>
    rw [step_skip_shape st m g o _ h]
    have : skipNext st m (.other n) = (st, m) := by
      cases m <;> first | exact absurd rfl h | rfl
    simp only [surface, usteps]
    rw [ustep_skip tex _ _ hl]
    simp [uskip, St.lift, UTok.skipClass, skipNext_plain st m h, this, liftRes]
  | bg =>
    rw [step_skip_shape st m g o _ h]
    have : skipNext st m .bg = (st, m) := by
      cases m <;> first | exact absurd rfl h | rfl
    simp only [surface, usteps]
    rw [ustep_skip tex _ _ hl]
    simp [uskip, St.lift, UTok.skipClass, skipNext_plain st m h, this, liftRes]
  | eg =>
    rw [step_skip_shape st m g o _ h]
    have : skipNext st m .eg = (st, m) := by
      cases m <;> first | exact absurd rfl h | rfl
    simp only [surface, usteps]
    rw [ustep_skip tex _ _ hl]
    simp [uskip, St.lift, UTok.skipClass, skipNext_plain st m h, this, liftRes]


/-! ## Delivering mode -/

theorem ustep_sp_digits (tex : Bool) (st g o) (k neg) (acc : Int) (base rest) :
    ustep tex ⟨st, .deliver, g, o, .digits k neg acc base :: rest⟩ .sp =
      .ok (complete ⟨st, .deliver, g, o, .digits k neg acc base :: rest⟩ k (if neg then negate32 acc else acc) base rest) := by
  simp [ustep, ustepF, isIf, isClosing]

/-- Scanning one terminated number for condition `k` with nothing else under evaluation. -/
theorem scan_number (tex : Bool) (st g o) (k : Pending) (n : Int) (hn : n.natAbs ≤ 2147483647) :
    usteps tex ⟨st, .deliver, g, o, [.signs k false st.length]⟩ (numToks n ++ [.sp]) =
      .ok (complete ⟨st, .deliver, g, o, [.digits k (decide (n < 0)) n.natAbs st.length]⟩ k n st.length []) := by
  rw [usteps_append, scan_numToks tex st g o k st.length [] n hn]
  simp only [usteps, ustep_sp_digits, value_of_scan n hn]

/-- Simulation, delivering mode, nothing under evaluation. -/
theorem surface_deliver (tex : Bool) (st g o) (t : Tok) (ht : t.operandsOk) :
    usteps tex (St.lift ⟨st, .deliver, g, o⟩) (surface t) = liftRes (step ⟨st, .deliver, g, o⟩ t) := by
  cases t with
  | iff c =>
    cases c with
    | tt => simp [surface, usteps, ustep, ustepF, St.lift, isIf, ucond, step, evalTest, liftRes]
    | ff => simp [surface, usteps, ustep, ustepF, St.lift, isIf, ucond, step, evalTest, liftRes]
    | odd n =>
      simp only [surface, usteps]
      have e : ustep tex (St.lift ⟨st, .deliver, g, o⟩) .iodd =
          .ok ⟨st, .deliver, g, o.map Tok.toU, [.signs .odd false st.length]⟩ := by
        simp [ustep, ustepF, St.lift, isIf, ucond]
      rw [e]
      simp only []
      rw [scan_number tex st g _ .odd n ht]
      simp only [complete, step, evalTest, liftRes]
      split <;> simp_all [St.lift]
    | num a r b =>
      obtain ⟨ha, hb⟩ := ht
      simp only [surface, usteps]
      have e : ustep tex (St.lift ⟨st, .deliver, g, o⟩) .inum =
          .ok ⟨st, .deliver, g, o.map Tok.toU, [.signs .num1 false st.length]⟩ := by
        simp [ustep, ustepF, St.lift, isIf, ucond]
      rw [e]
      simp only []
      rw [usteps_append, scan_numToks tex st g _ .num1 st.length [] a ha]
      simp only [usteps]
      have e2 : ustep tex ⟨st, .deliver, g, o.map Tok.toU, [.digits .num1 (decide (a < 0)) a.natAbs st.length]⟩ (.rel r) =
          .ok ⟨st, .deliver, g, o.map Tok.toU, [.signs (.num2 a r) false st.length]⟩ := by
        have hv := value_of_scan a ha
        simp only [decide_eq_true_eq] at hv
        simp [ustep, ustepF, isIf, isClosing, complete, hv]
      rw [e2]
      simp only []
      rw [scan_number tex st g _ (.num2 a r) b hb]
      simp only [complete, step, evalTest, liftRes]
      split <;> simp_all [St.lift]
  | ifcase n =>
    simp only [surface, usteps]
    have e : ustep tex (St.lift ⟨st, .deliver, g, o⟩) .icase =
        .ok ⟨st, .deliver, g, o.map Tok.toU, [.signs .case false st.length]⟩ := by
      simp [ustep, ustepF, St.lift, isIf, ucond]
    rw [e]
    simp only []
    rw [scan_number tex st g _ .case n ht]
    simp only [complete, step, liftRes]
    split <;> simp_all [St.lift]
  | els =>
    cases st with
    | nil => simp [surface, usteps, ustep, ustepF, St.lift, isIf, isClosing, ucond, step, liftRes]
    | cons b st' => cases b <;> simp [surface, usteps, ustep, ustepF, St.lift, isIf, isClosing, ucond, step, liftRes]
  | orr =>
    cases st with
    | nil => simp [surface, usteps, ustep, ustepF, St.lift, isIf, isClosing, ucond, step, liftRes]
    | cons b st' => cases b <;> simp [surface, usteps, ustep, ustepF, St.lift, isIf, isClosing, ucond, step, liftRes]
  | fi =>
    cases st with
    | nil => simp [surface, usteps, ustep, ustepF, St.lift, isIf, isClosing, ucond, step, liftRes]
    | cons b st' => simp [surface, usteps, ustep, ustepF, St.lift, isIf, isClosing, ucond, step, liftRes]
  | other n => simp [surface, usteps, ustep, ustepF, St.lift, isIf, isClosing, umain, step, liftRes, Tok.toU]
  | bg => simp [surface, usteps, ustep, ustepF, St.lift, isIf, isClosing, umain, step, liftRes, Tok.toU]
  | eg =>
    cases g <;> simp [surface, usteps, ustep, ustepF, St.lift, isIf, isClosing, umain, step, liftRes, Tok.toU]


/-! ## Whole programs -/

theorem surface_step (tex : Bool) (s : St) (t : Tok) (ht : t.operandsOk) :
    usteps tex s.lift (surface t) = liftRes (step s t) := by
  by_cases h : s.mode = .deliver
  · obtain ⟨st, m, g, o⟩ := s
    subst h
    exact surface_deliver tex st g o t ht
  · exact surface_skip tex s t h

theorem ufinish_lift (s : St) : ufinish s.lift = liftRes (finish s) := by
  obtain ⟨st, m, g, o⟩ := s
  cases m <;> rfl

/-- The surface machine on a program written with terminated decimal operands does exactly what
the abstract machine does on the abstract program — for the code and for TeX's rule alike. -/
theorem surface_run (tex : Bool) : ∀ (l : List Tok) (s : St), (∀ t ∈ l, t.operandsOk) →
    urun tex s.lift (surfaceAll l) = liftRes (run s l)
  | [], s, _ => by simp [surfaceAll, urun, run_nil, ufinish_lift]
  | t :: ts, s, h => by
    simp only [surfaceAll, urun_append, surface_step tex s t (h t (by simp)), run_cons]
    cases step s t with
    | error e => rfl
    | ok s' => exact surface_run tex ts s' (fun t ht => h t (by simp [ht]))

/-! ## Operands without terminating space -/

theorem surfaceT_true (t : Tok) : surfaceT true t = surface t := by
  cases t with
  | iff c => cases c <;> simp [surfaceT, surface]
  | ifcase n => simp [surfaceT, surface]
  | _ => rfl

theorem surfaceT_noOperand (b : Bool) (t : Tok) (h : t.hasOperand = false) : surfaceT b t = surface t := by
  cases t with
  | iff c => cases c <;> simp_all [surfaceT, surface, Tok.hasOperand]
  | ifcase n => simp_all [Tok.hasOperand]
  | _ => rfl

/-- In a skipping mode the terminating space makes no difference. -/
theorem surfaceT_skip (tex : Bool) (s : St) (t : Tok) (b : Bool) (h : s.mode ≠ .deliver) :
    usteps tex s.lift (surfaceT b t) = liftRes (step s t) := by
  cases b with
  | true => rw [surfaceT_true]; exact surface_skip tex s t h
  | false =>
    obtain ⟨st, m, g, o⟩ := s
    cases t with
    | iff c =>
      cases c with
      | tt => rw [surfaceT_noOperand false _ rfl]; exact surface_skip tex _ _ h
      | ff => rw [surfaceT_noOperand false _ rfl]; exact surface_skip tex _ _ h
      | odd n =>
        exact skip_if_form tex st m g o h .iodd _ rfl (by
          intro t ht
          simp only [Bool.false_eq_true, if_false, List.append_nil] at ht
          exact numToks_plain n t ht) _ (skipNext_iff st m _ h)
      | num a r b =>
        exact skip_if_form tex st m g o h .inum _ rfl (by
          intro t ht
          simp only [Bool.false_eq_true, if_false, List.append_nil, List.mem_append, List.mem_cons] at ht
          rcases ht with ht | rfl | ht
          · exact numToks_plain a t ht
          · rfl
          · exact numToks_plain b t ht) _ (skipNext_iff st m _ h)
    | ifcase n =>
      exact skip_if_form tex st m g o h .icase _ rfl (by
        intro t ht
        simp only [Bool.false_eq_true, if_false, List.append_nil] at ht
        exact numToks_plain n t ht) _ (skipNext_ifcase st m _ h)
    | els => rw [surfaceT_noOperand false _ rfl]; exact surface_skip tex _ _ h
    | orr => rw [surfaceT_noOperand false _ rfl]; exact surface_skip tex _ _ h
    | fi => rw [surfaceT_noOperand false _ rfl]; exact surface_skip tex _ _ h
    | other n => rw [surfaceT_noOperand false _ rfl]; exact surface_skip tex _ _ h
    | bg => rw [surfaceT_noOperand false _ rfl]; exact surface_skip tex _ _ h
    | eg => rw [surfaceT_noOperand false _ rfl]; exact surface_skip tex _ _ h

theorem complete_frames (s : USt) (k : Pending) (v : Int) (base : Nat) (rest : List Frame) (hk : k ≠ .num1) :
    (complete s k v base rest).frames = rest := by
  cases k with
  | num1 => exact absurd rfl hk
  | odd => simp only [complete]; split <;> rfl
  | case => simp only [complete]; split <;> rfl
  | num2 a r => simp only [complete]; split <;> rfl

/-- A stopper arriving in the digits phase of the only condition under evaluation: the number
is complete and the stopper is read by the state after the condition. -/
theorem ustep_stopper (tex : Bool) (st g o) (k : Pending) (neg : Bool) (acc : Int) (t' : Tok)
    (hk : k ≠ .num1) (hs : stopper tex t' = true) (u : UTok) (hu : surface t' = [u]) :
    ustep tex ⟨st, .deliver, g, o, [.digits k neg acc st.length]⟩ u =
      ustep tex (complete ⟨st, .deliver, g, o, [.digits k neg acc st.length]⟩ k
        (if neg then negate32 acc else acc) st.length []) u := by
  have key : ∀ (u : UTok), (isIf u = false) → (isClosing u = false ∨ tex = true) → (∀ d, u ≠ .dig d) → u ≠ .sp →
      ustep tex ⟨st, .deliver, g, o, [.digits k neg acc st.length]⟩ u =
      ustepF tex 2 (complete ⟨st, .deliver, g, o, [.digits k neg acc st.length]⟩ k
        (if neg then negate32 acc else acc) st.length []) u := by
    intro u h1 h2 h3 h4
    have hr : ((isIf u || isClosing u) && !(tex && isClosing u && st.length == st.length)) = false := by
      rcases h2 with h2 | h2 <;> simp [h1, h2]
    simp only [ustep, ustepF, List.length_singleton, Frame.base, hr]
    cases u <;> simp_all
  have fuel : ∀ (u : UTok), ustepF tex 2 (complete ⟨st, .deliver, g, o, [.digits k neg acc st.length]⟩ k
        (if neg then negate32 acc else acc) st.length []) u =
      ustep tex (complete ⟨st, .deliver, g, o, [.digits k neg acc st.length]⟩ k
        (if neg then negate32 acc else acc) st.length []) u := by
    intro u
    unfold ustep
    rw [complete_frames _ _ _ _ _ hk]
    rfl
  rw [← fuel u]
  cases t' with
  | other n => simp only [surface, List.cons.injEq, and_true] at hu; subst hu; exact key _ rfl (Or.inl rfl) (by simp) (by simp)
  | bg => simp only [surface, List.cons.injEq, and_true] at hu; subst hu; exact key _ rfl (Or.inl rfl) (by simp) (by simp)
  | eg => simp only [surface, List.cons.injEq, and_true] at hu; subst hu; exact key _ rfl (Or.inl rfl) (by simp) (by simp)
  | els => simp only [surface, List.cons.injEq, and_true] at hu; subst hu; exact key _ rfl (Or.inr (by simpa [stopper] using hs)) (by simp) (by simp)
  | orr => simp only [surface, List.cons.injEq, and_true] at hu; subst hu; exact key _ rfl (Or.inr (by simpa [stopper] using hs)) (by simp) (by simp)
  | fi => simp only [surface, List.cons.injEq, and_true] at hu; subst hu; exact key _ rfl (Or.inr (by simpa [stopper] using hs)) (by simp) (by simp)
  | iff c => simp [stopper] at hs
  | ifcase n => simp [stopper] at hs


theorem stopper_single (tex : Bool) (t' : Tok) (h : stopper tex t' = true) :
    ∃ u, surface t' = [u] ∧ t'.hasOperand = false := by
  cases t' with
  | iff c => simp [stopper] at h
  | ifcase n => simp [stopper] at h
  | els => exact ⟨_, rfl, rfl⟩
  | orr => exact ⟨_, rfl, rfl⟩
  | fi => exact ⟨_, rfl, rfl⟩
  | other n => exact ⟨_, rfl, rfl⟩
  | bg => exact ⟨_, rfl, rfl⟩
  | eg => exact ⟨_, rfl, rfl⟩

/-- An unterminated operand followed by a stopper, delivering mode: the condition is evaluated
with the number scanned so far and the stopper is read by the state after it. -/
theorem loose_pair (tex : Bool) (st g o) (t t' : Tok) (ht : t.operandsOk) (hop : t.hasOperand = true)
    (hs : stopper tex t' = true) (u : UTok) (hu : surface t' = [u]) :
    usteps tex (St.lift ⟨st, .deliver, g, o⟩) (surfaceT false t ++ [u]) =
      match step ⟨st, .deliver, g, o⟩ t with
      | .ok s1 => usteps tex s1.lift [u]
      | .error e => .error (.cond e) := by
  cases t with
  | iff c =>
    cases c with
    | tt => simp [Tok.hasOperand] at hop
    | ff => simp [Tok.hasOperand] at hop
    | odd n =>
      simp only [surfaceT, Bool.false_eq_true, if_false, List.append_nil, List.cons_append, usteps]
      have e : ustep tex (St.lift ⟨st, .deliver, g, o⟩) .iodd =
          .ok ⟨st, .deliver, g, o.map Tok.toU, [.signs .odd false st.length]⟩ := by
        simp [ustep, ustepF, St.lift, isIf, ucond]
      rw [e]
      simp only []
      rw [usteps_append, scan_numToks tex st g _ .odd st.length [] n ht]
      simp only [usteps]
      rw [ustep_stopper tex st g _ .odd _ _ t' (by simp) hs u hu, value_of_scan n ht]
      simp only [complete, step, evalTest]
      by_cases hc : ifodd n = true <;> simp [hc, St.lift]
    | num a r b =>
      obtain ⟨ha, hb⟩ := ht
      simp only [surfaceT, Bool.false_eq_true, if_false, List.append_nil, List.cons_append, List.append_assoc, usteps]
      have e : ustep tex (St.lift ⟨st, .deliver, g, o⟩) .inum =
          .ok ⟨st, .deliver, g, o.map Tok.toU, [.signs .num1 false st.length]⟩ := by
        simp [ustep, ustepF, St.lift, isIf, ucond]
      rw [e]
      simp only []
      rw [usteps_append, scan_numToks tex st g _ .num1 st.length [] a ha]
      simp only [usteps]
      have e2 : ustep tex ⟨st, .deliver, g, o.map Tok.toU, [.digits .num1 (decide (a < 0)) a.natAbs st.length]⟩ (.rel r) =
          .ok ⟨st, .deliver, g, o.map Tok.toU, [.signs (.num2 a r) false st.length]⟩ := by
        have hv := value_of_scan a ha
        simp only [decide_eq_true_eq] at hv
        simp [ustep, ustepF, isIf, isClosing, complete, hv]
      rw [e2]
      simp only []
      rw [usteps_append, scan_numToks tex st g _ (.num2 a r) st.length [] b hb]
      simp only [usteps]
      rw [ustep_stopper tex st g _ (.num2 a r) _ _ t' (by simp) hs u hu, value_of_scan b hb]
      simp only [complete, step, evalTest]
      by_cases hc : ifnum a r b = true <;> simp [hc, St.lift]
  | ifcase n =>
    simp only [surfaceT, Bool.false_eq_true, if_false, List.append_nil, List.cons_append, usteps]
    have e : ustep tex (St.lift ⟨st, .deliver, g, o⟩) .icase =
        .ok ⟨st, .deliver, g, o.map Tok.toU, [.signs .case false st.length]⟩ := by
      simp [ustep, ustepF, St.lift, isIf, ucond]
    rw [e]
    simp only []
    rw [usteps_append, scan_numToks tex st g _ .case st.length [] n ht]
    simp only [usteps]
    rw [ustep_stopper tex st g _ .case _ _ t' (by simp) hs u hu, value_of_scan n ht]
    simp only [complete, step]
    by_cases hc : (n == 0) = true <;> simp [hc, St.lift]
  | els => simp [Tok.hasOperand] at hop
  | orr => simp [Tok.hasOperand] at hop
  | fi => simp [Tok.hasOperand] at hop
  | other n => simp [Tok.hasOperand] at hop
  | bg => simp [Tok.hasOperand] at hop
  | eg => simp [Tok.hasOperand] at hop

/-- Programs whose operands are terminated by a space or by a stopper. -/
theorem surfaceL_run (tex : Bool) : ∀ (l : List (Tok × Bool)) (s : St), looseOk tex l = true →
    (∀ p ∈ l, p.1.operandsOk) → urun tex s.lift (surfaceL l) = liftRes (run s (l.map Prod.fst))
  | [], s, _, _ => by simp [surfaceL, urun, run_nil, ufinish_lift]
  | [(t, b)], s, hl, ho => by
    have hsurf : surfaceT b t = surface t := by
      simp only [looseOk, Bool.or_eq_true, Bool.not_eq_true'] at hl
      rcases hl with rfl | h
      · exact surfaceT_true t
      · exact surfaceT_noOperand b t h
    have := surface_run tex [t] s (by intro x hx; simp at hx; rw [hx]; exact ho (t, b) (by simp))
    simpa [surfaceL, surfaceAll, hsurf] using this
  | (t, b) :: (t', b') :: rest, s, hl, ho => by
    simp only [looseOk, Bool.and_eq_true, Bool.or_eq_true, Bool.not_eq_true'] at hl
    obtain ⟨hhead, htail⟩ := hl
    have hot : t.operandsOk := ho (t, b) (by simp)
    have ho' : ∀ p ∈ (t', b') :: rest, p.1.operandsOk := fun p hp => ho p (by simp [hp])
    by_cases hm : s.mode = .deliver
    · by_cases hterm : b = true ∨ t.hasOperand = false
      · have hsurf : surfaceT b t = surface t := by
          rcases hterm with rfl | h
          · exact surfaceT_true t
          · exact surfaceT_noOperand b t h
        have e : surfaceL ((t, b) :: (t', b') :: rest) = surfaceT b t ++ surfaceL ((t', b') :: rest) := rfl
        have e2 : List.map Prod.fst ((t, b) :: (t', b') :: rest) = t :: List.map Prod.fst ((t', b') :: rest) := rfl
        rw [e, e2, hsurf, urun_append, surface_step tex s t hot, run_cons]
        cases step s t with
        | error e => rfl
        | ok s1 => exact surfaceL_run tex ((t', b') :: rest) s1 htail ho'
      · have hb : b = false := by
          cases b <;> simp_all
        have hop : t.hasOperand = true := by
          cases h : t.hasOperand <;> simp_all
        have hs : stopper tex t' = true := by
          rcases hhead with (h | h) | h <;> simp_all
        obtain ⟨u, hu, hno⟩ := stopper_single tex t' hs
        subst hb
        obtain ⟨st, m, g, o⟩ := s
        subst hm
        have hrest : looseOk tex rest = true := by
          cases rest with
          | nil => rfl
          | cons p r =>
            obtain ⟨t'', b''⟩ := p
            simp only [looseOk, Bool.and_eq_true] at htail
            exact htail.2
        simp only [surfaceL, surfaceT_noOperand b' t' hno, hu, List.map_cons, run_cons]
        rw [← List.append_assoc, urun_append, loose_pair tex st g o t t' hot hop hs u hu]
        cases hstep : step ⟨st, .deliver, g, o⟩ t with
        | error e => rfl
        | ok s1 =>
          simp only []
          have h2 := surface_step tex s1 t' (ho (t', b') (by simp))
          rw [hu] at h2
          rw [h2]
          cases step s1 t' with
          | error e => rfl
          | ok s2 =>
            exact surfaceL_run tex rest s2 hrest (fun p hp => ho p (by simp [hp]))
    · have e : surfaceL ((t, b) :: (t', b') :: rest) = surfaceT b t ++ surfaceL ((t', b') :: rest) := rfl
      have e2 : List.map Prod.fst ((t, b) :: (t', b') :: rest) = t :: List.map Prod.fst ((t', b') :: rest) := rfl
      rw [e, e2, urun_append, surfaceT_skip tex s t b hm, run_cons]
      cases step s t with
      | error e => rfl
      | ok s1 => exact surfaceL_run tex ((t', b') :: rest) s1 htail ho'


/-! ## Deepening round: one skipping theorem, the two equivalent mutants, `\\noexpand` -/

theorem skip_ends_at_fi' (mk : Int → Mode) (h : IsSkip mk) (l : List Tok) (k : Nat)
    (hl : rawDepth k l = some 0) (st g o) (rest : List Tok) :
    run ⟨st, mk k, g, o⟩ (l ++ .fi :: rest) = run ⟨st, .deliver, g, o⟩ rest := by
  have := skip_raw h st g o l k 0 0 (.fi :: rest) (by omega) hl
  simp only [Int.zero_add, Int.natCast_zero] at this
  rw [this]
  simp only [run_cons, step_skip_fi0 h]

/-- `n as i16` -/
def wrapI16 (n : Int) : Int := (n + 32768) % 65536 - 32768

theorem ifodd_wrapI16' (n : Int) : ifodd (wrapI16 n) = ifodd n := by
  have a := ifodd_iff (wrapI16 n)
  have b := ifodd_iff n
  have : (wrapI16 n) % 2 ≠ 0 ↔ n % 2 ≠ 0 := by unfold wrapI16; omega
  cases h1 : ifodd (wrapI16 n) <;> cases h2 : ifodd n <;> simp_all

/-- Transcription of mutant 28: the optimized `\expandafter` whose chain test always fails. -/
def xaNoChain {σ} (E : Expander σ) : σ → List XTok → XRes σ
  | _, [] => .error .xaEofFirst
  | _, [_] => .error .xaEofSecond
  | s, first :: second :: rest =>
    let r : XRes σ :=
      match second with
      | .xa _ => xaNoChain E s rest
      | .noexp => noexpandOnce s rest
      | t =>
        match E s t rest with
        | none => .ok (s, t :: rest)
        | some r => r
    match r with
    | .ok (s', l) => .ok (s', [first] ++ l)
    | .error e => .error e

theorem xaNoChain_eq' {σ} (E : Expander σ) : ∀ (l : List XTok) (s : σ), xaNoChain E s l = xaSimple E s l
  | [], s => rfl
  | [_], s => rfl
  | first :: second :: rest, s => by
    cases second with
    | xa n => simp only [xaNoChain, xaSimple, xaNoChain_eq' E rest s]; rfl
    | noexp => rfl
    | cs k => rfl
    | ch k => rfl

theorem noexpand_noop' {σ} (E : Expander σ) (s : σ) (t1 t : XTok) (rest : List XTok) :
    xaSimple E s (t1 :: .noexp :: t :: rest) = .ok (s, t1 :: t :: rest) := rfl


/-! ## Fuel suffices; `loosen` -/

theorem ucond_no_fuel (s : USt) (t : UTok) : ucond s t ≠ .error .fuel := by
  unfold ucond
  cases t <;> simp <;> (repeat' split) <;> simp

theorem umain_no_fuel (s : USt) (t : UTok) : umain s t ≠ .error .fuel := by
  unfold umain
  cases t <;> simp <;> (repeat' split) <;> simp

theorem ite_no_fuel {c : Prop} [Decidable c] {a b : Except UErr USt} (ha : a ≠ .error .fuel)
    (hb : b ≠ .error .fuel) : (if c then a else b) ≠ .error .fuel := by
  split <;> assumption

/-- The fuel `frames.length + 2` (and anything above `frames.length + 1`) suffices: a token is
re-read at most once per condition under evaluation. -/
theorem ustepF_no_fuel (tex : Bool) : ∀ (n : Nat) (s : USt) (t : UTok), s.frames.length + 1 ≤ n →
    ustepF tex n s t ≠ .error .fuel
  | 0, s, t, h => by omega
  | n + 1, s, t, h => by
    obtain ⟨st, m, g, o, fr⟩ := s
    cases m with
    | deliver =>
      cases fr with
      | nil =>
        simp only [ustepF]
        split
        · exact ucond_no_fuel _ _
        · exact umain_no_fuel _ _
      | cons f rest =>
        simp only [ustepF]
        split
        · exact ucond_no_fuel _ _
        · cases f with
          | signs k neg base => cases t <;> simp
          | relsp a base => cases t <;> simp
          | digits k neg acc base =>
            have hlen : rest.length + 1 ≤ n := by simp at h; omega
            have hrec : ∀ v, ustepF tex n (complete ⟨st, .deliver, g, o, .digits k neg acc base :: rest⟩ k v base rest) t ≠ .error .fuel := by
              intro v
              cases k with
              | num1 =>
                -- the scanner moves on to the relation: no further re-reading
                cases n with
                | zero => omega
                | succ n' =>
                  simp only [complete, ustepF]
                  exact ite_no_fuel (ucond_no_fuel _ _) (by cases t <;> simp)
              | odd => exact ustepF_no_fuel tex n _ t (by rw [complete_frames _ _ _ _ _ (by simp)]; exact hlen)
              | case => exact ustepF_no_fuel tex n _ t (by rw [complete_frames _ _ _ _ _ (by simp)]; exact hlen)
              | num2 a r => exact ustepF_no_fuel tex n _ t (by rw [complete_frames _ _ _ _ _ (by simp)]; exact hlen)
            cases t <;> simp <;> first | exact hrec _ | (split <;> simp)
    | skipFalse d => simp [ustepF]
    | skipCase l d => simp [ustepF]
    | skipOr d => simp [ustepF]
    | skipElse d => simp [ustepF]

theorem ustep_fuel_suffices' (tex : Bool) (s : USt) (t : UTok) : ustep tex s t ≠ .error .fuel :=
  ustepF_no_fuel tex _ s t (by omega)

theorem ufinishF_no_fuel : ∀ (n : Nat) (s : USt), s.frames.length + 1 ≤ n → ufinishF n s ≠ .error .fuel
  | 0, s, h => by omega
  | n + 1, s, h => by
    obtain ⟨st, m, g, o, fr⟩ := s
    cases m with
    | deliver =>
      cases fr with
      | nil => simp [ufinishF]
      | cons f rest =>
        cases f with
        | signs k neg base => simp [ufinishF]
        | relsp a base => simp [ufinishF]
        | digits k neg acc base =>
          have hlen : rest.length + 1 ≤ n := by simp at h; omega
          simp only [ufinishF]
          cases k with
          | num1 =>
            cases n with
            | zero => omega
            | succ n' => simp [complete, ufinishF]
          | odd => exact ufinishF_no_fuel n _ (by rw [complete_frames _ _ _ _ _ (by simp)]; exact hlen)
          | case => exact ufinishF_no_fuel n _ (by rw [complete_frames _ _ _ _ _ (by simp)]; exact hlen)
          | num2 a r => exact ufinishF_no_fuel n _ (by rw [complete_frames _ _ _ _ _ (by simp)]; exact hlen)
    | skipFalse d => simp [ufinishF]
    | skipCase l d => simp [ufinishF]
    | skipOr d => simp [ufinishF]
    | skipElse d => simp [ufinishF]

theorem urun_no_fuel (tex : Bool) : ∀ (l : List UTok) (s : USt), urun tex s l ≠ .error .fuel
  | [], s => ufinishF_no_fuel _ s (by omega)
  | t :: ts, s => by
    simp only [urun]
    cases h : ustep tex s t with
    | error e =>
      intro he
      simp only [Except.error.injEq] at he
      exact ustep_fuel_suffices' tex s t (by rw [h, he])
    | ok s' => exact urun_no_fuel tex ts s'

theorem looseOk_loosen (tex : Bool) : ∀ (l : List Tok), looseOk tex (loosen tex l) = true
  | [] => rfl
  | [t] => by simp [loosen, looseOk]
  | t :: t' :: rest => by
    have ih := looseOk_loosen tex (t' :: rest)
    cases rest with
    | nil =>
      simp only [loosen, looseOk, Bool.and_eq_true, Bool.or_eq_true, Bool.not_eq_true', Bool.and_eq_false_imp]
      refine ⟨?_, by simp⟩
      cases t.hasOperand <;> cases stopper tex t' <;> simp
    | cons t'' r =>
      simp only [loosen, looseOk, Bool.and_eq_true, Bool.or_eq_true, Bool.not_eq_true'] at ih ⊢
      refine ⟨?_, ih⟩
      cases t.hasOperand <;> cases stopper tex t' <;> simp

theorem loosen_fst (tex : Bool) : ∀ (l : List Tok), (loosen tex l).map Prod.fst = l
  | [] => rfl
  | [t] => rfl
  | t :: t' :: rest => by simp [loosen, loosen_fst tex (t' :: rest)]


/-! ## The exact boundary of C07-i -/

theorem ustepF_nonclosing (n : Nat) : ∀ (s : USt) (t : UTok), isClosing t = false →
    ustepF false n s t = ustepF true n s t := by
  induction n with
  | zero => intros; rfl
  | succ n ih =>
    intro s t ht
    obtain ⟨st, m, g, o, fr⟩ := s
    cases m with
    | deliver =>
      cases fr with
      | nil => simp [ustepF]
      | cons f rest =>
        simp only [ustepF, ht, Bool.and_false, Bool.false_and, Bool.and_true, Bool.or_false, Bool.not_false]
        split
        · rfl
        · cases f with
          | signs k neg base => rfl
          | relsp a base => rfl
          | digits k neg acc base =>
            cases t <;> simp only [] <;> first | rfl | exact ih _ _ ht
    | skipFalse d => rfl
    | skipCase l d => rfl
    | skipOr d => rfl
    | skipElse d => rfl

/-- The code and TeX's rule take the same step on every token except in exactly that situation. -/
theorem code_eq_tex_step' (s : USt) (t : UTok) (h : closesWhileScanning s t = false) :
    ustep false s t = ustep true s t := by
  by_cases hc : isClosing t = false
  · exact ustepF_nonclosing _ s t hc
  · have hc' : isClosing t = true := by simpa using hc
    obtain ⟨st, m, g, o, fr⟩ := s
    cases m with
    | deliver =>
      cases fr with
      | nil => simp [ustep, ustepF]
      | cons f rest =>
        have hb : (st.length == f.base) = false := by
          simpa [closesWhileScanning, hc'] using h
        simp [ustep, ustepF, hc', hb]
    | skipFalse d => rfl
    | skipCase l d => rfl
    | skipOr d => rfl
    | skipElse d => rfl


theorem code_eq_tex_run' : ∀ (l : List UTok) (s : USt), neverClosesWhileScanning s l = true →
    urun false s l = urun true s l
  | [], s, _ => rfl
  | t :: ts, s, h => by
    simp only [neverClosesWhileScanning, Bool.and_eq_true, Bool.not_eq_true'] at h
    simp only [urun, ← code_eq_tex_step' s t h.1]
    cases hs : ustep false s t with
    | error e => rfl
    | ok s' =>
      rw [hs] at h
      exact code_eq_tex_run' ts s' h.2

theorem skip_case_or' (left : Int) (l : List Tok) (hl : rawDepth 0 l = some 0)
    (st : List BranchKind) (g : Nat) (o rest : List Tok) :
    run ⟨st, .skipCase left 0, g, o⟩ (l ++ .orr :: rest) =
      if left = 1 then run ⟨.switch :: st, .deliver, g, o⟩ rest
      else if left > 1 then run ⟨st, .skipCase (left - 1) 0, g, o⟩ rest
      else run ⟨st, .skipCase left 0, g, o⟩ rest := by
  rw [skip_raw0 (isSkip_case left) st g o l _ hl, run_cons]
  by_cases h1 : left = 1
  · subst h1; simp [step]
  · by_cases h2 : left > 1
    · have : ¬ (left - 1 = 0) := by omega
      have : left > 0 := by omega
      simp [step, h1, h2, *]
    · have : ¬ (left > 0) := by omega
      simp [step, h1, h2, *]

end C07
