import TexcraftModel.Model.C08
import TexcraftModel.Lemmas.C08Map
import TexcraftModel.Lemmas.C08Bisim
namespace C08
open C20 C01

/-!
# C08 — `deserialize ∘ serialize` gives back an equivalent VM; the repaired serialiser is total
on nameable states.

Core Lean only.
-/

/-! ## `mapOpt` -/

theorem mapOpt_cons_some {α β : Type} (g : α → Option β) (a : α) (t : List α) (r : List β)
    (h : mapOpt g (a :: t) = some r) :
    ∃ b bs, g a = some b ∧ mapOpt g t = some bs ∧ r = b :: bs := by
  simp only [mapOpt] at h
  cases hg : g a with
  | none => simp [hg] at h
  | some b =>
    cases ht : mapOpt g t with
    | none => simp [hg, ht] at h
    | some bs =>
      simp only [hg, ht, Option.some.injEq] at h
      exact ⟨b, bs, rfl, rfl, h.symm⟩

theorem mapOpt_cons_of_some {α β : Type} (g : α → Option β) (a : α) (t : List α) (b : β)
    (bs : List β) (h1 : g a = some b) (h2 : mapOpt g t = some bs) :
    mapOpt g (a :: t) = some (b :: bs) := by
  simp only [mapOpt, h1, h2]

/-- a partial inverse element-wise is a partial inverse of `mapOpt` -/
theorem mapOpt_inv {α β : Type} (g : α → Option β) (g' : β → Option α) (l : List α) :
    ∀ (r : List β), (∀ a ∈ l, ∀ b, g a = some b → g' b = some a) → mapOpt g l = some r →
      mapOpt g' r = some l := by
  induction l with
  | nil =>
    intro r _ h
    simp only [mapOpt, Option.some.injEq] at h
    subst h
    rfl
  | cons a t ih =>
    intro r hinv h
    obtain ⟨b, bs, hb, hbs, rfl⟩ := mapOpt_cons_some g a t r h
    have h1 := hinv a (by simp) b hb
    have h2 := ih bs (fun x hx => hinv x (by simp [hx])) hbs
    exact mapOpt_cons_of_some g' b bs a t h1 h2

theorem mapOpt_total {α β : Type} (g : α → Option β) (l : List α)
    (h : ∀ a ∈ l, (g a).isSome = true) : ∃ r, mapOpt g l = some r := by
  induction l with
  | nil => exact ⟨[], rfl⟩
  | cons a t ih =>
    obtain ⟨bs, hbs⟩ := ih (fun x hx => h x (by simp [hx]))
    have ha := h a (by simp)
    cases hg : g a with
    | none => simp [hg] at ha
    | some b => exact ⟨b :: bs, mapOpt_cons_of_some g a t b bs hg hbs⟩

/-! ## One command, one saved variable -/

theorem getElem?_idxOf_of_mem (n : Nat) (l : List Nat) (h : n ∈ l) : l[l.idxOf n]? = some n := by
  have hlt : l.idxOf n < l.length := List.idxOf_lt_length_of_mem h
  rw [List.getElem?_eq_getElem hlt, List.getElem_idxOf]

theorem decCmd_encCmd (T : Table) (hT : NameTableSound T) (tbl : List Nat) (c : Cmd) (s : SCmd)
    (h : encCmd T tbl c = some s) : decCmd T tbl s = some c := by
  cases c with
  | prim p =>
    simp only [encCmd] at h
    cases hp : T.nameOfPrim p with
    | none => simp [hp] at h
    | some n =>
      simp only [hp, Option.some.injEq] at h
      subst h
      simp only [decCmd, hT.1 p n hp]
  | alias v =>
    simp only [encCmd] at h
    cases hv : T.nameOfVar v with
    | none => simp [hv] at h
    | some q =>
      obtain ⟨n, i⟩ := q
      simp only [hv, Option.some.injEq] at h
      subst h
      simp only [decCmd, hT.2 v n i hv]
  | mac n =>
    simp only [encCmd] at h
    by_cases hn : n ∈ tbl
    · simp only [hn, if_true, Option.some.injEq] at h
      subst h
      simp only [decCmd, getElem?_idxOf_of_mem n tbl hn]
    · simp [hn] at h
  | tok c => simp only [encCmd, Option.some.injEq] at h; subst h; rfl
  | chr c => simp only [encCmd, Option.some.injEq] at h; subst h; rfl
  | mchr c => simp only [encCmd, Option.some.injEq] at h; subst h; rfl
  | font c => simp only [encCmd, Option.some.injEq] at h; subst h; rfl

theorem decSave_encSave (T : Table) (hT : NameTableSound T) (e : Var × Action Val)
    (x : Nat × Nat × Action Val) (h : encSave T e = some x) : decSave T x = some e := by
  obtain ⟨v, a⟩ := e
  simp only [encSave] at h
  cases hv : T.nameOfVar v with
  | none => simp [hv] at h
  | some q =>
    obtain ⟨n, i⟩ := q
    simp only [hv, Option.some.injEq] at h
    subst h
    simp only [decSave, hT.2 v n i hv]

theorem decSave_encSave_stack (T : Table) (hT : NameTableSound T)
    (l : List (List (Var × Action Val))) (sv : List (List (Nat × Nat × Action Val)))
    (h : mapOpt (mapOpt (encSave T)) l = some sv) : mapOpt (mapOpt (decSave T)) sv = some l := by
  refine mapOpt_inv _ _ l sv ?_ h
  intro g _ r hr
  exact mapOpt_inv _ _ g r (fun e _ x hx => decSave_encSave T hT e x hx) hr

/-! ## One command map -/

/-- the total function that agrees with `encCmd` wherever it is defined -/
def encF (T : Table) (tbl : List Nat) : Cmd → SCmd := fun c =>
  match encCmd T tbl c with
  | some s => s
  | none => .chr 0

/-- `encCmd` is defined on `c` -/
def EncOk (T : Table) (tbl : List Nat) (c : Cmd) : Prop := encCmd T tbl c = some (encF T tbl c)

theorem encOk_of_some (T : Table) (tbl : List Nat) (c : Cmd) (s : SCmd)
    (h : encCmd T tbl c = some s) : s = encF T tbl c ∧ EncOk T tbl c := by
  have hf : encF T tbl c = s := by simp only [encF, h]
  exact ⟨hf.symm, by simp only [EncOk, hf, h]⟩

theorem encItem_some (T : Table) (tbl : List Nat) (it : Item Nat Cmd) (s : Item Nat SCmd)
    (h : encItem T tbl it = some s) :
    s = itemMap (encF T tbl) it ∧ ItemAll (EncOk T tbl) it := by
  cases it with
  | beginGroup =>
    simp only [encItem, Option.some.injEq] at h
    subst h
    exact ⟨rfl, trivial⟩
  | value k c =>
    simp only [encItem] at h
    cases hc : encCmd T tbl c with
    | none => simp [hc] at h
    | some x =>
      simp only [hc, Option.some.injEq] at h
      subst h
      obtain ⟨h1, h2⟩ := encOk_of_some T tbl c x hc
      exact ⟨by simp only [itemMap, h1], h2⟩

theorem mapOpt_encItem (T : Table) (tbl : List Nat) (ci : List (Item Nat Cmd)) :
    ∀ sc, mapOpt (encItem T tbl) ci = some sc →
      sc = ci.map (itemMap (encF T tbl)) ∧ ∀ it ∈ ci, ItemAll (EncOk T tbl) it := by
  induction ci with
  | nil =>
    intro sc h
    simp only [mapOpt, Option.some.injEq] at h
    subst h
    exact ⟨rfl, by intro it hit; cases hit⟩
  | cons a t ih =>
    intro sc h
    obtain ⟨b, bs, hb, hbs, rfl⟩ := mapOpt_cons_some _ a t sc h
    obtain ⟨h1, h2⟩ := encItem_some T tbl a b hb
    obtain ⟨h3, h4⟩ := ih bs hbs
    refine ⟨by simp only [List.map_cons, h1, h3], ?_⟩
    intro it hit
    rcases List.mem_cons.1 hit with rfl | hit
    · exact h2
    · exact h4 it hit

theorem decItem_itemMap (T : Table) (hT : NameTableSound T) (tbl : List Nat) (it : Item Nat Cmd)
    (h : ItemAll (EncOk T tbl) it) : decItem T tbl (itemMap (encF T tbl) it) = some it := by
  cases it with
  | beginGroup => rfl
  | value k c =>
    have hc : encCmd T tbl c = some (encF T tbl c) := h
    simp only [itemMap, decItem, decCmd_encCmd T hT tbl c _ hc]

theorem mapOpt_decItem (T : Table) (hT : NameTableSound T) (tbl : List Nat)
    (l : List (Item Nat Cmd)) (h : ∀ it ∈ l, ItemAll (EncOk T tbl) it) :
    mapOpt (decItem T tbl) (l.map (itemMap (encF T tbl))) = some l := by
  induction l with
  | nil => rfl
  | cons a t ih =>
    rw [List.map_cons]
    exact mapOpt_cons_of_some _ _ _ _ _ (decItem_itemMap T hT tbl a (h a (by simp)))
      (ih (fun x hx => h x (by simp [hx])))

/-- What deserialisation sees of one serialised command map. -/
theorem map_roundtrip (T : Table) (hT : NameTableSound T) (tbl : List Nat) (m : GMap Nat Cmd)
    (hm : Inv m) (ci : List (Item Nat Cmd)) (sc : List (Item Nat SCmd))
    (hi : m.iterAll = .ok ci) (he : mapOpt (encItem T tbl) ci = some sc) :
    ∃ ci', (GMap.fromIter sc).iterAll = .ok (ci'.map (itemMap (encF T tbl))) ∧
      mapOpt (decItem T tbl) (ci'.map (itemMap (encF T tbl))) = some ci' ∧
      (GMap.fromIter ci').abs = m.abs ∧ Inv (GMap.fromIter ci') := by
  obtain ⟨hsc, hall⟩ := mapOpt_encItem T tbl ci sc he
  obtain ⟨items, hitems, habs1, hinv1⟩ := iterAll_roundtrip m hm
  rw [hi] at hitems
  cases hitems
  obtain ⟨ci', hci', habs2, hinv2⟩ := iterAll_roundtrip (GMap.fromIter ci) hinv1
  refine ⟨ci', ?_, ?_, habs2.trans habs1, hinv2⟩
  · rw [hsc, fromIter_map, iterAll_map, hci']
  · have hg : GAll (EncOk T tbl) (GMap.fromIter ci) := fromIter_all _ ci hall
    exact mapOpt_decItem T hT tbl ci' (iterAll_all _ _ hg ci' hci')

/-! ## The serialiser, taken apart -/

theorem serialize_ok (T : Table) (vm : VMState) (s : Ser) (hs : serialize true T vm = .ok s) :
    ∃ ci ai sc sa sv, vm.cmds.iterAll = .ok ci ∧ vm.active.iterAll = .ok ai ∧
      mapOpt (encItem T (macrosOf ai (macrosOf ci []))) ci = some sc ∧
      mapOpt (encItem T (macrosOf ai (macrosOf ci []))) ai = some sa ∧
      mapOpt (mapOpt (encSave T)) vm.save = some sv ∧
      s = { cmds := GMap.fromIter sc, active := GMap.fromIter sa,
            macros := macrosOf ai (macrosOf ci []), save := sv, vars := vm.vars, font := vm.font,
            fontSave := vm.fontSave, scopeBit := vm.scopeBit } := by
  unfold serialize at hs
  cases hci : vm.cmds.iterAll with
  | panic => simp [hci] at hs
  | fuel => simp [hci] at hs
  | ok ci =>
    simp only [hci, if_true] at hs
    cases hai : vm.active.iterAll with
    | panic => simp [hai] at hs
    | fuel => simp [hai] at hs
    | ok ai =>
      simp only [hai] at hs
      cases h1 : mapOpt (encItem T (macrosOf ai (macrosOf ci []))) ci with
      | none => simp [h1] at hs
      | some sc =>
        cases h2 : mapOpt (encItem T (macrosOf ai (macrosOf ci []))) ai with
        | none => simp [h1, h2] at hs
        | some sa =>
          cases h3 : mapOpt (mapOpt (encSave T)) vm.save with
          | none => simp [h1, h2, h3] at hs
          | some sv =>
            simp only [h1, h2, h3, Res.ok.injEq] at hs
            exact ⟨ci, ai, sc, sa, sv, rfl, rfl, h1, h2, rfl, hs.symm⟩

/-- Deserialising what the repaired serialiser produced succeeds, and the result agrees with the
original VM on every plain field and, for both command maps, on the abstract state. -/
theorem deserialize_serialize (T : Table) (hT : NameTableSound T) (vm : VMState)
    (hc : Inv vm.cmds) (ha : Inv vm.active) (s : Ser) (hs : serialize true T vm = .ok s) :
    ∃ vm', deserialize T s = .ok vm' ∧ VEquiv vm' vm := by
  obtain ⟨ci, ai, sc, sa, sv, hci, hai, h1, h2, h3, rfl⟩ := serialize_ok T vm s hs
  obtain ⟨ci', c1, c2, c3, c4⟩ := map_roundtrip T hT _ vm.cmds hc ci sc hci h1
  obtain ⟨ai', a1, a2, a3, a4⟩ := map_roundtrip T hT _ vm.active ha ai sa hai h2
  have h4 := decSave_encSave_stack T hT vm.save sv h3
  refine ⟨{ vars := vm.vars, save := vm.save, cmds := GMap.fromIter ci',
            active := GMap.fromIter ai', font := vm.font, fontSave := vm.fontSave,
            scopeBit := vm.scopeBit }, ?_, ?_⟩
  · simp only [deserialize, c1, a1, c2, a2, h4]
  · exact ⟨rfl, rfl, rfl, rfl, rfl, c3, a3, c4, hc, a4, ha⟩

/-! ## Totality -/

/-- A command / saved variable has a name in the tables. -/
def nameableCmd (T : Table) : Cmd → Prop
  | .prim p => (T.nameOfPrim p).isSome = true
  | .alias v => (T.nameOfVar v).isSome = true
  | _ => True

def Nameable (T : Table) (vm : VMState) : Prop :=
  GAll (nameableCmd T) vm.cmds ∧ GAll (nameableCmd T) vm.active ∧
  ∀ g ∈ vm.save, ∀ e ∈ g, (T.nameOfVar e.1).isSome = true

theorem macrosOf_mono (n : Nat) (l : List (Item Nat Cmd)) :
    ∀ tbl : List Nat, n ∈ tbl → n ∈ macrosOf l tbl := by
  induction l with
  | nil => intro tbl h; exact h
  | cons it t ih =>
    intro tbl h
    cases it with
    | beginGroup => simp only [macrosOf]; exact ih tbl h
    | value k c =>
      cases c with
      | mac x =>
        simp only [macrosOf]
        apply ih
        by_cases hx : x ∈ tbl
        · simp only [hx, if_true]; exact h
        · simp only [hx, if_false]; exact List.mem_append_left _ h
      | chr _ => simp only [macrosOf]; exact ih tbl h
      | mchr _ => simp only [macrosOf]; exact ih tbl h
      | alias _ => simp only [macrosOf]; exact ih tbl h
      | tok _ => simp only [macrosOf]; exact ih tbl h
      | font _ => simp only [macrosOf]; exact ih tbl h
      | prim _ => simp only [macrosOf]; exact ih tbl h

theorem macrosOf_mem (k n : Nat) (l : List (Item Nat Cmd)) :
    ∀ tbl : List Nat, Item.value k (Cmd.mac n) ∈ l → n ∈ macrosOf l tbl := by
  induction l with
  | nil => intro tbl h; cases h
  | cons it t ih =>
    intro tbl h
    rcases List.mem_cons.1 h with h' | h'
    · subst h'
      simp only [macrosOf]
      apply macrosOf_mono
      by_cases hx : n ∈ tbl
      · simp only [hx, if_true]
      · simp only [hx, if_false]; exact List.mem_append_right _ (by simp)
    · cases it with
      | beginGroup => simp only [macrosOf]; exact ih tbl h'
      | value k' c =>
        cases c with
        | mac x => simp only [macrosOf]; exact ih _ h'
        | chr _ => simp only [macrosOf]; exact ih tbl h'
        | mchr _ => simp only [macrosOf]; exact ih tbl h'
        | alias _ => simp only [macrosOf]; exact ih tbl h'
        | tok _ => simp only [macrosOf]; exact ih tbl h'
        | font _ => simp only [macrosOf]; exact ih tbl h'
        | prim _ => simp only [macrosOf]; exact ih tbl h'

theorem encItem_isSome (T : Table) (tbl : List Nat) (it : Item Nat Cmd)
    (hn : ItemAll (nameableCmd T) it) (hm : ∀ k n, it = Item.value k (Cmd.mac n) → n ∈ tbl) :
    (encItem T tbl it).isSome = true := by
  cases it with
  | beginGroup => rfl
  | value k c =>
    cases c with
    | prim p =>
      have hp : (T.nameOfPrim p).isSome = true := hn
      cases hq : T.nameOfPrim p with
      | none => simp [hq] at hp
      | some x => simp only [encItem, encCmd, hq, Option.isSome_some]
    | alias v =>
      have hp : (T.nameOfVar v).isSome = true := hn
      cases hq : T.nameOfVar v with
      | none => simp [hq] at hp
      | some x =>
        obtain ⟨a, b⟩ := x
        simp only [encItem, encCmd, hq, Option.isSome_some]
    | mac n =>
      have hx : n ∈ tbl := hm k n rfl
      simp only [encItem, encCmd, hx, if_true, Option.isSome_some]
    | tok c => rfl
    | chr c => rfl
    | mchr c => rfl
    | font c => rfl

theorem mapOpt_encItem_total (T : Table) (tbl : List Nat) (l : List (Item Nat Cmd))
    (hn : ∀ it ∈ l, ItemAll (nameableCmd T) it)
    (hm : ∀ k n, Item.value k (Cmd.mac n) ∈ l → n ∈ tbl) :
    ∃ r, mapOpt (encItem T tbl) l = some r := by
  apply mapOpt_total
  intro it hit
  exact encItem_isSome T tbl it (hn it hit) (fun k n e => hm k n (e ▸ hit))

theorem encSave_isSome (T : Table) (e : Var × Action Val)
    (h : (T.nameOfVar e.1).isSome = true) : (encSave T e).isSome = true := by
  cases hq : T.nameOfVar e.1 with
  | none => simp [hq] at h
  | some x =>
    obtain ⟨a, b⟩ := x
    simp only [encSave, hq, Option.isSome_some]

theorem mapOpt_encSave_total (T : Table) (l : List (List (Var × Action Val)))
    (h : ∀ g ∈ l, ∀ e ∈ g, (T.nameOfVar e.1).isSome = true) :
    ∃ r, mapOpt (mapOpt (encSave T)) l = some r := by
  apply mapOpt_total
  intro g hg
  obtain ⟨r, hr⟩ := mapOpt_total (encSave T) g (fun e he => encSave_isSome T e (h g hg e he))
  simp only [hr, Option.isSome_some]

/-- The repaired serialiser does not panic when everything stored has a name. -/
theorem serialize_total (T : Table) (vm : VMState) (hc : Inv vm.cmds) (ha : Inv vm.active)
    (hn : Nameable T vm) : ∃ s, serialize true T vm = .ok s := by
  obtain ⟨hnc, hna, hns⟩ := hn
  obtain ⟨ci, hci, _, _⟩ := iterAll_roundtrip vm.cmds hc
  obtain ⟨ai, hai, _, _⟩ := iterAll_roundtrip vm.active ha
  obtain ⟨sc, h1⟩ := mapOpt_encItem_total T (macrosOf ai (macrosOf ci [])) ci
    (iterAll_all _ _ hnc ci hci)
    (fun k n h => macrosOf_mono n ai _ (macrosOf_mem k n ci [] h))
  obtain ⟨sa, h2⟩ := mapOpt_encItem_total T (macrosOf ai (macrosOf ci [])) ai
    (iterAll_all _ _ hna ai hai)
    (fun k n h => macrosOf_mem k n ai _ h)
  obtain ⟨sv, h3⟩ := mapOpt_encSave_total T vm.save hns
  unfold serialize
  simp only [hci, if_true, hai, h1, h2, h3]
  exact ⟨_, rfl⟩

end C08
