import TexcraftModel.Lemmas.C18Render
import TexcraftModel.Lemmas.C18Cst

/-! C18: formatting at the text level. Every token the lexer produces is printable, the CST
parser keeps that, so `lex ∘ render` can be applied to whatever was parsed from a text. -/
namespace C18

def tokOk : BTok → Bool
  | .kw w => isWord w
  | .int n => intOk n
  | .dim s => dimOk s
  | .inf s _ => intOk s
  | _ => true

def toksOk (l : List BTok) : Bool := l.all tokOk

theorem scanWord_all : ∀ r : List Char,
    ((scanWord r).1).all (fun x => isAlpha x || decide (x = '_')) = true := by
  intro r
  induction r with
  | nil => simp [scanWord]
  | cons c r ih =>
    simp only [scanWord]
    split
    · rename_i h
      simp only [List.all_cons, Bool.and_eq_true]
      exact ⟨by simpa using h, ih⟩
    · simp

theorem scaledNew_range (n f num den : Nat) (isSp : Bool) (s : Int)
    (h : scaledNew (n : Int) f num den isSp = some s) : -1073741823 ≤ s ∧ s ≤ 1073741823 := by
  unfold scaledNew maxDimen at h
  split at h
  · split at h
    · cases h
    · simp only [Option.some.injEq] at h; omega
  · simp only [] at h
    split at h
    · cases h
    · split at h
      · cases h
      · rename_i h1 h2
        simp only [Option.some.injEq] at h
        simp only [Bool.or_eq_true, decide_eq_true_eq, not_or, Int.not_le, Int.not_lt] at h2
        have hb : (0 : Int) ≤ (n : Int) * (num : Int) := Int.mul_nonneg (by omega) (by omega)
        have hrem : 0 ≤ ((n : Int) * (num : Int)).tmod (den : Int) := Int.tmod_nonneg _ hb
        have hnum : (0 : Int) ≤ ((f * num : Nat) : Int) + ((n : Int) * (num : Int)).tmod (den : Int) * 65536 := by
          have : (0 : Int) ≤ ((f * num : Nat) : Int) := by omega
          omega
        have hfq := Int.tdiv_nonneg hnum (show (0 : Int) ≤ (den : Int) by omega)
        generalize ((((f * num : Nat) : Int) + ((n : Int) * (num : Int)).tmod (den : Int) * 65536).tdiv (den : Int)) = fq at *
        have hm : fq.tmod 65536 = fq % 65536 := Int.tmod_eq_emod_of_nonneg hfq
        rw [hm] at h
        omega

theorem intOk_of_le (neg : Bool) (n : Nat) (h : ¬ n > 2147483647) :
    intOk ((if neg then -1 else 1) * (n : Int)) = true := by
  unfold intOk; apply decide_eq_true
  cases neg <;> simp <;> omega

theorem lexInt_ok (st : List Char) (neg : Bool) (n : Nat) (r : List Char) (t : BTok) (r' : List Char)
    (h : lexInt st neg n r = .ok (t, r')) : tokOk t = true := by
  unfold lexInt at h
  split at h
  · cases h
  · rename_i hn
    simp only [Res.ok.injEq, Prod.mk.injEq] at h
    rw [← h.1]
    exact intOk_of_le neg n hn

theorem lexUnit_ok (st : List Char) (neg : Bool) (n : Nat) (ds : List Nat) (r : List Char) (t : BTok) (r' : List Char)
    (h : lexUnit st neg n ds r = .ok (t, r')) : tokOk t = true := by
  unfold lexUnit at h
  generalize scanWord r = p at h
  obtain ⟨u, r1⟩ := p
  simp only [] at h
  split at h
  · cases h
  · split at h
    · split at h
      · rename_i num den isSp _ s hs
        simp only [Res.ok.injEq, Prod.mk.injEq] at h
        rw [← h.1]
        have := scaledNew_range _ _ _ _ _ _ hs
        simp only [tokOk, dimOk, maxDimen]
        apply decide_eq_true
        cases neg <;> simp <;> omega
      · cases h
    · split at h
      · split at h
        · cases h
        · rename_i hs
          simp only [Res.ok.injEq, Prod.mk.injEq] at h
          rw [← h.1]
          simp only [tokOk, intOk]
          apply decide_eq_true
          cases neg <;> simp <;> omega
      · cases h

theorem lexNumber_ok (st : List Char) (neg : Bool) (cs : List Char) (t : BTok) (r' : List Char)
    (h : lexNumber st neg cs = .ok (t, r')) : tokOk t = true := by
  unfold lexNumber at h
  generalize scanDigits 0 cs = p at h
  obtain ⟨n, r1⟩ := p
  simp only [] at h
  cases r1 with
  | nil => exact lexInt_ok _ _ _ _ _ _ h
  | cons c r2 =>
    simp only [] at h
    split at h
    · generalize scanFrac r2 = q at h
      obtain ⟨ds, r3⟩ := q
      simp only [] at h
      cases r3 with
      | nil => cases h
      | cons c' r4 =>
        simp only [] at h
        split at h
        · exact lexUnit_ok _ _ _ _ _ _ _ h
        · split at h <;> cases h
    · split at h
      · exact lexUnit_ok _ _ _ _ _ _ _ h
      · exact lexInt_ok _ _ _ _ _ _ h

theorem ofRes_tokOk {x : Res (BTok × List Char)} (hx : ∀ t r, x = .ok (t, r) → tokOk t = true)
    {t : BTok} {r : List Char} (h : Step.ofRes x = .tok t r) : tokOk t = true :=
  hx t r (ofRes_tok h)

/-- Every token the lexer produces is one the printer can print back. -/
theorem lexStep_tokOk (c : Char) (r : List Char) (t : BTok) (r' : List Char)
    (h : lexStep c r = .tok t r') : tokOk t = true := by
  unfold lexStep at h
  by_cases h1 : c = '#'
  · rw [if_pos h1] at h; cases h
  rw [if_neg h1] at h
  by_cases h2 : isWs c = true
  · rw [if_pos h2] at h; cases h
  rw [if_neg h2] at h
  by_cases h3 : c = '('
  · rw [if_pos h3] at h; simp only [Step.tok.injEq] at h; rw [← h.1]; rfl
  rw [if_neg h3] at h
  by_cases h4 : c = ')'
  · rw [if_pos h4] at h; simp only [Step.tok.injEq] at h; rw [← h.1]; rfl
  rw [if_neg h4] at h
  by_cases h5 : c = '['
  · rw [if_pos h5] at h; simp only [Step.tok.injEq] at h; rw [← h.1]; rfl
  rw [if_neg h5] at h
  by_cases h6 : c = ']'
  · rw [if_pos h6] at h; simp only [Step.tok.injEq] at h; rw [← h.1]; rfl
  rw [if_neg h6] at h
  by_cases h7 : c = ','
  · rw [if_pos h7] at h; simp only [Step.tok.injEq] at h; rw [← h.1]; rfl
  rw [if_neg h7] at h
  by_cases h8 : c = '='
  · rw [if_pos h8] at h; simp only [Step.tok.injEq] at h; rw [← h.1]; rfl
  rw [if_neg h8] at h
  by_cases h9 : c = '"'
  · rw [if_pos h9] at h
    refine ofRes_tokOk ?_ h
    intro t r hx
    cases hs : scanStr .norm _ with
    | ok p => rw [hs] at hx; simp only [Res.map, Res.ok.injEq, Prod.mk.injEq] at hx; rw [← hx.1]; rfl
    | err e => rw [hs] at hx; simp [Res.map] at hx
    | unsupported => rw [hs] at hx; simp [Res.map] at hx
  rw [if_neg h9] at h
  by_cases h10 : c = '-'
  · rw [if_pos h10] at h
    exact ofRes_tokOk (fun t r hx => lexNumber_ok _ _ _ _ _ hx) h
  rw [if_neg h10] at h
  by_cases h11 : (digitVal c).isSome = true
  · rw [if_pos h11] at h
    exact ofRes_tokOk (fun t r hx => lexNumber_ok _ _ _ _ _ hx) h
  rw [if_neg h11] at h
  by_cases h12 : isAlpha c = true
  · rw [if_pos h12] at h
    have hw := scanWord_all r
    generalize scanWord r = p at h hw
    obtain ⟨w, r1⟩ := p
    simp only [Step.tok.injEq] at h
    rw [← h.1]
    simp only [tokOk, isWord, Bool.and_eq_true]
    exact ⟨h12, hw⟩
  rw [if_neg h12] at h
  cases h

theorem lex_toksOk : ∀ (n : Nat) (s : List Char) (toks : List BTok),
    s.length ≤ n → lex s = .ok toks → toksOk toks = true := by
  intro n
  induction n with
  | zero =>
    intro s toks hn h
    have : s = [] := List.eq_nil_of_length_eq_zero (by omega)
    subst this
    simp only [lex_nil, Res.ok.injEq] at h
    rw [← h]; rfl
  | succ n ih =>
    intro s toks hn h
    cases s with
    | nil => simp only [lex_nil, Res.ok.injEq] at h; rw [← h]; rfl
    | cons c r =>
      simp only [List.length_cons] at hn
      rw [lex_cons] at h
      have hsh := lexStep_shorter c r
      cases hst : lexStep c r with
      | skip r' =>
        rw [hst] at h
        exact ih r' toks (by have := hsh.1 r' hst; omega) h
      | tok t r' =>
        rw [hst] at h
        simp only [] at h
        cases hl : lex r' with
        | ok l =>
          rw [hl] at h
          simp only [Res.cons, Res.ok.injEq] at h
          rw [← h]
          simp only [toksOk, List.all_cons, Bool.and_eq_true]
          exact ⟨lexStep_tokOk c r t r' hst, ih r' l (by have := hsh.2 t r' hst; omega) hl⟩
        | err e => rw [hl] at h; simp [Res.cons] at h
        | unsupported => rw [hl] at h; simp [Res.cons] at h
      | err e => rw [hst] at h; cases h
      | stop =>
        rw [hst] at h
        simp only [Res.ok.injEq] at h
        rw [← h]; rfl

/-! ### the CST parser keeps printability -/

theorem toksOk_cons (t : BTok) (l : List BTok) : toksOk (t :: l) = (tokOk t && toksOk l) := rfl

theorem toksOk_skipComma (l : List BTok) (h : toksOk l = true) : toksOk (skipComma l) = true := by
  unfold skipComma
  split
  · simp only [toksOk_cons, Bool.and_eq_true] at h; exact h.2
  · exact h

def ParseKeeps (f : Nat) : Prop :=
  (∀ toks cs rest, parseCalls f toks = some (cs, rest) → toksOk toks = true →
      callsOk cs = true ∧ toksOk rest = true) ∧
  (∀ toks as rest, parseArgs f toks = some (as, rest) → toksOk toks = true →
      argsOk as = true ∧ toksOk rest = true) ∧
  (∀ toks v rest, parseVal f toks = some (v, rest) → toksOk toks = true →
      valOk v = true ∧ toksOk rest = true)

theorem parseKeeps : ∀ f, ParseKeeps f := by
  intro f
  induction f with
  | zero =>
    refine ⟨?_, ?_, ?_⟩ <;> intro toks x rest h _ <;> simp [parseCalls, parseArgs, parseVal] at h
  | succ f ih =>
    obtain ⟨ihc, iha, ihv⟩ := ih
    refine ⟨?_, ?_, ?_⟩
    · intro toks cs rest h ht
      simp only [parseCalls] at h
      split at h
      · rename_i name t
        simp only [toksOk_cons, Bool.and_eq_true] at ht
        cases ha : parseArgs f t with
        | none => rw [ha] at h; cases h
        | some p =>
          obtain ⟨args, t'⟩ := p
          rw [ha] at h
          simp only [] at h
          have h1 := iha t args t' ha ht.2.2
          cases hc : parseCalls f t' with
          | none => rw [hc] at h; cases h
          | some q =>
            obtain ⟨cs', t''⟩ := q
            rw [hc] at h
            simp only [Option.some.injEq, Prod.mk.injEq] at h
            have h2 := ihc t' cs' t'' hc h1.2
            rw [← h.1, ← h.2]
            simp only [callsOk, callOk, Bool.and_eq_true]
            exact ⟨⟨⟨ht.1, h1.1⟩, h2.1⟩, h2.2⟩
      · simp only [Option.some.injEq, Prod.mk.injEq] at h
        rw [← h.1, ← h.2]
        exact ⟨rfl, ht⟩
    · intro toks as rest h ht
      simp only [parseArgs] at h
      split at h
      · rename_i t
        simp only [Option.some.injEq, Prod.mk.injEq] at h
        simp only [toksOk_cons, Bool.and_eq_true] at ht
        rw [← h.1, ← h.2]
        exact ⟨rfl, ht.2⟩
      · rename_i k t
        simp only [toksOk_cons, Bool.and_eq_true] at ht
        cases hv : parseVal f t with
        | none => rw [hv] at h; cases h
        | some p =>
          obtain ⟨v, t'⟩ := p
          rw [hv] at h
          simp only [] at h
          have h1 := ihv t v t' hv ht.2.2
          cases ha : parseArgs f (skipComma t') with
          | none => rw [ha] at h; cases h
          | some q =>
            obtain ⟨as', t''⟩ := q
            rw [ha] at h
            simp only [Option.some.injEq, Prod.mk.injEq] at h
            have h2 := iha _ as' t'' ha (toksOk_skipComma _ h1.2)
            rw [← h.1, ← h.2]
            simp only [argsOk, argOk, Bool.and_eq_true]
            exact ⟨⟨⟨ht.1, h1.1⟩, h2.1⟩, h2.2⟩
      · cases hv : parseVal f toks with
        | none => rw [hv] at h; cases h
        | some p =>
          obtain ⟨v, t'⟩ := p
          rw [hv] at h
          simp only [] at h
          have h1 := ihv toks v t' hv ht
          cases ha : parseArgs f (skipComma t') with
          | none => rw [ha] at h; cases h
          | some q =>
            obtain ⟨as', t''⟩ := q
            rw [ha] at h
            simp only [Option.some.injEq, Prod.mk.injEq] at h
            have h2 := iha _ as' t'' ha (toksOk_skipComma _ h1.2)
            rw [← h.1, ← h.2]
            simp only [argsOk, argOk, Bool.and_eq_true]
            exact ⟨⟨h1.1, h2.1⟩, h2.2⟩
    · intro toks v rest h ht
      simp only [parseVal] at h
      split at h
      all_goals first
        | (simp only [Option.some.injEq, Prod.mk.injEq] at h
           simp only [toksOk_cons, Bool.and_eq_true] at ht
           rw [← h.1, ← h.2]
           exact ⟨ht.1, ht.2⟩)
        | skip
      · rename_i t
        simp only [toksOk_cons, Bool.and_eq_true] at ht
        cases hc : parseCalls f t with
        | none => rw [hc] at h; simp at h
        | some q =>
          obtain ⟨cs, t'⟩ := q
          rw [hc] at h
          have h1 := ihc t cs t' hc ht.2
          cases t' with
          | nil => simp at h
          | cons x t'' =>
            cases x <;> simp at h
            simp only [toksOk_cons, Bool.and_eq_true] at h1
            rw [← h.1, ← h.2]
            exact ⟨h1.1, h1.2.2⟩
      · cases h

theorem parseSource_callsOk (toks : List BTok) (cs : List Call) (h : parseSource toks = some cs)
    (ht : toksOk toks = true) : callsOk cs = true := by
  unfold parseSource at h
  cases hp : parseCalls (toks.length + 1) toks with
  | none => rw [hp] at h; cases h
  | some q =>
    obtain ⟨cs', rest⟩ := q
    rw [hp] at h
    have := (parseKeeps _).1 toks cs' rest hp ht
    cases rest with
    | nil => simp only [Option.some.injEq] at h; rw [← h]; exact this.1
    | cons x r => simp at h

end C18
