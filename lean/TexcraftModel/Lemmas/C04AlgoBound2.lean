import TexcraftModel.Lemmas.C04AlgoBound

/-!
C04 — `demBound_sound_lower`: the lower-bound twin of `demBound_sound`. If the conservative
bound `demBound x` is below `AWFUL_BAD`, every feasible sequence of lines from the start of the
paragraph has total demerits above `-AWFUL_BAD`.

Shape of the proof: (1) one line costs at least `-(bnd_perLine x)` (TeX.2021.859 term by term:
the squared term is non-negative, the penalty term subtracts at most `maxPen²`, the hyphen and
adjacency terms subtract at most their absolute values); (2) induction over `run`; (3) a run of
`k` lines passes `k` distinct legal breakpoints (`bnd_run_cnt`). Helper names carry the prefix
`bnd2_`. Core Lean only.
-/
namespace C04

/-! ### one line, from below -/

theorem bnd2_pen_term (d2 pen M : Int) (hM : -10000 < pen → pen ≤ 0 → pen * pen ≤ M) :
    d2 - M ≤ (if 0 < pen then d2 + pen * pen else if -10000 < pen then d2 - pen * pen else d2) ∨
    d2 ≤ (if 0 < pen then d2 + pen * pen else if -10000 < pen then d2 - pen * pen else d2) := by
  have hp := bnd_sq_nonneg pen
  split
  · right; omega
  · split
    · rename_i h1 h2
      have := hM h2 (by omega)
      left; omega
    · right; omega

theorem bnd2_tail (d3 fin dbl adj : Int) (c1 c2 c3 : Prop)
    [Decidable c1] [Decidable c2] [Decidable c3] :
    d3 - iabs fin - iabs dbl - iabs adj ≤
      (if c3 then (if c1 then d3 + fin else if c2 then d3 + dbl else d3) + adj
        else (if c1 then d3 + fin else if c2 then d3 + dbl else d3)) := by
  have h1 := bnd_iabs_le fin
  have h2 := bnd_iabs_le dbl
  have h3 := bnd_iabs_le adj
  have h4 := bnd_iabs_nonneg fin
  have h5 := bnd_iabs_nonneg dbl
  have h6 := bnd_iabs_nonneg adj
  split <;> split <;> (try split) <;> omega

theorem bnd2_demF_ge (lp bad pen fin dbl adj D M : Int) (c1 c2 c3 : Prop)
    [Decidable c1] [Decidable c2] [Decidable c3]
    (hD : 0 ≤ D) (hM0 : 0 ≤ M) (hM : -10000 < pen → pen ≤ 0 → pen * pen ≤ M) :
    -(D + M + iabs fin + iabs dbl + iabs adj)
      ≤ bnd_demF lp bad pen fin dbl adj c1 c2 c3 := by
  unfold bnd_demF
  simp only []
  generalize (if 10000 ≤ lp + bad ∨ lp + bad ≤ -10000 then 10000 else lp + bad) = d1
  have hd2 : 0 ≤ d1 * d1 := bnd_sq_nonneg d1
  have hd3 := bnd2_pen_term (d1 * d1) pen M hM
  refine Int.le_trans ?_ (bnd2_tail _ fin dbl adj c1 c2 c3)
  rcases hd3 with hd3 | hd3 <;> omega

theorem bnd2_demerits_ge (x : Inst) (a : Option Nat) (pf : Fit) (b : Nat) (bad : Int) (fit : Fit)
    (hb : b ∈ legalBreaks x) :
    -(bnd_perLine x) ≤ demerits x a pf b bad fit := by
  rw [bnd_demerits_eq]
  unfold bnd_perLine
  apply bnd2_demF_ge
  · exact bnd_sq_nonneg _
  · exact bnd_sq_nonneg _
  · cases hbi : breakInfo x b with
    | none =>
      simp only
      intro _ _
      have := bnd_sq_nonneg (bnd_maxPen x)
      omega
    | some q =>
      obtain ⟨p, hy⟩ := q
      simp only
      intro hp _
      have h := bnd_maxPen_ge x b p hy hb hbi hp
      have h2 := bnd_iabs_le p
      exact bnd_sq_le _ _ (by omega) (by omega)

/-! ### a run of lines, from below -/

theorem bnd2_run_cost {x : Inst} {st st' : St} {s : List Nat} {c : Int}
    (h : run x st s = some (c, st')) : -((s.length : Int) * bnd_perLine x) ≤ c := by
  induction s generalizing st c with
  | nil =>
    simp [run] at h; rw [← h.1]; simp
  | cons a t ih =>
    simp only [run] at h
    split at h
    · cases h
    · rename_i bad fit hl
      split at h
      · cases h
      · rename_i c2 st2 hr
        cases h
        have hm := bnd_mem_legal (lineEval_some hl).2 (lineEval_break hl)
        have hd := bnd2_demerits_ge x st.pos st.fit a bad fit hm
        have hc := ih hr
        have he : ((a :: t).length : Int) * bnd_perLine x
            = (t.length : Int) * bnd_perLine x + bnd_perLine x := by
          rw [List.length_cons, Int.natCast_add, Int.add_mul]
          simp
        rw [he]
        omega

theorem demBound_sound_lower (x : Inst) (h : demBound x < awfulBad) :
    ∀ s c st, run x {} s = some (c, st) → -awfulBad < c := by
  intro s c st hr
  have h1 := bnd_run_cnt hr
  have h2 := bnd2_run_cost hr
  have h3 := run_pos hr (by simp [posIdx])
  have h4 := bnd_cnt_mono x h3
  rw [bnd_cnt_legal] at h4
  have h5 : (s.length : Int) ≤ ((legalBreaks x).length : Int) := by
    have : s.length ≤ (legalBreaks x).length := by omega
    exact Int.ofNat_le.mpr this
  have h6 := Int.mul_le_mul_of_nonneg_right h5 (bnd_perLine_nonneg x)
  have h7 := bnd_iabs_nonneg x.p.adjDemerits
  rw [bnd_demBound_eq] at h
  omega

end C04
