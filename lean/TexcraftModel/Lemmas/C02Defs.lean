import TexcraftModel.Model.C02

/-! Shared definitions for the C02 lemma files: what it means for a KMP matcher to be correct. -/
namespace C02

/-- The search state after feeding `text` to `Search::next`, starting in state `q`
(`none` = some step panicked). -/
def Matcher.run (m : Matcher) : Nat → List Tok → Option Nat
  | q, [] => some q
  | q, c :: cs =>
    match m.next q c with
    | none => none
    | some (q', _) => m.run q' cs

/-- The matcher never panics and `next` returns `true` exactly when the substring is a
suffix of everything fed so far. -/
def MatcherOK (m : Matcher) : Prop :=
  ∀ (text : List Tok) (c : Tok), ∃ q q' b,
    m.run 0 text = some q ∧ m.next q c = some (q', b) ∧ (b = true ↔ m.sub <:+ text ++ [c])

end C02
