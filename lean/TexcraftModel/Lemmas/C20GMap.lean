import TexcraftModel.Model.C20

/-!
# C20 — the scoped map (`GMap`) refines the stack of snapshots (`Snap`)

A. association-list laws; B. the invariant `Inv` and its preservation; C. one-step and
whole-history refinement; D. `iterAll` never panics under `Inv`; E. `fromIter (iterAll m)`
has the same abstraction (hence the same behaviour) as `m`.

Core Lean only.
-/

namespace C20
open Snap (fupd)

variable {K V : Type} [DecidableEq K]

/-! ## A. Association-list laws -/

theorem alookup_aerase {W : Type} (k : K) (l : AList K W) (k' : K) :
    alookup (aerase k l) k' = if k = k' then none else alookup l k' := by
  induction l with
  | nil => simp [aerase, alookup]
  | cons p t ih =>
    obtain ⟨a, w⟩ := p
    simp only [aerase]
    by_cases ha : a = k
    · subst ha
      simp only [if_true, ih, alookup]
      by_cases h : a = k' <;> simp [h]
    · simp only [ha, if_false, alookup, ih]
      by_cases h : k = k'
      · subst h; simp [ha]
      · simp [h]

theorem alookup_ainsert {W : Type} (k : K) (v : W) (l : AList K W) (k' : K) :
    alookup (ainsert k v l) k' = if k = k' then some v else alookup l k' := by
  simp only [ainsert, alookup, alookup_aerase]
  by_cases h : k = k' <;> simp [h]

theorem alookup_cons {W : Type} (a : K) (w : W) (t : AList K W) (k : K) :
    alookup ((a, w) :: t) k = if a = k then some w else alookup t k := rfl

theorem mem_keys_iff {W : Type} (l : AList K W) (k : K) :
    k ∈ l.map (·.1) ↔ (alookup l k).isSome := by
  induction l with
  | nil => simp [alookup]
  | cons p t ih =>
    obtain ⟨a, w⟩ := p
    simp only [List.map_cons, List.mem_cons, alookup, ih]
    by_cases h : a = k
    · simp [h]
    · have h' : ¬ k = a := fun e => h e.symm
      simp [h, h']

theorem alookup_none_iff {W : Type} (l : AList K W) (k : K) :
    alookup l k = none ↔ k ∉ l.map (·.1) := by
  rw [mem_keys_iff]
  cases alookup l k <;> simp

/-! ## B. The invariant -/

def NodupKeys {W : Type} (l : AList K W) : Prop := (l.map (·.1)).Nodup

omit [DecidableEq K] in
theorem nodupKeys_nil {W : Type} : NodupKeys ([] : AList K W) := by
  simp [NodupKeys]

theorem nodupKeys_cons {W : Type} (a : K) (w : W) (t : AList K W) :
    NodupKeys ((a, w) :: t) ↔ alookup t a = none ∧ NodupKeys t := by
  simp only [NodupKeys, List.map_cons, List.nodup_cons, alookup_none_iff]

theorem nodupKeys_aerase {W : Type} (k : K) (l : AList K W) (h : NodupKeys l) :
    NodupKeys (aerase k l) := by
  induction l with
  | nil => simpa [aerase] using h
  | cons p t ih =>
    obtain ⟨a, w⟩ := p
    rw [nodupKeys_cons] at h
    simp only [aerase]
    by_cases ha : a = k
    · simp only [ha, if_true]; exact ih h.2
    · simp only [ha, if_false]
      rw [nodupKeys_cons]
      refine ⟨?_, ih h.2⟩
      rw [alookup_aerase]
      simp [h.1]

theorem nodupKeys_ainsert {W : Type} (k : K) (w : W) (l : AList K W) (h : NodupKeys l) :
    NodupKeys (ainsert k w l) := by
  simp only [ainsert]
  rw [nodupKeys_cons]
  refine ⟨?_, nodupKeys_aerase k l h⟩
  rw [alookup_aerase]; simp

/-- A `Delete` entry for `k` in a group means that no outer group logs `k`. -/
def GroupsOK : List (AList K (Action V)) → Prop
  | [] => True
  | g :: gs => (∀ k, alookup g k = some .delete → ∀ g' ∈ gs, alookup g' k = none) ∧ GroupsOK gs

structure Inv (m : GMap K V) : Prop where
  /-- keys of the backing container are distinct -/
  bcNodup : NodupKeys m.bc
  /-- keys of every group log are distinct -/
  logsNodup : ∀ g ∈ m.groups, NodupKeys g
  /-- every logged key is visible -/
  visible : ∀ g ∈ m.groups, ∀ k, (alookup g k).isSome → (alookup m.bc k).isSome
  /-- a `Delete` entry for `k` in a group ⇒ no outer group logs `k` -/
  groupsOK : GroupsOK m.groups

theorem inv_empty : Inv (GMap.empty : GMap K V) := by
  refine ⟨nodupKeys_nil, ?_, ?_, trivial⟩ <;> intro g hg <;> cases hg

/-- Undo only looks at the snapshot at the key itself. -/
theorem undo_congr (g : AList K (Action V)) (f f' : K → Option V) (k : K) (h : f k = f' k) :
    undo g f k = undo g f' k := by
  simp only [undo]; rw [h]

theorem undo_cons (a : K) (act : Action V) (t : AList K (Action V)) (f : K → Option V) (k : K) :
    undo ((a, act) :: t) f k =
      if a = k then (match act with | .revert v => some v | .delete => none) else undo t f k := by
  simp only [undo, alookup]
  by_cases h : a = k
  · simp only [h, if_true]; cases act <;> rfl
  · simp only [h, if_false]

/-- Key lemma (i): applying a log with distinct keys is `undo`. -/
theorem alookup_applyLog (g : AList K (Action V)) (bc : AList K V) (hg : NodupKeys g) (k : K) :
    alookup (GMap.applyLog g bc) k = undo g (fun k => alookup bc k) k := by
  induction g generalizing bc with
  | nil => simp [GMap.applyLog, undo, alookup]
  | cons p t ih =>
    obtain ⟨a, act⟩ := p
    rw [nodupKeys_cons] at hg
    rw [undo_cons]
    cases act with
    | revert v =>
      simp only [GMap.applyLog]
      rw [ih _ hg.2]
      by_cases h : a = k
      · subst h
        simp only [if_true, undo, hg.1, alookup_ainsert]
      · simp only [h, if_false]
        apply undo_congr
        simp [alookup_ainsert, h]
    | delete =>
      simp only [GMap.applyLog]
      rw [ih _ hg.2]
      by_cases h : a = k
      · subst h
        simp only [if_true, undo, hg.1, alookup_aerase]
      · simp only [h, if_false]
        apply undo_congr
        simp [alookup_aerase, h]

theorem nodupKeys_applyLog (g : AList K (Action V)) (bc : AList K V) (h : NodupKeys bc) :
    NodupKeys (GMap.applyLog g bc) := by
  induction g generalizing bc with
  | nil => simpa [GMap.applyLog] using h
  | cons p t ih =>
    obtain ⟨a, act⟩ := p
    cases act with
    | revert v => simp only [GMap.applyLog]; exact ih _ (nodupKeys_ainsert _ _ _ h)
    | delete => simp only [GMap.applyLog]; exact ih _ (nodupKeys_aerase _ _ h)

theorem groupsOK_map_aerase (k : K) (gs : List (AList K (Action V))) (h : GroupsOK gs) :
    GroupsOK (gs.map (aerase k)) := by
  induction gs with
  | nil => trivial
  | cons g gs ih =>
    simp only [List.map_cons, GroupsOK]
    refine ⟨?_, ih h.2⟩
    intro k'' hk'' g' hg'
    rw [List.mem_map] at hg'
    obtain ⟨g0, hg0, rfl⟩ := hg'
    rw [alookup_aerase] at hk'' ⊢
    by_cases hk : k = k''
    · simp [hk]
    · simp only [hk, if_false] at hk'' ⊢
      exact h.1 k'' hk'' g0 hg0

theorem isSome_alookup_ainsert {W : Type} (k : K) (w : W) (l : AList K W) (k' : K)
    (h : (alookup l k').isSome) : (alookup (ainsert k w l) k').isSome := by
  rw [alookup_ainsert]; by_cases hk : k = k' <;> simp [hk, h]

theorem inv_insert_glob (m : GMap K V) (k : K) (v : V) (h : Inv m) :
    Inv { bc := ainsert k v m.bc, groups := m.groups.map (aerase k) } := by
  refine ⟨nodupKeys_ainsert _ _ _ h.bcNodup, ?_, ?_, groupsOK_map_aerase k _ h.groupsOK⟩
  · intro g hg
    simp only [List.mem_map] at hg
    obtain ⟨g0, hg0, rfl⟩ := hg
    exact nodupKeys_aerase _ _ (h.logsNodup g0 hg0)
  · intro g hg k' hk'
    simp only [List.mem_map] at hg
    obtain ⟨g0, hg0, rfl⟩ := hg
    rw [alookup_aerase] at hk'
    by_cases hk : k = k'
    · simp [hk] at hk'
    · simp only [hk, if_false] at hk'
      exact isSome_alookup_ainsert _ _ _ _ (h.visible g0 hg0 k' hk')

theorem inv_insert (m : GMap K V) (k : K) (v : V) (s : Scope) (h : Inv m) :
    Inv (m.insert k v s).1 := by
  cases s with
  | glob =>
    simp only [GMap.insert]
    cases alookup m.bc k <;> exact inv_insert_glob m k v h
  | loc =>
    obtain ⟨bc, groups⟩ := m
    simp only [GMap.insert]
    cases hb : alookup bc k with
    | none =>
      cases groups with
      | nil =>
        refine ⟨nodupKeys_ainsert _ _ _ h.bcNodup, ?_, ?_, trivial⟩ <;> intro g hg <;> cases hg
      | cons g gs =>
        have hnone : ∀ g' ∈ g :: gs, alookup g' k = none := by
          intro g' hg'
          cases hl : alookup g' k with
          | none => rfl
          | some a =>
            have := h.visible g' hg' k (by simp [hl])
            simp [hb] at this
        refine ⟨nodupKeys_ainsert _ _ _ h.bcNodup, ?_, ?_, ?_⟩
        · intro g' hg'
          simp only [List.mem_cons] at hg'
          rcases hg' with rfl | hg'
          · exact nodupKeys_ainsert _ _ _ (h.logsNodup g (by simp))
          · exact h.logsNodup g' (by simp [hg'])
        · intro g' hg' k' hk'
          simp only [List.mem_cons] at hg'
          rcases hg' with rfl | hg'
          · rw [alookup_ainsert] at hk'
            by_cases hk : k = k'
            · rw [alookup_ainsert]; simp [hk]
            · simp only [hk, if_false] at hk'
              exact isSome_alookup_ainsert _ _ _ _ (h.visible g (by simp) k' hk')
          · exact isSome_alookup_ainsert _ _ _ _ (h.visible g' (by simp [hg']) k' hk')
        · refine ⟨?_, h.groupsOK.2⟩
          intro k'' hk'' g' hg'
          rw [alookup_ainsert] at hk''
          by_cases hk : k = k''
          · subst hk; exact hnone g' (by simp [hg'])
          · simp only [hk, if_false] at hk''
            exact h.groupsOK.1 k'' hk'' g' hg'
    | some old =>
      cases groups with
      | nil =>
        refine ⟨nodupKeys_ainsert _ _ _ h.bcNodup, ?_, ?_, trivial⟩ <;> intro g hg <;> cases hg
      | cons g gs =>
        refine ⟨nodupKeys_ainsert _ _ _ h.bcNodup, ?_, ?_, ?_⟩
        · intro g' hg'
          simp only [List.mem_cons] at hg'
          rcases hg' with rfl | hg'
          · cases alookup g k with
            | none => exact nodupKeys_ainsert _ _ _ (h.logsNodup g (by simp))
            | some _ => exact h.logsNodup g (by simp)
          · exact h.logsNodup g' (by simp [hg'])
        · intro g' hg' k' hk'
          simp only [List.mem_cons] at hg'
          rcases hg' with rfl | hg'
          · by_cases hk : k = k'
            · rw [alookup_ainsert]; simp [hk]
            · apply isSome_alookup_ainsert
              apply h.visible g (by simp) k'
              cases hgk : alookup g k with
              | none =>
                simp only [hgk, alookup_ainsert, hk, if_false] at hk'
                exact hk'
              | some _ =>
                simp only [hgk] at hk'
                exact hk'
          · exact isSome_alookup_ainsert _ _ _ _ (h.visible g' (by simp [hg']) k' hk')
        · refine ⟨?_, h.groupsOK.2⟩
          intro k'' hk'' g' hg'
          apply h.groupsOK.1 k'' ?_ g' hg'
          cases hgk : alookup g k with
          | none =>
            simp only [hgk, alookup_ainsert] at hk''
            by_cases hk : k = k''
            · simp [hk] at hk''
            · simpa [hk] using hk''
          | some _ =>
            simpa only [hgk] using hk''

theorem inv_beginGroup (m : GMap K V) (h : Inv m) : Inv m.beginGroup := by
  refine ⟨h.bcNodup, ?_, ?_, ?_⟩
  · intro g hg
    simp only [GMap.beginGroup, List.mem_cons] at hg
    rcases hg with rfl | hg
    · exact nodupKeys_nil
    · exact h.logsNodup g hg
  · intro g hg k hk
    simp only [GMap.beginGroup, List.mem_cons] at hg
    rcases hg with rfl | hg
    · simp [alookup] at hk
    · exact h.visible g hg k hk
  · refine ⟨?_, h.groupsOK⟩
    intro k hk; simp [alookup] at hk

theorem inv_endGroup (bc : AList K V) (g : AList K (Action V)) (gs : List (AList K (Action V)))
    (h : Inv { bc := bc, groups := g :: gs }) :
    Inv { bc := GMap.applyLog g bc, groups := gs } := by
  refine ⟨nodupKeys_applyLog _ _ h.bcNodup, ?_, ?_, h.groupsOK.2⟩
  · intro g' hg'; exact h.logsNodup g' (by simp [hg'])
  · intro g' hg' k hk
    show (alookup (GMap.applyLog g bc) k).isSome
    rw [alookup_applyLog g bc (h.logsNodup g (by simp))]
    have hv := h.visible g' (by simp [hg']) k hk
    simp only [undo]
    cases hgk : alookup g k with
    | none => exact hv
    | some act =>
      cases act with
      | revert v => rfl
      | delete =>
        have := h.groupsOK.1 k hgk g' hg'
        simp [this] at hk

theorem gmap_inv (m : GMap K V) (op : Op K V) (h : Inv m) : Inv (m.step op).1 := by
  cases op with
  | insert k v s => exact inv_insert m k v s h
  | beginGroup => exact inv_beginGroup m h
  | endGroup =>
    obtain ⟨bc, groups⟩ := m
    cases groups with
    | nil => exact h
    | cons g gs => exact inv_endGroup bc g gs h
  | get k => exact h

theorem inv_run (m : GMap K V) (ops : List (Op K V)) (h : Inv m) : Inv (m.run ops).1 := by
  induction ops generalizing m with
  | nil => exact h
  | cons op ops ih => exact ih _ (gmap_inv m op h)

/-- Every state reachable from the empty map satisfies the invariant. -/
theorem inv_reachable (ops : List (Op K V)) : Inv ((GMap.empty : GMap K V).run ops).1 :=
  inv_run _ ops inv_empty

/-! ## C. Refinement -/

omit [DecidableEq K] in
theorem snap_ext {s t : Snap K V} (h1 : s.cur = t.cur) (h2 : s.saved = t.saved) : s = t := by
  cases s; cases t; simp_all

theorem cur_ainsert (k : K) (v : V) (bc : AList K V) :
    (fun k' => alookup (ainsert k v bc) k') = fupd (fun k' => alookup bc k') k (some v) := by
  funext k'; simp only [fupd, alookup_ainsert]

theorem undo_aerase_fupd (k : K) (g : AList K (Action V)) (f : K → Option V) (o : Option V) :
    undo (aerase k g) (fupd f k o) = fupd (undo g f) k o := by
  funext k'
  simp only [undo, fupd, alookup_aerase]
  by_cases h : k = k' <;> simp [h]

/-- Key lemma (iii): a global insert updates every saved snapshot. -/
theorem absGroups_glob (k : K) (o : Option V) (gs : List (AList K (Action V)))
    (f : K → Option V) :
    absGroups (fupd f k o) (gs.map (aerase k)) = (absGroups f gs).map (fun s => fupd s k o) := by
  induction gs generalizing f with
  | nil => rfl
  | cons g gs ih => simp only [List.map_cons, absGroups, undo_aerase_fupd, ih]

/-- Key lemma (ii), the three shapes of a local insert. -/
theorem undo_local_delete (k : K) (v : V) (g : AList K (Action V)) (f : K → Option V)
    (hg : alookup g k = none) (hf : f k = none) :
    undo (ainsert k .delete g) (fupd f k (some v)) = undo g f := by
  funext k'
  simp only [undo, alookup_ainsert, fupd]
  by_cases h : k = k'
  · subst h; simp [hg, hf]
  · simp [h]

theorem undo_local_revert (k : K) (v old : V) (g : AList K (Action V)) (f : K → Option V)
    (hg : alookup g k = none) (hf : f k = some old) :
    undo (ainsert k (.revert old) g) (fupd f k (some v)) = undo g f := by
  funext k'
  simp only [undo, alookup_ainsert, fupd]
  by_cases h : k = k'
  · subst h; simp [hg, hf]
  · simp [h]

theorem undo_local_logged (k : K) (v : V) (g : AList K (Action V)) (f : K → Option V)
    (hg : (alookup g k).isSome) :
    undo g (fupd f k (some v)) = undo g f := by
  funext k'
  simp only [undo, fupd]
  by_cases h : k = k'
  · subst h
    cases hgk : alookup g k with
    | none => simp [hgk] at hg
    | some a => cases a <;> rfl
  · simp [h]

theorem gmap_refines (m : GMap K V) (op : Op K V) (h : Inv m) :
    (m.step op).1.abs = (m.abs.step op).1 ∧ (m.step op).2 = (m.abs.step op).2 := by
  obtain ⟨bc, groups⟩ := m
  cases op with
  | insert k v s =>
    cases s with
    | glob =>
      simp only [GMap.step, GMap.insert, Snap.step, GMap.abs]
      cases hb : alookup bc k <;>
        exact ⟨snap_ext (cur_ainsert k v bc) (by simp only [cur_ainsert, absGroups_glob]), rfl⟩
    | loc =>
      cases hb : alookup bc k with
      | none =>
        cases groups with
        | nil =>
          simp only [GMap.step, GMap.insert, Snap.step, GMap.abs, hb]
          exact ⟨snap_ext (cur_ainsert k v bc) rfl, rfl⟩
        | cons g gs =>
          have hgk : alookup g k = none := by
            cases hl : alookup g k with
            | none => rfl
            | some a =>
              have := h.visible g (by simp) k (by simp [hl])
              simp [hb] at this
          simp only [GMap.step, GMap.insert, Snap.step, GMap.abs, hb]
          refine ⟨snap_ext (cur_ainsert k v bc) ?_, rfl⟩
          simp only [absGroups, cur_ainsert]
          rw [undo_local_delete k v g _ hgk hb]
      | some old =>
        cases groups with
        | nil =>
          simp only [GMap.step, GMap.insert, Snap.step, GMap.abs, hb]
          exact ⟨snap_ext (cur_ainsert k v bc) rfl, rfl⟩
        | cons g gs =>
          simp only [GMap.step, GMap.insert, Snap.step, GMap.abs, hb]
          refine ⟨snap_ext (cur_ainsert k v bc) ?_, rfl⟩
          simp only [absGroups, cur_ainsert]
          cases hgk : alookup g k with
          | none =>
            simp only []
            rw [undo_local_revert k v old g _ hgk hb]
          | some a =>
            simp only []
            rw [undo_local_logged k v g _ (by simp [hgk])]
  | beginGroup =>
    simp only [GMap.step, GMap.beginGroup, Snap.step, GMap.abs]
    exact ⟨snap_ext rfl rfl, trivial⟩
  | endGroup =>
    cases groups with
    | nil =>
      simp only [GMap.step, GMap.endGroup, Snap.step, GMap.abs, absGroups]
      exact ⟨trivial, trivial⟩
    | cons g gs =>
      have hfun : (fun k => alookup (GMap.applyLog g bc) k) = undo g (fun k => alookup bc k) := by
        funext k; exact alookup_applyLog g bc (h.logsNodup g (by simp)) k
      simp only [GMap.step, GMap.endGroup, Snap.step, GMap.abs, absGroups, hfun]
      exact ⟨trivial, trivial⟩
  | get k =>
    simp only [GMap.step, GMap.get, Snap.step, GMap.abs]
    exact ⟨trivial, trivial⟩

theorem abs_empty : (GMap.empty : GMap K V).abs = Snap.init := rfl

theorem gmap_refines_run_from (m : GMap K V) (h : Inv m) (ops : List (Op K V)) :
    (m.run ops).2 = (m.abs.run ops).2 ∧ (m.run ops).1.abs = (m.abs.run ops).1 := by
  induction ops generalizing m with
  | nil => exact ⟨rfl, rfl⟩
  | cons op ops ih =>
    obtain ⟨h1, h2⟩ := gmap_refines m op h
    obtain ⟨i1, i2⟩ := ih _ (gmap_inv m op h)
    simp only [GMap.run, Snap.run]
    rw [← h1, ← h2, i1, i2]
    exact ⟨rfl, rfl⟩

theorem gmap_refines_run (ops : List (Op K V)) :
    ((GMap.empty : GMap K V).run ops).2 = (Snap.init.run ops).2 ∧
      ((GMap.empty : GMap K V).run ops).1.abs = (Snap.init.run ops).1 := by
  have := gmap_refines_run_from (GMap.empty : GMap K V) inv_empty ops
  rw [abs_empty] at this
  exact this

/-! ## D, E. `iterAll` -/

/-- What `key_to_val` (`ktv`) makes of the visible values `f`. -/
def view (ktv : AList K (Option V)) (f : K → Option V) : K → Option V :=
  fun k => match alookup ktv k with
    | none => f k
    | some o => o

theorem view_nil (f : K → Option V) : view ([] : AList K (Option V)) f = f := rfl

theorem view_ainsert (k : K) (o : Option V) (ktv : AList K (Option V)) (f : K → Option V) :
    view (ainsert k o ktv) f = fupd (view ktv f) k o := by
  funext k'
  simp only [view, fupd, alookup_ainsert]
  by_cases h : k = k' <;> simp [h]

def savedOf : Action V → Option V
  | .delete => none
  | .revert old => some old

theorem undo_cons' (a : K) (act : Action V) (t : AList K (Action V)) (f : K → Option V) (k : K) :
    undo ((a, act) :: t) f k = if a = k then savedOf act else undo t f k := by
  rw [undo_cons]; cases act <;> rfl

theorem iterGroup_cons (bc : AList K V) (a : K) (act : Action V) (t : AList K (Action V))
    (ktv : AList K (Option V)) :
    GMap.iterGroup bc ((a, act) :: t) ktv =
      match view ktv (fun k => alookup bc k) a with
      | none => .panic
      | some v =>
        match GMap.iterGroup bc t (ainsert a (savedOf act) ktv) with
        | .ok (ktv', items) => .ok (ktv', .value a v :: items)
        | .panic => .panic
        | .fuel => .fuel := by
  cases act <;> rfl

/-- The values pushed for one group log when the snapshot before it is `s`. -/
def valItems (s : K → Option V) : AList K (Action V) → List (Item K V)
  | [] => []
  | (k, _) :: t => match s k with
    | none => valItems s t
    | some v => .value k v :: valItems s t

theorem isSome_alookup_tail {W : Type} (a : K) (w : W) (t : AList K W) (k : K)
    (h : (alookup t k).isSome) : (alookup ((a, w) :: t) k).isSome := by
  rw [alookup_cons]; by_cases hk : a = k <;> simp [hk, h]

theorem isSome_alookup_head {W : Type} (a : K) (w : W) (t : AList K W) :
    (alookup ((a, w) :: t) a).isSome := by
  rw [alookup_cons]; simp

theorem valItems_congr (s s' : K → Option V) (g : AList K (Action V))
    (h : ∀ k, (alookup g k).isSome → s k = s' k) : valItems s g = valItems s' g := by
  induction g with
  | nil => rfl
  | cons p t ih =>
    obtain ⟨a, act⟩ := p
    simp only [valItems]
    rw [← h a (isSome_alookup_head a act t), ih (fun k hk => h k (isSome_alookup_tail a act t k hk))]

/-- Lemma 1: the inner loop does not panic, pushes `valItems`, and moves the view one
group outwards. -/
theorem iterGroup_ok (bc : AList K V) (g : AList K (Action V)) (ktv : AList K (Option V))
    (hg : NodupKeys g)
    (hs : ∀ k, (alookup g k).isSome → (view ktv (fun k => alookup bc k) k).isSome) :
    ∃ ktv', GMap.iterGroup bc g ktv =
        .ok (ktv', valItems (view ktv (fun k => alookup bc k)) g) ∧
      view ktv' (fun k => alookup bc k) = undo g (view ktv (fun k => alookup bc k)) := by
  induction g generalizing ktv with
  | nil => exact ⟨ktv, rfl, by funext k; simp [undo, alookup]⟩
  | cons p t ih =>
    obtain ⟨a, act⟩ := p
    rw [nodupKeys_cons] at hg
    have ha := hs a (isSome_alookup_head a act t)
    have hne : ∀ k, (alookup t k).isSome → ¬ a = k := by
      intro k hk e; subst e; simp [hg.1] at hk
    cases hv : view ktv (fun k => alookup bc k) a with
    | none => simp [hv] at ha
    | some v =>
      have hview1 := view_ainsert a (savedOf act) ktv (fun k => alookup bc k)
      obtain ⟨ktv', h1, h2⟩ := ih (ainsert a (savedOf act) ktv) hg.2 (by
        intro k hk
        rw [hview1]; simp only [fupd, hne k hk, if_false]
        exact hs k (isSome_alookup_tail a act t k hk))
      refine ⟨ktv', ?_, ?_⟩
      · rw [iterGroup_cons, hv]
        simp only [h1, valItems, hv]
        rw [valItems_congr _ (view ktv (fun k => alookup bc k)) t]
        intro k hk
        rw [hview1]; simp only [fupd, hne k hk, if_false]
      · rw [h2, hview1]
        funext k
        rw [undo_cons']
        by_cases h : a = k
        · subst h; simp [undo, hg.1, fupd]
        · simp only [h, if_false]
          apply undo_congr
          simp [fupd, h]

/-! ### The specification side of `fromIter` -/

def specFeed (s : Snap K V) : Item K V → Snap K V
  | .beginGroup => (s.step .beginGroup).1
  | .value k v => (s.step (.insert k v .loc)).1

def specFeedAll (s : Snap K V) (items : List (Item K V)) : Snap K V := items.foldl specFeed s

theorem specFeedAll_nil (s : Snap K V) : specFeedAll s [] = s := rfl

theorem specFeedAll_cons (s : Snap K V) (i : Item K V) (l : List (Item K V)) :
    specFeedAll s (i :: l) = specFeedAll (specFeed s i) l := rfl

theorem specFeedAll_append (s : Snap K V) (a b : List (Item K V)) :
    specFeedAll s (a ++ b) = specFeedAll (specFeedAll s a) b := by
  simp only [specFeedAll, List.foldl_append]

theorem specFeed_value (c : K → Option V) (S : List (K → Option V)) (k : K) (v : V) :
    specFeed { cur := c, saved := S } (.value k v) = { cur := fupd c k (some v), saved := S } :=
  rfl

theorem specFeed_beginGroup (c : K → Option V) (S : List (K → Option V)) :
    specFeed { cur := c, saved := S } (.beginGroup : Item K V) = { cur := c, saved := c :: S } :=
  rfl

/-- Feeding the values of a group (in any order; here reversed) overwrites exactly the keys of
the group with the values of `s`. -/
theorem specFeedAll_valItems (s c : K → Option V) (S : List (K → Option V))
    (g : AList K (Action V)) (hs : ∀ k, (alookup g k).isSome → (s k).isSome) :
    specFeedAll { cur := c, saved := S } (valItems s g).reverse =
      { cur := fun k => if (alookup g k).isSome then s k else c k, saved := S } := by
  induction g with
  | nil =>
    simp only [valItems, List.reverse_nil, specFeedAll_nil]
    exact snap_ext (by funext k; simp [alookup]) rfl
  | cons p t ih =>
    obtain ⟨a, act⟩ := p
    have ha := hs a (isSome_alookup_head a act t)
    cases hv : s a with
    | none => simp [hv] at ha
    | some v =>
      simp only [valItems, hv, List.reverse_cons, specFeedAll_append,
        ih (fun k hk => hs k (isSome_alookup_tail a act t k hk)), specFeedAll_cons,
        specFeedAll_nil, specFeed_value]
      refine snap_ext ?_ rfl
      funext k
      simp only [fupd, alookup_cons]
      by_cases h : a = k
      · subst h; simp [hv]
      · simp [h]

theorem specFeedAll_valItems_undo (s : K → Option V) (S : List (K → Option V))
    (g : AList K (Action V)) (hs : ∀ k, (alookup g k).isSome → (s k).isSome) :
    specFeedAll { cur := undo g s, saved := S } (valItems s g).reverse =
      { cur := s, saved := S } := by
  rw [specFeedAll_valItems s _ S g hs]
  refine snap_ext ?_ rfl
  funext k
  simp only [undo]
  cases alookup g k <;> simp

/-- The snapshot reached after undoing all groups. -/
def lastSnap (s : K → Option V) : List (AList K (Action V)) → (K → Option V)
  | [] => s
  | g :: gs => lastSnap (undo g s) gs

/-- All pushes of the outer loop, when the snapshot before the groups is `s`. -/
def pushItems (s : K → Option V) : List (AList K (Action V)) → List (Item K V)
  | [] => []
  | g :: gs => valItems s g ++ .beginGroup :: pushItems (undo g s) gs

/-- The part of `Inv` that talks about a suffix of the group list and its snapshot. -/
structure GOK (s : K → Option V) (gs : List (AList K (Action V))) : Prop where
  ok : GroupsOK gs
  nodup : ∀ g ∈ gs, NodupKeys g
  vis : ∀ g ∈ gs, ∀ k, (alookup g k).isSome → (s k).isSome

theorem GOK.tail {s : K → Option V} {g : AList K (Action V)} {gs : List (AList K (Action V))}
    (h : GOK s (g :: gs)) : GOK (undo g s) gs := by
  refine ⟨h.ok.2, fun g' hg' => h.nodup g' (by simp [hg']), ?_⟩
  intro g' hg' k hk
  have hv := h.vis g' (by simp [hg']) k hk
  simp only [undo]
  cases hgk : alookup g k with
  | none => exact hv
  | some act =>
    cases act with
    | revert v => rfl
    | delete =>
      have := h.ok.1 k hgk g' hg'
      simp [this] at hk

theorem Inv.gok {m : GMap K V} (h : Inv m) : GOK (fun k => alookup m.bc k) m.groups :=
  ⟨h.groupsOK, h.logsNodup, h.visible⟩

/-- Lemma 2a: the outer loop does not panic. -/
theorem iterGroups_ok (bc : AList K V) (gs : List (AList K (Action V)))
    (ktv : AList K (Option V)) (h : GOK (view ktv (fun k => alookup bc k)) gs) :
    ∃ ktvF, GMap.iterGroups bc gs ktv =
        .ok (ktvF, pushItems (view ktv (fun k => alookup bc k)) gs) ∧
      view ktvF (fun k => alookup bc k) = lastSnap (view ktv (fun k => alookup bc k)) gs := by
  induction gs generalizing ktv with
  | nil => exact ⟨ktv, rfl, rfl⟩
  | cons g gs ih =>
    obtain ⟨ktv1, h1, h2⟩ := iterGroup_ok bc g ktv (h.nodup g (by simp)) (h.vis g (by simp))
    have ht := h.tail
    rw [← h2] at ht
    obtain ⟨ktvF, h3, h4⟩ := ih ktv1 ht
    refine ⟨ktvF, ?_, ?_⟩
    · simp only [GMap.iterGroups, h1, h3, pushItems, h2]
    · rw [h4, h2]; rfl

/-- Lemma 2b: replaying the pushes backwards rebuilds the snapshot stack. -/
theorem specFeedAll_pushItems (s : K → Option V) (gs : List (AList K (Action V)))
    (h : GOK s gs) (t : Snap K V) (ht : t.cur = lastSnap s gs) :
    specFeedAll t (pushItems s gs).reverse = { cur := s, saved := absGroups s gs ++ t.saved } := by
  induction gs generalizing s with
  | nil =>
    simp only [pushItems, List.reverse_nil, specFeedAll_nil, absGroups, List.nil_append]
    exact snap_ext ht rfl
  | cons g gs ih =>
    have h1 := ih (undo g s) h.tail ht
    simp only [pushItems, List.reverse_append, List.reverse_cons, specFeedAll_append, h1,
      specFeedAll_cons, specFeedAll_nil, specFeed_beginGroup]
    rw [specFeedAll_valItems_undo s _ g (h.vis g (by simp))]
    simp only [absGroups, List.cons_append]

/-- Lemma 3: the visible items rebuild the outermost snapshot. -/
theorem specFeedAll_visibleItems (ktv : AList K (Option V)) (l : AList K V) (hl : NodupKeys l)
    (u : Snap K V) (hu : ∀ k, (alookup l k).isSome → u.cur k = none) :
    specFeedAll u (GMap.visibleItems ktv l) =
      { cur := fun k => if (alookup l k).isSome then view ktv (fun k => alookup l k) k
                        else u.cur k,
        saved := u.saved } := by
  induction l generalizing u with
  | nil =>
    simp only [GMap.visibleItems, specFeedAll_nil]
    exact snap_ext (by funext k; simp [alookup]) rfl
  | cons p t ih =>
    obtain ⟨a, v⟩ := p
    obtain ⟨c, S⟩ := u
    rw [nodupKeys_cons] at hl
    have hca : c a = none := hu a (isSome_alookup_head a v t)
    have hct : ∀ k, (alookup t k).isSome → c k = none :=
      fun k hk => hu k (isSome_alookup_tail a v t k hk)
    have hne : ∀ k, (alookup t k).isSome → ¬ a = k := by
      intro k hk e; subst e; simp [hl.1] at hk
    have key : ∀ (o : Option V) (c' : K → Option V),
        view ktv (fun k => alookup ((a, v) :: t) k) a = o → c' a = o →
        (∀ k, ¬ a = k → c' k = c k) →
        specFeedAll { cur := c', saved := S } (GMap.visibleItems ktv t) =
          { cur := fun k => if (alookup ((a, v) :: t) k).isSome
                      then view ktv (fun k => alookup ((a, v) :: t) k) k else c k,
            saved := S } := by
      intro o c' ho hc'a hc'
      rw [ih hl.2 { cur := c', saved := S } (by
        intro k hk
        show c' k = none
        rw [hc' k (hne k hk)]; exact hct k hk)]
      refine snap_ext ?_ rfl
      funext k
      by_cases h : a = k
      · subst h
        simp only [hl.1, alookup_cons, if_true, Option.isSome_none, Option.isSome_some]
        simp only [alookup_cons] at ho
        simp [hc'a, ho]
      · simp [view, alookup_cons, h, hc' k h]
    cases hk : alookup ktv a with
    | none =>
      simp only [GMap.visibleItems, hk, specFeedAll_cons, specFeed_value]
      exact key (some v) (fupd c a (some v)) (by simp [view, hk, alookup_cons])
        (by simp [fupd]) (by intro k h; simp [fupd, h])
    | some o =>
      cases o with
      | none =>
        simp only [GMap.visibleItems, hk]
        exact key none c (by simp [view, hk]) hca (fun _ _ => rfl)
      | some w =>
        simp only [GMap.visibleItems, hk, specFeedAll_cons, specFeed_value]
        exact key (some w) (fupd c a (some w)) (by simp [view, hk])
          (by simp [fupd]) (by intro k h; simp [fupd, h])

theorem lastSnap_of_not_logged (s : K → Option V) (gs : List (AList K (Action V))) (k : K)
    (h : ∀ g ∈ gs, alookup g k = none) : lastSnap s gs k = s k := by
  induction gs generalizing s with
  | nil => rfl
  | cons g gs ih =>
    simp only [lastSnap]
    rw [ih _ (fun g' hg' => h g' (by simp [hg']))]
    simp [undo, h g (by simp)]

/-- The operation that `FromIterator` performs for an item. -/
def itemOp : Item K V → Op K V
  | .beginGroup => .beginGroup
  | .value k v => .insert k v .loc

theorem feed_eq_step (m : GMap K V) (i : Item K V) : m.feed i = (m.step (itemOp i)).1 := by
  cases i <;> rfl

theorem specFeed_eq_step (s : Snap K V) (i : Item K V) :
    specFeed s i = (s.step (itemOp i)).1 := by
  cases i <;> rfl

theorem foldl_feed (m0 : GMap K V) (h : Inv m0) (items : List (Item K V)) :
    (items.foldl GMap.feed m0).abs = specFeedAll m0.abs items ∧
      Inv (items.foldl GMap.feed m0) := by
  induction items generalizing m0 with
  | nil => exact ⟨rfl, h⟩
  | cons i items ih =>
    simp only [List.foldl_cons, specFeedAll_cons]
    have hi : Inv (m0.feed i) := by rw [feed_eq_step]; exact gmap_inv _ _ h
    have habs : (m0.feed i).abs = specFeed m0.abs i := by
      rw [feed_eq_step, specFeed_eq_step]; exact (gmap_refines m0 (itemOp i) h).1
    rw [← habs]
    exact ih _ hi

theorem fromIter_abs (items : List (Item K V)) :
    (GMap.fromIter items).abs = specFeedAll Snap.init items ∧ Inv (GMap.fromIter items) := by
  have := foldl_feed (GMap.empty : GMap K V) inv_empty items
  rw [abs_empty] at this
  exact this

/-- `iterAll` succeeds and, replayed on the specification, rebuilds `m.abs`. -/
theorem iterAll_spec (m : GMap K V) (h : Inv m) :
    ∃ items, m.iterAll = .ok items ∧ specFeedAll Snap.init items = m.abs := by
  obtain ⟨bc, gs⟩ := m
  have hg : GOK (view [] (fun k => alookup bc k)) gs := by rw [view_nil]; exact h.gok
  obtain ⟨ktvF, h1, h2⟩ := iterGroups_ok bc gs [] hg
  rw [view_nil] at h1 h2
  refine ⟨GMap.visibleItems ktvF bc ++ (pushItems (fun k => alookup bc k) gs).reverse,
    by simp only [GMap.iterAll, h1], ?_⟩
  rw [specFeedAll_append,
    specFeedAll_visibleItems ktvF bc h.bcNodup Snap.init (fun _ _ => rfl)]
  rw [specFeedAll_pushItems (fun k => alookup bc k) gs h.gok _ ?_]
  · simp [GMap.abs, Snap.init]
  · show (fun k => if (alookup bc k).isSome then view ktvF (fun k => alookup bc k) k
        else Snap.init.cur k) = lastSnap (fun k => alookup bc k) gs
    funext k
    rw [h2]
    cases hb : alookup bc k with
    | some v => simp
    | none =>
      have hnl : ∀ g ∈ gs, alookup g k = none := by
        intro g hg'
        cases hl : alookup g k with
        | none => rfl
        | some a =>
          have := h.visible g hg' k (by simp [hl])
          simp [hb] at this
      rw [lastSnap_of_not_logged _ gs k hnl]
      simp [hb, Snap.init]

/-- D. The two `unwrap`s in `iter_all` cannot fail. -/
theorem iterAll_total (m : GMap K V) (h : Inv m) : ∃ items, m.iterAll = .ok items := by
  obtain ⟨items, hi, _⟩ := iterAll_spec m h
  exact ⟨items, hi⟩

/-- E. Rebuilding a map from `iter_all()` gives a map with the same abstraction. -/
theorem iterAll_roundtrip (m : GMap K V) (h : Inv m) :
    ∃ items, m.iterAll = .ok items ∧ (GMap.fromIter items).abs = m.abs ∧
      Inv (GMap.fromIter items) := by
  obtain ⟨items, hi, hs⟩ := iterAll_spec m h
  obtain ⟨ha, hinv⟩ := fromIter_abs items
  exact ⟨items, hi, ha.trans hs, hinv⟩

theorem iterAll_same_behaviour (m : GMap K V) (h : Inv m) (items : List (Item K V))
    (hi : m.iterAll = .ok items) (ops : List (Op K V)) :
    ((GMap.fromIter items).run ops).2 = (m.run ops).2 := by
  obtain ⟨items', hi', ha, hinv⟩ := iterAll_roundtrip m h
  rw [hi] at hi'
  cases hi'
  rw [(gmap_refines_run_from _ hinv ops).1, (gmap_refines_run_from m h ops).1, ha]

end C20
