import TexcraftModel.Lemmas.C02Defs

/-!
# C02 — correctness of the Knuth–Morris–Pratt matcher (`substringsearch.rs`)

`kmp_correct`: for a non-empty substring `d`, `Matcher.new? d` does not panic, and the
resulting matcher satisfies `MatcherOK` (feeding any text from state 0 never panics and
`next` answers `true` exactly when `d` is a suffix of everything fed so far).

Invariants (all helper declarations live in `C02.Kmp`):
* `LB P b x k`: `k` is the largest `j ≤ b` with `P.take j <:+ x` (longest border, bounded);
* `PfOK P pf`: `pf[i]` is the longest proper border of `P.take (i+1)`;
* `St P x q`: the search state `q` is the longest border of the text `x` shorter than `P`.
`Matcher.new?` is treated as a run of the same automaton over the text `P.drop 1`.
Core Lean only.
-/
namespace C02
namespace Kmp

theorem take_succ_suffix_concat (P x : List Tok) (c : Tok) (j : Nat) (hj : j < P.length) :
    P.take (j + 1) <:+ x ++ [c] ↔ P.take j <:+ x ∧ P[j]? = some c := by
  rw [← List.take_append_getElem hj, List.suffix_concat_iff]
  constructor
  · rintro (h | ⟨t, ht, hs⟩)
    · simp at h
      subst h
      simp at hj
    · have := List.append_inj' ht (by simp)
      obtain ⟨h1, h2⟩ := this
      subst h1
      simp at h2
      simp [hs, h2, hj]
  · rintro ⟨hs, hc⟩
    right
    refine ⟨P.take j, ?_, hs⟩
    rw [List.getElem?_eq_getElem hj] at hc
    simp at hc
    simp [hc]

/-- `k` is the largest `j ≤ b` such that `P.take j` is a suffix of `x`. -/
def LB (P : List Tok) (b : Nat) (x : List Tok) (k : Nat) : Prop :=
  k ≤ b ∧ P.take k <:+ x ∧ ∀ j, j ≤ b → P.take j <:+ x → j ≤ k

/-- Prefix-function table invariant. -/
def PfOK (P : List Tok) (pf : List Nat) : Prop :=
  pf.length ≤ P.length ∧ ∀ i, i < pf.length → ∃ v, pf[i]? = some v ∧ LB P i (P.take (i + 1)) v

theorem take_suffix_take_of_suffix (P x : List Tok) (j k : Nat) (hjk : j ≤ k) (hk : k ≤ P.length)
    (h1 : P.take j <:+ x) (h2 : P.take k <:+ x) : P.take j <:+ P.take k := by
  apply List.suffix_of_suffix_length_le h1 h2
  simp; omega

/-- Characterisation of the result of one automaton step. -/
theorem LB_concat_of (P x : List Tok) (c : Tok) (r : Nat) (hr : r ≤ P.length)
    (hsuf : P.take r <:+ x ++ [c])
    (hmax : ∀ j, j < P.length → P.take j <:+ x → P[j]? = some c → j + 1 ≤ r) :
    LB P P.length (x ++ [c]) r := by
  refine ⟨hr, hsuf, ?_⟩
  intro j hj hs
  cases j with
  | zero => omega
  | succ j =>
    have hj' : j < P.length := by omega
    rw [take_succ_suffix_concat P x c j hj'] at hs
    exact hmax j hj' hs.1 hs.2

theorem advance_zero (P : List Tok) (pf : List Nat) (c : Tok) (x : List Tok) (fuel : Nat)
    (hlen : 0 < P.length)
    (hmax : ∀ j, j < P.length → P.take j <:+ x → P[j]? = some c → j ≤ 0) :
    ∃ r, kmpAdvance P pf c fuel 0 = some r ∧ LB P P.length (x ++ [c]) r := by
  have h0 : P[0]? = some P[0] := List.getElem?_eq_getElem hlen
  by_cases hc : P[0] = c
  · refine ⟨1, ?_, ?_⟩
    · cases fuel <;> simp [kmpAdvance, h0, hc]
    · apply LB_concat_of
      · omega
      · rw [take_succ_suffix_concat P x c 0 hlen]
        simp [h0, hc]
      · intro j hj hs hjc
        have := hmax j hj hs hjc
        omega
  · refine ⟨0, ?_, ?_⟩
    · cases fuel <;> simp [kmpAdvance, h0, hc]
    · apply LB_concat_of
      · omega
      · simp
      · intro j hj hs hjc
        have := hmax j hj hs hjc
        have : j = 0 := by omega
        subst this
        rw [h0] at hjc
        simp at hjc
        exact absurd hjc hc

theorem advance_spec (P : List Tok) (pf : List Nat) (hpf : PfOK P pf) (c : Tok) (x : List Tok) :
    ∀ fuel k, k ≤ fuel → k < P.length → k ≤ pf.length → P.take k <:+ x →
      (∀ j, j < P.length → P.take j <:+ x → P[j]? = some c → j ≤ k) →
      ∃ r, kmpAdvance P pf c fuel k = some r ∧ LB P P.length (x ++ [c]) r := by
  intro fuel
  induction fuel with
  | zero =>
    intro k hk hlen _ _ hmax
    have : k = 0 := by omega
    subst this
    exact advance_zero P pf c x 0 hlen hmax
  | succ fuel ih =>
    intro k hk hlen hkpf hsuf hmax
    cases k with
    | zero => exact advance_zero P pf c x _ hlen hmax
    | succ k =>
      have hk1 : P[k + 1]? = some P[k + 1] := List.getElem?_eq_getElem hlen
      by_cases hc : P[k + 1] = c
      · refine ⟨k + 2, ?_, ?_⟩
        · simp [kmpAdvance, hk1, hc]
        · apply LB_concat_of
          · omega
          · rw [take_succ_suffix_concat P x c (k + 1) hlen]
            exact ⟨hsuf, by rw [hk1, hc]⟩
          · intro j hj hs hjc
            have := hmax j hj hs hjc
            omega
      · obtain ⟨k', hk', hle, hsuf', hmax'⟩ := hpf.2 k (by omega)
        have := ih k' (by omega) (by omega) (by omega) (hsuf'.trans hsuf) ?_
        · obtain ⟨r, hr, hLB⟩ := this
          refine ⟨r, ?_, hLB⟩
          simp [kmpAdvance, hk1, hc, hk', hr]
        · intro j hj hs hjc
          have h1 := hmax j hj hs hjc
          have h2 : j ≠ k + 1 := by
            intro h
            subst h
            rw [hk1] at hjc
            simp at hjc
            exact hc hjc
          apply hmax' j (by omega)
          exact take_suffix_take_of_suffix P x j (k + 1) (by omega) (by omega) hs hsuf

/-- Search-state invariant: `q` is the longest border of `x` shorter than the whole pattern. -/
def St (P x : List Tok) (q : Nat) : Prop := LB P (P.length - 1) x q

theorem St_nil (P : List Tok) : St P [] 0 := by
  refine ⟨by omega, by simp, ?_⟩
  intro j hj hs
  have := hs.length_le
  simp only [List.length_take, List.length_nil] at this
  omega

theorem St_of_LB_lt (P y : List Tok) (r : Nat) (h : LB P P.length y r) (hr : r < P.length) :
    St P y r := by
  obtain ⟨_, hs, hmax⟩ := h
  exact ⟨by omega, hs, fun j hj hjs => hmax j (by omega) hjs⟩

theorem advance_of_St (P : List Tok) (pf : List Nat) (hpf : PfOK P pf) (hne : P ≠ [])
    (c : Tok) (x : List Tok) (q : Nat) (hq : St P x q) (hqpf : q ≤ pf.length) :
    ∃ r, kmpAdvance P pf c (q + 1) q = some r ∧ LB P P.length (x ++ [c]) r := by
  have hlen : 0 < P.length := List.length_pos_iff.mpr hne
  obtain ⟨hle, hs, hmax⟩ := hq
  exact advance_spec P pf hpf c x (q + 1) q (by omega) (by omega) hqpf hs
    (fun j hj hjs _ => hmax j (by omega) hjs)

theorem next_spec (P : List Tok) (pf : List Nat) (hpf : PfOK P pf) (hfull : pf.length = P.length)
    (hne : P ≠ []) (c : Tok) (x : List Tok) (q : Nat) (hq : St P x q) :
    ∃ q' b, Matcher.next ⟨P, pf⟩ q c = some (q', b) ∧ St P (x ++ [c]) q' ∧
      (b = true ↔ P <:+ x ++ [c]) := by
  have hlen : 0 < P.length := List.length_pos_iff.mpr hne
  obtain ⟨r, hr, hLB⟩ := advance_of_St P pf hpf hne c x q hq (by have := hq.1; omega)
  by_cases hrl : r = P.length
  · obtain ⟨v, hv, hvle, hvs, hvmax⟩ := hpf.2 (P.length - 1) (by omega)
    have hP : P.take (P.length - 1 + 1) = P := by
      rw [List.take_of_length_le (by omega)]
    rw [hP] at hvs hvmax
    have hPs : P <:+ x ++ [c] := by
      have := hLB.2.1
      rw [hrl, List.take_of_length_le (by omega)] at this
      exact this
    refine ⟨v, true, ?_, ?_, by simp [hPs]⟩
    · simp [Matcher.next, hr, hrl, hv]
    · refine ⟨hvle, hvs.trans hPs, ?_⟩
      intro j hj hjs
      apply hvmax j hj
      apply List.suffix_of_suffix_length_le hjs hPs
      simp; omega
  · have hrlt : r < P.length := by have := hLB.1; omega
    refine ⟨r, false, ?_, St_of_LB_lt P _ r hLB hrlt, ?_⟩
    · simp [Matcher.next, hr, hrl]
    · simp
      intro hPs
      have := hLB.2.2 P.length (by omega) (by rw [List.take_of_length_le (by omega)]; exact hPs)
      omega

theorem run_spec (P : List Tok) (pf : List Nat) (hpf : PfOK P pf) (hfull : pf.length = P.length)
    (hne : P ≠ []) (text : List Tok) :
    ∀ (x : List Tok) (q : Nat), St P x q →
      ∃ q', Matcher.run ⟨P, pf⟩ q text = some q' ∧ St P (x ++ text) q' := by
  induction text with
  | nil => intro x q hq; exact ⟨q, by simp [Matcher.run], by simpa using hq⟩
  | cons c cs ih =>
    intro x q hq
    obtain ⟨q', b, hn, hq', _⟩ := next_spec P pf hpf hfull hne c x q hq
    obtain ⟨q'', hr, hq''⟩ := ih (x ++ [c]) q' hq'
    refine ⟨q'', ?_, by simpa using hq''⟩
    simp [Matcher.run, hn, hr]

theorem matcherOK_of_PfOK (P : List Tok) (pf : List Nat) (hpf : PfOK P pf)
    (hfull : pf.length = P.length) (hne : P ≠ []) : MatcherOK ⟨P, pf⟩ := by
  intro text c
  obtain ⟨q, hr, hq⟩ := run_spec P pf hpf hfull hne text [] 0 (St_nil P)
  simp at hq
  obtain ⟨q', b, hn, _, hb⟩ := next_spec P pf hpf hfull hne c text q hq
  exact ⟨q, q', b, hr, hn, hb⟩

theorem PfOK_init (p0 : Tok) (P' : List Tok) : PfOK (p0 :: P') [0] := by
  refine ⟨by simp, ?_⟩
  intro i hi
  have : i = 0 := by simpa using hi
  subst this
  exact ⟨0, by simp, by omega, by simp, fun j hj _ => hj⟩

theorem PfOK_snoc (p0 : Tok) (done : List Tok) (c : Tok) (rest : List Tok) (pf : List Nat) (r : Nat)
    (hpf : PfOK (p0 :: (done ++ c :: rest)) pf) (hlen : pf.length = done.length + 1)
    (hr : LB (p0 :: (done ++ c :: rest)) (p0 :: (done ++ c :: rest)).length (done ++ [c]) r) :
    PfOK (p0 :: (done ++ c :: rest)) (pf ++ [r]) := by
  obtain ⟨hrle, hrs, hrmax⟩ := hr
  have hrlen := hrs.length_le
  simp only [List.length_take, List.length_append, List.length_cons, List.length_nil] at hrlen
  simp only [List.length_cons, List.length_append] at hrle
  refine ⟨by simp; omega, ?_⟩
  intro i hi
  simp only [List.length_append, List.length_cons, List.length_nil] at hi
  by_cases hil : i < pf.length
  · obtain ⟨v, hv, hLB⟩ := hpf.2 i hil
    exact ⟨v, by rw [List.getElem?_append_left hil]; exact hv, hLB⟩
  · have hi' : i = done.length + 1 := by omega
    subst hi'
    refine ⟨r, ?_, ?_⟩
    · rw [← hlen]; simp
    · have htake : (p0 :: (done ++ c :: rest)).take (done.length + 1 + 1) = p0 :: (done ++ [c]) := by
        have : p0 :: (done ++ c :: rest) = (p0 :: (done ++ [c])) ++ rest := by simp
        rw [this]
        apply List.take_left'
        simp
      rw [htake]
      refine ⟨by omega, hrs.trans (List.suffix_cons _ _), ?_⟩
      intro j hj hjs
      rcases List.suffix_cons_iff.mp hjs with h | h
      · have := congrArg List.length h
        simp only [List.length_take, List.length_append, List.length_cons, List.length_nil] at this
        omega
      · exact hrmax j (by simp only [List.length_cons, List.length_append]; omega) h

theorem prefixFnLoop_spec (p0 : Tok) (rest : List Tok) :
    ∀ (done : List Tok) (k : Nat) (pf : List Nat),
      PfOK (p0 :: (done ++ rest)) pf → pf.length = done.length + 1 →
      St (p0 :: (done ++ rest)) done k →
      ∃ pf', prefixFnLoop (p0 :: (done ++ rest)) rest k pf = some pf' ∧
        PfOK (p0 :: (done ++ rest)) pf' ∧ pf'.length = (p0 :: (done ++ rest)).length := by
  induction rest with
  | nil =>
    intro done k pf hpf hlen _
    exact ⟨pf, by simp [prefixFnLoop], hpf, by simp [hlen]⟩
  | cons c rest ih =>
    intro done k pf hpf hlen hst
    have hk : k ≤ pf.length := by
      have h1 := hst.1
      have h2 := hst.2.1.length_le
      simp only [List.length_take, List.length_append, List.length_cons] at h1 h2
      omega
    obtain ⟨r, hr, hLB⟩ := advance_of_St _ pf hpf (by simp) c done k hst hk
    have hrlt : r < (p0 :: (done ++ c :: rest)).length := by
      have h1 := hLB.1
      have h2 := hLB.2.1.length_le
      simp only [List.length_take, List.length_append, List.length_cons, List.length_nil] at h1 h2 ⊢
      omega
    have hst' := St_of_LB_lt _ _ r hLB hrlt
    have hpf' := PfOK_snoc p0 done c rest pf r hpf hlen hLB
    have heq : p0 :: (done ++ c :: rest) = p0 :: ((done ++ [c]) ++ rest) := by simp
    rw [heq] at hst' hpf' hr ⊢
    obtain ⟨pf', h1, h2, h3⟩ := ih (done ++ [c]) r (pf ++ [r]) hpf' (by simp [hlen]) hst'
    refine ⟨pf', ?_, h2, h3⟩
    simp only [prefixFnLoop, hr]
    exact h1

theorem new?_spec (d : List Tok) (h : d ≠ []) :
    ∃ pf, Matcher.new? d = some ⟨d, pf⟩ ∧ PfOK d pf ∧ pf.length = d.length := by
  cases d with
  | nil => exact absurd rfl h
  | cons p0 P' =>
    have := prefixFnLoop_spec p0 P' [] 0 [0] (PfOK_init p0 _) (by simp) (St_nil _)
    simp only [List.nil_append] at this
    obtain ⟨pf, h1, h2, h3⟩ := this
    exact ⟨pf, by simp [Matcher.new?, h1], h2, h3⟩

end Kmp

open Kmp in
theorem kmp_correct (d : List Tok) (h : d ≠ []) :
    ∃ pf, Matcher.new? d = some ⟨d, pf⟩ ∧ MatcherOK ⟨d, pf⟩ := by
  obtain ⟨pf, h1, h2, h3⟩ := new?_spec d h
  exact ⟨pf, h1, matcherOK_of_PfOK d pf h2 h3 h⟩

end C02
