import TexcraftModel.Model.C08
import TexcraftModel.Lemmas.C08Bisim

/-! C08 — run-level lemmas: reachable states satisfy C20's invariant on both command maps;
`run` over an appended program; soundness of the driver's concrete name table. -/
namespace C08
open C20 C01

/-- `VEquiv` is preserved by whole runs (with `a = b`: every reachable state has `Inv` maps). -/
theorem run_equiv (cfg : Variant) (ops : List C01.Op) :
    ∀ a b : VMState, VEquiv a b → VEquiv (C01.run cfg a ops).1 (C01.run cfg b ops).1 := by
  induction ops with
  | nil => intro a b h; simpa [C01.run] using h
  | cons op ops ih =>
    intro a b h
    have hs := step_congr cfg a b h op
    simp only [C01.run]
    rw [← hs.1]
    by_cases hf : (C01.step cfg a op).2.fatal = true
    · simp only [hf, if_true]; exact hs.2
    · simp only [hf]; exact ih _ _ hs.2

theorem vequiv_init : VEquiv VMState.init VMState.init :=
  ⟨rfl, rfl, rfl, rfl, rfl, rfl, rfl, inv_empty, inv_empty, inv_empty, inv_empty⟩

theorem reachable_inv (cfg : Variant) (ops : List C01.Op) :
    Inv (C01.run cfg VMState.init ops).1.cmds ∧ Inv (C01.run cfg VMState.init ops).1.active :=
  let h := run_equiv cfg ops _ _ vequiv_init
  ⟨h.invCa, h.invAa⟩

/-- Running `pre ++ post`: if `pre` ends in a fatal outcome the run stops there, otherwise it
continues with `post` from the state `pre` reached. -/
theorem run_append (cfg : Variant) (pre post : List C01.Op) : ∀ m : VMState,
    (C01.run cfg m (pre ++ post)).2 =
      if (C01.run cfg m pre).2.any Out.fatal then (C01.run cfg m pre).2
      else (C01.run cfg m pre).2 ++ (C01.run cfg (C01.run cfg m pre).1 post).2 := by
  induction pre with
  | nil => intro m; simp [C01.run]
  | cons op ops ih =>
    intro m
    simp only [List.cons_append, C01.run]
    by_cases hf : (C01.step cfg m op).2.fatal = true
    · simp [hf]
    · simp only [hf, Bool.false_eq_true, if_false, List.any_cons, Bool.false_or, List.cons_append]
      rw [ih]
      split <;> rfl

/-- The driver's table is sound. -/
theorem stdTable_sound : NameTableSound stdTable := by
  refine ⟨?_, ?_⟩
  · intro p n h
    simp only [stdTable] at h ⊢
    split at h
    · injection h with h; subst h
      have : (10 ≤ 10 + p ∧ 10 + p < 15) ∨ (30 ≤ 10 + p ∧ 10 + p < 36) ∨
          (50 ≤ 10 + p ∧ 10 + p < 70) := by omega
      simp only [this, if_true]
      congr 1; omega
    · cases h
  · intro v n i h
    obtain ⟨k, idx⟩ := v
    simp only [stdTable, stdNameOfVar] at h ⊢
    cases k <;> simp only [] at h
    all_goals first
      | (injection h with h; injection h with h1 h2; subst h1; subst h2; simp [stdVarOfName])
      | (split at h
         · injection h with h; injection h with h1 h2; subst h1; subst h2
           simp only [stdVarOfName]
           have e1 : ¬ (30 + idx = 11) := by omega
           have e2 : ¬ (30 + idx = 2) := by omega
           have e3 : ¬ (30 + idx = 3) := by omega
           have e4 : ¬ (30 + idx = 4) := by omega
           have e5 : ¬ (30 + idx = 14) := by omega
           have e6 : ¬ (30 + idx = 6) := by omega
           have e7 : 30 ≤ 30 + idx ∧ 30 + idx < 36 ∧ (0 : Nat) = 0 := by omega
           simp only [e1, e2, e3, e4, e5, e6, e7, if_false, if_true, and_self]
           congr 2; omega
         · cases h)

end C08
