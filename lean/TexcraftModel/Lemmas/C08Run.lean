import TexcraftModel.Model.C08
import TexcraftModel.Lemmas.C08Bisim
import TexcraftModel.Model.C08Input

/-! C08 — run-level lemmas: reachable states satisfy C20's invariant on both command maps;
`run` over an appended program; soundness of the driver's concrete name table. -/
namespace C08
open C20 C01

/-- `VEquiv` is preserved by whole runs (with `a = b`: every reachable state has `Inv` maps). -/
theorem run_equiv (cfg : Variant) (ops : List C01.Op) :
    ∀ a b : VMState, VEquiv a b → VEquiv (C01.run cfg a ops).1 (C01.run cfg b ops).1 := by
  induction ops with
  | nil => intro a b h; simpa [C01.run] using h
  | cons op ops ih =>
    intro a b h
    have hs := step_congr cfg a b h op
    simp only [C01.run]
    rw [← hs.1]
    by_cases hf : (C01.step cfg a op).2.fatal = true
    · simp only [hf, if_true]; exact hs.2
    · simp only [hf]; exact ih _ _ hs.2

theorem vequiv_init : VEquiv VMState.init VMState.init :=
  ⟨rfl, rfl, rfl, rfl, rfl, rfl, rfl, inv_empty, inv_empty, inv_empty, inv_empty⟩

theorem reachable_inv (cfg : Variant) (ops : List C01.Op) :
    Inv (C01.run cfg VMState.init ops).1.cmds ∧ Inv (C01.run cfg VMState.init ops).1.active :=
  let h := run_equiv cfg ops _ _ vequiv_init
  ⟨h.invCa, h.invAa⟩

/-- Running `pre ++ post`: if `pre` ends in a fatal outcome the run stops there, otherwise it
continues with `post` from the state `pre` reached. -/
theorem run_append (cfg : Variant) (pre post : List C01.Op) : ∀ m : VMState,
    (C01.run cfg m (pre ++ post)).2 =
      if (C01.run cfg m pre).2.any Out.fatal then (C01.run cfg m pre).2
      else (C01.run cfg m pre).2 ++ (C01.run cfg (C01.run cfg m pre).1 post).2 := by
  induction pre with
  | nil => intro m; simp [C01.run]
  | cons op ops ih =>
    intro m
    simp only [List.cons_append, C01.run]
    by_cases hf : (C01.step cfg m op).2.fatal = true
    · simp [hf]
    · simp only [hf, Bool.false_eq_true, if_false, List.any_cons, Bool.false_or, List.cons_append]
      rw [ih]
      split <;> rfl

/-- The driver's table is sound. -/
theorem stdTable_sound : NameTableSound stdTable := by
  refine ⟨?_, ?_⟩
  · intro p n h
    simp only [stdTable] at h ⊢
    split at h
    · injection h with h; subst h
      have : (10 ≤ 10 + p ∧ 10 + p < 15) ∨ (30 ≤ 10 + p ∧ 10 + p < 36) ∨
          (50 ≤ 10 + p ∧ 10 + p < 70) := by omega
      simp only [this, if_true]
      congr 1; omega
    · cases h
  · intro v n i h
    obtain ⟨k, idx⟩ := v
    simp only [stdTable, stdNameOfVar] at h ⊢
    cases k <;> simp only [] at h
    all_goals first
      | (injection h with h; injection h with h1 h2; subst h1; subst h2; simp [stdVarOfName])
      | (split at h
         · injection h with h; injection h with h1 h2; subst h1; subst h2
           simp only [stdVarOfName]
           have e1 : ¬ (30 + idx = 11) := by omega
           have e2 : ¬ (30 + idx = 2) := by omega
           have e3 : ¬ (30 + idx = 3) := by omega
           have e4 : ¬ (30 + idx = 4) := by omega
           have e5 : ¬ (30 + idx = 14) := by omega
           have e6 : ¬ (30 + idx = 6) := by omega
           have e7 : 30 ≤ 30 + idx ∧ 30 + idx < 36 ∧ (0 : Nat) = 0 := by omega
           simp only [e1, e2, e3, e4, e5, e6, e7, if_false, if_true, and_self]
           congr 2; omega
         · cases h)

/-! ## The pending `\global` flag is `Local` between operations

`prefix::Component.scope` is set by `\global` and consumed by the very next assignment or
definition (`read_and_reset_global`); a `\global` with nothing after it is an end-of-input error,
so a VM whose run returned `Ok` — the only VMs a checkpoint is taken of — has the flag `Local`.
In the model: every operation of C01's `step` leaves `scopeBit = .loc`. This is why a
deserialiser that forgets the flag (mutant 21 of the sweep) is equivalent. -/

theorem hook_scope (m : VMState) (pre : Nat) (h : m.scopeBit = .loc) :
    (readAndResetGlobal (applyPrefix pre m)).2.scopeBit = .loc := by
  unfold readAndResetGlobal applyPrefix prefixGlobal setScope
  by_cases hp : pre = 0
  · simp only [hp, if_true]
    repeat' split
    all_goals first | rfl | exact h
  · simp only [hp, if_false]
    by_cases hg : globalDefs m = 0
    · have hg' : globalDefs { m with scopeBit := Scope.glob } = 0 := hg
      simp only [hg, if_true, hg']
      repeat' split
      all_goals first | rfl | omega
    · have hg' : globalDefs { m with scopeBit := Scope.loc } = globalDefs m := rfl
      simp only [hg, if_false, hg']
      repeat' split
      all_goals rfl

theorem setVar_scope (cfg : Variant) (m : VMState) (v : Var) (x : Val) (sc : Scope) :
    (setVar cfg m v x sc).scopeBit = m.scopeBit := by
  unfold setVar updateSaveStack
  cases hs : m.save with
  | nil => simp
  | cons g gs => cases sc <;> simp

theorem insertCmd_scope (m : VMState) (t : CTarget) (c : Cmd) (sc : Scope) :
    (insertCmd m t c sc).scopeBit = m.scopeBit := by
  cases t <;> rfl

theorem step_scope (cfg : Variant) (m : VMState) (op : C01.Op) (h : m.scopeBit = .loc) :
    (C01.step cfg m op).1.scopeBit = .loc := by
  cases op with
  | beginGroup => simpa [C01.step, C01.beginGroup, mapBeginGroup] using h
  | endGroup =>
    simp only [C01.step]
    cases he : C01.endGroup cfg m with
    | errNoGroup => simpa using h
    | panic => simpa using h
    | ok m' =>
      simp only []
      unfold C01.endGroup mapEndGroup at he
      cases hc : m.cmds.endGroup with
      | none => simp [hc] at he
      | some c' =>
        by_cases hB : cfg.fixB = true
        · cases ha : m.active.endGroup with
          | none => simp [hc, hB, ha] at he
          | some a' =>
            simp only [hc, hB, ha, if_true] at he
            cases hs : m.save with
            | nil => simp [hs] at he
            | cons g gs =>
              cases hf : m.fontSave with
              | nil => simp [hs, hf] at he
              | cons o fs =>
                cases o <;> simp only [hs, hf] at he <;> (injection he with he; subst he; exact h)
        · have hB' : cfg.fixB = false := by simpa using hB
          simp only [hc, hB', Bool.false_eq_true, if_false] at he
          cases hs : m.save with
          | nil => simp [hs] at he
          | cons g gs =>
            cases hf : m.fontSave with
            | nil => simp [hs, hf] at he
            | cons o fs =>
              cases o <;> simp only [hs, hf] at he <;> (injection he with he; subst he; exact h)
  | assign pre v x =>
    simp only [C01.step, C01.assign]
    rw [setVar_scope]
    exact hook_scope m pre h
  | define pre t d =>
    simp only [C01.step]
    cases hd : C01.define cfg m pre t d with
    | none => simpa using h
    | some m' =>
      simp only []
      unfold C01.define at hd
      split at hd
      · cases hd
      · cases hr : resolveDef (readAndResetGlobal (applyPrefix pre m)).2 d with
        | none =>
          simp only [hr, Option.some.injEq] at hd
          subst hd
          exact hook_scope m pre h
        | some c =>
          simp only [hr, Option.some.injEq] at hd
          subst hd
          rw [insertCmd_scope]
          exact hook_scope m pre h
  | selectFont pre f =>
    simp only [C01.step, C01.selectFont]
    exact hook_scope m pre h
  | read t => simpa [C01.step] using h

/-- Every VM reached by a program has the pending-`\global` flag `Local`. -/
theorem reachable_scope_local (cfg : Variant) (ops : List C01.Op) :
    ∀ m : VMState, m.scopeBit = .loc → (C01.run cfg m ops).1.scopeBit = .loc := by
  induction ops with
  | nil => intro m h; simpa [C01.run] using h
  | cons op ops ih =>
    intro m h
    have hs := step_scope cfg m op h
    simp only [C01.run]
    by_cases hf : (C01.step cfg m op).2.fatal = true
    · simpa [hf] using hs
    · simp only [hf]; exact ih _ hs

/-! ## The input stack when `next_unexpanded` says end of input -/
namespace Input

theorem next_endOfInput (sources : List Src) : ∀ cur : Src,
    (next sources cur).1 = .endOfInput →
      (next sources cur).2 = { cur := { expansions := [], lexer := [] }, sources := [] } ∧
      Stack.remaining { cur := cur, sources := sources } = [] := by
  induction sources with
  | nil =>
    intro cur h
    obtain ⟨es, l⟩ := cur
    cases es with
    | cons t es => simp [next] at h
    | nil =>
      cases l with
      | nil => simp [next, Stack.remaining]
      | cons x l => cases x <;> simp [next] at h
  | cons s rest ih =>
    intro cur h
    obtain ⟨es, l⟩ := cur
    cases es with
    | cons t es => simp [next] at h
    | nil =>
      cases l with
      | cons x l => cases x <;> simp [next] at h
      | nil =>
        simp only [next] at h ⊢
        obtain ⟨h1, h2⟩ := ih s h
        refine ⟨h1, ?_⟩
        simpa [Stack.remaining] using h2

/-- `next_unexpanded` delivers exactly the first remaining token and leaves the rest. -/
theorem next_token (sources : List Src) : ∀ (cur : Src) (t : Nat),
    (next sources cur).1 = .token t →
      Stack.remaining { cur := cur, sources := sources } = some t :: (next sources cur).2.remaining := by
  induction sources with
  | nil =>
    intro cur t h
    obtain ⟨es, l⟩ := cur
    cases es with
    | cons a es => simp only [next, Next.token.injEq] at h; subst h; simp [next, Stack.remaining]
    | nil =>
      cases l with
      | nil => simp [next] at h
      | cons x l =>
        cases x with
        | none => simp [next] at h
        | some a => simp only [next, Next.token.injEq] at h; subst h; simp [next, Stack.remaining]
  | cons s rest ih =>
    intro cur t h
    obtain ⟨es, l⟩ := cur
    cases es with
    | cons a es => simp only [next, Next.token.injEq] at h; subst h; simp [next, Stack.remaining]
    | nil =>
      cases l with
      | cons x l =>
        cases x with
        | none => simp [next] at h
        | some a => simp only [next, Next.token.injEq] at h; subst h; simp [next, Stack.remaining]
      | nil =>
        simp only [next] at h ⊢
        have := ih s t h
        simpa [Stack.remaining] using this

end Input

end C08
