import TexcraftModel.Lemmas.C18Render

/-! C18: the bracket pre-pass on printed text. Scanning over anything the printer writes —
numbers, names, strings with any characters (quotes, backslashes, brackets, `#`), nested
lists — returns to the regular state at the same depth, so the pre-pass closes every bracket
the printer opens exactly where the sequential parser of the model expects it. -/
namespace C18

def consAll (w : List Char) (x : Option (List Char × Char × List Char)) :
    Option (List Char × Char × List Char) := w.foldr consIn x

theorem consAll_nil (x) : consAll [] x = x := rfl
theorem consAll_cons (c : Char) (w : List Char) (x) : consAll (c :: w) x = consIn c (consAll w x) := rfl
theorem consAll_append (a b : List Char) (x) : consAll (a ++ b) x = consAll a (consAll b x) := by
  simp [consAll, List.foldr_append]
theorem consAll_some (w : List Char) (c : Char) (r : List Char) :
    consAll w (some ([], c, r)) = some (w, c, r) := by
  induction w with
  | nil => rfl
  | cons a w ih => rw [consAll_cons, ih]; rfl

/-- Characters that mean nothing to the pre-pass in the regular state. -/
def plain (c : Char) : Prop := c ≠ '(' ∧ c ≠ '[' ∧ c ≠ ')' ∧ c ≠ ']' ∧ c ≠ '#' ∧ c ≠ '"'

theorem closeScan_plain1 (c : Char) (h : plain c) (d : Nat) (r : List Char) :
    closeScan .regular d (c :: r) = consIn c (closeScan .regular d r) := by
  obtain ⟨h1, h2, h3, h4, h5, h6⟩ := h
  simp [closeScan, h1, h2, h3, h4, h5, h6]

theorem closeScan_plain : ∀ (w : List Char) (d : Nat) (rest : List Char), (∀ c ∈ w, plain c) →
    closeScan .regular d (w ++ rest) = consAll w (closeScan .regular d rest) := by
  intro w
  induction w with
  | nil => intro d rest _; rfl
  | cons c w ih =>
    intro d rest h
    simp only [List.cons_append]
    rw [closeScan_plain1 c (h c (by simp)), ih d rest (fun x hx => h x (by simp [hx]))]
    rfl

theorem plain_of_isAlpha {c : Char} (h : isAlpha c = true) : plain c :=
  ⟨ne_of_isAlpha h (by decide), ne_of_isAlpha h (by decide), ne_of_isAlpha h (by decide),
   ne_of_isAlpha h (by decide), ne_of_isAlpha h (by decide), ne_of_isAlpha h (by decide)⟩

theorem plain_digitChar (d : Nat) : plain (digitChar d) :=
  ⟨digitChar_ne' d _ (by decide), digitChar_ne' d _ (by decide), digitChar_ne' d _ (by decide),
   digitChar_ne' d _ (by decide), digitChar_ne' d _ (by decide), digitChar_ne' d _ (by decide)⟩

theorem plain_word (w : Str) (h : isWord w = true) : ∀ c ∈ w, plain c := by
  cases w with
  | nil => simp [isWord] at h
  | cons a t =>
    simp only [isWord, Bool.and_eq_true, List.all_eq_true] at h
    intro c hc
    simp only [List.mem_cons] at hc
    rcases hc with rfl | hc
    · exact plain_of_isAlpha h.1
    · have := h.2 c hc
      simp only [Bool.or_eq_true, decide_eq_true_eq] at this
      rcases this with h1 | h1
      · exact plain_of_isAlpha h1
      · subst h1; exact ⟨by decide, by decide, by decide, by decide, by decide, by decide⟩

theorem plain_natChars (n : Nat) : ∀ c ∈ natChars n, plain c := by
  intro c hc
  unfold natChars at hc
  simp only [List.mem_map] at hc
  obtain ⟨d, _, rfl⟩ := hc
  exact plain_digitChar d

theorem plain_minus : plain '-' := ⟨by decide, by decide, by decide, by decide, by decide, by decide⟩
theorem plain_dot : plain '.' := ⟨by decide, by decide, by decide, by decide, by decide, by decide⟩
theorem plain_space : plain ' ' := ⟨by decide, by decide, by decide, by decide, by decide, by decide⟩
theorem plain_nl : plain '\n' := ⟨by decide, by decide, by decide, by decide, by decide, by decide⟩
theorem plain_comma : plain ',' := ⟨by decide, by decide, by decide, by decide, by decide, by decide⟩
theorem plain_eq : plain '=' := ⟨by decide, by decide, by decide, by decide, by decide, by decide⟩

theorem plain_printInt (n : Int) : ∀ c ∈ printInt n, plain c := by
  intro c hc
  unfold printInt at hc
  split at hc
  · simp only [List.mem_cons] at hc
    rcases hc with rfl | hc
    · exact plain_minus
    · exact plain_natChars _ c hc
  · exact plain_natChars _ c hc

theorem plain_printNoUnits (s : Int) : ∀ c ∈ printNoUnits s, plain c := by
  intro c hc
  unfold printNoUnits at hc
  simp only [List.mem_append, List.mem_cons, List.not_mem_nil, or_false, List.mem_map] at hc
  rcases hc with ((hc | hc) | hc) | hc
  · split at hc
    · simp only [List.mem_cons, List.not_mem_nil, or_false] at hc; subst hc; exact plain_minus
    · cases hc
  · exact plain_natChars _ c hc
  · subst hc; exact plain_dot
  · obtain ⟨d, _, rfl⟩ := hc; exact plain_digitChar d

theorem plain_indent (d : Nat) : ∀ c ∈ indent d, plain c := by
  intro c hc
  unfold indent at hc
  have := List.eq_of_mem_replicate hc
  subst this; exact plain_space

/-! ### strings -/

theorem closeScan_string_plain : ∀ (w : List Char) (d : Nat) (rest : List Char),
    (∀ c ∈ w, c ≠ '"' ∧ c ≠ '\\') →
    closeScan .string d (w ++ rest) = consAll w (closeScan .string d rest) := by
  intro w
  induction w with
  | nil => intro d rest _; rfl
  | cons c w ih =>
    intro d rest h
    have hc := h c (by simp)
    simp only [List.cons_append, closeScan, hc.1, hc.2, if_false]
    rw [ih d rest (fun x hx => h x (by simp [hx]))]
    rfl

theorem closeScan_escaped_pair (x : Char) (d : Nat) (rest : List Char) :
    closeScan .string d ('\\' :: x :: rest) = consAll ['\\', x] (closeScan .string d rest) := by
  simp [closeScan, consAll]

theorem hexDigitChar_ne_q (d : Nat) : hexDigitChar d ≠ '"' ∧ hexDigitChar d ≠ '\\' := by
  unfold hexDigitChar; split <;> exact ⟨by decide, by decide⟩

/-- Whatever the character and however it is escaped, the pre-pass stays inside the string. -/
theorem closeScan_escapeChar (raw : Char → Bool) (c : Char) (d : Nat) (rest : List Char) :
    closeScan .string d (escapeChar raw c ++ rest) =
      consAll (escapeChar raw c) (closeScan .string d rest) := by
  unfold escapeChar
  split; · exact closeScan_escaped_pair _ d rest
  split; · exact closeScan_escaped_pair _ d rest
  split; · exact closeScan_escaped_pair _ d rest
  split; · exact closeScan_escaped_pair _ d rest
  split; · exact closeScan_escaped_pair _ d rest
  split; · exact closeScan_escaped_pair _ d rest
  split; · exact closeScan_escaped_pair _ d rest
  rename_i h0 ht hr hn hb hq hs
  split
  · exact closeScan_string_plain [c] d rest (fun x hx => by
      simp only [List.mem_cons, List.not_mem_nil, or_false] at hx; subst hx; exact ⟨hq, hb⟩)
  · simp only [List.cons_append, List.nil_append, List.append_assoc]
    rw [closeScan_escaped_pair]
    have : ∀ x ∈ '{' :: (hexChars c.toNat ++ ['}']), x ≠ '"' ∧ x ≠ '\\' := by
      intro x hx
      simp only [List.mem_cons, List.mem_append, List.not_mem_nil, or_false] at hx
      rcases hx with rfl | hx | rfl
      · exact ⟨by decide, by decide⟩
      · unfold hexChars at hx
        simp only [List.mem_map] at hx
        obtain ⟨k, _, rfl⟩ := hx
        exact hexDigitChar_ne_q k
      · exact ⟨by decide, by decide⟩
    have e : '{' :: (hexChars c.toNat ++ '}' :: rest) = ('{' :: (hexChars c.toNat ++ ['}'])) ++ rest := by simp
    rw [e, closeScan_string_plain _ d rest this, ← consAll_append]
    simp

theorem closeScan_escapeStr (raw : Char → Bool) : ∀ (s : Str) (d : Nat) (rest : List Char),
    closeScan .string d (escapeStr raw s ++ rest) = consAll (escapeStr raw s) (closeScan .string d rest) := by
  intro s
  induction s with
  | nil => intro d rest; rfl
  | cons c s ih =>
    intro d rest
    simp only [escapeStr, List.append_assoc]
    rw [closeScan_escapeChar, ih, ← consAll_append]

/-- A printed string — whatever it contains — is skipped by the pre-pass. -/
theorem closeScan_printStr (raw : Char → Bool) (s : Str) (d : Nat) (rest : List Char) :
    closeScan .regular d (printStr raw s ++ rest) = consAll (printStr raw s) (closeScan .regular d rest) := by
  unfold printStr
  simp only [List.cons_append, List.append_assoc, List.nil_append]
  have h1 : closeScan .regular d ('"' :: (escapeStr raw s ++ '"' :: rest)) =
      consIn '"' (closeScan .string d (escapeStr raw s ++ '"' :: rest)) := by simp [closeScan]
  rw [h1, closeScan_escapeStr]
  have h2 : closeScan .string d ('"' :: rest) = consIn '"' (closeScan .regular d rest) := by simp [closeScan]
  rw [h2]
  have e : '"' :: (escapeStr raw s ++ ['"']) = ['"'] ++ escapeStr raw s ++ ['"'] := by simp
  rw [e, consAll_append, consAll_append]
  rfl

/-- A comment line — whatever brackets and quotes it contains — is skipped by the pre-pass. -/
theorem closeScan_comment : ∀ (cmt : List Char) (d : Nat) (rest : List Char), (∀ x ∈ cmt, x ≠ '\n') →
    closeScan .comment d (cmt ++ '\n' :: rest) = consAll (cmt ++ ['\n']) (closeScan .regular d rest) := by
  intro cmt
  induction cmt with
  | nil => intro d rest _; simp [closeScan, consAll]
  | cons c cmt ih =>
    intro d rest h
    simp only [List.cons_append, closeScan, h c (by simp), if_false]
    rw [ih d rest (fun x hx => h x (by simp [hx]))]
    rfl

/-! ### everything the printer writes is balanced for the pre-pass -/

theorem closeScan_open (c : Char) (hc : c = '(' ∨ c = '[') (d : Nat) (r : List Char) :
    closeScan .regular d (c :: r) = consIn c (closeScan .regular (d + 1) r) := by
  simp [closeScan, hc]

theorem closeScan_close_succ (c : Char) (hc : c = ')' ∨ c = ']') (d : Nat) (r : List Char) :
    closeScan .regular (d + 1) (c :: r) = consIn c (closeScan .regular d r) := by
  rcases hc with rfl | rfl <;> simp [closeScan]

theorem closeScan_close_zero (c : Char) (hc : c = ')' ∨ c = ']') (r : List Char) :
    closeScan .regular 0 (c :: r) = some ([], c, r) := by
  rcases hc with rfl | rfl <;> simp [closeScan]

mutual
theorem closeScan_renderVal (raw : Char → Bool) : ∀ (v : Val) (k d : Nat) (rest : List Char), valOk v = true →
    closeScan .regular d (renderVal raw k v ++ rest) = consAll (renderVal raw k v) (closeScan .regular d rest)
  | .int n, k, d, rest, _ => by
    simp only [renderVal]; exact closeScan_plain _ d rest (plain_printInt n)
  | .dim s, k, d, rest, _ => by
    simp only [renderVal, printScaled]
    exact closeScan_plain _ d rest (fun c hc => by
      simp only [List.mem_append, List.mem_cons, List.not_mem_nil, or_false] at hc
      rcases hc with hc | rfl | rfl
      · exact plain_printNoUnits s c hc
      · exact plain_of_isAlpha (by decide)
      · exact plain_of_isAlpha (by decide))
  | .inf s o, k, d, rest, _ => by
    simp only [renderVal]
    exact closeScan_plain _ d rest (fun c hc => by
      simp only [List.mem_append] at hc
      rcases hc with hc | hc
      · exact plain_printNoUnits s c hc
      · exact plain_of_isAlpha (by cases o <;> revert c <;> decide))
  | .str s, k, d, rest, _ => by
    simp only [renderVal]; exact closeScan_printStr raw s d rest
  | .list cs, k, d, rest, hv => by
    have ih := closeScan_renderCalls raw cs
    simp only [valOk] at hv
    simp only [renderVal, List.cons_append, List.append_assoc]
    rw [closeScan_open '[' (.inr rfl)]
    cases cs with
    | nil =>
      simp only [List.nil_append]
      rw [closeScan_close_succ ']' (.inr rfl)]
      rfl
    | cons c cs' =>
      simp only [List.cons_append, List.append_assoc]
      rw [closeScan_plain1 '\n' plain_nl, ih (k + 4) (d + 1) _ hv,
        closeScan_plain _ (d + 1) _ (plain_indent (k + 2))]
      simp only [List.cons_append, List.nil_append]
      rw [closeScan_close_succ ']' (.inr rfl)]
      simp only [consAll_cons, consAll_append, consAll_nil]

theorem closeScan_renderArg (raw : Char → Bool) : ∀ (a : Arg) (k d : Nat) (rest : List Char), argOk a = true →
    closeScan .regular d (renderArg raw k a ++ rest) = consAll (renderArg raw k a) (closeScan .regular d rest)
  | .mk none v, k, d, rest, ha => by
    have ih := closeScan_renderVal raw v
    simp only [argOk] at ha
    simp only [renderArg]
    exact ih k d rest ha
  | .mk (some key) v, k, d, rest, ha => by
    have ih := closeScan_renderVal raw v
    simp only [argOk, Bool.and_eq_true] at ha
    simp only [renderArg, List.append_assoc, List.cons_append]
    rw [closeScan_plain key d _ (plain_word key ha.1), closeScan_plain1 '=' plain_eq, ih k d rest ha.2]
    simp only [consAll_cons, consAll_append]

theorem closeScan_renderArgsMulti (raw : Char → Bool) : ∀ (as : List Arg) (k d : Nat) (rest : List Char),
    argsOk as = true →
    closeScan .regular d (renderArgsMulti raw k as ++ rest) =
      consAll (renderArgsMulti raw k as) (closeScan .regular d rest)
  | [], k, d, rest, _ => by simp [renderArgsMulti, consAll_nil]
  | a :: r, k, d, rest, ha => by
    have ih1 := closeScan_renderArg raw a
    have ih2 := closeScan_renderArgsMulti raw r
    simp only [argsOk, Bool.and_eq_true] at ha
    simp only [renderArgsMulti, List.cons_append, List.append_assoc]
    rw [closeScan_plain1 '\n' plain_nl, closeScan_plain _ d _ (plain_indent k),
      closeScan_plain1 ' ' plain_space, closeScan_plain1 ' ' plain_space, ih1 k d _ ha.1,
      closeScan_plain1 ',' plain_comma, ih2 k d rest ha.2]
    simp only [consAll_cons, consAll_append]

theorem closeScan_renderArgsSingle (raw : Char → Bool) : ∀ (as : List Arg) (k d : Nat) (rest : List Char),
    argsOk as = true →
    closeScan .regular d (renderArgsSingle raw k as ++ rest) =
      consAll (renderArgsSingle raw k as) (closeScan .regular d rest)
  | [], k, d, rest, _ => by simp [renderArgsSingle, consAll_nil]
  | a :: r, k, d, rest, ha => by
    have ih1 := closeScan_renderArg raw a
    have ih2 := closeScan_renderArgsSingle raw r
    simp only [argsOk, Bool.and_eq_true] at ha
    cases r with
    | nil =>
      simp only [renderArgsSingle, List.append_nil]
      exact ih1 k d rest ha.1
    | cons b r' =>
      simp only [renderArgsSingle, List.cons_append, List.append_assoc]
      rw [ih1 k d _ ha.1, closeScan_plain1 ',' plain_comma, closeScan_plain1 ' ' plain_space]
      have := ih2 k d rest ha.2
      simp only [renderArgsSingle, List.append_assoc] at this
      rw [this]
      simp only [consAll_cons, consAll_append]

theorem closeScan_renderCalls (raw : Char → Bool) : ∀ (cs : List Call) (k d : Nat) (rest : List Char),
    callsOk cs = true →
    closeScan .regular d (renderCalls raw k cs ++ rest) =
      consAll (renderCalls raw k cs) (closeScan .regular d rest)
  | [], k, d, rest, _ => by simp [renderCalls, consAll_nil]
  | .mk name args :: r, k, d, rest, hc => by
    have ihm := closeScan_renderArgsMulti raw args
    have ihs := closeScan_renderArgsSingle raw args
    have ihc := closeScan_renderCalls raw r
    simp only [callsOk, callOk, Bool.and_eq_true] at hc
    obtain ⟨⟨hn, ha⟩, hr⟩ := hc
    simp only [renderCalls, renderCall, List.append_assoc, List.cons_append, List.nil_append]
    rw [closeScan_plain _ d _ (plain_indent k), closeScan_plain name d _ (plain_word name hn),
      closeScan_open '(' (.inl rfl)]
    by_cases hm : multiline args = true
    · simp only [hm, ↓reduceIte, List.append_assoc, List.cons_append]
      rw [ihm k (d + 1) _ ha, closeScan_plain1 '\n' plain_nl, closeScan_plain _ (d + 1) _ (plain_indent k),
        closeScan_close_succ ')' (.inl rfl), closeScan_plain1 '\n' plain_nl, ihc k d rest hr]
      simp only [consAll_cons, consAll_append, consAll_nil]
    · have hm' : multiline args = false := by simpa using hm
      simp only [hm', Bool.false_eq_true, ↓reduceIte]
      rw [ihs k (d + 1) _ ha, closeScan_close_succ ')' (.inl rfl), closeScan_plain1 '\n' plain_nl,
        ihc k d rest hr]
      simp only [consAll_cons, consAll_append, consAll_nil]
end

end C18
