import TexcraftModel.Model.C17
/-! Lemmas for `fix_print_parse` (C17): the TFtoPL digit loop against the PLtoTF reader,
symbolically (no table). Invariant: with `R = fracAcc (remaining digits)`, `a` the loop
variable `fp` and `δ` the loop variable `delta`: `2a − 2δ ≤ R < 2a`. -/
namespace C17

theorem fracAcc_replicate (k : Nat) : fracAcc (List.replicate k 0) = 0 := by
  induction k with
  | zero => rfl
  | succ k ih => simp [List.replicate_succ, fracAcc, ih]

theorem fracAcc_append_zeros (ds : List Int) (k : Nat) :
    fracAcc (ds ++ List.replicate k 0) = fracAcc ds := by
  induction ds with
  | nil => simp [fracAcc, fracAcc_replicate]
  | cons d t ih => simp [fracAcc, ih]

/-- What the digits `t` printed from loop state `(a, δ)` must satisfy. -/
def Good (a δ : Int) (t : List Int) (len : Nat) : Prop :=
  (∀ d ∈ t, 0 ≤ d ∧ d ≤ 9) ∧ t.length ≤ len ∧ 2 * a - 2 * δ ≤ fracAcc t ∧ fracAcc t < 2 * a

/-- One iteration without the rounding adjustment (`delta ≤ 2^20`). -/
theorem good_step (n : Nat) (a δ : Int) (len : Nat) (hδ : δ ≤ 1048576) (hδ0 : 0 ≤ δ)
    (ha0 : 0 ≤ a) (ha : a < 10485760) (hnz : a % 1048576 ≠ 0)
    (ih : δ * 10 < 10 * (a % 1048576) →
      Good (10 * (a % 1048576)) (δ * 10) (fracDigits n (10 * (a % 1048576)) (δ * 10)) len) :
    Good a δ (fracDigits (n + 1) a δ) (len + 1) := by
  have h1 : ¬ δ > 1048576 := by omega
  simp only [fracDigits, h1, if_false, Int.tdiv_eq_ediv_of_nonneg ha0, Int.tmod_eq_emod_of_nonneg ha0]
  split
  · rename_i hstop
    refine ⟨?_, ?_, ?_, ?_⟩
    · intro d hd
      simp only [List.mem_singleton] at hd
      subst hd
      omega
    · simp
    · simp only [fracAcc, Int.tdiv_eq_ediv_of_nonneg (Int.le_refl 0)]
      omega
    · simp only [fracAcc, Int.tdiv_eq_ediv_of_nonneg (Int.le_refl 0)]
      omega
  · rename_i hcont
    have hc : δ * 10 < 10 * (a % 1048576) := by omega
    obtain ⟨g1, g2, g3, g4⟩ := ih hc
    have hR0 : 0 ≤ fracAcc (fracDigits n (10 * (a % 1048576)) (δ * 10)) := by omega
    refine ⟨?_, ?_, ?_, ?_⟩
    · intro d hd
      simp only [List.mem_cons] at hd
      rcases hd with hd | hd
      · subst hd; omega
      · exact g1 d hd
    · simp; omega
    · simp only [fracAcc, Int.tdiv_eq_ediv_of_nonneg hR0]
      omega
    · simp only [fracAcc, Int.tdiv_eq_ediv_of_nonneg hR0]
      omega

/-- The seventh iteration (`delta = 10^7 > 2^20`: rounding adjustment) always stops. -/
theorem good7 (n : Nat) (a : Int) (h1 : 10000000 < a) (h2 : a < 10485760) :
    Good a 10000000 (fracDigits (n + 1) a 10000000) 1 := by
  have hd : (10000000 : Int) > 1048576 := by decide
  have e : Int.tdiv 10000000 2 = 5000000 := by decide
  have h0 : 0 ≤ a + 524288 - 5000000 := by omega
  simp only [fracDigits, hd, if_true, e, Int.tdiv_eq_ediv_of_nonneg h0, Int.tmod_eq_emod_of_nonneg h0]
  have hs : 10 * ((a + 524288 - 5000000) % 1048576) ≤ 10000000 * 10 := by omega
  simp only [hs, if_true]
  refine ⟨?_, ?_, ?_, ?_⟩
  · intro d hd
    simp only [List.mem_singleton] at hd
    subst hd
    omega
  · simp
  · simp only [fracAcc, Int.tdiv_eq_ediv_of_nonneg (Int.le_refl 0)]
    omega
  · simp only [fracAcc, Int.tdiv_eq_ediv_of_nonneg (Int.le_refl 0)]
    omega

theorem good6 (n : Nat) (a : Int) (h0 : 0 ≤ a) (h2 : a < 10485760) (hp : a % 64 = 32) :
    Good a 1000000 (fracDigits (n + 2) a 1000000) 2 :=
  good_step (n + 1) a 1000000 1 (by decide) (by decide) h0 h2 (by omega)
    (fun h => good7 n _ (by omega) (by omega))

theorem good5 (n : Nat) (a : Int) (h0 : 0 ≤ a) (h2 : a < 10485760) (hp : a % 32 = 16) :
    Good a 100000 (fracDigits (n + 3) a 100000) 3 :=
  good_step (n + 2) a 100000 2 (by decide) (by decide) h0 h2 (by omega)
    (fun _ => good6 n _ (by omega) (by omega) (by omega))

theorem good4 (n : Nat) (a : Int) (h0 : 0 ≤ a) (h2 : a < 10485760) (hp : a % 16 = 8) :
    Good a 10000 (fracDigits (n + 4) a 10000) 4 :=
  good_step (n + 3) a 10000 3 (by decide) (by decide) h0 h2 (by omega)
    (fun _ => good5 n _ (by omega) (by omega) (by omega))

theorem good3 (n : Nat) (a : Int) (h0 : 0 ≤ a) (h2 : a < 10485760) (hp : a % 8 = 4) :
    Good a 1000 (fracDigits (n + 5) a 1000) 5 :=
  good_step (n + 4) a 1000 4 (by decide) (by decide) h0 h2 (by omega)
    (fun _ => good4 n _ (by omega) (by omega) (by omega))

theorem good2 (n : Nat) (a : Int) (h0 : 0 ≤ a) (h2 : a < 10485760) (hp : a % 4 = 2) :
    Good a 100 (fracDigits (n + 6) a 100) 6 :=
  good_step (n + 5) a 100 5 (by decide) (by decide) h0 h2 (by omega)
    (fun _ => good3 n _ (by omega) (by omega) (by omega))

theorem good1 (n : Nat) (a : Int) (h0 : 0 ≤ a) (h2 : a < 10485760) (hp : a % 2 = 1) :
    Good a 10 (fracDigits (n + 7) a 10) 7 :=
  good_step (n + 6) a 10 6 (by decide) (by decide) h0 h2 (by omega)
    (fun _ => good2 n _ (by omega) (by omega) (by omega))

/-- The fraction: the reader's value of the printed digits is the fraction itself. -/
theorem frac_round_trip (n : Nat) (f : Int) (h0 : 0 ≤ f) (h1 : f < 1048576) :
    let t := fracDigits (n + 7) (10 * f + 5) 10
    (∀ d ∈ t, 0 ≤ d ∧ d ≤ 9) ∧ t.length ≤ 7 ∧ fracValue t = f := by
  obtain ⟨g1, g2, g3, g4⟩ := good1 n (10 * f + 5) (by omega) (by omega) (by omega)
  refine ⟨g1, g2, ?_⟩
  simp only [fracValue, fracAcc_append_zeros]
  have : 0 ≤ fracAcc (fracDigits (n + 7) (10 * f + 5) 10) + 10 := by omega
  rw [Int.tdiv_eq_ediv_of_nonneg this]
  omega

/-- At most seven digits are printed, whatever the fuel (≥ 7). -/
theorem frac_at_most_7_digits (n : Nat) (f : Int) (h0 : 0 ≤ f) (h1 : f < 1048576) :
    (fracDigits (n + 7) (10 * f + 5) 10).length ≤ 7 :=
  (frac_round_trip n f h0 h1).2.1

/-! ### Fuel: the digit loop never needs more than seven iterations -/

theorem fuel7 (a : Int) (h1 : 10000000 < a) (h2 : a < 10485760) (n : Nat) :
    fracDigits (n + 1) a 10000000 = fracDigits 1 a 10000000 := by
  have hd : (10000000 : Int) > 1048576 := by decide
  have e : Int.tdiv 10000000 2 = 5000000 := by decide
  have h0 : 0 ≤ a + 524288 - 5000000 := by omega
  have hs : 10 * ((a + 524288 - 5000000) % 1048576) ≤ 10000000 * 10 := by omega
  simp only [fracDigits, hd, if_true, e, Int.tdiv_eq_ediv_of_nonneg h0,
    Int.tmod_eq_emod_of_nonneg h0, hs]

theorem fuel_step (k : Nat) (a δ : Int) (hδ : δ ≤ 1048576) (ha0 : 0 ≤ a)
    (ih : δ * 10 < 10 * (a % 1048576) → ∀ n, fracDigits (n + k) (10 * (a % 1048576)) (δ * 10) =
      fracDigits k (10 * (a % 1048576)) (δ * 10)) (n : Nat) :
    fracDigits (n + (k + 1)) a δ = fracDigits (k + 1) a δ := by
  have h1 : ¬ δ > 1048576 := by omega
  have e : n + (k + 1) = (n + k) + 1 := by omega
  rw [e]
  simp only [fracDigits, h1, if_false, Int.tdiv_eq_ediv_of_nonneg ha0, Int.tmod_eq_emod_of_nonneg ha0]
  split
  · rfl
  · rename_i hc
    rw [ih (by omega) n]

/-- **Fuel suffices**: any fuel ≥ 7 prints the same digits as fuel 7. -/
theorem frac_fuel_suffices (n : Nat) (f : Int) (h0 : 0 ≤ f) (h1 : f < 1048576) :
    fracDigits (n + 7) (10 * f + 5) 10 = fracDigits 7 (10 * f + 5) 10 := by
  have b : ∀ x : Int, 10 * (x % 1048576) < 10485760 ∧ 0 ≤ 10 * (x % 1048576) := fun x => by omega
  refine fuel_step 6 _ 10 (by decide) (by omega) (fun _ => ?_) n
  refine fuel_step 5 _ (10 * 10) (by decide) (b _).2 (fun _ => ?_)
  refine fuel_step 4 _ (10 * 10 * 10) (by decide) (b _).2 (fun _ => ?_)
  refine fuel_step 3 _ (10 * 10 * 10 * 10) (by decide) (b _).2 (fun _ => ?_)
  refine fuel_step 2 _ (10 * 10 * 10 * 10 * 10) (by decide) (b _).2 (fun _ => ?_)
  refine fuel_step 1 _ (10 * 10 * 10 * 10 * 10 * 10) (by decide) (b _).2 (fun h => ?_)
  intro m
  have e : (10 : Int) * 10 * 10 * 10 * 10 * 10 * 10 = 10000000 := by decide
  rw [e] at h ⊢
  exact fuel7 _ h (b _).1 m

end C17
