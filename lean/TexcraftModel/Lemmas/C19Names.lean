import TexcraftModel.Model.C19Names

namespace C19

/-- Does `w` contain a `.` after its last `/`, given that the part scanned so far did (`e`)? -/
def extAfter (w : Name) (e : Bool) : Bool :=
  match w with
  | [] => e
  | c :: r => if c = dot then extAfter r true else if c = slash then extAfter r false else extAfter r e

theorem scanName_spec : ∀ (w raw : Name) (e : Option Nat),
    (∀ j, e = some j → j < raw.length ∧ raw[j]? = some dot) →
    (scanName w raw e).1 = raw ++ w ∧
    ((scanName w raw e).2.isSome = extAfter w e.isSome) ∧
    (∀ j, (scanName w raw e).2 = some j → j < (raw ++ w).length ∧ (raw ++ w)[j]? = some dot) := by
  intro w
  induction w with
  | nil => intro raw e h; simpa [scanName, extAfter] using h
  | cons c r ih =>
    intro raw e h
    simp only [scanName]
    by_cases hd : c = dot
    · have := ih (raw ++ [c]) (some raw.length) (by
        intro j hj; cases hj; simp [hd])
      simpa [hd, extAfter, List.append_assoc] using this
    · by_cases hs : c = slash
      · have := ih (raw ++ [c]) none (by intro j hj; cases hj)
        have hne : slash ≠ dot := by decide
        simpa [hd, hs, hne, extAfter, List.append_assoc] using this
      · have := ih (raw ++ [c]) e (by
          intro j hj
          obtain ⟨h1, h2⟩ := h j hj
          refine ⟨by simp; omega, ?_⟩
          rw [List.getElem?_append_left h1]; exact h2)
        simpa [hd, hs, extAfter, List.append_assoc] using this

theorem extAfter_true_of_noSlash : ∀ (w : Name), w.contains slash = false → extAfter w true = true := by
  intro w
  induction w with
  | nil => intro _; rfl
  | cons c r ih =>
    intro h
    simp only [List.contains_cons, Bool.or_eq_false_iff, beq_eq_false_iff_ne] at h
    have hs : c ≠ slash := fun hc => h.1 (hc ▸ rfl)
    simp only [extAfter]
    by_cases hd : c = dot
    · simp [hd, ih h.2]
    · simp [hd, hs, ih h.2]

theorem extAfter_of_slash : ∀ (w : Name) (a b : Bool), w.contains slash = true → extAfter w a = extAfter w b := by
  intro w
  induction w with
  | nil => intro a b h; simp at h
  | cons c r ih =>
    intro a b h
    simp only [extAfter]
    by_cases hd : c = dot
    · simp [hd]
    · by_cases hs : c = slash
      · simp [hd, hs]
      · have : r.contains slash = true := by
          simp only [List.contains_cons, Bool.or_eq_true, beq_iff_eq] at h
          cases h with
          | inl h1 => exact absurd h1.symm hs
          | inr h1 => exact h1
        simp [hd, hs, ih a b this]

theorem extAfter_mono : ∀ (w : Name), extAfter w false = true → extAfter w true = true := by
  intro w
  induction w with
  | nil => intro h; simp [extAfter] at h
  | cons c r ih =>
    intro h
    simp only [extAfter] at h ⊢
    by_cases hd : c = dot
    · simpa [hd] using h
    · by_cases hs : c = slash
      · simpa [hd, hs] using h
      · simp only [hd, hs, if_false] at h ⊢; exact ih h

theorem hasExt_eq_extAfter : ∀ (w : Name), hasExt w = extAfter w false := by
  intro w
  induction w with
  | nil => rfl
  | cons c r ih =>
    simp only [hasExt, extAfter]
    by_cases hd : c = dot
    · simp only [hd, if_true]
      cases hc : r.contains slash with
      | false =>
        rw [extAfter_true_of_noSlash r hc]
        cases hasExt r <;> simp
      | true =>
        rw [ih, extAfter_of_slash r true false hc]
        cases extAfter r false <;> simp
    · by_cases hs : c = slash
      · have hne : slash ≠ dot := by decide
        subst hs
        simp [hne, ih]
      · simp [hd, hs, ih]

/-- The code's resolution is the TeX rule. -/
theorem resolveCode_eq_resolveTeX (w : Name) : resolveCode w = resolveTeX w := by
  have h := scanName_spec w [] none (by intro j hj; cases hj)
  simp only [List.nil_append] at h
  obtain ⟨h1, h2, h3⟩ := h
  simp only [resolveCode, resolveTeX]
  cases hs : scanName w [] none with
  | mk raw e =>
    simp only [hs] at h1 h2 h3
    subst h1
    cases e with
    | none =>
      have : hasExt raw = false := by rw [hasExt_eq_extAfter]; simpa using h2.symm
      simp [this, texExt, dot]
    | some j =>
      have : hasExt raw = true := by rw [hasExt_eq_extAfter]; simpa using h2.symm
      obtain ⟨hj, hg⟩ := h3 j rfl
      simp only [this, if_true]
      have hg' : raw[j] = dot := by
        rw [List.getElem?_eq_getElem hj] at hg; exact Option.some.inj hg
      calc raw.take j ++ [dot] ++ raw.drop (j + 1)
          = raw.take j ++ (raw[j] :: raw.drop (j + 1)) := by simp [hg']
        _ = raw.take j ++ raw.drop j := by rw [List.drop_eq_getElem_cons hj]
        _ = raw := List.take_append_drop j raw

end C19
