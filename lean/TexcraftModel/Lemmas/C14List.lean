import TexcraftModel.Lemmas.C14Recon
import TexcraftModel.Lemmas.C14Words
import TexcraftModel.Model.C13

/-! Lifting the per-word facts to the whole list. -/
namespace C14

theorem unmarkedL_unmarked (l : List Item) : Unmarked (unmarkedL l) := by
  intro x hx
  simp only [unmarkedL, List.mem_map] at hx
  obtain ⟨y, -, rfl⟩ := hx; rfl

theorem it_unmarkedL (l : List Item) : it (unmarkedL l) = l := by
  induction l with
  | nil => rfl
  | cons x l ih => simp only [it, unmarkedL, List.map_cons] at ih ⊢; rw [ih]

/-- The three facts about a marked list relative to its unbroken form `u`. -/
structure Good (out : List (Item × Bool)) (u : List Item) : Prop where
  erased : erase (mk out) (it out) = u
  amd : allMarkedDisc (mk out) (it out) = true
  p2 : P2 (mk out) (it out) = true

theorem Good.unmarked (l : List Item) : Good (unmarkedL l) l :=
  ⟨by rw [erase_unmarked _ (unmarkedL_unmarked l), it_unmarkedL], amd_unmarked _ (unmarkedL_unmarked l),
    P2_unmarked _ (unmarkedL_unmarked l)⟩

theorem Good.append {a b : List (Item × Bool)} {ua ub : List Item} (ha : Good a ua) (hb : Good b ub) :
    Good (a ++ b) (ua ++ ub) :=
  ⟨by rw [erase_append, ha.erased, hb.erased], by rw [amd_append, ha.amd, hb.amd]; rfl,
    P2_append _ _ ha.p2 hb.p2⟩

theorem Good.cons (x : Item) {b : List (Item × Bool)} {ub : List Item} (hb : Good b ub) :
    Good ((x, false) :: b) (x :: ub) := by
  have := Good.append (Good.unmarked [x]) hb
  simpa [unmarkedL] using this

/-- If every word `rb` rebuilds is good relative to what `rb0` makes of it, the whole pass is. -/
theorem hyphListG_lift (rb rb0 : Rebuilder) (lhm rhm : Int) (liang : List Nat → List Nat)
    (h : ∀ f s rbo dlb pos w, rb f s rbo dlb pos = some w →
      ∃ u, rb0 f s rbo dlb pos = some (unmarkedL u) ∧ Good w u) :
    ∀ (fuel : Nat) (l : List Item) (out : List (Item × Bool)),
      hyphListG rb lhm rhm liang fuel l = some out →
      ∃ u, hyphListG rb0 lhm rhm liang fuel l = some (unmarkedL u) ∧ Good out u := by
  intro fuel
  induction fuel with
  | zero =>
    intro l out ho
    simp only [hyphListG, Option.some.injEq] at ho
    subst ho
    exact ⟨l, rfl, Good.unmarked l⟩
  | succ fuel ih =>
    intro l out ho
    cases l with
    | nil =>
      simp only [hyphListG, Option.some.injEq] at ho
      subst ho
      exact ⟨[], rfl, Good.unmarked []⟩
    | cons x xs =>
      simp only [hyphListG] at ho ⊢
      -- the common continuation: a prefix of copied nodes, then the recursive call
      have cont : ∀ (pre rest : List Item),
          (hyphListG rb lhm rhm liang fuel rest).map (fun t => (x, false) :: unmarkedL pre ++ t) = some out →
          ∃ u, (hyphListG rb0 lhm rhm liang fuel rest).map (fun t => (x, false) :: unmarkedL pre ++ t)
              = some (unmarkedL u) ∧ Good out u := by
        intro pre rest hm
        simp only [Option.map_eq_some_iff] at hm
        obtain ⟨t, ht, rfl⟩ := hm
        obtain ⟨u, hu, gu⟩ := ih rest t ht
        refine ⟨x :: pre ++ u, ?_, ?_⟩
        · rw [hu]; simp [unmarkedL]
        · exact Good.cons x (Good.append (Good.unmarked pre) gu)
      split at ho
      · rename_i hng
        rw [if_pos hng]
        simp only [Option.map_eq_some_iff] at ho
        obtain ⟨t, ht, rfl⟩ := ho
        obtain ⟨u, hu, gu⟩ := ih xs t ht
        exact ⟨x :: u, by rw [hu]; simp [unmarkedL], Good.cons x gu⟩
      · rename_i hng
        rw [if_neg hng]
        split at ho
        · exact cont _ _ ho
        · rename_i f hf
          split at ho
          · rename_i he; rw [if_pos he]; exact cont _ _ ho
          · rename_i he; rw [if_neg he]
            split at ho
            · rename_i ht; rw [if_pos ht]; exact cont _ _ ho
            · rename_i ht; rw [if_neg ht]
              split at ho
              · rename_i hp; rw [if_pos hp]; exact cont _ _ ho
              · rename_i hp; rw [if_neg hp]
                split at ho
                · cases ho
                · rename_i w hw
                  obtain ⟨uw, huw, gw⟩ := h _ _ _ _ _ _ hw
                  simp only [huw]
                  simp only [Option.map_eq_some_iff] at ho
                  obtain ⟨t, ht', rfl⟩ := ho
                  obtain ⟨u, hu, gu⟩ := ih _ t ht'
                  refine ⟨x :: (popBoundaryLig f (xs.take (seek false xs 0).1) (startsWithLB (xs.drop (seek false xs 0).1).head?)).1 ++ uw ++ u, ?_, ?_⟩
                  · rw [hu]; simp [unmarkedL]
                  · have := Good.cons x (Good.append (Good.append (Good.unmarked
                      (popBoundaryLig f (xs.take (seek false xs 0).1) (startsWithLB (xs.drop (seek false xs 0).1).head?)).1) gw) gu)
                    simpa [List.append_assoc] using this

/-! ## The unbroken list carries the letters of the input -/

theorem eq_dropLast_append_of_getLast? {α : Type} : ∀ (l : List α) (a : α), l.getLast? = some a → l = l.dropLast ++ [a] := by
  intro l
  induction l with
  | nil => intro a h; simp at h
  | cons x l ih =>
    intro a h
    cases l with
    | nil => simp at h; simp [h]
    | cons y t =>
      have : (y :: t).getLast? = some a := by simpa [List.getLast?_cons_cons] using h
      have := ih a this
      simp only [List.dropLast_cons_cons, List.cons_append]
      rw [← this]

theorem popBoundaryLig_letters (f : Nat) (skipped : List Item) (b : Bool) :
    lettersL (popBoundaryLig f skipped b).1 = lettersL skipped := by
  unfold popBoundaryLig
  split
  · rename_i c g orig lb rb hlast
    split
    · rename_i hc
      simp only [Bool.and_eq_true, List.isEmpty_iff] at hc
      have horig : orig = [] := hc.1.2
      have : skipped = skipped.dropLast ++ [Item.lig c g orig lb rb] :=
        eq_dropLast_append_of_getLast? _ _ hlast
      conv => rhs; rw [this]
      rw [lettersL_append, horig]
      simp [lettersL, lettersI]
    · rfl
  · rfl

theorem unbroken_letters (eng : Engine) (he : EngineOK eng) (lhm rhm : Int) (liang : List Nat → List Nat) :
    ∀ (fuel : Nat) (l u : List Item),
      hyphListG (mainRunWord eng) lhm rhm liang fuel l = some (unmarkedL u) → lettersL u = lettersL l := by
  have inj : ∀ a b : List Item, unmarkedL a = unmarkedL b → a = b := by
    intro a b h
    have := congrArg it h
    rwa [it_unmarkedL, it_unmarkedL] at this
  intro fuel
  induction fuel with
  | zero =>
    intro l u h
    simp only [hyphListG, Option.some.injEq] at h
    rw [inj _ _ h]
  | succ fuel ih =>
    intro l u h
    cases l with
    | nil =>
      simp only [hyphListG, Option.some.injEq] at h
      have : u = [] := inj u [] (by rw [← h]; rfl)
      rw [this]
    | cons x xs =>
      simp only [hyphListG] at h
      have cont : ∀ (k : Nat), (hyphListG (mainRunWord eng) lhm rhm liang fuel (xs.drop k)).map
          (fun t => (x, false) :: unmarkedL (xs.take k) ++ t) = some (unmarkedL u) → lettersL u = lettersL (x :: xs) := by
        intro k hm
        simp only [Option.map_eq_some_iff] at hm
        obtain ⟨t, ht, hu⟩ := hm
        have ht' : t = unmarkedL (it t) := by
          have h1 : Unmarked t := by
            intro y hy
            have : y ∈ unmarkedL u := by rw [← hu]; simp [hy]
            exact unmarkedL_unmarked u y this
          clear hu ht
          induction t with
          | nil => rfl
          | cons y t ih2 =>
            obtain ⟨i, m⟩ := y
            have hm : m = false := h1 (i, m) (by simp)
            subst hm
            simp only [it, unmarkedL, List.map_cons, List.cons.injEq, true_and] at ih2 ⊢
            exact ih2 (fun z hz => h1 z (by simp [hz]))
        rw [ht'] at ht hu
        have hrec := ih _ _ ht
        have hu' : u = x :: xs.take k ++ it t := by
          apply inj
          rw [← hu]; simp [unmarkedL]
        rw [hu']
        simp only [List.cons_append, lettersL_cons, lettersL_append, hrec]
        rw [← lettersL_append, List.take_append_drop]
      split at h
      · simp only [Option.map_eq_some_iff] at h
        obtain ⟨t, ht, hu⟩ := h
        cases u with
        | nil => simp [unmarkedL] at hu
        | cons y u' =>
          simp only [unmarkedL, List.map_cons, List.cons.injEq, Prod.mk.injEq, and_true] at hu
          have := ih xs u' (by rw [ht, hu.2]; rfl)
          rw [lettersL_cons, lettersL_cons, this, hu.1]
      · split at h
        · exact cont _ h
        · rename_i f hf
          split at h
          · exact cont _ h
          · split at h
            · exact cont _ h
            · split at h
              · exact cont _ h
              · split at h
                · cases h
                · rename_i w hw
                  simp only [mainRunWord, Option.some.injEq] at hw
                  subst hw
                  simp only [Option.map_eq_some_iff] at h
                  obtain ⟨t, ht, hu⟩ := h
                  have ht' : t = unmarkedL (it t) := by
                    have h1 : Unmarked t := by
                      intro y hy
                      have : y ∈ unmarkedL u := by rw [← hu]; simp [hy]
                      exact unmarkedL_unmarked u y this
                    clear hu ht
                    induction t with
                    | nil => rfl
                    | cons y t ih2 =>
                      obtain ⟨i, m⟩ := y
                      have hm : m = false := h1 (i, m) (by simp)
                      subst hm
                      simp only [it, unmarkedL, List.map_cons, List.cons.injEq, true_and] at ih2 ⊢
                      exact ih2 (fun z hz => h1 z (by simp [hz]))
                  rw [ht'] at ht hu
                  have hrec := ih _ _ ht
                  generalize hk : (seek false xs 0).1 = k at *
                  obtain ⟨hg, hn, -⟩ := gather_eq f (xs.drop k)
                  generalize hnn : longestAdmissible f (xs.drop k) = n at *
                  rw [hg] at hu hrec
                  simp only at hu hrec
                  have hu' : u = x :: (popBoundaryLig f (xs.take k) (startsWithLB (xs.drop k).head?)).1 ++
                      ((eng.run (!(popBoundaryLig f (xs.take k) (startsWithLB (xs.drop k).head?)).2)
                        (rboOf f ((xs.drop k).drop n).head?) (lettersL ((xs.drop k).take n))).map (·.1)).map (toItem f) ++ it t := by
                    apply inj
                    rw [← hu]; simp [unmarkedL]
                  rw [hu']
                  simp only [List.cons_append, List.append_assoc, lettersL_cons, lettersL_append,
                    popBoundaryLig_letters, lettersL_toItem, he.spell, hrec]
                  rw [← lettersL_append (List.take n _), List.take_append_drop, ← lettersL_append,
                    List.take_append_drop]

/-! ## Liang positions come in ascending order (C13's model) -/

theorem oddIdx_sorted : ∀ (l : List Nat) (i : Nat),
    (C13.oddIdx i l).Pairwise (· < ·) ∧ ∀ x ∈ C13.oddIdx i l, i ≤ x := by
  intro l
  induction l with
  | nil => intro i; simp [C13.oddIdx]
  | cons a l ih =>
    intro i
    have := ih (i + 1)
    simp only [C13.oddIdx]
    split
    · refine ⟨List.pairwise_cons.mpr ⟨fun x hx => by have := this.2 x hx; omega, this.1⟩, ?_⟩
      intro x hx
      rcases List.mem_cons.mp hx with rfl | h
      · exact Nat.le_refl _
      · have := this.2 x h; omega
    · exact ⟨this.1, fun x hx => by have := this.2 x hx; omega⟩

/-! ## Positions at list level -/

def shiftT (k : Nat) (t : Nat × Nat × Nat) : Nat × Nat × Nat := (t.1 + k, t.2.1 + k, t.2.2 + k)

theorem discPositions_shift (k : Nat) : ∀ (ms : List Bool) (xs : List Item) (acc : Nat),
    discPositions ms xs (acc + k) = (discPositions ms xs acc).map (shiftT k) := by
  intro ms
  induction ms with
  | nil => intro xs acc; cases xs <;> simp [discPositions]
  | cons m ms ih =>
    intro xs acc
    cases xs with
    | nil => simp [discPositions]
    | cons x xs =>
      cases m with
      | false =>
        simp only [discPositions, Bool.false_eq_true, if_false]
        rw [← ih xs (acc + (lettersI x).length)]
        congr 1; omega
      | true =>
        simp only [discPositions, if_true]
        cases x with
        | disc pre post rc =>
          simp only [List.map_cons, ih xs acc, shiftT]
          congr 2
          · omega
          · congr 1; omega
        | _ => exact ih xs acc

theorem coveredBy_shift (k : Nat) (T : List (Nat × Nat × Nat)) (p : Nat) :
    coveredBy (T.map (shiftT k)) (p + k) = coveredBy T p := by
  induction T with
  | nil => rfl
  | cons t T ih =>
    simp only [coveredBy, List.map_cons, List.any_cons, shiftT] at ih ⊢
    rw [ih]
    congr 1
    have e1 : decide (t.1 + k < p + k) = decide (t.1 < p) := by simp
    have e2 : decide (p + k < t.2.2 + k) = decide (p < t.2.2) := by simp
    rw [e1, e2]

/-- Triples `T` and allowed positions `E` of a segment that starts after `acc` letters. -/
structure PosOK (T : List (Nat × Nat × Nat)) (E : List Nat) (acc : Nat) : Prop where
  eq : T.map (·.1) = E.filter (fun p => !coveredBy T p)
  loT : ∀ t ∈ T, acc < t.1
  loE : ∀ e ∈ E, acc < e

theorem PosOK.nil (acc : Nat) : PosOK [] [] acc := ⟨rfl, by simp, by simp⟩

theorem PosOK.mono {T E acc acc'} (h : PosOK T E acc) (hle : acc' ≤ acc) : PosOK T E acc' :=
  ⟨h.eq, fun t ht => by have := h.loT t ht; omega, fun e he => by have := h.loE e he; omega⟩

theorem PosOK.append {Tw Tr : List (Nat × Nat × Nat)} {Ew Er : List Nat} {acc mid : Nat}
    (hw : PosOK Tw Ew acc) (hr : PosOK Tr Er mid) (hle : acc ≤ mid)
    (upT : ∀ t ∈ Tw, t.2.2 ≤ mid) (upE : ∀ e ∈ Ew, e < mid) :
    PosOK (Tw ++ Tr) (Ew ++ Er) acc := by
  refine ⟨?_, ?_, ?_⟩
  · rw [List.map_append, List.filter_append, hw.eq, hr.eq]
    congr 1
    · apply List.filter_congr
      intro e he
      have : coveredBy Tr e = false := by
        simp only [coveredBy, List.any_eq_false, Bool.and_eq_true, decide_eq_true_eq, not_and]
        intro t ht h1
        have := hr.loT t ht; have := upE e he; omega
      simp [coveredBy, List.any_append] at this ⊢
      intro _
      exact this
    · apply List.filter_congr
      intro e he
      have : coveredBy Tw e = false := by
        simp only [coveredBy, List.any_eq_false, Bool.and_eq_true, decide_eq_true_eq, not_and]
        intro t ht _
        have := upT t ht; have := hr.loE e he; omega
      simp [coveredBy, List.any_append] at this ⊢
      intro h1 x x1 x2 hx
      exact this x x1 x2 hx
  · intro t ht
    rcases List.mem_append.mp ht with h | h
    · exact hw.loT t h
    · have := hr.loT t h; omega
  · intro e he
    rcases List.mem_append.mp he with h | h
    · exact hw.loE e h
    · have := hr.loE e h; omega

/-- One rebuilt word, placed after `acc` letters. -/
theorem word_posOK {eng : Engine} (he : EngineOK eng) (font : Nat) (s : List Nat) (rbo : Option Nat) (dlb : Bool)
    (pos : List Nat) (w : List (Item × Bool)) (acc : Nat)
    (hsorted : pos.Pairwise (· < ·)) (hrange : ∀ p ∈ pos, 1 ≤ p ∧ p < s.length)
    (h : rebuildWord eng font s rbo dlb pos = some w) :
    PosOK (discPositions (mk w) (it w) acc) (pos.map (· + acc)) acc ∧
      (∀ t ∈ discPositions (mk w) (it w) acc, t.2.2 ≤ acc + s.length) ∧
      (∀ e ∈ pos.map (· + acc), e < acc + s.length) := by
  obtain ⟨heq, hb⟩ := rebuildWord_positions_full he font s rbo dlb pos w hsorted
    (fun p hp => ⟨(hrange p hp).1, Nat.le_of_lt (hrange p hp).2⟩) h
  have hshift : discPositions (mk w) (it w) acc = (discPositions (mk w) (it w) 0).map (shiftT acc) := by
    have := discPositions_shift acc (mk w) (it w) 0
    simpa using this
  refine ⟨⟨?_, ?_, ?_⟩, ?_, ?_⟩
  · rw [hshift, List.map_map]
    have : ((fun t : Nat × Nat × Nat => t.1) ∘ shiftT acc) = (fun p => p + acc) ∘ (fun t => t.1) := by
      funext t; simp [shiftT]
    rw [this, ← List.map_map, heq, List.filter_map]
    congr 1
    apply List.filter_congr
    intro p _
    simp only [Function.comp]
    rw [coveredBy_shift]
  · intro t ht
    rw [hshift] at ht
    simp only [List.mem_map] at ht
    obtain ⟨t0, ht0, rfl⟩ := ht
    have := (hb t0 ht0).1
    simp only [shiftT]; omega
  · intro e he
    simp only [List.mem_map] at he
    obtain ⟨p, hp, rfl⟩ := he
    have := (hrange p hp).1; omega
  · intro t ht
    rw [hshift] at ht
    simp only [List.mem_map] at ht
    obtain ⟨t0, ht0, rfl⟩ := ht
    have := (hb t0 ht0).2
    simp only [shiftT]; omega
  · intro e he
    simp only [List.mem_map] at he
    obtain ⟨p, hp, rfl⟩ := he
    have := (hrange p hp).2; omega

/-- A copied prefix contributes no triple and advances the letter count. -/
theorem discPositions_prefix (x : Item) (pre : List Item) (t : List (Item × Bool)) (acc : Nat) :
    discPositions (mk ((x, false) :: unmarkedL pre ++ t)) (it ((x, false) :: unmarkedL pre ++ t)) acc
      = discPositions (mk t) (it t) (acc + (lettersI x).length + (lettersL pre).length) := by
  have hun : Unmarked ((x, false) :: unmarkedL pre) := by
    intro y hy
    rcases List.mem_cons.mp hy with rfl | h
    · rfl
    · exact unmarkedL_unmarked pre y h
  have := discPositions_append ((x, false) :: unmarkedL pre) t (P2_unmarked _ hun) acc
  rw [List.cons_append] at this
  refine this.trans ?_
  rw [discPositions_unmarked _ hun, erase_unmarked _ hun]
  simp only [List.nil_append, it, List.map_cons]
  have e : (unmarkedL pre).map (·.1) = pre := it_unmarkedL pre
  rw [e, lettersL_cons, List.length_append, Nat.add_assoc]

theorem wordPositions_ok (lhm rhm : Int) (len : Nat) (raw : List Nat) (hraw : raw.Pairwise (· < ·)) :
    (wordPositions lhm rhm len raw).Pairwise (· < ·) ∧
      ∀ p ∈ wordPositions lhm rhm len raw, 1 ≤ p ∧ p < len := by
  unfold wordPositions
  rw [drain_eq_filter]
  refine ⟨List.Pairwise.sublist List.filter_sublist hraw, ?_⟩
  intro p hp
  simp only [List.mem_filter, inRange, decide_eq_true_eq, effMin] at hp
  have h1 : 1 ≤ (if lhm ≤ 0 then 1 else lhm.toNat) := by split <;> omega
  have h2 : 1 ≤ (if rhm ≤ 0 then 1 else rhm.toNat) := by split <;> omega
  omega

/-- The positions of the whole pass: the break positions of all inserted discretionaries are the
allowed positions of all rebuilt words (absolute letter offsets) that no discretionary covers. -/
theorem hyphList_posOK {eng : Engine} (he : EngineOK eng) (lhm rhm : Int) (liang : List Nat → List Nat)
    (hliang : ∀ s, (liang s).Pairwise (· < ·)) :
    ∀ (fuel : Nat) (l : List Item) (out : List (Item × Bool)) (acc : Nat),
      hyphList eng lhm rhm liang fuel l = some out →
      PosOK (discPositions (mk out) (it out) acc) (expectedG lhm rhm liang fuel l acc) acc := by
  intro fuel
  induction fuel with
  | zero =>
    intro l out acc h
    simp only [hyphList, hyphListG, Option.some.injEq] at h
    subst h
    rw [discPositions_unmarked _ (unmarkedL_unmarked l)]
    exact PosOK.nil acc
  | succ fuel ih =>
    intro l out acc h
    cases l with
    | nil =>
      simp only [hyphList, hyphListG, Option.some.injEq] at h
      subst h
      exact PosOK.nil acc
    | cons x xs =>
      simp only [hyphList, hyphListG] at h
      simp only [expectedG]
      have cont : ∀ (k : Nat), (hyphListG (rebuildWord eng) lhm rhm liang fuel (xs.drop k)).map
          (fun t => (x, false) :: unmarkedL (xs.take k) ++ t) = some out →
          PosOK (discPositions (mk out) (it out) acc)
            (expectedG lhm rhm liang fuel (xs.drop k) (acc + (lettersI x).length + (lettersL (xs.take k)).length)) acc := by
        intro k hm
        simp only [Option.map_eq_some_iff] at hm
        obtain ⟨t, ht, rfl⟩ := hm
        rw [discPositions_prefix]
        exact (ih _ t _ ht).mono (by omega)
      split at h
      · rename_i hng
        rw [if_pos hng]
        simp only [Option.map_eq_some_iff] at h
        obtain ⟨t, ht, rfl⟩ := h
        show PosOK (discPositions (mk t) (it t) (acc + (lettersI x).length)) _ _
        exact (ih _ t _ ht).mono (by omega)
      · rename_i hng
        rw [if_neg hng]
        split at h
        · exact cont _ h
        · rename_i f hf
          split at h
          · rename_i he'; rw [if_pos he']; exact cont _ h
          · rename_i he'; rw [if_neg he']
            split at h
            · rename_i ht; rw [if_pos ht]; exact cont _ h
            · rename_i ht; rw [if_neg ht]
              split at h
              · rename_i hp; rw [if_pos hp]; exact cont _ h
              · rename_i hp; rw [if_neg hp]
                split at h
                · cases h
                · rename_i w hw
                  simp only [Option.map_eq_some_iff] at h
                  obtain ⟨t, ht', rfl⟩ := h
                  generalize hk : (seek false xs 0).1 = k at *
                  generalize hg : gather f (xs.drop k) [] 0 = g at *
                  have hwp := wordPositions_ok lhm rhm g.1.length (liang g.1) (hliang g.1)
                  -- the word segment and the rest
                  have hpre := discPositions_prefix x (popBoundaryLig f (xs.take k) (startsWithLB (xs.drop k).head?)).1 (w ++ t) acc
                  rw [List.append_assoc]
                  rw [hpre, popBoundaryLig_letters]
                  have hacc : acc ≤ acc + (lettersI x).length + (lettersL (xs.take k)).length := by omega
                  generalize acc + (lettersI x).length + (lettersL (xs.take k)).length = accW at hacc ⊢
                  obtain ⟨base, -, hp2⟩ := rebuildWord_base he _ _ _ _ _ w hw
                  rw [discPositions_append w t hp2 accW]
                  have hlen : (lettersL (erase (mk w) (it w))).length = g.1.length := by
                    rw [base, lettersL_toItem, he.spell]
                  rw [hlen]
                  obtain ⟨pw, upT, upE⟩ := word_posOK he f g.1 _ _ _ w accW hwp.1 hwp.2 hw
                  have hr := ih _ t (accW + g.1.length) ht'
                  exact (PosOK.append pw hr (by omega) upT upE).mono (by omega)

/-! ## Fuel of `expectedG` -/

theorem expectedG_fuel (lhm rhm : Int) (liang : List Nat → List Nat) :
    ∀ (n f1 f2 : Nat) (l : List Item) (acc : Nat), l.length ≤ n → n < f1 → n < f2 →
      expectedG lhm rhm liang f1 l acc = expectedG lhm rhm liang f2 l acc := by
  intro n
  induction n with
  | zero =>
    intro f1 f2 l acc hl h1 h2
    have : l = [] := List.eq_nil_of_length_eq_zero (by omega)
    subst this
    cases f1 <;> cases f2 <;> simp [expectedG]
  | succ n ih =>
    intro f1 f2 l acc hl h1 h2
    cases f1 with
    | zero => omega
    | succ f1 =>
      cases f2 with
      | zero => omega
      | succ f2 =>
        cases l with
        | nil => simp [expectedG]
        | cons x xs =>
          have hx : xs.length ≤ n := by simpa using hl
          have e1 : ∀ a, expectedG lhm rhm liang f1 xs a = expectedG lhm rhm liang f2 xs a :=
            fun a => ih f1 f2 xs a hx (by omega) (by omega)
          have e2 : ∀ k a, expectedG lhm rhm liang f1 (xs.drop k) a = expectedG lhm rhm liang f2 (xs.drop k) a :=
            fun k a => ih f1 f2 _ a (by simp only [List.length_drop]; omega) (by omega) (by omega)
          have e3 : ∀ k m a, expectedG lhm rhm liang f1 ((xs.drop k).drop m) a
              = expectedG lhm rhm liang f2 ((xs.drop k).drop m) a :=
            fun k m a => ih f1 f2 _ a (by simp only [List.length_drop]; omega) (by omega) (by omega)
          simp only [expectedG, e1, e2, e3]

/-- Stepping over `n` nodes none of which is a glue. -/
theorem expectedG_skip (lhm rhm : Int) (liang : List Nat → List Nat) :
    ∀ (n fuel : Nat) (l : List Item) (acc : Nat), n ≤ l.length → (l.take n).all (fun x => !x.isGlue) = true →
      expectedG lhm rhm liang (fuel + n) l acc
        = expectedG lhm rhm liang fuel (l.drop n) (acc + (lettersL (l.take n)).length) := by
  intro n
  induction n with
  | zero => intro fuel l acc _ _; simp [lettersL]
  | succ n ih =>
    intro fuel l acc hn hall
    cases l with
    | nil => simp at hn
    | cons x xs =>
      simp only [List.take_succ_cons, List.all_cons, Bool.and_eq_true] at hall
      rw [show fuel + (n + 1) = (fuel + n) + 1 by omega]
      simp only [expectedG, hall.1, if_true, List.drop_succ_cons, List.take_succ_cons, lettersL_cons,
        List.length_append]
      rw [ih fuel xs _ (by simpa using hn) hall.2]
      congr 1; omega

/-! ## `expectedM` is the list of positions computed from `findWords` -/

/-- The allowed positions of one reported word as absolute letter offsets. -/
def wordExp (lhm rhm : Int) (liang : List Nat → List Nat) (inp : List Item) (w : Word) : List Nat :=
  (wordPositions lhm rhm w.letters.length (liang w.letters)).map
    (fun p => (lettersL (inp.take w.start)).length + p)

theorem expectedPositions_map (inp : List Item) (ws : List Word) (f : Word → List Nat) :
    expectedPositions inp ws (ws.map f)
      = (ws.map (fun w => (f w).map (fun p => (lettersL (inp.take w.start)).length + p))).flatten := by
  unfold expectedPositions
  congr 1
  induction ws with
  | nil => rfl
  | cons w ws ih => simp only [List.map_cons, List.zip_cons_cons, ih]

theorem take_append_cons {α : Type} (pre : List α) (x : α) (xs : List α) (k : Nat) :
    (pre ++ x :: xs).take (pre.length + 1 + k) = pre ++ x :: xs.take k := by
  induction pre with
  | nil => simp [Nat.add_comm 1 k, List.take_succ_cons]
  | cons a pre ih =>
    simp only [List.cons_append, List.length_cons]
    rw [show pre.length + 1 + 1 + k = (pre.length + 1 + k) + 1 by omega, List.take_succ_cons, ih]

theorem expectedG_scan (lhm rhm : Int) (liang : List Nat → List Nat) :
    ∀ (fuel : Nat) (pre suf : List Item), suf.length < fuel →
      expectedG lhm rhm liang fuel suf (lettersL pre).length
        = ((scan false fuel pre.length suf).map (wordExp lhm rhm liang (pre ++ suf))).flatten := by
  intro fuel
  induction fuel with
  | zero => intro pre suf h; omega
  | succ fuel ih =>
    intro pre suf hfuel
    cases suf with
    | nil => simp [expectedG, scan]
    | cons x xs =>
      have hxs : xs.length < fuel := by simpa using hfuel
      simp only [expectedG, scan]
      -- stepping over `x` and `k` further nodes
      have step : ∀ k, k ≤ xs.length →
          expectedG lhm rhm liang fuel (xs.drop k) ((lettersL pre).length + (lettersI x).length + (lettersL (xs.take k)).length)
            = ((scan false fuel (pre.length + 1 + k) (xs.drop k)).map (wordExp lhm rhm liang (pre ++ x :: xs))).flatten := by
        intro k hk
        have := ih (pre ++ x :: xs.take k) (xs.drop k) (by simp only [List.length_drop]; omega)
        have e1 : (lettersL (pre ++ x :: xs.take k)).length
            = (lettersL pre).length + (lettersI x).length + (lettersL (xs.take k)).length := by
          rw [lettersL_append, lettersL_cons]; simp only [List.length_append]; omega
        have e2 : (pre ++ x :: xs.take k).length = pre.length + 1 + k := by
          simp only [List.length_append, List.length_cons, List.length_take]; omega
        have e3 : pre ++ x :: xs.take k ++ xs.drop k = pre ++ x :: xs := by
          rw [List.append_assoc, List.cons_append, List.take_append_drop]
        rw [e1, e2, e3] at this
        exact this
      split
      · have := step 0 (Nat.zero_le _)
        simpa [lettersL] using this
      · have hk := takeWhile_drop skippable xs
        have hkl : (seek false xs 0).1 ≤ xs.length := by
          rw [seek_spec]
          have := congrArg List.length hk.2
          simp only [List.length_take] at this
          omega
        generalize hkk : (seek false xs 0).1 = k at *
        have hcont := step k hkl
        cases hs2 : (seek false xs 0).2 with
        | none => simp only; exact hcont
        | some f =>
          simp only
          by_cases he : (gather f (xs.drop k) [] 0).1.isEmpty = true
          · rw [if_pos he, if_pos he]; exact hcont
          · rw [if_neg he, if_neg he]
            by_cases ht : (!terminatorOk ((xs.drop k).drop (gather f (xs.drop k) [] 0).2)) = true
            · rw [if_pos ht, if_pos ht]; exact hcont
            · rw [if_neg ht, if_neg ht]
              -- a word is reported
              obtain ⟨hgath, hn, -⟩ := gather_eq f (xs.drop k)
              generalize hnn : longestAdmissible f (xs.drop k) = n at *
              rw [hgath]
              simp only
              have hrest := step (k + n) (by simp only [List.length_drop] at hn; omega)
              have hw : wordExp lhm rhm liang (pre ++ x :: xs) ⟨pre.length + 1 + k, n, f, lettersL ((xs.drop k).take n)⟩
                  = (wordPositions lhm rhm (lettersL ((xs.drop k).take n)).length (liang (lettersL ((xs.drop k).take n)))).map
                      (· + ((lettersL pre).length + (lettersI x).length + (lettersL (xs.take k)).length)) := by
                simp only [wordExp]
                rw [take_append_cons, lettersL_append, lettersL_cons]
                apply List.map_congr_left
                intro p _
                simp only [List.length_append]; omega
              have hlet : (lettersL (xs.take (k + n))).length
                  = (lettersL (xs.take k)).length + (lettersL ((xs.drop k).take n)).length := by
                rw [← List.length_append, ← lettersL_append]
                congr 2
                rw [List.take_add]
              have hdrop : xs.drop (k + n) = (xs.drop k).drop n := by rw [List.drop_drop]
              rw [hlet, hdrop, show pre.length + 1 + (k + n) = pre.length + 1 + k + n by omega, ← Nat.add_assoc] at hrest
              simp only [List.map_cons, List.flatten_cons, hw]
              by_cases hp : (wordPositions lhm rhm (lettersL ((xs.drop k).take n)).length (liang (lettersL ((xs.drop k).take n)))).isEmpty = true
              · rw [if_pos hp]
                rw [List.isEmpty_iff] at hp
                rw [hp]
                simp only [List.map_nil, List.nil_append]
                rw [← hrest]
                -- the pass rescans the word (all its nodes are word nodes, none a glue)
                obtain ⟨-, -, hall⟩ := gather_eq f (xs.drop k)
                rw [hnn] at hall
                have hfn : n ≤ fuel := by simp only [List.length_drop] at hn; omega
                have hskip := expectedG_skip lhm rhm liang n (fuel - n) (xs.drop k)
                  ((lettersL pre).length + (lettersI x).length + (lettersL (xs.take k)).length) hn
                  (all_not_glue_of_wordNode f _ hall)
                rw [show fuel - n + n = fuel by omega] at hskip
                rw [hskip, Nat.add_assoc _ (lettersL (xs.take k)).length]
                exact expectedG_fuel lhm rhm liang ((xs.drop k).drop n).length _ _ _ _ (Nat.le_refl _)
                  (by simp only [List.length_drop] at hn ⊢; omega) (by simp only [List.length_drop]; omega)
              · rw [if_neg hp, hrest]

/-- `expectedM` (the traversal of the pass) = the positions `chk` computes from `findWords`. -/
theorem expectedM_eq_findWords (lhm rhm : Int) (liang : List Nat → List Nat) (l : List Item) :
    expectedM lhm rhm liang l
      = expectedPositions l (findWords l)
          ((findWords l).map (fun w => wordPositions lhm rhm w.letters.length (liang w.letters))) := by
  rw [expectedPositions_map]
  have := expectedG_scan lhm rhm liang (l.length + 1) [] l (by omega)
  simp only [lettersL_nil, List.length_nil, List.nil_append] at this
  exact this

end C14
