import TexcraftModel.Lemmas.C14Recon
import TexcraftModel.Lemmas.C14Words
import TexcraftModel.Model.C13

/-! Lifting the per-word facts to the whole list. -/
namespace C14

theorem unmarkedL_unmarked (l : List Item) : Unmarked (unmarkedL l) := by
  intro x hx
  simp only [unmarkedL, List.mem_map] at hx
  obtain ⟨y, -, rfl⟩ := hx; rfl

theorem it_unmarkedL (l : List Item) : it (unmarkedL l) = l := by
  induction l with
  | nil => rfl
  | cons x l ih => simp only [it, unmarkedL, List.map_cons] at ih ⊢; rw [ih]

/-- The three facts about a marked list relative to its unbroken form `u`. -/
structure Good (out : List (Item × Bool)) (u : List Item) : Prop where
  erased : erase (mk out) (it out) = u
  amd : allMarkedDisc (mk out) (it out) = true
  p2 : P2 (mk out) (it out) = true

theorem Good.unmarked (l : List Item) : Good (unmarkedL l) l :=
  ⟨by rw [erase_unmarked _ (unmarkedL_unmarked l), it_unmarkedL], amd_unmarked _ (unmarkedL_unmarked l),
    P2_unmarked _ (unmarkedL_unmarked l)⟩

theorem Good.append {a b : List (Item × Bool)} {ua ub : List Item} (ha : Good a ua) (hb : Good b ub) :
    Good (a ++ b) (ua ++ ub) :=
  ⟨by rw [erase_append, ha.erased, hb.erased], by rw [amd_append, ha.amd, hb.amd]; rfl,
    P2_append _ _ ha.p2 hb.p2⟩

theorem Good.cons (x : Item) {b : List (Item × Bool)} {ub : List Item} (hb : Good b ub) :
    Good ((x, false) :: b) (x :: ub) := by
  have := Good.append (Good.unmarked [x]) hb
  simpa [unmarkedL] using this

/-- If every word `rb` rebuilds is good relative to what `rb0` makes of it, the whole pass is. -/
theorem hyphListG_lift (rb rb0 : Rebuilder) (lhm rhm : Int) (liang : List Nat → List Nat)
    (h : ∀ f s rbo dlb pos w, rb f s rbo dlb pos = some w →
      ∃ u, rb0 f s rbo dlb pos = some (unmarkedL u) ∧ Good w u) :
    ∀ (fuel : Nat) (l : List Item) (out : List (Item × Bool)),
      hyphListG rb lhm rhm liang fuel l = some out →
      ∃ u, hyphListG rb0 lhm rhm liang fuel l = some (unmarkedL u) ∧ Good out u := by
  intro fuel
  induction fuel with
  | zero =>
    intro l out ho
    simp only [hyphListG, Option.some.injEq] at ho
    subst ho
    exact ⟨l, rfl, Good.unmarked l⟩
  | succ fuel ih =>
    intro l out ho
    cases l with
    | nil =>
      simp only [hyphListG, Option.some.injEq] at ho
      subst ho
      exact ⟨[], rfl, Good.unmarked []⟩
    | cons x xs =>
      simp only [hyphListG] at ho ⊢
      -- the common continuation: a prefix of copied nodes, then the recursive call
      have cont : ∀ (pre rest : List Item),
          (hyphListG rb lhm rhm liang fuel rest).map (fun t => (x, false) :: unmarkedL pre ++ t) = some out →
          ∃ u, (hyphListG rb0 lhm rhm liang fuel rest).map (fun t => (x, false) :: unmarkedL pre ++ t)
              = some (unmarkedL u) ∧ Good out u := by
        intro pre rest hm
        simp only [Option.map_eq_some_iff] at hm
        obtain ⟨t, ht, rfl⟩ := hm
        obtain ⟨u, hu, gu⟩ := ih rest t ht
        refine ⟨x :: pre ++ u, ?_, ?_⟩
        · rw [hu]; simp [unmarkedL]
        · exact Good.cons x (Good.append (Good.unmarked pre) gu)
      split at ho
      · rename_i hng
        rw [if_pos hng]
        simp only [Option.map_eq_some_iff] at ho
        obtain ⟨t, ht, rfl⟩ := ho
        obtain ⟨u, hu, gu⟩ := ih xs t ht
        exact ⟨x :: u, by rw [hu]; simp [unmarkedL], Good.cons x gu⟩
      · rename_i hng
        rw [if_neg hng]
        split at ho
        · exact cont _ _ ho
        · rename_i f hf
          split at ho
          · rename_i he; rw [if_pos he]; exact cont _ _ ho
          · rename_i he; rw [if_neg he]
            split at ho
            · rename_i ht; rw [if_pos ht]; exact cont _ _ ho
            · rename_i ht; rw [if_neg ht]
              split at ho
              · rename_i hp; rw [if_pos hp]; exact cont _ _ ho
              · rename_i hp; rw [if_neg hp]
                split at ho
                · cases ho
                · rename_i w hw
                  obtain ⟨uw, huw, gw⟩ := h _ _ _ _ _ _ hw
                  simp only [huw]
                  simp only [Option.map_eq_some_iff] at ho
                  obtain ⟨t, ht', rfl⟩ := ho
                  obtain ⟨u, hu, gu⟩ := ih _ t ht'
                  refine ⟨x :: (popBoundaryLig f (xs.take (seek false xs 0).1) (startsWithLB (xs.drop (seek false xs 0).1).head?)).1 ++ uw ++ u, ?_, ?_⟩
                  · rw [hu]; simp [unmarkedL]
                  · have := Good.cons x (Good.append (Good.append (Good.unmarked
                      (popBoundaryLig f (xs.take (seek false xs 0).1) (startsWithLB (xs.drop (seek false xs 0).1).head?)).1) gw) gu)
                    simpa [List.append_assoc] using this

/-! ## The unbroken list carries the letters of the input -/

theorem eq_dropLast_append_of_getLast? {α : Type} : ∀ (l : List α) (a : α), l.getLast? = some a → l = l.dropLast ++ [a] := by
  intro l
  induction l with
  | nil => intro a h; simp at h
  | cons x l ih =>
    intro a h
    cases l with
    | nil => simp at h; simp [h]
    | cons y t =>
      have : (y :: t).getLast? = some a := by simpa [List.getLast?_cons_cons] using h
      have := ih a this
      simp only [List.dropLast_cons_cons, List.cons_append]
      rw [← this]

theorem popBoundaryLig_letters (f : Nat) (skipped : List Item) (b : Bool) :
    lettersL (popBoundaryLig f skipped b).1 = lettersL skipped := by
  unfold popBoundaryLig
  split
  · rename_i c g orig lb rb hlast
    split
    · rename_i hc
      simp only [Bool.and_eq_true, List.isEmpty_iff] at hc
      have horig : orig = [] := hc.1.2
      have : skipped = skipped.dropLast ++ [Item.lig c g orig lb rb] :=
        eq_dropLast_append_of_getLast? _ _ hlast
      conv => rhs; rw [this]
      rw [lettersL_append, horig]
      simp [lettersL, lettersI]
    · rfl
  · rfl

theorem unbroken_letters (eng : Engine) (he : EngineOK eng) (lhm rhm : Int) (liang : List Nat → List Nat) :
    ∀ (fuel : Nat) (l u : List Item),
      hyphListG (mainRunWord eng) lhm rhm liang fuel l = some (unmarkedL u) → lettersL u = lettersL l := by
  have inj : ∀ a b : List Item, unmarkedL a = unmarkedL b → a = b := by
    intro a b h
    have := congrArg it h
    rwa [it_unmarkedL, it_unmarkedL] at this
  intro fuel
  induction fuel with
  | zero =>
    intro l u h
    simp only [hyphListG, Option.some.injEq] at h
    rw [inj _ _ h]
  | succ fuel ih =>
    intro l u h
    cases l with
    | nil =>
      simp only [hyphListG, Option.some.injEq] at h
      have : u = [] := inj u [] (by rw [← h]; rfl)
      rw [this]
    | cons x xs =>
      simp only [hyphListG] at h
      have cont : ∀ (k : Nat), (hyphListG (mainRunWord eng) lhm rhm liang fuel (xs.drop k)).map
          (fun t => (x, false) :: unmarkedL (xs.take k) ++ t) = some (unmarkedL u) → lettersL u = lettersL (x :: xs) := by
        intro k hm
        simp only [Option.map_eq_some_iff] at hm
        obtain ⟨t, ht, hu⟩ := hm
        have ht' : t = unmarkedL (it t) := by
          have h1 : Unmarked t := by
            intro y hy
            have : y ∈ unmarkedL u := by rw [← hu]; simp [hy]
            exact unmarkedL_unmarked u y this
          clear hu ht
          induction t with
          | nil => rfl
          | cons y t ih2 =>
            obtain ⟨i, m⟩ := y
            have hm : m = false := h1 (i, m) (by simp)
            subst hm
            simp only [it, unmarkedL, List.map_cons, List.cons.injEq, true_and] at ih2 ⊢
            exact ih2 (fun z hz => h1 z (by simp [hz]))
        rw [ht'] at ht hu
        have hrec := ih _ _ ht
        have hu' : u = x :: xs.take k ++ it t := by
          apply inj
          rw [← hu]; simp [unmarkedL]
        rw [hu']
        simp only [List.cons_append, lettersL_cons, lettersL_append, hrec]
        rw [← lettersL_append, List.take_append_drop]
      split at h
      · simp only [Option.map_eq_some_iff] at h
        obtain ⟨t, ht, hu⟩ := h
        cases u with
        | nil => simp [unmarkedL] at hu
        | cons y u' =>
          simp only [unmarkedL, List.map_cons, List.cons.injEq, Prod.mk.injEq, and_true] at hu
          have := ih xs u' (by rw [ht, hu.2]; rfl)
          rw [lettersL_cons, lettersL_cons, this, hu.1]
      · split at h
        · exact cont _ h
        · rename_i f hf
          split at h
          · exact cont _ h
          · split at h
            · exact cont _ h
            · split at h
              · exact cont _ h
              · split at h
                · cases h
                · rename_i w hw
                  simp only [mainRunWord, Option.some.injEq] at hw
                  subst hw
                  simp only [Option.map_eq_some_iff] at h
                  obtain ⟨t, ht, hu⟩ := h
                  have ht' : t = unmarkedL (it t) := by
                    have h1 : Unmarked t := by
                      intro y hy
                      have : y ∈ unmarkedL u := by rw [← hu]; simp [hy]
                      exact unmarkedL_unmarked u y this
                    clear hu ht
                    induction t with
                    | nil => rfl
                    | cons y t ih2 =>
                      obtain ⟨i, m⟩ := y
                      have hm : m = false := h1 (i, m) (by simp)
                      subst hm
                      simp only [it, unmarkedL, List.map_cons, List.cons.injEq, true_and] at ih2 ⊢
                      exact ih2 (fun z hz => h1 z (by simp [hz]))
                  rw [ht'] at ht hu
                  have hrec := ih _ _ ht
                  generalize hk : (seek false xs 0).1 = k at *
                  obtain ⟨hg, hn, -⟩ := gather_eq f (xs.drop k)
                  generalize hnn : longestAdmissible f (xs.drop k) = n at *
                  rw [hg] at hu hrec
                  simp only at hu hrec
                  have hu' : u = x :: (popBoundaryLig f (xs.take k) (startsWithLB (xs.drop k).head?)).1 ++
                      ((eng.run (!(popBoundaryLig f (xs.take k) (startsWithLB (xs.drop k).head?)).2)
                        (rboOf f ((xs.drop k).drop n).head?) (lettersL ((xs.drop k).take n))).map (·.1)).map (toItem f) ++ it t := by
                    apply inj
                    rw [← hu]; simp [unmarkedL]
                  rw [hu']
                  simp only [List.cons_append, List.append_assoc, lettersL_cons, lettersL_append,
                    popBoundaryLig_letters, lettersL_toItem, he.spell, hrec]
                  rw [← lettersL_append (List.take n _), List.take_append_drop, ← lettersL_append,
                    List.take_append_drop]

/-! ## Liang positions come in ascending order (C13's model) -/

theorem oddIdx_sorted : ∀ (l : List Nat) (i : Nat),
    (C13.oddIdx i l).Pairwise (· < ·) ∧ ∀ x ∈ C13.oddIdx i l, i ≤ x := by
  intro l
  induction l with
  | nil => intro i; simp [C13.oddIdx]
  | cons a l ih =>
    intro i
    have := ih (i + 1)
    simp only [C13.oddIdx]
    split
    · refine ⟨List.pairwise_cons.mpr ⟨fun x hx => by have := this.2 x hx; omega, this.1⟩, ?_⟩
      intro x hx
      rcases List.mem_cons.mp hx with rfl | h
      · exact Nat.le_refl _
      · have := this.2 x h; omega
    · exact ⟨this.1, fun x hx => by have := this.2 x hx; omega⟩

end C14
