import TexcraftModel.Model.C16

/-! Helper lemmas for C16 (DVI). Core Lean only. -/
namespace C16

/-! ### Fixed-width round trips -/

theorem rdU1 (a : Nat) (r : List Nat) : rdU 1 (a :: r) = some (a, r) := rfl

theorem rdU2_be2 (u : Nat) (h : u < 65536) (r : List Nat) :
    rdU 2 (be2 u ++ r) = some (u, r) := by
  simp only [be2, List.cons_append, List.nil_append, rdU]
  congr 2; omega

theorem rdU4_be4 (u : Nat) (h : u < 4294967296) (r : List Nat) :
    rdU 4 (be4 u ++ r) = some (u, r) := by
  simp only [be4, List.cons_append, List.nil_append, rdU]
  congr 2; omega

theorem signedOf4_toU32 (i : Int) (h : fitsI32 i) : signedOf 4 (toU32 i) = i := by
  unfold fitsI32 at h
  have : signedOf 4 (toU32 i) = if toU32 i < 2147483648 then (toU32 i:Int) else (toU32 i:Int) - 4294967296 := rfl
  rw [this]; unfold toU32
  split <;> omega

theorem toU32_lt (i : Int) : toU32 i < 4294967296 := by
  unfold toU32; omega

theorem rdI4_i32be (i : Int) (h : fitsI32 i) (r : List Nat) :
    rdI 4 (i32be i ++ r) = some (i, r) := by
  unfold rdI i32be
  rw [rdU4_be4 _ (toU32_lt i)]
  simp only [signedOf4_toU32 i h]

theorem rdI32s_flatten (ps : List Int) (h : ∀ p ∈ ps, fitsI32 p) (r : List Nat) :
    rdI32s ps.length ((ps.map i32be).flatten ++ r) = some (ps, r) := by
  induction ps with
  | nil => simp [rdI32s]
  | cons p ps ih =>
    have hp : fitsI32 p := h p (by simp)
    have hps : ∀ q ∈ ps, fitsI32 q := fun q hq => h q (by simp [hq])
    simp only [List.map_cons, List.flatten_cons, List.length_cons, List.append_assoc, rdI32s]
    rw [rdI4_i32be p hp]
    simp only [ih hps]

theorem rdBytes_take (s r : List Nat) : rdBytes s.length (s ++ r) = some (s, r) := by
  simp [rdBytes]

theorem strip223_replicate (k : Nat) (r : List Nat) (h : r.head? ≠ some 223) :
    strip223 (List.replicate k 223 ++ r) = (k, r) := by
  induction k with
  | zero =>
    cases r with
    | nil => simp [strip223]
    | cons a t =>
      have : a ≠ 223 := by simpa using h
      simp [strip223, this]
  | succ k ih => simp [List.replicate_succ, strip223, ih]

/-! ### Variable-width forms: which op code, and that the matching reader inverts them -/

/-- `u32_var` writes op code `m + k` followed by the `k+1`-byte form of `u`. -/
theorem u32var_spec (m u : Nat) (h : u < 4294967296) :
    ∃ k bs, k < 4 ∧ u32var m u = (m + k) :: bs ∧ ∀ r, rdU (k + 1) (bs ++ r) = some (u, r) := by
  unfold u32var
  by_cases h1 : u / 16777216 % 256 ≠ 0
  · refine ⟨3, [u / 16777216 % 256, u / 65536 % 256, u / 256 % 256, u % 256], by omega, ?_, ?_⟩
    · simp only [if_pos h1]
    · intro r; simp only [List.cons_append, List.nil_append, rdU]; congr 2; omega
  · by_cases h2 : u / 65536 % 256 ≠ 0
    · refine ⟨2, [u / 65536 % 256, u / 256 % 256, u % 256], by omega, ?_, ?_⟩
      · simp only [if_neg h1, if_pos h2]
      · intro r; simp only [List.cons_append, List.nil_append, rdU]; congr 2; omega
    · by_cases h3 : u / 256 % 256 ≠ 0
      · refine ⟨1, [u / 256 % 256, u % 256], by omega, ?_, ?_⟩
        · simp only [if_neg h1, if_neg h2, if_pos h3]
        · intro r; simp only [List.cons_append, List.nil_append, rdU]; congr 2; omega
      · refine ⟨0, [u % 256], by omega, ?_, ?_⟩
        · simp only [if_neg h1, if_neg h2, if_neg h3, Nat.add_zero]
        · intro r; simp only [List.cons_append, List.nil_append, rdU]; congr 2; omega

/-- The op code chosen by `u32_var` is minimal: form `k` is used only if `u ≥ 256^k`. -/
theorem u32var_minimal (m u : Nat) (h : u < 4294967296) :
    (u32var m u).length = (if u < 256 then 2 else if u < 65536 then 3 else if u < 16777216 then 4 else 5) := by
  unfold u32var
  by_cases h1 : u / 16777216 % 256 ≠ 0
  · rw [if_pos h1, if_neg (by omega), if_neg (by omega), if_neg (by omega)]; rfl
  · by_cases h2 : u / 65536 % 256 ≠ 0
    · rw [if_neg h1, if_pos h2, if_neg (by omega), if_neg (by omega), if_pos (by omega)]; rfl
    · by_cases h3 : u / 256 % 256 ≠ 0
      · rw [if_neg h1, if_neg h2, if_pos h3, if_neg (by omega), if_pos (by omega)]; rfl
      · rw [if_neg h1, if_neg h2, if_neg h3, if_pos (by omega)]; rfl

theorem signedOf_1 (u : Nat) : signedOf 1 u = if u < 128 then (u:Int) else (u:Int) - 256 := rfl
theorem signedOf_2 (u : Nat) : signedOf 2 u = if u < 32768 then (u:Int) else (u:Int) - 65536 := rfl
theorem signedOf_3 (u : Nat) : signedOf 3 u = if u < 8388608 then (u:Int) else (u:Int) - 16777216 := rfl
theorem signedOf_4 (u : Nat) : signedOf 4 u = if u < 2147483648 then (u:Int) else (u:Int) - 4294967296 := rfl

/-- `i32_var` writes op code `m + k` followed by the `k+1`-byte two's complement form of `i`. -/
theorem i32var_spec (m : Nat) (i : Int) (h : fitsI32 i) :
    ∃ k bs, k < 4 ∧ i32var m i = (m + k) :: bs ∧ ∀ r, rdI (k + 1) (bs ++ r) = some (i, r) := by
  unfold fitsI32 at h
  unfold i32var
  by_cases h1 : -128 ≤ i ∧ i < 128
  · refine ⟨0, [(i % 256).toNat], by omega, ?_, ?_⟩
    · simp only [if_pos h1, Nat.add_zero]
    · intro r
      show rdI 1 _ = _
      simp only [List.cons_append, List.nil_append, rdI, rdU, signedOf_1]
      congr 2; split <;> omega
  · by_cases h2 : -32768 ≤ i ∧ i < 32768
    · refine ⟨1, be2 (i % 65536).toNat, by omega, ?_, ?_⟩
      · simp only [if_neg h1, if_pos h2]
      · intro r
        show rdI 2 _ = _
        simp only [be2, List.cons_append, List.nil_append, rdI, rdU, signedOf_2]
        congr 2; split <;> omega
    · by_cases h3 : -8388608 ≤ i ∧ i < 8388608
      · refine ⟨2, [(if i < 0 then toU32 i - 4278190080 else toU32 i) / 65536 % 256,
            (if i < 0 then toU32 i - 4278190080 else toU32 i) / 256 % 256,
            (if i < 0 then toU32 i - 4278190080 else toU32 i) % 256], by omega, ?_, ?_⟩
        · simp only [if_neg h1, if_neg h2, if_pos h3]
        · intro r
          have hu : ∃ u : Nat, (if i < 0 then toU32 i - 4278190080 else toU32 i) = u ∧
              u < 16777216 ∧
              (i : Int) = if u < 8388608 then (u : Int) else (u : Int) - 16777216 := by
            refine ⟨_, rfl, ?_, ?_⟩
            · unfold toU32; split <;> omega
            · unfold toU32; split <;> split <;> omega
          obtain ⟨u, hu1, hlt, hu2⟩ := hu
          rw [hu1]
          show rdI 3 _ = _
          simp only [List.cons_append, List.nil_append, rdI, rdU, signedOf_3]
          congr 2
          rw [hu2]
          split <;> split <;> omega
      · refine ⟨3, be4 (toU32 i), by omega, ?_, ?_⟩
        · simp only [if_neg h1, if_neg h2, if_neg h3]
        · intro r
          have := rdI4_i32be i (by unfold fitsI32; omega) r
          simpa only [i32be] using this

theorem i32var_minimal (m : Nat) (i : Int) (h : fitsI32 i) :
    (i32var m i).length =
      (if -128 ≤ i ∧ i < 128 then 2 else if -32768 ≤ i ∧ i < 32768 then 3
       else if -8388608 ≤ i ∧ i < 8388608 then 4 else 5) := by
  unfold i32var
  by_cases h1 : -128 ≤ i ∧ i < 128
  · simp [h1]
  · by_cases h2 : -32768 ≤ i ∧ i < 32768
    · simp [h1, h2, be2]
    · by_cases h3 : -8388608 ≤ i ∧ i < 8388608
      · simp [h1, h2, h3]
      · simp [h1, h2, h3, be4]

end C16
