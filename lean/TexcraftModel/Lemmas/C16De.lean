import TexcraftModel.Lemmas.C16Bytes

/-!
# C16 — `de` on arbitrary bytes returns well-formed operations, minimal-width property
-/
namespace C16

/-- What holds of an operation read from the payload `t` (after its op code) with tail `rest`. -/
def Good (t : List Nat) (op : Op) (rest : List Nat) : Prop :=
  op.WF ∧ bytesOK rest ∧ okBefore op rest ∧ (ser op).length + rest.length ≤ 1 + t.length

theorem map_some {α β : Type} {o : Option α} {f : α → β} {b : β} (h : o.map f = some b) :
    ∃ a, o = some a ∧ f a = b := by
  cases o with
  | none => cases h
  | some a => exact ⟨a, rfl, by simpa using h⟩

theorem dePayload_ok {opc : Nat} {t : List Nat} {op : Op} {rest : List Nat}
    (hopc : opc < 250) (h : dePayload opc t = some (op, rest)) (hb : bytesOK t) :
    Good t op rest := by
  unfold dePayload at h
  unfold Good
  by_cases h1 : opc < 128
  · -- 0..127
    rw [if_pos h1] at h
    simp only [Option.some.injEq, Prod.mk.injEq] at h
    obtain ⟨rfl, rfl⟩ := h
    refine ⟨by unfold Op.WF fitsU32; omega, hb, by simp [okBefore], ?_⟩
    simp [ser, h1]
  rw [if_neg h1] at h
  by_cases h2 : opc < 132
  · -- set1..set4
    rw [if_pos h2] at h
    obtain ⟨⟨u, r⟩, hu, hf⟩ := map_some h
    simp only [Prod.mk.injEq] at hf
    obtain ⟨rfl, rfl⟩ := hf
    obtain ⟨g1, g2, g3⟩ := rdU_ok hu hb
    obtain ⟨l1, l2⟩ := u32var_len_le 128 g3
    refine ⟨l2, g1, by simp [okBefore], ?_⟩
    simp only [ser]
    split
    · simp; omega
    · simp at l1 ⊢; omega

  rw [if_neg h2] at h
  by_cases h3 : opc = 132 ∨ opc = 137
  · -- set_rule / put_rule
    rw [if_pos h3] at h
    split at h
    · rename_i hh t1 e1
      split at h
      · rename_i w t2 e2
        simp only [Option.some.injEq, Prod.mk.injEq] at h
        obtain ⟨rfl, rfl⟩ := h
        obtain ⟨a1, a2, _⟩ := rdI_ok e1 hb
        obtain ⟨b1, b2, _⟩ := rdI_ok e2 a1
        refine ⟨⟨rdI_fits e1 hb, rdI_fits e2 a1⟩, b1, by simp [okBefore], ?_⟩
        simp only [ser, List.length_cons, List.length_append, i32be_length]; omega
      · cases h
    · cases h
  rw [if_neg h3] at h
  by_cases h4 : opc < 137
  · -- put1..put4
    rw [if_pos h4] at h
    obtain ⟨⟨u, r⟩, hu, hf⟩ := map_some h
    simp only [Prod.mk.injEq] at hf
    obtain ⟨rfl, rfl⟩ := hf
    obtain ⟨g1, g2, g3⟩ := rdU_ok hu hb
    obtain ⟨l1, l2⟩ := u32var_len_le 133 g3
    refine ⟨l2, g1, by simp [okBefore], ?_⟩
    simp only [ser]
    simp at l1 ⊢; omega
  rw [if_neg h4] at h
  by_cases h5 : opc = 138
  · rw [if_pos h5] at h
    simp only [Option.some.injEq, Prod.mk.injEq] at h
    obtain ⟨rfl, rfl⟩ := h
    exact ⟨trivial, hb, by simp [okBefore], by simp [ser]⟩
  rw [if_neg h5] at h
  by_cases h6 : opc = 139
  · -- bop
    rw [if_pos h6] at h
    split at h
    · rename_i ps t1 e1
      split at h
      · rename_i p t2 e2
        simp only [Option.some.injEq, Prod.mk.injEq] at h
        obtain ⟨rfl, rfl⟩ := h
        obtain ⟨a1, a2, a3, a4⟩ := rdI32s_ok e1 hb
        obtain ⟨b1, b2, _⟩ := rdI_ok e2 a1
        refine ⟨⟨a2, a3, rdI_fits e2 a1⟩, b1, by simp [okBefore], ?_⟩
        simp only [ser, List.length_cons, List.length_append, i32be_length, i32s_flatten_length]; omega
      · cases h
    · cases h
  rw [if_neg h6] at h
  by_cases h7 : opc = 140
  · rw [if_pos h7] at h
    simp only [Option.some.injEq, Prod.mk.injEq] at h
    obtain ⟨rfl, rfl⟩ := h
    exact ⟨trivial, hb, by simp [okBefore], by simp [ser]⟩
  rw [if_neg h7] at h
  by_cases h8 : opc = 141
  · rw [if_pos h8] at h
    simp only [Option.some.injEq, Prod.mk.injEq] at h
    obtain ⟨rfl, rfl⟩ := h
    exact ⟨trivial, hb, by simp [okBefore], by simp [ser]⟩
  rw [if_neg h8] at h
  by_cases h9 : opc = 142
  · rw [if_pos h9] at h
    simp only [Option.some.injEq, Prod.mk.injEq] at h
    obtain ⟨rfl, rfl⟩ := h
    exact ⟨trivial, hb, by simp [okBefore], by simp [ser]⟩
  rw [if_neg h9] at h
  by_cases h10 : opc < 147
  · -- right1..4
    rw [if_pos h10] at h
    obtain ⟨⟨i, r⟩, hu, hf⟩ := map_some h
    simp only [Prod.mk.injEq] at hf
    obtain ⟨rfl, rfl⟩ := hf
    obtain ⟨g1, g2, g3⟩ := rdI_ok hu hb
    obtain ⟨l1, l2⟩ := i32var_len_le 143 g3
    refine ⟨l2, g1, by simp [okBefore], ?_⟩
    simp only [ser]; omega
  rw [if_neg h10] at h
  by_cases h11 : opc = 147 ∨ opc = 152 ∨ opc = 161 ∨ opc = 166
  · rw [if_pos h11] at h
    simp only [Option.some.injEq, Prod.mk.injEq] at h
    obtain ⟨rfl, rfl⟩ := h
    exact ⟨trivial, hb, by simp [okBefore], by simp [ser]⟩
  rw [if_neg h11] at h
  by_cases h12 : opc < 157
  · -- w1..4, x1..4
    rw [if_pos h12] at h
    obtain ⟨⟨i, r⟩, hu, hf⟩ := map_some h
    simp only [Prod.mk.injEq] at hf
    obtain ⟨rfl, rfl⟩ := hf
    obtain ⟨g1, g2, g3⟩ := rdI_ok hu hb
    obtain ⟨l1, l2⟩ := i32var_len_le (varBase (varOfBase opc) + 1) g3
    refine ⟨l2, g1, by simp [okBefore], ?_⟩
    simp only [ser]; omega
  rw [if_neg h12] at h
  by_cases h13 : opc < 161
  · -- down1..4
    rw [if_pos h13] at h
    obtain ⟨⟨i, r⟩, hu, hf⟩ := map_some h
    simp only [Prod.mk.injEq] at hf
    obtain ⟨rfl, rfl⟩ := hf
    obtain ⟨g1, g2, g3⟩ := rdI_ok hu hb
    obtain ⟨l1, l2⟩ := i32var_len_le 157 g3
    refine ⟨l2, g1, by simp [okBefore], ?_⟩
    simp only [ser]; omega
  rw [if_neg h13] at h
  by_cases h14 : opc < 171
  · -- y1..4, z1..4
    rw [if_pos h14] at h
    obtain ⟨⟨i, r⟩, hu, hf⟩ := map_some h
    simp only [Prod.mk.injEq] at hf
    obtain ⟨rfl, rfl⟩ := hf
    obtain ⟨g1, g2, g3⟩ := rdI_ok hu hb
    obtain ⟨l1, l2⟩ := i32var_len_le (varBase (varOfBase opc) + 1) g3
    refine ⟨l2, g1, by simp [okBefore], ?_⟩
    simp only [ser]; omega
  rw [if_neg h14] at h
  by_cases h15 : opc < 235
  · -- fnt_num
    rw [if_pos h15] at h
    simp only [Option.some.injEq, Prod.mk.injEq] at h
    obtain ⟨rfl, rfl⟩ := h
    refine ⟨by unfold Op.WF fitsU32; omega, hb, by simp [okBefore], ?_⟩
    have : opc - 171 < 64 := by omega
    simp [ser, this]
  rw [if_neg h15] at h
  by_cases h16 : opc < 239
  · -- fnt1..4
    rw [if_pos h16] at h
    obtain ⟨⟨u, r⟩, hu, hf⟩ := map_some h
    simp only [Prod.mk.injEq] at hf
    obtain ⟨rfl, rfl⟩ := hf
    obtain ⟨g1, g2, g3⟩ := rdU_ok hu hb
    obtain ⟨l1, l2⟩ := u32var_len_le 235 g3
    refine ⟨l2, g1, by simp [okBefore], ?_⟩
    simp only [ser]
    split
    · simp; omega
    · omega
  rw [if_neg h16] at h
  by_cases h17 : opc < 243
  · -- xxx1..4
    rw [if_pos h17] at h
    split at h
    · rename_i n t1 e1
      obtain ⟨⟨d, r⟩, hu, hf⟩ := map_some h
      simp only [Prod.mk.injEq] at hf
      obtain ⟨rfl, rfl⟩ := hf
      obtain ⟨a1, a2, a3⟩ := rdU_ok e1 hb
      obtain ⟨c1, c2, c3, c4⟩ := rdBytes_ok hu a1
      obtain ⟨l1, l2⟩ := u32var_len_le 239 a3
      refine ⟨⟨by omega, c1⟩, c2, by simp [okBefore], ?_⟩
      have hm : min d.length 4294967295 = n := by omega
      simp only [ser, List.length_append, List.length_take, hm]
      omega
    · cases h
  rw [if_neg h17] at h
  by_cases h18 : opc < 247
  · -- fnt_def1..4
    rw [if_pos h18] at h
    split at h
    · rename_i n t1 e1
      split at h
      · rename_i c t2 e2
        split at h
        · rename_i a t3 e3
          split at h
          · rename_i d t4 e4
            split at h
            · rename_i al t5 e5
              split at h
              · rename_i nl t6 e6
                split at h
                · rename_i area t7 e7
                  obtain ⟨⟨name, r⟩, hu, hf⟩ := map_some h
                  simp only [Prod.mk.injEq] at hf
                  obtain ⟨rfl, rfl⟩ := hf
                  obtain ⟨a1, a2, a3⟩ := rdU_ok e1 hb
                  obtain ⟨b1, b2, b3⟩ := rdU_ok e2 a1
                  obtain ⟨c1, c2, c3⟩ := rdU_ok e3 b1
                  obtain ⟨d1, d2, d3⟩ := rdU_ok e4 c1
                  obtain ⟨f1, f2, f3⟩ := rdU_ok e5 d1
                  obtain ⟨g1, g2, g3⟩ := rdU_ok e6 f1
                  obtain ⟨i1, i2, i3, i4⟩ := rdBytes_ok e7 g1
                  obtain ⟨j1, j2, j3, j4⟩ := rdBytes_ok hu i2
                  obtain ⟨l1, l2⟩ := u32var_len_le 243 a3
                  refine ⟨⟨l2, by unfold fitsU32; omega, by unfold fitsU32; omega,
                    by unfold fitsU32; omega, by omega, by omega, i1, j1⟩, j2, by simp [okBefore], ?_⟩
                  have hm1 : strLen area = al := by unfold strLen; omega
                  have hm2 : strLen name = nl := by unfold strLen; omega
                  simp only [ser, List.length_append, List.length_take, List.length_cons,
                    List.length_nil, be4_length, hm1, hm2]
                  omega
                · cases h
              · cases h
            · cases h
          · cases h
        · cases h
      · cases h
    · cases h
  rw [if_neg h18] at h
  by_cases h19 : opc = 247
  · -- pre
    rw [if_pos h19] at h
    split at h
    · rename_i f t1 e1
      split at h
      · rename_i n t2 e2
        split at h
        · rename_i d t3 e3
          split at h
          · rename_i m t4 e4
            split at h
            · rename_i l t5 e5
              obtain ⟨⟨c, r⟩, hu, hf⟩ := map_some h
              simp only [Prod.mk.injEq] at hf
              obtain ⟨rfl, rfl⟩ := hf
              obtain ⟨a1, a2, a3⟩ := rdU_ok e1 hb
              obtain ⟨b1, b2, b3⟩ := rdU_ok e2 a1
              obtain ⟨c1, c2, c3⟩ := rdU_ok e3 b1
              obtain ⟨d1, d2, d3⟩ := rdU_ok e4 c1
              obtain ⟨f1, f2, f3⟩ := rdU_ok e5 d1
              obtain ⟨j1, j2, j3, j4⟩ := rdBytes_ok hu f1
              refine ⟨⟨by omega, by unfold fitsU32; omega, by unfold fitsU32; omega,
                by unfold fitsU32; omega, by omega, j1⟩, j2, by simp [okBefore], ?_⟩
              have hm1 : strLen c = l := by unfold strLen; omega
              simp only [ser, List.length_append, List.length_take, List.length_cons,
                List.length_nil, be4_length, hm1]
              omega
            · cases h
          · cases h
        · cases h
      · cases h
    · cases h
  rw [if_neg h19] at h
  by_cases h20 : opc = 248
  · -- post
    rw [if_pos h20] at h
    split at h
    · rename_i fbp t1 e1
      split at h
      · rename_i n t2 e2
        split at h
        · rename_i d t3 e3
          split at h
          · rename_i m t4 e4
            split at h
            · rename_i lh t5 e5
              split at h
              · rename_i lw t6 e6
                split at h
                · rename_i ms t7 e7
                  obtain ⟨⟨np, r⟩, hu, hf⟩ := map_some h
                  simp only [Prod.mk.injEq] at hf
                  obtain ⟨rfl, rfl⟩ := hf
                  obtain ⟨a1, a2, a3⟩ := rdI_ok e1 hb
                  obtain ⟨b1, b2, b3⟩ := rdU_ok e2 a1
                  obtain ⟨c1, c2, c3⟩ := rdU_ok e3 b1
                  obtain ⟨d1, d2, d3⟩ := rdU_ok e4 c1
                  obtain ⟨f1, f2, f3⟩ := rdU_ok e5 d1
                  obtain ⟨g1, g2, g3⟩ := rdU_ok e6 f1
                  obtain ⟨i1, i2, i3⟩ := rdU_ok e7 g1
                  obtain ⟨j1, j2, j3⟩ := rdU_ok hu i1
                  refine ⟨⟨rdI_fits e1 hb, by unfold fitsU32; omega, by unfold fitsU32; omega,
                    by unfold fitsU32; omega, by unfold fitsU32; omega, by unfold fitsU32; omega,
                    by omega, by omega⟩, j1, by simp [okBefore], ?_⟩
                  simp only [ser, List.length_append, List.length_cons,
                    be4_length, be2_length, i32be_length]
                  omega
                · cases h
              · cases h
            · cases h
          · cases h
        · cases h
      · cases h
    · cases h
  rw [if_neg h20] at h
  -- post_post
  split at h
  · rename_i f t1 e1
    split at h
    · rename_i p t2 e2
      simp only [Option.some.injEq, Prod.mk.injEq] at h
      obtain ⟨rfl, rfl⟩ := h
      obtain ⟨a1, a2, a3⟩ := rdU_ok e1 hb
      obtain ⟨b1, b2, b3⟩ := rdI_ok e2 a1
      obtain ⟨s1, s2, s3⟩ := strip223_ok t2 b1
      refine ⟨⟨by omega, rdI_fits e2 a1⟩, s1, s2, ?_⟩
      simp only [ser, List.length_append, List.length_cons, List.length_nil, i32be_length,
        List.length_replicate]
      omega
    · cases h
  · cases h


/-- `de` on a byte string: the operation is a value of the Rust types, the tail is a byte string,
an `EndPostamble` has absorbed every 223 byte that followed it, and the writer's form of the
operation is no longer than the bytes consumed. -/
theorem de_good {b : List Nat} {op : Op} {rest : List Nat} (hb : bytesOK b)
    (h : de b = .ok (some (op, rest))) :
    op.WF ∧ bytesOK rest ∧ okBefore op rest ∧ (ser op).length + rest.length ≤ b.length := by
  cases b with
  | nil => simp [de] at h
  | cons opc t =>
    rw [bytesOK_cons] at hb
    unfold de at h
    simp only at h
    split at h
    · cases h
    · rename_i hlt
      split at h
      · rename_i r hr
        simp only [Except.ok.injEq, Option.some.injEq] at h
        subst h
        have := dePayload_ok (by omega) hr hb.2
        unfold Good at this
        simpa only [List.length_cons, Nat.add_comm] using this
      · cases h

/-! ### Sequences -/

def AllWF (ops : List Op) : Prop := ∀ op ∈ ops, op.WF

theorem ser_head_223 (op : Op) (hwf : op.WF) (h : (ser op).head? = some 223) :
    op = .enableFont 52 := by
  cases op with
  | typesetChar c m =>
    exfalso
    simp only [ser] at h
    split at h
    · rename_i hc; simp at h; omega
    · obtain ⟨k, bs, hk, he, _⟩ := u32var_spec (if m then 128 else 133) c hwf
      rw [he] at h
      simp at h
      split at h <;> omega
  | typesetRule hh w m => exfalso; simp only [ser, List.head?_cons, Option.some.injEq] at h; split at h <;> omega
  | noOp => simp [ser] at h
  | beginPage ps p => simp [ser] at h
  | endPage => simp [ser] at h
  | push => simp [ser] at h
  | pop => simp [ser] at h
  | right i =>
    exfalso
    obtain ⟨k, bs, hk, he, _⟩ := i32var_spec 143 i hwf
    simp only [ser, he, List.head?_cons, Option.some.injEq] at h; omega
  | move v => cases v <;> simp [ser, varBase] at h
  | setVar v i =>
    exfalso
    obtain ⟨k, bs, hk, he, _⟩ := i32var_spec (varBase v + 1) i hwf
    simp only [ser, he, List.head?_cons, Option.some.injEq] at h
    cases v <;> simp only [varBase] at h <;> omega
  | down i =>
    exfalso
    obtain ⟨k, bs, hk, he, _⟩ := i32var_spec 157 i hwf
    simp only [ser, he, List.head?_cons, Option.some.injEq] at h; omega
  | enableFont u =>
    simp only [ser] at h
    split at h
    · simp only [List.head?_cons, Option.some.injEq] at h
      have : u = 52 := by omega
      rw [this]
    · exfalso
      obtain ⟨k, bs, hk, he, _⟩ := u32var_spec 235 u hwf
      simp only [he, List.head?_cons, Option.some.injEq] at h; omega
  | extension d =>
    exfalso
    obtain ⟨k, bs, hk, he, _⟩ := u32var_spec 239 (min d.length 4294967295) (by omega)
    simp only [ser, he, List.cons_append, List.head?_cons, Option.some.injEq] at h; omega
  | defineFont n c a d area name =>
    exfalso
    obtain ⟨k, bs, hk, he, _⟩ := u32var_spec 243 n hwf.1
    simp only [ser, he, List.cons_append, List.head?_cons, Option.some.injEq] at h; omega
  | preamble f n d m c => simp [ser] at h
  | beginPostamble fbp n d m lh lw ms np => simp [ser] at h
  | endPostamble f p k => simp [ser] at h

theorem u32var_ne_nil (m u : Nat) : u32var m u ≠ [] := by
  unfold u32var
  simp only []
  split
  · simp
  · split
    · simp
    · split <;> simp

theorem i32var_ne_nil (m : Nat) (i : Int) : i32var m i ≠ [] := by
  unfold i32var
  split
  · simp
  · split
    · simp
    · split <;> simp

theorem ser_ne_nil' (op : Op) : ser op ≠ [] := by
  cases op with
  | typesetChar c m => simp only [ser]; split; · simp
                       · exact u32var_ne_nil _ _
  | right i => exact i32var_ne_nil _ _
  | setVar v i => exact i32var_ne_nil _ _
  | down i => exact i32var_ne_nil _ _
  | enableFont u => simp only [ser]; split; · simp
                    · exact u32var_ne_nil _ _
  | extension d =>
    simp only [ser]
    intro h
    exact u32var_ne_nil _ _ (List.append_eq_nil_iff.mp h).1
  | defineFont n c a d area name => simp [ser, be4]
  | _ => simp [ser]

theorem serAll_cons (op : Op) (ops : List Op) : serAll (op :: ops) = ser op ++ serAll ops := by
  simp [serAll]

theorem serAll_head_223 (op : Op) (ops : List Op) (hwf : op.WF)
    (h : (serAll (op :: ops)).head? = some 223) : op = .enableFont 52 := by
  rw [serAll_cons] at h
  have hne := ser_ne_nil' op
  cases hs : ser op with
  | nil => exact absurd hs hne
  | cons a t =>
    rw [hs] at h
    apply ser_head_223 op hwf
    rw [hs]
    simpa using h

theorem seqWF_of (ops : List Op) (hwf : AllWF ops) (hp : Post52Free ops) : SeqWF ops := by
  induction ops with
  | nil => trivial
  | cons op ops ih =>
    have hwf' : AllWF ops := fun o ho => hwf o (List.mem_cons_of_mem _ ho)
    refine ⟨hwf op (List.mem_cons_self), ?_, ?_⟩
    · cases ops with
      | nil => cases op <;> simp [okBefore, serAll]
      | cons op2 rest =>
        cases op with
        | endPostamble f p k =>
          simp only [okBefore]
          intro h
          have := serAll_head_223 op2 rest (hwf' op2 (List.mem_cons_self)) h
          exact hp.1 ⟨rfl, this⟩
        | _ => simp [okBefore]
    · apply ih hwf'
      cases ops with
      | nil => trivial
      | cons op2 rest => exact hp.2

end C16
