import TexcraftModel.Lemmas.C04AlgoForce

/-!
The pass driver (`passesOf`, `algoPasses`, Model/C04Algo.lean): the last pass is forced, so some
pass always answers; the answer is that of the first pass whose `algo` answers. Core Lean only.
-/
namespace C04

theorem algoPasses_some_of_forced (q : Int) (k : Nat) (ps : List Pass)
    (h : ∃ p, p ∈ ps ∧ p.force = true) : (algoPasses q k ps).isSome = true := by
  induction ps generalizing k with
  | nil => obtain ⟨p, hp, _⟩ := h; cases hp
  | cons p t ih =>
    simp only [algoPasses]
    cases ha : algo p.x q p.force with
    | some bs => rfl
    | none =>
      simp only
      apply ih
      obtain ⟨p', hp', hf⟩ := h
      rcases List.mem_cons.mp hp' with rfl | hin
      · have := algo_force_some p'.x q
        rw [hf] at ha
        rw [ha] at this
        cases this
      · exact ⟨p', hin, hf⟩

theorem passesOf_forced (x : Inst) (pretol : Int) (pf : Glue) (hyph : List Item → List Item) :
    ∃ p, p ∈ passesOf x pretol pf hyph ∧ p.force = true := by
  unfold passesOf
  simp only
  by_cases he : (x.p.emergencyStretch == 0) = true
  · rw [if_pos he]
    exact ⟨_, List.mem_cons_of_mem _ (List.mem_singleton.mpr rfl), he⟩
  · rw [if_neg he]
    exact ⟨_, List.mem_cons_of_mem _ (List.mem_cons_of_mem _ (List.mem_singleton.mpr rfl)), rfl⟩

/-- What the answering pass is. -/
theorem algoPasses_spec (q : Int) (k : Nat) (ps : List Pass) (j : Nat) (bs : List Nat)
    (h : algoPasses q k ps = some (j, bs)) :
    ∃ i p, ps[i]? = some p ∧ j = k + i ∧ algo p.x q p.force = some bs ∧
      ∀ i' p', i' < i → ps[i']? = some p' → algo p'.x q p'.force = none := by
  induction ps generalizing k with
  | nil => simp [algoPasses] at h
  | cons p t ih =>
    simp only [algoPasses] at h
    cases ha : algo p.x q p.force with
    | some b =>
      rw [ha] at h
      simp only [Option.some.injEq, Prod.mk.injEq] at h
      refine ⟨0, p, rfl, by omega, by rw [ha, h.2], ?_⟩
      intro i' p' hlt; omega
    | none =>
      rw [ha] at h
      simp only at h
      obtain ⟨i, p1, hp1, hj, hal, hprev⟩ := ih (k + 1) h
      refine ⟨i + 1, p1, by simpa using hp1, by omega, hal, ?_⟩
      intro i' p' hlt hp'
      cases i' with
      | zero => simp at hp'; rw [← hp']; exact ha
      | succ i'' => exact hprev i'' p' (by omega) (by simpa using hp')

end C04
