import TexcraftModel.Lemmas.C04AlgoScan

/-!
Facts about `groupOut` / `groupsRun` (the `while n > 0` loop of `try_break` in pure form):
where the nodes of the result come from, that every node still to be looked at is covered by a
group of the right shape, and that the result stays sorted by line class. Core Lean only.
-/
namespace C04

/-! ### Small list facts -/

theorem grp_take_takeWhile {α : Type} (p : α → Bool) (l : List α) :
    l.take (l.takeWhile p).length = l.takeWhile p := by
  induction l with
  | nil => rfl
  | cons a l ih =>
    by_cases h : p a = true
    · simp [h, ih]
    · simp [h]

theorem grp_drop_takeWhile {α : Type} (p : α → Bool) (l : List α) :
    l.drop (l.takeWhile p).length = l.dropWhile p := by
  induction l with
  | nil => rfl
  | cons a l ih =>
    by_cases h : p a = true
    · simp [h, ih]
    · simp [h]

theorem grp_mem_takeWhile {α : Type} (p : α → Bool) (l : List α) (a : α)
    (h : a ∈ l.takeWhile p) : p a = true :=
  List.all_eq_true.1 (List.all_takeWhile (p := p) (l := l)) a h

theorem grp_pairwise_of_all {α : Type} (R : α → α → Prop) (l : List α)
    (h : ∀ a, a ∈ l → ∀ b, b ∈ l → R a b) : l.Pairwise R := by
  induction l with
  | nil => exact List.Pairwise.nil
  | cons a l ih =>
    rw [List.pairwise_cons]
    refine ⟨fun b hb => h a (List.mem_cons_self ..) b (List.mem_cons_of_mem _ hb), ?_⟩
    exact ih fun a' ha' b hb => h a' (List.mem_cons_of_mem _ ha') b (List.mem_cons_of_mem _ hb)

/-! ### `lkey` arithmetic -/

theorem grp_lkey_mono (x : Inst) (a b : Nat) (h : a ≤ b) : lkey x a ≤ lkey x b := by
  unfold lkey
  simp only [Nat.min_def]
  split <;> split <;> omega

theorem grp_lkey_le_max (x : Inst) (a : Nat) : lkey x a ≤ x.p.widths.length - 1 := by
  unfold lkey
  simp only [Nat.min_def]
  split <;> omega

theorem grp_lkey_big (x : Inst) (a : Nat) (h : x.p.widths.length ≤ a + 2) :
    lkey x (a + 1) = x.p.widths.length - 1 := by
  unfold lkey
  simp only [Nat.min_def]
  split <;> omega

theorem grp_lkey_small (x : Inst) (a : Nat) (h : a + 1 < x.p.widths.length) :
    lkey x a = a := by
  unfold lkey
  simp only [Nat.min_def]
  split <;> omega

/-- In a sorted list that starts with a node of the last line class, all nodes are of the
last line class. -/
theorem grp_big_all (x : Inst) (first : ANode) (t : List ANode) (hs : SortedK x (first :: t))
    (hb : x.p.widths.length ≤ first.line + 2) (μ : ANode) (hμ : μ ∈ first :: t) :
    x.p.widths.length ≤ μ.line + 2 := by
  rcases List.mem_cons.1 hμ with rfl | hμ
  · exact hb
  · have h := (List.pairwise_cons.1 hs).1 μ hμ
    unfold lkey at h
    simp only [Nat.min_def] at h
    split at h <;> split at h <;> omega

/-- Behind the maximal prefix of nodes on line `L` (not yet in the last line class) all nodes
are of a later line class. -/
theorem grp_rest_key (x : Inst) (L : Nat) (hL : L + 2 < x.p.widths.length) (l : List ANode)
    (hs : SortedK x l) (hl : ∀ a, a ∈ l → L ≤ lkey x a.line) (μ : ANode)
    (hμ : μ ∈ l.dropWhile fun ν => ν.line == L) : L + 1 ≤ lkey x μ.line := by
  induction l with
  | nil => simp at hμ
  | cons a l ih =>
    have hs' := List.pairwise_cons.1 hs
    by_cases h : (a.line == L) = true
    · simp only [List.dropWhile_cons, h] at hμ
      exact ih hs'.2 (fun b hb => hl b (List.mem_cons_of_mem _ hb)) hμ
    · simp only [List.dropWhile_cons, h] at hμ
      have ha : L + 1 ≤ lkey x a.line := by
        have h1 := hl a (List.mem_cons_self ..)
        have h2 : a.line ≠ L := by simpa using h
        unfold lkey at h1 ⊢
        simp only [Nat.min_def] at h1 ⊢
        split at h1 <;> split <;> omega
      rcases List.mem_cons.1 hμ with rfl | hμ
      · exact ha
      · exact Nat.le_trans ha (hs'.1 μ hμ)

/-! ### `groupOut` -/

theorem grp_prune_lt (adj md : Int) : pruneThreshold adj md < awfulBad := by
  unfold pruneThreshold iabs awfulBad
  split <;> split <;> omega

/-- The new nodes of a round continue a node of the group by one line. -/
theorem grp_new_line (x : Inst) (c : BCtx) (G : List ANode) (bw : Totals) (μ : ANode)
    (h : μ ∈ newNodes c bw (scanC x c G (Cands.init, awfulBad)).1
      (pruneThreshold x.p.adjDemerits (scanC x c G (Cands.init, awfulBad)).2)) :
    ∃ ν, ν ∈ G ∧ μ.line = ν.line + 1 := by
  have hthr := grp_prune_lt x.p.adjDemerits (scanC x c G (Cands.init, awfulBad)).2
  unfold newNodes at h
  rw [List.mem_filterMap] at h
  obtain ⟨f, _, hf⟩ := h
  simp only at hf
  split at hf
  · cases hf
  · rename_i hn
    cases hf
    rcases scanC_init_from x c G f with h0 | ⟨ν, hν, _, _, hcd⟩
    · exfalso
      rw [h0] at hn
      exact hn hthr
    · exact ⟨ν, hν, by rw [hcd]⟩

theorem grp_out_mem (x : Inst) (c : BCtx) (G : List ANode) (μ : ANode) (h : μ ∈ groupOut x c G) :
    μ ∈ survivors x c G ∨ ∃ ν, ν ∈ G ∧ μ.line = ν.line + 1 := by
  unfold groupOut at h
  simp only at h
  rcases List.mem_append.1 h with h | h
  · exact Or.inl h
  · right
    split at h
    · exact grp_new_line x c G _ μ h
    · simp at h

theorem grp_surv_mem (x : Inst) (c : BCtx) (G : List ANode) (μ : ANode)
    (h : μ ∈ survivors x c G) : μ ∈ G := by
  unfold survivors at h
  exact (List.mem_filter.1 h).1

theorem groupOut_line (x : Inst) (c : BCtx) (G : List ANode) (μ : ANode) (h : μ ∈ groupOut x c G) :
    μ ∈ G ∨ ∃ ν, ν ∈ G ∧ μ.line = ν.line + 1 := by
  rcases grp_out_mem x c G μ h with h | h
  · exact Or.inl (grp_surv_mem x c G μ h)
  · exact Or.inr h

/-- `groupOut` of a sorted group whose continuations all have the same line class `K`, which
bounds the classes of the group, is sorted. -/
theorem grp_out_sorted (x : Inst) (c : BCtx) (G : List ANode) (K : Nat) (hs : SortedK x G)
    (hle : ∀ ν, ν ∈ G → lkey x ν.line ≤ K) (hK : ∀ ν, ν ∈ G → lkey x (ν.line + 1) = K) :
    SortedK x (groupOut x c G) := by
  have hmem := grp_out_mem x c G
  unfold groupOut at hmem ⊢
  simp only at hmem ⊢
  unfold SortedK
  rw [List.pairwise_append]
  have hnew : ∀ μ, μ ∈ (if (scanC x c G (Cands.init, awfulBad)).2 < awfulBad then
        newNodes c (breakWidth x c.i c.diffs) (scanC x c G (Cands.init, awfulBad)).1
          (pruneThreshold x.p.adjDemerits (scanC x c G (Cands.init, awfulBad)).2)
      else []) → lkey x μ.line = K := by
    intro μ hμ
    split at hμ
    · obtain ⟨ν, hν, hl⟩ := grp_new_line x c G _ μ hμ
      rw [hl]
      exact hK ν hν
    · simp at hμ
  refine ⟨?_, ?_, ?_⟩
  · unfold survivors
    exact List.Pairwise.sublist List.filter_sublist hs
  · apply grp_pairwise_of_all
    intro a ha b hb
    rw [hnew a ha, hnew b hb]
    exact Nat.le_refl _
  · intro a ha b hb
    rw [hnew b hb]
    exact hle a (grp_surv_mem x c G a ha)

/-- Every node of `groupOut` has a class at most that of the continuations. -/
theorem grp_out_le (x : Inst) (c : BCtx) (G : List ANode) (K : Nat)
    (hle : ∀ ν, ν ∈ G → lkey x ν.line ≤ K) (hK : ∀ ν, ν ∈ G → lkey x (ν.line + 1) = K)
    (μ : ANode) (h : μ ∈ groupOut x c G) : lkey x μ.line ≤ K := by
  rcases groupOut_line x c G μ h with h | ⟨ν, hν, hl⟩
  · exact hle μ h
  · rw [hl, hK ν hν]
    exact Nat.le_refl _

/-! ### Unfolding `groupsRun` -/

theorem grp_run_nil (x : Inst) (q : Int) (c : BCtx) (fuel : Nat) : groupsRun x q c fuel [] = [] := by
  cases fuel <;> simp [groupsRun]

theorem grp_run_big (x : Inst) (c : BCtx) (fuel : Nat) (first : ANode) (t : List ANode)
    (hb : x.p.widths.length ≤ first.line + 2) :
    groupsRun x 0 c (fuel + 1) (first :: t) = groupOut x c (first :: t) := by
  have hm : numNext x 0 (first :: t) (first :: t).length = (first :: t).length := by
    unfold numNext
    simp [hb]
  rw [groupsRun, if_neg (List.cons_ne_nil _ _)]
  simp only [hm, List.take_length, List.drop_length, grp_run_nil, List.append_nil]

theorem grp_run_small (x : Inst) (c : BCtx) (fuel : Nat) (first : ANode) (t : List ANode)
    (hb : ¬ x.p.widths.length ≤ first.line + 2) :
    groupsRun x 0 c (fuel + 1) (first :: t) =
      groupOut x c ((first :: t).takeWhile fun ν => ν.line == first.line) ++
        groupsRun x 0 c fuel ((first :: t).dropWhile fun ν => ν.line == first.line) := by
  have hm : numNext x 0 (first :: t) (first :: t).length =
      ((first :: t).takeWhile fun ν => ν.line == first.line).length := by
    unfold numNext
    simp [hb]
  rw [groupsRun, if_neg (List.cons_ne_nil _ _)]
  simp only [hm, grp_take_takeWhile, grp_drop_takeWhile]

theorem grp_dropWhile_len (first : ANode) (t : List ANode) :
    ((first :: t).dropWhile fun ν => ν.line == first.line).length ≤ t.length := by
  simp only [List.dropWhile_cons, beq_self_eq_true, ↓reduceIte]
  exact (List.dropWhile_sublist _).length_le

/-! ### The statements -/

theorem groupsRun_sub (x : Inst) (q : Int) (c : BCtx) (fuel : Nat) (todo : List ANode) (μ : ANode)
    (h : μ ∈ groupsRun x q c fuel todo) :
    ∃ G, (∀ ν, ν ∈ G → ν ∈ todo) ∧ μ ∈ groupOut x c G := by
  induction fuel generalizing todo with
  | zero => simp [groupsRun] at h
  | succ fuel ih =>
    rw [groupsRun] at h
    split at h
    · simp at h
    · simp only at h
      rcases List.mem_append.1 h with h | h
      · exact ⟨_, fun ν hν => List.mem_of_mem_take hν, h⟩
      · obtain ⟨G, hG, hμ⟩ := ih _ h
        exact ⟨G, fun ν hν => List.mem_of_mem_drop (hG ν hν), hμ⟩

theorem groupsRun_cover (x : Inst) (c : BCtx) (fuel : Nat) (todo : List ANode)
    (hf : todo.length ≤ fuel) (hs : SortedK x todo) (ν : ANode) (hν : ν ∈ todo) :
    ∃ G, ν ∈ G ∧ (∀ μ, μ ∈ G → μ ∈ todo) ∧ GroupShape x G ∧
      ∀ μ, μ ∈ groupOut x c G → μ ∈ groupsRun x 0 c fuel todo := by
  induction fuel generalizing todo with
  | zero =>
    have : todo = [] := List.eq_nil_of_length_eq_zero (Nat.le_zero.1 hf)
    subst this
    simp at hν
  | succ fuel ih =>
    cases todo with
    | nil => simp at hν
    | cons first t =>
      by_cases hb : x.p.widths.length ≤ first.line + 2
      · refine ⟨first :: t, hν, fun μ hμ => hμ, Or.inr (grp_big_all x first t hs hb), ?_⟩
        intro μ hμ
        rw [grp_run_big x c fuel first t hb]
        exact hμ
      · rw [grp_run_small x c fuel first t hb]
        rw [← List.takeWhile_append_dropWhile (p := fun ν => ν.line == first.line)
          (l := first :: t)] at hν
        rcases List.mem_append.1 hν with hν | hν
        · refine ⟨_, hν, fun μ hμ => (List.takeWhile_sublist _).subset hμ, Or.inl ?_, ?_⟩
          · intro μ hμ μ' hμ'
            have h1 := grp_mem_takeWhile _ _ _ hμ
            have h2 := grp_mem_takeWhile _ _ _ hμ'
            simp only [beq_iff_eq] at h1 h2
            rw [h1, h2]
          · intro μ hμ
            exact List.mem_append_left _ hμ
        · have hlen := grp_dropWhile_len first t
          have hsub : ((first :: t).dropWhile fun ν => ν.line == first.line).Sublist (first :: t) :=
            List.dropWhile_sublist _
          obtain ⟨G, hG1, hG2, hG3, hG4⟩ := ih _
            (Nat.le_trans hlen (Nat.le_of_succ_le_succ hf)) (List.Pairwise.sublist hsub hs) hν
          exact ⟨G, hG1, fun μ hμ => hsub.subset (hG2 μ hμ), hG3,
            fun μ hμ => List.mem_append_right _ (hG4 μ hμ)⟩

theorem groupsRun_sorted (x : Inst) (c : BCtx) (fuel : Nat) (todo : List ANode)
    (hf : todo.length ≤ fuel) (hs : SortedK x todo) :
    SortedK x (groupsRun x 0 c fuel todo) := by
  induction fuel generalizing todo with
  | zero => simp [groupsRun, SortedK]
  | succ fuel ih =>
    cases todo with
    | nil => simp [groupsRun, SortedK]
    | cons first t =>
      by_cases hb : x.p.widths.length ≤ first.line + 2
      · rw [grp_run_big x c fuel first t hb]
        have hall := grp_big_all x first t hs hb
        exact grp_out_sorted x c _ (x.p.widths.length - 1) hs
          (fun ν _ => grp_lkey_le_max x ν.line)
          (fun ν hν => grp_lkey_big x ν.line (hall ν hν))
      · rw [grp_run_small x c fuel first t hb]
        have hW : first.line + 2 < x.p.widths.length := by omega
        have hlen := grp_dropWhile_len first t
        have hsubD : ((first :: t).dropWhile fun ν => ν.line == first.line).Sublist (first :: t) :=
          List.dropWhile_sublist _
        have hsubT : ((first :: t).takeWhile fun ν => ν.line == first.line).Sublist (first :: t) :=
          List.takeWhile_sublist _
        have hGline : ∀ ν, ν ∈ ((first :: t).takeWhile fun ν => ν.line == first.line) →
            ν.line = first.line := by
          intro ν hν
          have h1 := grp_mem_takeWhile _ _ _ hν
          simpa using h1
        have hle : ∀ ν, ν ∈ ((first :: t).takeWhile fun ν => ν.line == first.line) →
            lkey x ν.line ≤ first.line + 1 := by
          intro ν hν
          rw [hGline ν hν, grp_lkey_small x first.line (by omega)]
          omega
        have hK : ∀ ν, ν ∈ ((first :: t).takeWhile fun ν => ν.line == first.line) →
            lkey x (ν.line + 1) = first.line + 1 := by
          intro ν hν
          rw [hGline ν hν, grp_lkey_small x (first.line + 1) (by omega)]
        have hfirst : ∀ a, a ∈ first :: t → first.line ≤ lkey x a.line := by
          intro a ha
          rcases List.mem_cons.1 ha with rfl | ha
          · rw [grp_lkey_small x _ (by omega)]
            exact Nat.le_refl _
          · have := (List.pairwise_cons.1 hs).1 a ha
            rw [grp_lkey_small x first.line (by omega)] at this
            exact this
        have hrest := grp_rest_key x first.line hW (first :: t) hs hfirst
        unfold SortedK
        rw [List.pairwise_append]
        refine ⟨?_, ?_, ?_⟩
        · exact grp_out_sorted x c _ (first.line + 1) (List.Pairwise.sublist hsubT hs) hle hK
        · exact ih _ (Nat.le_trans hlen (Nat.le_of_succ_le_succ hf)) (List.Pairwise.sublist hsubD hs)
        · intro a ha b hb'
          have h1 := grp_out_le x c _ (first.line + 1) hle hK a ha
          obtain ⟨G, hG, hbG⟩ := groupsRun_sub x 0 c fuel _ b hb'
          have h2 : first.line + 1 ≤ lkey x b.line := by
            rcases groupOut_line x c G b hbG with h | ⟨ν, hν, hl⟩
            · exact hrest b (hG b h)
            · rw [hl]
              exact Nat.le_trans (hrest ν (hG ν hν)) (grp_lkey_mono x _ _ (Nat.le_succ _))
          exact Nat.le_trans h1 h2

end C04
