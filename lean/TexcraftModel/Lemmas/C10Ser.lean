import TexcraftModel.Model.C10Ser
import TexcraftModel.Lemmas.C10Checks

/-! Helper lemmas for the serialiser's size table. -/
namespace C10

theorem toI16_some (n : Nat) (h : n ≤ 32767) : toI16 n = some (n : Int) := by
  simp [toI16, h]

theorem sec_some (k n : Nat) (cont : Int → SerOutcome) (h : n ≤ 32767) : sec k n cont = cont (n : Int) := by
  simp [sec, toI16_some n h]

theorem withLf_ok (s : Sizes) (hr : s.InRange) (h : sumI s.parts ≤ 32767) (h0 : -32768 ≤ sumI s.parts) :
    withLf s = .ok { s with lf := sumI s.parts } := by
  simp only [withLf, validLf32 s hr]
  rw [if_pos (by constructor <;> simp only [lim16] <;> omega)]

/-- The sizes `serialize` writes for a shape, stated directly. -/
def sizesOfShape (f : FileShape) : Sizes :=
  let bc : Int := match f.chars with | none => 1 | some (b, _) => b
  let ec : Int := match f.chars with | none => 0 | some (_, e) => e
  { lf := 6 + (18 + f.headerExtra : Nat) + (ec - bc + 1) + f.nw + f.nh + f.nd + f.ni +
      (f.steps + f.added : Nat) + f.nk + f.ne + f.np
    lh := (18 + f.headerExtra : Nat), bc := bc, ec := ec, nw := f.nw, nh := f.nh, nd := f.nd,
    ni := f.ni, nl := (f.steps + f.added : Nat), nk := f.nk, ne := f.ne, np := f.np }

theorem serializeSizes_eq (f : FileShape) (h : ShapeOK f) :
    serializeSizes f = .ok (sizesOfShape f) := by
  obtain ⟨h1, h2, ⟨h3, h3'⟩, ⟨h4, h4'⟩, ⟨h5, h5'⟩, ⟨h6, h6'⟩, h7, h8, h9, h10⟩ := h
  simp only [maxLigKernWords] at h7
  have t1 := toI16_some (18 + f.headerExtra) (by omega)
  unfold serializeSizes
  rw [sec_some 0 f.headerExtra _ (by omega)]
  simp only [t1]
  cases hc : f.chars with
  | none =>
    simp only []
    rw [sec_some 1 0 _ (by omega), sec_some 2 f.nw _ (by omega), sec_some 3 f.nh _ (by omega),
      sec_some 4 f.nd _ (by omega), sec_some 5 f.ni _ (by omega), sec_some 6 (f.steps + f.added) _ (by omega),
      sec_some 7 f.nk _ (by omega), sec_some 8 f.ne _ (by omega), sec_some 9 f.np _ (by omega)]
    have hr : Sizes.InRange ⟨0, ((18 + f.headerExtra : Nat) : Int), 1, 0, f.nw, f.nh, f.nd, f.ni,
        ((f.steps + f.added : Nat) : Int), f.nk, f.ne, f.np⟩ := by
      intro x hx
      simp only [Sizes.toList, List.mem_cons, List.not_mem_nil, or_false] at hx
      unfold InI16
      rcases hx with rfl | rfl | rfl | rfl | rfl | rfl | rfl | rfl | rfl | rfl | rfl | rfl <;> omega
    rw [withLf_ok _ hr (by rw [sumI_parts]; simp only []; omega) (by rw [sumI_parts]; simp only []; omega)]
    simp only [sumI_parts, sizesOfShape, hc]
  | some p =>
    obtain ⟨b, e⟩ := p
    have hbe := h2 b e hc
    simp only []
    rw [sec_some 1 (e + 1 - b) _ (by omega), sec_some 2 f.nw _ (by omega), sec_some 3 f.nh _ (by omega),
      sec_some 4 f.nd _ (by omega), sec_some 5 f.ni _ (by omega), sec_some 6 (f.steps + f.added) _ (by omega),
      sec_some 7 f.nk _ (by omega), sec_some 8 f.ne _ (by omega), sec_some 9 f.np _ (by omega)]
    have hr : Sizes.InRange ⟨0, ((18 + f.headerExtra : Nat) : Int), (b : Int), (e : Int), f.nw, f.nh, f.nd, f.ni,
        ((f.steps + f.added : Nat) : Int), f.nk, f.ne, f.np⟩ := by
      intro x hx
      simp only [Sizes.toList, List.mem_cons, List.not_mem_nil, or_false] at hx
      unfold InI16
      rcases hx with rfl | rfl | rfl | rfl | rfl | rfl | rfl | rfl | rfl | rfl | rfl | rfl <;> omega
    rw [withLf_ok _ hr (by rw [sumI_parts]; simp only []; omega) (by rw [sumI_parts]; simp only []; omega)]
    simp only [sumI_parts, sizesOfShape, hc]

theorem sizesOfShape_consistent (f : FileShape) (h : ShapeOK f) : Consistent (sizesOfShape f) := by
  obtain ⟨h1, h2, ⟨h3, h3'⟩, ⟨h4, h4'⟩, ⟨h5, h5'⟩, ⟨h6, h6'⟩, h7, h8, h9, h10⟩ := h
  simp only [maxLigKernWords] at h7
  cases hc : f.chars with
  | none =>
    constructor <;> simp only [sizesOfShape, hc] <;> omega
  | some p =>
    obtain ⟨b, e⟩ := p
    have hbe := h2 b e hc
    constructor <;> simp only [sizesOfShape, hc] <;> omega

theorem sizesOfShape_lf (f : FileShape) (h : ShapeOK f) :
    4 * (sizesOfShape f).lf = 24 + (bodyBytes f : Int) := by
  cases hc : f.chars with
  | none => simp only [sizesOfShape, bodyBytes, hc]; omega
  | some p =>
    obtain ⟨b, e⟩ := p
    have hbe := h.chars b e hc
    simp only [sizesOfShape, bodyBytes, hc]; omega

theorem shapeOKB_iff (f : FileShape) : shapeOKB f = true ↔ ShapeOK f := by
  constructor
  · intro h
    simp only [shapeOKB, Bool.and_eq_true, decide_eq_true_eq] at h
    obtain ⟨⟨⟨⟨⟨⟨⟨⟨⟨h1, h2⟩, h3⟩, h4⟩, h5⟩, h6⟩, h7⟩, h8⟩, h9⟩, h10⟩ := h
    refine ⟨h1, ?_, h3, h4, h5, h6, h7, h8, h9, h10⟩
    intro b e hc
    rw [hc] at h2
    simpa using h2
  · intro ⟨h1, h2, h3, h4, h5, h6, h7, h8, h9, h10⟩
    simp only [shapeOKB, Bool.and_eq_true, decide_eq_true_eq]
    refine ⟨⟨⟨⟨⟨⟨⟨⟨⟨h1, ?_⟩, h3⟩, h4⟩, h5⟩, h6⟩, h7⟩, h8⟩, h9⟩, h10⟩
    cases hc : f.chars with
    | none => rfl
    | some p =>
      obtain ⟨b, e⟩ := p
      simpa using h2 b e hc

end C10
