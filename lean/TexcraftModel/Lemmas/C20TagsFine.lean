import TexcraftModel.Model.C20TagsFine

/-! C20 — instruction-level tag machines: invariant of the locked protocol, witnesses for the mutants. -/
namespace C20.TagsFine

/-- Invariant of `lockProg`. -/
structure Good (s : St) : Prop where
  excl : ∀ i, (s.th i).pc ≠ 0 → s.owner = some i
  pcLt : ∀ i, (s.th i).pc < 4
  count : s.counter = s.out.length + 1
  lt : ∀ p ∈ s.out, 1 ≤ p.2 ∧ p.2 < s.counter
  nodup : (s.out.map (·.2)).Nodup
  loaded : ∀ i, (s.th i).pc = 2 → (s.th i).reg = s.counter

theorem good_init : Good init := by
  refine ⟨?_, ?_, rfl, ?_, ?_, ?_⟩ <;> simp [init]

theorem upd_same (f : Nat → Th) (i : Nat) (t : Th) : upd f i t i = t := by simp [upd]
theorem upd_other (f : Nat → Th) (i j : Nat) (t : Th) (h : j ≠ i) : upd f i t j = f j := by simp [upd, h]

theorem step_pc0_free (s : St) (i : Nat) (h : (s.th i).pc = 0) (ho : s.owner = none) :
    step lockProg s i = { s with owner := some i, th := upd s.th i { (s.th i) with pc := 1 } } := by
  simp [step, h, lockProg, next, ho]

theorem step_pc0_held (s : St) (i o : Nat) (h : (s.th i).pc = 0) (ho : s.owner = some o) :
    step lockProg s i = s := by
  simp [step, h, lockProg, ho]

theorem step_pc1 (s : St) (i : Nat) (h : (s.th i).pc = 1) :
    step lockProg s i = { s with th := upd s.th i { pc := 2, reg := s.counter } } := by
  simp [step, h, lockProg, next]

theorem step_pc2 (s : St) (i : Nat) (h : (s.th i).pc = 2) :
    step lockProg s i = { s with counter := (s.th i).reg + 1, out := (i, (s.th i).reg) :: s.out,
                                 th := upd s.th i { (s.th i) with pc := 3 } } := by
  simp [step, h, lockProg, next]

theorem step_pc3 (s : St) (i : Nat) (h : (s.th i).pc = 3) :
    step lockProg s i = { s with owner := none, th := upd s.th i { (s.th i) with pc := 0 } } := by
  simp [step, h, lockProg, next]

theorem good_step (s : St) (i : Nat) (g : Good s) : Good (step lockProg s i) := by
  have hlt := g.pcLt i
  have hcases : (s.th i).pc = 0 ∨ (s.th i).pc = 1 ∨ (s.th i).pc = 2 ∨ (s.th i).pc = 3 := by omega
  rcases hcases with h | h | h | h
  · -- acquire
    cases ho : s.owner with
    | some o => rw [step_pc0_held s i o h ho]; exact g
    | none =>
      rw [step_pc0_free s i h ho]
      have allzero : ∀ j, (s.th j).pc = 0 := by
        intro j
        by_cases hj : (s.th j).pc = 0
        · exact hj
        · have := g.excl j hj; rw [ho] at this; cases this
      refine ⟨?_, ?_, g.count, g.lt, g.nodup, ?_⟩
      · intro j hj
        by_cases e : j = i
        · subst e; rfl
        · simp [upd_other _ _ _ _ e, allzero j] at hj
      · intro j
        by_cases e : j = i
        · subst e; simp [upd_same]
        · simp [upd_other _ _ _ _ e]; exact g.pcLt j
      · intro j hj
        by_cases e : j = i
        · subst e; simp [upd_same] at hj
        · simp [upd_other _ _ _ _ e, allzero j] at hj
  · -- load
    rw [step_pc1 s i h]
    have hown : s.owner = some i := g.excl i (by omega)
    refine ⟨?_, ?_, g.count, g.lt, g.nodup, ?_⟩
    · intro j hj
      by_cases e : j = i
      · subst e; exact hown
      · simp [upd_other _ _ _ _ e] at hj; exact g.excl j hj
    · intro j
      by_cases e : j = i
      · subst e; simp [upd_same]
      · simp [upd_other _ _ _ _ e]; exact g.pcLt j
    · intro j hj
      by_cases e : j = i
      · subst e; simp [upd_same]
      · simp [upd_other _ _ _ _ e] at hj ⊢
        have h1 := g.excl j (by omega)
        rw [hown] at h1; injection h1 with h1; exact absurd h1.symm e
  · -- store
    rw [step_pc2 s i h]
    have hown : s.owner = some i := g.excl i (by omega)
    have hreg : (s.th i).reg = s.counter := g.loaded i h
    refine ⟨?_, ?_, ?_, ?_, ?_, ?_⟩
    · intro j hj
      by_cases e : j = i
      · subst e; exact hown
      · simp [upd_other _ _ _ _ e] at hj; exact g.excl j hj
    · intro j
      by_cases e : j = i
      · subst e; simp [upd_same]
      · simp [upd_other _ _ _ _ e]; exact g.pcLt j
    · simp [hreg, g.count]
    · intro p hp
      simp only [List.mem_cons] at hp
      rcases hp with rfl | hp
      · have := g.count; simp [hreg]; omega
      · have := g.lt p hp; simp [hreg]; omega
    · simp only [List.map_cons, List.nodup_cons]
      refine ⟨?_, g.nodup⟩
      intro hm
      obtain ⟨p, hp, hpe⟩ := List.mem_map.mp hm
      have := (g.lt p hp).2
      simp [hreg] at hpe; omega
    · intro j hj
      by_cases e : j = i
      · subst e; simp [upd_same] at hj
      · simp [upd_other _ _ _ _ e] at hj
        have h1 := g.excl j (by omega)
        rw [hown] at h1; injection h1 with h1; exact absurd h1.symm e
  · -- release
    rw [step_pc3 s i h]
    have hown : s.owner = some i := g.excl i (by omega)
    have others : ∀ j, j ≠ i → (s.th j).pc = 0 := by
      intro j e
      by_cases hj : (s.th j).pc = 0
      · exact hj
      · have h1 := g.excl j hj
        rw [hown] at h1; injection h1 with h1; exact absurd h1.symm e
    refine ⟨?_, ?_, g.count, g.lt, g.nodup, ?_⟩
    · intro j hj
      by_cases e : j = i
      · subst e; simp [upd_same] at hj
      · simp [upd_other _ _ _ _ e, others j e] at hj
    · intro j
      by_cases e : j = i
      · subst e; simp [upd_same]
      · simp [upd_other _ _ _ _ e]; exact g.pcLt j
    · intro j hj
      by_cases e : j = i
      · subst e; simp [upd_same] at hj
      · simp [upd_other _ _ _ _ e, others j e] at hj

theorem good_run (sched : List Nat) : ∀ s, Good s → Good (run lockProg s sched) := by
  induction sched with
  | nil => intro s g; exact g
  | cons i t ih => intro s g; exact ih _ (good_step s i g)

theorem lock_tags_distinct (sched : List Nat) : (tags (run lockProg init sched)).Nodup :=
  (good_run sched init good_init).nodup

theorem lock_tags_range (sched : List Nat) :
    ∀ t ∈ tags (run lockProg init sched), 1 ≤ t ∧ t < (run lockProg init sched).counter := by
  intro t ht
  obtain ⟨p, hp, rfl⟩ := List.mem_map.mp ht
  exact (good_run sched init good_init).lt p hp

theorem lock_tags_count (sched : List Nat) :
    (run lockProg init sched).counter = (tags (run lockProg init sched)).length + 1 := by
  simp [tags, (good_run sched init good_init).count]

theorem lock_mutual_exclusion (sched : List Nat) (i j : Nat)
    (hi : ((run lockProg init sched).th i).pc ≠ 0) (hj : ((run lockProg init sched).th j).pc ≠ 0) :
    i = j := by
  have g := good_run sched init good_init
  have h1 := g.excl i hi
  have h2 := g.excl j hj
  rw [h1] at h2; injection h2

theorem racy_duplicate : ∃ sched, ¬ (tags (run racyProg init sched)).Nodup :=
  ⟨[0, 0, 0, 1, 1, 1, 0, 0, 0, 1, 1, 1], by decide⟩

end C20.TagsFine

namespace C20.StaticFine

structure Good (s : St) : Prop where
  pc0 : ∀ i, (s.th i).pc = 0
  empty : s.cell = none → s.out = []
  same : ∀ c, s.cell = some c → ∀ p ∈ s.out, p.2 = c

theorem good_init : Good init := by
  refine ⟨?_, ?_, ?_⟩ <;> simp [init]

theorem good_step (s : St) (i : Nat) (g : Good s) : Good (step codedProg s i) := by
  have h := g.pc0 i
  have hpc : ∀ t : Th, ∀ j, (upd s.th i { t with pc := 0 } j).pc = 0 := by
    intro t j
    by_cases e : j = i
    · simp [upd, e]
    · simp [upd, e, g.pc0 j]
  cases hc : s.cell with
  | none =>
    have : step codedProg s i =
        { s with cell := some s.counter, counter := s.counter + 1, out := (i, s.counter) :: s.out,
                 th := upd s.th i { (s.th i) with pc := 0 } } := by
      simp [step, h, codedProg, next, hc]
    rw [this]
    refine ⟨hpc _, by simp, ?_⟩
    intro c hcell p hp
    simp at hcell
    simp only [List.mem_cons, g.empty hc, List.not_mem_nil, or_false] at hp
    subst hp; exact hcell
  | some v =>
    have : step codedProg s i =
        { s with out := (i, v) :: s.out, th := upd s.th i { (s.th i) with pc := 0 } } := by
      simp [step, h, codedProg, next, hc]
    rw [this]
    refine ⟨hpc _, by simp [hc], ?_⟩
    intro c hcell p hp
    simp only [hc] at hcell
    injection hcell with hcell
    simp only [List.mem_cons] at hp
    rcases hp with rfl | hp
    · exact hcell
    · exact g.same c (by rw [hc, hcell]) p hp

theorem good_run (sched : List Nat) : ∀ s, Good s → Good (run codedProg s sched) := by
  induction sched with
  | nil => intro s g; exact g
  | cons i t ih => intro s g; exact ih _ (good_step s i g)

theorem coded_static_once (sched : List Nat) :
    ∀ v ∈ vals (run codedProg init sched), ∀ w ∈ vals (run codedProg init sched), v = w := by
  intro v hv w hw
  have g := good_run sched init good_init
  obtain ⟨p, hp, rfl⟩ := List.mem_map.mp hv
  obtain ⟨q, hq, rfl⟩ := List.mem_map.mp hw
  cases hc : (run codedProg init sched).cell with
  | none => rw [g.empty hc] at hp; cases hp
  | some c => rw [g.same c hc p hp, g.same c hc q hq]

theorem mutant_static_two_values :
    ∃ sched, ∃ v ∈ vals (run mutantProg init sched), ∃ w ∈ vals (run mutantProg init sched), v ≠ w :=
  ⟨[0, 1, 0, 1, 0, 1], 2, by decide, 1, by decide, by decide⟩

end C20.StaticFine
