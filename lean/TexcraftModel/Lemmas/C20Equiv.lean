import TexcraftModel.Lemmas.C20GMap

/-!
C20 — why mutant 14 of the sweep (`mutants/C20/14-end-revert-via-get-mut.diff`) is equivalent.

The mutant replaces, in `end_group`, `self.backing_container.insert(key, old_val)` by
`if let Some(r) = self.backing_container.get_mut(&key) { *r = old_val; }`: the saved value is
restored only if the key is currently present. `applyLogGetMut` is that loop. Under the invariant
(`Inv.visible`: every logged key is visible, `Inv.logsNodup`) the two loops are the same function.
-/
namespace C20
variable {K V : Type} [DecidableEq K]

/-- The `end_group` loop of mutant 14. -/
def GMap.applyLogGetMut : AList K (Action V) → AList K V → AList K V
  | [], bc => bc
  | (k, .delete) :: t, bc => applyLogGetMut t (aerase k bc)
  | (k, .revert v) :: t, bc =>
    applyLogGetMut t (match alookup bc k with
      | some _ => ainsert k v bc      -- `*r = old_val`
      | none => bc)                   -- key absent: nothing restored

/-- `end_group` of mutant 14. -/
def GMap.endGroupGetMut (m : GMap K V) : Option (GMap K V) :=
  match m.groups with
  | [] => none
  | g :: gs => some { bc := GMap.applyLogGetMut g m.bc, groups := gs }

theorem applyLogGetMut_eq (g : AList K (Action V)) (bc : AList K V) (hn : NodupKeys g)
    (hv : ∀ k, (alookup g k).isSome → (alookup bc k).isSome) :
    GMap.applyLogGetMut g bc = GMap.applyLog g bc := by
  induction g generalizing bc with
  | nil => rfl
  | cons p t ih =>
    obtain ⟨k, a⟩ := p
    obtain ⟨hk, hnt⟩ := (nodupKeys_cons k a t).mp hn
    -- a key logged in the tail is not `k`, and is visible
    have tail : ∀ k', (alookup t k').isSome → k ≠ k' ∧ (alookup bc k').isSome := by
      intro k' h'
      have hne : k ≠ k' := by
        intro e; subst e; rw [hk] at h'; cases h'
      refine ⟨hne, hv k' ?_⟩
      simp [alookup_cons, hne, h']
    cases a with
    | delete =>
      simp only [GMap.applyLogGetMut, GMap.applyLog]
      apply ih _ hnt
      intro k' h'
      obtain ⟨hne, hs⟩ := tail k' h'
      rw [alookup_aerase]; simp [hne, hs]
    | revert v =>
      have hvis : (alookup bc k).isSome := hv k (by simp [alookup_cons])
      simp only [GMap.applyLogGetMut, GMap.applyLog]
      cases hb : alookup bc k with
      | none => rw [hb] at hvis; cases hvis
      | some old =>
        simp only []
        apply ih _ hnt
        intro k' h'
        obtain ⟨hne, hs⟩ := tail k' h'
        rw [alookup_ainsert]; simp [hne, hs]

/-- Mutant 14 is equivalent on every map that satisfies the invariant (hence on every reachable
map): restoring "only if present" never skips, because a logged key is always visible. -/
theorem endGroup_getMut_equiv (m : GMap K V) (h : Inv m) : m.endGroupGetMut = m.endGroup := by
  unfold GMap.endGroupGetMut GMap.endGroup
  cases hg : m.groups with
  | nil => rfl
  | cons g gs =>
    simp only []
    have hmem : g ∈ m.groups := by rw [hg]; exact List.mem_cons_self
    rw [applyLogGetMut_eq g m.bc (h.logsNodup g hmem) (h.visible g hmem)]

/-- The hypothesis is needed: on a map violating `Inv.visible` the two differ. -/
example :
    let m : GMap Nat Nat := { bc := [], groups := [[(0, .revert 7)]] }
    (m.endGroupGetMut.map (·.bc)) = some [] ∧ (m.endGroup.map (·.bc)) = some [(0, 7)] := by decide

end C20
