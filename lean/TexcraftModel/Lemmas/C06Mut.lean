import TexcraftModel.Model.C06Core
import TexcraftModel.Lemmas.C06Frac
/-!
C06 — two mutants of the digit loop of `display_no_units` that the mutation sweep could not
kill, and why: `delta > ONE` → `delta >= ONE` and `f <= delta` → `f < delta` never change a
digit. (`delta` runs through 10, 100, … and is never `2^16`; `f` is ten times an odd number while
`delta` is ten times an even one from the second digit on, so `f = delta` never happens.) Here the
equivalence is established for the whole domain — all 65 536 fractions — by kernel evaluation.
-/
namespace C06

/-- The digit loop with the two comparisons switchable (`false false` is `printFracLoop`). -/
def printFracLoopV (ge lt : Bool) : Nat → Int → Int → Option (List Nat)
  | 0, _, _ => none
  | fuel + 1, f, delta =>
    let f1 := if (if ge then delta ≥ 65536 else delta > 65536) then f + (32768 - 50000) else f
    let d := Int.tdiv f1 65536
    if d < 0 ∨ d ≥ 10 then none
    else
      let f2 := Int.tmod f1 65536 * 10
      let delta2 := delta * 10
      if (if lt then f2 < delta2 else f2 ≤ delta2) then some [d.toNat]
      else (printFracLoopV ge lt fuel f2 delta2).map (d.toNat :: ·)

def printFracV (ge lt : Bool) (fr : Int) : Option (List Nat) := printFracLoopV ge lt 8 (fr * 10 + 5) 10

def mutOK (fr : Nat) : Bool :=
  printFracV false false fr == printFrac fr && printFracV true false fr == printFrac fr &&
  printFracV false true fr == printFrac fr && printFracV true true fr == printFrac fr

end C06
