import TexcraftModel.Lemmas.C06Glue
/-!
C06 — programs of `\\advance` / `\\multiply` / `\\divide` on one register: the step functions,
the 32-bit invariant, "an error changes nothing", agreement with TeX step by step.
-/
namespace C06

def inRange32 (x : Int) : Prop := -2147483648 ≤ x ∧ x ≤ 2147483647

theorem tdiv_natAbs_le (a b : Int) : (Int.tdiv a b).natAbs ≤ a.natAbs := by
  rw [Int.natAbs_tdiv]; exact Nat.div_le_self _ _

theorem stepInt_error_unchanged (a : Int) (op : ArithOp) (v : Int) (h : stepInt a op = (v, true)) : v = a := by
  cases op <;> simp only [stepInt] at h <;> split at h <;> simp at h <;> exact h.symm

theorem stepDimen_error_unchanged (a : Int) (op : ArithOp) (v : Int) (h : stepDimen a op = (v, true)) : v = a := by
  cases op <;> simp only [stepDimen] at h <;> split at h <;> simp at h <;> exact h.symm

theorem wrap32_range (x : Int) : inRange32 (wrap32 x) := by unfold inRange32 wrap32; omega

theorem stepInt_range (a : Int) (ha : inRange32 a) (op : ArithOp) : inRange32 (stepInt a op).1 := by
  cases op with
  | advance b => simp only [stepInt, advanceInt]; exact wrap32_range _
  | multiply b =>
    simp only [stepInt, multiplyInt]
    split
    · rename_i v hv
      split at hv
      · rename_i hc
        simp only [ARes.set.injEq] at hv
        subst hv
        simp only [inI32, Bool.and_eq_true, decide_eq_true_eq] at hc
        exact hc.1
      · simp at hv
    · exact ha
  | divide b =>
    simp only [stepInt, divideInt, checkedDiv]
    split
    · rename_i v hv
      split at hv
      · rename_i q hq
        simp only [ARes.set.injEq] at hv
        subst hv
        split at hq
        · simp at hq
        · split at hq
          · simp at hq
          · rename_i hb hx
            simp only [Option.some.injEq] at hq
            subst hq
            have := tdiv_natAbs_le a b
            have hv := tdiv_cases a b hb
            have hf := xOverN_fits a b ha hb hx
            rw [hv]; exact hf
      · simp at hv
    · exact ha


theorem stepDimen_range (a : Int) (ha : inRange32 a) (op : ArithOp) : inRange32 (stepDimen a op).1 := by
  cases op with
  | advance b => simp only [stepDimen, advanceInt]; exact wrap32_range _
  | multiply b =>
    simp only [stepDimen, multiplyDimen, scaledCheckedMul]
    split
    · rename_i v hv
      split at hv
      · rename_i r hr
        simp only [ARes.set.injEq] at hv
        subst hv
        split at hr
        · rename_i r' hn
          simp only [Option.some.injEq] at hr
          subst hr
          unfold nxPlusY at hn
          split at hn
          · simp only [Res.ok.injEq] at hn; subst hn; unfold inRange32; omega
          · simp only [] at hn
            split at hn
            · rename_i hc
              simp only [Res.ok.injEq] at hn
              subst hn
              have hM : maxDimen = 1073741823 := rfl
              unfold inRange32; omega
            · simp at hn
        · simp at hr
      · simp at hv
    · exact ha
  | divide b =>
    have := stepInt_range a ha (.divide b)
    simpa [stepInt, stepDimen] using this

/-- Invariant of any program: the register always holds a 32-bit value. -/
theorem runReg_range (step : Int → ArithOp → Int × Bool)
    (hstep : ∀ a, inRange32 a → ∀ op, inRange32 (step a op).1) :
    ∀ (ops : List ArithOp) (a : Int), inRange32 a → inRange32 (runReg step a ops).1 := by
  intro ops
  induction ops with
  | nil => intro a ha; exact ha
  | cons op ops ih =>
    intro a ha
    simp only [runReg]
    exact ih _ (hstep a ha op)

/-- The number of errors of a program never exceeds its length. -/
theorem runReg_errors_le (step : Int → ArithOp → Int × Bool) :
    ∀ (ops : List ArithOp) (a : Int), (runReg step a ops).2 ≤ ops.length := by
  intro ops
  induction ops with
  | nil => intro a; simp [runReg]
  | cons op ops ih =>
    intro a
    simp only [runReg, List.length_cons]
    have := ih (step a op).1
    split <;> omega

/-- `\\multiply` and `\\divide` keep a legal dimension legal (only `\\advance` can leave the range). -/
theorem stepDimen_legal (a : Int) (ha : -maxDimen ≤ a ∧ a ≤ maxDimen) (op : ArithOp)
    (hop : ∀ b, op ≠ .advance b) :
    -maxDimen ≤ (stepDimen a op).1 ∧ (stepDimen a op).1 ≤ maxDimen := by
  have hM : maxDimen = 1073741823 := rfl
  cases op with
  | advance b => exact absurd rfl (hop b)
  | multiply b =>
    simp only [stepDimen, multiplyDimen, scaledCheckedMul]
    split
    · rename_i v hv
      split at hv
      · rename_i r hr
        simp only [ARes.set.injEq] at hv
        subst hv
        split at hr
        · rename_i r' hn
          simp only [Option.some.injEq] at hr
          subst hr
          unfold nxPlusY at hn
          split at hn
          · simp only [Res.ok.injEq] at hn; subst hn; omega
          · simp only [] at hn
            split at hn
            · rename_i hc
              simp only [Res.ok.injEq] at hn
              subst hn
              omega
            · simp at hn
        · simp at hr
      · simp at hv
    · exact ha
  | divide b =>
    simp only [stepDimen, divideInt, checkedDiv]
    split
    · rename_i v hv
      split at hv
      · rename_i q hq
        simp only [ARes.set.injEq] at hv
        subst hv
        split at hq
        · simp at hq
        · split at hq
          · simp at hq
          · simp only [Option.some.injEq] at hq
            subst hq
            have := tdiv_natAbs_le a b
            omega
      · simp at hv
    · exact ha

/-- One step of M = one step of TeX, except for the undefined `-2^31 / -1`. -/
theorem stepInt_eq_spec (a : Int) (ha : inRange32 a) (op : ArithOp)
    (hx : ¬ (a = -2147483648 ∧ op = .divide (-1))) : Spec.stepInt a op = some (stepInt a op) := by
  cases op with
  | advance b => simp [Spec.stepInt, stepInt, Spec.advanceInt, advanceInt]
  | multiply b =>
    have := multiplyInt_eq a b
    simp only [Spec.stepInt, stepInt]
    rw [← this]
    cases multiplyInt a b <;> simp
  | divide b =>
    have hx' : ¬ (a = -2147483648 ∧ b = -1) := by
      intro h; exact hx ⟨h.1, by rw [h.2]⟩
    have hb := checkedDiv_eq a b ha
    simp only [Spec.stepInt, stepInt, divideInt, Spec.divide]
    rcases hb with hb | hb
    · rw [hb]
      by_cases he : (Spec.xOverN a b).err = true
      · simp [he]
      · have he' : (Spec.xOverN a b).err = false := by simpa using he
        by_cases hf : Spec.fits (Spec.xOverN a b).val = true
        · simp [he', hf]
        · exfalso
          have hb0 : b ≠ 0 := by
            intro h0; subst h0; simp [Spec.xOverN] at he'
          have := xOverN_fits a b ha hb0 hx'
          apply hf; simp [Spec.fits]; omega
    · exact absurd hb hx'


/-- No step of the program is TeX's undefined `-2^31 / -1` (decidable, walks the model's run). -/
def runDefined : Int → List ArithOp → Bool
  | _, [] => true
  | a, op :: ops => !(decide (a = -2147483648) && decide (op = .divide (-1))) && runDefined (stepInt a op).1 ops

theorem runInt_eq_spec : ∀ (ops : List ArithOp) (a : Int), inRange32 a → runDefined a ops = true →
    Spec.runReg Spec.stepInt a ops = some (runReg stepInt a ops) := by
  intro ops
  induction ops with
  | nil => intro a _ _; rfl
  | cons op ops ih =>
    intro a ha hd
    simp only [runDefined, Bool.and_eq_true, Bool.not_eq_true', Bool.and_eq_false_iff, decide_eq_false_iff_not] at hd
    have hx : ¬ (a = -2147483648 ∧ op = .divide (-1)) := by
      intro h; rcases hd.1 with h1 | h1
      · exact h1 h.1
      · exact h1 h.2
    have h1 := stepInt_eq_spec a ha op hx
    have h2 := ih (stepInt a op).1 (stepInt_range a ha op) hd.2
    simp only [Spec.runReg, runReg, h1, h2]


end C06
