import TexcraftModel.Lemmas.C17NLInv
/-! The work-list loop of `NextLargerProgram::new` (C17) runs to completion without a panic,
within the fuel, and keeps the invariant. -/
namespace C17

theorem meas_le (σ : WL) : meas σ ≤ 2 * (σ.leaves.length + σ.nonLeaves.length) + 1 := by
  simp only [meas]; split <;> omega

theorem wl_run {G0 : List (Nat × Nat)} (hF : Functional G0) : ∀ (n : Nat) (σ : WL),
    Inv G0 σ → meas σ < n →
    ∃ σ', wlRun n σ = .ok σ' ∧ Inv G0 σ' ∧ σ'.leaves = [] ∧ σ'.nonLeaves = [] := by
  intro n
  induction n with
  | zero => intro σ _ h; omega
  | succ n ih =>
    intro σ hI hm
    cases hl : σ.leaves with
    | cons s rest =>
      have hml : meas σ = 2 * (rest.length + 1 + σ.nonLeaves.length) := by
        simp [meas, hl]
      cases hn : nxt σ.g s with
      | none =>
        have hI' := pop_none hF hI s rest hl hn
        obtain ⟨σ', h1, h2⟩ := ih _ hI' (by
          refine Nat.lt_of_le_of_lt (meas_le _) ?_
          simp only
          omega)
        exact ⟨σ', by simp only [wlRun, hl, hn]; exact h1, h2⟩
      | some l =>
        obtain ⟨hc, hg0, hnode, hln, hcnt, hother⟩ := pop_some_facts hF hI s rest hl l hn
        by_cases hk : (pend G0 (s :: σ.sorted) (cutsOf σ) l).length = 0
        · have hI' := pop_some_zero hF hI s rest hl l hn hk
          have hlen := length_filter_ne σ.nonLeaves hI.ndN l hln
          obtain ⟨σ', h1, h2⟩ := ih _ hI' (by
            simp only [meas, List.length_cons, List.isEmpty_cons, Bool.false_eq_true, if_false]
            omega)
          refine ⟨σ', ?_, h2⟩
          rw [hk] at hcnt
          simp only [wlRun, hl, hn, hcnt]
          exact h1
        · have hI' := pop_some_pos hF hI s rest hl l hn hk
          obtain ⟨σ', h1, h2⟩ := ih _ hI' (by
            refine Nat.lt_of_le_of_lt (meas_le _) ?_
            simp only
            omega)
          refine ⟨σ', ?_, h2⟩
          obtain ⟨k, hk'⟩ : ∃ k, (pend G0 (s :: σ.sorted) (cutsOf σ) l).length = k + 1 :=
            ⟨(pend G0 (s :: σ.sorted) (cutsOf σ) l).length - 1, by omega⟩
          rw [hk'] at hcnt h1
          have hk0 : ¬ (k + 1 = 0) := by omega
          simp only [wlRun, hl, hn, hcnt, hk0, if_false]
          exact h1
    | nil =>
      cases hmx : maxOf σ.nonLeaves with
      | none =>
        exact ⟨σ, by simp only [wlRun, hl, hmx], hI, hl, maxOf_none _ hmx⟩
      | some s =>
        obtain ⟨l, hgs, hln, hI'⟩ := cut_step hF hI hl s hmx
        have hlen := length_filter_ne σ.nonLeaves hI.ndN l hln
        have hml : meas σ = 2 * σ.nonLeaves.length + 1 := by simp [meas, hl]
        obtain ⟨σ', h1, h2⟩ := ih _ hI' (by
          simp only [meas, List.length_cons, List.length_nil, List.isEmpty_cons, Bool.false_eq_true,
            if_false]
          omega)
        exact ⟨σ', by simp only [wlRun, hl, hmx, hgs]; exact h1, h2⟩

/-! ### The state after the first loop -/

theorem nxt_map_self (l : List Nat) (f : Nat → Nat) (x : Nat) (hx : x ∈ l) :
    nxt (l.map (fun c => (c, f c))) x = some (f x) := by
  induction l with
  | nil => simp at hx
  | cons a t ih =>
    simp only [List.map_cons, nxt]
    by_cases h : a = x
    · simp [h]
    · simp only [h, if_false]
      rcases List.mem_cons.1 hx with h' | h'
      · exact absurd h'.symm h
      · exact ih h'

theorem length_filter_split (l : List Nat) (p : Nat → Bool) :
    (l.filter p).length + (l.filter (fun c => !p c)).length = l.length := by
  induction l with
  | nil => rfl
  | cons a t ih =>
    by_cases h : p a = true
    · simp [List.filter_cons, h]; omega
    · simp [List.filter_cons, h]; omega

theorem pend_init (G0 : List (Nat × Nat)) (x : Nat) : (pend G0 [] [] x).length = countIn G0 x := by
  unfold pend countIn
  congr 1
  apply List.filter_congr
  intro e _
  by_cases h : e.2 = x <;> simp [h]

theorem inv_init (G0 : List (Nat × Nat)) (hF : Functional G0) (order : List Nat) (hnd : order.Nodup)
    (hmem : ∀ x, x ∈ order ↔ IsNode G0 x) :
    Inv G0 (wlInit G0 order) ∧ meas (wlInit G0 order) < 2 * order.length + 2 := by
  constructor
  · refine
      { gfun := hF, graph := ?_, cntOK := ?_, ndS := by simp [wlInit], ndL := ?_,
        ndN := hnd.sublist List.filter_sublist, disSL := ?_, disSN := ?_, disLN := ?_,
        cover := ?_, nlPos := ?_, lvOK := ?_, cutTgt := ?_, cutOK := ?_, topo := ?_,
        desc := by simp [wlInit], bound := ?_ }
    · intro y; simp [wlInit, cutsOf]
    · intro x hx
      show cntGet (order.map (fun c => (c, countIn G0 c))) x = some (pend G0 [] [] x).length
      rw [pend_init]
      exact nxt_map_self order (countIn G0) x ((hmem x).2 hx)
    · show ((order.filter (fun c => countIn G0 c == 0)).reverse).Nodup
      rw [List.nodup_iff_pairwise_ne, List.pairwise_reverse]
      have := hnd.sublist (List.filter_sublist (p := fun c => countIn G0 c == 0))
      rw [List.nodup_iff_pairwise_ne] at this
      exact this.imp (fun h => fun e => h e.symm)
    · intro x hx; simp [wlInit] at hx
    · intro x hx; simp [wlInit] at hx
    · intro x hx hxn
      simp only [wlInit, List.mem_reverse, List.mem_filter] at hx hxn
      have h1 := hx.2
      have h2 := hxn.2
      simp only [beq_iff_eq] at h1
      simp [h1] at h2
    · intro x
      rw [← hmem x]
      simp only [wlInit, List.mem_reverse, List.mem_filter, List.not_mem_nil, false_or]
      constructor
      · intro h
        by_cases hc : countIn G0 x = 0
        · exact Or.inl ⟨h, by simp [hc]⟩
        · exact Or.inr ⟨h, by simp [hc]⟩
      · rintro (h | h) <;> exact h.1
    · intro x hx
      simp only [wlInit, List.mem_filter] at hx
      show pend G0 [] [] x ≠ []
      intro h
      have := pend_init G0 x
      rw [h] at this
      have h2 := hx.2
      simp only [List.length_nil] at this
      simp [← this] at h2
    · intro x hx e he
      simp only [wlInit, List.mem_reverse, List.mem_filter, beq_iff_eq] at hx
      have he' : e ∈ pend G0 [] [] x := he
      have := pend_init G0 x
      rw [hx.2] at this
      rw [List.eq_nil_of_length_eq_zero this] at he'
      simp at he'
    · intro e he; simp [wlInit] at he
    · intro e he; simp [wlInit] at he
    · intro y x _ hx; simp [wlInit] at hx
    · intro e he; simp [wlInit] at he
  · refine Nat.lt_of_le_of_lt (meas_le _) ?_
    have := length_filter_split order (fun c => countIn G0 c == 0)
    have e : (wlInit G0 order).leaves.length + (wlInit G0 order).nonLeaves.length = order.length := by
      simp only [wlInit, List.length_reverse]
      rw [← this]
      congr 2
    omega

end C17
